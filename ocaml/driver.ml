(* driver.ml -- runs the extracted model on one case per line (same protocol as the Rust harness) *)
open Model

let rec pos_of_int (i : int) : positive =
  if i = 1 then XH
  else if i land 1 = 1 then XI (pos_of_int (i lsr 1))
  else XO (pos_of_int (i lsr 1))
let n_of_int (i : int) : n = if i = 0 then N0 else Npos (pos_of_int i)
let rec int_of_pos = function XH -> 1 | XO p -> 2 * int_of_pos p | XI p -> 2 * int_of_pos p + 1
let int_of_n = function N0 -> 0 | Npos p -> int_of_pos p
let rec nat_of_int (i : int) : nat = if i <= 0 then O else S (nat_of_int (i - 1))
let rec int_of_nat = function O -> 0 | S n -> 1 + int_of_nat n

let ints (s : string) : int list =
  if s = "-" then [] else List.map int_of_string (String.split_on_char ',' s)
let nlist s = List.map n_of_int (ints s)
let show (l : int list) : string =
  if l = [] then "-" else String.concat "," (List.map string_of_int l)
let shown (l : n list) : string = show (List.map int_of_n l)
let b2i b = if b then 1 else 0

let showopts (l : n option list) : string =
  String.concat "," (List.map (function None -> "P" | Some x -> string_of_int (int_of_n x)) l)
(* outcome: Ok -> "ok <v>", Err -> "err <e>", Panic -> "panic" *)
let show_out (f : 'a -> string) (o : (unit, 'a) outcome) : string =
  match o with Ok v -> "ok " ^ f v | Err _ -> "err" | Panic _ -> "panic"

let sym_of (i : int) = match ss_of_index (n_of_int i) with Some s -> s | None -> failwith "bad symbol index"

let dispatch (op : string) (a : string array) : string =
  match op with
  | "sym_attrs" -> shown (d_sym_attrs (sym_of (int_of_string a.(0))))
  | "symbol_sizes" -> shown d_symbol_sizes
  | "sl" ->
    let base = match a.(0) with "d" -> 0 | "a" | "x" -> 1 | "w" -> 2 | _ -> 3 in
    let (((((els, cont), emp), mc), ff), ul) =
      d_sl (n_of_int base) (nlist a.(1)) (nlist a.(2)) (n_of_int (int_of_string a.(3))) in
    Printf.sprintf "%s %s %d %d %s %s" (shown els) (shown cont) (int_of_n emp) (int_of_n mc)
      (match ff with None -> "N" | Some s -> "S" ^ string_of_int (int_of_n s))
      (match ul with None -> "N" | Some s -> "S" ^ string_of_int (int_of_n s))
  | "rs_encode" -> show_out shown (d_rs_encode (sym_of (int_of_string a.(0))) (nlist a.(1)))
  | "gf_mulrow" -> let (m, ad) = d_gf_mulrow (n_of_int (int_of_string a.(0))) in shown m ^ " " ^ shown ad
  | "gf_divrow" -> showopts (d_gf_divrow (n_of_int (int_of_string a.(0))))
  | "gf_misc" -> let (l, p) = d_gf_misc in showopts l ^ " " ^ showopts p
  | "generator" -> (match d_generator (n_of_int (int_of_string a.(0))) with Some g -> "ok " ^ shown g | None -> "panic")
  | "spec_gmulrow" -> shown (d_spec_gmulrow (n_of_int (int_of_string a.(0))))
  | _ -> "unknown-op " ^ op

let () =
  let _ = (nat_of_int, int_of_nat, b2i) in
  try
    while true do
      let line = String.trim (input_line stdin) in
      if line <> "" && line.[0] <> '#' then begin
        let parts = Array.of_list (String.split_on_char ' ' line) in
        let op = parts.(0) in
        let a = Array.sub parts 1 (Array.length parts - 1) in
        let r = try dispatch op a with Stack_overflow -> "model-stack-overflow" in
        print_string r; print_newline ()
      end
    done
  with End_of_file -> ()
