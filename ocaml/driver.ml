(* driver.ml -- runs the extracted model on one case per line (same protocol as the Rust harness) *)
open Model

let rec pos_of_int (i : int) : positive =
  if i = 1 then XH
  else if i land 1 = 1 then XI (pos_of_int (i lsr 1))
  else XO (pos_of_int (i lsr 1))
let n_of_int (i : int) : n = if i = 0 then N0 else Npos (pos_of_int i)
let rec int_of_pos = function XH -> 1 | XO p -> 2 * int_of_pos p | XI p -> 2 * int_of_pos p + 1
let int_of_n = function N0 -> 0 | Npos p -> int_of_pos p
let rec nat_of_int (i : int) : nat = if i <= 0 then O else S (nat_of_int (i - 1))
let rec int_of_nat = function O -> 0 | S n -> 1 + int_of_nat n

let z_of_int (i : int) : z = if i = 0 then Z0 else if i > 0 then Zpos (pos_of_int i) else Zneg (pos_of_int (-i))
let int_of_z = function Z0 -> 0 | Zpos p -> int_of_pos p | Zneg p -> - (int_of_pos p)
let show_seg = function
  | Move (dx, dy) -> Printf.sprintf "M%d:%d" (int_of_z dx) (int_of_z dy)
  | Hor d -> Printf.sprintf "H%d" (int_of_z d)
  | Ver d -> Printf.sprintf "V%d" (int_of_z d)
  | Close -> "Z"

let parse_seg t = match t.[0] with
  | 'H' -> Hor (z_of_int (int_of_string (String.sub t 1 (String.length t - 1))))
  | 'V' -> Ver (z_of_int (int_of_string (String.sub t 1 (String.length t - 1))))
  | 'Z' -> Close
  | 'M' -> (match String.split_on_char ':' (String.sub t 1 (String.length t - 1)) with
            | [a; b] -> Move (z_of_int (int_of_string a), z_of_int (int_of_string b)) | _ -> failwith "bad move")
  | _ -> failwith "bad segment"

let ints (s : string) : int list =
  if s = "-" then [] else List.map int_of_string (String.split_on_char ',' s)
let nlist s = List.map n_of_int (ints s)
let show (l : int list) : string =
  if l = [] then "-" else String.concat "," (List.map string_of_int l)
let shown (l : n list) : string = show (List.map int_of_n l)
let b2i b = if b then 1 else 0

let showopts (l : n option list) : string =
  String.concat "," (List.map (function None -> "P" | Some x -> string_of_int (int_of_n x)) l)
(* outcome: Ok -> "ok <v>", Err -> "err <e>", Panic -> "panic" *)
let show_out (f : 'a -> string) (o : ('e, 'a) outcome) : string =
  match o with Ok v -> "ok " ^ f v | Err _ -> "err" | Panic _ -> "panic"

let bools (s : string) : bool list =
  if s = "-" then [] else List.init (String.length s) (fun i -> s.[i] = '1')
let show_bools (l : bool list) : string =
  if l = [] then "-" else String.concat "" (List.map (fun b -> if b then "1" else "0") l)
let conv_name = function EAlignment -> "Alignment" | EPadding -> "Padding" | EZeroWidth -> "ZeroWidth"
  | EDataSize -> "DataSize" | ESymbolSize -> "SymbolSize"
let show_conv o = match o with
  | Ok (e, s) -> Printf.sprintf "ok %d %s" (int_of_n (variant_index s)) (show_bools e)
  | Err e -> "err " ^ conv_name e
  | Panic _ -> "panic"

let dec_err_name = function UnexpectedCharacter -> "UnexpectedCharacter" | NotImplemented -> "NotImplemented"
  | UnexpectedEnd -> "UnexpectedEnd" | CharsetError -> "CharsetError" | ECICode -> "ECICode"
let show_dec f o = match o with Ok v -> "ok " ^ f v | Err e -> "err " ^ dec_err_name e | Panic _ -> "panic"

let parse_trace (s : string) : nat list list =
  (* "T" ^ perms joined by '/', each a comma list, "-" for the empty one *)
  let body = String.sub s 1 (String.length s - 1) in
  if body = "" then [] else
  List.map (fun p -> List.map nat_of_int (ints p)) (String.split_on_char '/' body)
let show_plan = function
  | None -> "none"
  | Some [] -> "some:-"
  | Some l -> "some:" ^ String.concat "," (List.map (fun (n, m) -> Printf.sprintf "%d:%d" (int_of_n n) (int_of_n (et_index m))) l)
let show_stats st =
  Printf.sprintf "%d %d %d %s" (int_of_n st.st_steps) (int_of_n st.st_max_live) (int_of_n st.st_iterations)
    (match st.st_last_cost with Some c -> string_of_int (int_of_n c) | None -> "N")

let show_decoding o = match o with
  | Ok v -> "ok:" ^ shown v
  | Err (PixelConversion _) -> "err:PixelConversion"
  | Err (ErrorCorrection _) -> "err:ErrorCorrection"
  | Err (DataDecoding e) -> "err:" ^ dec_err_name e
  | Panic _ -> "panic"

let sym_of (i : int) = match ss_of_index (n_of_int i) with Some s -> s | None -> failwith "bad symbol index"

let cert_suffix (a : string array) : string =
  if Array.length a > 7 && String.length a.(7) > 0 && a.(7).[0] = 'K' then
    (match String.split_on_char ';' (String.sub a.(7) 1 (String.length a.(7) - 1)) with
     | [p; c; d] ->
       let prefix = if p = "N" then None else Some (n_of_int (int_of_string p)) in
       Printf.sprintf " cert=%d" (b2i (d_certify prefix (nlist c) (nlist d)))
     | _ -> " cert=?")
  else ""

let dispatch (op : string) (a : string array) : string =
  match op with
  | "sym_attrs" -> shown (d_sym_attrs (sym_of (int_of_string a.(0))))
  | "symbol_sizes" -> shown d_symbol_sizes
  | "sl" ->
    let base = match a.(0) with "d" -> 0 | "a" | "x" -> 1 | "w" -> 2 | _ -> 3 in
    let (((((els, cont), emp), mc), ff), ul) =
      d_sl (n_of_int base) (nlist a.(1)) (nlist a.(2)) (n_of_int (int_of_string a.(3))) in
    Printf.sprintf "%s %s %d %d %s %s" (shown els) (shown cont) (int_of_n emp) (int_of_n mc)
      (match ff with None -> "N" | Some s -> "S" ^ string_of_int (int_of_n s))
      (match ul with None -> "N" | Some s -> "S" ^ string_of_int (int_of_n s))
  | "rs_encode" -> show_out shown (d_rs_encode (sym_of (int_of_string a.(0))) (nlist a.(1)))
  | "rs_decode" -> (match d_rs_decode (sym_of (int_of_string a.(0))) (nlist a.(1)) with
      | Ok v -> "ok " ^ shown v | Panic _ -> "panic"
      | Err TooManyErrors -> "err TooManyErrors" | Err ErrorsOutsideRange -> "err ErrorsOutsideRange" | Err Malfunction -> "err Malfunction")
  | "gf_mulrow" -> let (m, ad) = d_gf_mulrow (n_of_int (int_of_string a.(0))) in shown m ^ " " ^ shown ad
  | "gf_divrow" -> showopts (d_gf_divrow (n_of_int (int_of_string a.(0))))
  | "gf_misc" -> let (l, p) = d_gf_misc in showopts l ^ " " ^ showopts p
  | "generator" -> (match d_generator (n_of_int (int_of_string a.(0))) with Some g -> "ok " ^ shown g | None -> "panic")
  | "place_table" -> show_out (fun (e, same) -> shown e ^ " " ^ string_of_int (b2i same)) (d_place_table (sym_of (int_of_string a.(0))))
  | "place_write" -> show_out (fun (e, c) -> show_bools e ^ " " ^ shown c) (d_place_write (sym_of (int_of_string a.(0))) (nlist a.(1)))
  | "place_read" -> show_out shown (d_place_read (sym_of (int_of_string a.(0))) (bools a.(1)))
  | "bitmap" -> show_out (fun ((w, h), bits) -> Printf.sprintf "%d %d %s" (int_of_n w) (int_of_n h) (show_bools bits))
                  (d_bitmap (sym_of (int_of_string a.(0))) (bools a.(1)))
  | "bitmap_tag" -> let (w, bits) = d_bitmap_tag (sym_of (int_of_string a.(0))) in Printf.sprintf "ok %d %s" (int_of_n w) (shown bits)
  | "path" | "path_raw" ->
    let w = z_of_int (int_of_string a.(0)) in
    let bits = bools a.(1) in
    let showp l = if l = [] then "-" else String.concat "," (List.map show_seg l) in
    (match d_path w bits with
     | Ok l ->
       if op = "path_raw" || Array.length a < 3 then "ok path=" ^ showp l
       else
         let segs = if a.(2) = "-" then [] else List.map parse_seg (String.split_on_char ',' a.(2)) in
         (match d_path_check w bits segs with
          | Ok b -> Printf.sprintf "ok path=%s check=%d" (showp l) (b2i b)
          | _ -> "panic")
     | _ -> "panic")
  | "path_check" ->
    let segs = if a.(2) = "-" then [] else List.map parse_seg (String.split_on_char ',' a.(2)) in
    show_out (fun b -> string_of_int (b2i b)) (d_path_check (z_of_int (int_of_string a.(0))) (bools a.(1)) segs)
  | "pixels" -> show_out (fun l -> if l = [] then "-" else String.concat "," (List.map (fun (x, y) -> Printf.sprintf "%d:%d" (int_of_z x) (int_of_z y)) l))
                  (d_pixels (z_of_int (int_of_string a.(0))) (bools a.(1)))
  | "unicode" -> show_out (fun l -> show (List.map int_of_z l)) (d_unicode (z_of_int (int_of_string a.(0))) (bools a.(1)))
  | "from_bits" -> show_conv (d_from_bits (n_of_int (int_of_string a.(0))) (bools a.(1)))
  | "from_bits_flip" -> show_conv (d_from_bits_flip (sym_of (int_of_string a.(0))) (bools a.(1)) (n_of_int (int_of_string a.(2))))
  | "plan" ->
    let trace = if Array.length a > 3 then Some (parse_trace a.(3)) else None in
    (match d_plan (nlist a.(0)) (nlist a.(1)) (n_of_int (int_of_string a.(2))) trace with
     | Ok (p, st) -> show_plan p ^ " " ^ show_stats st
     | Panic PBadOracle -> "bad-oracle"
     | Panic _ -> "panic"
     | Err _ -> "err")
  | "encode" ->
    let trace = if Array.length a > 6 then Some (parse_trace a.(6)) else None in
    let eci = if a.(5) = "N" then None else Some (n_of_int (int_of_string a.(5))) in
    (match d_encode (nlist a.(0)) (nlist a.(1)) (n_of_int (int_of_string a.(2))) (a.(3) = "1") (a.(4) = "1") eci trace with
     | Ok ((s, dcw), cw) ->
       let cert = cert_suffix a in
       Printf.sprintf "ok %d %s %s%s" (int_of_n (variant_index s)) (shown dcw) (shown cw) cert
     | Err TooMuchOrIllegalData -> "err TooMuchOrIllegalData" | Err SymbolListEmpty -> "err SymbolListEmpty"
     | Panic PBadOracle -> "bad-oracle" | Panic _ -> "panic")
  | "encode_str" ->
    let trace = if Array.length a > 2 then Some (parse_trace a.(2)) else None in
    if not (List.for_all (fun c -> c < 0xD800 || (c >= 0xE000 && c < 0x110000)) (ints a.(0))) then "not-a-string" else
    (match d_encode_str (nlist a.(0)) (nlist a.(1)) trace with
     | Ok ((s, dcw), cw) -> Printf.sprintf "ok %d %s" (int_of_n (variant_index s)) (shown dcw)
     | Err TooMuchOrIllegalData -> "err TooMuchOrIllegalData" | Err SymbolListEmpty -> "err SymbolListEmpty"
     | Panic PBadOracle -> "bad-oracle" | Panic _ -> "panic")
  | "rt" ->
    let trace = if Array.length a > 6 then Some (parse_trace a.(6)) else None in
    let eci = if a.(5) = "N" then None else Some (n_of_int (int_of_string a.(5))) in
    (match d_rt (nlist a.(0)) (nlist a.(1)) (n_of_int (int_of_string a.(2))) (a.(3) = "1") (a.(4) = "1") eci trace with
     | Ok (((s, dcw), d1), d2) -> Printf.sprintf "ok %d %s %s %s%s" (int_of_n (variant_index s)) (shown dcw)
         (match d1 with Ok v -> "ok:" ^ shown v | Err e -> "err:" ^ dec_err_name e | Panic _ -> "panic") (show_decoding d2) (cert_suffix a)
     | Err TooMuchOrIllegalData -> "err TooMuchOrIllegalData" | Err SymbolListEmpty -> "err SymbolListEmpty"
     | Panic PBadOracle -> "bad-oracle" | Panic _ -> "panic")
  | "str_rt" ->
    let trace = if Array.length a > 2 then Some (parse_trace a.(2)) else None in
    if not (List.for_all (fun c -> c < 0xD800 || (c >= 0xE000 && c < 0x110000)) (ints a.(0))) then "not-a-string" else
    (match d_str_rt (nlist a.(0)) (nlist a.(1)) trace with
     | Ok ((s, dcw), back) -> Printf.sprintf "ok %d %s %s" (int_of_n (variant_index s)) (shown dcw)
         (match back with Ok v -> "ok:" ^ shown v | Err e -> "err:" ^ dec_err_name e | Panic _ -> "panic")
     | Err TooMuchOrIllegalData -> "err TooMuchOrIllegalData" | Err SymbolListEmpty -> "err SymbolListEmpty"
     | Panic PBadOracle -> "bad-oracle" | Panic _ -> "panic")
  | "dm_flip_codewords" ->
    let (r0, r1) = d_dm_flip_codewords (sym_of (int_of_string a.(0))) (nlist a.(1)) (nlist a.(2)) in
    let s0 = show_decoding r0 and s1 = show_decoding r1 in
    if s0 = s1 then "same " ^ s1 else "differs " ^ s1 ^ " " ^ s0
  | "plan_enc" ->
    let trace = if Array.length a > 3 then Some (parse_trace a.(3)) else None in
    (match d_plan_enc (nlist a.(0)) (nlist a.(1)) (n_of_int (int_of_string a.(2))) trace with
     | Ok ((p, e), st) ->
       let es = (match e with
         | Ok (cw, s) -> Printf.sprintf "ok %d %s" (int_of_n (variant_index s)) (shown cw)
         | Err TooMuchOrIllegalData -> "err TooMuchOrIllegalData -" | Err SymbolListEmpty -> "err SymbolListEmpty -"
         | Panic _ -> "panic - -") in
       show_plan p ^ " " ^ es ^ " " ^ show_stats st
     | Panic PBadOracle -> "bad-oracle" | Panic _ -> "panic" | Err _ -> "err")
  | "dm_decode" -> show_decoding (d_dm_decode (bools a.(1)) (n_of_int (int_of_string a.(0))))
  | "dm_decode_flips" -> show_decoding (d_dm_decode_flips (sym_of (int_of_string a.(0))) (nlist a.(1)) (nlist a.(2)))
  | "decode_data" -> show_dec shown (d_decode_data (nlist a.(0)))
  | "decode_str" -> show_dec shown (d_decode_str (nlist a.(0)))
  | "read_eci" -> show_dec (fun (n, e) -> Printf.sprintf "%d %d" (int_of_n n) (int_of_n e)) (d_read_eci (nlist a.(0)))
  | "write_eci" -> show_out shown (d_write_eci (n_of_int (int_of_string a.(0))))
  | "latin1_to_utf8" -> (match d_latin1_to_utf8 (nlist a.(0)) with Some s -> "ok " ^ shown s | None -> "none")
  | "utf8_to_latin1" -> (match d_utf8_to_latin1 (nlist a.(0)) with None -> "not-a-string" | Some (Some s) -> "ok " ^ shown s | Some None -> "none")
  | "from_utf8" -> (match d_from_utf8 (nlist a.(0)) with Some s -> "ok " ^ shown s | None -> "none")
  | "to_utf8" -> (match d_to_utf8 (nlist a.(0)) with Some s -> "ok " ^ shown s | None -> "not-a-string")
  | "spec_gmulrow" -> shown (d_spec_gmulrow (n_of_int (int_of_string a.(0))))
  | _ -> "unknown-op " ^ op

let () =
  let _ = (nat_of_int, int_of_nat, b2i) in
  try
    while true do
      let line = String.trim (input_line stdin) in
      if line <> "" && line.[0] <> '#' then begin
        let parts = Array.of_list (String.split_on_char ' ' line) in
        let op = parts.(0) in
        let a = Array.sub parts 1 (Array.length parts - 1) in
        let r = try dispatch op a with Stack_overflow -> "model-stack-overflow" in
        print_string r; print_newline ()
      end
    done
  with End_of_file -> ()
