use crate::util::*;
use datamatrix::data;
use datamatrix::verif;
use datamatrix::{EncodationType, SymbolList};
use flagset::FlagSet;

pub fn modes_of(mask: usize) -> FlagSet<EncodationType> {
    FlagSet::<EncodationType>::new_truncated(mask as u8)
}

pub fn list_of(a: &str) -> SymbolList {
    SymbolList::with_whitelist(ints(a).into_iter().map(sym))
}

pub fn mode_idx(m: EncodationType) -> usize {
    m.index()
}

pub fn show_plan(p: &Option<Vec<(usize, EncodationType)>>) -> String {
    match p {
        None => "none".to_string(),
        Some(v) => {
            if v.is_empty() {
                "some:-".to_string()
            } else {
                format!(
                    "some:{}",
                    v.iter().map(|(n, m)| format!("{}:{}", n, mode_idx(*m))).collect::<Vec<_>>().join(",")
                )
            }
        }
    }
}

pub fn show_stats(st: &verif::PlannerStats) -> String {
    format!(
        "{} {} {} {}",
        st.steps,
        st.max_live,
        st.iterations,
        match st.last_cost_raw {
            Some(c) => c.to_string(),
            None => "N".to_string(),
        }
    )
}

pub fn show_trace(st: &verif::PlannerStats) -> String {
    format!(
        "T{}",
        st.sort_trace.iter().map(|p| show(p)).collect::<Vec<_>>().join("/")
    )
}

/// plan <data> <symbol whitelist> <mode mask>
pub fn plan(a: &[&str]) -> String {
    let d = bytes(a[0]);
    let l = list_of(a[1]);
    let m = modes_of(int(a[2]));
    let p = data::encodation_plan(&d, &l, m);
    let st = verif::planner_stats();
    format!("{} {} {}", show_plan(&p), show_stats(&st), show_trace(&st))
}

fn enc_err(e: &data::DataEncodingError) -> &'static str {
    match e {
        data::DataEncodingError::TooMuchOrIllegalData => "TooMuchOrIllegalData",
        data::DataEncodingError::SymbolListEmpty => "SymbolListEmpty",
    }
}

/// encode <data> <symbol whitelist> <mode mask> <macros 0/1> <fnc1 0/1> <eci or N>
/// -> ok <symbol> <data codewords> <all codewords> <planner stats> T<trace>
pub fn encode(a: &[&str]) -> String {
    let d = bytes(a[0]);
    let l = list_of(a[1]);
    let m = modes_of(int(a[2]));
    let eci = if a[5] == "N" { None } else { Some(int(a[5]) as u32) };
    let r = datamatrix::DataMatrixBuilder::new()
        .with_symbol_list(l)
        .with_encodation_types(m)
        .with_macros(a[3] == "1")
        .with_fnc1_start(a[4] == "1")
        .encode_eci(&d, eci);
    let st = verif::planner_stats();
    match r {
        Ok(dm) => format!(
            "ok {} {} {} {}",
            sym_index(dm.size),
            show(dm.data_codewords()),
            show(dm.codewords()),
            show_trace(&st)
        ),
        Err(e) => format!("err {} {}", enc_err(&e), show_trace(&st)),
    }
}

/// encode_str <scalars> <symbol whitelist>
pub fn encode_str(a: &[&str]) -> String {
    let s = match crate::dec::string_of(a[0]) {
        Some(s) => s,
        None => return "not-a-string".to_string(),
    };
    let r = datamatrix::DataMatrix::encode_str(&s, list_of(a[1]));
    let st = verif::planner_stats();
    match r {
        Ok(dm) => format!("ok {} {} {}", sym_index(dm.size), show(dm.data_codewords()), show_trace(&st)),
        Err(e) => format!("err {} {}", enc_err(&e), show_trace(&st)),
    }
}
