use crate::util::*;
use datamatrix::data;
use datamatrix::verif;
use datamatrix::{EncodationType, SymbolList};
use flagset::FlagSet;

pub fn modes_of(mask: usize) -> FlagSet<EncodationType> {
    FlagSet::<EncodationType>::new_truncated(mask as u8)
}

pub fn list_of(a: &str) -> SymbolList {
    SymbolList::with_whitelist(ints(a).into_iter().map(sym))
}

pub fn mode_idx(m: EncodationType) -> usize {
    m.index()
}

pub fn show_plan(p: &Option<Vec<(usize, EncodationType)>>) -> String {
    match p {
        None => "none".to_string(),
        Some(v) => {
            if v.is_empty() {
                "some:-".to_string()
            } else {
                format!(
                    "some:{}",
                    v.iter().map(|(n, m)| format!("{}:{}", n, mode_idx(*m))).collect::<Vec<_>>().join(",")
                )
            }
        }
    }
}

pub fn show_stats(st: &verif::PlannerStats) -> String {
    format!(
        "{} {} {} {}",
        st.steps,
        st.max_live,
        st.iterations,
        match st.last_cost_raw {
            Some(c) => c.to_string(),
            None => "N".to_string(),
        }
    )
}

pub fn show_trace(st: &verif::PlannerStats) -> String {
    format!(
        "T{}",
        st.sort_trace.iter().map(|p| show(p)).collect::<Vec<_>>().join("/")
    )
}

/// plan <data> <symbol whitelist> <mode mask>
pub fn plan(a: &[&str]) -> String {
    let d = bytes(a[0]);
    let l = list_of(a[1]);
    let m = modes_of(int(a[2]));
    let p = data::encodation_plan(&d, &l, m);
    let st = verif::planner_stats();
    format!("{} {} {}", show_plan(&p), show_stats(&st), show_trace(&st))
}

fn enc_err(e: &data::DataEncodingError) -> &'static str {
    match e {
        data::DataEncodingError::TooMuchOrIllegalData => "TooMuchOrIllegalData",
        data::DataEncodingError::SymbolListEmpty => "SymbolListEmpty",
    }
}

/// encode <data> <symbol whitelist> <mode mask> <macros 0/1> <fnc1 0/1> <eci or N>
/// -> ok <symbol> <data codewords> <all codewords> <planner stats> T<trace>
pub fn encode(a: &[&str]) -> String {
    let d = bytes(a[0]);
    let l = list_of(a[1]);
    let m = modes_of(int(a[2]));
    let eci = if a[5] == "N" { None } else { Some(int(a[5]) as u32) };
    let r = datamatrix::DataMatrixBuilder::new()
        .with_symbol_list(l)
        .with_encodation_types(m)
        .with_macros(a[3] == "1")
        .with_fnc1_start(a[4] == "1")
        .encode_eci(&d, eci);
    let st = verif::planner_stats();
    match r {
        Ok(dm) => format!(
            "ok {} {} {} {}",
            sym_index(dm.size),
            show(dm.data_codewords()),
            show(dm.codewords()),
            show_trace(&st)
        ),
        Err(e) => format!("err {} {}", enc_err(&e), show_trace(&st)),
    }
}

/// encode_str <scalars> <symbol whitelist>
pub fn encode_str(a: &[&str]) -> String {
    let s = match crate::dec::string_of(a[0]) {
        Some(s) => s,
        None => return "not-a-string".to_string(),
    };
    let r = datamatrix::DataMatrix::encode_str(&s, list_of(a[1]));
    let st = verif::planner_stats();
    match r {
        Ok(dm) => format!("ok {} {} {}", sym_index(dm.size), show(dm.data_codewords()), show_trace(&st)),
        Err(e) => format!("err {} {}", enc_err(&e), show_trace(&st)),
    }
}

fn show_decoding(r: Result<Vec<u8>, datamatrix::DecodingError>) -> String {
    use datamatrix::DecodingError::*;
    match r {
        Ok(v) => format!("ok:{}", show(&v)),
        Err(PixelConversion(_)) => "err:PixelConversion".to_string(),
        Err(ErrorCorrection(_)) => "err:ErrorCorrection".to_string(),
        Err(DataDecoding(e)) => format!("err:{}", crate::dec::dec_err(&e)),
    }
}

/// rt <data> <wl> <modes> <macros> <fnc1> <eci>: encode, then decode the data codewords and the rendered symbol
pub fn rt(a: &[&str]) -> String {
    let d = bytes(a[0]);
    let l = list_of(a[1]);
    let m = modes_of(int(a[2]));
    let eci = if a[5] == "N" { None } else { Some(int(a[5]) as u32) };
    let r = datamatrix::DataMatrixBuilder::new()
        .with_symbol_list(l)
        .with_encodation_types(m)
        .with_macros(a[3] == "1")
        .with_fnc1_start(a[4] == "1")
        .encode_eci(&d, eci);
    let st = verif::planner_stats();
    match r {
        Ok(dm) => {
            let d1 = match data::decode_data(dm.data_codewords()) {
                Ok(v) => format!("ok:{}", show(&v)),
                Err(e) => format!("err:{}", crate::dec::dec_err(&e)),
            };
            let bm = dm.bitmap();
            let d2 = show_decoding(datamatrix::DataMatrix::decode(bm.bits(), bm.width()));
            format!("ok {} {} {} {} {}", sym_index(dm.size), show(dm.data_codewords()), d1, d2, show_trace(&st))
        }
        Err(e) => format!("err {} {}", enc_err(&e), show_trace(&st)),
    }
}

/// dm_decode <width> <pixels>
pub fn dm_decode(a: &[&str]) -> String {
    show_decoding(datamatrix::DataMatrix::decode(&crate::place::bools(a[1]), int(a[0])))
}

/// dm_decode_flips <symbol> <codewords> <pixel indices to flip>: render, flip, decode
pub fn dm_decode_flips(a: &[&str]) -> String {
    let s = sym(int(a[0]));
    let cw = bytes(a[1]);
    let bm = datamatrix::placement::MatrixMap::new_with_codewords(&cw, s).bitmap();
    let mut bits = bm.bits().to_vec();
    for k in ints(a[2]) {
        if k < bits.len() {
            bits[k] = !bits[k];
        }
    }
    show_decoding(datamatrix::DataMatrix::decode(&bits, bm.width()))
}

/// plan_enc <data> <wl> <modes>: data::encodation_plan, then data::encode_data with the same arguments
pub fn plan_enc(a: &[&str]) -> String {
    let d = bytes(a[0]);
    let l = list_of(a[1]);
    let m = modes_of(int(a[2]));
    let p = data::encodation_plan(&d, &l, m);
    let r = data::encode_data(&d, &l, None, m, false);
    let st = verif::planner_stats();
    let enc = match r {
        Ok((cw, size)) => format!("ok {} {}", sym_index(size), show(&cw)),
        Err(e) => format!("err {} -", enc_err(&e)),
    };
    format!("{} {} {} {}", show_plan(&p), enc, show_stats(&st), show_trace(&st))
}

/// str_rt <scalars> <wl>: encode_str, then decode_str of the data codewords
pub fn str_rt(a: &[&str]) -> String {
    let s = match crate::dec::string_of(a[0]) {
        Some(s) => s,
        None => return "not-a-string".to_string(),
    };
    let r = datamatrix::DataMatrix::encode_str(&s, list_of(a[1]));
    let st = verif::planner_stats();
    match r {
        Ok(dm) => {
            let back = match data::decode_str(dm.data_codewords()) {
                Ok(v) => format!("ok:{}", crate::dec::scalars(&v)),
                Err(e) => format!("err:{}", crate::dec::dec_err(&e)),
            };
            format!("ok {} {} {} {}", sym_index(dm.size), show(dm.data_codewords()), back, show_trace(&st))
        }
        Err(e) => format!("err {} {}", enc_err(&e), show_trace(&st)),
    }
}

/// dm_flip_codewords <symbol> <codewords> <codeword indices>: render the symbol, flip one module of
/// each listed codeword (found by comparing with the rendering of the codeword xor 0x80..0x01), decode;
/// prints "same" if the decoding result equals that of the undamaged symbol
pub fn dm_flip_codewords(a: &[&str]) -> String {
    let s = sym(int(a[0]));
    let cw = bytes(a[1]);
    let clean = datamatrix::placement::MatrixMap::new_with_codewords(&cw, s).bitmap();
    let reference = show_decoding(datamatrix::DataMatrix::decode(clean.bits(), clean.width()));
    let mut damaged_cw = cw.clone();
    for (n, k) in ints(a[2]).into_iter().enumerate() {
        damaged_cw[k] ^= 1 << (n % 8);
    }
    let damaged = datamatrix::placement::MatrixMap::new_with_codewords(&damaged_cw, s).bitmap();
    let r = show_decoding(datamatrix::DataMatrix::decode(damaged.bits(), damaged.width()));
    if r == reference {
        format!("same {}", r)
    } else {
        format!("differs {} {}", r, reference)
    }
}
