use crate::util::*;
use datamatrix::data::{self, DataDecodingError};
use datamatrix::verif;

pub fn dec_err(e: &DataDecodingError) -> &'static str {
    match e {
        DataDecodingError::UnexpectedCharacter(_, _) => "UnexpectedCharacter",
        DataDecodingError::NotImplemented(_) => "NotImplemented",
        DataDecodingError::UnexpectedEnd => "UnexpectedEnd",
        DataDecodingError::CharsetError => "CharsetError",
        DataDecodingError::ECICode => "ECICode",
    }
}

pub fn scalars(s: &str) -> String {
    let v: Vec<u32> = s.chars().map(|c| c as u32).collect();
    show(&v)
}

pub fn string_of(a: &str) -> Option<String> {
    let mut s = String::new();
    for c in ints(a) {
        s.push(char::from_u32(c as u32)?);
    }
    Some(s)
}

pub fn decode_data(a: &[&str]) -> String {
    match data::decode_data(&bytes(a[0])) {
        Ok(v) => format!("ok {}", show(&v)),
        Err(e) => format!("err {}", dec_err(&e)),
    }
}

pub fn decode_str(a: &[&str]) -> String {
    match data::decode_str(&bytes(a[0])) {
        Ok(v) => format!("ok {}", scalars(&v)),
        Err(e) => format!("err {}", dec_err(&e)),
    }
}

pub fn read_eci(a: &[&str]) -> String {
    match verif::read_eci(&bytes(a[0])) {
        Ok((n, e)) => format!("ok {} {}", n, e),
        Err(e) => format!("err {}", dec_err(&e)),
    }
}

pub fn write_eci(a: &[&str]) -> String {
    format!("ok {}", show(&verif::write_eci(int(a[0]) as u32)))
}

pub fn latin1_to_utf8(a: &[&str]) -> String {
    match data::latin1_to_utf8(&bytes(a[0])) {
        Some(s) => format!("ok {}", scalars(&s)),
        None => "none".to_string(),
    }
}

pub fn utf8_to_latin1(a: &[&str]) -> String {
    let s = match string_of(a[0]) {
        Some(s) => s,
        None => return "not-a-string".to_string(),
    };
    match data::utf8_to_latin1(&s) {
        Some(v) => format!("ok {}", show(&v)),
        None => "none".to_string(),
    }
}

pub fn from_utf8(a: &[&str]) -> String {
    match std::str::from_utf8(&bytes(a[0])) {
        Ok(s) => format!("ok {}", scalars(s)),
        Err(_) => "none".to_string(),
    }
}

pub fn to_utf8(a: &[&str]) -> String {
    match string_of(a[0]) {
        Some(s) => format!("ok {}", show(s.as_bytes())),
        None => "not-a-string".to_string(),
    }
}
