//! Correspondence harness: reads one case per line on stdin, runs the
//! implementation, prints one canonical result line per case.
//! Line format:  <op> <arg> <arg> ...   (list args: comma separated, `-` = empty)
use std::io::{BufRead, Write};

mod util;
mod sym;
mod rs;
mod place;
mod dec;
mod plan;

use util::*;

fn dispatch(op: &str, a: &[&str]) -> String {
    match op {
        "sym_attrs" => sym::sym_attrs(a),
        "symbol_sizes" => sym::symbol_sizes(a),
        "sl" => sym::sl(a),
        "rs_encode" => rs::rs_encode(a),
        "gf_mulrow" => rs::gf_mulrow(a),
        "gf_divrow" => rs::gf_divrow(a),
        "gf_misc" => rs::gf_misc(a),
        "generator" => rs::generator(a),
        "rs_decode" => rs::rs_decode(a),
        "plan" => plan::plan(a),
        "encode" => plan::encode(a),
        "encode_str" => plan::encode_str(a),
        "rt" => plan::rt(a),
        "dm_flip_codewords" => plan::dm_flip_codewords(a),
        "str_rt" => plan::str_rt(a),
        "plan_enc" => plan::plan_enc(a),
        "dm_decode" => plan::dm_decode(a),
        "dm_decode_flips" => plan::dm_decode_flips(a),
        "decode_data" => dec::decode_data(a),
        "decode_str" => dec::decode_str(a),
        "read_eci" => dec::read_eci(a),
        "write_eci" => dec::write_eci(a),
        "latin1_to_utf8" => dec::latin1_to_utf8(a),
        "utf8_to_latin1" => dec::utf8_to_latin1(a),
        "from_utf8" => dec::from_utf8(a),
        "to_utf8" => dec::to_utf8(a),
        "place_table" => place::place_table(a),
        "place_write" => place::place_write(a),
        "place_read" => place::place_read(a),
        "bitmap" => place::bitmap(a),
        "bitmap_tag" => place::bitmap_tag(a),
        "from_bits" => place::from_bits(a),
        "from_bits_flip" => place::from_bits_flip(a),
        "path" | "path_raw" => place::path(a),
        "pixels" => place::pixels(a),
        "unicode" => place::unicode(a),
        _ => format!("unknown-op {}", op),
    }
}

fn main() {
    std::panic::set_hook(Box::new(|_| {}));
    let stdin = std::io::stdin();
    let stdout = std::io::stdout();
    let mut out = std::io::BufWriter::new(stdout.lock());
    for line in stdin.lock().lines() {
        let line = line.unwrap();
        let line = line.trim();
        if line.is_empty() || line.starts_with('#') {
            continue;
        }
        let parts: Vec<&str> = line.split(' ').collect();
        let res = std::panic::catch_unwind(|| dispatch(parts[0], &parts[1..]));
        let s = match res {
            Ok(s) => s,
            Err(_) => "panic".to_string(),
        };
        writeln!(out, "{}", s).unwrap();
    }
    let _ = ints("-");
}
