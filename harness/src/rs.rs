use crate::util::*;
use datamatrix::errorcode;
use datamatrix::errorcode::verif_gf as gf;
use std::panic::catch_unwind;

pub fn rs_encode(a: &[&str]) -> String {
    let s = sym(int(a[0]));
    let data = bytes(a[1]);
    let e = errorcode::encode_error(&data, s);
    format!("ok {}", show(&e))
}

pub fn gf_mulrow(a: &[&str]) -> String {
    let x = int(a[0]) as u8;
    let v: Vec<u8> = (0..=255u8).map(|y| gf::mul(x, y)).collect();
    let w: Vec<u8> = (0..=255u8).map(|y| gf::add(x, y)).collect();
    format!("{} {}", show(&v), show(&w))
}

pub fn gf_divrow(a: &[&str]) -> String {
    let x = int(a[0]) as u8;
    let v: Vec<String> = (0..=255u8)
        .map(|y| match catch_unwind(|| gf::div(x, y)) {
            Ok(r) => r.to_string(),
            Err(_) => "P".to_string(),
        })
        .collect();
    v.join(",")
}

pub fn gf_misc(_a: &[&str]) -> String {
    let logs: Vec<String> = (0..=255u8)
        .map(|y| match catch_unwind(|| gf::log(y)) {
            Ok(r) => r.to_string(),
            Err(_) => "P".to_string(),
        })
        .collect();
    let pw: Vec<String> = (0..=255u8)
        .map(|y| match catch_unwind(|| gf::primitive_power(y)) {
            Ok(r) => r.to_string(),
            Err(_) => "P".to_string(),
        })
        .collect();
    format!("{} {}", logs.join(","), pw.join(","))
}

pub fn generator(a: &[&str]) -> String {
    let g = gf::generator(int(a[0]));
    format!("ok {}", show(g))
}

pub fn rs_decode(a: &[&str]) -> String {
    let s = sym(int(a[0]));
    let mut cw = bytes(a[1]);
    match errorcode::decode_error(&mut cw, s) {
        Ok(()) => format!("ok {}", show(&cw)),
        Err(e) => format!(
            "err {}",
            match e {
                errorcode::ErrorDecodingError::TooManyErrors => "TooManyErrors",
                errorcode::ErrorDecodingError::ErrorsOutsideRange => "ErrorsOutsideRange",
                errorcode::ErrorDecodingError::Malfunction => "Malfunction",
            }
        ),
    }
}
