use datamatrix::SymbolSize;

pub fn int(s: &str) -> usize {
    s.parse().unwrap()
}

pub fn ints(s: &str) -> Vec<usize> {
    if s == "-" {
        vec![]
    } else {
        s.split(',').map(|x| x.parse().unwrap()).collect()
    }
}

pub fn bytes(s: &str) -> Vec<u8> {
    ints(s).into_iter().map(|x| x as u8).collect()
}

pub fn show<T: std::fmt::Display>(v: &[T]) -> String {
    if v.is_empty() {
        "-".to_string()
    } else {
        v.iter().map(|x| x.to_string()).collect::<Vec<_>>().join(",")
    }
}

/// the 48 variants in declaration order (= `variant_index` of the generated Coq table)
pub const ALL: [SymbolSize; 48] = {
    use SymbolSize::*;
    [
        Square10, Square12, Square14, Square16, Square18, Square20, Square22, Square24, Square26,
        Square32, Square36, Square40, Square44, Square48, Square52, Square64, Square72, Square80,
        Square88, Square96, Square104, Square120, Square132, Square144, Rect8x18, Rect8x32,
        Rect12x26, Rect12x36, Rect16x36, Rect16x48, Rect8x48, Rect8x64, Rect8x80, Rect8x96,
        Rect8x120, Rect8x144, Rect12x64, Rect12x88, Rect16x64, Rect20x36, Rect20x44, Rect20x64,
        Rect22x48, Rect24x48, Rect24x64, Rect26x40, Rect26x48, Rect26x64,
    ]
};

pub fn sym(i: usize) -> SymbolSize {
    ALL[i]
}

pub fn sym_index(s: SymbolSize) -> usize {
    ALL.iter().position(|x| *x == s).unwrap()
}

pub fn b(x: bool) -> usize {
    x as usize
}
