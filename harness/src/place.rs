use crate::util::*;
use datamatrix::placement::{Bit, Bitmap, MatrixMap};

#[derive(Clone, Copy, PartialEq, Debug)]
pub struct Tag(pub u32);
impl Bit for Tag {
    const LOW: Self = Tag(0);
    const HIGH: Self = Tag(1);
}

pub fn bools(s: &str) -> Vec<bool> {
    if s == "-" {
        vec![]
    } else {
        s.bytes().map(|c| c == b'1').collect()
    }
}

pub fn show_bools(v: &[bool]) -> String {
    if v.is_empty() {
        "-".to_string()
    } else {
        v.iter().map(|b| if *b { '1' } else { '0' }).collect()
    }
}

/// place_table <sym>: for every module of the mapping matrix 10*codeword+bit (1-based), 1/0 for fixed
pub fn place_table(a: &[&str]) -> String {
    let s = sym(int(a[0]));
    let mut m = MatrixMap::<Tag>::new(s);
    m.traverse_mut(|cw, bits| {
        for (i, b) in bits.into_iter().enumerate() {
            *b = Tag(((cw + 1) * 10 + i + 1) as u32);
        }
    });
    m.write_padding();
    let v: Vec<u32> = m.verif_entries().iter().map(|t| t.0).collect();
    // what traverse() reads, in visiting order
    let mut r: Vec<u32> = vec![];
    m.traverse(|cw, bits| {
        for (i, b) in bits.iter().enumerate() {
            r.push(if b.0 == ((cw + 1) * 10 + i + 1) as u32 { 1 } else { 0 });
        }
    });
    format!("ok {} {}", show(&v), r.iter().all(|x| *x == 1) as usize)
}

/// place_write <sym> <codewords>: entries after new_with_codewords, and codewords() read back
pub fn place_write(a: &[&str]) -> String {
    let s = sym(int(a[0]));
    let cw = bytes(a[1]);
    let m = MatrixMap::new_with_codewords(&cw, s);
    format!("ok {} {}", show_bools(m.verif_entries()), show(&m.codewords()))
}

/// place_read <sym> <entries>
pub fn place_read(a: &[&str]) -> String {
    let s = sym(int(a[0]));
    let m = MatrixMap::<bool>::verif_from_entries(s, bools(a[1]));
    format!("ok {}", show(&m.codewords()))
}

/// bitmap <sym> <entries>: rendering with finder pattern
pub fn bitmap(a: &[&str]) -> String {
    let s = sym(int(a[0]));
    let m = MatrixMap::<bool>::verif_from_entries(s, bools(a[1]));
    let b = m.bitmap();
    format!("ok {} {} {}", b.width(), b.height(), show_bools(b.bits()))
}

/// bitmap_tag <sym>: rendering of a map whose entry i is Tag(i+2)
pub fn bitmap_tag(a: &[&str]) -> String {
    let s = sym(int(a[0]));
    let n = MatrixMap::<Tag>::new(s).verif_entries().len();
    let m = MatrixMap::<Tag>::verif_from_entries(s, (0..n).map(|i| Tag(i as u32 + 2)).collect());
    let b = m.bitmap();
    let v: Vec<u32> = b.bits().iter().map(|t| t.0).collect();
    format!("ok {} {}", b.width(), show(&v))
}

fn err_name(e: &datamatrix::placement::BitmapConversionError) -> &'static str {
    use datamatrix::placement::BitmapConversionError::*;
    match e {
        Alignment => "Alignment",
        Padding => "Padding",
        ZeroWidth => "ZeroWidth",
        DataSize => "DataSize",
        SymbolSize => "SymbolSize",
    }
}

/// from_bits <width> <bits>
pub fn from_bits(a: &[&str]) -> String {
    let w = int(a[0]);
    let bits = bools(a[1]);
    match MatrixMap::<bool>::try_from_bits(&bits, w) {
        Ok((m, s)) => format!("ok {} {}", sym_index(s), show_bools(m.verif_entries())),
        Err(e) => format!("err {}", err_name(&e)),
    }
}

/// from_bits_flip <sym> <entries> <pixel index>: render, flip one pixel, parse
pub fn from_bits_flip(a: &[&str]) -> String {
    let s = sym(int(a[0]));
    let m = MatrixMap::<bool>::verif_from_entries(s, bools(a[1]));
    let b = m.bitmap();
    let mut bits: Vec<bool> = b.bits().to_vec();
    let k = int(a[2]);
    if k < bits.len() {
        bits[k] = !bits[k];
    }
    match MatrixMap::<bool>::try_from_bits(&bits, b.width()) {
        Ok((m2, s2)) => format!("ok {} {}", sym_index(s2), show_bools(m2.verif_entries())),
        Err(e) => format!("err {}", err_name(&e)),
    }
}

#[allow(dead_code)]
pub fn bitmap_new(bits: Vec<bool>, w: usize) -> Bitmap<bool> {
    Bitmap::new(bits, w)
}

/// path <width> <bits>: Bitmap::new(bits, width).path()
pub fn path(a: &[&str]) -> String {
    use datamatrix::placement::PathSegment::*;
    let w = int(a[0]);
    let bm = Bitmap::new(bools(a[1]), w);
    let p = bm.path();
    if p.is_empty() {
        return "ok path=-".to_string();
    }
    let v: Vec<String> = p
        .iter()
        .map(|s| match s {
            Move(dx, dy) => format!("M{}:{}", dx, dy),
            Horizontal(d) => format!("H{}", d),
            Vertical(d) => format!("V{}", d),
            Close => "Z".to_string(),
        })
        .collect();
    format!("ok path={}", v.join(","))
}

/// pixels <width> <bits>
pub fn pixels(a: &[&str]) -> String {
    let w = int(a[0]);
    let bm = Bitmap::new(bools(a[1]), w);
    let v: Vec<String> = bm.pixels().map(|(x, y)| format!("{}:{}", x, y)).collect();
    if v.is_empty() {
        "ok -".to_string()
    } else {
        format!("ok {}", v.join(","))
    }
}

/// unicode <width> <bits>: code points of Bitmap::unicode()
pub fn unicode(a: &[&str]) -> String {
    let w = int(a[0]);
    let bm = Bitmap::new(bools(a[1]), w);
    let v: Vec<u32> = bm.unicode().chars().map(|c| c as u32).collect();
    format!("ok {}", show(&v))
}
