use crate::util::*;
use datamatrix::verif;
use datamatrix::SymbolList;
use std::ops::Bound;

pub fn sym_attrs(a: &[&str]) -> String {
    let s = sym(int(a[0]));
    let at = verif::symbol_attrs(s);
    let fl = verif::symbol_flags(s);
    let mut v: Vec<usize> = at.to_vec();
    v.extend(fl.iter().map(|x| b(*x)));
    show(&v)
}

pub fn symbol_sizes(_a: &[&str]) -> String {
    let v: Vec<usize> = verif::symbol_sizes().iter().map(|s| sym_index(*s)).collect();
    show(&v)
}

fn bound(kind: usize, v: usize) -> Bound<usize> {
    match kind {
        0 => Bound::Unbounded,
        1 => Bound::Included(v),
        _ => Bound::Excluded(v),
    }
}

/// sl <base d|a|w> <whitelist> <filters: groups of 5 ints> <n>
pub fn sl(a: &[&str]) -> String {
    let mut l = match a[0] {
        "d" => SymbolList::default(),
        "a" => SymbolList::all(),
        "x" => SymbolList::with_extended_rectangles(),
        _ => SymbolList::with_whitelist(ints(a[1]).into_iter().map(sym)),
    };
    if a[0] == "e" {
        // Extend on top of default
        l = SymbolList::default();
        l.extend(ints(a[1]).into_iter().map(sym));
    }
    let f = ints(a[2]);
    for g in f.chunks(5) {
        l = match g[0] {
            0 => l.enforce_square(),
            1 => l.enforce_rectangular(),
            2 => l.enforce_width_in((bound(g[1], g[2]), bound(g[3], g[4]))),
            _ => l.enforce_height_in((bound(g[1], g[2]), bound(g[3], g[4]))),
        };
    }
    let n = int(a[3]);
    let els: Vec<usize> = verif::list_elements(&l).into_iter().map(sym_index).collect();
    let contains: Vec<usize> = ALL.iter().map(|s| b(l.contains(s))).collect();
    let ff = match verif::list_first_symbol_big_enough_for(&l, n) {
        None => "N".to_string(),
        Some(s) => format!("S{}", sym_index(s)),
    };
    let ul = match verif::list_upper_limit_for_number_of_codewords(&l, n) {
        None => "N".to_string(),
        Some(s) => format!("S{}", s),
    };
    format!(
        "{} {} {} {} {} {}",
        show(&els),
        show(&contains),
        b(l.is_empty()),
        verif::list_max_capacity(&l),
        ff,
        ul
    )
}
