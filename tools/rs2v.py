#!/usr/bin/env python3
"""rs2v.py -- translator from the Rust source of datamatrix-rs to Coq tables.

Regenerates /verif/coq/Generated/*.v from /repo's *working tree* on every run.
It understands a small number of syntactic shapes and refuses everything else
with an error naming file and construct (a refusal is a broken tie).

Usage: rs2v.py <repo-root> <out-dir>      (writes only files whose content changed)
Exit status 0 = ok, 2 = refused construct (message on stderr).
"""
import os
import re
import sys


class Refuse(Exception):
    pass


# --------------------------------------------------------------------------
# lexical helpers

def strip_comments(src):
    """Remove // and /* */ comments, respecting string/char/byte literals."""
    out = []
    i, n = 0, len(src)
    while i < n:
        c = src[i]
        if c == '/' and i + 1 < n and src[i + 1] == '/':
            while i < n and src[i] != '\n':
                i += 1
        elif c == '/' and i + 1 < n and src[i + 1] == '*':
            j = src.find('*/', i + 2)
            if j < 0:
                raise Refuse("unterminated block comment")
            i = j + 2
        elif c == '"':
            j = i + 1
            while j < n and src[j] != '"':
                j += 2 if src[j] == '\\' else 1
            out.append(src[i:j + 1])
            i = j + 1
        elif c == "'":
            # char literal or lifetime
            m = re.match(r"'(\\x[0-9a-fA-F]{2}|\\u\{[0-9a-fA-F]+\}|\\.|[^\\'])'", src[i:])
            if m:
                out.append(m.group(0))
                i += len(m.group(0))
            else:
                out.append(c)
                i += 1
        else:
            out.append(c)
            i += 1
    return ''.join(out)


def balanced(src, start, open_ch, close_ch):
    """src[start] == open_ch; return index just after the matching close_ch."""
    assert src[start] == open_ch, (src[start:start + 20], open_ch)
    depth = 0
    i = start
    n = len(src)
    while i < n:
        c = src[i]
        if c == '"':
            j = i + 1
            while j < n and src[j] != '"':
                j += 2 if src[j] == '\\' else 1
            i = j + 1
            continue
        if c == "'":
            m = re.match(r"'(\\x[0-9a-fA-F]{2}|\\u\{[0-9a-fA-F]+\}|\\.|[^\\'])'", src[i:])
            if m:
                i += len(m.group(0))
                continue
        if c == open_ch:
            depth += 1
        elif c == close_ch:
            depth -= 1
            if depth == 0:
                return i + 1
        i += 1
    raise Refuse("unbalanced %s%s" % (open_ch, close_ch))


def find_block(src, header_re, what):
    """Find `header_re` followed (after optional stuff) by '{' and return body text."""
    m = re.search(header_re, src)
    if not m:
        raise Refuse("cannot find %s" % what)
    b = src.index('{', m.end() - 1) if src[m.end() - 1] != '{' else m.end() - 1
    e = balanced(src, b, '{', '}')
    return src[b + 1:e - 1]


def split_top(s, sep=','):
    """Split at top-level separators (outside (), [], {}, quotes)."""
    parts, depth, cur, i, n = [], 0, [], 0, len(s)
    while i < n:
        c = s[i]
        if c == '"':
            j = i + 1
            while j < n and s[j] != '"':
                j += 2 if s[j] == '\\' else 1
            cur.append(s[i:j + 1])
            i = j + 1
            continue
        if c == "'":
            m = re.match(r"'(\\x[0-9a-fA-F]{2}|\\u\{[0-9a-fA-F]+\}|\\.|[^\\'])'", s[i:])
            if m:
                cur.append(m.group(0))
                i += len(m.group(0))
                continue
        if c in '([{':
            depth += 1
        elif c in ')]}':
            depth -= 1
        if c == sep and depth == 0:
            parts.append(''.join(cur))
            cur = []
        else:
            cur.append(c)
        i += 1
    tail = ''.join(cur)
    if tail.strip():
        parts.append(tail)
    return [p.strip() for p in parts]


def parse_int(tok, ctx):
    t = tok.strip().replace('_', '')
    t = re.sub(r'(u8|u16|u32|u64|usize|i16|i32)$', '', t)
    try:
        if t.startswith('0x') or t.startswith('0X'):
            return int(t, 16)
        if t.startswith('0b'):
            return int(t, 2)
        return int(t, 10)
    except ValueError:
        raise Refuse("%s: not an integer literal: %r" % (ctx, tok))


ESC = {'n': 10, 'r': 13, 't': 9, '\\': 92, '0': 0, "'": 39, '"': 34}


def parse_char(tok, ctx):
    """'x', '\\x1e', '\\u{..}', b'x' -> code point"""
    t = tok.strip()
    if t.startswith('b'):
        t = t[1:]
    if not (t.startswith("'") and t.endswith("'")):
        raise Refuse("%s: not a char literal: %r" % (ctx, tok))
    body = t[1:-1]
    if body.startswith('\\x'):
        return int(body[2:], 16)
    if body.startswith('\\u{'):
        return int(body[3:-1], 16)
    if body.startswith('\\'):
        if body[1] not in ESC:
            raise Refuse("%s: unknown escape %r" % (ctx, tok))
        return ESC[body[1]]
    if len(body) != 1:
        raise Refuse("%s: bad char literal %r" % (ctx, tok))
    return ord(body)


def parse_bytestr(tok, ctx):
    t = tok.strip()
    if not (t.startswith('b"') and t.endswith('"')):
        raise Refuse("%s: not a byte string: %r" % (ctx, tok))
    body = t[2:-1]
    out, i = [], 0
    while i < len(body):
        c = body[i]
        if c == '\\':
            d = body[i + 1]
            if d == 'x':
                out.append(int(body[i + 2:i + 4], 16))
                i += 4
            elif d in ESC:
                out.append(ESC[d])
                i += 2
            else:
                raise Refuse("%s: unknown escape in %r" % (ctx, tok))
        else:
            out.extend(c.encode('utf-8'))
            i += 1
    return out


# --------------------------------------------------------------------------
# Coq output helpers

def coq_list(xs, wrap=12):
    items = [str(x) for x in xs]
    lines = []
    for i in range(0, len(items), wrap):
        lines.append('; '.join(items[i:i + wrap]))
    return '[' + ';\n   '.join(lines) + ']'


HEADER = """(* GENERATED by /verif/tools/rs2v.py from %s -- do not edit.
   Regenerated from /repo's working tree on every check. *)
From Coq Require Import NArith List Bool.
Import ListNotations.
Open Scope N_scope.

"""


# --------------------------------------------------------------------------
# symbol_size.rs

def match_self_arms(body, fn_name, path):
    """body of `match self { Self::A => e, ... }` -> list of (variant, expr)."""
    m = re.search(r'match\s+\*?self\s*\{', body)
    if not m:
        raise Refuse("%s: fn %s: expected `match self`" % (path, fn_name))
    b = m.end() - 1
    e = balanced(body, b, '{', '}')
    rest = body[:m.start()].strip() + body[e:].strip()
    if rest:
        raise Refuse("%s: fn %s: code around the match is not understood: %r" % (path, fn_name, rest[:60]))
    arms = []
    for arm in split_top(body[b + 1:e - 1]):
        if '=>' not in arm:
            raise Refuse("%s: fn %s: arm without =>: %r" % (path, fn_name, arm))
        pat, expr = arm.split('=>', 1)
        pats = [p.strip() for p in pat.split('|')]
        for p in pats:
            mm = re.fullmatch(r'(?:Self|SymbolSize|EncodationType)::(\w+)', p)
            if not mm:
                raise Refuse("%s: fn %s: pattern not understood: %r" % (path, fn_name, p))
            arms.append((mm.group(1), expr.strip()))
    return arms


def fn_body(src, name, path):
    m = re.search(r'fn\s+%s\s*\([^)]*\)\s*(?:->\s*[^{]+)?\{' % re.escape(name), src)
    if not m:
        raise Refuse("%s: cannot find fn %s" % (path, name))
    b = m.end() - 1
    e = balanced(src, b, '{', '}')
    return src[b + 1:e - 1]


def matches_set(body, fn_name, path):
    m = re.fullmatch(r'\s*matches!\s*\(\s*self\s*,(.*)\)\s*', body, re.S)
    if not m:
        raise Refuse("%s: fn %s: expected a single matches!(self, ...)" % (path, fn_name))
    vs = []
    for p in m.group(1).split('|'):
        p = p.strip()
        mm = re.fullmatch(r'(?:Self|SymbolSize)::(\w+)', p)
        if not mm:
            raise Refuse("%s: fn %s: pattern %r" % (path, fn_name, p))
        vs.append(mm.group(1))
    return vs


def gen_symbols(repo):
    path = os.path.join(repo, 'src/symbol_size.rs')
    src = strip_comments(open(path, encoding='utf-8').read())
    # enum
    body = find_block(src, r'pub\s+enum\s+SymbolSize\s*\{', 'enum SymbolSize')
    variants = []
    for v in split_top(body):
        v = re.sub(r'#\[[^\]]*\]', '', v).strip()
        if not re.fullmatch(r'\w+', v):
            raise Refuse("%s: enum SymbolSize: variant %r not a unit variant" % (path, v))
        variants.append(v)
    # SYMBOL_SIZES
    m = re.search(r'const\s+SYMBOL_SIZES\s*:\s*&\[SymbolSize\]\s*=\s*&\[', src)
    if not m:
        raise Refuse("%s: SYMBOL_SIZES not found" % path)
    b = m.end() - 1
    e = balanced(src, b, '[', ']')
    order = []
    for it in split_top(src[b + 1:e - 1]):
        mm = re.fullmatch(r'SymbolSize::(\w+)', it)
        if not mm:
            raise Refuse("%s: SYMBOL_SIZES item %r" % (path, it))
        order.append(mm.group(1))

    def total(arms, fn):
        d = {}
        for v, e_ in arms:
            if v in d:
                raise Refuse("%s: fn %s: duplicate arm %s" % (path, fn, v))
            d[v] = e_
        for v in variants:
            if v not in d:
                raise Refuse("%s: fn %s: no arm for %s" % (path, fn, v))
        return d

    ndc = total(match_self_arms(fn_body(src, 'num_data_codewords', path), 'num_data_codewords', path), 'num_data_codewords')
    ndc = {v: parse_int(e_, 'num_data_codewords') for v, e_ in ndc.items()}
    cap = total(match_self_arms(fn_body(src, 'capacity', path), 'capacity', path), 'capacity')
    capv = {}
    for v, e_ in cap.items():
        mm = re.fullmatch(r'Capacity::new\s*\(\s*(\w+)\s*,\s*(\w+)\s*\)', e_)
        if not mm:
            raise Refuse("%s: capacity arm %r" % (path, e_))
        capv[v] = (parse_int(mm.group(1), 'capacity'), parse_int(mm.group(2), 'capacity'))
    # Capacity::new(max, min): check the constructor argument order
    cn = fn_body(src, 'new', path)  # first `fn new` in file is Capacity::new
    if not re.fullmatch(r'\s*Self\s*\{\s*max\s*,\s*min\s*\}\s*', cn):
        raise Refuse("%s: Capacity::new body not understood: %r" % (path, cn))
    if not re.search(r'fn\s+new\s*\(\s*max\s*:\s*usize\s*,\s*min\s*:\s*usize\s*\)', src):
        raise Refuse("%s: Capacity::new signature changed" % path)
    bs = total(match_self_arms(fn_body(src, 'block_setup', path), 'block_setup', path), 'block_setup')
    fields = ['num_ecc_blocks', 'num_ecc_per_block', 'width', 'height',
              'extra_horizontal_alignments', 'extra_vertical_alignments']
    bsv = {}
    for v, e_ in bs.items():
        mm = re.fullmatch(r'BlockSetup\s*\{(.*)\}', e_, re.S)
        if not mm:
            raise Refuse("%s: block_setup arm for %s: %r" % (path, v, e_[:40]))
        d = {}
        for f in split_top(mm.group(1)):
            k, val = f.split(':', 1)
            d[k.strip()] = parse_int(val, 'block_setup.' + v)
        if sorted(d) != sorted(fields):
            raise Refuse("%s: block_setup fields of %s: %r" % (path, v, sorted(d)))
        bsv[v] = d
    sets = {}
    for fn in ['is_square', 'is_dmre', 'has_padding_modules']:
        vs = matches_set(fn_body(src, fn, path), fn, path)
        for v in vs:
            if v not in variants:
                raise Refuse("%s: fn %s: unknown variant %s" % (path, fn, v))
        sets[fn] = set(vs)
    # content_width / content_height formulas and the Ord key must have the known shape
    cw = re.sub(r'\s+', '', fn_body(src, 'content_width', path))
    chh = re.sub(r'\s+', '', fn_body(src, 'content_height', path))
    if cw != 'self.width-2-self.extra_vertical_alignments*2':
        raise Refuse("%s: content_width formula changed: %s" % (path, cw))
    if chh != 'self.height-2-self.extra_horizontal_alignments*2':
        raise Refuse("%s: content_height formula changed: %s" % (path, chh))
    key = re.sub(r'\s+', '', fn_body(src, 'key', path))
    if key != 'letbs=obj.block_setup();(obj.num_data_codewords(),bs.width.pow(2)+bs.height.pow(2))':
        raise Refuse("%s: Ord key changed: %s" % (path, key))
    cmpb = re.sub(r'\s+', '', fn_body(src, 'cmp', path))
    if not cmpb.endswith('key(self).cmp(&key(other))'):
        raise Refuse("%s: Ord::cmp changed" % path)

    o = [HEADER % 'src/symbol_size.rs']
    o.append('Inductive SymbolSize : Set :=\n  ' + '\n  '.join('| ' + v for v in variants) + '.\n\n')
    o.append('Definition all_variants : list SymbolSize :=\n  ' + coq_list(variants, 6) + '.\n\n')
    o.append('Definition SYMBOL_SIZES : list SymbolSize :=\n  ' + coq_list(order, 6) + '.\n\n')

    def deff(name, ty, f):
        o.append('Definition %s (s : SymbolSize) : %s :=\n  match s with\n' % (name, ty))
        for v in variants:
            o.append('  | %s => %s\n' % (v, f(v)))
        o.append('  end.\n\n')

    deff('variant_index', 'N', lambda v: variants.index(v))
    deff('num_data_codewords', 'N', lambda v: ndc[v])
    deff('capacity_max', 'N', lambda v: capv[v][0])
    deff('capacity_min', 'N', lambda v: capv[v][1])
    for f in fields:
        deff(f, 'N', lambda v, f=f: bsv[v][f])
    for fn in ['is_square', 'is_dmre', 'has_padding_modules']:
        deff(fn, 'bool', lambda v, fn=fn: 'true' if v in sets[fn] else 'false')
    o.append('Definition content_width (s : SymbolSize) : N := width s - 2 - extra_vertical_alignments s * 2.\n')
    o.append('Definition content_height (s : SymbolSize) : N := height s - 2 - extra_horizontal_alignments s * 2.\n')
    o.append('Definition ord_key (s : SymbolSize) : N * N :=\n'
             '  (num_data_codewords s, width s * width s + height s * height s).\n')
    return ''.join(o)


# --------------------------------------------------------------------------
# errorcode/mod.rs

def gen_generators(repo):
    path = os.path.join(repo, 'src/errorcode/mod.rs')
    src = strip_comments(open(path, encoding='utf-8').read())
    m = re.search(r'const\s+GENERATOR_POLYNOMIALS\s*:\s*\[\s*&\[u8\]\s*;\s*(\d+)\s*\]\s*=\s*\[', src)
    if not m:
        raise Refuse("%s: GENERATOR_POLYNOMIALS not found" % path)
    b = m.end() - 1
    e = balanced(src, b, '[', ']')
    polys = []
    for it in split_top(src[b + 1:e - 1]):
        mm = re.fullmatch(r'&\[(.*)\]', it, re.S)
        if not mm:
            raise Refuse("%s: polynomial item %r" % (path, it[:30]))
        polys.append([parse_int(x, 'GENERATOR_POLYNOMIALS') for x in split_top(mm.group(1))])
    if len(polys) != int(m.group(1)):
        raise Refuse("%s: GENERATOR_POLYNOMIALS length mismatch" % path)
    # generator(): first polynomial with p.len() - 1 == len
    g = re.sub(r'\s+', '', fn_body(src, 'generator', path))
    if not g.startswith('GENERATOR_POLYNOMIALS.iter().find(|p|p.len()-1==len).expect('):
        raise Refuse("%s: fn generator changed: %s" % (path, g[:80]))
    o = [HEADER % 'src/errorcode/mod.rs']
    o.append('Definition GENERATOR_POLYNOMIALS : list (list N) :=\n  [\n')
    o.append(';\n'.join('   ' + coq_list(p, 16).replace('\n', '\n   ') for p in polys))
    o.append('\n  ].\n')
    return ''.join(o)


# --------------------------------------------------------------------------

GENERATORS = {
    'Symbols.v': gen_symbols,
    'Generators.v': gen_generators,
}


def main():
    repo, out = sys.argv[1], sys.argv[2]
    try:
        # optional generators defined in sibling module (charsets, mode tables)
        try:
            sys.path.insert(0, os.path.dirname(os.path.abspath(__file__)))
            import rs2v_tables  # noqa
            GENERATORS.update(rs2v_tables.generators(sys.modules[__name__]))
        except ImportError:
            pass
        os.makedirs(out, exist_ok=True)
        for name, fn in sorted(GENERATORS.items()):
            text = fn(repo)
            p = os.path.join(out, name)
            old = open(p, encoding='utf-8').read() if os.path.exists(p) else None
            if old != text:
                with open(p, 'w', encoding='utf-8') as f:
                    f.write(text)
                print("rs2v: wrote %s" % p)
    except Refuse as ex:
        sys.stderr.write("rs2v: REFUSED: %s\n" % ex)
        sys.exit(2)


if __name__ == '__main__':
    main()
