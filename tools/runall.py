#!/usr/bin/env python3
"""Runs every registered quick (or thorough) check on the current tree and prints a summary (evidence is rewritten)."""
import json, os, subprocess, sys, time
HERE = os.path.dirname(os.path.dirname(os.path.abspath(__file__)))
tier = sys.argv[1] if len(sys.argv) > 1 else 'quick'
only = sys.argv[2:] 
man = json.load(open(os.path.join(HERE, 'MANIFEST.json')))
bad = 0
for c in man['checks']:
    if only and c['property_id'] not in only:
        continue
    cmd = c['quick_cmd'] if tier == 'quick' else c.get('thorough_cmd', c['quick_cmd'])
    t = time.time()
    p = subprocess.run(cmd, shell=True, cwd=HERE, stdout=subprocess.PIPE, stderr=subprocess.STDOUT, text=True)
    last = p.stdout.strip().split('\n')[-1] if p.stdout.strip() else ''
    print('%s rc=%d %.0fs %s' % (c['property_id'], p.returncode, time.time() - t, last), flush=True)
    if p.returncode != 0 or 'VIOLATION' in p.stdout:
        bad += 1
        print(p.stdout[-1500:])
sys.exit(1 if bad else 0)
