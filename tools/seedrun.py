#!/usr/bin/env python3
"""Confirm a seeded change produced by a sub-agent and record which checks catch it.

  seedrun.py <dir with patch.diff demo.rs meta.json> <seed id> [check ids ... | all]

Everything happens outside /repo and /verif: the change is applied to the scratch worktree /tmp/wt/mrepo and the
checks run from a copy of /verif in /tmp/vm with VERIF_REPO pointing at that worktree.  The result is written to
/verif/seeded/<seed id>/ (patch.diff, demo.rs, meta.json)."""
import json
import os
import re
import shutil
import subprocess
import sys
import time

SLOT = os.environ.get('SEED_SLOT', '')
MREPO = '/tmp/wt/mrepo' + SLOT
VM = '/tmp/vm' + SLOT
ALL = ['C%02d' % i for i in range(1, 20)]


def sh(cmd, cwd=None, timeout=3600, env=None):
    e = dict(os.environ)
    e.update({'CARGO_NET_OFFLINE': 'true'})
    if env:
        e.update(env)
    try:
        p = subprocess.run(cmd, cwd=cwd, shell=isinstance(cmd, str), capture_output=True, text=True, timeout=timeout, env=e)
        return p.returncode, p.stdout + p.stderr
    except subprocess.TimeoutExpired as t:
        return 124, 'timeout after %ss' % timeout


def ensure_mrepo():
    if not os.path.isdir(MREPO):
        rc, out = sh(['git', '-C', '/repo', 'worktree', 'add', '-q', '--detach', MREPO, 'HEAD'])
        assert rc == 0, out
    sh(['git', '-C', MREPO, 'checkout', '-q', '--detach', subprocess.check_output(['git', '-C', '/repo', 'rev-parse', 'HEAD'], text=True).strip()])
    sh(['git', '-C', MREPO, 'checkout', '--', '.'])
    sh(['rm', '-rf', os.path.join(MREPO, 'examples', 'demo.rs')])


def sync_vm():
    """/tmp/vm := the committed state of /verif (HEAD), keeping build products of earlier runs"""
    exp = '/tmp/vm_export' + SLOT
    sh(['rm', '-rf', exp])
    os.makedirs(exp)
    rc, out = sh('git -C /verif archive HEAD | tar -x -C ' + exp)
    assert rc == 0, out
    os.makedirs(VM, exist_ok=True)
    ex = ['.work', 'replay', 'seeded', 'coq/Makefile', 'coq/Makefile.conf', 'coq/_CoqProject', 'coq/.Makefile.d', '*.vo', '*.vok', '*.vos',
          '*.glob', '.*.aux', '.lia.cache', '__pycache__', 'harness/Cargo.lock', 'coq/Generated/*.v']
    cmd = ['rsync', '-a', '--checksum', '--delete'] + sum((['--exclude', e] for e in ex), []) + [exp + '/', VM + '/']
    rc, out = sh(cmd)
    assert rc == 0, out
    p = os.path.join(VM, 'harness', 'Cargo.toml')
    s = open(p).read().replace('path = "/repo"', 'path = "%s"' % MREPO)
    open(p, 'w').write(s)
    p = os.path.join(VM, 'harness', '.cargo', 'config.toml')
    s = open(p).read().replace('/verif/.work/target', VM + '/.work/target')
    open(p, 'w').write(s)
    lock = os.path.join(VM, 'harness', 'Cargo.lock')
    if os.path.exists(lock):
        os.remove(lock)


def main():
    src, sid = sys.argv[1], sys.argv[2]
    checks = sys.argv[3:] or ['all']
    meta = json.load(open(os.path.join(src, 'meta.json')))
    pid = meta.get('property', sid[:3])
    claimed = [c['property_id'] for c in json.load(open('/verif/MANIFEST.json'))['checks']]
    if checks == ['all']:
        checks = claimed
    patch = os.path.abspath(os.path.join(src, 'patch.diff'))
    ensure_mrepo()
    conf = {}
    rc, out = sh(['git', '-C', MREPO, 'apply', patch])
    conf['applies'] = rc == 0
    if rc != 0:
        print('patch does not apply:', out)
        return 2
    rc, out = sh('cargo build --offline 2>&1 | tail -3', cwd=MREPO)
    conf['builds'] = rc == 0
    t0 = time.time()
    rc, out = sh('cargo test --workspace --offline 2>&1', cwd=MREPO, timeout=3000)
    res = re.findall(r'test result: (\w+)\. (\d+) passed; (\d+) failed', out)
    conf['tests'] = res
    conf['tests_pass'] = rc == 0 and bool(res) and all(r[0] == 'ok' and r[2] == '0' for r in res)
    conf['tests_seconds'] = round(time.time() - t0)
    os.makedirs(os.path.join(MREPO, 'examples'), exist_ok=True)
    shutil.copy(os.path.join(src, 'demo.rs'), os.path.join(MREPO, 'examples', 'demo.rs'))
    rc, out = sh('cargo run --offline --quiet --example demo 2>&1 | tail -15', cwd=MREPO, timeout=1800)
    rcm, _ = sh('cargo run --offline --quiet --example demo >/dev/null 2>&1', cwd=MREPO, timeout=1800)
    conf['demo_mutated_rc'] = rcm
    conf['demo_mutated'] = out[-1500:]
    sh(['git', '-C', MREPO, 'checkout', '--', '.'])
    rco, outo = sh('cargo run --offline --quiet --example demo 2>&1 | tail -5', cwd=MREPO, timeout=1800)
    rco2, _ = sh('cargo run --offline --quiet --example demo >/dev/null 2>&1', cwd=MREPO, timeout=1800)
    conf['demo_original_rc'] = rco2
    conf['demo_original'] = outo[-500:]
    os.remove(os.path.join(MREPO, 'examples', 'demo.rs'))
    conf['confirmed'] = bool(conf['tests_pass'] and conf['builds'] and rcm != 0 and rco2 == 0)
    print('confirm:', {k: v for k, v in conf.items() if k not in ('demo_mutated', 'demo_original')})
    # evaluate the checks
    results = {}
    if conf['confirmed']:
        rc, out = sh(['git', '-C', MREPO, 'apply', patch])
        sync_vm()
        order = [pid] + [c for c in checks if c != pid] if pid in checks else checks
        for c in order:
            t0 = time.time()
            rc, out = sh(['./vcheck', c, '--tier', 'quick'], cwd=VM, timeout=2400, env={'VERIF_REPO': MREPO})
            viol = [l for l in out.splitlines() if l.startswith('VIOLATION')]
            results[c] = {'rc': rc, 'violations': len(viol), 'first': viol[0] if viol else '',
                          'no_input': any(l.rstrip().endswith('no-failing-input-found') for l in viol) and not any(not l.rstrip().endswith('no-failing-input-found') for l in viol),
                          'seconds': round(time.time() - t0), 'summary': out.strip().splitlines()[-1][:300] if out.strip() else ''}
            print(c, results[c]['rc'], results[c]['violations'], results[c]['summary'])
        sh(['git', '-C', MREPO, 'checkout', '--', '.'])
    dst = os.path.join('/verif/seeded', sid)
    os.makedirs(dst, exist_ok=True)
    shutil.copy(patch, os.path.join(dst, 'patch.diff'))
    shutil.copy(os.path.join(src, 'demo.rs'), os.path.join(dst, 'demo.rs'))
    prev = os.path.join(dst, 'meta.json')
    if os.path.exists(prev) and sys.argv[3:] and sys.argv[3:] != ['all']:
        # re-evaluation of selected checks: merge into the recorded results
        old = json.load(open(prev)).get('checks', {})
        old.update(results)
        results = old
    meta['seed_id'] = sid
    meta['confirmation'] = conf
    meta['checks'] = results
    meta['caught_by'] = sorted(c for c, r in results.items() if r['rc'] != 0)
    meta['caught_by_target'] = pid in meta['caught_by']
    json.dump(meta, open(os.path.join(dst, 'meta.json'), 'w'), indent=1)
    print('caught by:', meta['caught_by'])
    return 0


if __name__ == '__main__':
    sys.exit(main())
