"""rs2v_tables.py -- second part of the translator: character-set tables, codeword constants and
`match ch { .. }` functions on bytes / chars (shape 3 of DESIGN.md 4.2)."""
import os
import re


def generators(R):
    """R = the rs2v module (helpers + Refuse)."""
    Refuse = R.Refuse

    def read(repo, rel):
        return R.strip_comments(open(os.path.join(repo, rel), encoding='utf-8').read())

    # ------------------------------------------------------------------ constants
    def const_int(src, name, path):
        m = re.search(r'const\s+%s\s*:\s*(?:u8|u16|u32|usize)\s*=\s*([^;]+);' % re.escape(name), src)
        if not m:
            raise Refuse('%s: constant %s not found' % (path, name))
        return R.parse_int(m.group(1), '%s: %s' % (path, name))

    def const_bytes(src, name, path):
        m = re.search(r'const\s+%s\s*:\s*&\[u8(?:;\s*\d+)?\]\s*=\s*(b"(?:[^"\\]|\\.)*")\s*;' % re.escape(name), src)
        if not m:
            raise Refuse('%s: byte string constant %s not found' % (path, name))
        return R.parse_bytestr(m.group(1), '%s: %s' % (path, name))

    def const_chars(src, name, path):
        m = re.search(r'const\s+%s\s*:\s*\[char;\s*(\d+)\]\s*=\s*\[' % re.escape(name), src)
        if not m:
            raise Refuse('%s: char table %s not found' % (path, name))
        b = m.end() - 1
        e = R.balanced(src, b, '[', ']')
        vals = [R.parse_char(x, '%s: %s' % (path, name)) for x in R.split_top(src[b + 1:e - 1])]
        if len(vals) != int(m.group(1)):
            raise Refuse('%s: %s has %d entries, declared %s' % (path, name, len(vals), m.group(1)))
        return vals

    # ------------------------------------------------------------------ match arms
    def arms_of(body, ctx):
        """body of a `match x { ... }`: list of (pattern_text, body_text)"""
        arms, i, n = [], 0, len(body)
        while i < n:
            while i < n and body[i] in ' \t\r\n,':
                i += 1
            if i >= n:
                break
            j = body.find('=>', i)
            if j < 0:
                raise Refuse('%s: arm without => near %r' % (ctx, body[i:i + 40]))
            pat = body[i:j].strip()
            k = j + 2
            while k < n and body[k] in ' \t\r\n':
                k += 1
            if k < n and body[k] == '{':
                e = R.balanced(body, k, '{', '}')
                arms.append((pat, body[k:e]))
                i = e
            else:
                depth, e = 0, k
                while e < n:
                    c = body[e]
                    if c in '([{':
                        depth += 1
                    elif c in ')]}':
                        depth -= 1
                    elif c == "'" or (c == 'b' and e + 1 < n and body[e + 1] == "'"):
                        mm = re.match(r"b?'(\\x[0-9a-fA-F]{2}|\\u\{[0-9a-fA-F]+\}|\\.|[^\\'])'", body[e:])
                        if mm:
                            e += len(mm.group(0))
                            continue
                    elif c == ',' and depth == 0:
                        break
                    e += 1
                arms.append((pat, body[k:e].strip()))
                i = e + 1
        return arms

    def lit(tok, ctx):
        tok = tok.strip()
        if tok.startswith("b'") or tok.startswith("'"):
            return R.parse_char(tok, ctx)
        return R.parse_int(tok, ctx)

    def pattern_cond(pat, var, ctx):
        """-> (coq boolean condition on `var` or None for catch-all, bound name or None)"""
        pat = pat.strip()
        bound = None
        m = re.match(r'(\w+)\s*@\s*(.*)$', pat, re.S)
        if m:
            bound, pat = m.group(1), m.group(2).strip()
        if re.fullmatch(r'_|[a-z]\w*', pat):
            return None, (pat if pat != '_' else bound)
        conds = []
        for alt in R.split_top(pat, '|'):
            alt = alt.strip()
            m = re.fullmatch(r"(.+?)\.\.=(.+)", alt)
            if m:
                a, b = lit(m.group(1), ctx), lit(m.group(2), ctx)
                conds.append('((%d <=? %s) && (%s <=? %d))' % (a, var, var, b))
            else:
                conds.append('(%s =? %d)' % (var, lit(alt, ctx)))
        return ' || '.join(conds), bound

    TOK = re.compile(r"\s*(b?'(?:\\x[0-9a-fA-F]{2}|\\u\{[0-9a-fA-F]+\}|\\.|[^\\'])'|0x[0-9a-fA-F_]+|0b[01_]+|\d[\d_]*(?:u8|u16|u32|usize)?|[A-Za-z_][\w:]*!?|[-+*/()%,]|\.\.=)")

    def tokenize(s, ctx):
        out, i = [], 0
        s = s.strip()
        while i < len(s):
            m = TOK.match(s, i)
            if not m:
                raise Refuse('%s: cannot tokenize %r' % (ctx, s[i:i + 30]))
            out.append(m.group(1))
            i = m.end()
        return out

    class P:
        """tiny expression parser -> Coq term over N (u8 arithmetic; arms guarantee no underflow)"""

        def __init__(self, toks, env, ctx, calls):
            self.t, self.i, self.env, self.ctx, self.calls = toks, 0, env, ctx, calls

        def peek(self):
            return self.t[self.i] if self.i < len(self.t) else None

        def eat(self, x=None):
            tok = self.peek()
            if tok is None or (x is not None and tok != x):
                raise Refuse('%s: expected %r, got %r' % (self.ctx, x, tok))
            self.i += 1
            return tok

        def expr(self):
            v = self.term()
            while self.peek() in ('+', '-'):
                op = self.eat()
                r = self.term()
                v = '(%s %s %s)' % (v, op, r)
            return v

        def term(self):
            v = self.atom()
            while self.peek() in ('*', '/', '%'):
                op = self.eat()
                r = self.atom()
                v = '(%s %s %s)' % (v, {'*': '*', '/': '/', '%': 'mod'}[op], r)
            return v

        def atom(self):
            tok = self.eat()
            if tok == '(':
                v = self.expr()
                self.eat(')')
            elif tok[0].isdigit() or tok.startswith("'") or tok.startswith("b'"):
                v = str(lit(tok, self.ctx))
            elif tok in self.env:
                v = self.env[tok]
            elif tok in self.calls and self.peek() == '(':
                self.eat('(')
                a = self.expr()
                self.eat(')')
                v = '(%s %s)' % (self.calls[tok], a)
            else:
                raise Refuse('%s: unknown identifier %r in expression' % (self.ctx, tok))
            while self.peek() == 'as':
                self.eat()
                ty = self.eat()
                if ty not in ('u8', 'u16', 'u32', 'usize', 'char'):
                    raise Refuse('%s: cast to %s' % (self.ctx, ty))
            return v

    def expr_to_coq(text, env, ctx, calls=None):
        p = P(tokenize(text, ctx), env, ctx, calls or {})
        v = p.expr()
        if p.peek() is not None:
            raise Refuse('%s: trailing tokens in %r' % (ctx, text))
        return v

    def match_body(src, fname, path):
        body = R.fn_body(src, fname, path)
        m = re.search(r'match\s+(\w+)\s*\{', body)
        if not m:
            raise Refuse('%s: fn %s: no match' % (path, fname))
        b = m.end() - 1
        e = R.balanced(body, b, '{', '}')
        return m.group(1), body[b + 1:e - 1], body[:m.start()], body[e:]

    def gen_match_fn(src, fname, path, coqname, kind, consts=None):
        """kind: 'N' total u8 result, 'bool_matches', 'optN' (Ok/Err or unreachable), 'pushes' (ArrayVec pushes)"""
        ctx = '%s: fn %s' % (path, fname)
        if kind == 'bool_matches':
            body = R.fn_body(src, fname, path)
            m = re.fullmatch(r'\s*matches!\s*\(\s*(\w+)\s*,(.*)\)\s*', body, re.S)
            if not m:
                raise Refuse('%s: expected a single matches!' % ctx)
            cond, _ = pattern_cond(m.group(2), 'ch', ctx)
            return 'Definition %s (ch : N) : bool := %s.\n' % (coqname, cond)
        var, arms_text, pre, post = match_body(src, fname, path)
        if pre.strip() or post.strip():
            raise Refuse('%s: code around the match: %r' % (ctx, (pre + post).strip()[:60]))
        lines = []
        for pat, body in arms_of(arms_text, ctx):
            cond, bound = pattern_cond(pat, 'ch', ctx)
            env = dict(consts or {})
            env[var] = 'ch'
            if bound:
                env[bound] = 'ch'
            b = body.strip()
            if kind == 'N':
                val = expr_to_coq(b, env, ctx, {fname: coqname + '_rec'})
            elif kind == 'optN':
                m = re.fullmatch(r'(?:Ok|Some)\s*\((.*)\)', b, re.S)
                if m:
                    val = 'Some ' + expr_to_coq(m.group(1), env, ctx)
                elif re.match(r'(Err\b|None\b|return\s+None|unreachable!)', b):
                    val = 'None'
                else:
                    val = 'Some ' + expr_to_coq(b, env, ctx)
            elif kind == 'pushes':
                if re.match(r'unreachable!', b):
                    val = 'None'
                else:
                    inner = b[1:-1] if b.startswith('{') else b
                    pushes = []
                    for st in [x.strip() for x in inner.split(';') if x.strip()]:
                        m = re.fullmatch(r'\w+\.push\((.*)\)', st, re.S)
                        if not m:
                            raise Refuse('%s: statement %r' % (ctx, st))
                        pushes.append(expr_to_coq(m.group(1), env, ctx, {}))
                    val = 'Some [' + '; '.join(pushes) + ']'
            else:
                raise Refuse('bad kind')
            lines.append((cond, val))
        ty = {'N': 'N', 'optN': 'option N', 'pushes': 'option (list N)'}[kind]
        out = []
        rec = any((coqname + '_rec') in v for _, v in lines)
        body = ''
        closed = False
        for cond, val in lines:
            if cond is None:
                body += '    %s\n' % val
                closed = True
                break
            body += '    if %s then %s else\n' % (cond, val)
        if not closed:
            # Rust checks exhaustiveness over u8; beyond 255 the model never goes
            body += '    %s\n' % {'N': '0', 'optN': 'None', 'pushes': 'None'}[kind]
        if rec:
            out.append('Fixpoint %s_fuel (fuel : nat) (ch : N) : %s :=\n  match fuel with O => 0 | S f =>\n    let %s_rec := %s_fuel f in\n%s  end.\n'
                       % (coqname, ty, coqname, coqname, body))
            out.append('Definition %s (ch : N) : %s := %s_fuel 3 ch.\n' % (coqname, ty, coqname))
        else:
            out.append('Definition %s (ch : N) : %s :=\n%s.\n' % (coqname, ty, body.rstrip('\n')))
        return ''.join(out)

    # ------------------------------------------------------------------ Charsets.v
    def gen_charsets(repo):
        eci = read(repo, 'src/decodation/eci.rs')
        data = read(repo, 'src/data.rs')
        o = [R.HEADER % 'src/decodation/eci.rs, src/data.rs']
        o.append('Definition ECI_UTF8 : N := %d.\n\n' % const_int(eci, 'ECI_UTF8', 'eci.rs'))
        for name in ('ISO_8859_9', 'ISO_8859_11'):
            o.append('Definition %s : list N :=\n  %s.\n\n' % (name, R.coq_list(const_chars(eci, name, 'eci.rs'), 12)))
        # latin1_to_utf8_mut: match ch { .. } on a byte giving a char
        ctx = 'data.rs: latin1_to_utf8_mut'
        var, arms_text, _, _ = match_body(data, 'latin1_to_utf8_mut', 'data.rs')
        lines = []
        for pat, body in arms_of(arms_text, ctx):
            cond, bound = pattern_cond(pat, 'ch', ctx)
            b = body.strip()
            if re.match(r'return\s+None', b):
                val = 'None'
            else:
                val = 'Some ' + expr_to_coq(b, {var: 'ch', (bound or var): 'ch'}, ctx)
            lines.append((cond, val))
        o.append(chain('latin1_to_utf8_ch', 'ch', 'option N', lines, 'None'))
        # utf8_to_latin1: match ch { .. } on a char giving a byte
        ctx = 'data.rs: utf8_to_latin1'
        var, arms_text, _, _ = match_body(data, 'utf8_to_latin1', 'data.rs')
        lines = []
        for pat, body in arms_of(arms_text, ctx):
            cond, bound = pattern_cond(pat, 'ch', ctx)
            b = body.strip()
            if re.match(r'return\s+None', b):
                val = 'None'
            else:
                val = 'Some ' + expr_to_coq(b, {var: 'ch', (bound or var): 'ch'}, ctx)
            lines.append((cond, val))
        o.append(chain('utf8_to_latin1_ch', 'ch', 'option N', lines, 'None'))
        return ''.join(o)

    def chain(name, var, ty, lines, default):
        body = ''
        closed = False
        for cond, val in lines:
            if cond is None:
                body += '  %s' % val
                closed = True
                break
            body += '  if %s then %s else\n' % (cond, val)
        if not closed:
            body += '  %s' % default
        return 'Definition %s (%s : N) : %s :=\n%s.\n\n' % (name, var, ty, body)

    # ------------------------------------------------------------------ ModeTables.v
    def gen_modetables(repo):
        asc = read(repo, 'src/encodation/ascii.rs')
        enc = read(repo, 'src/encodation/mod.rs')
        dec = read(repo, 'src/decodation/mod.rs')
        c40 = read(repo, 'src/encodation/c40.rs')
        text = read(repo, 'src/encodation/text.rs')
        x12 = read(repo, 'src/encodation/x12.rs')
        edi = read(repo, 'src/encodation/edifact.rs')
        o = [R.HEADER % 'src/encodation/{ascii,mod,c40,text,x12,edifact}.rs, src/decodation/mod.rs']
        for n in ('LATCH_C40', 'LATCH_BASE256', 'FNC1', 'LATCH_X12', 'LATCH_TEXT', 'LATCH_EDIFACT', 'ECI', 'PAD', 'UPPER_SHIFT'):
            o.append('Definition ascii_%s : N := %d.\n' % (n, const_int(asc, n, 'ascii.rs')))
        for n in ('MACRO05', 'MACRO06', 'UNLATCH'):
            o.append('Definition %s : N := %d.\n' % (n, const_int(enc, n, 'encodation/mod.rs')))
        for n in ('MACRO05_HEAD', 'MACRO06_HEAD', 'MACRO_TRAIL'):
            o.append('Definition %s : list N := %s.\n' % (n, R.coq_list(const_bytes(enc, n, 'encodation/mod.rs'))))
        o.append('Definition edifact_UNLATCH : N := %d.\n' % const_int(edi, 'UNLATCH', 'edifact.rs'))
        for n in ('SHIFT1', 'SHIFT2', 'SHIFT3', 'UPPER_SHIFT'):
            o.append('Definition c40_%s : N := %d.\n' % (n, const_int(c40, n, 'c40.rs')))
        for n in ('BASE_C40', 'SHIFT3_C40', 'BASE_TEXT', 'SHIFT3_TEXT', 'SHIFT2'):
            o.append('Definition dec_%s : list N :=\n  %s.\n' % (n, R.coq_list(const_bytes(dec, n, 'decodation/mod.rs'), 16)))
        o.append('\n')
        o.append(gen_match_fn(dec, 'dec_x12_val', 'decodation/mod.rs', 'dec_x12_val', 'optN'))
        o.append(gen_match_fn(x12, 'is_native_x12', 'x12.rs', 'is_native_x12', 'bool_matches'))
        o.append(gen_match_fn(x12, 'enc', 'x12.rs', 'x12_enc', 'optN'))
        o.append(gen_match_fn(edi, 'is_encodable', 'edifact.rs', 'edifact_is_encodable', 'bool_matches'))
        o.append(gen_match_fn(c40, 'in_base_set', 'c40.rs', 'c40_in_base_set', 'bool_matches'))
        o.append(gen_match_fn(text, 'in_base_set', 'text.rs', 'text_in_base_set', 'bool_matches'))
        o.append(gen_match_fn(c40, 'val_size', 'c40.rs', 'c40_val_size', 'N'))
        o.append(gen_match_fn(text, 'val_size', 'text.rs', 'text_val_size', 'N'))
        o.append(gen_match_fn(c40, 'low_ascii_to_c40_symbols', 'c40.rs', 'low_ascii_to_c40_symbols', 'pushes',
                              {'SHIFT1': 'c40_SHIFT1', 'SHIFT2': 'c40_SHIFT2', 'SHIFT3': 'c40_SHIFT3', 'UPPER_SHIFT': 'c40_UPPER_SHIFT'}))
        # text::low_ascii_to_text_symbols: case swap then the c40 function
        var, arms_text, pre, post = match_body(text, 'low_ascii_to_text_symbols', 'text.rs')
        if re.sub(r'\s+', '', pre) != 'letnew_ch=' or re.sub(r'\s+', '', post) != ';c40::low_ascii_to_c40_symbols(ctx,new_ch);':
            raise Refuse('text.rs: low_ascii_to_text_symbols changed shape')
        lines = []
        for pat, body in arms_of(arms_text, 'text.rs: low_ascii_to_text_symbols'):
            cond, bound = pattern_cond(pat, 'ch', 'text.rs')
            lines.append((cond, expr_to_coq(body, {var: 'ch', (bound or var): 'ch'}, 'text.rs')))
        o.append(chain('text_swap_case', 'ch', 'N', lines, 'ch'))
        # EncodationType: flag bits, index, latch
        et = read(repo, 'src/encodation/encodation_type.rs')
        m = re.search(r'pub\s+enum\s+EncodationType\s*:\s*u8\s*\{(.*?)\}', et, re.S)
        if not m:
            raise Refuse('encodation_type.rs: flags! enum not found')
        names = []
        for it in R.split_top(m.group(1)):
            mm = re.fullmatch(r'(\w+)\s*=\s*(\S+)', it.strip())
            if not mm:
                raise Refuse('encodation_type.rs: flag item %r' % it)
            names.append((mm.group(1), R.parse_int(mm.group(2), 'encodation_type.rs')))
        o.append('Inductive EncodationType : Set := ' + ' | '.join(n for n, _ in names) + '.\n')
        o.append('Definition et_flag (m : EncodationType) : N :=\n  match m with ' +
                 ' | '.join('%s => %d' % nv for nv in names) + ' end.\n')
        idx = dict(R.match_self_arms(R.fn_body(et, 'index', 'encodation_type.rs'), 'index', 'encodation_type.rs'))
        o.append('Definition et_index (m : EncodationType) : N :=\n  match m with ' +
                 ' | '.join('%s => %d' % (n, R.parse_int(idx[n], 'index')) for n, _ in names) + ' end.\n')
        lat = dict(R.match_self_arms(R.fn_body(et, 'latch_from_ascii', 'encodation_type.rs'), 'latch_from_ascii', 'encodation_type.rs'))
        parts = []
        for n, _ in names:
            e_ = lat[n]
            mm = re.fullmatch(r'ascii::(\w+)', e_)
            parts.append('%s => %s' % (n, ('Some ascii_' + mm.group(1)) if mm else 'None'))
        o.append('Definition et_latch_from_ascii (m : EncodationType) : option N :=\n  match m with ' + ' | '.join(parts) + ' end.\n')
        return ''.join(o)

    return {'Charsets.v': gen_charsets, 'ModeTables.v': gen_modetables}
