#!/usr/bin/env python3
"""Prints the map of the Coq development (DESIGN.md S.6): every file with its size and the first sentence of its header."""
import glob, os, re
ROOT = os.path.join(os.path.dirname(os.path.dirname(os.path.abspath(__file__))), 'coq')
print('| file | lines | what it contains (from the file header) |')
print('|---|---|---|')
for d in ('Spec', 'Model', 'Proofs', 'Properties', 'Extract'):
    for f in sorted(glob.glob(os.path.join(ROOT, d, '*.v'))):
        s = open(f, encoding='utf-8').read()
        m = re.match(r'\s*\(\*(.*?)\*\)', s, re.S)
        h = ' '.join((m.group(1) if m else '').split())
        h = re.sub(r'^\S+\.v\s+--\s+', '', h)
        if len(h) > 300:
            h = h[:300].rsplit(' ', 1)[0] + ' ...'
        print('| `%s/%s` | %d | %s |' % (d, os.path.basename(f), s.count('\n'), h.replace('|', '/')))
