#!/usr/bin/env python3
"""Writes /verif/MANIFEST.json from the table below (kept in one place so it stays valid)."""
import json
import os

HERE = os.path.dirname(os.path.dirname(os.path.abspath(__file__)))

CLAIMED = {
    'C12': dict(
        text='Theorems (Coq, kernel-checked, axiom-free) over tables regenerated from src/symbol_size.rs on every run: '
             'every one of the 48 sizes equals a row of ISO/IEC 16022 Table 7 / ISO 21471 Table 1 (Spec/Table7.v), dimensions '
             'are injective, default = the 30 ISO 16022 rows, all = 48; filters, ordering and first-fit are proved for all '
             'lists, ranges and white-lists as list lemmas about the BTreeSet model. The hand-written list model is tied to '
             'the code by differential correspondence (OCaml extraction vs. Rust harness) and the implementation is judged '
             'directly against the spec tables on every case.',
        design_ref='DESIGN.md 6/C12',
        note='Trusted: Coq kernel + vm_compute, translator rs2v.py, ExtrOcamlBasic extraction, harness; BTreeSet/RangeBounds '
             'contracts; Table7.v transcription of the standards. No axioms.',
        technique='Coq proof: kernel sweep over 48 regenerated rows + list lemmas; model tied by translator and differential correspondence'),
    'C06': dict(
        text='Theorem C06_full (Coq, axiom-free): for every symbol size and every byte vector of its data capacity the model of '
             'encode_error returns k*B bytes such that every interleaved block (data b, b+B, .. then EC b, b+B, ..; the unequal '
             '156/155 blocks of 144x144 included, the lemma is for arbitrary lengths) vanishes at alpha^1..alpha^k in the '
             'independently defined field GF(2)[x]/301 -- an LFSR loop invariant proved by induction over the data, not by '
             'enumeration. C06_generators: the 25 polynomials regenerated from the source equal the products (x+alpha)...(x+alpha^k). '
             'C06_field: the crate\'s log/antilog arithmetic equals the field on all 256^2 pairs. Model tied to the code by '
             'correspondence (GF tables exhaustively; encode_error on unit vectors, random data, all sizes) and every '
             'implementation output is re-checked with independent syndromes.',
        design_ref='DESIGN.md 6/C06',
        note='Trusted: Coq kernel + vm_compute, translator (generator table, block set-up), extraction, harness; Spec/GF256.v, '
             'Spec/RSCode.v as transcription of the standard. No axioms.',
        technique='Coq proof: loop invariant over GF(256) with ring reasoning (char-2 coefficient morphism), kernel sweeps for tables; differential correspondence'),
    'C07': dict(
        text='Theorems (Coq, axiom-free): C07_table -- for each of the 48 mapping-matrix sizes the (codeword, bit) table computed '
             'by the model of IndexTraversal::run (utah, four corners, wrap rules, DMRE row wrap, fixed corner pattern) equals '
             'the table computed by a statement-by-statement transcription of the placement program of ISO/IEC 16022 Annex F.1 '
             '(kernel evaluation over the whole domain: the traversal has no input but the dimensions, so this covers all '
             'codeword vectors); C07_bijection -- exactly ntotal(s) codewords x 8 modules, all in range, NoDup, left-over modules '
             'exactly the 2x2 corner of 12/16/20/24. The traversal model is tied to the code exhaustively (all 48 tables through '
             'traverse_mut with a tagging Bit type at every run); C07_values -- for every size and EVERY codeword vector, codewords() inverts '
             'new_with_codewords() and the left-over corner modules carry the fixed pattern (generic finite-map array lemmas on top of the '
             'bijection). Value loops also tied by correspondence and a direct Annex-F oracle.',
        design_ref='DESIGN.md 6/C07',
        note='Trusted: Coq kernel + vm_compute, Spec/AnnexF.v as transcription of the standard, extraction, harness, hook verif_entries. No axioms.',
        technique='Coq proof by kernel evaluation over the complete finite domain (48 sizes) against a transcribed Annex F; exhaustive correspondence of the traversal'),
    'C08': dict(
        text='Theorems (Coq, axiom-free), for all 48 sizes and ALL contents / ALL pixel arrays: C08_render (the rendering layout is '
             'the standard\'s finder, clock and alignment pattern of Spec/Finder.v, pixel by pixel), C08_parse_render (parsing a '
             'rendering returns the same content and size), C08_accepts_only_renderings (if parsing accepts any array, re-rendering '
             'the parsed content reproduces it bit for bit), C08_errors (ZeroWidth / DataSize / SymbolSize). Method: bitmap and '
             'try_from_bits are generic in the bit type, so the model factors them into a geometry-only layout / action list '
             '(kernel-evaluated once per size and compared with the spec) and an interpreter, about which the theorems are proved '
             'for arbitrary bit vectors. Tie: exhaustive layout correspondence (Tag bit type, 48 sizes), renderings, every '
             'single-pixel deviation of a rendering per size, malformed shapes; a direct Python oracle re-judges every implementation answer.',
        design_ref='DESIGN.md 6/C08',
        note='Trusted: Coq kernel + vm_compute, Spec/Finder.v + Table7.v, extraction, harness, hooks verif_entries/verif_from_entries. '
             'The two-stage form of the model (layout/actions + interpreter) relies on the Rust functions being parametric in the bit type. No axioms.',
        technique='Coq proof: per-size symbolic evaluation (kernel sweep) + generic interpreter lemmas valid for all bit vectors; exhaustive/differential correspondence'),
    'C15': dict(
        text='Theorems (Coq, axiom-free): C15_designator (for every ECI number 0..999999 write_eci emits 241 followed by the '
             'designator of ISO/IEC 16022 Table 6 and read_eci reads it back as the same number, whatever follows -- arithmetic '
             'proof for all numbers, not a sweep), C15_reject (read_eci accepts exactly the well-formed designators and returns an '
             'error otherwise, never a panic), C15_charsets (for ECI 0/3, 11, 13, 26, 27 and every byte string the chunk conversion '
             'equals the character set defined by formula in Spec/Eci.v; control/undefined bytes give CharsetError; 256-byte kernel '
             'sweep over the regenerated tables lifted by induction), C15_utf8 (soundness and completeness of UTF-8 validation), '
             'C15_other_eci. Tie: tables regenerated by the translator; read_eci/write_eci through hooks; decode_str on '
             '[241, designator, payload] for all 256 bytes x 15 ECI numbers exhaustively; from_utf8 compared with core::str.',
        design_ref='DESIGN.md 6/C15',
        note='Trusted: Coq kernel, translator (ISO tables, latin1 match arms), extraction, harness, hooks verif::read_eci/write_eci; '
             'Spec/Eci.v formulas; Rust String modelled as scalar list. Three genuine defects were repaired by fix: commits (known_findings.json). No axioms.',
        technique='Coq proof: linear arithmetic with div/mod for all ECI numbers; kernel sweep over 256 bytes lifted by induction; UTF-8 codec proved sound and complete; exhaustive correspondence'),
    'C19': dict(
        text='Theorem C19_bound (Coq, axiom-free): for every input, symbol list, mode set, start mode and every behaviour of the unspecified '
             'unstable sort (the sort is a parameter of the model with NO hypothesis), whenever optimize() returns it has executed at most '
             '216*(n+1)+5 Plan::step calls in at most n+1 iterations and kept at most 36 plans alive after pruning. Proof: pigeonhole on the '
             '(start mode, current mode) keys after de-duplication, at most 5 spawned plans per live plan, induction over the main loop; nothing '
             'about costs or the Plan implementations is used, so adversarial inputs are covered. Tie: the model counters are compared EXACTLY '
             'with the implementation\'s hook counters (steps, live plans, iterations) on every generated input, with the implementation\'s sort '
             'order replayed as an oracle input, and both against the proved bound.',
        design_ref='DESIGN.md 6/C19',
        note='Trusted: Coq kernel, extraction, harness, hooks (steps/live/iterations counters and sort trace in shortest_path.rs/generic.rs). '
             'Per-step work (look-ahead scans) is not counted, as in the property statement. No axioms.',
        technique='Coq proof: counting invariant by induction over the planner loop, sort abstracted as an arbitrary function; exact counter correspondence via hooks'),
    'C09': dict(
        text='Theorem C09_full (Coq, axiom-free), for all 48 sizes and EVERY received byte word of the symbol\'s length: if the model of '
             'decode_error returns Ok, the word left behind is a codeword of the interleaved Reed-Solomon code of Spec/RSCode.v and '
             're-encoding its data part reproduces its EC part. Proof chain: decode_gen returns Ok only after an all-zero syndrome '
             'evaluation of the block it returns (repaired code); primitive_element_evaluation is proved to compute c(alpha^j) by loop '
             'invariant; blocks are independent (list-index invariant of the strided loop); a polynomial of degree < k with k distinct roots is '
             'zero (synthetic division, no determinants), hence the EC part is determined by the data part (uniqueness), combined with C06. '
             'The locator algorithm (Levinson-Durbin) plays no role. Tie: the decoder model is compared with decode_error on words at every '
             'distance from a codeword and random words (results and error variants); every Ok answer of the implementation is re-checked with '
             'independent syndromes. The defect found on the pinned tree was repaired (fix: commit, known_findings.json).',
        design_ref='DESIGN.md 6/C09',
        note='Trusted: Coq kernel, translator (block set-up), extraction, harness; Spec/GF256.v, Spec/RSCode.v. No axioms.',
        technique='Coq proof: loop invariants + polynomial-roots uniqueness over GF(256) with ring reasoning; differential correspondence of the decoder model'),
    'C05': dict(
        text='Theorems (Coq, axiom-free), with every Rust panic site, fixed-width overflow and fuel exhaustion an explicit Panic outcome of the '
             'model: C05_decode_data and C05_decode_str -- for EVERY codeword list the data decoder (ASCII, C40/Text, X12, EDIFACT, Base256, '
             'ECI designators, macro handling, padding check) and the string decoder (ECI span slicing, ISO 8859 tables, UTF-8) return a value '
             'or an error: bounds of every table index, u8 additions, termination of the mode loop (measure 2*remaining+mode) and the ECI '
             'span invariant are proved; C05_try_from_bits -- the same for every bool vector and width; C05_codewords_total and C05_decode_glue -- for every pixel array the glue of DataMatrix::decode (parsing, placement read-out of any content, data/error split, data decoder) cannot panic: a panic of decode() can only originate inside decode_error; '
             'C05_rs_decoder_total, C05_rs_locator_total and C05_decode_symbol_total -- for EVERY word of bytes of a symbol\'s length (resp. every pixel array and width) '
             'the error-correction entry point and DataMatrix::decode return a value or an error: NO panic in any build. Two layers: Proofs/RSTotal.v '
             '(C05_rs_decoder, C05_rs_locator, C05_decode_symbol) -- the syndrome / Levinson-Durbin / Chien / Bjoerck-Pereyra code and the application '
             'of the corrections stay inside their slices, never divide by zero (pivots non-zero by the branch conditions; reported roots non-zero '
             'and pairwise different by a sweep over the antilog table), never underflow, never trip a length or range assertion, and terminate, '
             'leaving only PAssertLD, the cfg!(debug_assertions) self-checks inside the Levinson-Durbin loop; Proofs/LDMath.v, LDBridge.v, LDInv.v, '
             'LDTotal.v -- the identities (3) H_v y = e_v and (4) H_v w = h_v over GF(256) are invariants of the loop (initial anti-triangular solve, '
             'regular step, singular step with its jump, the iteration w^k, the Toeplitz solve for gamma, the update of w), so these self-checks '
             'never fire and the locator search always returns a value or TooManyErrors. The debug AND release correspondence with panics caught '
             '(random words for all 48 sizes, words with t or more leading zero syndromes, wrong codewords at the edges of every interleaved '
             'block, garbage symbols with a valid finder pattern) ties the model to the code. Six panics found on the pinned tree were repaired (fix: commits).',
        design_ref='DESIGN.md 6/C05',
        note='Trusted: Coq kernel, translator (mode tables, charset tables), extraction, harness with catch_unwind; allocation failure and '
             'stack exhaustion outside the model. No axioms.',
        technique='Coq proof: explicit panic outcomes + bounds/termination invariants (full for all four entry points, all builds: data/string decoder, bitmap parser, RS decoder incl. the Levinson-Durbin invariants, whole-symbol entry point) + debug/release differential correspondence'),
    'C13': dict(
        text='Theorems (Coq, axiom-free): C13_plan_modes_enabled -- every mode named by a plan of the optimiser is enabled, for every input, list, '
             'mode set, start mode (enabled or not) and every admissible sort (invariant over the planner loop, nothing about costs); '
             'C13_latch_source / C13_fallback_is_ascii -- in the encoder the latch to be written is set in exactly one place and is the latch of a '
             'mode of the plan, the end-of-data fallback only ever selects ASCII; C13_ascii_only_no_latch and C13_ascii_base256_only -- the stream-level statement for every mode set within {ASCII, Base256}: the stream is the rendering of a script made of ASCII runs and Base256 fields only; C13_ascii_x12_only -- likewise for every mode set within {ASCII, X12} (ASCII runs and X12 runs only), C13_ascii_c40_or_text_only -- likewise within {ASCII, C40} and within {ASCII, Text}. PARTIAL: for the other mode sets, that the codewords written by the six mode encoders '
             'contain no other value a reference decoder reads as a latch is the stream-level statement (C02) and is not yet a theorem; the '
             'check evaluates it on every case: the output for every one of the 63 non-empty mode subsets is parsed by the independent '
             'mode-tracking decoder tools/props/refdec.py and its latches intersected with the disabled set. Model tied by correspondence.',
        design_ref='DESIGN.md 6/C13',
        note='Trusted: Coq kernel, translator (flag bits, latch codewords), extraction, harness, sort-trace hook; refdec.py as independent reading of the standard. No axioms.',
        technique='Coq proof: planner loop invariant (modes of every candidate plan are enabled) + encoder latch-source lemma; per-case reference-decoder oracle for the stream-level residue'),
    'C18': dict(
        text='Theorem C18_plan_shape (Coq, axiom-free): every plan returned by optimize -- any input, symbol list, mode set, start mode, number of '
             'codewords already written, any sort returning elements of its input (proved for both sort instances used) -- names only enabled '
             'modes, has non-increasing positions starting at most at the input length and ending at 0. PARTIAL: the agreement between the '
             'planner\'s price and what the six mode encoders write (latches = planned non-ASCII modes with characters; encoder never needs a '
             'larger symbol than predicted) is not a theorem; it is evaluated on every case of the run from the implementation itself: '
             'data::encodation_plan vs the latches the reference decoder finds in data::encode_data\'s output, and the symbol vs the one '
             'predicted from the selected plan\'s cost (hook). One disagreement class found on the pinned tree was repaired (fix: commit).',
        design_ref='DESIGN.md 6/C18',
        note='Trusted: Coq kernel, extraction, harness, hooks (selected cost, sort trace); refdec.py. No axioms.',
        technique='Coq proof: planner loop invariant for the plan shape; per-case agreement oracle (plan vs reference-decoded latches vs predicted size) on model-tied implementation runs'),
    'C01': dict(
        text='Theorem C01_symbol_layer (Coq, axiom-free): for every size and EVERY data codeword vector of the symbol\'s capacity, rendering '
             'the symbol from data + error codewords (placement, fixed corner pattern, finder/clock/alignment) and decoding the pixels '
             '(strict parsing, placement read-out, error correction) hands exactly the data codewords to the data decoder -- composition of '
             'C06, C07 (table, bijection, values), C08 (parse of rendering) and the weight-0 case of the error decoder; so the two observation '
             'routes of the property agree for every input and configuration (C01_routes_agree). C01_ascii_plan_roundtrip / C01_ascii_only_roundtrip: the data layer for every byte string and list whenever the plan is "stay in ASCII" (encoder theorem composed with C04), which is proved to be the only possible answer of the optimiser when only ASCII is enabled; C01_base256_only_roundtrip: likewise for the Base256-only configuration (plan "Base256 to the end", length field in all three forms) -- and C01_ab_plan_roundtrip / C01_ascii_base256_roundtrip: for EVERY plan that uses only ASCII and Base256, whatever its switch positions (so, with the crate\'s optimiser, whose plans name enabled modes only, for every mode set within {ASCII, Base256}) -- and C01_ax_plan_roundtrip / C01_ax_modes_roundtrip / C01_macro_ax_roundtrip / C01_fnc1_ax_roundtrip: the same for every plan over ASCII and X12 (Proofs/EncAX.v), hence for the mode sets {X12} and {ASCII, X12}, and C01_ac_modes_roundtrip / C01_macro_ac_roundtrip / C01_fnc1_ac_roundtrip for every plan over ASCII and C40, or ASCII and Text (Proofs/EncAC.v: padded flush of the pending values, the end-of-data cases b-d with the already written shift values of the last character as a legal fill), hence {C40}, {ASCII, C40}, {Text}, {ASCII, Text} -- for these nine mode sets (every set with at most one mode beside ASCII, except EDIFACT, plus {ASCII, Base256}) the whole property is a theorem; and C01_mixed_plan_roundtrip / C01_mixed_plan_test / C01_mixed_plan_macro / C01_mixed_plan_fnc1 / C01_mixed_plan_default_options (Proofs/EncMulti.v): for ANY planner and ANY mode set, the default configuration included, whenever the plan mixes only ASCII, Base256, X12, C40 and Text and no non-ASCII run starts within the last two characters (a test on the plan, p5b; the C18 check counts the share of generated cases inside it). PARTIAL: the data layer under plans that use C40/Text/X12/EDIFACT, '
             'decode_data(data codewords of encode(x)) = x for every x and configuration, is the composition of C02 and C04 and is not yet a '
             'theorem. The check evaluates it on every case: structured inputs x symbol lists x 63 mode subsets x macro x FNC1 are encoded and '
             'decoded both ways by the implementation (and by the correspondence-tied model) and compared with the input. Eight round-trip '
             'defects of the pinned tree were repaired (fix: commits).',
        design_ref='DESIGN.md 6/C01',
        note='Trusted: Coq kernel, translator, extraction, harness, sort-trace hook. No axioms.',
        technique='Coq proof for the symbol layer (composition of C06/C07/C08/RS weight 0, all inputs); data layer: per-case round trip on model-tied implementation runs'),
    'C03': dict(
        text='Theorem C03_corrects (Coq, axiom-free) -- the property itself: for every size, every codeword and EVERY received word that differs '
             'from it in at most floor(k/2) codewords of each interleaved block, the error decoder answers Ok with exactly that codeword; '
             'C03_block_corrects for a single interleaved block. The proof follows the algorithm: the syndromes are the power sums of the error '
             'points; the identities (3)/(4) are invariants of the Schmidt-Fettweis Levinson-Durbin recursion (initial solve, regular step, singular '
             'step with its jump; Proofs/LDMath.v, LDInv.v, LDTotal.v) and at its exit they pin the polynomial [w,1] to the error locator '
             '(Proofs/ErrLoc.v: (3) bounds the order from above, the annihilated Hankel rows from below, transposed Vandermonde); the Chien search '
             'returns exactly the inverse locators (ChienCorrect.v); the Bjoerck-Pereyra stages return the error values (BPMath.v: Newton '
             'functionals and a telescoping product identity; BPCorrect.v); every correction lands inside the block and the corrected word has '
             'no non-zero syndrome (RSComplete.v). Soundness on its own: C03_no_miscorrection (locator length bound, one position per root, C09, '
             'BCH bound C03_bch_bound / C03_min_distance / C03_unique_within_radius, all blocks <= 255 codewords), C03_weight0, '
             'C03_success_is_codeword. The model of the decoder is tied to the code by correspondence and by fault enumeration on the same '
             'cases: all 48 sizes, error patterns of weight 0..t in every block (data region, EC region, both, first and last codeword of each '
             'block, all blocks at full weight), every single position, patterns that drive the singular step with a jump of two, and the same '
             'damage as flipped modules through DataMatrix::decode. The index-mapping defect of multi-block sizes was repaired (fix: commit).',
        design_ref='DESIGN.md 6/C03',
        note='Trusted: Coq kernel, translator (block set-up), extraction, harness; Spec/GF256.v, Spec/RSCode.v. No axioms.',
        technique='Coq proof of the full statement (completeness and soundness within the radius: Levinson-Durbin invariants, locator identification, Chien, Bjoerck-Pereyra, BCH bound); fault enumeration as the tie of the model to the code'),
    'C16': dict(
        text='Theorems (Coq, axiom-free), for every input, symbol list, mode set, ECI option and EVERY planner (the optimiser is a parameter of '
             'the model): C16_first_codeword -- whenever the encoder returns a stream its first codeword is 236 if and only if macros are '
             'enabled, no FNC1 start was requested and the message is header-05 ++ body ++ RS EOT (237 likewise for 06), and 232 if and only '
             'if an FNC1 start was requested (needs: codewords are only ever appended -- a frame lemma through all six mode encoders incl. the '
             'Base256 length rewrite -- and an analysis of the first codeword a header-less stream can start with); C16_detection -- '
             'use_macro_if_possible is total and strips exactly the enveloped messages, leaving the body both as data and as the slice backup() '
             're-reads; C16_stream_shape; C16_decoder_macro05/06 -- a Macro codeword in first position makes the decoder return header ++ body ++ '
             'trailer; C16_decoder_fnc1; C16_macro_roundtrip_ascii_only / C16_fnc1_roundtrip_ascii_only and C16_macro_roundtrip_ab / C16_fnc1_roundtrip_ab, C16_macro_roundtrip_ax / C16_fnc1_roundtrip_ax, C16_macro_roundtrip_ac / C16_fnc1_roundtrip_ac, C16_macro_roundtrip_mixed / C16_fnc1_roundtrip_mixed (any mode set, plans without EDIFACT that pass the tail test p5b) -- for every mode set within {ASCII, Base256}, {ASCII, X12}, {ASCII, C40} or {ASCII, Text}, whatever plan the optimiser returns, the lossless part is a theorem too (every enveloped message, every FNC1 start, every list: header codeword + legal script spelling the body + padding; the decoder returns the message). PARTIAL: that the body itself survives the mode encoders and the decoder (the lossless part) is the '
             'data-layer round trip and is decided per case: envelope generator (intact / damaged / missing header x trailer x body lengths 0..40) '
             'x macro x FNC1 x mode subsets, encoded and decoded by implementation and model. Four macro defects of the pinned tree were repaired.',
        design_ref='DESIGN.md 6/C16',
        note='Trusted: Coq kernel, translator (macro constants), extraction, harness, sort-trace hook. No axioms.',
        technique='Coq proof: iff theorem on the first codeword via frame (append-only) invariant of all mode encoders; decoder macro theorem; per-case round trip for the body'),
    'C11': dict(
        text='Theorems (Coq, axiom-free), for every input, list, mode set, option and EVERY planner: C11_classification / C11_empty_list -- the error '
             'is "symbol list empty" if and only if the supplied list is empty (the repaired upper_limit fallback is proved to return Some for every '
             'non-empty list) and every other refusal is "too much or illegal data"; C11_macro_total, C11_eci_total (every ECI <= 999999), '
             'C11_padding_total -- the glue cannot panic; C11_mode_encoders -- the six mode encoders raise no other error and never change the symbol '
             'list or mode set; C11_panic_source -- a panic of the entry point can only originate in the planner or in the main loop; C11_planner_total -- the planner never panics: for every input, symbol list, start mode, all 64 mode sets and every sort that returns a sub-list of its input, optimize returns (invariants of the five plan implementations in lock-step: look-ahead digits, at most two pending C40 values, no unlatch after the X12/EDIFACT end-of-data decision, legal Frac denominators, as_start only on one-switch plans, agreement of all plans on end-of-data; an edge of fuel per iteration), hence C11_encodation_plan_total and C11_panic_is_main_loop; C11_total -- THE WHOLE PROPERTY is a theorem of the model: for every byte string, every symbol list, all 64 mode sets, macro / FNC1 option, every ECI up to 999999 and every sub-list sort (all tie-breaks of sort_unstable) the entry point returns a value or an error and never panics, trips an assertion, overflows or exhausts a loop bound; C11_value_or_classified_error states it in the words of the property (a value, or an error that is symbol-list-empty exactly for the empty list), C11_builder_total lifts it through encode_eci with the Reed-Solomon step. Behind it: the planner guarantees strictly decreasing positions, alternating modes, ASCII runs that end at item boundaries of the greedy ASCII encodation, Base256 runs of at most 1555 / 1556 bytes and X12 runs of native characters in whole triples (Proofs/PlanAlign.v, also C18_plan_aligned); under such plans no assertion of the main loop, of maybe_switch_mode, of the Base256 length field, of the X12 value table, of the EDIFACT end-of-data handling or of the C40 / Text value buffer is reachable, backup() stays inside the message and every run that consumes a character writes at least two codewords (Proofs/EncABTotal.v, EncABXTotal.v, EncABXETotal.v, EncAllTotal.v; C11_ab_total, C11_abx_total, C11_abxe_total are the stages for the smaller mode sets). The '
             'planner terminates within the bound of C19. What the theorems cannot say is that the model is the code: that is the correspondence, which runs the '
             'implementation in debug and release builds with panics caught, and the model (every panic site explicit), on the same inputs: all '
             '64 mode subsets incl. the empty one and those without ASCII, empty / single / two-symbol lists, macro fragments, FNC1, ECI. '
             'Four defects of the pinned tree were repaired (fix: commits).',
        design_ref='DESIGN.md 6/C11',
        note='Trusted: Coq kernel, translator, extraction, harness with catch_unwind, sort-trace hook; allocation failure outside the model. No axioms.',
        technique='Coq proof: totality of planner and all six mode encoders under the planner\'s plan invariants (no panic for every input and configuration), error-class and frame lemmas; debug/release differential correspondence with explicit panic outcomes ties the model to the code'),
    'C10': dict(
        text='Theorems (Coq, axiom-free): C10_first_fit -- for every input, sorted list, mode set, option and planner, the symbol returned is the first '
             'listed symbol whose capacity holds the stream the encoder produced (nothing is lost to the symbol choice; later symbols never have '
             'smaller capacity, C10_order_is_capacity). C10_greedy_optimal / C10_ascii_only_minimal: for the ASCII-only configuration the full statement IS a theorem -- greedy digit pairing is the shortest among all legal ASCII encodings, so the symbol is the smallest one any legal stream of the enabled mode fits. In general the full statement -- minimal over ALL legal encodings -- is false of the faithful model: '
             'C10_exact_fit_refuted exhibits, by kernel evaluation of the encoder and decoder models, an 11-byte input for which a 10-codeword '
             'stream accepted by the crate\'s own decoder exists, an 8x32 symbol is listed, and the encoder returns a 12-codeword symbol. This is the '
             'recorded finding C10-exact-fit (known_findings.json; not a small patch). Two further root causes are recorded with kernel-evaluated or replayed witnesses: C10-base256-run-length (pruning keeps one Base256 candidate per start mode although the future cost depends on the field length; oracle: exact two-mode bound refenc.ab_bound) and C10-unbeatable-strike (the C40/Text plan considers no switch while it reads an "unbeatable" strike of base-set characters; C10_strike_refuted, C10_strike_refusal_refuted; the class is decided by re-decoding witness and encoder stream and simulating the strike along the encoder\'s run), each with its refusal face. Outside these classes optimality is decided per case against '
             'an exact search over all legal streams (tools/props/refenc.best_stream: every segmentation into mode runs with every end-of-data '
             'form, memoised), against plain ASCII / plain Base256 lengths, and refusals against the largest symbol; any miss outside the '
             'recorded classes is a VIOLATION. Two C10 defects of the pinned tree were repaired (fix: commits).',
        design_ref='DESIGN.md 6/C10',
        note='Trusted: Coq kernel + vm_compute, extraction, harness, sort-trace hook; refenc.py/refdec.py as independent reading of ISO/IEC 16022 5.2. No axioms.',
        technique='Coq proof of first-fit minimality for the produced stream + kernel-evaluated counterexample for the full statement (known finding); exact-search oracle per case'),
    'C14': dict(
        text='Theorems (Coq, axiom-free): C14_tables / C14_helpers -- both Latin-1 helper tables, regenerated from src/data.rs on every run, are the '
             'identity on exactly the printable ISO/IEC 8859-1 repertoire and undefined elsewhere, for every value (256-value kernel sweep + an '
             'arithmetic argument above 255); C14_inverse -- utf8_to_latin1 s = Some l <-> latin1_to_utf8 l = Some s; C14_choice -- encode_str '
             'encodes the string byte-for-byte with no ECI exactly when all characters are printable Latin-1 and otherwise its UTF-8 bytes with ECI '
             '26; C14_eci_header -- that stream starts [macro]? 241 27; C14_utf8_roundtrip. PARTIAL: the round trip through the mode encoders and '
             'decode_str is decided per case: strings from ASCII, Latin-1 supplement, C0/C1 controls, BMP, astral planes, alone and mixed, inside '
             'and outside macro envelopes, by implementation and model; helpers on all scalars up to U+017F and all 256 bytes. The macro/backup '
             'defect of the pinned tree was repaired (fix: commit).',
        design_ref='DESIGN.md 6/C14',
        note='Trusted: Coq kernel, translator (match arms of the two helpers), extraction, harness; Rust String/char modelled as scalar lists; Spec/Eci.v. No axioms.',
        technique='Coq proof: kernel sweep over the regenerated tables lifted to all values, inverse and choice theorems; per-case string round trip'),
    'C02': dict(
        text='Theorems (Coq, axiom-free), for every input, list, mode set, option and EVERY planner: C02_symbol_and_length -- the symbol is a member of '
             'the supplied list and the stream has exactly its number of data codewords; C02_error_codewords -- followed by exactly k*B error '
             'codewords forming RS codewords (C06); C02_padding / C02_padding_form / C02_randomised_pad -- what the mode encoders wrote is never '
             'truncated and is followed, if capacity remains, by [254 unless in ASCII], 129 and pads randomised by the 253-state algorithm at their '
             'positions, to exactly the capacity; C02_header -- 232, 236/237, 241+designator come first in this order; C02_ascii_plan_conformant / C02_ascii_only_conformant -- under the plan "stay in ASCII" (the only possible plan when only ASCII is enabled), C02_base256_only_conformant for the Base256-only configuration, and C02_ab_plan_conformant / C02_ascii_base256_conformant for EVERY plan over ASCII and Base256 with arbitrary switch positions (every mode set within {ASCII, Base256}), and C02_ax_conformant / C02_macro_ax_conformant / C02_fnc1_ax_conformant for every plan over ASCII and X12 (the mode sets {X12}, {ASCII, X12}), C02_ac_conformant / C02_macro_ac_conformant / C02_fnc1_ac_conformant for every plan over ASCII and C40 or ASCII and Text ({C40}, {ASCII, C40}, {Text}, {ASCII, Text}), the whole stream is the rendering of a legal script of Spec/Stream16022.v. PARTIAL: that the part between '
             'header and padding is a legal mode stream decoding to the input is, for EVERY input, a theorem only for those nine mode sets and, under any mode set, for the plans without EDIFACT that pass the tail test p5b (C02_mixed_plan_conformant, C02_mixed_plan_macro_conformant, C02_mixed_plan_fnc1_conformant). For '
             'the other plans it is decided per output by a certificate whose check is proved sound in Coq (C02_certificate_sound: accepted => '
             'the stream is the rendering of a legal script of Spec/Stream16022.v spelling exactly the input bytes, and the model decoder '
             'returns them; nothing is assumed about the recogniser that guesses the script). The extracted check runs on every stream the '
             'implementation produces (5000+ per quick run, none rejected on the current tree); streams with an ECI designator, which lie outside the '
             'script language, are judged by tools/props/refdec.py, an independent decoder written from ISO/IEC 16022 5.2, which also '
             're-judges all other streams.',
        design_ref='DESIGN.md 6/C02',
        note='Trusted: Coq kernel, translator, extraction, harness, sort-trace hook; refdec.py as independent reading of the standard. No axioms.',
        technique='Coq proof: symbol membership, exact lengths, padding form and header order for all inputs; conformance of the mode stream: theorem for two configurations, sound Coq-checked certificate per output otherwise'),
    'C17': dict(
        category='proof',
        text='Theorems (Coq, axiom-free). C17_path -- for EVERY bitmap (any width and height up to the i16 limit of the implementation, any contents) '
             'with a dark top-left module the model of Bitmap::path (bits_to_edge_graph, edge_left with its hint, the walk / euler / tours loops with the '
             'insert and alternatives bookkeeping of the Hierholzer splicing, Jump between components, compress_path) returns a path, that path is '
             'well-formed (axis-parallel non-zero segments, closed sub-paths, Move relative to the point the Close returned to, inside the bounding box) '
             'and its even-odd filling is exactly the set of dark modules. Its parts: C17_path_total (every node of the outline graph has even degree, so '
             'the expect() of the walk is never reached; every loop iteration removes an edge, so the loops end), C17_path_renders_dark (partial '
             'correctness), C17_tours_decompose (the micro steps are closed tours of unit moves in the box that use every edge of the outline graph '
             'exactly once and nothing else -- invariants of walk, euler and tours, splice lemmas), C17_compress_path (compress_path preserves the drawn '
             'vertical unit edges and produces a well-formed path), C17_graph_is_boundary (the outline graph is the dark/light boundary), '
             'C17_evenodd_fills_dark (any well-formed path with odd multiplicity exactly on the boundary fills exactly the dark modules; telescoping '
             'parity argument), C17_pixels (pixels() = the dark modules in row-major order), C17_unicode (each block character shows the two modules it '
             'covers, inside a one-module light border). The model is hand-written (Model/Path.v) and tied to src/placement/path.rs by the correspondence '
             'run (implementation path = model path, byte for byte). In addition every path the implementation returns is passed through a certificate '
             'check proved sound in Coq (C17_check_sound, extracted) and re-filled by an independent Python rasteriser. Inputs of the correspondence: '
             'symbols of all 48 sizes, all bitmaps up to 3x3 with a dark top-left module, random bitmaps, constructed topologies (checkerboards, nested '
             'rings, islands, combs, spiral, holes), one bitmap with more than 65535 outline edges.',
        design_ref='DESIGN.md 6/C17',
        note='Level: proof of the property for the Gallina model of the algorithm (total correctness) + '
             'correspondence of model and implementation + verified certificate checking per output. '
             'Trusted: Coq kernel, Spec/EvenOdd.v as the meaning of even-odd filling, extraction, harness, the hand-written model Model/Path.v (tied by the correspondence run). No axioms.',
        technique='Coq proof: invariants of the Hierholzer loops (walk/euler/tours), compress_path, even-odd parity theorem; pixels and unicode specs; model tied by correspondence, sound certificate checker run on each implementation output'),
    'C04': dict(
        text='Theorem C04_scripts (Coq, axiom-free): for ALL byte strings and ALL encoder scripts over all six encodation schemes of ISO/IEC '
             '16022 -- any sequence, in any order and number, of ASCII runs (digit pairs or single digits at the encoder\'s choice, Upper Shift), '
             'Base256 runs (any length 1..1555 with one- or two-codeword length field, or the run-to-the-end form), C40 and Text runs over arbitrary '
             'bytes (basic set, Shift 1/2/3, Upper Shift, optional Shift-1 filler; ended by Unlatch or, at the symbol boundary, by nothing / one '
             'trailing ASCII codeword), X12 runs, EDIFACT runs (unlatch in each of the four positions, or complete groups at the end of the symbol '
             'followed by at most two ASCII codewords), followed by any amount of correct padding -- decode_data(stream script) = bytes of the script; '
             'C04_macro05/06 and C04_fnc1: the same behind a Macro codeword (header and trailer re-created) or an FNC1 in first position. The streams '
             'are defined from the encoder\'s side of the standard (Spec/Stream16022.v: Tables 2 and 3, 5.2.x, Annex B) without reference to the '
             'decoder; the proof is an induction over the script through all per-mode decoders, check_padding and the mode loop with every fuel '
             'obligation discharged; shift-set tables and EDIFACT characters by kernel sweeps over all 256 characters, 3-in-2 and 4-in-3 packing and '
             'both randomisers by arithmetic. Residue decided per case: that the script language covers everything the standard allows (e.g. '
             'redundant shift sequences, FNC1 inside runs) is not provable; the independent nondeterministic reference encoder tools/props/refenc.py '
             'draws random legal streams from its own reading of the standard (each cross-validated by refdec.py), plus constructed streams on the '
             'decoder\'s constants, and the implementation, tied to the model on the same streams, must return the bytes.',
        design_ref='DESIGN.md 6/C04',
        note='Trusted: Coq kernel, translator (mode tables), extraction, harness; Spec/Stream16022.v and refenc.py/refdec.py as readings of ISO/IEC 16022 5.2. No axioms.',
        technique='Coq proof by induction over encoder scripts covering all six encodation schemes, padding, Macro and FNC1 prefixes (all inputs, all scripts); independent reference encoder per case for what lies outside the script language'),
}

PENDING_REASON = 'check not built yet in this round (work proceeds in the order of DESIGN.md section 11); not claimed until its quick command exists'

ALL = ['C%02d' % i for i in range(1, 20)]


def main():
    checks = []
    for pid in ALL:
        if pid not in CLAIMED:
            continue
        c = CLAIMED[pid]
        checks.append({
            'property_id': pid,
            'quick_cmd': './vcheck %s --tier quick' % pid,
            'thorough_cmd': './vcheck %s --tier thorough' % pid,
            'evidence_file': 'evidence/%s.json' % pid,
            'replay_cmd_template': './vcheck replay {path}',
            'engine': 'coq-model+correspondence',
            'level_claimed': {'category': c.get('category', 'proof'), 'text': c['text'], 'design_ref': c['design_ref']},
            'level_note': c['note'],
            'technique': c['technique'],
        })
    man = {
        'version': 1,
        'setup_cmd': './vcheck setup',
        'hooks': {
            'guard': 'cfg(datamatrix_verif)',
            'enable': 'RUSTFLAGS="--cfg datamatrix_verif" (set in /verif/harness/.cargo/config.toml)',
            'baseline_off_cmd': 'cd /repo && cargo test --workspace --no-fail-fast --offline',
            'source_commits': sorted(set(open(os.path.join(HERE, 'hooks_commits.txt')).read().split())) if os.path.exists(os.path.join(HERE, 'hooks_commits.txt')) else [],
            'add_only': True,
        },
        'engines': [{
            'name': 'coq-model+correspondence', 'path': 'vcheck',
            'serves_properties': sorted(CLAIMED),
            'kind_free_text': 'Coq 8.16 theorems about a Gallina model (tables regenerated from the Rust source, algorithms '
                              'hand-mirrored) + differential correspondence between the OCaml-extracted model and the crate',
        }],
        'checks': checks,
        'notes': 'See DESIGN.md. ./vcheck <id> regenerates tables from /repo, re-checks the theorems and their axioms, rebuilds '
                 'the crate with hooks, runs the correspondence and, if anything broke, searches for a failing input.',
        'not_applicable': [{'property_id': p, 'reason': PENDING_REASON} for p in ALL if p not in CLAIMED],
    }
    json.dump(man, open(os.path.join(HERE, 'MANIFEST.json'), 'w'), indent=1)


if __name__ == '__main__':
    main()
