#!/usr/bin/env python3
"""Prints the markdown table of DESIGN.md S.5 from /verif/seeded/*/meta.json."""
import glob
import json
import os

rows = []
NOTES = json.load(open('/verif/seeded/NOTES.json')) if os.path.exists('/verif/seeded/NOTES.json') else {}
for f in sorted(glob.glob('/verif/seeded/*/meta.json')):
    m = json.load(open(f))
    sid = m.get('seed_id') or os.path.basename(os.path.dirname(f))
    conf = m.get('confirmation', {})
    files = ', '.join(x.replace('src/', '') for x in m.get('files', []))
    caught = m.get('caught_by', [])
    tgt = m.get('property', sid[:3])
    note = NOTES.get(sid, m.get('note', ''))
    how = []
    for c in caught:
        r = m['checks'][c]
        how.append(c + ('*' if r.get('no_input') else ''))
    rows.append('| %s | %s | %s | %s | %s | %s |' % (
        sid, m.get('title', '').replace('|', '/')[:110], files, 'yes' if conf.get('confirmed') else 'NO',
        ('**yes**' if tgt in caught else '**no**'), ', '.join(how) + ((' — ' + note) if note else '')))
print('| seed | change | file | confirmed (tests pass, demo fails) | caught by its own check | checks that report it (* = proof/tie broken, no failing input found) |')
print('|---|---|---|---|---|---|')
print('\n'.join(rows))
