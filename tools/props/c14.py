"""C14 -- string API round trip with automatic ECI selection."""
import enccommon
import gen
import refdec
from enccommon import model_line, canon_impl, ints
from vlib import fmt_list

PID = 'C14'
RULE = ('encode_str then decode_str on strings drawn from ASCII, Latin-1 supplement, C0/C1 controls, BMP and astral scalars, alone and '
        'mixed, inside and outside Macro 05/06 envelopes; scalars with a special role (U+FEFF, non-characters, the borders of the UTF-8 lengths and of the surrogate gap, C1/Latin-1 borders, invisible characters) in every position of short strings; printable Latin-1 strings around the small symbol capacities ending in Latin-1 supplement characters; strings whose UTF-8 form has 1030..1500 bytes (largest symbols); long printable strings (lengths around 64, 128, 192, 256) with such scalars at the start, the end, the 64-byte borders and random positions; utf8_to_latin1 / latin1_to_utf8 on every scalar value up to U+017F plus '
        'samples of the rest and on all 256 bytes; non-trivial = non-empty string')
THEOREMS = 'C14_tables, C14_helpers, C14_inverse, C14_choice, C14_eci_header, C14_utf8_roundtrip'
ASSUMPTIONS = ['Rust String/char modelled as scalar lists; the sort order of remove_hopeless_cases is taken from the implementation']
POOLS = {
    'ascii': list(range(32, 127)),
    'latin1': list(range(160, 256)),
    'c0c1': [0, 1, 9, 10, 13, 27, 29, 30, 31, 127, 128, 133, 159],
    'bmp': [0x100, 0x17F, 0x391, 0x3A9, 0x20AC, 0x4E2D, 0xD7FF, 0xE000, 0xFFFD, 0xFFFF, 0x0E01, 0x11E],
    'astral': [0x10000, 0x1F978, 0x1F600, 0x10FFFF, 0x2F800],
}


def rand_string(rng):
    kinds = rng.choice([['ascii'], ['latin1'], ['ascii', 'latin1'], ['ascii', 'c0c1'], ['bmp'], ['astral'], ['ascii', 'bmp', 'astral'],
                        ['ascii', 'latin1', 'c0c1', 'bmp', 'astral']])
    L = rng.below(20)
    s = []
    for _ in range(L):
        s.append(rng.choice(POOLS[rng.choice(kinds)]))
    if rng.chance(1, 4):
        s = rng.choice([gen.H05, gen.H06]) + s + rng.choice([gen.TRAIL, gen.TRAIL, []])
    return s


def gen_cases(rng, tier, ctx):
    cs = []
    n = 2500 if tier == 'quick' else 40000
    for _ in range(n):
        s = rand_string(rng)
        wl = gen.DEFAULT if rng.chance(1, 2) else gen.ALL48
        cs.append({'line': 'str_rt %s %s' % (fmt_list(s), fmt_list(wl)), 'cat': 'roundtrip', 's': s})
    # scalar values with a special role somewhere (byte order mark, non-characters, the borders of the UTF-8 lengths and
    # of the surrogate gap, C1 / Latin-1 borders, invisible characters), in every position of a short string
    special = [0xFEFF, 0xFFFE, 0xFFFF, 0xFFFD, 0, 0x7F, 0x80, 0x85, 0x9F, 0xA0, 0xAD, 0xFF, 0x100, 0x7FF, 0x800, 0xD7FF, 0xE000,
               0x10000, 0x10FFFF, 0x2028, 0x2029, 0x200B, 0x1F, 0x20]
    for c in special:
        for s in ([c], [c, 65], [65, c], [c, c], [0x4E2D, c, 65], [c, 0x4E2D], gen.H05 + [c, 66] + gen.TRAIL, gen.H06 + [66, c] + gen.TRAIL,
                  [c] + [0x20AC] * 3, [233, c, 233]):
            for wl in (gen.DEFAULT, gen.ALL48):
                cs.append({'line': 'str_rt %s %s' % (fmt_list(s), fmt_list(wl)), 'cat': 'special-scalar', 's': s})
    # long strings (around the lengths 63..65, 127..129, 255..257 and in between): printable text with zero, one or two scalars
    # of a special role at the start, the end, a block border or anywhere; string API and helper alike
    lengths = [31, 32, 33, 63, 64, 65, 66, 70, 100, 127, 128, 129, 130, 191, 192, 193, 255, 256, 257, 300]
    odd = [0x7F, 0x80, 0x9F, 0xA0, 0xFF, 0x100, 0, 0x1F, 0x20AC, 0xFEFF, 0x10000]
    for L in lengths:
        for pool in (['ascii'], ['ascii', 'latin1']):
            if tier == 'quick' and L > 130 and pool == ['ascii', 'latin1'] and L not in (192, 256):
                continue
            base = [rng.choice(POOLS[rng.choice(pool)]) for _ in range(L)]
            variants = [list(base)]
            for c in odd:
                for posn in (0, L - 1, 63, 64, L // 2, rng.below(L)):
                    if posn >= L or (tier == 'quick' and not rng.chance(1, 3)):
                        continue
                    v = list(base)
                    v[posn] = c
                    if rng.chance(1, 4):
                        v[rng.below(L)] = rng.choice(odd)
                    variants.append(v)
            for v in variants:
                cs.append({'line': 'utf8_to_latin1 %s' % fmt_list(v), 'cat': 'long-string-helper', 's': v})
                if L <= 130 or rng.chance(1, 3):
                    cs.append({'line': 'str_rt %s %s' % (fmt_list(v), fmt_list(gen.ALL48)), 'cat': 'long-string', 's': v})
    # printable Latin-1 strings whose encoded length lands around a small symbol capacity and whose last characters are from the
    # Latin-1 supplement (two ASCII codewords each): the end-of-data rules of the mode encoders seen through the string API
    for c in sorted(set(x for x in gen.caps() if x <= 62)):
        for kind, per in (('edifact', 4.0 / 3), ('c40', 1.5), ('text', 1.5), ('x12', 1.5)):
            for delta in (-3, -2, -1, 0, 1, 2):
                for tail in ([233], [233, 233], [65, 233], [233, 65], [233, 233, 233], [64, 233]):
                    L = int((c - 1) * per) + delta
                    if L < len(tail) or (tier == 'quick' and not rng.chance(1, 3)):
                        continue
                    v = [rng.choice(gen.ALPH[kind]) for _ in range(L - len(tail))] + tail
                    cs.append({'line': 'str_rt %s %s' % (fmt_list(v), fmt_list(gen.ALL48 if rng.chance(1, 2) else gen.DEFAULT)), 'cat': 'latin1-tail', 's': v})
    # strings near the capacity of the largest symbols (UTF-8 section longer than 1024 bytes, mixed character widths)
    wide = [0x41, 0xE9, 0x3A9, 0x20AC, 0x4E2D, 0x1F600, 0x7FF, 0x800]
    for target in ([1030, 1400] if tier == 'quick' else [600, 1020, 1030, 1100, 1300, 1400, 1500]):
        for variant in range(2 if tier == 'quick' else 5):
            v = []
            n = 0
            while n < target:
                c = rng.choice(wide)
                v.append(c)
                n += len(chr(c).encode('utf-8'))
            cs.append({'line': 'str_rt %s %s' % (fmt_list(v), fmt_list(gen.ALL48)), 'cat': 'long-utf8', 's': v})
    # a UTF-8 section that is a Base256 run with a two-byte length field (250 bytes or more: wide characters), left by a mode switch,
    # then an ASCII-range run of one scheme that ends at a symbol capacity, with short tails: the planner's count of written codewords
    # after the long run decides the end-of-data rules of the following mode (same idea as gen.constant_cases' b256-then-* family)
    cp = sorted(set(gen.caps()))
    for R in ((84,) if tier == 'quick' else (84, 90, 120)):
        run = [0x65E5] * R                                   # three bytes each
        used = 2 + 1 + 2 + 3 * R                             # ECI designator, Base256 latch, length field, bytes
        for cap in [c for c in cp if c > used + 4][: 1 if tier == 'quick' else 2]:
            for kind, per in (('edifact', 0.75), ('c40', 2.0 / 3), ('text', 2.0 / 3), ('x12', 2.0 / 3)):
                for delta in range(-4, 3):
                    k = int((cap - used - 1) / per) + delta
                    if k <= 0:
                        continue
                    body = [rng.choice(gen.ALPH[kind]) for _ in range(k)]
                    for tail in ([], [97], [97, 98], [126], [49, 50]):
                        v = run + body + tail
                        cs.append({'line': 'str_rt %s %s' % (fmt_list(v), fmt_list(gen.DEFAULT)), 'cat': 'utf8-b256-then-' + kind, 's': v})
    # helpers on their whole domains
    for c in range(0, 0x180):
        cs.append({'line': 'utf8_to_latin1 %d' % c, 'cat': 'helper', 's': [c]})
    for c in POOLS['bmp'] + POOLS['astral'] + [0xD7FF, 0xE000]:
        cs.append({'line': 'utf8_to_latin1 65,%d' % c, 'cat': 'helper', 's': [65, c]})
    for b in range(256):
        cs.append({'line': 'latin1_to_utf8 %d' % b, 'cat': 'helper', 's': [b]})
    return cs


def printable_latin1(c):
    return 32 <= c <= 126 or 160 <= c <= 255


def check_impl(c, out, ctx, prof):
    a = c['line'].split(' ')
    s = c['s']
    if a[0] == 'str_rt':
        if not out.startswith('ok '):
            return None
        dcw = ints(out.split(' ')[2])
        back = out.split(' ')[3]
        want = 'ok:' + fmt_list(s)
        if back != want:
            return 'decode_str gives %s, encoded %s' % (back[:80], want[:80])
        r = refdec.decode(dcw)
        if r['error']:
            return None
        if all(printable_latin1(x) for x in s):
            if r['eci']:
                return 'printable Latin-1 string carries an ECI designator'
            if list(r['data']) != s:
                return 'Latin-1 string is not encoded byte for byte'
        else:
            if [e for _, e in r['eci']] != [26]:
                return 'non-Latin-1 string does not carry exactly the UTF-8 ECI: %s' % r['eci']
            body = bytes(r['data'])
            if body.decode('utf-8', 'surrogatepass') != ''.join(map(chr, s)):
                return 'UTF-8 payload differs from the string'
        return None
    if a[0] == 'utf8_to_latin1':
        want = 'ok ' + fmt_list(s) if all(printable_latin1(x) for x in s) else 'none'
        return None if out == want else 'utf8_to_latin1(%s) = %s, ISO 8859-1 says %s' % (s, out, want)
    if a[0] == 'latin1_to_utf8':
        want = 'ok ' + fmt_list(s) if all(printable_latin1(x) for x in s) else 'none'
        return None if out == want else 'latin1_to_utf8(%s) = %s, ISO 8859-1 says %s' % (s, out, want)
    return None


def nontrivial(c, out):
    return len(c['s']) > 0


def search(ctx, rng, budget, diffs):
    return enccommon.generic_search(__import__('c14'), ctx, rng)
