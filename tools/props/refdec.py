"""refdec.py -- an independent mode-tracking decoder of ISO/IEC 16022 data codeword streams, written
from the standard (5.2.3 - 5.2.9, Annex P-style end-of-symbol rules), not from the crate.  Used only as
the direct oracle of properties C02 / C13 / C16 / C18 and to validate the reference encoder.

decode(cw) -> dict(data=bytes, modes=[latched modes in order], eci=[(pos, number)], macro=None|5|6,
                   fnc1=bool, pad_start=index or None, error=None|str)
"""

C40_BASE = " 0123456789ABCDEFGHIJKLMNOPQRSTUVWXYZ"
TEXT_BASE = " 0123456789abcdefghijklmnopqrstuvwxyz"
SHIFT2 = "!\"#$%&'()*+,-./:;<=>?@[\\]^_"
C40_SHIFT3 = "`abcdefghijklmnopqrstuvwxyz{|}~\x7f"
TEXT_SHIFT3 = "`ABCDEFGHIJKLMNOPQRSTUVWXYZ{|}~\x7f"
X12_SET = "\r*> 0123456789ABCDEFGHIJKLMNOPQRSTUVWXYZ"

LATCH = {230: 'C40', 231: 'Base256', 238: 'X12', 239: 'Text', 240: 'Edifact'}


class Bad(Exception):
    pass


def unrandomize_253(v, pos):
    r = v - ((149 * pos) % 253 + 1)
    return r if r >= 1 else r + 254


def unrandomize_255(v, pos):
    r = v - ((149 * pos) % 255 + 1)
    return r if r >= 0 else r + 256


def decode(cw):
    out = bytearray()
    res = dict(data=None, modes=[], eci=[], macro=None, fnc1=False, pad_start=None, error=None, segments=[], implicit=[], spans=[])
    n = len(cw)
    i = 0
    trailer = b''
    try:
        if n and cw[0] in (236, 237):
            res['macro'] = 5 if cw[0] == 236 else 6
            out += b'[)>\x1e05\x1d' if cw[0] == 236 else b'[)>\x1e06\x1d'
            trailer = b'\x1e\x04'
            i = 1
        if i < n and cw[i] == 232:
            res['fnc1'] = True
            i += 1
        upper = False
        while i < n:
            c = cw[i]
            if upper and not 1 <= c <= 128:
                raise Bad('upper shift followed by %d' % c)
            if 1 <= c <= 128:
                out.append(c - 1 + (128 if upper else 0))
                upper = False
                i += 1
            elif c == 129:
                res['pad_start'] = i
                for j in range(i + 1, n):
                    if unrandomize_253(cw[j], j + 1) != 129:
                        raise Bad('codeword %d in the padding area is not a randomised pad' % (j + 1))
                i = n
            elif 130 <= c <= 229:
                out += b'%02d' % (c - 130)
                i += 1
            elif c == 232:
                out.append(29)
                i += 1
            elif c == 235:
                upper = True
                i += 1
            elif c == 241:
                i += 1
                if i >= n:
                    raise Bad('ECI designator missing')
                c1 = cw[i]
                if 1 <= c1 <= 127:
                    num, k = c1 - 1, 1
                elif 128 <= c1 <= 191:
                    if i + 1 >= n or not 1 <= cw[i + 1] <= 254:
                        raise Bad('bad ECI designator')
                    num, k = (c1 - 128) * 254 + cw[i + 1] - 1 + 127, 2
                elif 192 <= c1 <= 207:
                    if i + 2 >= n or not 1 <= cw[i + 1] <= 254 or not 1 <= cw[i + 2] <= 254:
                        raise Bad('bad ECI designator')
                    num, k = (c1 - 192) * 64516 + (cw[i + 1] - 1) * 254 + cw[i + 2] - 1 + 16383, 3
                else:
                    raise Bad('bad ECI designator')
                res['eci'].append((len(out), num))
                i += k
            elif c in LATCH:
                mode = LATCH[c]
                res['modes'].append(mode)
                start_out = len(out)
                i += 1
                if mode in ('C40', 'Text', 'X12'):
                    i = _c40_like(cw, i, out, mode, res['implicit'])
                elif mode == 'Edifact':
                    i = _edifact(cw, i, out, res['implicit'])
                else:
                    i = _base256(cw, i, out, res['implicit'])
                res['segments'].append((mode, len(out) - start_out))
                res['spans'].append((mode, start_out, len(out)))
            else:
                raise Bad('codeword %d is not allowed in ASCII mode' % c)
        if upper:
            raise Bad('stream ends after an upper shift')
    except Bad as ex:
        res['error'] = str(ex)
        return res
    res['data'] = bytes(out) + trailer
    return res


def _c40_like(cw, i, out, mode, implicit=None):
    n = len(cw)
    shift, upper = 0, False
    base = C40_BASE if mode == 'C40' else TEXT_BASE
    shift3 = C40_SHIFT3 if mode == 'C40' else TEXT_SHIFT3

    def emit(ch):
        nonlocal upper
        out.append(ord(ch) + (128 if upper else 0) if isinstance(ch, str) else ch + (128 if upper else 0))
        upper = False

    while n - i >= 2:
        if cw[i] == 254:
            return i + 1
        v = cw[i] * 256 + cw[i + 1] - 1
        if v < 0 or v >= 64000:
            raise Bad('illegal C40/Text/X12 codeword pair %d,%d' % (cw[i], cw[i + 1]))
        vals = (v // 1600, (v // 40) % 40, v % 40)
        i += 2
        for x in vals:
            if mode == 'X12':
                out.append(ord(X12_SET[x]))
                continue
            if shift == 0:
                if x <= 2:
                    shift = x + 1
                else:
                    emit(base[x - 3])
            elif shift == 1:
                if x > 31:
                    raise Bad('value %d in shift 1 set' % x)
                emit(x)
                shift = 0
            elif shift == 2:
                if x <= 26:
                    emit(SHIFT2[x])
                elif x == 30:
                    upper = True
                else:
                    raise Bad('value %d in shift 2 set' % x)
                shift = 0
            else:
                if x > 31:
                    raise Bad('value %d in shift 3 set' % x)
                emit(shift3[x])
                shift = 0
    # one codeword left in the symbol: it is an ASCII codeword (or an unlatch to be ignored)
    if n - i == 1 and cw[i] == 254:
        return i + 1
    if implicit is not None:
        implicit.append(mode)          # the run ended without an unlatch: end-of-symbol form
    return i


def _edifact(cw, i, out, implicit=None):
    n = len(cw)
    while i < n:
        if n - i <= 2:
            if implicit is not None:
                implicit.append('Edifact')
            return i         # the last one or two codewords of the symbol are ASCII
        a, b, c = cw[i], cw[i + 1], cw[i + 2]
        bits = (a << 16) | (b << 8) | c
        vals = [(bits >> 18) & 63, (bits >> 12) & 63, (bits >> 6) & 63, bits & 63]
        used = [1, 2, 3, 3]
        for k, v in enumerate(vals):
            if v == 31:
                return i + used[k]
            out.append(v if v & 32 else v | 64)
        i += 3
    if implicit is not None:
        implicit.append('Edifact')
    return i


def _base256(cw, i, out, implicit=None):
    n = len(cw)
    if i >= n:
        raise Bad('Base256 length missing')
    d1 = unrandomize_255(cw[i], i + 1)
    i += 1
    if d1 == 0:
        length = n - i
        if implicit is not None:
            implicit.append('Base256')
    elif d1 < 250:
        length = d1
    else:
        if i >= n:
            raise Bad('Base256 length missing')
        length = 250 * (d1 - 249) + unrandomize_255(cw[i], i + 1)
        i += 1
    if i + length > n:
        raise Bad('Base256 field runs past the end of the symbol')
    for j in range(length):
        out.append(unrandomize_255(cw[i + j], i + j + 1))
    return i + length
