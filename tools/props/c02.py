"""C02 -- encoder output is a conformant ISO/IEC 16022 data codeword stream."""
import common
import enccommon
import gen
import corpus
import refdec
from enccommon import canon_impl, ints
from vlib import fmt_list

PID = 'C02'
RULE = ('as C01 plus ECI; every produced stream without ECI must pass the Coq-checked conformance certificate (Spec/Recognise.v certify, sound by C02_certificate_sound) and every stream is decoded by the independent reference decoder tools/props/refdec.py; the padding '
        'sweep encodes the empty input and 1..3-codeword inputs for all 48 sizes so that every pad position 2..1558 occurs; '
        'non-trivial = encoding succeeded; plus three deterministic families: capacity boundaries complete for the small symbols (every alphabet x every length delta x every tail kind, with/without FNC1 start, with the single symbol of that capacity alone in the list), codec constants (Base256 runs of 248..252 / 499..501 / 1554..1555 bytes, every alphabet border byte in every context), every non-empty mode subset x {FNC1, ECI, macro, none} prefix; long inputs of one kind (lengths around 16, 64, 256, 1024) with one byte of another kind at the power-of-two offsets; and the regression corpus of minimised former witnesses')
THEOREMS = 'C02_symbol_and_length, C02_error_codewords, C02_codeword_vector, C02_padding, C02_padding_form, C02_randomised_pad, C02_header, C02_ascii_plan_conformant, C02_ascii_only_conformant, C02_base256_only_conformant, C02_ab_plan_conformant, C02_ascii_base256_conformant, C02_macro_ab_conformant, C02_fnc1_ab_conformant, C02_ax_conformant, C02_macro_ax_conformant, C02_fnc1_ax_conformant, C02_ac_conformant, C02_macro_ac_conformant, C02_fnc1_ac_conformant, C02_mixed_plan_conformant, C02_mixed_plan_macro_conformant, C02_mixed_plan_fnc1_conformant, C02_certificate_sound, C02_certificate_sound_prefixed, C02_certificate_decodes'
ASSUMPTIONS = ['refdec.py is an independent reading of ISO/IEC 16022 5.2 (arbiter for the streams the Coq certificate does not cover: ECI)',
               'the sort order of remove_hopeless_cases is taken from the implementation (hook trace)']


def gen_cases(rng, tier, ctx):
    n = 2500 if tier == 'quick' else 40000
    cs = gen.encoder_cases(rng, tier, n)
    cs += gen.boundary_cases(rng, tier, per_cap=2 if tier == 'quick' else 6)
    cs += gen.constant_cases(rng, tier)
    cs += gen.limit_cases(rng, tier)
    cs += gen.block_border_cases(rng, tier)
    cs += gen.adjacent_capacity_cases(rng, tier)
    cs += corpus.encoder_cases()
    cs += gen.prefix_cases(rng, tier)
    # padding sweep
    for i in range(48):
        for d in ([], [65], [49, 50, 51, 52], [200]):
            cs.append({'line': gen.encode_line(d, [i], 63, False, False, None), 'cat': 'padding',
                       'cfg': dict(data=d, wl=[i], modes=63, macros=False, fnc1=False, eci=None)})
    return cs


model_line = enccommon.cert_model_line
canon_model = enccommon.cert_canon_model


def check_impl(c, out, ctx, prof):
    if not out.startswith('ok '):
        return None
    cfg = c['cfg']
    parts = out.split(' ')
    sym = int(parts[1])
    dcw = ints(parts[2])
    cw = ints(parts[3])
    sp = common.spec_by_index()[sym]
    if sym not in cfg['wl']:
        return 'returned symbol %s is not in the supplied list' % common.VARIANTS[sym]
    if len(dcw) != sp['data']:
        return '%d data codewords, %s has %d' % (len(dcw), common.VARIANTS[sym], sp['data'])
    if len(cw) != sp['data'] + sp['ec'] or cw[:len(dcw)] != dcw:
        return '%d codewords in total, %s has %d' % (len(cw), common.VARIANTS[sym], sp['data'] + sp['ec'])
    why = enccommon.cert_verdict(c, ctx)
    if why:
        return why
    r = refdec.decode(dcw)
    if r['error']:
        return 'reference decoder rejects the stream: %s' % r['error']
    if list(r['data']) != cfg['data']:
        return 'reference decoder reads %s, encoded %s' % (list(r['data'])[:40], cfg['data'][:40])
    if cfg['fnc1'] != r['fnc1'] and not (cfg['fnc1'] is False and r['fnc1'] is False):
        return 'FNC1 start flag differs'
    want_eci = [] if cfg['eci'] is None else [cfg['eci']]
    if [e for _, e in r['eci']] != want_eci:
        return 'ECI designators %s, requested %s' % (r['eci'], want_eci)
    return None


def nontrivial(c, out):
    return out.startswith('ok')


def search(ctx, rng, budget, diffs):
    return enccommon.generic_search(__import__('c02'), ctx, rng)
