"""C10 -- the smallest symbol that can hold the data is chosen."""
import common
import enccommon
import gen
import corpus
import refdec
import refenc
from enccommon import model_line, canon_impl, ints

PID = 'C10'
RULE = ('data::encode on structured inputs (capacity-boundary lengths first) x symbol lists x mode subsets; direct oracles: (1) the symbol '
        'is the first of the list order that holds the produced stream and never larger than plain ASCII / plain Base256 encodation '
        'needs; (2) for inputs up to 48 bytes an exact search (tools/props/refenc.best_stream: reachability over position x codewords '
        'used x mode sub-state, every legal segmentation and end-of-data form) looks for a legal stream in any smaller listed '
        'capacity; a hit is re-validated by the reference decoder before it is reported; non-trivial = input of >= 4 bytes; codec-constant and single-symbol-list boundary families as in C02')
THEOREMS = 'C10_first_fit, C10_greedy_optimal, C10_ascii_only_minimal, C10_order_is_capacity, C10_exact_fit_refuted, C10_refusal_refuted, C10_base256_only_minimal, C10_strike_refuted, C10_strike_refusal_refuted'
ASSUMPTIONS = ['refenc.py / refdec.py are independent readings of ISO/IEC 16022 5.2',
               'the exact search is bounded to short inputs (quick: <= 32 bytes, thorough: <= 48) and to 400000 search states']


def gen_cases(rng, tier, ctx):
    cs = [c for c in corpus.encoder_cases() if len(c['cfg']['data']) <= 48 and c['cfg']['eci'] is None]
    # C40 / Text runs of base-set characters that end in a stretch of 1..6 digits followed by characters outside the base set
    # (where the planner's "unbeatable strike" hides the switch at the start of the digits), all sizes and short lists
    for _ in range(150 if tier == 'quick' else 1500):
        mode = rng.choice(['text', 'c40'])
        letters = list(range(97, 123)) if mode == 'text' else list(range(65, 91))
        other = list(range(65, 91)) if mode == 'text' else list(range(97, 123))
        d = [rng.choice(letters + [48 + rng.below(10)]) for _ in range(3 * rng.range(1, 6) + rng.below(3))]
        d += [48 + rng.below(10) for _ in range(rng.range(1, 6))]
        d += [rng.choice(other + [33, 64, 200, 13]) for _ in range(rng.range(1, 3))]
        d += [48 + rng.below(10) for _ in range(rng.below(4))]
        wl = gen.ALL48 if rng.chance(1, 2) else gen.rand_list(rng)
        cs.append({'line': gen.encode_line(d, wl, 63, False, False, None), 'cat': 'strike',
                   'cfg': dict(data=d, wl=wl, modes=63, macros=False, fnc1=False, eci=None)})
    n = 1500 if tier == 'quick' else 20000
    maxlen = 32 if tier == 'quick' else 48
    for _ in range(n):
        L = rng.below(maxlen) if rng.chance(4, 5) else gen.rand_len(rng, tier)
        d = gen.rand_bytes(rng, L)
        wl = gen.rand_list(rng)
        m = gen.rand_modes(rng)
        cs.append({'line': gen.encode_line(d, wl, m, False, False, None), 'cat': 'random',
                   'cfg': dict(data=d, wl=wl, modes=m, macros=False, fnc1=False, eci=None)})
    cs += gen.boundary_cases(rng, tier, per_cap=2 if tier == 'quick' else 6)
    cs += gen.adjacent_capacity_cases(rng, tier)
    cs += [c for c in gen.constant_cases(rng, tier) if len(c['cfg']['data']) <= 260]
    # long inputs, judged by the two-mode (ASCII / Base256) bound: the constant and upper-limit families, and runs of high
    # bytes around the 249/250 length-field border between short ASCII runs, sized to land on a symbol capacity
    cs += [c for c in gen.constant_cases(rng, tier) if len(c['cfg']['data']) > 260 and c['cfg']['modes'] & 33 == 33]
    capset = sorted(set(gen.caps()))
    for k in range(0, 7):
        for B in (247, 248, 249, 250, 251, 252, 499, 500):
            for cap in [c for c in capset if c >= k + B + 3][:2]:
                for extra in (0, 1):
                    p = cap - (k + 2 + (0 if B <= 249 else 1) + B) - extra
                    if p < 0:
                        continue
                    d = [97 + (i % 26) for i in range(k)] + [rng.choice(gen.ALPH['high']) for _ in range(B)] + [48 + (i % 10) for i in range(2 * p)]
                    for wl in (gen.ALL48, [i for i, x in enumerate(gen.caps()) if x == cap][:1]):
                        cs.append({'line': gen.encode_line(d, wl, 63, False, False, None), 'cat': 'b256-threshold',
                                   'cfg': dict(data=d, wl=wl, modes=63, macros=False, fnc1=False, eci=None)})
    for d, wl in ((list(b"ABCDEFGH12345678"), [3]), (list(b"ABCDEFGH12345678"), gen.DEFAULT), ([200] * 1556, gen.DEFAULT),
                  (list(b"12345678"), [0, 1])):
        cs.append({'line': gen.encode_line(d, wl, 63, False, False, None), 'cat': 'former-finding',
                   'cfg': dict(data=d, wl=wl, modes=63, macros=False, fnc1=False, eci=None)})
    return cs


def order(wl):
    sp = common.spec_by_index()
    return sorted(set(wl), key=lambda i: (sp[i]['data'], sp[i]['rows'] ** 2 + sp[i]['cols'] ** 2))


def check_impl(c, out, ctx, prof):
    cfg = c['cfg']
    if out.startswith('panic') or not cfg['wl']:
        return None
    sp = common.spec_by_index()
    lst = order(cfg['wl'])
    d = cfg['data']
    m = cfg['modes']
    maxlen = 48
    if out.startswith('ok '):
        parts = out.split(' ')
        sym = int(parts[1])
        dcw = ints(parts[2])
        r = refdec.decode(dcw)
        used = len(dcw) if r['error'] or r['pad_start'] is None else r['pad_start']
        first = next((i for i in lst if sp[i]['data'] >= used), None)
        if first is not None and sp[first]['data'] < sp[sym]['data']:
            return 'stream needs %d codewords, %s (%d) is in the list but %s (%d) was used' % (
                used, common.VARIANTS[first], sp[first]['data'], common.VARIANTS[sym], sp[sym]['data'])
        smaller = [i for i in lst if sp[i]['data'] < sp[sym]['data']]
    elif out.startswith('err TooMuchOrIllegalData'):
        sym = None
        smaller = lst
    else:
        return None
    # header codewords written before the data: FNC1 start is counted; ECI / macro configurations are left to the
    # first-fit test above (their streams are judged by C02/C16)
    pre = 1 if cfg.get('fnc1') else 0
    if cfg.get('eci') is not None:
        return None
    if cfg.get('macros') and len(d) >= 9 and d[-2:] == gen.TRAIL and d[:7] in (gen.H05, gen.H06) and not cfg.get('fnc1'):
        return None
    # plain ASCII / plain Base256 bounds
    bounds = []
    if m & 1:
        bounds.append(('ASCII', pre + len(refenc.ascii_items(d))))
    if m & 32 and d:
        n = len(d)
        if n <= 1555:
            bounds.append(('Base256', pre + 1 + (1 if n <= 249 else 2) + n))
    for name, need in bounds:
        fit = next((i for i in lst if sp[i]['data'] >= need), None)
        if fit is not None and (sym is None or sp[fit]['data'] < sp[sym]['data']):
            return 'plain %s encodation needs %d codewords and fits %s, encoder %s' % (
                name, need, common.VARIANTS[fit], 'refused the data' if sym is None else 'used ' + common.VARIANTS[sym])
    # two-mode bound: the best segmentation into ASCII runs and Base256 fields with explicit length (any input length)
    if (m & 33) == 33 and 48 < len(d) <= 1700:
        need = pre + refenc.ab_bound(d)
        fit = next((i for i in lst if sp[i]['data'] >= need), None)
        if fit is not None and (sym is None or sp[fit]['data'] < sp[sym]['data']):
            long_field = False
            gap = 'refused'
            if sym is not None:
                long_field = any(mo == 'Base256' and k >= 250 for mo, k in r['segments'])
                gap = str(used - need)
            else:
                # how long is the encoder's own stream when every size is available?
                line = gen.encode_line(d, gen.ALL48, m, cfg.get('macros', False), cfg.get('fnc1', False), None)
                o2 = ctx.impl([line], prof)[0]
                if o2.startswith('ok '):
                    d2 = ints(o2.split(' ')[2])
                    r2 = refdec.decode(d2)
                    u2 = len(d2) if r2['error'] or r2['pad_start'] is None else r2['pad_start']
                    gap = 'refused gap_all=%d' % (u2 - need)
                    long_field = (not r2['error']) and any(mo == 'Base256' and k >= 250 for mo, k in r2['segments'])
            return 'ASCII/Base256 segmentation needs %d codewords and fits %s, encoder %s [ab-gap=%s long-field=%d]' % (
                need, common.VARIANTS[fit], 'refused the data' if sym is None else 'used %d codewords in %s' % (used, common.VARIANTS[sym]),
                gap, int(long_field))
    # exact search in every smaller capacity of the list
    if len(d) <= maxlen and m != 0:
        for cap in sorted(set(sp[i]['data'] for i in smaller), reverse=True):
            if cap * 2 + 2 < len(d) // 2:
                break
            s = refenc.best_stream(d, m, cap, prefix=[232] if pre else None)
            if s is not None:
                rd = refdec.decode(s)
                if rd['error'] is None and list(rd['data']) == d and len(s) == cap:
                    gap = 'refused' if sym is None else str(used - cap)
                    fit = 'exact-fit' if rd['pad_start'] is None else 'padded'
                    if fit == 'exact-fit' and rd['implicit']:
                        fit = 'exact-fit-end-form'      # the witness ends a run without unlatch at the symbol end
                    enc_stream = dcw if sym is not None else None
                    if sym is None:
                        # how long is the encoder's own stream when every size is available?
                        line = gen.encode_line(d, gen.ALL48, m, cfg.get('macros', False), cfg.get('fnc1', False), None)
                        o2 = ctx.impl([line], prof)[0]
                        if o2.startswith('ok '):
                            d2 = ints(o2.split(' ')[2])
                            r2 = refdec.decode(d2)
                            u2 = len(d2) if r2['error'] or r2['pad_start'] is None else r2['pad_start']
                            gap = 'refused gap_all=%d' % (u2 - cap)
                            enc_stream = d2
                    strike = strike_flag(d, s, enc_stream) if enc_stream is not None and not pre else 0
                    return 'a legal stream of %d codewords exists (%s), encoder %s [gap=%s witness=%s strike-blocked=%d]' % (
                        cap, ','.join(map(str, s[:60])), 'refused the data' if sym is None else 'used %d' % sp[sym]['data'], gap, fit, strike)
    return None



def _base_set(mode, ch):
    if ch == 32 or 48 <= ch <= 57:
        return True
    return 65 <= ch <= 90 if mode == 'C40' else 97 <= ch <= 122


def _strike(mode, rest):
    """planner/c40.rs unbeatable_strike: base-set characters ahead, cut before a run of 7 digits, rounded down to triples"""
    digits = reads = 0
    for ch in rest:
        if not _base_set(mode, ch):
            break
        reads += 1
        if 48 <= ch <= 57:
            digits += 1
            if digits == 7:
                reads -= digits
                break
        else:
            digits = 0
    return reads // 3 * 3


def strike_blocks(d, mode, start, at):
    """does the C40/Text plan that entered `mode` at data offset `start` treat the character at offset `at` as part of
    an unbeatable strike (so that no switch out of the mode is considered there)?  Simulation of C40LikePlan::step."""
    values = ur = 0
    for idx in range(start, min(at, len(d) - 1) + 1):
        if values == 0 and ur == 0:
            ur = _strike(mode, d[idx:])
        if idx == at:
            return ur > 0
        if ur > 0:
            values += 1
            ur -= 1
        else:
            values += len(refenc.c40_values(d[idx], text=(mode == 'Text')))
        values %= 3
    return False


def strike_flag(d, witness, enc_dcw):
    """1 if the witness leaves a C40/Text run (explicit unlatch, data continues) at an offset where the encoder's stream is still
    inside a run of the same mode and the planner's unbeatable-strike heuristic suppresses the switch"""
    rw = refdec.decode(witness)
    re_ = refdec.decode(enc_dcw)
    if rw['error'] or re_['error']:
        return 0
    for mode, a, b in rw['spans']:
        if mode in ('C40', 'Text') and b < len(d):
            for m2, a2, b2 in re_['spans']:
                if m2 == mode and a2 <= b < b2 and strike_blocks(d, mode, a2, b):
                    return 1
    return 0


def classify(c, out, why):
    """known finding C10-exact-fit: the optimiser does not price every exact-fit end-of-symbol form; its stream is
    at most two codewords longer than a legal stream that ends, without padding, exactly at a smaller listed capacity"""
    if 'a legal stream of' in why and 'witness=exact-fit-end-form' in why and ('gap=1 ' in why or 'gap=2 ' in why):
        return 'C10-exact-fit'
    if 'a legal stream of' in why and 'witness=exact-fit-end-form' in why and ('gap=refused gap_all=1 ' in why or 'gap=refused gap_all=2 ' in why):
        return 'C10-exact-fit-refusal'
    if 'a legal stream of' in why and 'witness=exact-fit strike-blocked=1' in why and ('gap=1 ' in why or 'gap=2 ' in why):
        return 'C10-unbeatable-strike'
    if 'a legal stream of' in why and 'witness=exact-fit strike-blocked=1' in why and ('gap=refused gap_all=1 ' in why or 'gap=refused gap_all=2 ' in why):
        return 'C10-unbeatable-strike-refusal'
    if 'ASCII/Base256 segmentation needs' in why and 'ab-gap=1 long-field=1' in why:
        return 'C10-base256-run-length'
    if 'ASCII/Base256 segmentation needs' in why and 'ab-gap=refused gap_all=1 long-field=1' in why:
        return 'C10-base256-run-length-refusal'
    return None


def replay_known(f, ctx):
    c = {'line': f['case'], 'cat': 'known', 'cfg': gen.parse_encode_line(f['case'])}
    out = ctx.impl([f['case']])[0]
    why = check_impl(c, out, ctx, 'debug')
    return bool(why) and classify(c, out, why) == f['id']


def nontrivial(c, out):
    return len(c['cfg']['data']) >= 4 and not out.startswith('panic')


def search(ctx, rng, budget, diffs):
    return enccommon.generic_search(__import__('c10'), ctx, rng)
