"""C15 -- ECI designators and character-set tables are exact."""
from vlib import fmt_list

PID = 'C15'
RULE = ('write_eci/read_eci: every boundary of the three designator forms, a stride over 0..999999 (all 1,000,000 in the '
        'thorough tier), numbers above the range; read_eci on all 1-byte and sampled 2-/3-byte sequences incl. every '
        'malformed class; designators in mid stream after bytes in the default interpretation (every pair of supported sets); decode_str on [241, designator, payload] for all 256 payload bytes x ECI 0,3,11,13,26,27 and other '
        'ECI numbers (exhaustive), and on payloads of 16..64 bytes (to 256 thorough) with one byte of another kind at the block borders; '
        'UTF-8 validation on structured valid/invalid sequences and on long sections (250..2050 bytes, up to 8200 thorough) of mixed character widths; non-trivial = accepted designator '
        'or printable payload')
THEOREMS = 'C15_designator, C15_designator_range, C15_reject, C15_charsets, C15_other_eci, C15_utf8'
ASSUMPTIONS = ['Spec/Eci.v states ISO/IEC 16022 Table 6 and ISO 8859-1/-9/-11 by formula',
               'Rust String/char/core::str::from_utf8 modelled by scalar lists and the UTF-8 decoder of Model/Eci.v '
               '(compared with core::str on every run)']


def designator(e):
    if e <= 126:
        return [e + 1]
    if e <= 16382:
        return [(e - 127) // 254 + 128, (e - 127) % 254 + 1]
    return [(e - 16383) // 64516 + 192, ((e - 16383) // 254) % 254 + 1, (e - 16383) % 254 + 1]


def payload(b):
    return [b + 1] if b < 128 else [235, b - 127]


def iso1(b):
    return b if (32 <= b <= 126 or 160 <= b <= 255) else None


def iso9(b):
    return {208: 0x11E, 221: 0x130, 222: 0x15E, 240: 0x11F, 253: 0x131, 254: 0x15F}.get(b, iso1(b))


def iso11(b):
    if 32 <= b <= 126:
        return b
    if b == 160:
        return 160
    if 161 <= b <= 218:
        return 0x0E01 + b - 161
    if 223 <= b <= 251:
        return 0x0E3F + b - 223
    return None


def gen_cases(rng, tier, ctx):
    cs = []
    nums = set([0, 1, 125, 126, 127, 128, 380, 381, 16381, 16382, 16383, 16384, 16636, 16637, 80898, 80899, 80900,
                999998, 999999, 1000000, 1048638, 4294967295])
    if tier == 'thorough':
        nums |= set(range(0, 1000000))
    else:
        nums |= set(range(0, 1000000, 997)) | set(rng.below(1000000) for _ in range(1500))
    for e in sorted(nums):
        cs.append({'line': 'write_eci %d' % e, 'cat': 'write'})
        if e <= 999999:
            cs.append({'line': 'read_eci %s' % fmt_list(designator(e) + [rng.below(256)]), 'cat': 'read-wellformed'})
    for a in range(256):
        cs.append({'line': 'read_eci %d' % a, 'cat': 'read-1byte'})
        for b in (0, 1, 2, 127, 253, 254, 255, rng.below(256)):
            cs.append({'line': 'read_eci %d,%d' % (a, b), 'cat': 'read-2byte'})
            if 192 <= a <= 208:
                for c in (0, 1, 254, 255, rng.below(256)):
                    cs.append({'line': 'read_eci %d,%d,%d,77' % (a, b, c), 'cat': 'read-3byte'})
    cs.append({'line': 'read_eci -', 'cat': 'read-empty'})
    # every byte value under every supported ECI (and some unsupported), through decode_str
    for e in (0, 3, 11, 13, 26, 27, 4, 12, 14, 19, 25, 30, 31, 899, 999999):
        for b in range(256):
            cs.append({'line': 'decode_str %s' % fmt_list([241] + designator(e) + payload(b)), 'cat': 'charset-byte'})
        cs.append({'line': 'decode_str %s' % fmt_list([241] + designator(e) + payload(65) + payload(233) + payload(66)), 'cat': 'charset-mixed'})
    # long payloads (one to several 16-byte blocks) under every supported ECI: printable text with one byte of another kind
    # (control, DEL, C1, undefined or upper-half byte) at the start, the end, a block border or anywhere
    odd = [0, 9, 10, 0x1F, 0x7F, 0x80, 0x9F, 0xA0, 0xDB, 0xDE, 0xE9, 0xFC, 0xFF]
    for e in (0, 3, 11, 13, 26, 27):
        for L in ([16, 17, 33, 64] if tier == 'quick' else [15, 16, 17, 31, 32, 33, 47, 48, 64, 100, 256]):
            base = [rng.range(32, 126) for _ in range(L)]
            variants = [list(base)]
            if e in (0, 3, 11, 13):
                variants.append([rng.choice([rng.range(32, 126), rng.range(0xA0, 0xDA)]) for _ in range(L)])
            for o in odd:
                for posn in (0, 15, 16, L - 1, rng.below(L)):
                    if posn < L and (tier != 'quick' or rng.chance(1, 2)):
                        v = list(base)
                        v[posn] = o
                        variants.append(v)
            for v in variants:
                cs.append({'line': 'decode_str %s' % fmt_list([241] + designator(e) + [x for b in v for x in payload(b)]),
                           'cat': 'charset-long', 'eci': e, 'bytes': v})
    # designators in mid stream: bytes in the default interpretation first (also bytes that read differently in the designated
    # set), then one or two designators with payloads; every pair of supported sets
    sample = {None: [0x41, 0xD0, 0xDD, 0xFE, 0xA1, 0xE9, 0x7E, 0x20], 0: [0x41, 0xD0, 0xE9], 3: [0x42, 0xD0, 0xFD, 0xA0],
              11: [0x43, 0xD0, 0xDD, 0xDE, 0xF0, 0xFD, 0xFE, 0xE9], 13: [0x44, 0xA1, 0xDA, 0xDF, 0xFB, 0xE9],
              26: [0x45, 0xC3, 0xA9, 0xE2, 0x82, 0xAC], 27: [0x46, 0x7E, 0x20]}
    for e1 in (0, 3, 11, 13, 26, 27):
        for e2 in (None, 3, 11, 13, 26, 27):
            for first in ([], sample[None][:1], sample[None], [rng.choice(sample[None]) for _ in range(rng.range(1, 5))]):
                segs = [(None, list(first)), (e1, list(sample[e1]))] + ([(e2, list(sample[e2]))] if e2 is not None else [])
                cw = [241] + designator(0)[:0]
                cw = []
                for e, bs in segs:
                    if e is not None:
                        cw += [241] + designator(e)
                    cw += [x for b in bs for x in payload(b)]
                cs.append({'line': 'decode_str %s' % fmt_list(cw), 'cat': 'eci-midstream', 'segs': segs})
    # ECI switches in mid stream, decode_data must refuse ECI
    cs.append({'line': 'decode_data 66,241,27,67', 'cat': 'raw-eci'})
    cs.append({'line': 'decode_str 66,241,12,235,113,241,14,235,34,241,27,67', 'cat': 'multi-eci'})
    # UTF-8
    good = [[0x24], [0xC2, 0xA2], [0xE0, 0xA0, 0x80], [0xE2, 0x82, 0xAC], [0xED, 0x9F, 0xBF], [0xEE, 0x80, 0x80],
            [0xEF, 0xBF, 0xBF], [0xF0, 0x90, 0x80, 0x80], [0xF0, 0x9F, 0xA5, 0xB8], [0xF4, 0x8F, 0xBF, 0xBF], [0]]
    bad = [[0x80], [0xBF], [0xC0, 0x80], [0xC1, 0xBF], [0xC2], [0xC2, 0x41], [0xE0, 0x9F, 0x80], [0xE0, 0xA0], [0xED, 0xA0, 0x80],
           [0xED, 0xBF, 0xBF], [0xF0, 0x8F, 0x80, 0x80], [0xF4, 0x90, 0x80, 0x80], [0xF5, 0x80, 0x80, 0x80], [0xFF], [0xFE],
           [0xE2, 0x82], [0xF0, 0x9F, 0xA5]]
    for g in good + bad:
        cs.append({'line': 'from_utf8 %s' % fmt_list(g), 'cat': 'utf8'})
        cs.append({'line': 'from_utf8 %s' % fmt_list([65] + g + [66]), 'cat': 'utf8'})
        cs.append({'line': 'decode_str %s' % fmt_list([241, 27] + [x for b in [65] + g for x in payload(b)]), 'cat': 'utf8-eci26'})
    for _ in range(400 if tier == 'quick' else 4000):
        seq = []
        for _ in range(rng.range(1, 4)):
            seq += rng.choice(good + good + bad) if rng.chance(3, 4) else [rng.below(256) for _ in range(rng.range(1, 4))]
        cs.append({'line': 'from_utf8 %s' % fmt_list(seq), 'cat': 'utf8-random'})
    # long UTF-8 sections (around 255/256, 1023..1025, 2047..2049, 4096 bytes) of mixed character widths, valid and with one damaged byte
    def enc_utf8(c):
        return list(chr(c).encode('utf-8'))
    pool = [0x41, 0x7A, 0xE9, 0x3A9, 0x20AC, 0x4E2D, 0x1F600, 0x10FFFF, 0x7FF, 0x800]
    for target in ([250, 1020, 1030, 2050] if tier == 'quick' else [250, 260, 510, 1020, 1024, 1030, 1500, 2040, 2050, 4100, 8200]):
        for variant in range(3 if tier == 'quick' else 8):
            scal = []
            n = 0
            while n < target:
                c = rng.choice(pool if variant else pool[2:6])
                scal.append(c)
                n += len(enc_utf8(c))
            bs = [b for c in scal for b in enc_utf8(c)]
            if variant == 2:
                bs[rng.below(len(bs))] ^= 0x80
            cs.append({'line': 'decode_str %s' % fmt_list([241, 27] + [x for b in bs for x in payload(b)]), 'cat': 'utf8-long', 'bytes': bs})
            cs.append({'line': 'from_utf8 %s' % fmt_list(bs), 'cat': 'utf8-long'})
    for lead in range(0x80, 0x100):
        for b1 in (0x7F, 0x80, 0x8F, 0x90, 0x9F, 0xA0, 0xBF, 0xC0):
            cs.append({'line': 'from_utf8 %s' % fmt_list([lead, b1, 0x80, 0x80]), 'cat': 'utf8-lead'})
    for c in [0, 0x7F, 0x80, 0x7FF, 0x800, 0xFFF, 0x1000, 0xCFFF, 0xD000, 0xD7FF, 0xE000, 0xFFFF, 0x10000, 0x3FFFF, 0x40000, 0xFFFFF,
              0x100000, 0x10FFFF, 0xD800, 0xDFFF, 0x110000]:
        cs.append({'line': 'to_utf8 %d' % c, 'cat': 'utf8-encode'})
    return cs


def check_impl(c, out, ctx, prof):
    a = c['line'].split(' ')
    if out == 'panic' and a[0] != 'write_eci':
        return 'implementation panicked'
    if a[0] == 'write_eci':
        e = int(a[1])
        if e > 999999:
            return None
        want = 'ok ' + fmt_list([241] + designator(e))
        return None if out == want else 'ECI %d written as %s, the standard says %s' % (e, out, want)
    if a[0] == 'read_eci':
        bs = [] if a[1] == '-' else [int(x) for x in a[1].split(',')]
        exp = None
        if bs:
            c1 = bs[0]
            if 1 <= c1 <= 127:
                exp = (1, c1 - 1)
            elif 128 <= c1 <= 191 and len(bs) >= 2 and 1 <= bs[1] <= 254:
                exp = (2, (c1 - 128) * 254 + bs[1] - 1 + 127)
            elif 192 <= c1 <= 207 and len(bs) >= 3 and 1 <= bs[1] <= 254 and 1 <= bs[2] <= 254:
                exp = (3, (c1 - 192) * 64516 + (bs[1] - 1) * 254 + bs[2] - 1 + 16383)
        if exp is None:
            return None if out.startswith('err ') else 'malformed designator %s not rejected: %s' % (bs, out)
        return None if out == 'ok %d %d' % exp else 'designator %s read as %s, should be %s' % (bs, out, exp)
    if c['cat'] == 'charset-byte':
        cw = [int(x) for x in a[1].split(',')]
        # recover eci and byte
        d = cw[1:]
        if 1 <= d[0] <= 127:
            e, k = d[0] - 1, 1
        elif d[0] <= 191:
            e, k = (d[0] - 128) * 254 + d[1] - 1 + 127, 2
        else:
            e, k = (d[0] - 192) * 64516 + (d[1] - 1) * 254 + d[2] - 1 + 16383, 3
        p = d[k:]
        b = p[0] - 1 if len(p) == 1 else p[1] + 127
        table = {0: iso1, 3: iso1, 11: iso9, 13: iso11, 27: lambda x: x if x < 128 else None,
                 26: lambda x: x if x < 128 else None}.get(e)
        if table is None:
            return None if out == 'err NotImplemented' else 'unsupported ECI %d gives %s' % (e, out)
        want = table(b)
        if want is None:
            return None if out == 'err CharsetError' else 'ECI %d byte 0x%02X: %s, should be CharsetError' % (e, b, out)
        return None if out == 'ok %d' % want else 'ECI %d byte 0x%02X decoded as %s, the character set says U+%04X' % (e, b, out, want)
    if c['cat'] == 'eci-midstream':
        res = []
        for e, bs in c['segs']:
            if e == 26:
                try:
                    res += [ord(ch) for ch in bytes(bs).decode('utf-8')]
                except UnicodeDecodeError:
                    res = None
            else:
                table = {None: iso1, 0: iso1, 3: iso1, 11: iso9, 13: iso11, 27: lambda x: x if x < 128 else None}[e]
                m = [table(b) for b in bs]
                res = None if None in m else res + m
            if res is None:
                break
        want = 'err CharsetError' if res is None else 'ok ' + (fmt_list(res) if res else '-')
        return None if out == want else 'segments %s: %s, the character sets say %s' % (c['segs'], out[:60], want[:60])
    if c['cat'] == 'charset-long':
        e, bs = c['eci'], c['bytes']
        if e == 26:
            try:
                want = 'ok ' + fmt_list([ord(ch) for ch in bytes(bs).decode('utf-8')])
            except UnicodeDecodeError:
                want = 'err CharsetError'
        else:
            table = {0: iso1, 3: iso1, 11: iso9, 13: iso11, 27: lambda x: x if x < 128 else None}[e]
            m = [table(b) for b in bs]
            want = 'err CharsetError' if None in m else 'ok ' + fmt_list(m)
        return None if out == want else 'ECI %d, %d bytes %s...: %s..., the character set says %s...' % (e, len(bs), bs[:20], out[:40], want[:40])
    if c['cat'] == 'utf8-long' and a[0] == 'decode_str':
        try:
            want = 'ok ' + fmt_list([ord(ch) for ch in bytes(c['bytes']).decode('utf-8')])
        except UnicodeDecodeError:
            want = 'err CharsetError'
        return None if out == want else 'UTF-8 section of %d bytes: %s..., python says %s...' % (len(c['bytes']), out[:40], want[:40])
    return None


def nontrivial(c, out):
    return out.startswith('ok')


def search(ctx, rng, budget, diffs):
    found = []
    cs = gen_cases(rng, 'quick', ctx)
    outs = ctx.impl([c['line'] for c in cs])
    for c, o in zip(cs, outs):
        why = check_impl(c, o, ctx, 'debug')
        if why:
            found.append({'case': c['line'], 'why': why, 'impl': o[:1000]})
            if len(found) >= 3:
                break
    return found
