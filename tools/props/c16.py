"""C16 -- Macro 05/06 compaction and GS1 start are exact and lossless."""
import enccommon
import gen
from enccommon import canon_impl, ints
model_line = enccommon.cert_model_line
canon_model = enccommon.cert_canon_model

PID = 'C16'
RULE = ('envelope generator: {05, 06, damaged, no} header x {RS EOT, RS only, EOT only, no} trailer x bodies of length 0..40 from '
        'every alphabet x macro flag x FNC1 flag x mode subsets, each encoded then decoded (rt); envelopes whose digit / letter body fills a '
        'single-symbol list (body lengths around the capacity, where the compacted message fits and the verbatim one does not); non-trivial = message with a '
        'header or trailer fragment')
THEOREMS = 'C16_first_codeword, C16_detection, C16_strip_sets_input, C16_stream_shape, C16_decoder_macro05, C16_decoder_macro06, C16_decoder_fnc1, C16_macro_roundtrip_ascii_only, C16_fnc1_roundtrip_ascii_only, C16_macro_roundtrip_ab, C16_fnc1_roundtrip_ab, C16_macro_roundtrip_ax, C16_fnc1_roundtrip_ax, C16_macro_roundtrip_ac, C16_fnc1_roundtrip_ac, C16_macro_roundtrip_mixed, C16_fnc1_roundtrip_mixed'
ASSUMPTIONS = ['the sort order of remove_hopeless_cases is taken from the implementation (hook trace)']


def gen_cases(rng, tier, ctx):
    cs = []
    n = 1 if tier == 'quick' else 8
    heads = [gen.H05, gen.H06, gen.H05[:6], gen.H05[:-1] + [30], [], gen.H05 + gen.H06]
    trails = [gen.TRAIL, [30], [4], [], gen.TRAIL + gen.TRAIL]
    for h in heads:
        for t in trails:
            for L in list(range(0, 10)) + [12, 17, 25, 40]:
                for _ in range(n):
                    body = gen.rand_bytes(rng, L)
                    d = h + body + t
                    for mac in (0, 1):
                        for f in (0, 1):
                            m = 63 if rng.chance(2, 3) else gen.rand_modes(rng)
                            cs.append({'line': gen.encode_line(d, gen.ALL48, m, mac, f, None).replace('encode', 'rt', 1), 'cat': 'envelope',
                                       'cfg': dict(data=d, wl=gen.ALL48, modes=m, macros=bool(mac), fnc1=bool(f), eci=None)})
    # envelopes whose body fills a restricted symbol list: single-symbol lists, digit / letter bodies of the lengths around
    # 2 x (capacity - 1) and (capacity - 1), where the compacted message fits and the verbatim one does not
    caps = gen.caps()
    idxs = list(range(len(caps)))
    if tier == 'quick':
        idxs = [i for i in idxs if caps[i] <= 22 or rng.chance(1, 5)]
    for i in idxs:
        c = caps[i]
        for kind, per in (('digits', 2), ('c40', 1)):
            for delta in (-4, -2, -1, 0, 1, 2):
                L = (c - 1) * per + delta
                if L < 0 or L > 3200:
                    continue
                body = [rng.choice(gen.ALPH[kind]) for _ in range(L)]
                h = rng.choice([gen.H05, gen.H06])
                d = h + body + gen.TRAIL
                for mac in (1, 0) if delta == 0 else (1,):
                    cs.append({'line': gen.encode_line(d, [i], 63, mac, 0, None).replace('encode', 'rt', 1), 'cat': 'envelope-at-capacity',
                               'cfg': dict(data=d, wl=[i], modes=63, macros=bool(mac), fnc1=False, eci=None)})
    # the bodies on which the end-of-data rules of the mode encoders and the planner's count of written codewords matter (symbol lists
    # with capacities one or two apart; a long Base256 run followed by another scheme that ends at a capacity), inside an envelope and
    # behind an FNC1 start: one codeword precedes the body, which moves every boundary by one
    fam = gen.adjacent_capacity_cases(rng, tier, pre=1) + gen.adjacent_capacity_cases(rng, tier) + [c for c in gen.constant_cases(rng, tier) if c['cat'].startswith('b256-then-')]
    for c in fam:
        g = c['cfg']
        if tier == 'quick' and g['modes'] != 63:
            continue
        h = rng.choice([gen.H05, gen.H06])
        d = h + g['data'] + gen.TRAIL
        cs.append({'line': gen.encode_line(d, g['wl'], g['modes'], 1, 0, None).replace('encode', 'rt', 1), 'cat': 'envelope-' + c['cat'],
                   'cfg': dict(data=d, wl=g['wl'], modes=g['modes'], macros=True, fnc1=False, eci=None)})
        cs.append({'line': gen.encode_line(g['data'], g['wl'], g['modes'], 1, 1, None).replace('encode', 'rt', 1), 'cat': 'fnc1-' + c['cat'],
                   'cfg': dict(data=g['data'], wl=g['wl'], modes=g['modes'], macros=True, fnc1=True, eci=None)})
    return cs


def ascii_size(b):
    """codewords of the plain ASCII encodation: digit pairs 1, bytes < 128 1, others 2 (upper shift)"""
    n = i = 0
    while i < len(b):
        if i + 1 < len(b) and 48 <= b[i] <= 57 and 48 <= b[i + 1] <= 57:
            n += 1
            i += 2
        else:
            n += 1 if b[i] <= 127 else 2
            i += 1
    return n


def macro_applies(cfg):
    d = cfg['data']
    return (cfg['macros'] and not cfg['fnc1'] and (d[:7] == gen.H05 or d[:7] == gen.H06) and d[-2:] == gen.TRAIL and len(d) >= 2)


def check_impl(c, out, ctx, prof):
    why_cert = enccommon.cert_verdict(c, ctx)
    if not out.startswith('ok '):
        cfg = c['cfg']
        if out.startswith('err') and macro_applies(cfg) and (cfg['modes'] & 1) and cfg['wl']:
            body = cfg['data'][7:-2]
            if 1 + ascii_size(body) <= max(gen.caps()[i] for i in cfg['wl']):
                return 'enveloped message refused (%s) although macro codeword + ASCII body needs %d codewords' % (out[:40], 1 + ascii_size(body))
        return None
    parts = out.split(' ')
    dcw = ints(parts[2])
    cfg = c['cfg']
    first_is_macro = dcw[0] in (236, 237)
    if macro_applies(cfg) != first_is_macro:
        return 'macro codeword %s although the rule %s' % ('used' if first_is_macro else 'not used',
                                                          'does not apply' if first_is_macro else 'applies')
    if first_is_macro and dcw[0] != (236 if cfg['data'][:7] == gen.H05 else 237):
        return 'wrong macro codeword'
    if cfg['fnc1'] and dcw[0] != 232:
        return 'FNC1 start requested but the first codeword is %d' % dcw[0]
    want = 'ok:' + (','.join(map(str, cfg['data'])) if cfg['data'] else '-')
    if parts[3] != want:
        return 'decoded data %s differs from the message %s' % (parts[3][:80], want[:80])
    return why_cert


def nontrivial(c, out):
    d = c['cfg']['data']
    return out.startswith('ok') and (d[:3] == gen.H05[:3] or 30 in d[-2:] or 4 in d[-2:])


def search(ctx, rng, budget, diffs):
    return enccommon.generic_search(__import__('c16'), ctx, rng)
