"""C17 -- the vector path renders exactly the dark modules; pixels(); unicode()."""
import c08

PID = 'C17'
LEVEL = 'proof'
RULE = ('symbol bitmaps of all 48 sizes with random contents (python twin of the finder rendering); every 2x2, 2x3, 3x2 and 3x3 bitmap '
        'with a dark top-left module exhaustively; random bitmaps 1..14 x 1..14 at densities 1/8..7/8; constructed topologies: '
        'checkerboards (diagonal contacts only), nested rings, rings with islands, combs, spirals, single holes, full, single '
        'module, stripes; light top-left bitmaps for the model correspondence only (outside the property); zero width and '
        'non-dividing lengths; one random bitmap of about 250 x 320 modules (more than 65535 outline edges, far beyond any symbol); pixels() and unicode() on the small bitmaps and on 8 symbols; non-trivial = bitmap with a dark '
        'top-left module and at least one light module')
THEOREMS = ('C17_path, C17_path_renders_dark, C17_path_total, C17_tours_decompose, C17_compress_path, C17_graph_is_boundary, C17_evenodd_fills_dark, C17_check_sound, '
            'C17_wellformed_step, C17_pixels, C17_unicode')
ASSUMPTIONS = ['the even-odd fill of Spec/EvenOdd.v (ray to the left through module centres) is the fill rule of SVG/PDF for '
               'axis-parallel outlines on the integer grid',
               'PathSegment::Move(dx, dy) carries the horizontal distance first, as documented']


def bm_line(op, w, bits):
    return '%s %d %s' % (op, w, ''.join('1' if b else '0' for b in bits) or '-')


def topologies():
    out = []

    def grid(h, w, f):
        return w, [bool(f(i, j)) for i in range(h) for j in range(w)]
    for n in (2, 3, 4, 5, 8, 9, 13):
        out.append(('checker', grid(n, n, lambda i, j: (i + j) % 2 == 0)))
        out.append(('checker-rect', grid(n, n + 3, lambda i, j: (i + j) % 2 == 0)))
        out.append(('rings', grid(n, n, lambda i, j: min(i, j, n - 1 - i, n - 1 - j) % 2 == 0)))
        out.append(('full', grid(n, n, lambda i, j: True)))
        out.append(('stripes-h', grid(n, n, lambda i, j: i % 2 == 0)))
        out.append(('stripes-v', grid(n, n, lambda i, j: j % 2 == 0)))
        out.append(('comb', grid(n, n, lambda i, j: i == 0 or j % 2 == 0)))
        out.append(('diag', grid(n, n, lambda i, j: i == j)))
        out.append(('antidiag+corner', grid(n, n, lambda i, j: i + j == n - 1 or (i == 0 and j == 0))))
        out.append(('hole', grid(n, n, lambda i, j: not (i == n // 2 and j == n // 2))))
        out.append(('ring-island', grid(n, n, lambda i, j: min(i, j, n - 1 - i, n - 1 - j) == 0 or (i == n // 2 and j == n // 2))))
        out.append(('plus', grid(n, n, lambda i, j: i == n // 2 or j == n // 2 or (i == 0 and j == 0))))
    out.append(('single', (1, [True])))
    out.append(('row', (7, [True] * 7)))
    out.append(('col', (1, [True] * 7)))
    out.append(('two-touching', (2, [True, False, False, True])))
    out.append(('L', (2, [True, False, True, True])))
    # spiral 9x9
    n = 11
    g = [[False] * n for _ in range(n)]
    i = j = 0
    di, dj = 0, 1
    for _ in range(n * n):
        g[i][j] = True
        ni, nj = i + di, j + dj
        nni, nnj = i + 2 * di, j + 2 * dj
        if not (0 <= ni < n and 0 <= nj < n) or g[ni][nj] or (0 <= nni < n and 0 <= nnj < n and g[nni][nnj]):
            di, dj = dj, -di
            ni, nj = i + di, j + dj
            nni, nnj = i + 2 * di, j + 2 * dj
            if not (0 <= ni < n and 0 <= nj < n) or g[ni][nj] or (0 <= nni < n and 0 <= nnj < n and g[nni][nnj]):
                break
        i, j = ni, nj
    out.append(('spiral', (n, [g[a][b] for a in range(n) for b in range(n)])))
    return out


def gen_cases(rng, tier, ctx):
    cs = []
    sp = c08.spec()

    def add(op, w, bits, cat):
        cs.append({'line': bm_line(op, w, bits), 'cat': cat, 'w': w, 'bits': bits, 'op': op})
    reps = 1 if tier == 'quick' else 6
    for i in range(48):
        t = sp[i]
        for _ in range(reps if t['cols'] * t['rows'] < 6000 or tier != 'quick' else 1):
            e = c08.rand_entries(rng, i)
            bits = [ch == '1' for ch in c08.render(t, e)]
            add('path', t['cols'], bits, 'symbol')
    for i in (0, 5, 9, 24, 25, 30, 36, 47):
        t = sp[i]
        bits = [ch == '1' for ch in c08.render(t, c08.rand_entries(rng, i))]
        add('pixels', t['cols'], bits, 'pixels')
        add('unicode', t['cols'], bits, 'unicode')
    # exhaustive small
    for (h, w) in ((1, 1), (1, 2), (2, 1), (2, 2), (2, 3), (3, 2), (3, 3)):
        for m in range(1 << (h * w)):
            bits = [bool((m >> k) & 1) for k in range(h * w)]
            if bits[0]:
                add('path', w, bits, 'exhaustive-small')
                if h * w <= 6:
                    add('pixels', w, bits, 'pixels')
                    add('unicode', w, bits, 'unicode')
            elif h * w <= 6:
                add('path_raw', w, bits, 'light-top-left')
    for name, (w, bits) in topologies():
        add('path', w, bits, 'topology:' + name if bits[0] else 'topology')
        add('unicode', w, bits, 'unicode')
        add('pixels', w, bits, 'pixels')
    n = 300 if tier == 'quick' else 6000
    for _ in range(n):
        h, w = 1 + rng.below(14), 1 + rng.below(14)
        num = 1 + rng.below(7)
        bits = [rng.below(8) < num for _ in range(h * w)]
        bits[0] = True
        add('path', w, bits, 'random')
    for _ in range(n // 10):
        h, w = 1 + rng.below(8), 1 + rng.below(8)
        bits = [rng.below(2) == 1 for _ in range(h * w)]
        add('pixels', w, bits, 'pixels')
        add('unicode', w, bits, 'unicode')
        bits = list(bits)
        bits[0] = False
        add('path_raw', w, bits, 'light-top-left')
    if tier != 'quick':
        for _ in range(40):
            h, w = 40 + rng.below(60), 40 + rng.below(60)
            num = 1 + rng.below(7)
            bits = [rng.below(8) < num for _ in range(h * w)]
            bits[0] = True
            add('path', w, bits, 'random-large')
    # one bitmap far larger than any symbol (more than 65535 outline edges): index widths of the path bookkeeping
    for _ in range(1 if tier == 'quick' else 3):
        h, w = 230 + rng.below(30), 300 + rng.below(40)
        bits = [rng.below(2) == 1 for _ in range(h * w)]
        bits[0] = True
        add('path', w, bits, 'random-huge')
    # malformed
    add('path', 0, [True], 'malformed')
    add('path', 2, [True, False, True], 'malformed')
    add('pixels', 0, [True], 'malformed')
    add('unicode', 3, [True, False], 'malformed')
    add('path', 3, [], 'empty')
    add('pixels', 3, [], 'empty')
    add('unicode', 3, [], 'empty')
    add('path', 4, [False] * 12, 'all-light')
    return cs


def model_line(c, io):
    if c['cat'] == 'random-huge' and io.startswith('ok path='):
        # far beyond any symbol: only the verified certificate check runs on the model side (the model of the path
        # algorithm itself appends to lists and is quadratic)
        return c['line'].replace('path ', 'path_check ', 1) + ' ' + io[len('ok path='):]
    if c['op'] == 'path' and io.startswith('ok path='):
        return c['line'] + ' ' + io[len('ok path='):]
    return c['line']


def canon_impl_case(c, io):
    if c['cat'] == 'random-huge' and io.startswith('ok path='):
        return 'huge check=1'
    return canon_impl(io)


def canon_model_case(c, mo, prof):
    if c['cat'] == 'random-huge':
        return 'huge check=1' if mo == 'ok 1' else 'huge check=0 (%s)' % mo[:60]
    return canon_model(mo, prof)


def canon_impl(io):
    if io.startswith('ok path='):
        return io + ' check=1'
    return io


def canon_model(mo, prof):
    # path_raw lines carry no check
    return mo if ' check=' in mo or not mo.startswith('ok path=') else mo + ' check=1'


def parse_path(s):
    segs = []
    if s == '-':
        return segs
    for t in s.split(','):
        if t[0] == 'Z':
            segs.append(('Z',))
        elif t[0] == 'M':
            a, b = t[1:].split(':')
            segs.append(('M', int(a), int(b)))
        else:
            segs.append((t[0], int(t[1:])))
    return segs


def rasterise(segs, w, h):
    """Independent reading of the property: returns (problem or None, set of filled modules)."""
    x = y = 0
    sx = sy = 0
    closed = False       # just after a Close
    vert = {}            # (x, y) -> multiplicity of the unit edge (x,y)-(x,y+1)
    hor = {}

    def line(x0, y0, x1, y1):
        if x0 == x1:
            for yy in range(min(y0, y1), max(y0, y1)):
                vert[(x0, yy)] = vert.get((x0, yy), 0) + 1
        else:
            for xx in range(min(x0, x1), max(x0, x1)):
                hor[(xx, y0)] = hor.get((xx, y0), 0) + 1
    if segs and segs[-1] != ('Z',):
        return 'the last sub-path is not closed', None
    if segs and segs[0][0] == 'M':
        return 'path starts with a Move', None
    for s in segs:
        if s[0] in 'HV':
            if closed:
                return 'a draw follows a Close without a Move', None
            if s[1] == 0:
                return 'zero-length segment', None
            nx, ny = (x + s[1], y) if s[0] == 'H' else (x, y + s[1])
            if not (0 <= nx <= w and 0 <= ny <= h):
                return 'path leaves the bounding box at (%d,%d)' % (nx, ny), None
            line(x, y, nx, ny)
            x, y = nx, ny
        elif s[0] == 'Z':
            if closed:
                return 'Close after Close', None
            if (x, y) == (sx, sy):
                return 'Close of zero length (the closing segment was drawn explicitly)', None
            if x != sx and y != sy:
                return 'closing line from (%d,%d) to (%d,%d) is not axis-parallel' % (x, y, sx, sy), None
            line(x, y, sx, sy)
            x, y = sx, sy
            closed = True
        else:
            if not closed:
                return 'Move inside an open sub-path', None
            x, y = x + s[1], y + s[2]
            if not (0 <= x <= w and 0 <= y <= h):
                return 'Move leaves the bounding box', None
            sx, sy = x, y
            closed = False
    filled = set()
    for yy in range(h):
        par = 0
        for xx in range(w):
            par ^= vert.get((xx, yy), 0) & 1
            if par:
                filled.add((xx, yy))
    # cross-check with the vertical ray (horizontal edges) -- both must agree for closed outlines
    for xx in range(w):
        par = 0
        for yy in range(h):
            par ^= hor.get((xx, yy), 0) & 1
            if bool(par) != ((xx, yy) in filled):
                return 'outline is not a union of closed curves: rays disagree at module (%d,%d)' % (xx, yy), None
    return None, filled


def check_impl(c, out, ctx, prof):
    w, bits = c['w'], c['bits']
    bad_shape = (w == 0) or (len(bits) % w != 0)
    if bad_shape:
        return None if out == 'panic' else 'Bitmap::new must reject width %d for %d bits, got %s' % (w, len(bits), out[:60])
    h = len(bits) // w
    if out == 'panic' or not out.startswith('ok'):
        return 'unexpected %s' % out[:60]
    if c['op'] == 'path':
        if bits and not bits[0]:
            return None if not any(bits) and out == 'ok path=-' else None
        segs = parse_path(out[len('ok path='):])
        prob, filled = rasterise(segs, w, h)
        if prob:
            return prob
        dark = {(k % w, k // w) for k, b in enumerate(bits) if b}
        if filled != dark:
            d = sorted(filled ^ dark)[:4]
            return 'even-odd fill differs from the bitmap at modules (x,y) %s' % d
        return None
    if c['op'] == 'pixels':
        exp = ','.join('%d:%d' % (k % w, k // w) for k, b in enumerate(bits) if b) or '-'
        return None if out == 'ok ' + exp else 'pixels() differs from the dark modules in row-major order'
    if c['op'] == 'unicode':
        def get(i, j):
            return 1 if 1 <= i <= h and 1 <= j <= w and bits[(i - 1) * w + (j - 1)] else 0
        cps = []
        for i in range(0, h + 2, 2):
            for j in range(w + 2):
                cps.append([32, 0x2584, 0x2580, 0x2588][2 * get(i, j) + get(i + 1, j)])
            cps.append(10)
        exp = ','.join(map(str, cps))
        return None if out == 'ok ' + exp else 'unicode() differs from the block rendering with a one-module light border'
    return None


def nontrivial(c, out):
    return c['op'] == 'path' and bool(c['bits']) and c['bits'][0] and not all(c['bits'])


def search(ctx, rng, budget, diffs):
    """Find a bitmap on which the implementation's path violates the property."""
    found = []
    cases = gen_cases(rng, 'thorough' if budget == 'thorough' else 'quick', ctx)
    cases = [c for c in cases if c['cat'] != 'random-large']
    outs = ctx.impl([c['line'] for c in cases], 'debug')
    best = None
    for c, o in zip(cases, outs):
        why = check_impl(c, o, ctx, 'debug')
        if why and (best is None or len(c['bits']) < len(best[0]['bits'])):
            best = (c, o, why)
    if best:
        found.append({'case': best[0]['line'], 'why': best[2], 'impl': best[1][:500]})
    return found
