"""C03 -- guaranteed Reed-Solomon correction capacity in every symbol size."""
import common
import gfpy
from vlib import fmt_list

PID = 'C03'
LEVEL = 'proof'
RULE = ('fault enumeration: for all 48 sizes a random codeword with error patterns of every weight 0..t per block (t = floor(k/2)), positions '
        'forced into the data part, the EC part, both, the first and the last codeword of every block, all blocks at once; every single '
        'position of every size with a random wrong value; plus the same damage applied as flipped modules of the rendered symbol through '
        'DataMatrix::decode; non-trivial = at least one error')
THEOREMS = 'C03_weight0, C03_success_is_codeword, C03_bch_bound, C03_min_distance, C03_unique_within_radius, C03_block_lengths, C03_locator_bound, C03_no_miscorrection, C03_corrects, C03_block_corrects'
ASSUMPTIONS = ['the model of the error decoder (Model/RSDec.v) is tied to the code by this correspondence; the theorem C03_corrects is about the model']


def block_positions(sp, b):
    nd, B = sp['data'], sp['blocks']
    return [p for p in range(nd) if p % B == b] + [nd + p for p in range(sp['ec']) if p % B == b]


def gen_cases(rng, tier, ctx):
    sp_all = common.spec_by_index()
    cs = []
    enc_lines = []
    for i in range(48):
        enc_lines.append('rs_encode %d %s' % (i, fmt_list([rng.below(256) for _ in range(sp_all[i]['data'])])))
    encs = ctx.impl(enc_lines)
    reps = 1 if tier == 'quick' else 5
    for i, (line, e) in enumerate(zip(enc_lines, encs)):
        sp = sp_all[i]
        d = [int(x) for x in line.split(' ')[2].split(',')]
        cw = d + [int(x) for x in e[3:].split(',')]
        n, B = len(cw), sp['blocks']
        k = sp['ec'] // B
        t = k // 2
        big = n > 300

        def add(pos, cat):
            r = list(cw)
            for p in pos:
                r[p] ^= rng.range(1, 255)
            cs.append({'line': 'rs_decode %d %s' % (i, fmt_list(r)), 'cat': cat, 'orig': cw, 'sym': i, 'nerr': len(pos)})
        add([], 'weight0')
        # every single position
        for p in (range(n) if (not big or tier == 'thorough') else sorted(set(rng.sample(range(n), 60) + [0, n - 1, sp['data'] - 1, sp['data'], n - B, n - 2]))):
            add([p], 'single')
        for b in range(B):
            bp = block_positions(sp, b)
            nd_b = len([p for p in bp if p < sp['data']])
            for w in sorted(set([1, 2, t // 2, t - 1, t])):
                if w < 1 or w > t:
                    continue
                for _ in range(reps):
                    add(rng.sample(bp, w), 'block-weight%d' % (w if w < 3 else (0 if w < t else 99)))
                    add(rng.sample(bp[:nd_b], min(w, nd_b)), 'data-region')
                    add(rng.sample(bp[nd_b:], min(w, len(bp) - nd_b)), 'ec-region')
                add([bp[0], bp[-1]][:max(1, min(2, t))], 'first-last')
        # all blocks at full weight
        for _ in range(reps * 2):
            pos = []
            for b in range(B):
                pos += rng.sample(block_positions(sp, b), t)
            add(pos, 'all-blocks-full')
        # module level: flip one module of up to t codewords of one block
        if not big:
            for _ in range(reps * 2):
                b = rng.below(B)
                ks = rng.sample(block_positions(sp, b), rng.range(1, t))
                cs.append({'line': 'dm_flip_codewords %d %s %s' % (i, fmt_list(cw), fmt_list(ks)), 'cat': 'modules', 'orig': cw, 'sym': i, 'nerr': len(ks)})
    import corpus
    cs += corpus.rs_singular_cases()
    return cs


def check_impl(c, out, ctx, prof):
    a = c['line'].split(' ')
    if a[0] == 'rs_decode':
        want = 'ok ' + fmt_list(c['orig'])
        if out != want:
            return ('%d errors (at most floor(k/2) per block) not repaired for %s: %s'
                    % (c['nerr'], common.VARIANTS[c['sym']], out[:60]))
    else:
        if not out.startswith('same'):
            return 'damaged modules within the correction capacity change the decoding result: %s' % out[:80]
    return None


def nontrivial(c, out):
    return c['nerr'] > 0


def search(ctx, rng, budget, diffs):
    import enccommon
    return enccommon.generic_search(__import__('c03'), ctx, rng)
