"""Helpers shared by the encoder-side property modules: the planner's sort order is an oracle input of
the model taken from the implementation's hook trace (last field of the implementation's answer)."""


def model_line(c, io):
    if io is None or io.startswith('panic') or io.startswith('crash') or io == 'not-run':
        return c['line']
    last = io.split(' ')[-1]
    return c['line'] + ' ' + last if last.startswith('T') else c['line']


def canon_impl(io):
    parts = io.split(' ')
    if parts and parts[-1].startswith('T'):
        return ' '.join(parts[:-1])
    return io


def ints(s):
    return [] if s == '-' else [int(x) for x in s.split(',')]


def generic_search(mod, ctx, rng, tier='quick'):
    found = []
    cs = mod.gen_cases(rng, tier, ctx)
    for prof in getattr(mod, 'PROFILES', ['debug']):
        outs = ctx.impl([c['line'] for c in cs], prof)
        for c, o in zip(cs, outs):
            why = mod.check_impl(c, o, ctx, prof)
            if why:
                found.append({'case': c['line'][:6000], 'why': why, 'impl': o[:1000], 'profile': prof})
                if len(found) >= 3:
                    return found
    return found
