"""Helpers shared by the encoder-side property modules: the planner's sort order is an oracle input of
the model taken from the implementation's hook trace (last field of the implementation's answer)."""


def model_line(c, io):
    if io is None or io.startswith('panic') or io.startswith('crash') or io == 'not-run':
        return c['line']
    last = io.split(' ')[-1]
    return c['line'] + ' ' + last if last.startswith('T') else c['line']


def canon_impl(io):
    parts = io.split(' ')
    if parts and parts[-1].startswith('T'):
        return ' '.join(parts[:-1])
    return io


def ints(s):
    return [] if s == '-' else [int(x) for x in s.split(',')]


def generic_search(mod, ctx, rng, tier='quick'):
    found = []
    cs = mod.gen_cases(rng, tier, ctx)
    for prof in getattr(mod, 'PROFILES', ['debug']):
        outs = ctx.impl([c['line'] for c in cs], prof)
        for c, o in zip(cs, outs):
            why = mod.check_impl(c, o, ctx, prof)
            if why:
                found.append({'case': c['line'][:6000], 'why': why, 'impl': o[:1000], 'profile': prof})
                if len(found) >= 3:
                    return found
    return found


# ---- the Coq-checked conformance certificate (Spec/Recognise.v, sound by Proofs/Certify.v) ----
# Every successful encoding without ECI is sent back to the extracted checker together with the input bytes: `certify`
# accepts only if the stream is the rendering of a legal script of Spec/Stream16022.v spelling these bytes.
CERT = {'last': None}
_H05 = [91, 41, 62, 30, 48, 53, 29]
_H06 = [91, 41, 62, 30, 48, 54, 29]


def macro_body(cfg):
    d = cfg['data']
    if cfg['macros'] and not cfg['fnc1'] and len(d) >= 9 and d[-2:] == [30, 4]:
        if d[:7] == _H05:
            return 236, d[7:-2]
        if d[:7] == _H06:
            return 237, d[7:-2]
    return None, d


def cert_model_line(c, io):
    line = model_line(c, io)
    cfg = c['cfg']
    if io and io.startswith('ok ') and cfg.get('eci') is None and line != c['line']:
        dcw = io.split(' ')[2]
        m, body = macro_body(cfg)
        prefix = 232 if cfg['fnc1'] else m
        line += ' K%s;%s;%s' % ('N' if prefix is None else prefix, dcw, ','.join(map(str, body)) or '-')
    return line


def cert_canon_model(mo, prof):
    CERT['last'] = None
    if ' cert=' in mo:
        mo, cert = mo.rsplit(' cert=', 1)
        CERT['last'] = cert
    return mo


def cert_verdict(c, ctx):
    """None if certified or not applicable, otherwise the reason"""
    cert = CERT['last']
    CERT['last'] = None
    if c['cfg'].get('eci') is None and cert is not None:
        st = ctx.stats.setdefault('coq_certificate', {'certified': 0, 'rejected': 0})
        st['certified' if cert == '1' else 'rejected'] += 1
        if cert != '1':
            return ('the Coq-checked certificate rejects the stream: it is not the rendering of a legal script of '
                    'Spec/Stream16022.v for these bytes')
    return None
