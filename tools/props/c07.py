"""C07 -- module placement conforms to ISO/IEC 16022 Annex F and ISO 21471."""
import annexf
import common
from vlib import fmt_list

PID = 'C07'
RULE = ('exhaustive: the (codeword, bit) table of all 48 sizes through MatrixMap::<Tag>::traverse_mut (the traversal has '
        'no other input); value loops: new_with_codewords/codewords on unit, random and too-short codeword vectors and '
        'codewords() on random entries; non-trivial = codeword vector with a non-zero byte')
THEOREMS = 'C07_table, C07_bijection, C07_values'
ASSUMPTIONS = ['Spec/AnnexF.v transcribes the placement program of ISO/IEC 16022 Annex F.1 with the ISO 21471 row wrap']
SPEC = None


def spec():
    global SPEC
    if SPEC is None:
        SPEC = common.spec_by_index()
    return SPEC


def content(i):
    r = spec()[i]
    return r['rrows'] * r['regv'], r['rcols'] * r['regh']


def gen_cases(rng, tier, ctx):
    cs = []
    sp = spec()
    for i in range(48):
        cs.append({'line': 'place_table %d' % i, 'cat': 'table'})
    reps = 2 if tier == 'quick' else 12
    for i in range(48):
        n = sp[i]['data'] + sp[i]['ec']
        h, w = content(i)
        big = n > 400
        for _ in range(1 if (big and tier == 'quick') else reps):
            d = [rng.below(256) for _ in range(n)]
            cs.append({'line': 'place_write %d %s' % (i, fmt_list(d)), 'cat': 'write-random'})
        d = [0] * n
        d[rng.below(n)] = 1 << rng.below(8)
        cs.append({'line': 'place_write %d %s' % (i, fmt_list(d)), 'cat': 'write-unit'})
        if not big or tier == 'thorough':
            cs.append({'line': 'place_write %d %s' % (i, fmt_list([255] * (n - 1))), 'cat': 'write-short'})
            cs.append({'line': 'place_write %d %s' % (i, fmt_list([rng.below(256) for _ in range(n + 3)])), 'cat': 'write-long'})
            e = ''.join(rng.choice('01') for _ in range(h * w))
            cs.append({'line': 'place_read %d %s' % (i, e), 'cat': 'read-random'})
    return cs


def check_impl(c, out, ctx, prof):
    a = c['line'].split(' ')
    i = int(a[1])
    h, w = content(i)
    n = spec()[i]['data'] + spec()[i]['ec']
    if a[0] == 'place_table':
        if not out.startswith('ok '):
            return 'traversal panicked for %s' % common.VARIANTS[i]
        tab, same = out[3:].split(' ')
        tab = [int(x) for x in tab.split(',')]
        exp = annexf.ecc200(h, w)
        if tab != exp:
            k = next(k for k in range(len(exp)) if k >= len(tab) or tab[k] != exp[k])
            return ('%s: module (row %d, col %d) holds %s, Annex F says %s (10*codeword+bit)'
                    % (common.VARIANTS[i], k // w, k % w, tab[k] if k < len(tab) else None, exp[k]))
        if same != '1':
            return '%s: traverse() does not read the modules traverse_mut() wrote' % common.VARIANTS[i]
        return None
    if a[0] == 'place_write':
        d = [] if a[2] == '-' else [int(x) for x in a[2].split(',')]
        if len(d) < n:
            return None   # documented panic
        if not out.startswith('ok '):
            return 'new_with_codewords panicked on a full codeword vector'
        bits, back = out[3:].split(' ')
        exp = annexf.ecc200(h, w)
        for k, v in enumerate(exp):
            want = (v == 1) if v < 10 else bool((d[v // 10 - 1] >> (8 - v % 10)) & 1)
            if (bits[k] == '1') != want:
                return '%s: module %d is %s, should be %s' % (common.VARIANTS[i], k, bits[k], int(want))
        back = [int(x) for x in back.split(',')]
        if back != d[:n]:
            return '%s: codewords() does not invert new_with_codewords()' % common.VARIANTS[i]
        return None
    if a[0] == 'place_read':
        if not out.startswith('ok '):
            return 'codewords() panicked'
        e = a[2]
        exp = annexf.ecc200(h, w)
        cw = [0] * n
        for k, v in enumerate(exp):
            if v >= 10 and e[k] == '1':
                cw[v // 10 - 1] |= 1 << (8 - v % 10)
        if [int(x) for x in out[3:].split(',')] != cw:
            return '%s: codewords() read from wrong modules' % common.VARIANTS[i]
        return None
    return None


def nontrivial(c, out):
    a = c['line'].split(' ')
    if a[0] == 'place_write':
        return a[2] != '-' and any(x != '0' for x in a[2].split(','))
    return True


def search(ctx, rng, budget, diffs):
    found = []
    cs = gen_cases(rng, 'quick', ctx)
    outs = ctx.impl([c['line'] for c in cs])
    for c, o in zip(cs, outs):
        why = check_impl(c, o, ctx, 'debug')
        if why:
            found.append({'case': c['line'], 'why': why, 'impl': o[:1000]})
            if len(found) >= 3:
                break
    return found
