"""C05 -- decoding untrusted input never panics or hangs."""
import common
import gfpy
import gen
import corpus
from vlib import fmt_list

PID = 'C05'
HANDLES_ABNORMAL = True
PROFILES = ['debug', 'release']
RULE = ('malformed-input stream for the decoding entry points, debug and release builds, panics caught: decode_data / decode_str on random '
        'bytes, every codeword value after every latch, truncated valid streams, Base256 fields announcing 1..1556 bytes with 2 fewer .. 2 more codewords behind them, ECI designators of every form followed by every byte; '
        'decode_error on random words of every size, words with t or more leading zero syndromes (constructed by solving for them), words '
        'far outside the radius, the zero codeword with wrong codewords at the first / last data and error position of every interleaved block of every size; try_from_bits / DataMatrix::decode on random arrays, renderings of random codeword vectors (valid finder, '
        'garbage content) and wrong shapes; non-trivial = input rejected or accepted after real work (not an empty input); ECI designators of every form with every second / third codeword value; the regression corpus of former panic witnesses')
THEOREMS = 'C05_decode_data, C05_decode_str, C05_try_from_bits, C05_rs_decoder, C05_rs_locator, C05_rs_locator_total, C05_rs_decoder_total, C05_rs_success_shape, C05_codewords_total, C05_decode_glue, C05_decode_symbol, C05_decode_symbol_total'
ASSUMPTIONS = ['hang detection: wall-clock limit on the harness process', 'allocation failure and stack exhaustion are outside the model']


def gen_cases(rng, tier, ctx):
    cs = []
    sp = common.spec_by_index()

    def add(line, cat):
        cs.append({'line': line, 'cat': cat})
    n = 3000 if tier == 'quick' else 60000
    for _ in range(n):
        L = rng.below(12) if rng.chance(3, 4) else rng.below(80)
        cw = [rng.below(256) for _ in range(L)]
        if rng.chance(1, 2) and L:
            cw[0] = rng.choice([230, 231, 238, 239, 240, 241, 235, 236, 237, 232, 129])
        add(('decode_data ' if rng.chance(1, 2) else 'decode_str ') + fmt_list(cw), 'data-random')
    for latch in (230, 231, 238, 239, 240, 241, 235, 236, 237, 232):
        for b in range(256):
            add('decode_data %d,%d' % (latch, b), 'after-latch')
            add('decode_str %d,%d,%d' % (latch, b, rng.below(256)), 'after-latch')
            add('decode_data %d,%d,%d,%d' % (latch, rng.below(4), b, rng.below(256)), 'after-latch')
    cs += corpus.decoder_cases()
    # Base256 fields whose announced length is just below / equal to / just above what follows, with one- and
    # two-codeword length fields, short and long, alone and after ASCII codewords
    def r255(v, pos):
        return (v + (149 * pos) % 255 + 1) % 256
    for L in (1, 2, 5, 248, 249, 250, 251, 252, 300, 499, 500, 501, 750, 1000, 1555, 1556):
        for delta in (-2, -1, 0, 1, 2):
            for pre in ([], [66, 67]):
                follow = L + delta
                if follow < 0 or len(pre) + 3 + follow > 1700:
                    continue
                cw = list(pre) + [231]
                for v in ([L] if L < 250 else [L // 250 + 249, L % 250]):
                    cw.append(r255(v, len(cw) + 1))
                for _ in range(follow):
                    cw.append(rng.below(256))
                add(('decode_data ' if rng.chance(1, 2) else 'decode_str ') + fmt_list(cw), 'b256-length-vs-rest')
    cs += [dict(c, cat='rs-corpus') for c in corpus.rs_cases()]
    cs += [{'line': c['line'], 'cat': 'rs-singular-jump'} for c in corpus.rs_singular_cases()]
    for c1 in (128, 191, 192, 207, 208, 127, 0, 255):
        for b in range(256):
            add('decode_data 241,%d,%d' % (c1, b), 'eci-designator')
            add('decode_data 241,%d,%d,%d,66' % (c1, rng.choice([1, 254, 128]), b), 'eci-designator')
            add('decode_str 241,%d,%d,%d,66' % (c1, b, rng.choice([0, 1, 254, 255])), 'eci-designator')
    for e in (3, 11, 13, 26, 27, 5, 899):
        d = [e + 1] if e <= 126 else [(e - 127) // 254 + 128, (e - 127) % 254 + 1]
        for b in range(256):
            add('decode_str %s' % fmt_list([241] + d + ([b + 1] if b < 128 else [235, b - 127])), 'eci-byte')
            add('decode_str %s' % fmt_list([241] + d + [231, (b + 44) % 256, rng.below(256), rng.below(256)]), 'eci-base256')
    # RS: random words, leading-zero syndromes
    for i in range(48):
        r = sp[i]
        nw = r['data'] + r['ec']
        B = r['blocks']
        k = r['ec'] // B
        t = k // 2
        big = nw > 300
        for _ in range(2 if big else (300 if nw < 20 else 30) * (1 if tier == 'quick' else 10)):
            add('rs_decode %d %s' % (i, fmt_list([rng.below(256) for _ in range(nw)])), 'rs-random')
        if B == 1:
            for m in sorted(set([1, 2, t - 1, t, t + 1, k - 1, k])):
                if m < 1 or m > k or m > nw:
                    continue
                for _ in range(3 if not big else 1):
                    w = [rng.below(256) for _ in range(nw)]
                    z = gfpy.zero_leading_syndromes(w, k, m, rng.sample(range(nw), m))
                    if z is not None:
                        add('rs_decode %d %s' % (i, fmt_list(z)), 'rs-leading-zero-syndromes')
        add('rs_decode %d %s' % (i, fmt_list([0] * nw)), 'rs-zero')
        # the zero codeword with one or two wrong codewords at the edges of every interleaved block (first / last data
        # codeword of the block, first / last error codeword): the index arithmetic of the correction step
        nd = r['data']
        for b in range(B):
            last_data = max(x for x in range(nd) if x % B == b)
            edge = [b, last_data, nd + b, nw - B + b]
            for p in edge:
                w = [0] * nw
                w[p] = 1 + rng.below(255)
                add('rs_decode %d %s' % (i, fmt_list(w)), 'rs-block-edge')
            if t >= 2:
                w = [0] * nw
                w[last_data] = 1 + rng.below(255)
                w[nw - B + b] = 1 + rng.below(255)
                add('rs_decode %d %s' % (i, fmt_list(w)), 'rs-block-edge')
        add('rs_decode %d %s' % (i, fmt_list([rng.below(256) for _ in range(nw - 1)])), 'rs-wrong-length')
        add('rs_decode %d %s' % (i, fmt_list([rng.below(256) for _ in range(nw + 1)])), 'rs-wrong-length')
        # whole-symbol decode: rendering of a random codeword vector
        if not big:
            for _ in range(3):
                add('dm_decode_flips %d %s -' % (i, fmt_list([rng.below(256) for _ in range(nw)])), 'symbol-garbage')
    for _ in range(300 if tier == 'quick' else 3000):
        w = rng.choice([0, 1, 7, 8, 10, 12, 18, 32, 144, 145])
        nb = rng.choice([0, 1, 64, 100, 144, 8 * 18, 8 * 32, 255])
        bits = ''.join('1' if (rng.next() >> 11) & 1 else '0' for _ in range(nb)) or '-'
        add('dm_decode %d %s' % (w, bits), 'symbol-random-array')
    return cs


def check_impl(c, out, ctx, prof):
    if c['cat'] == 'rs-wrong-length':
        return None     # decode_error documents the length as a precondition (panics in split_at_mut / succeeds on a prefix)
    if out == 'timeout':
        return 'decoding did not finish within the time limit (hang)'
    if out == 'not-run':
        return None
    if out.startswith('panic') or out.startswith('crash'):
        return 'decoding panicked (%s build)' % prof
    return None


def nontrivial(c, out):
    return c['line'].split(' ')[1] != '-'


def search(ctx, rng, budget, diffs):
    import enccommon
    return enccommon.generic_search(__import__('c05'), ctx, rng)
