"""Shared tables for the property modules (names only; numbers come from Spec or the implementation)."""
import os
import re
import vlib

VARIANTS = ['Square10', 'Square12', 'Square14', 'Square16', 'Square18', 'Square20', 'Square22', 'Square24',
            'Square26', 'Square32', 'Square36', 'Square40', 'Square44', 'Square48', 'Square52', 'Square64',
            'Square72', 'Square80', 'Square88', 'Square96', 'Square104', 'Square120', 'Square132', 'Square144',
            'Rect8x18', 'Rect8x32', 'Rect12x26', 'Rect12x36', 'Rect16x36', 'Rect16x48', 'Rect8x48', 'Rect8x64',
            'Rect8x80', 'Rect8x96', 'Rect8x120', 'Rect8x144', 'Rect12x64', 'Rect12x88', 'Rect16x64', 'Rect20x36',
            'Rect20x44', 'Rect20x64', 'Rect22x48', 'Rect24x48', 'Rect24x64', 'Rect26x40', 'Rect26x48', 'Rect26x64']


def dims_of_name(name):
    """(rows, cols) as the variant's name states them"""
    m = re.fullmatch(r'Square(\d+)', name)
    if m:
        return int(m.group(1)), int(m.group(1))
    m = re.fullmatch(r'Rect(\d+)x(\d+)', name)
    return int(m.group(1)), int(m.group(2))


def spec_rows():
    """Rows of coq/Spec/Table7.v: list of dicts, plus which standard lists them."""
    text = vlib.strip_coq_comments(open(os.path.join(vlib.COQ, 'Spec', 'Table7.v')).read())
    out = []
    for std, name in (('iso16022', 'iso16022'), ('iso21471', 'iso21471')):
        m = re.search(r'Definition %s : list row := \[(.*?)\]\.' % name, text, re.S)
        for r in re.findall(r'mk\s+(\d+)\s+(\d+)\s+(\d+)\s+(\d+)\s+(\d+)\s+(\d+)\s+(\d+)\s+(\d+)\s+(\d+)', m.group(1)):
            v = list(map(int, r))
            out.append(dict(rows=v[0], cols=v[1], rrows=v[2], rcols=v[3], regv=v[4], regh=v[5],
                            data=v[6], ec=v[7], blocks=v[8], std=std))
    return out


def spec_by_index():
    rows = {(r['rows'], r['cols']): r for r in spec_rows()}
    return [rows[dims_of_name(n)] for n in VARIANTS]
