"""C01 -- encode -> symbol -> decode returns exactly the original bytes."""
import enccommon
import gen
import corpus
from enccommon import canon_impl, ints
model_line = enccommon.cert_model_line
canon_model = enccommon.cert_canon_model

PID = 'C01'
RULE = ('structured byte strings (mode-shaped alphabets mixed at run boundaries, macro envelopes, capacity-boundary lengths) x '
        'symbol lists (default, all, random subsets, pairs, singletons) x mode subsets (all 63, half of them without ASCII) x '
        'macros x FNC1; each case is encoded, its data codewords decoded and its rendered symbol decoded; '
        'non-trivial = encoding succeeded on a non-empty input; plus three deterministic families: capacity boundaries complete for the small symbols (every alphabet x every length delta x every tail kind, with/without FNC1 start, with the single symbol of that capacity alone in the list), codec constants (Base256 runs of 248..252 / 499..501 / 1554..1555 bytes, every alphabet border byte in every context), every non-empty mode subset x {FNC1, ECI, macro, none} prefix; long inputs of one kind (lengths around 16, 64, 256, 1024) with one byte of another kind at the power-of-two offsets; and the regression corpus of minimised former witnesses')
THEOREMS = 'C01_symbol_layer, C01_routes_agree, C01_ascii_plan_roundtrip, C01_ascii_only_roundtrip, C01_base256_only_roundtrip, C01_ab_plan_roundtrip, C01_ascii_base256_roundtrip, C01_macro_ab_roundtrip, C01_fnc1_ab_roundtrip, C01_ax_plan_roundtrip, C01_ax_modes_roundtrip, C01_macro_ax_roundtrip, C01_fnc1_ax_roundtrip, C01_ac_plan_roundtrip, C01_ac_modes_roundtrip, C01_macro_ac_roundtrip, C01_fnc1_ac_roundtrip, C01_mixed_plan_roundtrip, C01_mixed_plan_test, C01_mixed_plan_macro, C01_mixed_plan_fnc1, C01_mixed_plan_default_options'
ASSUMPTIONS = ['the sort order of remove_hopeless_cases is taken from the implementation (hook trace) and validated as a sorted permutation']


def gen_cases(rng, tier, ctx):
    n = 2500 if tier == 'quick' else 40000
    cs = gen.encoder_cases(rng, tier, n, eci_share=10**9, op='rt')
    cs += gen.boundary_cases(rng, tier, per_cap=2 if tier == 'quick' else 6, op='rt')
    cs += gen.constant_cases(rng, tier, op='rt')
    cs += [c for c in gen.limit_cases(rng, tier, op='rt') if c['cfg']['eci'] is None]
    cs += gen.block_border_cases(rng, tier, op='rt')
    cs += gen.adjacent_capacity_cases(rng, tier, op='rt')
    cs += corpus.encoder_cases('rt')
    cs += [c for c in gen.prefix_cases(rng, tier, op='rt') if c['cfg']['eci'] is None]   # decode_data rejects ECI by design
    return cs


def check_impl(c, out, ctx, prof):
    why_cert = enccommon.cert_verdict(c, ctx)
    if out.startswith('panic') or out.startswith('crash'):
        return None            # C11's business
    if out.startswith('err'):
        return None
    parts = out.split(' ')
    d = c['cfg']['data']
    want = 'ok:' + (','.join(map(str, d)) if d else '-')
    if parts[3] != want:
        return 'decode_data(data codewords) = %s, encoded %s' % (parts[3][:80], want[:80])
    if parts[4] != want:
        return 'DataMatrix::decode(bitmap) = %s, encoded %s' % (parts[4][:80], want[:80])
    return why_cert


def nontrivial(c, out):
    return out.startswith('ok') and len(c['cfg']['data']) > 0


def search(ctx, rng, budget, diffs):
    return enccommon.generic_search(__import__('c01'), ctx, rng)
