"""Independent GF(256)/0x12D arithmetic (shift-and-xor), used only by the direct oracles / search."""


def mul(a, b):
    r = 0
    while b:
        if b & 1:
            r ^= a
        a <<= 1
        if a & 0x100:
            a ^= 0x12D
        b >>= 1
    return r


def power(a, n):
    r = 1
    for _ in range(n):
        r = mul(r, a)
    return r


INV = [0] * 256
for _a in range(1, 256):
    for _b in range(1, 256):
        if mul(_a, _b) == 1:
            INV[_a] = _b
            break
ALPHA_POW = [power(2, j) for j in range(0, 256)]


def peval(coeffs, x):
    """highest degree first"""
    acc = 0
    for c in coeffs:
        acc = mul(acc, x) ^ c
    return acc


def syndromes(word, k):
    return [peval(word, ALPHA_POW[j]) for j in range(1, k + 1)]


def blocks(data, ecc, B):
    return [data[b::B] + ecc[b::B] for b in range(B)]


def is_codeword(data, ecc, B, k):
    return all(not any(syndromes(w, k)) for w in blocks(data, ecc, B))
