"""Independent GF(256)/0x12D arithmetic (shift-and-xor), used only by the direct oracles / search."""


def mul(a, b):
    r = 0
    while b:
        if b & 1:
            r ^= a
        a <<= 1
        if a & 0x100:
            a ^= 0x12D
        b >>= 1
    return r


def power(a, n):
    r = 1
    for _ in range(n):
        r = mul(r, a)
    return r


INV = [0] * 256
for _a in range(1, 256):
    for _b in range(1, 256):
        if mul(_a, _b) == 1:
            INV[_a] = _b
            break
ALPHA_POW = [power(2, j) for j in range(0, 256)]


def peval(coeffs, x):
    """highest degree first"""
    acc = 0
    for c in coeffs:
        acc = mul(acc, x) ^ c
    return acc


def syndromes(word, k):
    return [peval(word, ALPHA_POW[j]) for j in range(1, k + 1)]


def blocks(data, ecc, B):
    return [data[b::B] + ecc[b::B] for b in range(B)]


def is_codeword(data, ecc, B, k):
    return all(not any(syndromes(w, k)) for w in blocks(data, ecc, B))


def solve(mat, rhs):
    """Gaussian elimination over GF(256); returns a solution or None"""
    n = len(rhs)
    m = [row[:] + [rhs[i]] for i, row in enumerate(mat)]
    for col in range(n):
        piv = next((r for r in range(col, n) if m[r][col]), None)
        if piv is None:
            return None
        m[col], m[piv] = m[piv], m[col]
        inv = INV[m[col][col]]
        m[col] = [mul(x, inv) for x in m[col]]
        for r in range(n):
            if r != col and m[r][col]:
                f = m[r][col]
                m[r] = [x ^ mul(f, y) for x, y in zip(m[r], m[col])]
    return [m[i][n] for i in range(n)]


def zero_leading_syndromes(word, k, m, positions):
    """change `word` (one block, highest degree first) at `positions` (len m) so that its first m syndromes vanish"""
    n = len(word)
    s = syndromes(word, k)[:m]
    mat = [[power(ALPHA_POW[j], n - 1 - p) for p in positions] for j in range(1, m + 1)]
    x = solve(mat, s)
    if x is None:
        return None
    w = list(word)
    for p, v in zip(positions, x):
        w[p] ^= v
    return w
