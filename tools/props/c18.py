"""C18 -- planning agrees with encoding."""
import common
import enccommon
import gen
import refdec
from enccommon import model_line, canon_impl, ints
from vlib import fmt_list

PID = 'C18'
RULE = ('data::encodation_plan and data::encode_data on the same structured inputs x symbol lists x mode subsets (capacity-boundary '
        'lengths included); the plan is checked for shape, its non-ASCII modes with at least one character are compared with the '
        'latches the independent reference decoder finds in the output, and the symbol is compared with the one predicted from the '
        'planner cost (hook); non-trivial = plan with a non-ASCII mode; codec-constant families as in C02')
THEOREMS = 'C18_plan_shape, C18_sorters, C18_encodation_plan, C18_plan_exists, C18_plan_aligned'
ASSUMPTIONS = ['predicted codeword count = ceil(cost of the selected plan) read through the cfg(datamatrix_verif) hook',
               'refdec.py is an independent reading of ISO/IEC 16022 5.2']
MODE_BY_INDEX = {0: 'Ascii', 1: 'Base256', 2: 'Edifact', 3: 'X12', 4: 'C40', 5: 'Text'}
BIT = {'Ascii': 1, 'C40': 2, 'Text': 4, 'X12': 8, 'Edifact': 16, 'Base256': 32}


def gen_cases(rng, tier, ctx):
    cs = []
    n = 2500 if tier == 'quick' else 40000
    for _ in range(n):
        d = gen.rand_bytes(rng, gen.rand_len(rng, tier))
        wl = gen.rand_list(rng)
        m = gen.rand_modes(rng)
        cs.append({'line': 'plan_enc %s %s %d' % (fmt_list(d), fmt_list(wl), m), 'cat': 'random', 'cfg': dict(data=d, wl=wl, modes=m)})
    for c in gen.boundary_cases(rng, tier, per_cap=2 if tier == 'quick' else 6) + gen.constant_cases(rng, tier) + gen.adjacent_capacity_cases(rng, tier) + [c for c in gen.limit_cases(rng, tier) if not c['cfg']['fnc1'] and c['cfg']['eci'] is None]:
        g = c['cfg']
        cs.append({'line': 'plan_enc %s %s %d' % (fmt_list(g['data']), fmt_list(g['wl']), g['modes']), 'cat': c['cat'], 'cfg': g})
    return cs


def parse(out):
    p = out.split(' ')
    plan = None
    if p[0].startswith('some:'):
        body = p[0][5:]
        plan = [] if body == '-' else [tuple(int(x) for x in it.split(':')) for it in body.split(',')]
    return plan, p[1], p[2], p[3], p[4:8]


def check_impl(c, out, ctx, prof):
    if out.startswith('panic'):
        return None
    plan, status, sym, cw, stats = parse(out)
    cfg = c['cfg']
    n = len(cfg['data'])
    if status == 'ok' and plan is None:
        return 'the input can be encoded but encodation_plan returns None'
    if plan is None:
        return None
    # shape
    pos = [x for x, _ in plan]
    if any(a < b for a, b in zip(pos, pos[1:])) or (pos and (pos[0] > n or pos[-1] != 0)):
        return 'plan positions %s are not non-increasing from <= %d down to 0' % (pos, n)
    for _, mi in plan:
        if not cfg['modes'] & BIT[MODE_BY_INDEX[mi]]:
            # the terminating (0, mode) entry repeats the current mode; the implicit start in ASCII is not listed
            return 'plan names the disabled mode %s' % MODE_BY_INDEX[mi]
    if status != 'ok':
        return None
    # how many of the encodable cases have a plan inside a class for which the data-layer round trip is a theorem for every input
    # (C01_ab_plan_roundtrip, C01_ax_plan_roundtrip, C01_ac_plan_roundtrip: beside ASCII only Base256, only X12, only C40 or only Text)
    if prof == 'debug':
        used = {MODE_BY_INDEX[mi] for (a, mi), (b, _) in zip(plan, plan[1:]) if a > b and mi != 0}
        ctx.stats['encodable_cases_with_plan'] = ctx.stats.get('encodable_cases_with_plan', 0) + 1
        if len(used) <= 1 and not (used & {'Edifact'}):
            ctx.stats['plans_inside_a_proved_round_trip_class'] = ctx.stats.get('plans_inside_a_proved_round_trip_class', 0) + 1
        # C01_mixed_plan_test (Proofs/EncMulti.v, p5b): no EDIFACT entry, no non-ASCII entry at positions 1 or 2
        if all(MODE_BY_INDEX[mi] != 'Edifact' and (mi == 0 or a > 2 or a == 0) for a, mi in plan):
            ctx.stats['plans_inside_the_mixed_plan_theorem'] = ctx.stats.get('plans_inside_the_mixed_plan_theorem', 0) + 1
    # latches: non-ASCII modes to which the plan assigns at least one character
    assigned = []
    for (a, mi), (b, _) in zip(plan, plan[1:]):
        if a > b and mi != 0:
            assigned.append(MODE_BY_INDEX[mi])
    r = refdec.decode(ints(cw))
    if r['error']:
        return None
    got = r['modes']
    if got != assigned:
        return 'latches in the output %s, non-ASCII modes with characters in the plan %s' % (got, assigned)
    # size prediction
    if stats[3] != 'N':
        pred = (int(stats[3]) + 11) // 12
        sp = common.spec_by_index()
        fit = [i for i in sorted(cfg['wl'], key=lambda i: (sp[i]['data'], sp[i]['rows'] ** 2 + sp[i]['cols'] ** 2)) if sp[i]['data'] >= pred]
        if fit and sp[int(sym)]['data'] > sp[fit[0]]['data']:
            return 'encoder needed %d codewords (%s), the planner predicted %d' % (sp[int(sym)]['data'], common.VARIANTS[int(sym)], pred)
    return None


def nontrivial(c, out):
    plan = parse(out)[0] if not out.startswith('panic') else None
    return bool(plan) and any(mi != 0 for _, mi in plan)


def search(ctx, rng, budget, diffs):
    return enccommon.generic_search(__import__('c18'), ctx, rng)
