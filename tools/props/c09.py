"""C09 -- error correction never reports success on a word that is not a codeword."""
import common
import corpus
import gfpy
from vlib import fmt_list

PID = 'C09'
RULE = ('decode_error on words at every distance 0..k+1 from a codeword (errors spread over the blocks or concentrated in one), uniformly '
        'random words, for all 48 sizes with the seven odd-k sizes over-sampled; whenever the answer is Ok the returned word is '
        're-checked with independent syndromes and by re-encoding; for the odd-k sizes words whose first k-1 syndromes are those of fewer than floor(k/2) errors and only the last syndrome disagrees; the singular-jump patterns; non-trivial = word outside the code; the regression corpus of former witnesses')
THEOREMS = 'C09_full, C09_roots, C09_syndromes'
ASSUMPTIONS = ['Spec/GF256.v, Spec/RSCode.v transcribe the code of ISO/IEC 16022']
ODD = None


def gen_cases(rng, tier, ctx):
    sp = common.spec_by_index()
    cs = []
    sizes = list(range(48))
    odd = [i for i in sizes if (sp[i]['ec'] // sp[i]['blocks']) % 2]
    reps = 1 if tier == 'quick' else 6
    enc_lines, meta = [], []
    for i in sizes + odd * 3:
        nd = sp[i]['data']
        enc_lines.append('rs_encode %d %s' % (i, fmt_list([rng.below(256) for _ in range(nd)])))
        meta.append(i)
    encs = ctx.impl(enc_lines)
    for i, line, e in zip(meta, enc_lines, encs):
        if not e.startswith('ok '):
            continue
        d = [int(x) for x in line.split(' ')[2].split(',')]
        cw = d + [int(x) for x in e[3:].split(',')]
        n = len(cw)
        B = sp[i]['blocks']
        k = sp[i]['ec'] // B
        big = n > 300
        for w in range(0, k + 2):
            for _ in range(1 if big else reps * 3):
                r = list(cw)
                if rng.chance(1, 2):
                    pos = rng.sample(range(n), min(w * B, n))
                else:
                    b = rng.below(B)
                    pos = rng.sample(range(b, n, B) if False else [p for p in range(n) if (p % B if p < len(d) else (p - len(d)) % B) == b], w) if w else []
                for p in pos:
                    r[p] ^= rng.range(1, 255)
                cs.append({'line': 'rs_decode %d %s' % (i, fmt_list(r)), 'cat': 'distance', 'sym': i, 'orig': cw, 'w': w})
        for _ in range(4 if big else (400 if n < 20 else 40) * reps):
            r = [rng.below(256) for _ in range(n)]
            cs.append({'line': 'rs_decode %d %s' % (i, fmt_list(r)), 'cat': 'random-word', 'sym': i, 'orig': None, 'w': None})
    cs += corpus.rs_cases()
    cs += [dict(c, w=c['nerr']) for c in corpus.rs_singular_cases()]
    # odd k: words whose first k - 1 syndromes are those of v < floor(k/2) errors while only the last syndrome disagrees --
    # a codeword of the code with k - 1 check symbols (a multiple of its generator) plus v errors; the malfunction test
    # never looks at the last syndrome, only the final re-check of all syndromes rejects these
    for i in odd:
        nd, k = sp[i]['data'], sp[i]['ec']
        n = nd + k
        g = [1]
        for j in range(1, k):                      # product of (x - alpha^j), j = 1 .. k-1, highest degree first
            a = gfpy.ALPHA_POW[j]
            g = [x ^ y for x, y in zip(g + [0], [0] + [gfpy.mul(c, a) for c in g])]
        t = k // 2
        for v in range(0, t):
            for _ in range(4 * reps):
                shift = rng.below(n - len(g) + 1)
                scale = rng.range(1, 255)
                r = [0] * n
                for idx, c in enumerate(g):
                    r[shift + idx] ^= gfpy.mul(c, scale)
                for p in rng.sample(range(n), v):
                    r[p] ^= rng.range(1, 255)
                cs.append({'line': 'rs_decode %d %s' % (i, fmt_list(r)), 'cat': 'last-syndrome-only', 'sym': i, 'orig': None, 'w': None})
    return cs


def check_impl(c, out, ctx, prof):
    if out.startswith('panic') or out.startswith('crash'):
        return None           # C05's business
    if not out.startswith('ok '):
        return None
    sp = common.spec_by_index()[c['sym']]
    w = [int(x) for x in out[3:].split(',')]
    nd = sp['data']
    B = sp['blocks']
    k = sp['ec'] // B
    if len(w) != nd + sp['ec']:
        return 'returned word has the wrong length'
    if not gfpy.is_codeword(w[:nd], w[nd:], B, k):
        return 'decode_error returned Ok but left a non-codeword (independent syndromes non-zero)'
    return None


def nontrivial(c, out):
    return c['w'] is None or c['w'] > 0


def search(ctx, rng, budget, diffs):
    import enccommon
    return enccommon.generic_search(__import__('c09'), ctx, rng)
