"""C13 -- disabled encodation modes are never used."""
import enccommon
import gen
import corpus
import refdec
from enccommon import model_line, canon_impl, ints

PID = 'C13'
RULE = ('structured inputs x every non-empty mode subset (each of the 63 subsets at least 30 times per run) x symbol lists; the '
        'produced stream is parsed by the independent mode-tracking reference decoder and its latches are intersected with the '
        'disabled modes; characters carried in ASCII while ASCII is disabled must lie in the final four positions; '
        'non-trivial = some mode disabled and encoding succeeded; plus three deterministic families: capacity boundaries complete for the small symbols (every alphabet x every length delta x every tail kind, with/without FNC1 start, with the single symbol of that capacity alone in the list), codec constants (Base256 runs of 248..252 / 499..501 / 1554..1555 bytes, every alphabet border byte in every context), every non-empty mode subset x {FNC1, ECI, macro, none} prefix; and the regression corpus of minimised former witnesses')
THEOREMS = 'C13_plan_modes_enabled, C13_latch_source, C13_fallback_is_ascii, C13_ascii_only_no_latch, C13_ascii_base256_only, C13_ascii_x12_only, C13_ascii_c40_or_text_only'
ASSUMPTIONS = ['refdec.py is an independent reading of ISO/IEC 16022 5.2']
BIT = {'C40': 2, 'Text': 4, 'X12': 8, 'Edifact': 16, 'Base256': 32}


def gen_cases(rng, tier, ctx):
    cs = []
    reps = 30 if tier == 'quick' else 400
    for m in range(1, 64):
        for _ in range(reps):
            d = gen.rand_bytes(rng, gen.rand_len(rng, 'quick') % 120)
            wl = gen.rand_list(rng)
            cs.append({'line': gen.encode_line(d, wl, m, rng.chance(1, 2), False, None), 'cat': 'subset',
                       'cfg': dict(data=d, wl=wl, modes=m, macros=None, fnc1=False, eci=None)})
    cs += [c for c in gen.boundary_cases(rng, tier, per_cap=2) ]
    cs += [c for c in gen.constant_cases(rng, tier) if c['cat'] != 'b256-length' or len(c['cfg']['data']) < 300]
    cs += gen.prefix_cases(rng, tier)
    cs += [c for c in corpus.encoder_cases() if len(c['cfg']['data']) < 300]
    return cs


def check_impl(c, out, ctx, prof):
    if not out.startswith('ok '):
        return None
    parts = out.split(' ')
    dcw = ints(parts[2])
    r = refdec.decode(dcw)
    if r['error']:
        return None          # C02's business
    m = c['cfg']['modes']
    for mode in r['modes']:
        if not m & BIT[mode]:
            return 'stream latches to %s, which is disabled (mode mask %s)' % (mode, bin(m))
    if not m & 1:
        # ASCII disabled: bytes not carried by a latched segment may only be the end-of-data fallback
        carried = sum(k for _, k in r['segments'])
        total = len(r['data']) - (9 if r['macro'] else 0)
        if total - carried > 4:
            return '%d characters are carried by ASCII although ASCII is disabled' % (total - carried)
    return None


def nontrivial(c, out):
    return out.startswith('ok') and c['cfg']['modes'] != 63


def search(ctx, rng, budget, diffs):
    return enccommon.generic_search(__import__('c13'), ctx, rng)
