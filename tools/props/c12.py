"""C12 -- symbol catalogue and symbol-list filters match the standards."""
import common
from vlib import fmt_list

PID = 'C12'
RULE = ('exhaustive: attributes of all 48 sizes and SYMBOL_SIZES; symbol lists: default/all/white-lists x '
        'filter compositions x all 9 bound shapes x bounds 0..150 x look-up sizes around every capacity; '
        'non-trivial = list has >= 1 element after filtering or the look-up is decided by a boundary')
THEOREMS = ('C12_table, C12_table_rows, C12_dims_injective, C12_bijection, C12_default, C12_filters, '
            'C12_range_contains, C12_whitelist, C12_filters_wf, C12_order, C12_order_canonical, '
            'C12_first_fit, C12_first_fit_none')
ASSUMPTIONS = ['BTreeSet<SymbolSize> iterates in Ord order and ignores an insert comparing Equal (modelled as a '
               'strictly sorted list); RangeBounds::contains as documented',
               'Spec/Table7.v transcribes ISO/IEC 16022 Table 7 and ISO/IEC 21471 Table 1']

SPEC = None


def spec():
    global SPEC
    if SPEC is None:
        SPEC = common.spec_by_index()
    return SPEC


def gen_cases(rng, tier, ctx):
    cs = []
    for i in range(48):
        cs.append({'line': 'sym_attrs %d' % i, 'cat': 'attrs'})
    cs.append({'line': 'symbol_sizes', 'cat': 'order'})
    caps = sorted(set(r['data'] for r in spec()))
    ns = sorted(set([0, 1, 2, 3000, 1559] + [c + d for c in caps for d in (-1, 0, 1)]))
    nfilters = 600 if tier == 'quick' else 6000
    vals = list(range(0, 151))
    # every bound shape for width and height on default / all
    for kind in (2, 3):
        for lk in (0, 1, 2):
            for hk in (0, 1, 2):
                reps = nfilters // 18
                for _ in range(reps):
                    lo, hi = rng.choice(vals), rng.choice(vals)
                    base = rng.choice(['d', 'a', 'x'])
                    cs.append({'line': 'sl %s - %s %d' % (base, fmt_list([kind, lk, lo, hk, hi]), rng.choice(ns)),
                               'cat': 'filter-range'})
    # boundaries: each existing width/height as inclusive and exclusive bound
    dimsv = sorted(set([r['rows'] for r in spec()] + [r['cols'] for r in spec()]))
    for kind in (2, 3):
        for v in dimsv:
            for lk, hk in ((1, 1), (2, 2), (1, 2), (2, 1), (0, 2), (2, 0)):
                cs.append({'line': 'sl a - %s %d' % (fmt_list([kind, lk, v, hk, v + rng.below(3)]), rng.choice(ns)),
                           'cat': 'filter-boundary'})
    # compositions
    for _ in range(nfilters // 3):
        f = []
        for _ in range(rng.range(1, 4)):
            k = rng.below(4)
            f += [k, rng.below(3), rng.choice(vals), rng.below(3), rng.choice(vals)]
        cs.append({'line': 'sl %s - %s %d' % (rng.choice(['d', 'a']), fmt_list(f), rng.choice(ns)), 'cat': 'filter-compose'})
    # white-lists (with duplicates, unsorted), look-ups at every capacity boundary
    for _ in range(nfilters):
        k = rng.choice([0, 1, 1, 2, 2, 3, 5, 8, 20, 48])
        wl = [rng.below(48) for _ in range(k)]
        base = rng.choice(['w', 'w', 'w', 'e'])
        f = []
        if rng.chance(1, 4):
            f = [rng.below(2), 0, 0, 0, 0]
        cs.append({'line': 'sl %s %s %s %d' % (base, fmt_list(wl), fmt_list(f), rng.choice(ns)), 'cat': 'whitelist'})
    for i in range(48):
        for n in ns[::3]:
            cs.append({'line': 'sl w %d - %d' % (i, n), 'cat': 'singleton'})
    return cs


def _contains(k, v, x):
    return True if k == 0 else (v <= x if k == 1 else v < x)


def _contains_hi(k, v, x):
    return True if k == 0 else (x <= v if k == 1 else x < v)


def check_impl(c, out, ctx, prof):
    """the property itself, judged on the implementation's answer against Spec/Table7.v"""
    a = c['line'].split(' ')
    sp = spec()
    if out == 'panic' or out.startswith('crash'):
        return 'implementation panicked'
    if a[0] == 'sym_attrs':
        i = int(a[1])
        v = [int(x) for x in out.split(',')]
        r = sp[i]
        exp = {'data': v[0], 'blocks': v[3], 'ec': v[3] * v[4], 'cols': v[5], 'rows': v[6], 'regv': v[7] + 1, 'regh': v[8] + 1}
        for k, val in exp.items():
            if r[k] != val:
                return '%s: %s is %d, the standard says %d' % (common.VARIANTS[i], k, val, r[k])
        if v[9] != r['rcols'] * r['regh'] or v[10] != r['rrows'] * r['regv']:
            return '%s: mapping matrix %dx%d differs from the standard' % (common.VARIANTS[i], v[10], v[9])
        if v[11] != int(r['rows'] == r['cols']) or v[12] != int(r['std'] == 'iso21471'):
            return '%s: is_square/is_dmre flag wrong' % common.VARIANTS[i]
        if v[13] != int(r['rows'] == r['cols'] and r['rows'] in (12, 16, 20, 24)):
            return '%s: has_padding_modules wrong' % common.VARIANTS[i]
        return None
    if a[0] == 'symbol_sizes':
        v = [int(x) for x in out.split(',')]
        if sorted(v) != list(range(48)):
            return 'SYMBOL_SIZES is not the 48 sizes'
        return None
    if a[0] == 'sl':
        els, cont, emp, maxcap, ff, ul = out.split(' ')
        els = [] if els == '-' else [int(x) for x in els.split(',')]
        base = a[1]
        wl = [] if a[2] == '-' else [int(x) for x in a[2].split(',')]
        f = [] if a[3] == '-' else [int(x) for x in a[3].split(',')]
        n = int(a[4])
        std16022 = [i for i in range(48) if sp[i]['std'] == 'iso16022']
        if base == 'd':
            S = set(std16022)
        elif base in ('a', 'x'):
            S = set(range(48))
        elif base == 'w':
            S = set(wl)
        else:
            S = set(std16022) | set(wl)
        for g in range(0, len(f), 5):
            k, lk, lv, hk, hv = f[g:g + 5]
            if k == 0:
                S = {i for i in S if sp[i]['rows'] == sp[i]['cols']}
            elif k == 1:
                S = {i for i in S if sp[i]['rows'] != sp[i]['cols']}
            else:
                key = 'cols' if k == 2 else 'rows'
                S = {i for i in S if _contains(lk, lv, sp[i][key]) and _contains_hi(hk, hv, sp[i][key])}
        if set(els) != S or len(els) != len(S):
            return 'list elements %s, expected the set %s' % (els, sorted(S))
        capsq = [sp[i]['data'] for i in els]
        if capsq != sorted(capsq):
            return 'iteration not in non-decreasing data capacity: %s' % capsq
        if [int(x) for x in cont.split(',')] != [int(i in S) for i in range(48)]:
            return 'contains() disagrees with the elements'
        if int(emp) != int(not S):
            return 'is_empty wrong'
        exp = next((i for i in els if sp[i]['data'] >= n), None)
        if ff != ('N' if exp is None else 'S%d' % exp):
            return 'first_symbol_big_enough_for(%d) = %s, expected %s' % (n, ff, exp)
        return None
    return None


def nontrivial(c, out):
    a = c['line'].split(' ')
    if a[0] != 'sl':
        return True
    return not out.startswith('- ')


def search(ctx, rng, budget, diffs):
    """a theorem or the tie broke: look for an input on which the *property* fails on the implementation"""
    found = []
    cs = gen_cases(rng, 'thorough', ctx)
    outs = ctx.impl([c['line'] for c in cs])
    for c, o in zip(cs, outs):
        why = check_impl(c, o, ctx, 'debug')
        if why:
            found.append({'case': c['line'], 'why': why, 'impl': o[:1000]})
            if len(found) >= 3:
                break
    return found
