"""Regression corpus: the minimised witnesses of every defect found so far (repaired defects of the pinned tree and
seeded changes that a check missed or caught only by chance).  Each entry is a harness line; the modules add them to
their case lists under the category 'corpus', so they run on every check, first tier and thorough alike."""
import gen

H05 = '91,41,62,30,48,53,29'
ALL = ','.join(str(i) for i in range(48))
DEF = ','.join(str(i) for i in range(30))


def enc(data, wl=ALL, modes=63, macros=0, fnc1=0, eci='N', op='encode'):
    d = ','.join(str(b) for b in data) or '-'
    return '%s %s %s %d %d %d %s' % (op, d, wl, modes, macros, fnc1, eci)


DECODER = [
    'decode_data 230,0,0', 'decode_data 239,0,0', 'decode_data 238,0,0',             # C40/Text/X12 pair 0,0
    'decode_data 241,192,1,0', 'decode_data 241,192,1,255,66', 'decode_data 241,207,254,255',   # third ECI codeword
    'decode_str 241,12,235,113', 'decode_str 241,12,235,94', 'decode_str 241,14,235,89',         # 8859-9 / -11 index base
    'decode_data 231,44,2', 'decode_data 236,66,129', 'decode_data 232,66',
]
RS_WORDS = [
    'rs_decode 0 93,195,178,61,187,184,129,54',      # first t syndromes zero
    'rs_decode 0 5,139,152,27,163,18,254,1',         # chien: zero leading coefficient
    'rs_decode 0 38,44,61,37,11,205,96,27',          # odd k: last syndrome ignored
    'rs_decode 0 40,231,215,38,88,235,208,170',
]
ENCODER = [
    enc(list(b'[)>\x1e05\x1dHELLO'), macros=1), enc(list(b'[)>\x1e05\x1d'), macros=1),
    enc(list(b'[)>\x1e05\x1dHELLO\x1e\x04'), macros=1, fnc1=1),
    enc(list(b'[)>\x1e05\x1d  8HWKO]J\x1e\x04'), macros=1), enc(list(b'[)>\x1e06\x1dAAAAAAAAa\x1e\x04'), macros=1),
    enc(list(b'[)>\x1e05\x1dAAAAAAAA12\x1e\x04'), macros=1), enc(list(b'[)>\x1e05\x1dAAAAAAA123\x1e\x04'), macros=1),
    enc(list(b'12345678'), wl='0,1'), enc(list(b'0123'), wl='0,1'), enc([32, 100, 117], modes=24),
    enc(list(b'ABCDEFGH12345678'), wl='3'), enc(list(b'ABCDEFGH12345678'), wl=DEF), enc([200] * 1556, wl=DEF),
    enc(list(b'8XC35N3GWC\xc1')), enc(list(b'AB CD9 EF42'), modes=3, fnc1=1), enc(list(b'~AB CD9 EF42'), modes=3),
    enc(list(b'A'), modes=2, fnc1=1), enc(list(b'0104012345678901'), modes=34, fnc1=1),
    enc(list(b'hello world, this is lower case'), modes=3), enc(list(b'123456'), wl='0'),
    enc(list(b'123456789012345678901234'), wl='3'), enc(list(b'n07fa839g 6llb0me11vtw3z31p66t7x8!'), wl='31'),
    enc(list(b'GUBBC!@%$%&%PRLVDXFIXPWBNQVCRDHJNTPZJBSKYVGVVPX')),
    enc([200] * 249), enc([200] * 250), enc([75] + [200] * 250 + [101, 110, 100]),
    enc(list(b'4tzl6qs7msp4371778WL00')), enc(list(b'4tzl6qs7msp4371778WL00'), wl='26'),          # unbeatable strike blocks the optimal switch
    enc(list(b'xv4jht72dri3115857\x1f\r\x1d\x01\x04\x01\x1e\x1d\x1f'), wl='7,14,17,19,22,27,32,34,35,38,42'),
]


def decoder_cases():
    return [{'line': l, 'cat': 'corpus'} for l in DECODER]


def rs_cases():
    return [{'line': l, 'cat': 'corpus', 'sym': 0, 'orig': None, 'w': None} for l in RS_WORDS]


def encoder_cases(op='encode'):
    out = []
    for l in ENCODER:
        cfg = gen.parse_encode_line(l)
        out.append({'line': l.replace('encode', op, 1), 'cat': 'corpus', 'cfg': cfg})
    return out


def rs_singular_cases():
    """error patterns within the radius (on the all-zero codeword) whose syndrome Hankel matrix has two consecutive
    singular leading minors after a non-singular one: the Levinson-Durbin loop takes its singular step with a jump m >= 2.
    About 1 in 30000 random patterns; found once by tools' search (gfpy arithmetic) and kept."""
    import json
    import os
    import common
    sp = common.spec_by_index()
    pats = json.load(open(os.path.join(os.path.dirname(__file__), 'rs_singular.json')))
    out = []
    for i, hits in pats.items():
        i = int(i)
        n = sp[i]['data'] + sp[i]['ec']
        for pos, vals, jump in hits:
            w = [0] * n
            for p, y in zip(pos, vals):
                w[p] = y
            out.append({'line': 'rs_decode %d %s' % (i, ','.join(map(str, w))), 'cat': 'singular-jump', 'orig': [0] * n, 'sym': i,
                        'nerr': len(pos), 'w': w})
    return out
