"""gen.py -- seeded structured generators for encoder inputs and configurations (DESIGN.md 4.3)."""
import common
from vlib import fmt_list

ALPH = {
    'digits': list(b"0123456789"),
    'c40': list(b"ABCDEFGHIJKLMNOPQRSTUVWXYZ 0123456789"),
    'text': list(b"abcdefghijklmnopqrstuvwxyz 0123456789"),
    'x12': list(b"\r*> 0123456789ABCDEFGHIJKLMNOPQRSTUVWXYZ"),
    'edifact': list(range(32, 95)),
    'shift2': list(b"!\"#$%&'()*+,-./:;<=>?@[\\]^_"),
    'shift3': list(b"`{|}~\x7f"),
    'ctrl': [0, 1, 4, 13, 29, 30, 31, 127],
    'high': [128, 129, 160, 200, 233, 254, 255],
    'highdig': [176, 177, 185, 193, 225],      # high bytes whose low half is a digit / letter
    'any': list(range(256)),
}
NAMES = sorted(ALPH)
H05 = list(b"[)>\x1e05\x1d")
H06 = list(b"[)>\x1e06\x1d")
TRAIL = [30, 4]
DEFAULT = list(range(30))
ALL48 = list(range(48))
_CAPS = None


def caps():
    global _CAPS
    if _CAPS is None:
        _CAPS = [r['data'] for r in common.spec_by_index()]
    return _CAPS


def rand_bytes(rng, length, runs=True):
    out = []
    a = ALPH[rng.choice(NAMES)]
    for _ in range(length):
        if runs and rng.chance(1, 7):
            a = ALPH[rng.choice(NAMES)]
        out.append(rng.choice(a))
    return out


def rand_len(rng, tier):
    r = rng.below(100)
    if r < 55:
        return rng.below(24)
    if r < 85:
        return rng.range(24, 90)
    if r < 97:
        return rng.range(90, 400)
    return rng.range(400, 1700 if tier == 'thorough' else 900)


def rand_list(rng):
    r = rng.below(10)
    if r < 3:
        return DEFAULT
    if r < 5:
        return ALL48
    if r < 7:
        return [x for x in ALL48 if rng.chance(1, 3)]
    if r < 9:
        return rng.sample(ALL48, rng.range(1, 3))
    return [rng.below(48)]


def rand_modes(rng, allow_empty=False):
    r = rng.below(10)
    if r < 5:
        return 63
    if r < 7:
        return rng.range(0 if allow_empty else 1, 63)
    if r < 9:
        return rng.range(1, 31) * 2          # without ASCII
    return 1 << rng.below(6)                 # a single mode


def macro_wrap(rng, body):
    h = rng.choice([H05, H06, H05, H06, H05[:6], [], H05[:-1] + [30]])
    t = rng.choice([TRAIL, TRAIL, TRAIL, [], [30], [4]])
    return h + body + t


def encode_line(d, wl, modes, macros, fnc1, eci):
    return 'encode %s %s %d %d %d %s' % (fmt_list(d), fmt_list(wl), modes, int(macros), int(fnc1), 'N' if eci is None else str(eci))


def parse_encode_line(line):
    a = line.split(' ')
    ints = lambda s: [] if s == '-' else [int(x) for x in s.split(',')]
    return dict(data=ints(a[1]), wl=ints(a[2]), modes=int(a[3]), macros=a[4] == '1', fnc1=a[5] == '1',
                eci=None if a[6] == 'N' else int(a[6]))


def encoder_cases(rng, tier, n, macro_share=6, eci_share=8, fnc1_share=8, allow_empty_modes=False, allow_empty_list=False,
                  op='encode'):
    """mostly-valid inputs; every case dict carries the parsed configuration under 'cfg'"""
    cs = []
    for k in range(n):
        L = rand_len(rng, tier)
        d = rand_bytes(rng, L)
        if rng.chance(1, macro_share):
            d = macro_wrap(rng, d[:40])
        wl = rand_list(rng)
        if allow_empty_list and rng.chance(1, 25):
            wl = []
        modes = rand_modes(rng, allow_empty_modes)
        macros = rng.chance(1, 2)
        fnc1 = rng.chance(1, fnc1_share)
        eci = rng.choice([0, 3, 26, 126, 127, 16382, 16383, 999999]) if rng.chance(1, eci_share) else None
        line = encode_line(d, wl, modes, macros, fnc1, eci).replace('encode', op, 1)
        cs.append({'line': line, 'cat': 'random', 'cfg': dict(data=d, wl=wl, modes=modes, macros=macros, fnc1=fnc1, eci=eci)})
    return cs



def constant_cases(rng, tier, op='encode'):
    """inputs that sit on the constants of the codec rather than on symbol capacities: Base256 runs of the lengths where
    the length field changes form (249/250, multiples of 250, 1555), the ASCII / shift-set / EDIFACT / X12 alphabet
    borders, digit-pair borders.  Deterministic families; rng only chooses fillers."""
    cs = []

    def add(d, modes, cat, wl=None, fnc1=False):
        wl = ALL48 if wl is None else wl
        line = encode_line(d, wl, modes, False, fnc1, None).replace('encode', op, 1)
        cs.append({'line': line, 'cat': cat, 'cfg': dict(data=d, wl=wl, modes=modes, macros=False, fnc1=fnc1, eci=None)})
    lens = [1, 2, 248, 249, 250, 251, 252, 499, 500, 501, 750]
    if tier != 'quick':
        lens += [253, 498, 502, 749, 751, 999, 1000, 1001, 1249, 1250, 1251, 1499, 1500, 1501, 1553, 1554, 1555]
    else:
        lens += [1000, 1554, 1555]
    for L in lens:
        run = [rng.choice(ALPH['high']) for _ in range(L)]
        for pre, post in (([], []), ([75], [101, 110, 100]), ([49, 50], []), ([], [65])):
            if L > 600 and (pre, post) not in (([], []), ([75], [101, 110, 100])):
                continue
            add(pre + run + post, 63, 'b256-length')
            if L <= 600 or not pre:
                add(pre + run + post, 33, 'b256-length')
        if L <= 600:
            add(run, 32, 'b256-length')
    borders = [0, 1, 31, 32, 33, 47, 48, 57, 58, 64, 65, 90, 91, 94, 95, 96, 97, 122, 123, 126, 127, 128, 129, 159, 160, 191, 192,
               223, 224, 254, 255]
    for b in borders:
        for ctx in ([65, 66, 67], [97, 98, 99], [49, 50, 51], [200, 201], []):
            for modes in (63, 1 + 2, 1 + 4, 1 + 16, 1 + 8, 1 + 32, 2, 4):
                if rng.chance(1, 2) and tier == 'quick':
                    continue
                add(ctx + [b] + ctx, modes, 'alphabet-border')
                add(ctx + ctx + [b], modes, 'alphabet-border')
    # a Base256 run with a two-byte length field, left by a mode switch, followed by a run of another scheme that ends at a symbol
    # capacity (where the planner's count of written codewords after the long run decides an end-of-data rule), with short tails
    cp = sorted(set(caps()))
    kinds = {'edifact': (0.75, 1), 'c40': (2.0 / 3, 1), 'text': (2.0 / 3, 1), 'x12': (2.0 / 3, 1)}
    for R in ((251,) if tier == 'quick' else (250, 251, 300)):
        run = [rng.choice(ALPH['high']) for _ in range(R)]
        used = R + 3
        for cap in [c for c in cp if c > used + 4][: 1 if tier == 'quick' else 2]:
            for kind, (per, latch) in sorted(kinds.items()):
                for delta in range(-4, 3):
                    k = int((cap - used - latch) / per) + delta
                    if k <= 0:
                        continue
                    body = [rng.choice(ALPH[kind]) for _ in range(k)]
                    for tail in ([], [97], [97, 98], [126], [49, 50]):
                        add(run + body + tail, 63, 'b256-then-' + kind, wl=DEFAULT)
    for n in range(1, 9):
        add([48 + (k % 10) for k in range(n)], 63, 'digit-pairs')
        add([48 + (k % 10) for k in range(n)] + [65], 63, 'digit-pairs')
        add([65] + [57] * n, 1, 'digit-pairs')
    return cs


def block_border_cases(rng, tier, op='encode'):
    """long inputs of one kind (letters, digits, high bytes, each alphabet) whose lengths lie around the powers of two, with one
    byte of another kind at the start, the end, a power-of-two offset or anywhere, under all modes and under the single mode
    that suits the alphabet: the inputs on which a block-wise fast path in an encoder, planner or decoder would differ from the
    per-character code"""
    cs = []
    lens = [16, 17, 64, 65, 256, 257, 1024, 1025] if tier == 'quick' else \
        [15, 16, 17, 31, 32, 33, 63, 64, 65, 127, 128, 129, 255, 256, 257, 511, 512, 513, 1023, 1024, 1025, 1400]
    odd = [0, 10, 31, 32, 48, 57, 65, 97, 127, 128, 159, 160, 200, 255]
    flag = {'digits': 1, 'c40': 2, 'text': 4, 'x12': 8, 'edifact': 16, 'high': 32}
    for kind in ('c40', 'digits', 'high', 'text', 'x12', 'edifact'):
        for L in lens:
            if kind == 'high' and L > 1500:
                continue
            base = [rng.choice(ALPH[kind]) for _ in range(L)]
            variants = [base]
            for posn in (0, L - 1, 15, 16, 63, 64, 255, 256, 1023, 1024, rng.below(L)):
                if posn < L and (tier != 'quick' or rng.chance(1, 5)):
                    v = list(base)
                    v[posn] = rng.choice(odd)
                    variants.append(v)
            for v in variants:
                modes = 63 if rng.chance(1, 2) else (flag[kind] | 1)
                line = encode_line(v, ALL48, modes, False, False, None).replace('encode', op, 1)
                cs.append({'line': line, 'cat': 'block-border-' + kind,
                           'cfg': dict(data=v, wl=ALL48, modes=modes, macros=False, fnc1=False, eci=None)})
    return cs


def limit_cases(rng, tier, op='encode'):
    """inputs at the upper limit of what can be encoded at all: for the largest symbol of the list (and, thorough, for
    lists topped by each of the other large symbols) and each scheme, a run whose encodation needs cap-1, cap, cap+1 ..
    codewords -- where the early size gates, the Base256 length limit (1555 bytes) and the 'too much data' refusals
    live -- without and with a codeword in front (FNC1 start, a digit pair, an ECI).  Deterministic."""
    cs = []
    cp = caps()

    def add(d, modes, wl, cat, fnc1=False, eci=None):
        line = encode_line(d, wl, modes, False, fnc1, eci).replace('encode', op, 1)
        cs.append({'line': line, 'cat': cat, 'cfg': dict(data=d, wl=wl, modes=modes, macros=False, fnc1=fnc1, eci=eci)})
    tops = sorted(range(48), key=lambda i: -cp[i])
    tops = tops[:1] if tier == 'quick' else tops[:5]
    deltas = (-1, 0, 1) if tier == 'quick' else (-3, -2, -1, 0, 1, 2, 3)
    for t in tops:
        cap = cp[t]
        lists = [[i for i in ALL48 if cp[i] <= cap]] + ([[t]] if tier != 'quick' else [])
        for dl in deltas:
            n = cap + dl
            runs = [
                ([48 + (k % 10) for k in range(2 * n)], 1),                               # digit pairs
                ([rng.choice(ALPH['shift2']) for _ in range(n)], 1),                        # one ASCII codeword each
                ([rng.choice(ALPH['high']) for _ in range(max(n - 3, 0))], 32),             # Base256, 2-codeword length
                ([rng.choice(ALPH['c40'][:26]) for _ in range(3 * ((n - 1) // 2))], 2),     # C40 triples
                ([rng.choice(ALPH['text'][:26]) for _ in range(3 * ((n - 1) // 2))], 4),    # Text triples
                ([rng.choice(ALPH['x12'][4:]) for _ in range(3 * ((n - 1) // 2))], 8),      # X12 triples
                ([rng.choice(ALPH['edifact'][33:59]) for _ in range(4 * ((n - 1) // 3))], 16),  # EDIFACT quadruples
            ]
            for d, m in runs:
                for wl in lists:
                    for modes in (63, m) + ((m | 1,) if m != 1 and tier != 'quick' else ()):
                        add(d, modes, wl, 'limit')
                        add(d, modes, wl, 'limit', fnc1=True)
                        if tier != 'quick' or m == 32:
                            add([49, 50] + d, modes, wl, 'limit')
                            add(d, modes, wl, 'limit', eci=5)
    # the Base256 run-length limit itself, whatever the symbol
    for L in (1554, 1555, 1556, 1557):
        run = [rng.choice(ALPH['high']) for _ in range(L)]
        for modes in (63, 32, 33):
            for wl in (ALL48, DEFAULT):
                add(run, modes, wl, 'limit')
                add(run, modes, wl, 'limit', fnc1=True)
                add([49, 50] + run, modes, wl, 'limit')
                add(run + [65], modes, wl, 'limit')
                add(run, modes, wl, 'limit', eci=5)
    return cs


def adjacent_capacity_cases(rng, tier, op='encode', pre=0):
    """symbol lists in which two capacities differ by one or two codewords (43/44, 62/63, 63/64 with the DMRE sizes, 3/5, 8/10 ...):
    runs of every scheme that end exactly at, one before and one after the smaller capacity, with the two symbols alone and with
    all 48 sizes listed -- where 'space left in the current symbol' and 'space left once the symbol has grown' differ by one and
    the end-of-data rules of encoder and planner must query the same size.  `pre`: codewords written before the run (a macro or
    FNC1 codeword).  Deterministic up to the choice of characters."""
    cs = []
    cp = caps()
    pairs = [(i, j) for i in range(48) for j in range(48) if 0 < cp[j] - cp[i] <= 2]
    kinds = {'digits': (2.0, 1), 'c40': (1.5, 2), 'text': (1.5, 4), 'x12': (1.5, 8), 'edifact': (4.0 / 3, 16), 'high': (1.0, 32)}
    for i, j in pairs:
        c = cp[i]
        for kind, (per, m) in sorted(kinds.items()):
            for delta in (-2, -1, 0, 1, 2):
                L = int((c - pre - (0 if kind == 'digits' else 1)) * per) + delta
                if L <= 0:
                    continue
                d = [rng.choice(ALPH[kind]) for _ in range(L)]
                for wl in ([i, j], ALL48):
                    for modes in ((63, m) if tier == 'quick' else (63, m, m | 1)):
                        line = encode_line(d, wl, modes, False, False, None).replace('encode', op, 1)
                        cs.append({'line': line, 'cat': 'adjacent-' + kind, 'cfg': dict(data=d, wl=wl, modes=modes, macros=False, fnc1=False, eci=None)})
    return cs


def prefix_cases(rng, tier, op='encode'):
    """every non-empty mode subset combined with each way of writing a codeword before the data (FNC1 start, ECI, Macro
    05/06 header) and with none, on a few short inputs of each alphabet: the configurations in which the planner starts
    with written > 0 and possibly a disabled start mode"""
    cs = []
    inputs = [[65], [48, 49, 48, 52, 48, 49, 50, 51, 52, 53, 54, 55, 56, 57, 48, 49], [104, 101, 108, 108, 111, 32, 119], [200, 201, 202],
              [65, 66, 67, 68, 69, 70, 71, 72, 73], [42, 49, 50, 13, 65]]
    subsets = list(range(1, 64))
    for m in subsets:
        for kind in ('fnc1', 'eci', 'macro', 'none'):
            ins = inputs if tier != 'quick' else [inputs[rng.below(len(inputs))], inputs[rng.below(len(inputs))]]
            for d in ins:
                if kind == 'macro':
                    dd, mac, f, e = H05 + d + TRAIL, True, False, None
                elif kind == 'fnc1':
                    dd, mac, f, e = d, False, True, None
                elif kind == 'eci':
                    dd, mac, f, e = d, False, False, rng.choice([3, 26, 127, 16383])
                else:
                    dd, mac, f, e = d, False, False, None
                line = encode_line(dd, ALL48, m, mac, f, e).replace('encode', op, 1)
                cs.append({'line': line, 'cat': 'prefix-' + kind, 'cfg': dict(data=dd, wl=ALL48, modes=m, macros=mac, fnc1=f, eci=e)})
    return cs


def boundary_cases(rng, tier, per_cap=2, op='encode'):
    """inputs whose encoded length lands around a symbol capacity: digit / letter / byte runs of the
    lengths that fill a symbol exactly, one less, one more (where the end-of-data rules fire).  For the small
    capacities (<= 64 codewords, which includes the DMRE neighbours 62 / 63 / 64) the family is complete: every alphabet x every delta, plain and with each kind of tail,
    with and without an FNC1 start (which shifts the parity of the codewords before the run)."""
    cs = []
    seen = set()
    tails = {'digit1': [52], 'digit2': [52, 50], 'digit3': [52, 50, 51], 'upper': [65], 'lower': [97, 98], 'high': [200], 'punct': [33],
             'brace': [123], 'tilde': [126], 'shift3x2': [125, 124], 'del': [127], 'ctrl': [29]}
    for c in sorted(set(caps())):
        small = c <= 64
        if c > 120 and tier == 'quick' and rng.chance(2, 3):
            continue
        for kind in ('digits', 'c40', 'text', 'x12', 'edifact', 'high', 'ctrl'):
            per = {'digits': 2.0, 'c40': 1.5, 'text': 1.5, 'x12': 1.5, 'edifact': 4.0 / 3, 'high': 1.0, 'ctrl': 1.0}[kind]
            for delta in (-3, -2, -1, 0, 1, 2):
                L = int((c - (0 if kind == 'digits' else 1)) * per) + delta
                if L < 0 or L > 3200 or (kind, L) in seen:
                    continue
                if not small and not rng.chance(per_cap, 6):
                    continue
                seen.add((kind, L))
                variants = [None]
                if small:
                    variants += list(tails) if tier != 'quick' else [rng.choice(sorted(tails)), rng.choice(sorted(tails)), rng.choice(sorted(tails))]
                    if kind == 'edifact' and 'brace' not in variants:
                        variants.append('brace')      # ASCII codeword 124 = EDIFACT unlatch << 2 in the last codewords
                elif rng.chance(1, 3) and L > 4:
                    variants = ['mixed']
                for v in variants:
                    d = [rng.choice(ALPH[kind]) for _ in range(L)]
                    if v == 'mixed':
                        t = rng.range(1, 4)
                        d[-t:] = [rng.choice(ALPH[rng.choice(['digits', 'c40', 'high', 'shift2'])]) for _ in range(t)]
                    elif v is not None:
                        t = tails[v]
                        d = d[:max(0, L - len(t))] + t
                    wl = rng.choice([DEFAULT, ALL48, ALL48])
                    if rng.chance(1, 3):
                        # the symbol(s) of exactly this capacity alone: the early max_capacity / upper_limit gates see the boundary
                        wl = [i for i, x in enumerate(caps()) if x == c][:1]
                    modes = 63 if rng.chance(2, 3) else rand_modes(rng)
                    fnc1 = small and rng.chance(1, 4)
                    line = encode_line(d, wl, modes, False, fnc1, None).replace('encode', op, 1)
                    cs.append({'line': line, 'cat': 'boundary-' + kind,
                               'cfg': dict(data=d, wl=wl, modes=modes, macros=False, fnc1=fnc1, eci=None)})
    return cs
