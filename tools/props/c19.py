"""C19 -- planning work grows at most linearly with the input length."""
import enccommon
import gen
from enccommon import model_line, canon_impl, ints
import enccommon
from vlib import fmt_list

PID = 'C19'
HANDLES_ABNORMAL = True
# a planning call that does not return IS the violation: small per-case limits, and stop a shard after two hangs
IMPL_OPTS = dict(timeout=120, solo_timeout=40, max_timeouts=2, deadline=300)
RULE = ('encodation_plan with the hook counters: random structured inputs up to 3116 bytes, adversarial alternations (A1A1.., aAaA.., '
        'digit runs of every parity, bytes that keep several modes within a twelfth of a codeword of each other), all mode subsets and '
        'symbol lists; counters compared exactly with the model and with the proved bound; non-trivial = input of >= 8 bytes')
THEOREMS = 'C19_bound, C19_live, C19_steps_per_pass'
ASSUMPTIONS = ['steps = calls of Plan::step inside optimize() as counted by the cfg(datamatrix_verif) hook']
MAX_LIVE = 36


def bound(n):
    return 216 * (n + 1) + 5


def gen_cases(rng, tier, ctx):
    cs = []

    def add(d, wl, m, cat):
        cs.append({'line': 'plan %s %s %d' % (fmt_list(d), fmt_list(wl), m), 'cat': cat, 'n': len(d)})
    n = 1500 if tier == 'quick' else 20000
    for _ in range(n):
        add(gen.rand_bytes(rng, gen.rand_len(rng, tier)), gen.rand_list(rng), gen.rand_modes(rng), 'random')
    pats = [b"A1", b"aA", b"a1A", b"1a", b"A*", b"\rA1a", b"12A", b"123a", b"Aa1\x80", b"\x80A", b"0a0A", b"A1a!", b" 0aA\x1d"]
    for p in pats:
        for L in (7, 8, 9, 20, 21, 64, 255, 800 if tier == 'quick' else 3000):
            d = (list(p) * (L // len(p) + 1))[:L]
            for m in (63, 62, 31, 6):
                add(d, gen.ALL48, m, 'alternation')
    for L in range(0, 40):
        add([48 + (i % 10) for i in range(L)], gen.DEFAULT, 63, 'digit-run')
        add([65] + [48 + (i % 10) for i in range(L)] + [66], gen.DEFAULT, 63, 'digit-run')
    for L in ((1555, 1556, 3116) if tier == 'thorough' else (1555,)):
        add([200] * min(L, 1556), gen.ALL48, 63, 'max')
        add([49] * L, gen.ALL48, 63, 'max')
    return cs


def check_impl(c, out, ctx, prof):
    if out == 'timeout':
        return 'planning did not finish within the time limit (hang)'
    if out.startswith('panic') or out == 'not-run' or out.startswith('crash'):
        return None
    parts = out.split(' ')
    steps, live, iters = int(parts[1]), int(parts[2]), int(parts[3])
    n = c['n']
    if live > MAX_LIVE:
        return '%d plans alive after pruning (bound %d)' % (live, MAX_LIVE)
    if steps > bound(n):
        return '%d plan steps for %d bytes (bound %d)' % (steps, n, bound(n))
    if iters > n + 1:
        return '%d iterations for %d bytes' % (iters, n)
    return None


def nontrivial(c, out):
    return c['n'] >= 8


def search(ctx, rng, budget, diffs):
    return enccommon.generic_search(__import__('c19'), ctx, rng)
