"""C08 -- finder/alignment rendering and strict bitmap parsing are mutual inverses."""
import common
from vlib import fmt_list

PID = 'C08'
RULE = ('exhaustive: the rendering layout of all 48 sizes (Tag bit type); renderings of random contents; parse of '
        'renderings; EVERY single-pixel deviation of one rendering per size (sampled for sizes above 64 pixels wide in the '
        'quick tier, all fixed-pattern pixels always); random arrays, malformed widths/lengths; non-trivial = array of a '
        'symbol size with at least one dark content module')
THEOREMS = 'C08_render, C08_parse_render, C08_accepts_only_renderings, C08_errors, C08_fast_versions'
ASSUMPTIONS = ['Spec/Finder.v transcribes the finder/alignment pattern of ISO/IEC 16022 with Table 7 geometry',
               'Vec/slice semantics (chunks, zip, cycle) as documented']
SPEC = None


def spec():
    global SPEC
    if SPEC is None:
        SPEC = common.spec_by_index()
    return SPEC


def fcell(t, r, c):
    """Independent finder description (python twin of Spec/Finder.v): 'D', 'L' or content index"""
    ph, pw = t['rrows'] + 2, t['rcols'] + 2
    lr, lc = r % ph, c % pw
    if lc == 0 or lr == ph - 1:
        return 'D'
    if lr == 0:
        return 'D' if lc % 2 == 0 else 'L'
    if lc == pw - 1:
        return 'D' if lr % 2 == 1 else 'L'
    return ((r // ph) * t['rrows'] + lr - 1) * (t['rcols'] * t['regh']) + (c // pw) * t['rcols'] + lc - 1


def render(t, entries):
    out = []
    for r in range(t['rows']):
        for c in range(t['cols']):
            f = fcell(t, r, c)
            out.append('1' if f == 'D' else '0' if f == 'L' else entries[f])
    return ''.join(out)


def rand_entries(rng, i, wellformed=True):
    t = spec()[i]
    h, w = t['rrows'] * t['regv'], t['rcols'] * t['regh']
    x = rng.next()
    e = [('1' if (rng.next() >> 7) & 1 else '0') for _ in range(h * w)]
    if wellformed and t['rows'] == t['cols'] and t['rows'] in (12, 16, 20, 24):
        n = h * w
        e[n - 2], e[n - 1], e[n - w - 2], e[n - w - 1] = '0', '1', '1', '0'
    return ''.join(e)


def gen_cases(rng, tier, ctx):
    cs = []
    sp = spec()
    for i in range(48):
        cs.append({'line': 'bitmap_tag %d' % i, 'cat': 'layout'})
    for i in range(48):
        t = sp[i]
        big = t['cols'] > 64
        for _ in range(1 if (big and tier == 'quick') else 3):
            e = rand_entries(rng, i, wellformed=rng.chance(3, 4))
            cs.append({'line': 'bitmap %d %s' % (i, e), 'cat': 'render'})
            cs.append({'line': 'from_bits %d %s' % (t['cols'], render(t, e)), 'cat': 'parse-rendering'})
        e = rand_entries(rng, i)
        npx = t['rows'] * t['cols']
        fixed = [p for p in range(npx) if fcell(t, p // t['cols'], p % t['cols']) in ('D', 'L')]
        if big and tier == 'quick':
            flips = rng.sample(fixed, 40) + [rng.below(npx) for _ in range(10)]
        elif big:
            flips = fixed + [rng.below(npx) for _ in range(200)]
        else:
            flips = list(range(npx))
        for k in flips:
            cs.append({'line': 'from_bits_flip %d %s %d' % (i, e, k), 'cat': 'flip'})
        # padding pattern deviations
        if t['rows'] == t['cols'] and t['rows'] in (12, 16, 20, 24):
            h, w = t['rrows'], t['rcols']
            n = h * w
            for pos in (n - 1, n - 2, n - w - 1, n - w - 2):
                e2 = list(e)
                e2[pos] = '1' if e2[pos] == '0' else '0'
                cs.append({'line': 'from_bits %d %s' % (t['cols'], render(t, ''.join(e2))), 'cat': 'padding-deviation'})
    # malformed shapes
    for _ in range(200 if tier == 'quick' else 2000):
        w = rng.choice([0, 1, 2, 3, 7, 8, 9, 10, 11, 12, 18, 32, 33, 144, 145])
        n = rng.choice([0, 1, 5, 64, 96, 100, 101, 144, 8 * 18, 8 * 32, 12 * 26, 400, 20736])
        if n > 2000 and tier == 'quick' and rng.chance(3, 4):
            n = rng.below(300)
        bits = ''.join('1' if (rng.next() >> 9) & 1 else '0' for _ in range(n)) or '-'
        cs.append({'line': 'from_bits %d %s' % (w, bits), 'cat': 'malformed'})
    return cs


def check_impl(c, out, ctx, prof):
    a = c['line'].split(' ')
    sp = spec()
    if out == 'panic' or out.startswith('crash'):
        if a[0] in ('from_bits', 'from_bits_flip'):
            return 'try_from_bits panicked'
        if a[0] in ('bitmap', 'bitmap_tag'):
            return 'bitmap panicked'
    if a[0] == 'bitmap_tag':
        i = int(a[1])
        t = sp[i]
        w, bits = out[3:].split(' ')
        bits = [int(x) for x in bits.split(',')]
        if int(w) != t['cols'] or len(bits) != t['rows'] * t['cols']:
            return 'bitmap has the wrong dimensions'
        for p, v in enumerate(bits):
            f = fcell(t, p // t['cols'], p % t['cols'])
            want = 1 if f == 'D' else 0 if f == 'L' else f + 2
            if v != want:
                return '%s: pixel (row %d, col %d) is %d, the standard says %s' % (common.VARIANTS[i], p // t['cols'], p % t['cols'], v, want)
        return None
    if a[0] == 'bitmap':
        i = int(a[1])
        t = sp[i]
        parts = out.split(' ')
        if parts[0] != 'ok' or int(parts[1]) != t['cols'] or int(parts[2]) != t['rows'] or parts[3] != render(t, a[2]):
            return '%s: rendering differs from the standard finder/alignment layout' % common.VARIANTS[i]
        return None
    if a[0] in ('from_bits', 'from_bits_flip'):
        if a[0] == 'from_bits':
            w = int(a[1])
            bits = '' if a[2] == '-' else a[2]
        else:
            i = int(a[1])
            t = sp[i]
            w = t['cols']
            bits = list(render(t, a[2]))
            k = int(a[3])
            if k < len(bits):
                bits[k] = '1' if bits[k] == '0' else '0'
            bits = ''.join(bits)
        # the property: accept iff the array is the rendering of the returned content; error classes
        if w == 0:
            return None if out == 'err ZeroWidth' else 'width 0 not rejected as ZeroWidth: %s' % out
        if len(bits) % w:
            return None if out == 'err DataSize' else 'length not a multiple of the width not rejected as DataSize: %s' % out
        h = len(bits) // w
        cand = [j for j in range(48) if sp[j]['cols'] == w and sp[j]['rows'] == h]
        if not cand:
            return None if out == 'err SymbolSize' else 'dimensions of no symbol not rejected as SymbolSize: %s' % out
        j = cand[0]
        t = sp[j]
        if out.startswith('ok '):
            _, si, ent = out.split(' ')
            if int(si) != j:
                return 'wrong size returned'
            if render(t, ent) != bits:
                return 'accepted an array that is not the rendering of the returned content'
            return None
        # rejected: then the array must NOT be a well-formed rendering
        ent = ''.join(bits[p] for p in range(len(bits)) if fcell(t, p // w, p % w) not in ('D', 'L'))
        order = sorted((fcell(t, p // w, p % w), bits[p]) for p in range(len(bits)) if fcell(t, p // w, p % w) not in ('D', 'L'))
        ent = ''.join(b for _, b in order)
        ok_pad = True
        if t['rows'] == t['cols'] and t['rows'] in (12, 16, 20, 24):
            cw = t['rcols'] * t['regh']
            n = len(ent)
            ok_pad = (ent[n - 2], ent[n - 1], ent[n - cw - 2], ent[n - cw - 1]) == ('0', '1', '1', '0')
        if render(t, ent) == bits and ok_pad:
            return 'rejected (%s) a correct rendering' % out
        return None
    return None


def nontrivial(c, out):
    a = c['line'].split(' ')
    if a[0] in ('from_bits',):
        return not out.startswith('err ZeroWidth') and not out.startswith('err DataSize') and not out.startswith('err SymbolSize')
    return True


def search(ctx, rng, budget, diffs):
    found = []
    cs = gen_cases(rng, 'quick', ctx)
    outs = ctx.impl([c['line'] for c in cs])
    for c, o in zip(cs, outs):
        why = check_impl(c, o, ctx, 'debug')
        if why:
            found.append({'case': c['line'][:4000], 'why': why, 'impl': o[:1000]})
            if len(found) >= 3:
                break
    return found
