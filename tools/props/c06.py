"""C06 -- error codewords conform to the ISO/IEC 16022 Reed-Solomon code."""
import common
import gfpy
from vlib import fmt_list

PID = 'C06'
RULE = ('GF(256): all 256x256 products/sums/quotients, logs and powers (exhaustive); generator(k) for k=0..70; '
        'encode_error for all 48 sizes on zero data, unit vectors (which by linearity span the code), random data and '
        'wrong lengths; non-trivial = data with a non-zero codeword')
THEOREMS = 'C06_full, C06_generators, C06_field, C06_syndromes'
ASSUMPTIONS = ['Spec/GF256.v and Spec/RSCode.v transcribe the field and the code of ISO/IEC 16022',
               'Vec/iterator semantics (step_by, skip, zip) as documented']
SPEC = None


def spec():
    global SPEC
    if SPEC is None:
        SPEC = common.spec_by_index()
    return SPEC


def gen_cases(rng, tier, ctx):
    cs = []
    for a in range(256):
        cs.append({'line': 'gf_mulrow %d' % a, 'cat': 'gf-mul'})
        cs.append({'line': 'gf_divrow %d' % a, 'cat': 'gf-div'})
    cs.append({'line': 'gf_misc', 'cat': 'gf-tables'})
    for k in range(0, 71):
        cs.append({'line': 'generator %d' % k, 'cat': 'generator'})
    sp = spec()
    nrand = 6 if tier == 'quick' else 60
    for i in range(48):
        n = sp[i]['data']
        cs.append({'line': 'rs_encode %d %s' % (i, fmt_list([0] * n)), 'cat': 'zero'})
        pos = list(range(n)) if (n <= 64 or tier == 'thorough') else sorted(set(
            [0, 1, 2, n - 1, n - 2, n - 3] + list(range(0, 2 * sp[i]['blocks'] + 2)) + [rng.below(n) for _ in range(24)]))
        for p in pos:
            d = [0] * n
            d[p] = 1 if rng.chance(1, 2) else rng.range(1, 255)
            cs.append({'line': 'rs_encode %d %s' % (i, fmt_list(d)), 'cat': 'unit'})
        for _ in range(nrand):
            d = [rng.below(256) for _ in range(n)]
            cs.append({'line': 'rs_encode %d %s' % (i, fmt_list(d)), 'cat': 'random'})
        for m in (n - 1, n + 1, 0):
            cs.append({'line': 'rs_encode %d %s' % (i, fmt_list([rng.below(256) for _ in range(m)])), 'cat': 'wrong-length'})
    return cs


def check_impl(c, out, ctx, prof):
    a = c['line'].split(' ')
    if a[0] == 'rs_encode':
        i = int(a[1])
        r = spec()[i]
        d = [] if a[2] == '-' else [int(x) for x in a[2].split(',')]
        if len(d) != r['data']:
            return None   # documented to panic on a wrong length
        if not out.startswith('ok '):
            return 'encode_error failed on a data vector of the right length: %s' % out[:60]
        e = [] if out[3:] == '-' else [int(x) for x in out[3:].split(',')]
        if len(e) != r['ec']:
            return '%d error codewords, the standard says %d' % (len(e), r['ec'])
        B = r['blocks']
        k = r['ec'] // B
        for b, w in enumerate(gfpy.blocks(d, e, B)):
            s = gfpy.syndromes(w, k)
            if any(s):
                j = next(j for j, v in enumerate(s) if v)
                return 'block %d of %s is not a codeword: syndrome %d = %d' % (b, common.VARIANTS[i], j + 1, s[j])
        return None
    if a[0] == 'gf_mulrow':
        x = int(a[1])
        m, ad = out.split(' ')
        m = [int(v) for v in m.split(',')]
        ad = [int(v) for v in ad.split(',')]
        for y in range(256):
            if m[y] != gfpy.mul(x, y):
                return 'GF: %d * %d = %d, field says %d' % (x, y, m[y], gfpy.mul(x, y))
            if ad[y] != x ^ y:
                return 'GF: %d + %d = %d' % (x, y, ad[y])
        return None
    if a[0] == 'gf_divrow':
        x = int(a[1])
        v = out.split(',')
        for y in range(1, 256):
            if v[y] == 'P' or int(v[y]) != gfpy.mul(x, gfpy.INV[y]):
                return 'GF: %d / %d = %s, field says %d' % (x, y, v[y], gfpy.mul(x, gfpy.INV[y]))
        return None
    if a[0] == 'generator':
        k = int(a[1])
        ks = set(r['ec'] // r['blocks'] for r in spec())
        if k in ks:
            if not out.startswith('ok '):
                return 'no generator polynomial of degree %d' % k
            g = [int(x) for x in out[3:].split(',')]
            if len(g) != k + 1 or g[0] != 1 or any(gfpy.peval(g, gfpy.ALPHA_POW[j]) for j in range(1, k + 1)):
                return 'generator polynomial of degree %d does not have the roots 2^1..2^%d' % (k, k)
        return None
    return None


def nontrivial(c, out):
    a = c['line'].split(' ')
    if a[0] == 'rs_encode':
        return a[2] != '-' and any(x != '0' for x in a[2].split(','))
    return True


def search(ctx, rng, budget, diffs):
    found = []
    cs = gen_cases(rng, 'thorough', ctx)
    outs = ctx.impl([c['line'] for c in cs])
    for c, o in zip(cs, outs):
        why = check_impl(c, o, ctx, 'debug')
        if why:
            found.append({'case': c['line'], 'why': why, 'impl': o[:1000]})
            if len(found) >= 3:
                break
    return found
