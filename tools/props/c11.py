"""C11 -- encoding is total and failures are classified correctly."""
import enccommon
import gen
import corpus
from enccommon import model_line, canon_impl

PID = 'C11'
HANDLES_ABNORMAL = True
PROFILES = ['debug', 'release']
RULE = ('encode_eci over structured inputs x all 64 mode subsets (empty set and sets without ASCII included) x symbol lists '
        '(empty, singletons, pairs, subsets, default, all) x macros x FNC1 x ECI numbers of the three designator forms; degenerate '
        'envelopes (bare macro header, header without trailer, trailer only); encode_str; debug and release builds, panics caught; '
        'non-trivial = non-empty list and non-empty mode set; plus three deterministic families: capacity boundaries complete for the small symbols (every alphabet x every length delta x every tail kind, with/without FNC1 start, with the single symbol of that capacity alone in the list), codec constants (Base256 runs of 248..252 / 499..501 / 1554..1555 bytes, every alphabet border byte in every context), every non-empty mode subset x {FNC1, ECI, macro, none} prefix; and the regression corpus of minimised former witnesses')
THEOREMS = 'C11_classification, C11_empty_list, C11_only_two_errors, C11_macro_total, C11_eci_total, C11_padding_total, C11_mode_encoders, C11_panic_source, C11_ascii_plan_total, C11_api_panic_source, C11_planner_total, C11_encodation_plan_total, C11_panic_is_main_loop, C11_ascii_only_total, C11_ab_total, C11_abx_total, C11_abxe_total, C11_total, C11_value_or_classified_error, C11_builder_total'
ASSUMPTIONS = ['the sort order of remove_hopeless_cases is taken from the implementation (hook trace)',
               'hang detection: per-run wall-clock limit of the harness process, not an instruction budget']


def gen_cases(rng, tier, ctx):
    n = 2500 if tier == 'quick' else 30000
    cs = gen.encoder_cases(rng, tier, n, allow_empty_modes=True, allow_empty_list=True, eci_share=5)
    cs += gen.boundary_cases(rng, tier, per_cap=1 if tier == 'quick' else 4)
    cs += gen.constant_cases(rng, tier)
    cs += gen.limit_cases(rng, tier)
    cs += corpus.encoder_cases()
    cs += gen.prefix_cases(rng, tier)
    # every mode subset on a few mixed strings, singleton / pair / empty lists
    base = [list(b"ABC123abc"), [32, 100, 117], list(b"12345678"), [], [200, 201, 49, 50], list(b"\r*> A1")]
    for m in range(64):
        for d in base:
            for wl in ([], [0], [0, 1], gen.DEFAULT, [23]):
                cs.append({'line': gen.encode_line(d, wl, m, rng.chance(1, 2), rng.chance(1, 6), None), 'cat': 'subsets',
                           'cfg': dict(data=d, wl=wl, modes=m, macros=None, fnc1=None, eci=None)})
    for d in (gen.H05, gen.H06, gen.H05 + [65], gen.H05 + gen.TRAIL, gen.TRAIL, gen.H05[:6] + gen.TRAIL, gen.H05 + [65, 66] + gen.TRAIL):
        for mac in (0, 1):
            for f in (0, 1):
                for m in (63, 1, 62, 32):
                    cs.append({'line': gen.encode_line(d, gen.DEFAULT, m, mac, f, None), 'cat': 'envelope',
                               'cfg': dict(data=d, wl=gen.DEFAULT, modes=m, macros=mac, fnc1=f, eci=None)})
    # tiny single-symbol / two-symbol lists with every way of writing codewords in front of the message (FNC1, macro, ECI
    # designators of one, two and three codewords): the early capacity gates and the reserve arithmetic
    for wl in ([0], [1], [24], [0, 1], [2]):
        for e in (None, 0, 126, 127, 16382, 16383, 999999):
            for f in (0, 1):
                for d in ([], [65], [65, 66, 67, 68], gen.H05 + gen.TRAIL, gen.H05 + [65] + gen.TRAIL):
                    for m in (63, 62, 32):
                        cs.append({'line': gen.encode_line(d, wl, m, 1, f, e), 'cat': 'tiny-list-options',
                                   'cfg': dict(data=d, wl=wl, modes=m, macros=1, fnc1=f, eci=e)})
    for e in (0, 126, 127, 16382, 16383, 999999):
        cs.append({'line': gen.encode_line([65, 66], gen.DEFAULT, 63, 1, 0, e), 'cat': 'eci',
                   'cfg': dict(data=[65, 66], wl=gen.DEFAULT, modes=63, macros=1, fnc1=0, eci=e)})
    return cs


def check_impl(c, out, ctx, prof):
    if out == 'timeout':
        return 'encoding did not finish within the time limit (hang)'
    if out == 'not-run':
        return None
    if out.startswith('panic') or out.startswith('crash'):
        return 'encoding panicked (%s build)' % prof
    empty = not c['cfg']['wl']
    if out.startswith('err SymbolListEmpty') and not empty:
        return 'SymbolListEmpty for a non-empty symbol list'
    if empty and not out.startswith('err SymbolListEmpty'):
        return 'empty symbol list not reported as SymbolListEmpty: %s' % out[:60]
    if out.startswith('err') and not (out.startswith('err SymbolListEmpty') or out.startswith('err TooMuchOrIllegalData')):
        return 'unknown error class'
    return None


def nontrivial(c, out):
    return bool(c['cfg']['wl']) and c['cfg']['modes'] != 0


def search(ctx, rng, budget, diffs):
    return enccommon.generic_search(__import__('c11'), ctx, rng)
