"""Independent transcription of ISO/IEC 16022 Annex F.1 (+ ISO 21471 row wrap) for the direct oracle."""


def ecc200(nrow, ncol):
    array = [0] * (nrow * ncol)

    def module(row, col, ch, bit):
        if row < 0:
            row += nrow
            col += 4 - ((nrow + 4) % 8)
        if col < 0:
            col += ncol
            row += 4 - ((ncol + 4) % 8)
        if row >= nrow:
            row -= nrow
        array[row * ncol + col] = 10 * ch + bit

    def utah(row, col, ch):
        module(row - 2, col - 2, ch, 1)
        module(row - 2, col - 1, ch, 2)
        module(row - 1, col - 2, ch, 3)
        module(row - 1, col - 1, ch, 4)
        module(row - 1, col, ch, 5)
        module(row, col - 2, ch, 6)
        module(row, col - 1, ch, 7)
        module(row, col, ch, 8)

    def corner1(ch):
        for (r, c, b) in ((nrow - 1, 0, 1), (nrow - 1, 1, 2), (nrow - 1, 2, 3), (0, ncol - 2, 4),
                          (0, ncol - 1, 5), (1, ncol - 1, 6), (2, ncol - 1, 7), (3, ncol - 1, 8)):
            module(r, c, ch, b)

    def corner2(ch):
        for (r, c, b) in ((nrow - 3, 0, 1), (nrow - 2, 0, 2), (nrow - 1, 0, 3), (0, ncol - 4, 4),
                          (0, ncol - 3, 5), (0, ncol - 2, 6), (0, ncol - 1, 7), (1, ncol - 1, 8)):
            module(r, c, ch, b)

    def corner3(ch):
        for (r, c, b) in ((nrow - 3, 0, 1), (nrow - 2, 0, 2), (nrow - 1, 0, 3), (0, ncol - 2, 4),
                          (0, ncol - 1, 5), (1, ncol - 1, 6), (2, ncol - 1, 7), (3, ncol - 1, 8)):
            module(r, c, ch, b)

    def corner4(ch):
        for (r, c, b) in ((nrow - 1, 0, 1), (nrow - 1, ncol - 1, 2), (0, ncol - 3, 3), (0, ncol - 2, 4),
                          (0, ncol - 1, 5), (1, ncol - 3, 6), (1, ncol - 2, 7), (1, ncol - 1, 8)):
            module(r, c, ch, b)

    ch, row, col = 1, 4, 0
    while True:
        if row == nrow and col == 0:
            corner1(ch)
            ch += 1
        if row == nrow - 2 and col == 0 and ncol % 4:
            corner2(ch)
            ch += 1
        if row == nrow - 2 and col == 0 and ncol % 8 == 4:
            corner3(ch)
            ch += 1
        if row == nrow + 4 and col == 2 and not ncol % 8:
            corner4(ch)
            ch += 1
        while True:
            if row < nrow and col >= 0 and not array[row * ncol + col]:
                utah(row, col, ch)
                ch += 1
            row -= 2
            col += 2
            if not (row >= 0 and col < ncol):
                break
        row += 1
        col += 3
        while True:
            if row >= 0 and col < ncol and not array[row * ncol + col]:
                utah(row, col, ch)
                ch += 1
            row += 2
            col -= 2
            if not (row < nrow and col >= 0):
                break
        row += 3
        col += 1
        if not (row < nrow or col < ncol):
            break
    if not array[nrow * ncol - 1]:
        array[nrow * ncol - 1] = array[nrow * ncol - ncol - 2] = 1
    return array
