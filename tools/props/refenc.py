"""refenc.py -- an independent, nondeterministic reference ENCODER for ISO/IEC 16022 data codeword streams
(written from the standard, like refdec.py).  Two uses:
  * random_stream(): a random legal segmentation of a byte string into mode runs with random legal
    termination forms (the `Gen` sampler of DESIGN.md Appendix A) -- inputs for property C04;
  * best_stream(): a dynamic programme over (position, codewords used, mode sub-state) that finds, for a
    given symbol capacity, SOME legal stream of exactly that capacity if one exists (the `min_cap` oracle
    of C10).  Every stream returned is re-validated by refdec before it is used as a witness.
"""
import refdec

C40_BASE = refdec.C40_BASE
TEXT_BASE = refdec.TEXT_BASE
SHIFT2 = refdec.SHIFT2
LATCH_CW = {'C40': 230, 'Base256': 231, 'X12': 238, 'Text': 239, 'Edifact': 240}
BIT = {'Ascii': 1, 'C40': 2, 'Text': 4, 'X12': 8, 'Edifact': 16, 'Base256': 32}


# ------------------------------------------------------------------ value tables
def c40_values(ch, text=False):
    """the C40 (or Text) values of one byte"""
    if ch >= 128:
        return [1, 30] + c40_values(ch - 128, text)
    c = chr(ch)
    base = TEXT_BASE if text else C40_BASE
    shift3 = refdec.TEXT_SHIFT3 if text else refdec.C40_SHIFT3
    if c in base:
        return [base.index(c) + 3]
    if ch < 32:
        return [0, ch]
    if c in SHIFT2:
        return [1, SHIFT2.index(c)]
    if c in shift3:
        return [2, shift3.index(c)]
    raise ValueError(ch)


def x12_value(ch):
    c = chr(ch)
    return refdec.X12_SET.index(c) if c in refdec.X12_SET else None


def pack3(v):
    x = 1600 * v[0] + 40 * v[1] + v[2] + 1
    return [x >> 8, x & 255]


def rand255(v, pos):
    return (v + (149 * pos) % 255 + 1) % 256


def rand253_pad(pos):
    v = 129 + (149 * pos) % 253 + 1
    return v if v <= 254 else v - 254


def ascii_items(bs, pair=True):
    """greedy ASCII codewords for bytes (digit pairs if pair)"""
    out, i = [], 0
    while i < len(bs):
        if pair and i + 1 < len(bs) and 48 <= bs[i] <= 57 and 48 <= bs[i + 1] <= 57:
            out.append(130 + (bs[i] - 48) * 10 + bs[i + 1] - 48)
            i += 2
        elif bs[i] < 128:
            out.append(bs[i] + 1)
            i += 1
        else:
            out += [235, bs[i] - 127]
            i += 1
    return out


def pad(cw, cap):
    """fill up with 129 and 253-state pads (only legal in ASCII mode)"""
    cw = list(cw)
    if len(cw) < cap:
        cw.append(129)
    while len(cw) < cap:
        cw.append(rand253_pad(len(cw) + 1))
    return cw


# ------------------------------------------------------------------ random streams (Gen sampler)
def _edifact_ok(b):
    return 32 <= b <= 94


def random_stream(rng, data, caps, modes=63, prefix=None):
    """-> (codewords, capacity, script) or None if the random choices did not fit any capacity.
    script = list of (mode, nbytes, termination)"""
    caps = sorted(set(caps))
    cw = list(prefix or [])
    script = []
    i, n = 0, len(data)
    # we do not know the capacity in advance: build the stream with explicit terminations, then decide the
    # capacity, and finally try to convert the last termination into an implicit one if it fits exactly
    last_explicit = None       # (index in cw of an explicit unlatch that may be dropped, kind)
    while i < n:
        choices = ['Ascii']
        b = data[i]
        if modes & 2:
            choices.append('C40')
        if modes & 4:
            choices.append('Text')
        if modes & 8 and i + 3 <= n and all(x12_value(x) is not None for x in data[i:i + 3]):
            choices.append('X12')
        if modes & 16 and _edifact_ok(b):
            choices.append('Edifact')
        if modes & 32:
            choices.append('Base256')
        if not modes & 1 and len(choices) > 1:
            choices.remove('Ascii')
        mode = rng.choice(choices)
        last_explicit = None
        if mode == 'Ascii':
            k = rng.range(1, min(6, n - i))
            seg = data[i:i + k]
            cw += ascii_items(seg, pair=rng.chance(3, 4))
            script.append(('Ascii', k, 'none'))
            i += k
        elif mode in ('C40', 'Text'):
            k = rng.range(1, min(12, n - i))
            vals = []
            for x in data[i:i + k]:
                vals += c40_values(x, mode == 'Text')
            cw.append(LATCH_CW[mode])
            # complete the last triple with shift values that decode to nothing: one dangling shift prefix,
            # or shift 2 + upper shift (a pending upper shift is dropped at the end of the run)
            if len(vals) % 3 == 2:
                vals += [rng.choice([0, 1, 2])]
            elif len(vals) % 3 == 1:
                vals += [1, 30]
            for t in range(0, len(vals), 3):
                cw += pack3(vals[t:t + 3])
            cw.append(254)
            last_explicit = (len(cw) - 1, 'unlatch')
            script.append((mode, k, 'unlatch'))
            i += k
        elif mode == 'X12':
            k = 3
            while i + k + 3 <= n and all(x12_value(x) is not None for x in data[i + k:i + k + 3]) and rng.chance(2, 3):
                k += 3
            cw.append(238)
            seg = [x12_value(x) for x in data[i:i + k]]
            for t in range(0, k, 3):
                cw += pack3(seg[t:t + 3])
            cw.append(254)
            last_explicit = (len(cw) - 1, 'unlatch')
            script.append(('X12', k, 'unlatch'))
            i += k
        elif mode == 'Edifact':
            k = 1
            while i + k < n and _edifact_ok(data[i + k]) and rng.chance(4, 5):
                k += 1
            cw.append(240)
            vals = [x & 63 for x in data[i:i + k]] + [31]
            while len(vals) % 4:
                vals.append(0)
            # the group holding the unlatch occupies 1, 2, 3, 3 codewords according to its position
            q = k % 4
            bits = []
            for t in range(0, len(vals), 4):
                g = vals[t:t + 4]
                x = (g[0] << 18) | (g[1] << 12) | (g[2] << 6) | g[3]
                bits += [(x >> 16) & 255, (x >> 8) & 255, x & 255]
            keep = (k // 4) * 3 + [1, 2, 3, 3][q]
            cw += bits[:keep]
            script.append(('Edifact', k, 'unlatch%d' % q))
            i += k
        else:
            k = rng.range(1, min(rng.choice([3, 10, 300]), n - i))
            start = len(cw) + 1          # position (1-based) of the latch
            field = ([k] if k <= 249 else [k // 250 + 249, k % 250]) + list(data[i:i + k])
            cw.append(231)
            for x in field:
                cw.append(rand255(x, len(cw) + 1))
            script.append(('Base256', k, 'length'))
            i += k
    expect = list(data)
    # ---- alternative end-of-symbol forms (each only if the stream then ends exactly at a capacity) ----
    form = rng.below(6)
    if form == 0 and len(script) >= 2 and script[-1][0] == 'Ascii' and script[-2][2] == 'unlatch':
        # C40/Text/X12 run, then a single ASCII codeword as the last codeword of the symbol: no unlatch
        tail = ascii_items(data[n - script[-1][1]:])
        if len(tail) == 1 and cw[-2] == 254 and len(cw) - 1 in caps:
            cw = cw[:-2] + tail
            script[-2] = (script[-2][0], script[-2][1], 'implicit-then-ascii')
            return _checked(cw, len(cw), script, expect)
    if form == 1 and script and script[-1][0] == 'Base256' and script[-1][1] <= 249:
        # Base256 field running to the end of the symbol: length 0
        k = script[-1][1]
        if len(cw) in caps:
            pos = len(cw) - k            # position (1-based) of the length codeword
            cw[pos - 1] = rand255(0, pos)
            script[-1] = ('Base256', k, 'to-end')
            return _checked(cw, len(cw), script, expect)
    if form == 2 and modes & 16 and n >= 4:
        # EDIFACT groups of four up to a group boundary with <= 2 codewords left, the rest ASCII, no unlatch
        t = rng.range(0, min(4, n))
        m4 = ((n - t) // 4) * 4
        head, mid, tail = data[:n - t - m4], data[n - t - m4:n - t], data[n - t:]
        if m4 >= 4 and all(_edifact_ok(x) for x in mid):
            c2 = list(prefix or []) + ascii_items(head) + [240]
            for g in range(0, m4, 4):
                v = [x & 63 for x in mid[g:g + 4]]
                x = (v[0] << 18) | (v[1] << 12) | (v[2] << 6) | v[3]
                c2 += [(x >> 16) & 255, (x >> 8) & 255, x & 255]
            ta = ascii_items(tail)
            if len(ta) <= 2:
                for extra in (0, 1, 2):
                    if len(ta) <= extra and len(c2) + extra in caps:
                        out = pad(c2 + ta, len(c2) + extra)
                        return _checked(out, len(out), [('Ascii', len(head), 'none'), ('Edifact', m4, 'end-of-symbol'), ('Ascii', len(tail), 'none')], expect)
    # choose the capacity
    fits = [c for c in caps if c >= len(cw)]
    if last_explicit and rng.chance(1, 2):
        # try the implicit form: drop the final unlatch if the stream then ends exactly at a capacity
        if len(cw) - 1 in caps:
            cw.pop()
            script[-1] = (script[-1][0], script[-1][1], 'implicit')
            return _checked(cw, len(cw), script, data)
    if not fits:
        return None
    cap = fits[0] if rng.chance(3, 4) else rng.choice(fits)
    out = pad(cw, cap)
    # EDIFACT priority rule: a group that starts with <= 2 codewords left in the symbol is read as ASCII, so an
    # EDIFACT run must not be placed there.  Such (and any other ambiguous) shapes are not in Gen: the
    # independent reference decoder is the arbiter.
    return _checked(out, cap, script, data)


def _checked(cw, cap, script, expect):
    rd = refdec.decode(cw)
    if rd['error'] or len(cw) != cap:
        return None
    got = list(rd['data'])
    if rd['macro']:
        got = got[7:-2]
    if got != list(expect):
        return None
    return cw, cap, script


def prefix_data(prefix):
    if prefix and prefix[0] == 236:
        return b''      # macro: the caller compares against the full message itself
    return b''


# ------------------------------------------------------------------ exact search for a given capacity (min_cap oracle)
def best_stream(data, modes, cap, prefix=None, budget=400000):
    """Some legal stream of exactly `cap` codewords for `data` using only enabled modes, or None.
    Reachability over (i, k, state); state: ('A',), ('C', text, v), ('X', v), ('E', q)."""
    n = len(data)
    k0 = len(prefix or [])
    if k0 > cap:
        return None
    ascii_on = bool(modes & 1)
    start = (0, k0, ('A',))
    parent = {start: None}
    todo = [start]
    final = None
    steps = 0

    def push(node, par, emit):
        if node not in parent:
            parent[node] = (par, emit)
            todo.append(node)

    while todo:
        node = todo.pop()
        steps += 1
        if steps > budget:
            return None
        i, k, st = node
        rem = cap - k
        if st[0] == 'A':
            if i == n:
                final = node
                break
            b = data[i]
            # ASCII items (only if ASCII is enabled; otherwise only as the very last codewords of the symbol)
            items = []
            if b < 128:
                items.append((1, [b + 1], 1))
            else:
                items.append((1, [235, b - 127], 2))
            if i + 1 < n and 48 <= b <= 57 and 48 <= data[i + 1] <= 57:
                items.append((2, [130 + (b - 48) * 10 + data[i + 1] - 48], 1))
            for adv, emit, cost in items:
                if cost <= rem and ascii_on:
                    push((i + adv, k + cost, ('A',)), node, emit)
            if rem >= 1:
                if modes & 2:
                    push((i, k + 1, ('C', False, 0)), node, [230])
                if modes & 4:
                    push((i, k + 1, ('C', True, 0)), node, [239])
                if modes & 8 and x12_value(b) is not None:
                    push((i, k + 1, ('X', 0)), node, [238])
                if modes & 16 and _edifact_ok(b):
                    push((i, k + 1, ('E', ())), node, [240])
                if modes & 32:
                    # Base256 run of j bytes with explicit length, or to the end of the symbol
                    for j in range(1, n - i + 1):
                        lf = 1 if j <= 249 else 2
                        if j > 1555 or k + 1 + lf + j > cap:
                            break
                        pos = k + 2
                        field = ([j] if j <= 249 else [j // 250 + 249, j % 250]) + list(data[i:i + j])
                        push((i + j, k + 1 + lf + j, ('A',)), node, [231] + [rand255(x, pos + t) for t, x in enumerate(field)])
                    j = n - i
                    if k + 2 + j == cap:
                        field = [0] + list(data[i:])
                        push((n, cap, ('A',)), node, [231] + [rand255(x, k + 2 + t) for t, x in enumerate(field)])
        elif st[0] == 'C':
            _, text, pend = st           # pend = tuple of values not yet packed (0..2 of them)
            pend = list(pend) if isinstance(pend, tuple) else []
            if not pend:
                # leave the mode: explicit unlatch, implicit at the end of the symbol, or one ASCII codeword left
                if rem >= 1:
                    push((i, k + 1, ('A',)), node, [254])
                if rem == 0 and i == n:
                    push((i, k, ('A',)), node, [])
                if rem == 1 and ascii_on:
                    push((i, k, ('A',)), node, [])
            else:
                # complete the triple with shift values that decode to nothing
                if rem >= 2:
                    fill = pend + [0] if len(pend) == 2 else pend + [1, 30]
                    push((i, k + 2, ('C', text, ())), node, pack3(fill))
            if i < n:
                vals = pend + c40_values(data[i], text)
                emit, kk = [], k
                while len(vals) >= 3 and kk + 2 <= cap:
                    emit += pack3(vals[:3])
                    vals = vals[3:]
                    kk += 2
                if len(vals) < 3:
                    push((i + 1, kk, ('C', text, tuple(vals))), node, emit)
        elif st[0] == 'X':
            v = st[1]
            if rem >= 1:
                push((i, k + 1, ('A',)), node, [254])
            if (rem == 0 and i == n) or (rem == 1 and ascii_on):
                push((i, k, ('A',)), node, [])
            if i + 3 <= n and rem >= 2 and all(x12_value(x) is not None for x in data[i:i + 3]):
                push((i + 3, k + 2, ('X', 0)), node, pack3([x12_value(x) for x in data[i:i + 3]]))
        elif st[0] == 'E':
            grp = list(st[1])
            if not grp:
                if rem <= 2:
                    # priority rule: at a group boundary with <= 2 codewords left the rest is ASCII
                    push((i, k, ('A',)), node, [])
                    continue
            # unlatch inside the group
            q = len(grp)
            need = [1, 2, 3, 3][q]
            vals = grp + [31] + [0] * (3 - q)
            x = (vals[0] << 18) | (vals[1] << 12) | (vals[2] << 6) | vals[3]
            bytes3 = [(x >> 16) & 255, (x >> 8) & 255, x & 255][:need]
            if need <= rem:
                push((i, k + need, ('A',)), node, bytes3)
            if i < n and _edifact_ok(data[i]):
                g2 = grp + [data[i] & 63]
                if len(g2) == 4:
                    if rem >= 3:
                        x = (g2[0] << 18) | (g2[1] << 12) | (g2[2] << 6) | g2[3]
                        push((i + 1, k + 3, ('E', ())), node, [(x >> 16) & 255, (x >> 8) & 255, x & 255])
                else:
                    push((i + 1, k, ('E', tuple(g2))), node, [])
    if final is None:
        return None
    # reconstruct
    chunks = []
    node = final
    while parent[node] is not None:
        par, emit = parent[node]
        chunks.append(emit)
        node = par
    cw = list(prefix or [])
    for e in reversed(chunks):
        cw += e
    if len(cw) > cap:
        return None
    return pad(cw, cap)


def _ascii_finishes(data, i, rem):
    """can the rest of the data from i be written in at most `rem` ASCII codewords?"""
    return len(ascii_items(data[i:])) <= rem


def ab_bound(data):
    """length of a shortest stream that uses only ASCII codewords and Base256 fields with explicit length (an upper bound
    for the minimal length whenever both modes are enabled); O(n^2)"""
    n = len(data)
    INF = 10 ** 9
    A = [INF] * (n + 1)
    A[0] = 0
    for i in range(1, n + 1):
        b = data[i - 1]
        best = A[i - 1] + (1 if b < 128 else 2)
        if i >= 2 and 48 <= data[i - 2] <= 57 and 48 <= b <= 57:
            best = min(best, A[i - 2] + 1)
        lo = max(0, i - 1555)
        for j in range(lo, i):
            ln = i - j
            c = A[j] + 1 + (1 if ln <= 249 else 2) + ln
            if c < best:
                best = c
        A[i] = best
    return A[n]
