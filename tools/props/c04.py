"""C04 -- the decoder accepts every standard-conformant codeword stream."""
import common
import gen
import refenc
import refdec
from vlib import fmt_list

PID = 'C04'
RULE = ('streams produced by the independent nondeterministic reference encoder tools/props/refenc.py: random segmentation of the '
        "byte string into mode runs (not the crate's own optimiser), random shift fillers, every termination form (explicit unlatch; run "
        'ending exactly at the symbol boundary; one trailing ASCII codeword; EDIFACT unlatch in each of the four positions and the '
        '<= 2 trailing ASCII codewords rule; Base256 with 1-/2-byte length and running to the end of the symbol), Macro 05/06 and FNC1 '
        'prefixes, padding to a real symbol capacity; every stream is first validated by the independent decoder refdec.py; '
        'non-trivial = stream with at least one non-ASCII run')
THEOREMS = 'C04_ascii_base256, C04_randomisers'
ASSUMPTIONS = ['refenc.py / refdec.py are independent readings of ISO/IEC 16022 5.2 (each stream is accepted by both before use)']


def gen_cases(rng, tier, ctx):
    caps = sorted(set(r['data'] for r in common.spec_by_index()))
    cs = []
    n = 4000 if tier == 'quick' else 80000
    tries = 0
    while len(cs) < n and tries < 3 * n:
        tries += 1
        L = rng.below(30) if rng.chance(5, 6) else rng.range(30, 400)
        d = gen.rand_bytes(rng, L)
        modes = 63 if rng.chance(1, 2) else gen.rand_modes(rng)
        pk = rng.below(8)
        prefix = [236] if pk == 0 else [237] if pk == 1 else [232] if pk == 2 else [236, 232] if pk == 3 and False else None
        r = refenc.random_stream(rng, d, caps, modes, prefix)
        if r is None:
            continue
        cw, cap, script = r
        exp = list(d)
        if prefix and prefix[0] in (236, 237):
            exp = (gen.H05 if prefix[0] == 236 else gen.H06) + exp + gen.TRAIL
        cs.append({'line': 'decode_data %s' % fmt_list(cw), 'cat': 'gen-' + (script[-1][0] + '-' + script[-1][2] if script else 'empty'),
                   'expect': exp, 'nonascii': any(m != 'Ascii' for m, _, _ in script)})
    return cs


def check_impl(c, out, ctx, prof):
    want = 'ok ' + fmt_list(c['expect'])
    if out != want:
        return 'decode_data returns %s, the stream encodes %s' % (out[:80], want[:80])
    return None


def nontrivial(c, out):
    return c['nonascii']


def search(ctx, rng, budget, diffs):
    import enccommon
    return enccommon.generic_search(__import__('c04'), ctx, rng)
