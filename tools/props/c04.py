"""C04 -- the decoder accepts every standard-conformant codeword stream."""
import common
import gen
import refenc
import refdec
from vlib import fmt_list

PID = 'C04'
RULE = ('streams produced by the independent nondeterministic reference encoder tools/props/refenc.py: random segmentation of the '
        "byte string into mode runs (not the crate's own optimiser), random shift fillers, every termination form (explicit unlatch; run "
        'ending exactly at the symbol boundary; one trailing ASCII codeword; EDIFACT unlatch in each of the four positions and the '
        '<= 2 trailing ASCII codewords rule; Base256 with 1-/2-byte length and running to the end of the symbol), Macro 05/06 and FNC1 '
        'prefixes, padding to a real symbol capacity; every stream is first validated by the independent decoder refdec.py; '
        'non-trivial = stream with at least one non-ASCII run; long streams of one kind (lengths around 16, 64, 256, 1024; to 1500 thorough) with one character of another kind at the power-of-two offsets; plus constructed streams on the decoder\'s constants: Base256 fields of 0,1,2,248..252,499..501,750,1000,1500,1554,1555 bytes with explicit length or running to the end, between ASCII runs; and the end-of-symbol forms (EDIFACT groups with one or two codewords left, C40/Text/X12 triples with one codeword left) with EVERY ASCII character, digit-pair and pad codeword as the tail')
THEOREMS = 'C04_scripts, C04_macro05, C04_macro06, C04_fnc1, C04_randomisers, C04_c40_tables'
ASSUMPTIONS = ['refenc.py / refdec.py are independent readings of ISO/IEC 16022 5.2 (each stream is accepted by both before use)']


def gen_cases(rng, tier, ctx):
    caps = sorted(set(r['data'] for r in common.spec_by_index()))
    cs = []
    n = 4000 if tier == 'quick' else 80000
    tries = 0
    while len(cs) < n and tries < 3 * n:
        tries += 1
        L = rng.below(30) if rng.chance(5, 6) else rng.range(30, 400)
        d = gen.rand_bytes(rng, L)
        modes = 63 if rng.chance(1, 2) else gen.rand_modes(rng)
        pk = rng.below(8)
        prefix = [236] if pk == 0 else [237] if pk == 1 else [232] if pk == 2 else [236, 232] if pk == 3 and False else None
        r = refenc.random_stream(rng, d, caps, modes, prefix)
        if r is None:
            continue
        cw, cap, script = r
        exp = list(d)
        if prefix and prefix[0] in (236, 237):
            exp = (gen.H05 if prefix[0] == 236 else gen.H06) + exp + gen.TRAIL
        cs.append({'line': 'decode_data %s' % fmt_list(cw), 'cat': 'gen-' + (script[-1][0] + '-' + script[-1][2] if script else 'empty'),
                   'expect': exp, 'nonascii': any(m != 'Ascii' for m, _, _ in script)})
    cs += constant_streams(rng, tier)
    cs += tail_streams(rng, tier)
    cs += uniform_long_streams(rng, tier, caps)
    return cs


def uniform_long_streams(rng, tier, caps):
    """long streams of one kind (ASCII letters, digit pairs, one Base256 field, C40 / Text / X12 / EDIFACT runs) whose lengths lie
    around the powers of two, with one character of another kind at the start, the end, a power-of-two offset or anywhere:
    the inputs on which a block-wise or table-driven fast path of the decoder would differ from the per-codeword reading"""
    out = []
    lens = [15, 16, 17, 63, 64, 65, 255, 256, 257, 1023, 1024, 1025] if tier == 'quick' else \
        [15, 16, 17, 31, 32, 33, 63, 64, 65, 127, 128, 129, 255, 256, 257, 511, 512, 513, 767, 1023, 1024, 1025, 1300, 1500]
    odd = [0, 10, 31, 32, 48, 57, 65, 97, 127, 128, 159, 160, 200, 255]
    for kind, modes in (('c40', 1), ('digits', 1), ('high', 32), ('c40', 2), ('text', 4), ('x12', 8), ('edifact', 16), ('c40', 63)):
        for L in lens:
            base = [rng.choice(gen.ALPH[kind]) for _ in range(L)]
            variants = [base]
            for posn in (0, L - 1, 15, 16, 63, 64, 255, 256, 1023, 1024, rng.below(L)):
                if posn < L and (tier != 'quick' or rng.chance(1, 4)):
                    v = list(base)
                    v[posn] = rng.choice(odd)
                    variants.append(v)
            for v in variants:
                r = refenc.random_stream(rng, v, caps, modes if modes in (1, 32, 63) else modes | 1, None)
                if r is None:
                    continue
                cw, cap, script = r
                out.append({'line': 'decode_data %s' % fmt_list(cw), 'cat': 'uniform-long-' + kind, 'expect': list(v),
                            'nonascii': any(m != 'Ascii' for m, _, _ in script)})
    return out


def constant_streams(rng, tier):
    """streams on the constants of the decoder: Base256 fields of the lengths where the length field changes form, with
    explicit length or running to the end, between ASCII runs; built directly from the standard"""
    caps = sorted(set(r['data'] for r in common.spec_by_index()))
    out = []
    lens = [0, 1, 2, 248, 249, 250, 251, 252, 499, 500, 501, 750, 1000, 1500, 1554, 1555]
    if tier != 'quick':
        lens += [253, 498, 502, 749, 751, 999, 1001, 1249, 1250, 1251, 1499, 1501, 1553]
    for L in lens:
        for pre, post in (([], []), ([75], [101, 110, 100]), ([49, 50], [])):
            for explicit in (True, False):
                if L == 0 and explicit:
                    continue
                body = [rng.below(256) for _ in range(L)]
                cw = refenc.ascii_items(pre)
                cw.append(231)
                field = ([L] if L < 250 else [L // 250 + 249, L % 250]) if explicit else [0]
                for v in field + body:
                    cw.append(refenc.rand255(v, len(cw) + 1))
                exp = pre + body
                if explicit:
                    cw += refenc.ascii_items(post)
                    exp = exp + post
                    fits = [c for c in caps if c >= len(cw)]
                    if not fits:
                        continue
                    cw = refenc.pad(cw, fits[0] if rng.chance(1, 2) else len(cw))
                elif len(cw) > 1558:
                    continue
                r = refdec.decode(cw)
                if r['error'] or list(r['data']) != exp:
                    continue        # not a stream both independent readings agree on
                out.append({'line': 'decode_data %s' % fmt_list(cw), 'cat': 'b256-length-' + ('explicit' if explicit else 'to-end'),
                            'expect': exp, 'nonascii': True})
    return out


def tail_streams(rng, tier):
    """the end-of-symbol forms with EVERY possible ASCII tail: EDIFACT groups ending with one or two codewords left in
    the symbol (read as ASCII, no unlatch), C40 / Text / X12 triples ending with one codeword left -- the tail codeword
    sweeps every ASCII character codeword, every digit-pair codeword and the pad; built directly from the standard and
    kept only where the independent decoder refdec.py reads the same bytes"""
    caps = sorted(set(r['data'] for r in common.spec_by_index()))
    out = []

    def ascii_val(c):
        return [c - 1] if c <= 128 else [48 + (c - 130) // 10, 48 + (c - 130) % 10]

    def emit(pre, latch, body_cw, body_exp, tail, cat):
        # ASCII codewords in front so that the stream ends exactly at a symbol capacity
        need = len(pre) + 1 + len(body_cw) + len(tail)
        fits = [c for c in caps if c >= need]
        if not fits or fits[0] - need > 6:
            return
        filler = [66] * (fits[0] - need)
        cw = filler + pre + [latch] + body_cw + tail
        exp = [65] * len(filler) + [c - 1 for c in pre] + body_exp
        for k, c in enumerate(tail):
            if c == 129:
                # a pad: everything after it must be (randomised) padding
                cw = cw[:len(cw) - len(tail) + k]
                cw = refenc.pad(cw, fits[0])
                break
            exp = exp + ascii_val(c)
        r = refdec.decode(cw)
        if r['error'] or list(r['data']) != exp:
            return
        out.append({'line': 'decode_data %s' % fmt_list(cw), 'cat': cat, 'expect': exp, 'nonascii': True})
    firsts = list(range(1, 130)) + list(range(130, 230))
    seconds = [66, 124, 129, 142] if tier == 'quick' else [1, 33, 66, 124, 125, 128, 129, 130, 142, 229]
    for groups in ((1, 2) if tier == 'quick' else (1, 2, 3, 5)):
        chars = [rng.choice(gen.ALPH['edifact']) for _ in range(4 * groups)]
        body = []
        for g in range(0, len(chars), 4):
            v = [x & 63 for x in chars[g:g + 4]]
            x = (v[0] << 18) | (v[1] << 12) | (v[2] << 6) | v[3]
            body += [(x >> 16) & 255, (x >> 8) & 255, x & 255]
        for c1 in firsts:
            emit([], 240, body, chars, [c1], 'tail-edifact-1')
            for c2 in seconds:
                emit([], 240, body, chars, [c1, c2], 'tail-edifact-2')
    for latch, alph, text in ((230, gen.ALPH['c40'], False), (239, gen.ALPH['text'], True), (238, gen.ALPH['x12'], None)):
        for triples in ((1, 2) if tier == 'quick' else (1, 2, 3, 4)):
            chars = [rng.choice(alph) for _ in range(3 * triples)]
            vals = [refenc.x12_value(c) for c in chars] if text is None else sum((refenc.c40_values(c, text) for c in chars), [])
            if len(vals) != len(chars):
                continue
            body = sum((refenc.pack3(vals[i:i + 3]) for i in range(0, len(vals), 3)), [])
            for c1 in firsts:
                emit([], latch, body, chars, [c1], 'tail-%d-1' % latch)
    return out


def check_impl(c, out, ctx, prof):
    want = 'ok ' + fmt_list(c['expect'])
    if out != want:
        return 'decode_data returns %s, the stream encodes %s' % (out[:80], want[:80])
    return None


def nontrivial(c, out):
    return c['nonascii']


def search(ctx, rng, budget, diffs):
    import enccommon
    return enccommon.generic_search(__import__('c04'), ctx, rng)
