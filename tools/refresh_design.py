#!/usr/bin/env python3
"""Rewrites the generated tables of DESIGN.md (S.5 seed table, S.6 development map) between their markers."""
import os, re, subprocess
ROOT = os.path.dirname(os.path.dirname(os.path.abspath(__file__)))
p = os.path.join(ROOT, 'DESIGN.md')
s = open(p, encoding='utf-8').read()
for tag, tool in (('SEEDTABLE', 'seedtable.py'), ('DEVMAP', 'devmap.py')):
    out = subprocess.check_output(['python3', os.path.join(ROOT, 'tools', tool)], text=True)
    s = re.sub(r'<!-- %s-BEGIN -->\n.*?<!-- %s-END -->' % (tag, tag), lambda m: '<!-- %s-BEGIN -->\n%s<!-- %s-END -->' % (tag, out, tag), s, flags=re.S)
open(p, 'w', encoding='utf-8').write(s)
print('DESIGN.md tables refreshed')
