"""runner.py -- the generic check protocol of DESIGN.md section 7 for one property."""
import importlib
import json
import os
import sys
import time

import vlib
from vlib import Broken, log


class Ctx:
    def __init__(self, pid, tier, seed):
        self.pid, self.tier, self.seed = pid, tier, seed
        self.harness = {}
        self.driver = None
        self.stats = {}
        self.impl_opts = {}

    def impl(self, lines, profile='debug', shards=vlib.NCPU):
        if profile not in self.harness:
            self.harness[profile] = vlib.build_harness(profile)
        return vlib.run_lines(self.harness[profile], lines, shards=shards, **self.impl_opts)

    def model(self, lines, shards=vlib.NCPU):
        if self.driver is None:
            self.driver = vlib.build_driver()
        return vlib.run_lines(self.driver, lines, shards=shards)


def run(pid, tier, seed):
    t0 = time.time()
    sys.path.insert(0, os.path.join(vlib.VERIF, 'tools', 'props'))
    mod = importlib.import_module(pid.lower())
    ctx = Ctx(pid, tier, seed)
    ctx.impl_opts = dict(getattr(mod, 'IMPL_OPTS', {}))
    # no quick check needs more than a few minutes of implementation time per shard on the unchanged tree: a tree on which the cases
    # crawl is reported (unanswered cases are abnormal answers) instead of being waited for
    ctx.impl_opts.setdefault('deadline', 600 if tier == 'quick' else None)
    rng = vlib.Rng(seed)
    broken = []          # proof obligations / tie that no longer check
    violations = []      # concrete failing inputs: dict(case=..., why=..., impl=...)
    obligations = discharged = 0
    axioms = []
    notes = []

    # 1-2. regenerate tables, re-check the theorems and their assumptions
    try:
        vlib.regenerate()
        vlib.coq_make(getattr(mod, 'COQ_TARGETS', ['Properties/%s.vo' % pid]))
        vlib.audit_sources()
        n, axioms, _ = vlib.check_property_file(pid)
        obligations = discharged = n
        for extra in getattr(mod, 'EXTRA_PROPERTY_FILES', []):
            n2, ax2, _ = vlib.check_property_file(extra)
            obligations += n2
            discharged += n2
            axioms = sorted(set(axioms) | set(ax2))
        if tier == 'thorough' and getattr(mod, 'COQCHK', True):
            ax, dt = vlib.coqchk(pid)
            notes.append('coqchk -o: axioms %s (%.0fs)' % (ax, dt))
    except Broken as b:
        broken.append(b)
        try:
            names = vlib.strip_coq_comments(open(os.path.join(vlib.COQ, 'Properties', pid + '.v')).read())
            import re
            obligations = max(obligations, len(re.findall(r'^\s*Print Assumptions', names, re.M)))
        except Exception:
            obligations = max(obligations, 1)
        discharged = 0

    # 3. build the implementation from the working tree
    impl_ok = True
    try:
        for prof in getattr(mod, 'PROFILES', ['debug']):
            ctx.harness[prof] = vlib.build_harness(prof)
    except Broken as b:
        broken.append(b)
        impl_ok = False

    # model driver
    model_ok = True
    try:
        ctx.driver = vlib.build_driver()
    except Broken as b:
        broken.append(b)
        model_ok = False

    # 4. correspondence + the property's direct oracle on the implementation
    cases = []
    n_cmp = n_diff = n_abnormal = 0
    abnormal_cases = []
    cats = {}
    samples = []
    nontrivial = set()
    first_diffs = []
    known = vlib.known_findings(pid)
    known_hits = {}
    if impl_ok:
        cases = mod.gen_cases(rng, tier, ctx)
        lines = [c['line'] for c in cases]
        for prof in getattr(mod, 'PROFILES', ['debug']):
            impl_out = ctx.impl(lines, prof)
            # oracle inputs of the model (e.g. the implementation's sort order) come from the implementation's answer
            mlines = [mod.model_line(c, io) for c, io in zip(cases, impl_out)] if hasattr(mod, 'model_line') else lines
            model_out = ctx.model(mlines) if model_ok else [None] * len(lines)
            for c, io, mo in zip(cases, impl_out, model_out):
                cats[c['cat']] = cats.get(c['cat'], 0) + 1
                exp_impl = (mod.canon_impl_case(c, io) if hasattr(mod, 'canon_impl_case')
                            else mod.canon_impl(io) if hasattr(mod, 'canon_impl') else io)
                if mo is not None:
                    n_cmp += 1
                    mo2 = (mod.canon_model_case(c, mo, prof) if hasattr(mod, 'canon_model_case')
                           else mod.canon_model(mo, prof) if hasattr(mod, 'canon_model') else mo)
                    if exp_impl != mo2:
                        n_diff += 1
                        if len(first_diffs) < 5:
                            first_diffs.append({'case': c['line'], 'impl': io[:2000], 'model': mo[:2000], 'profile': prof})
                abnormal = io in ('timeout', 'not-run') or io.startswith('crash')
                if abnormal:
                    n_abnormal += 1
                    if len(abnormal_cases) < 5:
                        abnormal_cases.append({'case': c['line'][:6000], 'impl': io, 'profile': prof})
                if abnormal and not getattr(mod, 'HANDLES_ABNORMAL', False):
                    why = None
                else:
                    why = mod.check_impl(c, io, ctx, prof) if hasattr(mod, 'check_impl') else None
                if why:
                    kf = match_known(known, c, why)
                    if kf is None and hasattr(mod, 'classify'):
                        kid = mod.classify(c, io, why)
                        kf = next((f for f in known if f.get('id') == kid), None) if kid else None
                    if kf:
                        known_hits[kf['id']] = known_hits.get(kf['id'], 0) + 1
                    else:
                        violations.append({'case': c['line'], 'why': why, 'impl': io[:2000], 'profile': prof})
                if mod.nontrivial(c, io) if hasattr(mod, 'nontrivial') else True:
                    nontrivial.add(c['line'])
                if len(samples) < 6 and (len(samples) < 2 or c['cat'] not in [s['cat'] for s in samples]):
                    samples.append({'cat': c['cat'], 'case': c['line'][:300], 'impl': io[:300]})
        if n_abnormal and not violations:
            broken.append(Broken('the implementation run did not complete on %d cases (timeout or crash of the harness process)' % n_abnormal,
                                 json.dumps(abnormal_cases, indent=1)))
        if n_diff:
            broken.append(Broken('correspondence: model and implementation differ on %d of %d cases' % (n_diff, n_cmp),
                                 json.dumps(first_diffs, indent=1)))
    # known findings are replayed every run
    kf_lines = []
    if impl_ok and hasattr(mod, 'replay_known'):
        for f in known:
            still = mod.replay_known(f, ctx)
            kf_lines.append((f, still))

    # 5. something broke and no concrete failing input yet: search for one
    searched = False
    # (not when the implementation left cases unanswered: the search would run into the same hangs; the unanswered cases are named in the replay)
    if broken and not violations and impl_ok and hasattr(mod, 'search') and not n_abnormal:
        searched = True
        budget = 60 if tier == 'quick' else 600
        try:
            found = mod.search(ctx, vlib.Rng(seed + 1), budget, first_diffs)
        except Broken as b:
            found = []
            broken.append(b)
        for v in found:
            kf = match_known(known, {'line': v['case']}, v['why'])
            if kf is None and hasattr(mod, 'classify'):
                kid = mod.classify({'line': v['case']}, v.get('impl', ''), v['why'])
                kf = next((f for f in known if f.get('id') == kid), None) if kid else None
            if not kf:
                violations.append(v)

    # 6. report
    wall = time.time() - t0
    exit_code = 0
    for f, still in kf_lines:
        if still:
            log('KNOWN-FINDING: property=%s %s' % (pid, f['what']))
        else:
            log('note: known finding %s of %s no longer reproduces' % (f['id'], pid))
    if violations:
        exit_code = 1
        for v in violations[:3]:
            path = vlib.write_replay(pid, seed, {'kind': 'failing-input', 'case': v['case'], 'why': v['why'],
                                                'impl': v.get('impl'), 'profile': v.get('profile', 'debug'),
                                                'broken': [b.what for b in broken]})
            log('VIOLATION property=%s replay=%s' % (pid, path))
    elif broken:
        exit_code = 1
        path = vlib.write_replay(pid, seed, {'kind': 'obligation', 'broken': [{'what': b.what, 'detail': b.detail[-3000:]} for b in broken],
                                            'searched': searched})
        for b in broken:
            log('broken: ' + b.what)
        log('VIOLATION property=%s replay=%s no-failing-input-found' % (pid, path))

    coverage = {
        'obligations': max(obligations, 1), 'discharged': discharged,
        'checker_cmd': 'make -C coq Properties/%s.vo && coqc -Q coq DM coq/Properties/%s.v (Print Assumptions audit)%s'
                       % (pid, pid, ' && coqchk -o' if tier == 'thorough' else ''),
        'trusted_base': vlib.TRUSTED_BASE,
        'axioms_reported': axioms,
        'traces_validated_against_impl': n_cmp,
        'correspondence_differences': n_diff,
        'evaluations': len(cases) * len(getattr(mod, 'PROFILES', ['debug'])),
        'distinct_nontrivial': len(nontrivial),
        'rule': getattr(mod, 'RULE', ''),
        'case_categories': cats,
        'samples': samples or [{'note': 'no cases run'}],
        'known_findings_reproduced': known_hits,
        'broken': [b.what for b in broken],
        'notes': notes + getattr(mod, 'NOTES', []),
        'theorems': getattr(mod, 'THEOREMS', ''),
    }
    coverage.update(ctx.stats)
    vlib.write_evidence(pid, tier, seed, coverage, getattr(mod, 'ASSUMPTIONS', []), wall, len(violations),
                        level=getattr(mod, 'LEVEL', 'proof'))
    log('%s %s: obligations %d/%d, correspondence %d cases (%d differ), violations %d, %.1fs'
        % (pid, tier, discharged, obligations, n_cmp, n_diff, len(violations), wall))
    return exit_code


def match_known(known, case, why):
    for f in known:
        pat = f.get('case_prefix')
        if pat is not None and case['line'].startswith(pat):
            return f
        if f.get('case') == case['line']:
            return f
    return None
