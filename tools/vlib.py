"""vlib.py -- shared machinery of ./vcheck (see DESIGN.md section 7)."""
import glob
import hashlib
import json
import os
import re
import subprocess
import sys
import time

VERIF = os.path.dirname(os.path.dirname(os.path.abspath(__file__)))
REPO = os.environ.get('VERIF_REPO', '/repo')
COQ = os.path.join(VERIF, 'coq')
WORK = os.path.join(VERIF, '.work')
OCAML_WORK = os.path.join(WORK, 'ocaml')
HARNESS = os.path.join(VERIF, 'harness')
TARGET = os.path.join(WORK, 'target')
EVIDENCE = os.path.join(VERIF, 'evidence')
REPLAY = os.path.join(VERIF, 'replay')
NCPU = 16

ENV = dict(os.environ)
ENV['CARGO_NET_OFFLINE'] = 'true'
ENV.pop('RUSTFLAGS', None)  # harness/.cargo/config.toml sets --cfg datamatrix_verif

# axioms of the Coq standard library that may appear under Print Assumptions (DESIGN.md section 8).
# The development is intended to be axiom free; anything listed here is named in the trusted base.
AXIOM_ALLOW = set()

FORBIDDEN = re.compile(
    r'\b(Admitted|admit|Axiom|Axioms|Parameter|Parameters|Conjecture|Conjectures|Abort All|'
    r'Admit Obligations|bypass_check|Unset Guard Checking|Unset Positivity Checking|'
    r'Unset Universe Checking|type-in-type|impredicative-set|native_compute)\b')


class Broken(Exception):
    """A proof obligation or the tie no longer checks (not by itself a violation)."""

    def __init__(self, what, detail=''):
        Exception.__init__(self, what)
        self.what = what
        self.detail = detail


def sh(cmd, cwd=None, timeout=600, inp=None, env=None):
    t0 = time.time()
    try:
        p = subprocess.run(cmd, cwd=cwd, timeout=timeout, input=inp, env=env or ENV,
                           stdout=subprocess.PIPE, stderr=subprocess.STDOUT, text=True,
                           shell=isinstance(cmd, str))
        return p.returncode, p.stdout, time.time() - t0
    except subprocess.TimeoutExpired as ex:
        out = ex.stdout if isinstance(ex.stdout, str) else (ex.stdout or b'').decode('utf-8', 'replace')
        return 124, (out or '') + '\n[timeout after %ss]' % timeout, time.time() - t0


def log(msg):
    sys.stdout.write(msg.rstrip('\n') + '\n')
    sys.stdout.flush()


# ---------------------------------------------------------------------------
# step 1: regenerate tables from the source

def regenerate():
    rc, out, _ = sh([sys.executable, os.path.join(VERIF, 'tools', 'rs2v.py'), REPO,
                     os.path.join(COQ, 'Generated')], timeout=120)
    if rc != 0:
        raise Broken('translator refused a construct of the current source', out.strip())
    return out


# ---------------------------------------------------------------------------
# step 2: proof obligations

def coq_project_files():
    files = []
    for d in ['Generated', 'Spec', 'Model', 'Proofs', 'Properties', 'Extract']:
        files += sorted(glob.glob(os.path.join(COQ, d, '*.v')))
    return [os.path.relpath(f, COQ) for f in files]


def ensure_makefile():
    files = coq_project_files()
    proj = '-Q . DM\n' + '\n'.join(f for f in files if not f.startswith('Extract/')) + '\n'
    pp = os.path.join(COQ, '_CoqProject')
    old = open(pp).read() if os.path.exists(pp) else None
    mk = os.path.join(COQ, 'Makefile')
    if old != proj or not os.path.exists(mk):
        open(pp, 'w').write(proj)
        rc, out, _ = sh(['coq_makefile', '-f', '_CoqProject', '-o', 'Makefile'], cwd=COQ)
        if rc != 0:
            raise Broken('coq_makefile failed', out)


def coq_make(targets, timeout=1500):
    ensure_makefile()
    rc, out, dt = sh(['make', '-j%d' % NCPU] + targets, cwd=COQ, timeout=timeout)
    if rc != 0:
        m = re.search(r'File "\./([^"]+)", line (\d+).*?\n(Error:.*?)(?:\n\n|\Z)', out, re.S)
        where = ('%s:%s %s' % (m.group(1), m.group(2), m.group(3).strip()[:400])) if m else out[-800:]
        raise Broken('Coq build failed: ' + where, out[-4000:])
    return dt


def audit_sources():
    """No Admitted/Axiom/... anywhere in the development; Variable/Hypothesis only inside sections."""
    bad = []
    for f in coq_project_files():
        depth = 0
        text = open(os.path.join(COQ, f), encoding='utf-8').read()
        text_nc = strip_coq_comments(text)
        for ln, line in enumerate(text_nc.split('\n'), 1):
            if FORBIDDEN.search(line):
                bad.append('%s:%d: %s' % (f, ln, line.strip()[:100]))
            if re.match(r'\s*Section\b', line):
                depth += 1
            elif re.match(r'\s*End\b', line) and depth > 0:
                depth -= 1
            elif depth == 0 and re.match(r'\s*(Variable|Variables|Hypothesis|Hypotheses|Context)\b', line):
                bad.append('%s:%d: %s outside a section' % (f, ln, line.strip()[:60]))
    if bad:
        raise Broken('forbidden construct in the Coq development', '\n'.join(bad))


def strip_coq_comments(s):
    out, depth, i, n = [], 0, 0, len(s)
    while i < n:
        if s.startswith('(*', i):
            depth += 1
            i += 2
        elif s.startswith('*)', i) and depth > 0:
            depth -= 1
            i += 2
        else:
            if depth == 0:
                out.append(s[i])
            elif s[i] == '\n':
                out.append('\n')
            i += 1
    return ''.join(out)


def check_property_file(pid):
    """Compile Properties/<pid>.v (always, it is small) and audit its Print Assumptions output.
    Returns (n_theorems, axioms_used:list, seconds)."""
    src = os.path.join(COQ, 'Properties', pid + '.v')
    text = strip_coq_comments(open(src, encoding='utf-8').read())
    names = re.findall(r'^\s*(?:Theorem|Lemma)\s+(\w+)', text, re.M)
    printed = re.findall(r'^\s*Print Assumptions\s+(\w+)\s*\.', text, re.M)
    missing = [n for n in names if n not in printed]
    if missing:
        raise Broken('Properties/%s.v: theorems without Print Assumptions: %s' % (pid, missing))
    rc, out, dt = sh(['coqc', '-Q', '.', 'DM', os.path.join('Properties', pid + '.v')], cwd=COQ, timeout=1200)
    if rc != 0:
        raise Broken('Properties/%s.v no longer compiles' % pid, out[-3000:])
    closed = out.count('Closed under the global context')
    axioms = []
    for blk in re.findall(r'Axioms:\n((?:.+\n?)+?)(?=\n\S|\Z)', out):
        for m in re.finditer(r'^(\S+)\s*:', blk, re.M):
            axioms.append(m.group(1))
    nblocks = closed + len(re.findall(r'^Axioms:', out, re.M))
    if nblocks != len(printed):
        raise Broken('Properties/%s.v: %d Print Assumptions but %d reports' % (pid, len(printed), nblocks), out[-2000:])
    notallowed = sorted(set(a for a in axioms if a not in AXIOM_ALLOW))
    if notallowed:
        raise Broken('Properties/%s.v depends on axioms outside the allow-list: %s' % (pid, notallowed), out[-2000:])
    return len(printed), sorted(set(axioms)), dt


def coqchk(pid, timeout=900):
    """independent re-check of the compiled property file and everything it depends on.  The checker re-evaluates the
    kernel sweeps with its own (slow) conversion; for the files with large sweeps this can take longer than the budget.
    Running out of time is reported in the evidence notes and is not a failure (coqc's kernel has accepted the proofs
    in this very run); an error or an unexpected axiom is."""
    rc, out, dt = sh(['coqchk', '-silent', '-o', '-Q', '.', 'DM', 'DM.Properties.' + pid], cwd=COQ, timeout=timeout)
    if rc == 124:
        return 'not completed within %ds (skipped)' % timeout, dt
    if rc != 0:
        raise Broken('coqchk failed on Properties/%s' % pid, out[-2000:])
    m = re.search(r'\* Axioms:\s*(.*?)\n\s*\n', out + '\n\n', re.S)
    ax = m.group(1).strip() if m else '?'
    if '<none>' not in ax:
        names = [x.strip() for x in ax.split('\n') if x.strip()]
        notallowed = [a for a in names if a.split('.')[-1] not in AXIOM_ALLOW]
        if notallowed:
            raise Broken('coqchk reports axioms: %s' % notallowed, out[-2000:])
    return ax, dt


# ---------------------------------------------------------------------------
# step 3/4: build implementation harness and model driver

def build_harness(profile='debug'):
    lock = os.path.join(HARNESS, 'Cargo.lock')
    src_lock = os.path.join(REPO, 'Cargo.lock')
    if os.path.exists(src_lock):
        a = open(src_lock).read()
        if not os.path.exists(lock):
            open(lock, 'w').write(a)
    cmd = ['cargo', 'build', '--offline', '--quiet'] + (['--release'] if profile == 'release' else [])
    rc, out, dt = sh(cmd, cwd=HARNESS, timeout=1200)
    if rc != 0:
        raise Broken('the harness no longer builds against the current source (%s)' % profile, out[-3000:])
    return os.path.join(TARGET, profile, 'dmverif-harness')


def _stamp(paths):
    h = hashlib.sha256()
    for p in paths:
        h.update(p.encode())
        h.update(open(p, 'rb').read())
    return h.hexdigest()


def build_driver():
    """Extract the model to OCaml (ExtrOcamlBasic only) and build the driver; cached on content."""
    os.makedirs(OCAML_WORK, exist_ok=True)
    coq_make(['Extract/deps'] if False else model_vo_targets())
    deps = [os.path.join(COQ, f) for f in coq_project_files()
            if f.split('/')[0] in ('Generated', 'Spec', 'Model', 'Extract')]
    deps.append(os.path.join(VERIF, 'ocaml', 'driver.ml'))
    st = _stamp(deps)
    stamp_file = os.path.join(OCAML_WORK, 'stamp')
    exe = os.path.join(OCAML_WORK, 'driver')
    if os.path.exists(exe) and os.path.exists(stamp_file) and open(stamp_file).read() == st:
        return exe
    rc, out, _ = sh(['coqc', '-Q', COQ, 'DM', os.path.join(COQ, 'Extract', 'Extract.v')], cwd=OCAML_WORK, timeout=900)
    if rc != 0:
        raise Broken('extraction of the model failed', out[-3000:])
    sh(['cp', os.path.join(VERIF, 'ocaml', 'driver.ml'), OCAML_WORK])
    rc, out, _ = sh('ocamlfind ocamlopt -w -a -O2 model.mli model.ml driver.ml -o driver 2>&1 || '
                    'ocamlfind ocamlopt -w -a model.mli model.ml driver.ml -o driver', cwd=OCAML_WORK, timeout=900)
    if rc != 0 or not os.path.exists(exe):
        raise Broken('OCaml driver does not build', out[-3000:])
    open(stamp_file, 'w').write(st)
    return exe


def model_vo_targets():
    """the .vo files Extract.v requires (Model/*.vo, transitively Spec/Generated)"""
    text = open(os.path.join(COQ, 'Extract', 'Extract.v')).read()
    mods = re.findall(r'\b(Model|Spec|Generated)\.(\w+)', text)
    return sorted(set('%s/%s.vo' % m for m in mods))


def run_lines(exe, lines, timeout=300, shards=1, solo_timeout=60, max_timeouts=3, deadline=None):
    """Feed case lines to an executable, return output lines (one per case).  A process that dies or stops answering is
    restarted on the unanswered cases; the first unanswered case is then decided on its own with `solo_timeout` ('timeout' /
    'crash(..)' if it does not answer), so that a slow machine is not mistaken for a hang and one bad case does not hide the
    others.  After `max_timeouts` cases of a shard were decided as 'timeout' the remaining cases of that shard are not run
    ('not-run'): a tree on which many cases hang is reported in minutes, not hours (every abnormal answer is reported by the
    runner, so nothing is hidden by stopping early).  `deadline` (seconds, per shard): cases not started by then are 'not-run' too --
    for trees on which many cases are very slow without hanging."""
    if not lines:
        return []
    if shards > 1 and len(lines) >= 4 * shards:
        import concurrent.futures
        chunks = [lines[i::shards] for i in range(shards)]
        with concurrent.futures.ThreadPoolExecutor(shards) as ex:
            outs = list(ex.map(lambda c: run_lines(exe, c, timeout, 1, solo_timeout, max_timeouts, deadline), chunks))
        res = [None] * len(lines)
        for k, o in enumerate(outs):
            res[k::shards] = o
        return res
    res = []
    rest = list(lines)
    restarts = 0
    timeouts = 0
    t_end = None if deadline is None else time.time() + deadline
    while rest:
        if (max_timeouts is not None and timeouts >= max_timeouts) or (t_end is not None and time.time() >= t_end):
            res += ['not-run'] * len(rest)
            break
        # generous until a case has really hung on its own; after that the shard is known to contain hangs
        budget = max(timeout, 60 + 0.5 * len(rest)) if timeouts == 0 else max(60, 20 + 0.1 * len(rest))
        if t_end is not None:
            budget = max(5, min(budget, t_end - time.time()))
        out, timed_out, rc = _run_once(exe, rest, budget)
        res += out
        if len(out) == len(rest):
            break
        rest = rest[len(out):]
        restarts += 1
        if restarts > 40:
            res += ['not-run'] * len(rest)
            break
        # decide the first unanswered case on its own: a hang, a crash, or merely a slow machine
        solo, t1, rc1 = _run_once(exe, rest[:1], solo_timeout)
        if len(solo) == 1:
            res += solo
        else:
            res.append('timeout' if t1 else 'crash(rc=%s)' % rc1)
            timeouts += 1 if t1 else 0
        rest = rest[1:]
    return res


def _run_once(exe, lines, timeout):
    env = dict(ENV)
    pre = 'ulimit -s unlimited 2>/dev/null; '
    p = subprocess.Popen(['bash', '-c', pre + 'exec ' + exe], env=env, stdin=subprocess.PIPE,
                         stdout=subprocess.PIPE, stderr=subprocess.PIPE, text=True)
    timed_out = False
    try:
        so, _ = p.communicate('\n'.join(lines) + '\n', timeout=timeout)
    except subprocess.TimeoutExpired:
        timed_out = True
        p.kill()
        so, _ = p.communicate()
    out = (so or '').split('\n')
    if out and out[-1] == '':
        out.pop()
    if len(out) > len(lines):
        out = out[:len(lines)]
    if len(out) < len(lines) and out and not (so or '').endswith('\n'):
        out.pop()                         # a partially written last line is not an answer
    return out, timed_out, p.returncode


# ---------------------------------------------------------------------------
# PRNG: every random choice derives from one xorshift state seeded by VERIF_SEED

class Rng:
    def __init__(self, seed):
        self.s = (seed * 0x9E3779B97F4A7C15 + 0x1234567) & 0xFFFFFFFFFFFFFFFF or 1

    def next(self):
        x = self.s
        x ^= (x << 13) & 0xFFFFFFFFFFFFFFFF
        x ^= x >> 7
        x ^= (x << 17) & 0xFFFFFFFFFFFFFFFF
        self.s = x
        return x

    def below(self, n):
        return self.next() % n if n > 0 else 0

    def range(self, a, b):
        return a + self.below(b - a + 1)

    def choice(self, xs):
        return xs[self.below(len(xs))]

    def chance(self, num, den):
        return self.below(den) < num

    def sample(self, xs, k):
        xs = list(xs)
        out = []
        for _ in range(min(k, len(xs))):
            out.append(xs.pop(self.below(len(xs))))
        return out

    def shuffle(self, xs):
        xs = list(xs)
        for i in range(len(xs) - 1, 0, -1):
            j = self.below(i + 1)
            xs[i], xs[j] = xs[j], xs[i]
        return xs


def fmt_list(xs):
    return ','.join(str(x) for x in xs) if xs else '-'


# ---------------------------------------------------------------------------
# known findings

def known_findings(pid):
    p = os.path.join(VERIF, 'known_findings.json')
    if not os.path.exists(p):
        return []
    data = json.load(open(p))
    return [f for f in data.get('findings', []) if f.get('property') == pid]


# ---------------------------------------------------------------------------
# evidence / replay

def write_replay(pid, seed, payload):
    os.makedirs(REPLAY, exist_ok=True)
    n = 0
    while True:
        path = os.path.join(REPLAY, '%s-%d-%d.json' % (pid, seed, n))
        if not os.path.exists(path):
            break
        n += 1
    payload = dict(payload)
    payload['property'] = pid
    payload['seed'] = seed
    json.dump(payload, open(path, 'w'), indent=1, sort_keys=True)
    return path


def write_evidence(pid, tier, seed, coverage, assumptions, wall, violations, level='proof'):
    os.makedirs(EVIDENCE, exist_ok=True)
    ev = {
        'property_id': pid, 'tier': tier, 'seed': seed, 'level': level,
        'coverage': coverage, 'assumptions': assumptions, 'wall_s': round(wall, 2),
        'violations': violations,
    }
    json.dump(ev, open(os.path.join(EVIDENCE, pid + '.json'), 'w'), indent=1, sort_keys=True)


TRUSTED_BASE = [
    'Coq 8.16.1 kernel incl. vm_compute (no native_compute)',
    'axioms: none (every Print Assumptions reports "Closed under the global context")',
    'translator /verif/tools/rs2v.py (tables regenerated from /repo on every run)',
    'extraction with ExtrOcamlBasic directives only + OCaml 4.13.1 + /verif/ocaml/driver.ml',
    'correspondence harness /verif/harness (Rust, catch_unwind), generators in /verif/tools',
    'all Rust code is modelled, not verified: theorems are about the Gallina model, tied to the '
    'code by regenerated tables and differential correspondence',
    'specifications transcribed from ISO/IEC 16022, ISO/IEC 21471 (coq/Spec)',
]
