(* Extract/Extract.v -- extraction of the executable model for the correspondence driver.
   Only the directives of ExtrOcamlBasic are used (bool, option, unit, list, prod, sumbool,
   sumor and their inlined basics); N, Z, positive and nat stay the extracted inductive types. *)
Require Import Extraction.
Require Import ExtrOcamlBasic.
From DM Require Import Model.DriverSym Model.DriverRS.
Extraction Language OCaml.
Extraction "model.ml" d_sym_attrs d_symbol_sizes d_sl ss_of_index
  d_gf_mulrow d_gf_divrow d_gf_misc d_generator d_rs_encode d_spec_gmulrow.
