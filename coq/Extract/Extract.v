(* Extract/Extract.v -- extraction of the executable model for the correspondence driver.
   Only the directives of ExtrOcamlBasic are used (bool, option, unit, list, prod, sumbool,
   sumor and their inlined basics); N, Z, positive and nat stay the extracted inductive types. *)
Require Import Extraction.
Require Import ExtrOcamlBasic.
From DM Require Import Generated.Symbols Generated.ModeTables Model.DriverSym Model.DriverRS Model.DriverPlace Model.DriverDec Model.DriverPlan Model.DriverEnc Model.DriverPath.
Extraction Language OCaml.
Extraction "model.ml" d_sym_attrs d_symbol_sizes d_sl ss_of_index
  d_gf_mulrow d_gf_divrow d_gf_misc d_generator d_rs_encode d_rs_decode d_spec_gmulrow
  d_place_table d_place_write d_place_read d_bitmap d_bitmap_tag d_from_bits d_from_bits_flip variant_index
  d_decode_data d_decode_str d_read_eci d_write_eci d_latin1_to_utf8 d_utf8_to_latin1 d_from_utf8 d_to_utf8 d_plan et_index d_encode d_encode_str d_dm_decode d_dm_bitmap d_rt d_dm_decode_flips d_plan_enc d_str_rt d_dm_flip_codewords d_path d_pixels d_unicode d_path_check d_certify.
