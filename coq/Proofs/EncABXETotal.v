(* Proofs/EncABXETotal.v -- property C11 for every mode set within {ASCII, Base256, X12, EDIFACT}: the encoder never panics.
   Proofs/EncABXTotal.v with EDIFACT among the modes (its encoder needs nothing from the planner beyond the shape of the plan: it reads
   one character at a time; its own end-of-data rule guarantees the assertion about the free space).  About the X12 encoder: the planner's X12 runs consist of native characters in whole triples (the last run
   may leave up to two characters to ASCII; Proofs/PlanAlign.v), so the unreachable!() of the X12 value table, the assertion
   of maybe_switch_mode inside the triple loop and the no-progress guard of the main loop cannot fire. *)
From Coq Require Import Arith NArith List Bool Lia.
From DM Require Import Generated.Symbols Generated.ModeTables Model.Outcome Model.SymbolList Model.Planner Model.PlannerRun Model.Eci Model.Enc
  Model.Dec Model.Api Spec.Stream16022 Proofs.SymbolListProofs Proofs.EncLocal Proofs.EncTop Proofs.EncAscii
  Proofs.EncB256 Proofs.DecStream Proofs.PlanShape Proofs.PlanTotal Proofs.PlanAlign Proofs.EncAB Proofs.EncABTotal Proofs.EncABXTotal.
Import ListNotations.
Local Open Scope N_scope.

Definition m4_mode (m : EncodationType) : Prop := m = Ascii \/ m = Base256 \/ m = X12 \/ m = Edifact.
Definition m4_plan (p : list (N * EncodationType)) : Prop := Forall (fun e => m4_mode (snd e)) p.

(* ---- the slice backup() re-reads is never changed by the four encoders ---- *)
Lemma msm_input e sw e' : maybe_switch_mode e = Ok (sw, e') -> e_input e' = e_input e.
Proof.
  unfold maybe_switch_mode. destruct (e_planned e) as [|[p0 m0] rest]; [discriminate|]. destruct (negb _); [discriminate|].
  destruct ((0 <? chars_left e) && (chars_left e =? p0));
    repeat match goal with
           | |- context [match et_latch_from_ascii ?m with _ => _ end] => destruct (et_latch_from_ascii m)
           | |- context [if ?c then _ else _] => destruct c
           end; intros H; inversion H; reflexivity.
Qed.

Lemma input_ascii : forall fuel e e', ascii_encode fuel e = Ok e' -> e_input e' = e_input e.
Proof.
  induction fuel as [|f IH]; intros e e' H; cbn [ascii_encode] in H; [discriminate|].
  destruct (maybe_switch_mode e) as [[sw e1]| |] eqn:MS; cbn [bind] in H; try discriminate. pose proof (msm_input _ _ _ MS) as I1.
  destruct sw; [inversion H; subst; exact I1|].
  destruct (e_data e1) as [|a [|b t]]; [inversion H; subst; exact I1| |].
  - destruct (a <=? 127); apply IH in H; rewrite H; exact I1.
  - destruct (is_digit a && is_digit b); [|destruct (a <=? 127)]; apply IH in H; rewrite H; exact I1.
Qed.

Lemma input_wl e start e' : b256_write_length e start = Ok e' -> e_input e' = e_input e.
Proof.
  unfold b256_write_length. destruct (ssl e 0); cbn [bind]; try discriminate. destruct (_ <? _)%nat; [discriminate|].
  match goal with |- (let* x := ?X in _) = _ -> _ => destruct X as [[cw dw]| |] end; cbn [bind]; try discriminate.
  destruct (_ <? _)%nat; [discriminate|]. intros [= <-]. reflexivity.
Qed.

Lemma input_b256 : forall fuel e start e', b256_loop fuel e start = Ok e' -> e_input e' = e_input e.
Proof.
  induction fuel as [|f IH]; intros e start e' H; cbn [b256_loop] in H; [discriminate|].
  set (e1 := match eat e with Some (ch, e') => push e' ch | None => e end) in *.
  assert (e_input e1 = e_input e) as I1 by (unfold e1, eat; destruct (e_data e); reflexivity).
  destruct (negb (has_more e1)).
  - destruct (b256_write_length e1 start) as [e2| |] eqn:WL; cbn [bind] in H; try discriminate. apply input_wl in WL. inversion H; subst.
    destruct (negb (has_more e2)); cbn [e_input set_ascii_until_end]; congruence.
  - destruct (maybe_switch_mode e1) as [[sw e2]| |] eqn:MS; cbn [bind] in H; try discriminate. pose proof (msm_input _ _ _ MS) as I2.
    destruct sw.
    + destruct (b256_write_length e2 start) as [e3| |] eqn:WL; cbn [bind] in H; try discriminate. apply input_wl in WL. inversion H; subst.
      destruct (negb (has_more e3)); cbn [e_input set_ascii_until_end]; congruence.
    + apply IH in H. congruence.
Qed.

Lemma input_x12_loop : forall fuel e e' sw, x12_loop fuel e = Ok (e', sw) -> e_input e' = e_input e.
Proof.
  induction fuel as [|f IH]; intros e e' sw H; cbn [x12_loop] in H; [discriminate|].
  destruct (e_data e) as [|a [|b [|c t]]]; try (inversion H; subst; reflexivity).
  destruct (x12_enc a), (x12_enc b), (x12_enc c); try discriminate.
  unfold write_three_values in H. destruct (65536 <=? _); [discriminate|]. cbn [bind] in H.
  match type of H with (let* x := maybe_switch_mode ?E in _) = _ => destruct (maybe_switch_mode E) as [[sw1 e2]| |] eqn:MS end; cbn [bind] in H; try discriminate.
  pose proof (msm_input _ _ _ MS) as I2. cbn [e_input push set_cw set_data] in I2. destruct sw1; [inversion H; subst; exact I2|]. apply IH in H. congruence.
Qed.

Lemma input_x12 e e' : x12_encode e = Ok e' -> e_input e' = e_input e.
Proof.
  unfold x12_encode. destruct (x12_loop _ e) as [[e1 sw]| |] eqn:XL; cbn [bind]; try discriminate. apply input_x12_loop in XL.
  match goal with |- (let* early := ?X in _) = _ -> _ => destruct X as [early| |] end; cbn [bind]; try discriminate.
  destruct early; [intros [= <-]; exact XL|].
  match goal with |- (let* need := ?X in _) = _ -> _ => destruct X as [need| |] end; cbn [bind]; try discriminate.
  destruct need; intros [= <-]; [destruct (negb sw)|]; cbn [e_input push set_cw set_ascii_until_end]; exact XL.
Qed.

Section T.
Variable data : list N.

(* an X12 run is about to start / continues at a triple boundary: what is left of it *)
Definition XB4 (e : enc) : Prop :=
  let L := (length (e_data e) - N.to_nat (first_pos e))%nat in
  (0 < first_pos e -> (L mod 3 = 0)%nat /\ natives (firstn L (e_data e))) /\
  (first_pos e = 0 -> natives (firstn (3 * (L / 3)) (e_data e))).

Definition next_ok4 (e' : enc) : Prop :=
  e_data e' <> [] /\ PL data e' /\ CM e' /\ m4_plan (e_planned e') /\ first_pos e' < chars_left e' /\
  ((e_encodation e' = Base256 /\ e_new_mode e' = Some 231 /\ RB e') \/ (e_encodation e' = X12 /\ e_new_mode e' = Some 238 /\ XB4 e') \/
   (e_encodation e' = Edifact /\ e_new_mode e' = Some 240)).

Definition post_ascii_x4 (e e' : enc) : Prop :=
  (length (e_data e') <= length (e_data e))%nat /\ e_symbols e' = e_symbols e /\
  ((e_data e' = [] /\ e_encodation e' = Ascii) \/ (0 < first_pos e /\ next_ok4 e')).

(* what a planned switch out of another mode hands over *)
Lemma moved_next4 e e1 p0 m0 p1 m1 rest : e_planned e1 = (p1, m1) :: rest -> chars_left e1 = p0 -> 0 < p0 ->
  run_ok data p0 m0 p1 -> (m0 = m1 -> p1 = 0) -> e_encodation e1 = m0 -> PL data e1 -> m4_plan (e_planned e1) -> e_data e1 <> [] ->
  e_new_mode e1 = match et_latch_from_ascii m0 with Some l => Some l | None => e_new_mode e end ->
  (m0 = Base256 \/ m0 = X12 \/ m0 = Edifact) -> next_ok4 e1.
Proof.
  intros EP1 CL POS (R1 & R2 & R3 & R4 & R5) A01 EM PL1 AB1 ND NM1 MM.
  assert (first_pos e1 = p1) as FP by (unfold first_pos; rewrite EP1; reflexivity).
  split; [exact ND|]. split; [exact PL1|]. split; [unfold CM; rewrite FP, EP1, EM; cbn [hd snd]; intros EQ; apply A01; symmetry; exact EQ|]. split; [exact AB1|].
  split; [rewrite FP, CL; exact R1|]. destruct MM as [-> |[-> | ->]].
  - left. split; [exact EM|]. split; [rewrite NM1; reflexivity|]. unfold RB. rewrite FP, CL. destruct (R4 eq_refl) as [B1 B2]. split; [exact R1|split; [exact B1|exact B2]].
  - right. left. split; [exact EM|]. split; [rewrite NM1; reflexivity|]. unfold XB4. rewrite FP. cbv zeta. destruct (R5 eq_refl) as [X1 X2]. unfold x12_run in *. cbv zeta in X1, X2.
    destruct PL1 as (HD & _). unfold chars_left in CL. assert (length (e_data e1) = N.to_nat p0) as LD by lia. rewrite LD. rewrite HD. unfold chars_left. rewrite LD, N2Nat.id.
    split; [exact X1|exact X2].
  - right. right. split; [exact EM|]. rewrite NM1. reflexivity.
Qed.

Lemma ascii_total_x4 : forall fuel e, (length (e_data e) < fuel)%nat -> e_encodation e = Ascii -> m4_plan (e_planned e) -> PL data e -> AL e ->
  exists e', ascii_encode fuel e = Ok e' /\ post_ascii_x4 e e'.
Proof.
  induction fuel as [|f IH]; intros e HF EA AB HPL HAL; [lia|]. cbn [ascii_encode].
  destruct (msm_total data e HPL) as (sw & e1 & MS & (D1 & C1 & I1 & M1 & S1) & CASE). rewrite MS. cbn [bind].
  assert (forall e1, e_data e1 = e_data e -> e_symbols e1 = e_symbols e -> e_encodation e1 = Ascii -> m4_plan (e_planned e1) -> PL data e1 -> AL e1 ->
            (chars_left e1 = 0 \/ chars_left e1 <> first_pos e1) -> (0 < first_pos e1 -> 0 < first_pos e) ->
          exists e', (match e_data e1 with
                      | a :: b :: t =>
                        if is_digit a && is_digit b then ascii_encode f (push (set_data e1 t) ((a - 48) * 10 + (b - 48) + 130))
                        else if a <=? 127 then ascii_encode f (push (set_data e1 (b :: t)) (a + 1))
                        else ascii_encode f (push (push (set_data e1 (b :: t)) ascii_UPPER_SHIFT) (a - 128 + 1))
                      | [a] =>
                        if a <=? 127 then ascii_encode f (push (set_data e1 []) (a + 1))
                        else ascii_encode f (push (push (set_data e1 []) ascii_UPPER_SHIFT) (a - 128 + 1))
                      | [] => Ok e1
                      end) = Ok e' /\ post_ascii_x4 e e') as ITEM.
  { clear e1 MS D1 C1 I1 M1 S1 CASE. intros e1 D1 S1 EA1 AB1 PL1 AL1 NS FPM. unfold AL in AL1. unfold chars_left in NS.
    assert (forall d cwv, (exists pre, e_data e1 = pre ++ d /\ pre <> []) -> aligned d (N.to_nat (first_pos e1)) ->
              exists e', ascii_encode f (set_cw (set_data e1 d) cwv) = Ok e' /\ post_ascii_x4 e e') as REC.
    { intros d cwv (pre & ED & NP) ALd.
      assert (length d < length (e_data e))%nat as LT by (rewrite <- D1, ED, app_length; destruct pre; [contradiction|cbn [length]; lia]).
      destruct (IH (set_cw (set_data e1 d) cwv)) as (e' & E' & (P1 & P2 & P3)).
      - cbn [e_data set_cw set_data]. lia.
      - exact EA1.
      - exact AB1.
      - apply PL_consume; [exact PL1|]. exists pre. split; [exact ED|]. exact (aligned_le _ _ ALd).
      - exact ALd.
      - exists e'. split; [exact E'|]. cbn [e_data e_symbols set_cw set_data] in P1, P2. split; [lia|]. split; [congruence|].
        destruct P3 as [P3|[P3 P4]]; [left; exact P3|right; split; [apply FPM; exact P3|exact P4]]. }
    destruct (e_data e1) as [|a [|b t]] eqn:ED1.
    - exists e1. split; [reflexivity|]. split; [rewrite ED1; cbn [length]; lia|]. split; [exact S1|]. left. split; [exact ED1|exact EA1].
    - assert (aligned [] (N.to_nat (first_pos e1))) as AN.
      { inversion AL1 as [d Hd|? ? ? ? ? ?|a0 t0 p0 C0 A0]; subst; [cbn [length] in *; destruct NS as [NS|NS]; [discriminate|exfalso; apply NS; lia]|exact A0]. }
      destruct (a <=? 127).
      + exact (REC [] (e_cw e1 ++ [a + 1]) ltac:(exists [a]; split; [reflexivity|discriminate]) AN).
      + exact (REC [] ((e_cw e1 ++ [ascii_UPPER_SHIFT]) ++ [a - 128 + 1]) ltac:(exists [a]; split; [reflexivity|discriminate]) AN).
    - destruct (is_digit a && is_digit b) eqn:DG.
      + assert (aligned t (N.to_nat (first_pos e1))) as AN.
        { inversion AL1 as [d Hd|a0 b0 t0 p0 C0 A0|a0 t0 p0 C0 A0]; subst; [cbn [length] in *; destruct NS as [NS|NS]; [discriminate|exfalso; apply NS; lia]|exact A0|].
          rewrite DG in C0. discriminate. }
        exact (REC t (e_cw e1 ++ [(a - 48) * 10 + (b - 48) + 130]) ltac:(exists [a; b]; split; [reflexivity|discriminate]) AN).
      + assert (aligned (b :: t) (N.to_nat (first_pos e1))) as AN.
        { inversion AL1 as [d Hd|a0 b0 t0 p0 C0 A0|a0 t0 p0 C0 A0]; subst; [cbn [length] in *; destruct NS as [NS|NS]; [discriminate|exfalso; apply NS; lia]| |exact A0].
          rewrite DG in C0. discriminate. }
        destruct (a <=? 127).
        * exact (REC (b :: t) (e_cw e1 ++ [a + 1]) ltac:(exists [a]; split; [reflexivity|discriminate]) AN).
        * exact (REC (b :: t) ((e_cw e1 ++ [ascii_UPPER_SHIFT]) ++ [a - 128 + 1]) ltac:(exists [a]; split; [reflexivity|discriminate]) AN). }
  destruct CASE as [(-> & (EN1 & NM1 & EP1 & NS))|((p0 & m0 & p1 & m1 & rest & EP & EP1 & CL & POS & R01 & A01 & EM & SWC) & PL1)].
  - apply (ITEM e1 D1 S1); [rewrite EN1; exact EA|rewrite EP1; exact AB| | | |].
    + destruct HPL as (HD & HL & HP). split; [rewrite D1; unfold chars_left; rewrite D1; exact HD|]. split; [rewrite D1; exact HL|]. rewrite EP1. unfold chars_left. rewrite D1. exact HP.
    + unfold AL, first_pos. rewrite D1, EP1. exact HAL.
    + unfold chars_left, first_pos. rewrite D1, EP1. exact NS.
    + unfold first_pos. rewrite EP1. tauto.
  - assert (m4_plan (e_planned e1)) as AB1 by (rewrite EP in AB; rewrite EP1; inversion AB; assumption).
    assert (m4_mode m0) as ABM by (rewrite EP in AB; inversion AB; assumption).
    assert (0 < first_pos e) as FP0 by (unfold first_pos; rewrite EP; cbn [hd fst]; exact POS).
    destruct SWC as [(-> & EQ & NM1)|(-> & NE & NM1)].
    + destruct R01 as (R1 & R2 & R3 & R4 & R5).
      apply (ITEM e1 D1 S1); [rewrite EM, EQ; exact EA|exact AB1|exact PL1| | |intros _; exact FP0].
      * unfold AL, first_pos. rewrite EP1. cbn [hd fst]. rewrite D1. destruct HPL as (HD & _). rewrite HD, CL. apply R3. rewrite EQ. exact EA.
      * right. unfold chars_left, first_pos. rewrite D1, EP1. cbn [hd fst]. unfold chars_left in CL. rewrite CL. lia.
    + assert (m0 = Base256 \/ m0 = X12 \/ m0 = Edifact) as MM by (destruct ABM as [A|[B|X]]; [exfalso; apply NE; rewrite A; symmetry; exact EA|left; exact B|right; exact X]).
      exists e1. split; [reflexivity|]. split; [rewrite D1; lia|]. split; [exact S1|]. right. split; [exact FP0|].
      apply (moved_next4 e e1 p0 m0 p1 m1 rest EP1); try assumption.
      * unfold chars_left. rewrite D1. exact CL.
      * rewrite D1. unfold chars_left in CL. destruct (e_data e); [cbn in CL; lia|discriminate].
Qed.

Lemma PL_set_cw4 e c : PL data e -> PL data (set_cw e c).
Proof. intros (A & B & C). split; [exact A|]. split; [exact B|exact C]. Qed.
Lemma next_ok_set_cw4 e c : next_ok4 e -> next_ok4 (set_cw e c).
Proof.
  intros (N1 & N2 & N3 & N4 & N5 & N6). split; [exact N1|]. split; [apply PL_set_cw4; exact N2|]. split; [exact N3|]. split; [exact N4|]. split; [exact N5|exact N6].
Qed.

(* ---- a Base256 run, with X12 among the possible next modes ---- *)
Definition BIx4 (pre : list N) (e : enc) : Prop :=
  e_encodation e = Base256 /\ m4_plan (e_planned e) /\ PL data e /\ CM e /\ first_pos e < chars_left e /\
  exists run, e_cw e = pre ++ 0 :: run /\
    chars_left e + N.of_nat (length run) - first_pos e <= 1556 /\
    (0 < first_pos e -> chars_left e + N.of_nat (length run) - first_pos e <= 1555).

Definition post_b256_x4 (pre : list N) (e e' : enc) : Prop :=
  e_symbols e' = e_symbols e /\ (length (e_data e') < length (e_data e))%nat /\ (length pre + 2 <= length (e_cw e'))%nat /\
  ((e_data e' = [] /\ e_encodation e' = Ascii) \/
   (e_data e' <> [] /\ e_encodation e' = Ascii /\ e_new_mode e' = e_new_mode e /\ PL data e' /\ AL e' /\ m4_plan (e_planned e')) \/
   (e_encodation e' <> Ascii /\ next_ok4 e')).

Lemma b256_total_x4 pre : (1 <= length pre)%nat -> forall fuel e, (length (e_data e) < fuel)%nat -> BIx4 pre e ->
  match b256_loop fuel e (length pre) with
  | Panic _ => False
  | Err _ => True
  | Ok e' => post_b256_x4 pre e e'
  end.
Proof.
  intros LP. induction fuel as [|f IH]; intros e HF (EB & AB & HPL & HCM & LT & run & EC & B1 & B2); [lia|]. cbn [b256_loop].
  destruct (e_data e) as [|ch t] eqn:ED; [unfold chars_left in LT; rewrite ED in LT; cbn [length] in LT; lia|]. unfold eat. rewrite ED.
  set (e1 := push (set_data e t) ch).
  assert (e_cw e1 = pre ++ 0 :: (run ++ [ch])) as EC1 by (unfold e1; cbn [e_cw push set_cw set_data]; rewrite EC, <- app_assoc; reflexivity).
  assert (run ++ [ch] <> []) as NR by (destruct run; discriminate).
  assert (chars_left e = N.of_nat (length t) + 1) as CLE by (unfold chars_left; rewrite ED; cbn [length]; lia).
  assert (PL data e1) as PL1.
  { apply PL_consume; [exact HPL|]. exists [ch]. split; [rewrite ED; reflexivity|]. lia. }
  assert (first_pos e1 = first_pos e /\ chars_left e1 = N.of_nat (length t) /\ e_planned e1 = e_planned e /\ e_encodation e1 = Base256 /\ e_symbols e1 = e_symbols e /\ e_new_mode e1 = e_new_mode e /\ e_data e1 = t) as (FP1 & CL1 & EP1 & EB1 & ES1 & NM1 & ED1)
    by (unfold first_pos, chars_left, e1; cbn [e_planned e_data e_encodation e_symbols e_new_mode push set_cw set_data]; repeat split; exact EB).
  assert (N.of_nat (length (run ++ [ch])) = N.of_nat (length run) + 1) as LR by (rewrite app_length; cbn [length]; lia).
  assert (forall e2, e_cw e2 = e_cw e1 -> e_data e2 = t -> e_symbols e2 = e_symbols e ->
            (N.of_nat (length (run ++ [ch])) <= 1555 \/ (N.of_nat (length (run ++ [ch])) = 1556 /\ has_more e2 = false)) ->
            (e_data e2 = [] \/ (e_encodation e2 = Ascii /\ e_new_mode e2 = e_new_mode e /\ PL data e2 /\ AL e2 /\ m4_plan (e_planned e2)) \/ (e_encodation e2 <> Ascii /\ next_ok4 e2)) ->
            match (let* e3 := b256_write_length e2 (length pre) in Ok (if negb (has_more e3) then set_ascii_until_end e3 else e3)) with
            | Panic _ => False | Err _ => True | Ok e' => post_b256_x4 pre e e' end) as FIN.
  { intros e2 C2 D2 S2 BD REST. pose proof (wl_total data e2 pre (run ++ [ch]) ltac:(rewrite C2; exact EC1) NR LP BD) as NP.
    destruct (b256_write_length e2 (length pre)) as [e3| |] eqn:WL; cbn [bind]; [|exact I|contradiction].
    destruct (wl_result data e2 pre (run ++ [ch]) e3 ltac:(rewrite C2; exact EC1) NR WL) as [E3 L3].
    assert (e_data e3 = t /\ e_symbols e3 = e_symbols e) as [D3 S3] by (rewrite E3; cbn [e_data e_symbols set_cw]; split; assumption).
    unfold post_b256_x4. destruct (has_more e3) eqn:HM3; cbn [negb].
    - assert (t <> []) as NT by (unfold has_more in HM3; rewrite D3 in HM3; destruct t; [discriminate|discriminate]).
      split; [exact S3|]. split; [rewrite D3, ED; cbn [length]; lia|]. split; [exact L3|].
      destruct REST as [RE|[(R1 & R2 & R3 & R4 & R5)|(R1 & R2)]]; [rewrite D2 in RE; contradiction| |].
      + right. left. split; [rewrite D3; exact NT|]. rewrite E3. cbn [e_encodation e_new_mode e_planned set_cw]. split; [exact R1|]. split; [exact R2|].
        split; [apply PL_set_cw4; exact R3|]. split; [exact R4|exact R5].
      + right. right. rewrite E3. split; [exact R1|apply next_ok_set_cw4; exact R2].
    - cbn [e_symbols e_data e_cw e_encodation set_ascii_until_end]. split; [exact S3|]. split; [rewrite D3, ED; cbn [length]; lia|]. split; [exact L3|].
      left. split; [|reflexivity]. unfold has_more in HM3. destruct (e_data e3); [reflexivity|discriminate]. }
  destruct t as [|c2 t2] eqn:ET.
  - unfold has_more at 1. cbn [e_data e1 push set_cw set_data negb].
    apply (FIN e1 eq_refl ED1 ES1); [|left; exact ED1].
    assert (first_pos e = 0) as FZ by (cbn [length] in CLE; lia). rewrite FZ in B1. rewrite LR.
    destruct (N.le_gt_cases (N.of_nat (length run) + 1) 1555); [left; lia|]. right. split; [lia|]. unfold has_more. rewrite ED1. reflexivity.
  - unfold has_more at 1. cbn [e_data e1 push set_cw set_data negb]. fold e1.
    destruct (msm_total data e1 PL1) as (sw & e2 & MS & (D2 & C2 & I2 & M2 & S2) & CASE). rewrite MS. cbn [bind].
    destruct CASE as [(-> & (EN2 & NM2 & EP2 & NS))|((p0 & m0 & p1 & m1 & rest & EP & EP2 & CL & POS & R01 & A01 & EM & SWC) & PL2)].
    + assert (match b256_loop f e2 (length pre) with Panic _ => False | Err _ => True | Ok e' => post_b256_x4 pre e2 e' end) as R.
      2:{ destruct (b256_loop f e2 (length pre)) as [e'| |]; [|exact I|contradiction]. destruct R as (Q1 & Q2 & Q3 & Q5).
          split; [rewrite Q1, S2; exact ES1|]. split; [rewrite D2, ED1 in Q2; rewrite ED; cbn [length] in *; lia|]. split; [exact Q3|].
          destruct Q5 as [Q5|[(Q5 & Q6 & Q7 & Q8)|Q5]]; [left; exact Q5|right; left; split; [exact Q5|split; [exact Q6|split; [rewrite Q7, NM2; exact NM1|exact Q8]]]|right; right; exact Q5]. }
      apply IH.
      * rewrite D2, ED1. cbn [length] in *. lia.
      * split; [rewrite EN2; exact EB1|]. split; [rewrite EP2, EP1; exact AB|].
        assert (PL data e2) as PLs.
        { destruct PL1 as (X1 & X2 & X3). unfold PL, chars_left. rewrite D2, EP2. split; [exact X1|]. split; [exact X2|exact X3]. }
        split; [exact PLs|]. split; [unfold CM, first_pos; rewrite EP2, EP1, EN2, EB1; rewrite <- EB; exact HCM|].
        assert (first_pos e2 = first_pos e /\ chars_left e2 = N.of_nat (length (c2 :: t2))) as [FP2 CL2] by (unfold first_pos, chars_left; rewrite EP2, EP1, D2, ED1; split; reflexivity).
        split; [rewrite FP2, CL2; unfold chars_left, first_pos in NS; rewrite ED1, EP1 in NS; destruct NS as [NS|NS]; [cbn [length] in NS; lia|];
                destruct PL1 as (_ & _ & X3); rewrite EP1 in X3; unfold first_pos; destruct (e_planned e) as [|[q mq] rq]; [contradiction|]; cbn [hd fst] in *;
                destruct X3 as (X3 & _); unfold chars_left in X3; rewrite ED1 in X3; lia|].
        exists (run ++ [ch]). split; [rewrite C2; exact EC1|]. rewrite FP2, CL2, LR. cbn [length] in *. split; [lia|intros P; specialize (B2 P); lia].
    + assert (m0 <> Base256) as NB.
      { intros ->. unfold CM, first_pos in HCM. rewrite EP1 in EP. rewrite EP in HCM. cbn [hd fst snd] in HCM. rewrite EB in HCM. specialize (HCM eq_refl). lia. }
      assert (m4_mode m0) as ABM by (rewrite EP1 in EP; rewrite EP in AB; inversion AB; assumption).
      assert (m4_plan (e_planned e2)) as AB2 by (rewrite EP2; rewrite EP1 in EP; rewrite EP in AB; inversion AB; assumption).
      destruct SWC as [(-> & EQ & _)|(-> & NE & NM2)]; [exfalso; apply NB; rewrite EQ; exact EB1|].
      apply (FIN e2 C2 D2 S2).
      * left. rewrite LR. rewrite CL1 in CL. rewrite EP1 in EP. unfold first_pos in B2. rewrite EP in B2. cbn [hd fst] in B2. specialize (B2 POS). cbn [length] in *. lia.
      * right. destruct ABM as [MA|[MB|MX]]; [|contradiction|].
        -- left. rewrite MA in *. destruct R01 as (R1 & R2 & R3 & R4 & R5). split; [exact EM|]. split; [rewrite NM2; cbn [et_latch_from_ascii]; exact NM1|]. split; [exact PL2|]. split; [|exact AB2].
           unfold AL, first_pos. rewrite EP2. cbn [hd fst]. rewrite D2. destruct PL1 as (X1 & _). rewrite X1, CL. exact (R3 eq_refl).
        -- right. split; [rewrite EM; destruct MX as [-> | ->]; discriminate|]. apply (moved_next4 e1 e2 p0 m0 p1 m1 rest EP2); try assumption.
           ++ unfold chars_left. rewrite D2. exact CL.
           ++ rewrite D2, ED1. discriminate.
           ++ right. exact MX.
Qed.

(* ---- an X12 run ---- *)
Lemma x12_enc_native4 ch : is_native_x12 ch = true -> exists v, x12_enc ch = Some v /\ v <= 39.
Proof.
  unfold is_native_x12, x12_enc. intros H.
  destruct (ch =? 13); [eexists; split; [reflexivity|lia]|]. destruct (ch =? 42); [eexists; split; [reflexivity|lia]|].
  destruct (ch =? 62); [eexists; split; [reflexivity|lia]|]. destruct (ch =? 32); [eexists; split; [reflexivity|lia]|]. cbn [orb] in H.
  destruct ((48 <=? ch) && (ch <=? 57)) eqn:D.
  - apply andb_true_iff in D. destruct D as [D1 D2]. apply N.leb_le in D1, D2. eexists. split; [reflexivity|lia].
  - cbn [orb] in H. rewrite H. apply andb_true_iff in H. destruct H as [D1 D2]. apply N.leb_le in D1, D2. eexists. split; [reflexivity|lia].
Qed.

Lemma wtv_ok4 e c1 c2 c3 : c1 <= 39 -> c2 <= 39 -> c3 <= 39 -> exists hi lo, write_three_values e c1 c2 c3 = Ok (push (push e hi) lo).
Proof. intros A B C. unfold write_three_values. destruct (N.leb_spec 65536 (1600 * c1 + 40 * c2 + c3 + 1)); [lia|]. do 2 eexists. reflexivity. Qed.

Lemma PL_until_end4 e : PL data e -> PL data (set_ascii_until_end e).
Proof.
  intros (A & B & C). split; [exact A|]. split; [exact B|]. cbn [e_planned set_ascii_until_end]. split; [lia|]. split; [split; exact I|reflexivity].
Qed.

Definition XL4 (e : enc) : Prop := XB4 e /\ (0 < first_pos e -> first_pos e < chars_left e).

Definition loop_post4 (e e1 : enc) (sw : bool) : Prop :=
  e_symbols e1 = e_symbols e /\ exists k, (length (e_data e) = length (e_data e1) + 3 * k)%nat /\ (length (e_cw e1) = length (e_cw e) + 2 * k)%nat /\
  ((sw = false /\ e_encodation e1 = X12 /\ e_new_mode e1 = e_new_mode e /\ PL data e1 /\ m4_plan (e_planned e1)) \/
   (sw = true /\ (1 <= k)%nat /\ e_data e1 <> [] /\ PL data e1 /\ m4_plan (e_planned e1) /\
    ((e_encodation e1 = Ascii /\ e_new_mode e1 = e_new_mode e /\ AL e1) \/ (e_encodation e1 <> Ascii /\ next_ok4 e1)))).

Lemma natives_34 a b c t L : (3 <= L)%nat -> natives (firstn L (a :: b :: c :: t)) ->
  is_native_x12 a = true /\ is_native_x12 b = true /\ is_native_x12 c = true /\ natives (firstn (L - 3) t).
Proof.
  intros H N3. destruct L as [|[|[|L']]]; try lia. unfold natives in *. cbn [firstn forallb] in N3.
  apply andb_true_iff in N3. destruct N3 as [A N3]. apply andb_true_iff in N3. destruct N3 as [B N3]. apply andb_true_iff in N3. destruct N3 as [C N3].
  replace (S (S (S L')) - 3)%nat with L' by lia. repeat split; assumption.
Qed.

Lemma x12_loop_total4 : forall fuel e, (length (e_data e) < fuel)%nat -> e_encodation e = X12 -> m4_plan (e_planned e) -> PL data e -> CM e -> XL4 e ->
  exists e1 sw, x12_loop fuel e = Ok (e1, sw) /\ loop_post4 e e1 sw.
Proof.
  induction fuel as [|f IH]; intros e HF EX AB HPL HCM (HXB & HST); [lia|]. cbn [x12_loop].
  assert (loop_post4 e e false) as SMALL.
  { split; [reflexivity|]. exists 0%nat. split; [lia|]. split; [lia|]. left. split; [reflexivity|]. split; [exact EX|]. split; [reflexivity|]. split; [exact HPL|exact AB]. }
  destruct (e_data e) as [|a [|b [|c t]]] eqn:ED; try (exists e, false; split; [reflexivity|exact SMALL]). clear SMALL.
  (* a triple *)
  assert (first_pos e <= chars_left e) as FPL.
  { destruct HPL as (_ & _ & HP). unfold first_pos. destruct (e_planned e) as [|[q mq] rq]; [contradiction|]. cbn [hd fst]. apply HP. }
  assert (chars_left e = N.of_nat (length t) + 3) as CLE by (unfold chars_left; rewrite ED; cbn [length]; lia).
  unfold XB4 in HXB. rewrite ED in HXB. cbv zeta in HXB. cbn [length] in HXB. destruct HXB as [XB1 XB2].
  set (L := (S (S (S (length t))) - N.to_nat (first_pos e))%nat) in *.
  assert ((3 <= L)%nat /\ (0 < first_pos e -> (L mod 3 = 0)%nat) /\ natives (firstn (if 0 <? first_pos e then L else (3 * (L / 3))%nat) (a :: b :: c :: t))) as (L3 & LM & NL).
  { destruct (N.ltb_spec 0 (first_pos e)) as [P|Z].
    - destruct (XB1 P) as [M N1]. specialize (HST P). split; [|split; [intros _; exact M|exact N1]].
      assert (0 < L)%nat by (unfold L; lia). pose proof (Nat.div_mod L 3 ltac:(lia)). rewrite M in H0. lia.
    - assert (first_pos e = 0) as Z0 by lia. split; [unfold L; rewrite Z0; cbn; lia|]. split; [lia|exact (XB2 Z0)]. }
  assert ((3 <= (if (0 <? first_pos e)%N then L else (3 * (L / 3))))%nat) as L3'.
  { destruct (0 <? first_pos e); [exact L3|]. pose proof (Nat.div_mod L 3 ltac:(lia)). pose proof (Nat.mod_upper_bound L 3 ltac:(lia)). lia. }
  destruct (natives_34 a b c t _ L3' NL) as (NA & NB & NC & NT).
  destruct (x12_enc_native4 a NA) as (c1 & -> & B1). destruct (x12_enc_native4 b NB) as (c2 & -> & B2). destruct (x12_enc_native4 c NC) as (c3 & -> & B3).
  destruct (wtv_ok4 (set_data e t) c1 c2 c3 B1 B2 B3) as (hi & lo & ->). cbn [bind].
  set (e1 := push (push (set_data e t) hi) lo).
  assert (PL data e1) as PL1.
  { change e1 with (set_cw (set_data e t) ((e_cw e ++ [hi]) ++ [lo])). apply PL_consume; [exact HPL|]. exists [a; b; c]. split; [rewrite ED; reflexivity|]. unfold L in L3. lia. }
  destruct (msm_total data e1 PL1) as (sw & e2 & MS & (D2 & C2 & I2 & M2 & S2) & CASE). rewrite MS. cbn [bind].
  assert (e_data e1 = t /\ e_planned e1 = e_planned e /\ e_encodation e1 = X12 /\ e_symbols e1 = e_symbols e /\ e_new_mode e1 = e_new_mode e /\
          length (e_cw e1) = (length (e_cw e) + 2)%nat) as (ED1 & EP1 & EX1 & ES1 & NM1 & CW1).
  { unfold e1. cbn [e_data e_planned e_encodation e_symbols e_new_mode e_cw push set_cw set_data]. rewrite !app_length. cbn [length]. repeat split; [exact EX|lia]. }
  destruct CASE as [(-> & (EN2 & NM2 & EP2 & NS))|((p0 & m0 & p1 & m1 & rest & EP & EP2 & CL & POS & R01 & A01 & EM & SWC) & PL2)].
  - (* no switch: next triple *)
    destruct (IH e2) as (e3 & sw3 & E3 & (Q1 & k & Q2 & Q3 & Q4)).
    + rewrite D2, ED1. cbn [length] in HF. lia.
    + rewrite EN2. exact EX1.
    + rewrite EP2, EP1. exact AB.
    + destruct PL1 as (X1 & X2 & X3). unfold PL, chars_left. rewrite D2, EP2. split; [exact X1|]. split; [exact X2|exact X3].
    + unfold CM, first_pos. rewrite EP2, EP1, EN2, EX1. rewrite <- EX. exact HCM.
    + assert (first_pos e2 = first_pos e /\ chars_left e2 = N.of_nat (length t)) as [FP2 CL2] by (unfold first_pos, chars_left; rewrite EP2, EP1, D2, ED1; split; reflexivity).
      split.
      * unfold XB4. rewrite FP2, D2, ED1. cbv zeta.
        replace (length t - N.to_nat (first_pos e))%nat with (L - 3)%nat by (unfold L; lia).
        split.
        -- intros P. split; [specialize (LM P); rewrite <- (Nat.mod_add (L - 3) 1 3) by lia; replace (L - 3 + 1 * 3)%nat with L by lia; exact LM|].
           destruct (N.ltb_spec 0 (first_pos e)); [exact NT|lia].
        -- intros Z0. destruct (N.ltb_spec 0 (first_pos e)); [lia|]. replace (3 * ((L - 3) / 3))%nat with (3 * (L / 3) - 3)%nat; [exact NT|].
           replace L with (L - 3 + 1 * 3)%nat at 1 by lia. rewrite Nat.div_add by lia. lia.
      * intros P. rewrite FP2, CL2. unfold chars_left, first_pos in NS. rewrite ED1, EP1 in NS. fold (first_pos e) in NS. unfold L in L3.
        destruct NS as [NS|NS]; lia.
    + rewrite E3. exists e3, sw3. split; [reflexivity|]. split; [rewrite Q1, S2; exact ES1|]. exists (S k). rewrite D2, ED1 in Q2. rewrite C2, CW1 in Q3. rewrite ED. cbn [length].
      split; [lia|]. split; [lia|]. rewrite NM2, NM1 in Q4. destruct Q4 as [Q4|(Q4 & Q5 & Q6)]; [left; exact Q4|right; split; [exact Q4|split; [lia|exact Q6]]].
  - (* a planned switch: by CM it leaves X12 *)
    assert (m0 <> X12) as NX.
    { intros ->. unfold CM, first_pos in HCM. rewrite EP1 in EP. rewrite EP in HCM. cbn [hd fst snd] in HCM. rewrite EX in HCM. specialize (HCM eq_refl). lia. }
    assert (m4_mode m0) as ABM by (rewrite EP1 in EP; rewrite EP in AB; inversion AB; assumption).
    assert (m4_plan (e_planned e2)) as AB2 by (rewrite EP2; rewrite EP1 in EP; rewrite EP in AB; inversion AB; assumption).
    destruct SWC as [(-> & EQ & _)|(-> & NE & NM2)]; [exfalso; apply NX; rewrite EQ; exact EX1|].
    assert (e_data e2 <> []) as ND2 by (rewrite D2; unfold chars_left in CL; destruct (e_data e1); [cbn in CL; lia|discriminate]).
    exists e2, true. split; [reflexivity|]. split; [rewrite S2; exact ES1|]. exists 1%nat. rewrite D2, ED1, C2, CW1, ED. cbn [length]. split; [lia|]. split; [lia|].
    right. split; [reflexivity|]. split; [lia|]. split; [rewrite <- ED1, <- D2; exact ND2|]. split; [exact PL2|]. split; [exact AB2|].
    assert (m0 = Ascii \/ m0 = Base256 \/ m0 = Edifact) as ABM' by (destruct ABM as [A|[B|[X|E]]]; [left; exact A|right; left; exact B|contradiction|right; right; exact E]).
    clear ABM. destruct ABM' as [MA|MB].
    + left. rewrite MA in *. destruct R01 as (R1 & R2 & R3 & R4 & R5). split; [exact EM|]. split; [rewrite NM2; cbn [et_latch_from_ascii]; exact NM1|].
      unfold AL, first_pos. rewrite EP2. cbn [hd fst]. rewrite D2. destruct PL1 as (X1 & _). rewrite X1, CL. exact (R3 eq_refl).
    + right. split; [rewrite EM; destruct MB as [-> | ->]; discriminate|]. apply (moved_next4 e1 e2 p0 m0 p1 m1 rest EP2); try assumption.
      * unfold chars_left. rewrite D2. exact CL.
      * destruct MB as [B|E]; [left; exact B|right; right; exact E].
Qed.

Definition post_x124 (e e' : enc) : Prop :=
  e_symbols e' = e_symbols e /\ (length (e_data e') <= length (e_data e))%nat /\
  (e_data e' = [] \/
   (e_encodation e' = Ascii /\ first_pos e' = 0 /\ PL data e' /\ m4_plan (e_planned e')) \/
   ((length (e_cw e) + 2 <= length (e_cw e'))%nat /\ (length (e_data e') + 3 <= length (e_data e))%nat /\ e_data e' <> [] /\
    ((e_encodation e' = Ascii /\ e_new_mode e' = e_new_mode e /\ PL data e' /\ AL e' /\ m4_plan (e_planned e')) \/
     (e_encodation e' <> Ascii /\ next_ok4 e')))).

Lemma abx_until_end4 : m4_plan [(0, Ascii)].
Proof. constructor; [left; reflexivity|constructor]. Qed.

Lemma x12_total4 e : e_encodation e = X12 -> m4_plan (e_planned e) -> PL data e -> CM e -> XL4 e ->
  match x12_encode e with
  | Panic _ => False
  | Err _ => True
  | Ok e' => post_x124 e e'
  end.
Proof.
  intros EX AB HPL HCM HXL. unfold x12_encode.
  destruct (x12_loop_total4 (S (length (e_data e))) e ltac:(lia) EX AB HPL HCM HXL) as (e1 & sw & -> & (S1 & k & K1 & K2 & CASE)). cbn [bind].
  (* the state that is handed to ASCII until the end of the data *)
  assert (forall c, post_x124 e (set_cw (set_ascii_until_end e1) c)) as UNTIL.
  { intros c. assert (PL data e1 /\ True) as [P1 _] by (destruct CASE as [(_ & _ & _ & P & _)|(_ & _ & _ & P & _)]; split; [exact P|exact I| exact P|exact I]).
    split; [exact S1|]. split; [cbn [e_data set_cw set_ascii_until_end]; lia|]. right. left. cbn [e_encodation e_planned set_cw set_ascii_until_end]. split; [reflexivity|].
    split; [reflexivity|]. split; [apply PL_set_cw4, PL_until_end4; exact P1|exact abx_until_end4]. }
  set (one := (chars_left e1 <=? 2) && (ascii_encoding_size (e_data e1) =? 1)).
  assert (forall early : bool, match (if early then Ok (set_ascii_until_end e1)
                               else let* need := (if has_more e1 then Ok true else let* l := ssl e1 0 in Ok (0 <? l)) in
                                    if need then Ok (push (if negb sw then set_ascii_until_end e1 else e1) UNLATCH) else Ok e1) : ER enc with
                        | Panic _ => False | Err _ => True | Ok e' => post_x124 e e' end) as REST.
  { intros early. destruct early.
    - pose proof (UNTIL (e_cw e1)) as U. exact U.
    - destruct (has_more e1) eqn:HM1; cbn [bind].
      + destruct sw; cbn [negb].
        * destruct CASE as [(X & _)|(_ & K3 & ND & P1 & A1 & MODES)]; [discriminate|].
          split; [exact S1|]. split; [cbn [e_data push set_cw]; lia|]. right. right. cbn [e_data e_cw e_encodation e_new_mode e_planned push set_cw]. rewrite app_length. cbn [length].
          split; [lia|]. split; [lia|]. split; [exact ND|]. destruct MODES as [(M1 & M2 & M3)|(M1 & M2)].
          -- left. split; [exact M1|]. split; [exact M2|]. split; [apply PL_set_cw4; exact P1|]. split; [exact M3|exact A1].
          -- right. split; [exact M1|]. apply next_ok_set_cw4. exact M2.
        * exact (UNTIL (e_cw e1 ++ [UNLATCH])).
      + unfold ssl. destruct (symbol_size_left e1 0) as [l|]; cbn [bind]; [|exact I]. destruct (0 <? l).
        * destruct sw; cbn [negb]; [|exact (UNTIL (e_cw e1 ++ [UNLATCH]))].
          destruct CASE as [(X & _)|(_ & _ & ND & _)]; [discriminate|]. unfold has_more in HM1. destruct (e_data e1); [contradiction|discriminate].
        * split; [exact S1|]. split; [lia|]. left. unfold has_more in HM1. destruct (e_data e1); [reflexivity|discriminate]. }
  destruct one.
  - unfold ssl. destruct (symbol_size_left e1 1) as [l|]; cbn [bind]; [|exact I]. apply REST.
  - cbn [bind]. apply (REST false).
Qed.

(* ---- an EDIFACT run ---- *)
Definition post_edi (e0 e' : enc) : Prop :=
  e_symbols e' = e_symbols e0 /\ e_input e' = data /\ (length (e_data e') <= length (e_data e0))%nat /\
  (e_data e' = [] \/
   (e_encodation e' = Ascii /\ first_pos e' = 0 /\ PL data e' /\ m4_plan (e_planned e')) \/
   ((length (e_cw e0) + 2 <= length (e_cw e'))%nat /\ (length (e_data e') + 1 <= length (e_data e0))%nat /\ e_data e' <> [] /\
    ((e_encodation e' = Ascii /\ e_new_mode e' = e_new_mode e0 /\ PL data e' /\ AL e' /\ m4_plan (e_planned e')) \/
     (e_encodation e' <> Ascii /\ next_ok4 e')))).

(* what the run has in hand: e0 is the state at its start *)
Definition EJ (e0 e : enc) (symbols : list N) : Prop :=
  PL data e /\ e_input e = data /\ e_symbols e = e_symbols e0 /\
  (length (e_cw e0) <= length (e_cw e))%nat /\ (length symbols <= 3)%nat /\ (length (e_data e) + length symbols <= length (e_data e0))%nat /\
  (length (e_data e0) <= length data)%nat.

Lemma sfx_shift (e : enc) k : PL data e -> (length (e_data e) + k <= length data)%nat -> e_input e = data ->
  skipn (length (e_input e) - length (e_data e) - k) (e_input e) = PlanAlign.suffix data (N.of_nat (length (e_data e) + k)) /\
  length (PlanAlign.suffix data (N.of_nat (length (e_data e) + k))) = (length (e_data e) + k)%nat.
Proof.
  intros _ L IN. rewrite IN. unfold PlanAlign.suffix. rewrite Nat2N.id. split; [f_equal; lia|]. rewrite skipn_length. lia.
Qed.

(* the end-of-data rule: either nothing happens, or the pending characters are handed back and ASCII takes over until the end *)
Lemma eaeod_total e0 e symbols : EJ e0 e symbols ->
  (edi_ascii_end_of_data e symbols = Ok (false, e)) \/
  (exists e', edi_ascii_end_of_data e symbols = Ok (true, e') /\ (e_symbols e' = e_symbols e0 /\ e_input e' = data) /\ (length (e_data e') <= length (e_data e0))%nat /\
     e_encodation e' = Ascii /\ first_pos e' = 0 /\ PL data e' /\ m4_plan (e_planned e')).
Proof.
  intros (HPL & IN & SY & CW & LS & LD & LN). unfold edi_ascii_end_of_data.
  destruct (_ <=? 4); [|left; reflexivity]. destruct (_ <=? 2); [|left; reflexivity].
  destruct (symbol_size_left e _) as [x|]; [|left; reflexivity]. destruct (_ && _); [|left; reflexivity].
  right. unfold backup. destruct (sfx_shift e (length symbols) HPL ltac:(lia) IN) as [SH LSH].
  assert (length (e_input e) = length data) as LI by (rewrite IN; reflexivity).
  destruct (Nat.ltb_spec (length (e_input e)) (length (e_data e))); [lia|]. destruct (Nat.ltb_spec (length (e_input e) - length (e_data e)) (length symbols)); [lia|].
  cbn [orb bind]. eexists. split; [reflexivity|]. cbn [e_symbols e_input e_data e_encodation e_planned set_ascii_until_end set_data]. rewrite SH.
  split; [split; [exact SY|exact IN]|]. split; [rewrite LSH; lia|]. split; [reflexivity|]. split; [reflexivity|]. split; [|constructor; [left; reflexivity|constructor]].
  unfold PL, chars_left. cbn [e_data e_planned set_ascii_until_end set_data]. rewrite LSH. split; [reflexivity|]. split; [lia|]. split; [lia|]. split; [split; exact I|reflexivity].
Qed.

Lemma write4_ok e s : s <> [] -> exists e', write4 e s = Ok e' /\ e_data e' = e_data e /\ e_symbols e' = e_symbols e /\ e_input e' = e_input e /\ e_planned e' = e_planned e /\
  e_encodation e' = e_encodation e /\ e_new_mode e' = e_new_mode e /\ (length (e_cw e) + 1 <= length (e_cw e'))%nat /\ ((2 <= length s)%nat -> (length (e_cw e) + 2 <= length (e_cw e'))%nat).
Proof.
  intros NE. unfold write4. destruct s as [|s0 r]; [contradiction|].
  destruct (Nat.leb_spec 2 (length (s0 :: r))) as [L2|L2]; [destruct (3 <=? length (s0 :: r))%nat|]; eexists; (split; [reflexivity|]);
    cbn [e_data e_symbols e_input e_planned e_encodation e_new_mode e_cw push set_cw]; rewrite ?app_length; cbn [length] in *;
    (split; [reflexivity|]); (split; [reflexivity|]); (split; [reflexivity|]); (split; [reflexivity|]); (split; [reflexivity|]); (split; [reflexivity|]); (split; [lia|]); intros H; lia.
Qed.

Lemma PL_same e e' : e_data e' = e_data e -> e_planned e' = e_planned e -> PL data e -> PL data e'.
Proof. intros D P (A & B & C). unfold PL, chars_left. rewrite D, P. split; [exact A|]. split; [exact B|exact C]. Qed.
Lemma next_ok4_same e e' : e_data e' = e_data e -> e_planned e' = e_planned e -> e_encodation e' = e_encodation e -> e_new_mode e' = e_new_mode e ->
  next_ok4 e -> next_ok4 e'.
Proof.
  intros D P M NM (N1 & N2 & N3 & N4 & N5 & N6). unfold next_ok4, CM, RB, XB4, first_pos, chars_left in *. rewrite D, P, M, NM.
  split; [exact N1|]. split; [apply (PL_same e); assumption|]. split; [exact N3|]. split; [exact N4|]. split; [exact N5|exact N6].
Qed.

Definition NXT (e0 e : enc) : Prop :=
  (e_encodation e = Ascii /\ e_new_mode e = e_new_mode e0 /\ AL e /\ m4_plan (e_planned e)) \/ (e_encodation e <> Ascii /\ next_ok4 e).

(* the run ends because the data ends *)
Lemma edi_end_data e0 e symbols : EJ e0 e symbols -> e_data e = [] ->
  match edi_handle_end e symbols with Panic _ => False | Err _ => True | Ok e' => post_edi e0 e' end.
Proof.
  intros HJ ED. pose proof HJ as (HPL & IN & SY & CW & LS & LD & LN). unfold edi_handle_end.
  assert (forall e', e_symbols e' = e_symbols e -> e_input e' = e_input e -> e_data e' = [] -> post_edi e0 e') as R1.
  { intros e' S' I' D'. split; [rewrite S'; exact SY|]. split; [rewrite I'; exact IN|]. split; [rewrite D'; cbn [length]; lia|]. left. exact D'. }
  assert (has_more e = false) as HM by (unfold has_more; rewrite ED; reflexivity).
  destruct symbols as [|s0 sr].
  - (* nothing pending: the rule is evaluated on an empty rest *)
    unfold edi_ascii_end_of_data. unfold chars_left. rewrite ED. cbn [length app N.of_nat N.add N.leb N.compare ascii_encoding_size]. cbv iota.
    unfold ssl. destruct (symbol_size_left e 0) as [x|] eqn:SS; cbn [bind].
    + rewrite N.add_0_r. destruct (N.leb_spec x 2) as [LE|GT]; cbn [andb].
      * destruct (eaeod_total e0 e [] HJ) as [E|(e' & E & Q1 & Q2 & Q3 & Q4 & Q5 & Q6)]; unfold edi_ascii_end_of_data in E; unfold chars_left in E; rewrite ED in E;
          cbn [length app N.of_nat N.add N.leb N.compare ascii_encoding_size] in E; cbv iota in E; rewrite SS, N.add_0_r in E.
        -- destruct (N.leb_spec x 2); [cbn [andb] in E|lia]. unfold backup in E. rewrite ED in E. cbn [length Nat.sub] in E.
           destruct (N.leb_spec 0 x); [|lia]. destruct (_ || _) in E; cbn [bind] in E; discriminate.
        -- destruct (N.leb_spec x 2); [cbn [andb] in E|lia]. destruct (N.leb_spec 0 x); [|lia]. rewrite E. cbn [bind]. split; [exact (proj1 Q1)|]. split; [exact (proj2 Q1)|]. split; [exact Q2|]. right. left. split; [exact Q3|split; [exact Q4|split; [exact Q5|exact Q6]]].
      * cbn [bind]. rewrite HM. cbn [negb]. rewrite SS. cbn [bind]. destruct (N.ltb_spec 0 x); [|apply R1; [reflexivity|reflexivity|exact ED]].
        destruct (N.ltb_spec 2 x); [|lia]. cbn [negb]. apply R1; [reflexivity|reflexivity|exact ED].
    + cbn [bind]. rewrite HM. cbn [negb]. rewrite SS. cbn [bind]. exact I.
  - destruct (eaeod_total e0 e (s0 :: sr) HJ) as [-> |(e' & -> & Q1 & Q2 & Q3 & Q4 & Q5 & Q6)]; cbn [bind].
    2:{ split; [exact (proj1 Q1)|]. split; [exact (proj2 Q1)|]. split; [exact Q2|]. right. left. split; [exact Q3|split; [exact Q4|split; [exact Q5|exact Q6]]]. }
    destruct (Nat.ltb_spec 3 (length (s0 :: sr))); [lia|]. rewrite HM. cbn [negb]. unfold ssl. destruct (symbol_size_left e _) as [l|]; cbn [bind]; [|exact I].
    destruct ((0 <? l) || Nat.eqb (length (s0 :: sr)) 3).
    + destruct (write4_ok (set_ascii_until_end e) ((s0 :: sr) ++ [edifact_UNLATCH]) ltac:(discriminate)) as (e' & -> & W1 & W2 & W3 & _). apply R1; [exact W2|exact W3|rewrite W1; exact ED].
    + destruct (write4_ok e (s0 :: sr) ltac:(discriminate)) as (e' & -> & W1 & W2 & W3 & _). apply R1; [exact W2|exact W3|rewrite W1; exact ED].
Qed.

(* the run ends at a planned switch *)
Lemma edi_end_switch e0 e symbols : EJ e0 e symbols -> e_data e <> [] -> (length (e_data e) + 1 <= length (e_data e0))%nat -> NXT e0 e ->
  (symbols = [] -> (length (e_cw e0) + 2 <= length (e_cw e))%nat) ->
  match edi_handle_end e symbols with Panic _ => False | Err _ => True | Ok e' => post_edi e0 e' end.
Proof.
  intros HJ ND LT HN CW2. pose proof HJ as (HPL & IN & SY & CW & LS & LD & LN). unfold edi_handle_end.
  destruct (eaeod_total e0 e symbols HJ) as [-> |(e' & -> & Q1 & Q2 & Q3 & Q4 & Q5 & Q6)]; cbn [bind].
  2:{ split; [exact (proj1 Q1)|]. split; [exact (proj2 Q1)|]. split; [exact Q2|]. right. left. split; [exact Q3|split; [exact Q4|split; [exact Q5|exact Q6]]]. }
  assert (has_more e = true) as HM by (unfold has_more; destruct (e_data e); [contradiction|reflexivity]).
  assert (forall e', e_data e' = e_data e -> e_planned e' = e_planned e -> e_encodation e' = e_encodation e -> e_new_mode e' = e_new_mode e -> e_symbols e' = e_symbols e ->
            e_input e' = e_input e -> (length (e_cw e0) + 2 <= length (e_cw e'))%nat -> post_edi e0 e') as R3.
  { intros e' D' P' M' NM' S' I' C'. split; [rewrite S'; exact SY|]. split; [rewrite I'; exact IN|]. split; [rewrite D'; lia|]. right. right. split; [exact C'|]. split; [rewrite D'; exact LT|]. split; [rewrite D'; exact ND|].
    destruct HN as [(H1 & H2 & H3 & H4)|(H1 & H2)].
    - left. split; [rewrite M'; exact H1|]. split; [rewrite NM'; exact H2|]. split; [apply (PL_same e); assumption|]. split; [unfold AL, first_pos in *; rewrite D', P'; exact H3|rewrite P'; exact H4].
    - right. split; [rewrite M'; exact H1|]. apply (next_ok4_same e); assumption. }
  destruct symbols as [|s0 sr].
  - rewrite HM. cbn [negb]. apply R3; try reflexivity. cbn [e_cw push set_cw]. rewrite app_length. specialize (CW2 eq_refl). cbn [length]. lia.
  - destruct (Nat.ltb_spec 3 (length (s0 :: sr))); [lia|]. rewrite HM. cbn [negb].
    destruct (write4_ok e ((s0 :: sr) ++ [edifact_UNLATCH]) ltac:(discriminate)) as (e' & -> & W1 & W2 & W3 & W4 & W5 & W6 & W7 & W8).
    apply R3; try assumption. specialize (W8 ltac:(rewrite app_length; cbn [length]; lia)). lia.
Qed.

Lemma edi_run_total e0 : forall fuel e symbols, (length (e_data e) < fuel)%nat -> EJ e0 e symbols ->
  e_encodation e = Edifact -> m4_plan (e_planned e) -> CM e -> e_new_mode e = e_new_mode e0 ->
  (e_data e = [] \/ first_pos e < chars_left e) ->
  match (let* (ret, e1, syms) := edi_loop fuel e symbols in match ret with Some e' => Ok e' | None => edi_handle_end e1 syms end) with
  | Panic _ => False | Err _ => True | Ok e' => post_edi e0 e' end.
Proof.
  induction fuel as [|f IH]; intros e symbols HF HJ EE AB HCM NM ST; [lia|]. cbn [edi_loop].
  pose proof HJ as (HPL & IN & SY & CW & LS & LD & LN).
  (* the end-of-data rule at a group boundary *)
  match goal with |- context C [if ?c then edi_ascii_end_of_data e symbols else Ok (false, e)] =>
    let G := context C [Ok (false, e) : ER (bool * enc)] in assert G as CONT end.
  2:{ match goal with |- context [if ?c then edi_ascii_end_of_data e symbols else Ok (false, e)] => destruct c end; [|exact CONT].
      destruct (eaeod_total e0 e symbols HJ) as [E|(e' & E & Q1 & Q2 & Q3 & Q4 & Q5 & Q6)]; rewrite E; [exact CONT|]. cbn [bind].
      split; [exact (proj1 Q1)|]. split; [exact (proj2 Q1)|]. split; [exact Q2|]. right. left. split; [exact Q3|split; [exact Q4|split; [exact Q5|exact Q6]]]. }
  cbn [bind]. unfold eat. destruct (e_data e) as [|ch t] eqn:ED.
  - (* the data ends *)
    cbn [bind]. apply (edi_end_data e0 e symbols HJ ED).
  - set (e1 := set_data e t).
    assert (first_pos e < chars_left e) as LT by (destruct ST as [ST|ST]; [discriminate|exact ST]).
    assert (chars_left e = N.of_nat (length t) + 1) as CLE by (unfold chars_left; rewrite ED; cbn [length]; lia).
    assert (PL data e1) as PL1.
    { change e1 with (set_cw (set_data e t) (e_cw e)). apply PL_consume; [exact HPL|]. exists [ch]. split; [rewrite ED; reflexivity|]. lia. }
    set (syms := symbols ++ [ch]).
    assert (length syms = S (length symbols)) as LSY by (unfold syms; rewrite app_length; cbn [length]; lia).
    (* after the step: e2 has the data of e1; what a switch or the next round needs *)
    assert (forall e2 syms2, e_data e2 = t -> e_planned e2 = e_planned e -> e_encodation e2 = Edifact -> e_new_mode e2 = e_new_mode e -> e_symbols e2 = e_symbols e ->
              e_input e2 = e_input e -> (length (e_cw e) <= length (e_cw e2))%nat -> (length syms2 <= 3)%nat -> (length syms2 <= S (length symbols))%nat ->
              (syms2 = [] -> (length (e_cw e0) + 2 <= length (e_cw e2))%nat) ->
              match (let* (sw, e3) := maybe_switch_mode e2 in
                     if sw then Ok (None, e3, syms2) else edi_loop f e3 syms2) with
              | Ok (ret, e4, s4) => match (match ret with Some e' => Ok e' | None => edi_handle_end e4 s4 end) with Panic _ => False | Err _ => True | Ok e' => post_edi e0 e' end
              | Err _ => True | Panic _ => False end) as STEP.
    { intros e2 syms2 D2 P2 M2 NM2 S2 I2 C2 L2 L2' CW2.
      assert (PL data e2) as PL2 by (apply (PL_same e1); [rewrite D2; reflexivity|rewrite P2; reflexivity|exact PL1]).
      assert (EJ e0 e2 syms2) as HJ2.
      { split; [exact PL2|]. split; [rewrite I2; exact IN|]. split; [rewrite S2; exact SY|]. split; [lia|]. split; [exact L2|]. split; [rewrite D2; cbn [length] in LD; lia|exact LN]. }
      destruct (msm_total data e2 PL2) as (sw & e3 & MS & (D3 & C3 & I3 & M3 & S3) & CASE). rewrite MS. cbn [bind].
      destruct CASE as [(-> & (EN3 & NM3 & EP3 & NS))|((p0 & m0 & p1 & m1 & rest & EP & EP3 & CL & POS & R01 & A01 & EM & SWC) & PL3)].
      - (* no switch: next character *)
        assert (EJ e0 e3 syms2) as HJ3.
        { destruct HJ2 as (J1 & J2 & J3 & J4 & J5 & J6 & J7). split; [apply (PL_same e2); assumption|]. split; [rewrite I3; exact J2|]. split; [rewrite S3; exact J3|].
          split; [rewrite C3; exact J4|]. split; [exact J5|]. split; [rewrite D3; exact J6|exact J7]. }
        specialize (IH e3 syms2 ltac:(rewrite D3, D2; cbn [length] in HF; lia) HJ3 ltac:(rewrite EN3; exact M2) ltac:(rewrite EP3, P2; exact AB)
                       ltac:(unfold CM, first_pos in *; rewrite EP3, P2, EN3, M2; rewrite <- EE; exact HCM) ltac:(rewrite NM3, NM2; exact NM)).
        assert (e_data e3 = [] \/ first_pos e3 < chars_left e3) as ST3.
        { unfold chars_left, first_pos in *. rewrite EP3, P2, D3, D2. rewrite D2, P2 in NS. destruct t as [|c2 t2]; [left; reflexivity|right].
          destruct NS as [NS|NS]; [cbn [length] in NS; lia|]. destruct PL2 as (_ & _ & X3). rewrite P2 in X3. destruct (e_planned e) as [|[q mq] rq]; [contradiction|]. cbn [hd fst] in *.
          destruct X3 as (X3 & _). unfold chars_left in X3. rewrite D2 in X3. lia. }
        specialize (IH ST3). destruct (edi_loop f e3 syms2) as [[[ret e4] s4]| |]; cbn [bind] in IH |- *; [exact IH|exact I|contradiction].
      - (* a planned switch: by CM it leaves EDIFACT *)
        assert (m0 <> Edifact) as NED.
        { intros ->. unfold CM, first_pos in HCM. rewrite P2 in EP. rewrite EP in HCM. cbn [hd fst snd] in HCM. rewrite EE in HCM. specialize (HCM eq_refl). lia. }
        assert (m4_mode m0) as ABM by (rewrite P2 in EP; rewrite EP in AB; inversion AB; assumption).
        assert (m4_plan (e_planned e3)) as AB3 by (rewrite EP3; rewrite P2 in EP; rewrite EP in AB; inversion AB; assumption).
        destruct SWC as [(-> & EQ & _)|(-> & NE & NM3)]; [exfalso; apply NED; rewrite EQ; exact M2|].
        assert (e_data e3 <> []) as ND3 by (rewrite D3; unfold chars_left in CL; destruct (e_data e2); [cbn in CL; lia|discriminate]).
        assert (EJ e0 e3 syms2) as HJ3.
        { destruct HJ2 as (J1 & J2 & J3 & J4 & J5 & J6 & J7). split; [exact PL3|]. split; [rewrite I3; exact J2|]. split; [rewrite S3; exact J3|].
          split; [rewrite C3; exact J4|]. split; [exact J5|]. split; [rewrite D3; exact J6|exact J7]. }
        apply (edi_end_switch e0 e3 syms2 HJ3 ND3); [rewrite D3, D2; cbn [length] in LD; lia| |intros Z; rewrite C3; exact (CW2 Z)].
        assert (m0 = Ascii \/ m0 = Base256 \/ m0 = X12) as [MA|MB] by (destruct ABM as [A|[B|[X|E]]]; [left; exact A|right; left; exact B|right; right; exact X|contradiction]).
        + left. rewrite MA in *. destruct R01 as (R1 & R2 & R3 & R4 & R5). split; [exact EM|]. split; [rewrite NM3; cbn [et_latch_from_ascii]; rewrite NM2; exact NM|].
          split; [|exact AB3]. unfold AL, first_pos. rewrite EP3. cbn [hd fst]. rewrite D3. destruct PL2 as (X1 & _). rewrite X1, CL. exact (R3 eq_refl).
        + right. split; [rewrite EM; destruct MB as [-> | ->]; discriminate|]. apply (moved_next4 e2 e3 p0 m0 p1 m1 rest EP3); try assumption.
          * unfold chars_left. rewrite D3. exact CL.
          * destruct MB as [B|X]; [left; exact B|right; left; exact X]. }
    destruct (Nat.eqb_spec (length syms) 4) as [L4|N4].
    + (* a complete group *)
      destruct (write4_ok e1 syms ltac:(unfold syms; destruct symbols; discriminate)) as (e2 & -> & W1 & W2 & W3 & W4 & W5 & W6 & W7 & W8). cbn [bind].
      specialize (W8 ltac:(lia)).
      assert (match (let* (sw, e3) := maybe_switch_mode e2 in if sw then Ok (None, e3, []) else edi_loop f e3 []) with
              | Ok (ret, e4, s4) => match (match ret with Some e' => Ok e' | None => edi_handle_end e4 s4 end) with Panic _ => False | Err _ => True | Ok e' => post_edi e0 e' end
              | Err _ => True | Panic _ => False end) as H4.
      { cbn [e_data e_symbols e_input e_planned e_encodation e_new_mode e_cw e1 set_data] in W1, W2, W3, W4, W5, W6, W7, W8.
        apply (STEP e2 [] W1 W4 ltac:(rewrite W5; exact EE) W6 W2 W3); [lia|cbn [length]; lia|cbn [length]; lia|intros _; lia]. }
      match goal with |- match (let* pat := ?X in _) with _ => _ end => destruct X as [[[ret e4] s4]| |] end; cbn [bind] in *; exact H4.
    + assert (match (let* (sw, e3) := maybe_switch_mode e1 in if sw then Ok (None, e3, syms) else edi_loop f e3 syms) with
              | Ok (ret, e4, s4) => match (match ret with Some e' => Ok e' | None => edi_handle_end e4 s4 end) with Panic _ => False | Err _ => True | Ok e' => post_edi e0 e' end
              | Err _ => True | Panic _ => False end) as H4.
      { apply (STEP e1 syms eq_refl eq_refl EE eq_refl eq_refl eq_refl); [cbn [e_cw e1 set_data]; lia|lia|lia|].
        intros Z. unfold syms in Z. destruct symbols; discriminate. }
      match goal with |- match (let* pat := ?X in _) with _ => _ end => destruct X as [[[ret e4] s4]| |] end; cbn [bind] in *; exact H4.
Qed.

(* ---- the main loop ---- *)
Definition MIx4 (e : enc) (nwr : N) : Prop :=
  e_input e = data /\
  (e_data e = [] \/
   (e_encodation e = Ascii /\ PL data e /\ AL e /\ m4_plan (e_planned e) /\ (nwr = 0 \/ (nwr <= 2 /\ first_pos e = 0))) \/
   (next_ok4 e /\ nwr <= 1)).

Definition mux4 (e : enc) : nat :=
  (3 * length (e_data e) + (match e_encodation e with Ascii => if (first_pos e =? 0)%N then 0 else 2 | _ => 1 end))%nat.

Lemma main_loop_total_x4 : forall fuel e nwr, (mux4 e < fuel)%nat -> MIx4 e nwr -> no_panic (main_loop fuel e nwr).
Proof.
  induction fuel as [|f IH]; intros e nwr HF (IN & HM); [lia|]. cbn [main_loop].
  destruct (has_more e) eqn:HMo; cbn [negb]; [|exact I].
  assert (e_data e <> []) as ND by (unfold has_more in HMo; destruct (e_data e); [discriminate|discriminate]).
  assert (1 <= length (e_data e))%nat as L1 by (destruct (e_data e); [contradiction|cbn [length]; lia]).
  set (e0 := match e_new_mode e with
             | Some m => push (mkenc (e_data e) (e_input e) (e_encodation e) (e_planned e) None (e_cw e) (e_modes e) (e_symbols e)) m
             | None => e end).
  assert (e_data e0 = e_data e /\ e_planned e0 = e_planned e /\ e_encodation e0 = e_encodation e /\ e_symbols e0 = e_symbols e /\ e_input e0 = e_input e) as (D0 & P0 & M0 & S0 & I0)
    by (unfold e0; destruct (e_new_mode e); repeat split).
  assert (PL data e -> PL data e0) as PL0.
  { intros (A & B & C). unfold PL, chars_left. rewrite D0, P0. split; [exact A|]. split; [exact B|exact C]. }
  assert (first_pos e0 = first_pos e /\ chars_left e0 = chars_left e) as [FP0 CL0] by (unfold first_pos, chars_left; rewrite D0, P0; split; reflexivity).
  assert (forall e', mode_encode e0 = Ok e' -> (length (e_cw e0) <= length (e_cw e'))%nat) as GR by (intros e' H; apply (cw_grows data); exact H).
  (* what follows an iteration that may have written less than two codewords: the end of the data, or ASCII until the end *)
  assert (forall e' k, e_input e' = data -> (k = 0 \/ (k <= 2 /\ (e_data e' = [] \/ (e_encodation e' = Ascii /\ first_pos e' = 0)))) -> (mux4 e' < f)%nat ->
            (e_data e' = [] \/
             (e_encodation e' = Ascii /\ first_pos e' = 0 /\ PL data e' /\ m4_plan (e_planned e')) \/
             (e_data e' <> [] /\ ((e_encodation e' = Ascii /\ PL data e' /\ AL e' /\ m4_plan (e_planned e')) \/ (e_encodation e' <> Ascii /\ next_ok4 e')))) ->
            no_panic (main_loop f e' k)) as NEXT.
  { intros e' k IN' Hk MU T3. apply IH; [exact MU|]. split; [exact IN'|].
    destruct T3 as [D'|[(E' & FZ & PL' & AB')|(ND' & MODES)]]; [left; exact D'| |].
    - right. left. split; [exact E'|]. split; [exact PL'|]. split; [unfold AL; rewrite FZ; apply aligned_0|]. split; [exact AB'|].
      destruct Hk as [-> |[Hk _]]; [left; reflexivity|right; split; [exact Hk|exact FZ]].
    - destruct Hk as [-> |[HK2 [Hk|(Hk1 & Hk2)]]].
      + destruct MODES as [(M1 & M3 & M4 & M5)|(M1 & M2)]; [right; left; split; [exact M1|split; [exact M3|split; [exact M4|split; [exact M5|left; reflexivity]]]]|right; right; split; [exact M2|lia]].
      + contradiction.
      + destruct MODES as [(M1 & M3 & M4 & M5)|(M1 & M2)]; [|contradiction].
        right. left. split; [exact M1|]. split; [exact M3|]. split; [exact M4|]. split; [exact M5|]. right. split; [exact HK2|exact Hk2]. }
  destruct HM as [HM|[(EA & HPL & HAL & AB & NW)|((N1 & N2 & N3 & N4 & N5 & N6) & NW)]]; [contradiction| |].
  - (* an ASCII run *)
    unfold mode_encode in *. rewrite M0, EA in *.
    destruct (ascii_total_x4 (S (S (length (e_data e0)))) e0 ltac:(lia) M0 ltac:(rewrite P0; exact AB) (PL0 HPL)
                ltac:(unfold AL; rewrite D0, FP0; exact HAL)) as (e' & AE & (P1 & P2 & P3)).
    rewrite AE. cbn [bind]. specialize (GR e' AE). pose proof (input_ascii _ _ _ AE) as IE.
    destruct (Nat.ltb_spec (length (e_cw e')) (length (e_cw e0))); [lia|].
    assert (forall k, (k <= 1 \/ e_data e' = []) -> no_panic (main_loop f e' k)) as NXA.
    { intros k Hk. apply IH.
      - unfold mux4 in *. rewrite EA in HF. rewrite D0 in P1. destruct P3 as [(D' & E')|(FP & (Q1 & _ & _ & _ & _ & MODES))].
        + rewrite D', E'. cbn [length]. destruct (first_pos e' =? 0); destruct (first_pos e =? 0); lia.
        + rewrite FP0 in FP. destruct (N.eqb_spec (first_pos e) 0); [lia|]. destruct MODES as [(E' & _)|[(E' & _)|(E' & _)]]; rewrite E'; lia.
      - split; [rewrite IE, I0; exact IN|]. destruct P3 as [(D' & _)|(FP & NO)]; [left; exact D'|]. right. right. split; [exact NO|]. destruct Hk as [Hk|Hk]; [exact Hk|]. destruct NO as (X & _). contradiction. }
    destruct (length (e_cw e') - length (e_cw e0) <=? 1)%nat.
    + assert (nwr + 1 <= 3) as B3 by (destruct NW as [-> |[NW _]]; lia). destruct (N.ltb_spec 5 (nwr + 1)); [lia|]. apply NXA.
      destruct P3 as [(D' & _)|(FP & _)]; [right; exact D'|]. left. rewrite FP0 in FP. destruct NW as [-> |[_ Z]]; lia.
    + apply NXA. left. lia.
  - destruct N6 as [(EB & NM & HRB)|[(EX & NM & HXB)|(EE & NM)]].
    + (* a Base256 run *)
      unfold e0 in *. rewrite NM in *. set (e1 := push (mkenc (e_data e) (e_input e) (e_encodation e) (e_planned e) None (e_cw e) (e_modes e) (e_symbols e)) 231) in *.
      unfold mode_encode in *. rewrite M0, EB in *. unfold base256_encode in *.
      set (pre := e_cw e1) in *.
      assert (1 <= length pre)%nat as LP by (unfold pre, e1; cbn [e_cw push set_cw]; rewrite app_length; cbn [length]; lia).
      assert (BIx4 pre (push e1 0)) as HBI.
      { destruct HRB as (R0 & R1 & R2).
        assert (first_pos (push e1 0) = first_pos e /\ chars_left (push e1 0) = chars_left e) as [FP CL] by (split; reflexivity).
        split; [exact EB|]. split; [exact N4|]. split; [exact N2|]. split; [exact N3|]. split; [rewrite FP, CL; exact R0|].
        exists []. split; [reflexivity|]. rewrite FP, CL. cbn [length]. split; [lia|intros P; specialize (R2 P); lia]. }
      pose proof (b256_total_x4 pre LP (S (S (length (e_data e1)))) (push e1 0) ltac:(cbn [e_data e1 push set_cw]; lia) HBI) as BT.
      destruct (b256_loop (S (S (length (e_data e1)))) (push e1 0) (length pre)) as [e'| |] eqn:BL; cbn [bind]; [|exact I|contradiction].
      pose proof (input_b256 _ _ _ _ BL) as IE. cbn [e_input e1 push set_cw] in IE.
      destruct BT as (Q1 & Q2 & Q3 & Q5). cbn [e_data e_new_mode e1 push set_cw] in Q2, Q5.
      destruct (Nat.ltb_spec (length (e_cw e')) (length pre)); [lia|].
      destruct (Nat.leb_spec (length (e_cw e') - length pre) 1); [lia|].
      apply (NEXT e' 0 ltac:(rewrite IE; exact IN) ltac:(left; reflexivity)).
      * unfold mux4 in *. rewrite EB in HF. destruct (e_encodation e'); try destruct (first_pos e' =? 0); lia.
      * destruct Q5 as [(Q5 & _)|[(Q5 & Q6 & Q7 & Q8 & Q9 & Q10)|(Q5 & Q6)]]; [left; exact Q5| |].
        -- right. right. split; [exact Q5|]. left. split; [exact Q6|]. split; [exact Q8|]. split; [exact Q9|exact Q10].
        -- right. right. split; [destruct Q6 as (X & _); exact X|]. right. split; [exact Q5|exact Q6].
    + (* an X12 run *)
      unfold e0 in *. rewrite NM in *. set (e1 := push (mkenc (e_data e) (e_input e) (e_encodation e) (e_planned e) None (e_cw e) (e_modes e) (e_symbols e)) 238) in *.
      unfold mode_encode in *. rewrite M0, EX in *.
      pose proof (x12_total4 e1 ltac:(exact EX) ltac:(exact N4) (PL0 N2) ltac:(unfold CM in *; exact N3)) as XT.
      assert (XL4 e1) as HXL by (split; [exact HXB|intros _; exact N5]). specialize (XT HXL).
      destruct (x12_encode e1) as [e'| |] eqn:XE; cbn [bind]; [|exact I|contradiction]. specialize (GR e' eq_refl).
      pose proof (input_x12 _ _ XE) as IE. cbn [e_input e1 push set_cw] in IE.
      destruct XT as (T1 & T2 & T3). cbn [e_data e1 push set_cw] in T2.
      destruct (Nat.ltb_spec (length (e_cw e')) (length (e_cw e1))); [lia|].
      assert (mux4 e' < f)%nat as MU.
      { unfold mux4 in *. rewrite EX in HF. destruct T3 as [D'|[(E' & FZ & _)|(_ & T4 & _)]].
        - rewrite D'. cbn [length]. destruct (e_encodation e'); try destruct (first_pos e' =? 0); lia.
        - rewrite E', FZ. cbn [N.eqb]. lia.
        - cbn [e_data e1 push set_cw] in T4. destruct (e_encodation e'); try destruct (first_pos e' =? 0); lia. }
      assert (e_data e' = [] \/ (e_encodation e' = Ascii /\ first_pos e' = 0 /\ PL data e' /\ m4_plan (e_planned e')) \/
              (e_data e' <> [] /\ ((e_encodation e' = Ascii /\ PL data e' /\ AL e' /\ m4_plan (e_planned e')) \/ (e_encodation e' <> Ascii /\ next_ok4 e')))) as CLS.
      { destruct T3 as [D'|[T3|(_ & _ & ND' & [(M1 & _ & M3 & M4 & M5)|M2])]]; [left; exact D'|right; left; exact T3|right; right; split; [exact ND'|left; split; [exact M1|split; [exact M3|split; [exact M4|exact M5]]]]|right; right; split; [exact ND'|right; exact M2]]. }
      destruct (Nat.leb_spec (length (e_cw e') - length (e_cw e1)) 1) as [LE|GT].
      * destruct (N.ltb_spec 5 (nwr + 1)); [lia|]. apply (NEXT e' (nwr + 1) ltac:(rewrite IE; exact IN)); [|exact MU|exact CLS]. right. split; [lia|].
        destruct T3 as [D'|[(E' & FZ & _)|(T3 & _)]]; [left; exact D'|right; split; assumption|lia].
      * apply (NEXT e' 0 ltac:(rewrite IE; exact IN) ltac:(left; reflexivity) MU CLS).
    + (* an EDIFACT run *)
      unfold e0 in *. rewrite NM in *. set (e1 := push (mkenc (e_data e) (e_input e) (e_encodation e) (e_planned e) None (e_cw e) (e_modes e) (e_symbols e)) 240) in *.
      unfold mode_encode in *. rewrite M0, EE in *. unfold edifact_encode in *.
      assert (EJ e1 e1 []) as HJ.
      { split; [exact (PL0 N2)|]. split; [exact IN|]. split; [reflexivity|]. split; [lia|]. split; [cbn [length]; lia|]. split; [cbn [length]; lia|].
        destruct N2 as (_ & X & _). exact X. }
      pose proof (edi_run_total e1 (S (length (e_data e1))) e1 [] ltac:(lia) HJ EE N4 ltac:(unfold CM in *; exact N3) eq_refl ltac:(right; exact N5)) as ET.
      match goal with |- no_panic (let* e' := ?X in _) => destruct X as [e'| |] eqn:XE end; cbn [bind]; [|exact I|contradiction]. specialize (GR e' eq_refl).
      destruct ET as (T1 & IE & T2 & T3). cbn [e_data e1 push set_cw] in T2.
      destruct (Nat.ltb_spec (length (e_cw e')) (length (e_cw e1))); [lia|].
      assert (mux4 e' < f)%nat as MU.
      { unfold mux4 in *. rewrite EE in HF. destruct T3 as [D'|[(E' & FZ & _)|(_ & T4 & _)]].
        - rewrite D'. cbn [length]. destruct (e_encodation e'); try destruct (first_pos e' =? 0); lia.
        - rewrite E', FZ. cbn [N.eqb]. lia.
        - cbn [e_data e1 push set_cw] in T4. destruct (e_encodation e'); try destruct (first_pos e' =? 0); lia. }
      assert (e_data e' = [] \/ (e_encodation e' = Ascii /\ first_pos e' = 0 /\ PL data e' /\ m4_plan (e_planned e')) \/
              (e_data e' <> [] /\ ((e_encodation e' = Ascii /\ PL data e' /\ AL e' /\ m4_plan (e_planned e')) \/ (e_encodation e' <> Ascii /\ next_ok4 e')))) as CLS.
      { destruct T3 as [D'|[T3|(_ & _ & ND' & [(M1 & _ & M3 & M4 & M5)|M2])]]; [left; exact D'|right; left; exact T3|right; right; split; [exact ND'|left; split; [exact M1|split; [exact M3|split; [exact M4|exact M5]]]]|right; right; split; [exact ND'|right; exact M2]]. }
      destruct (Nat.leb_spec (length (e_cw e') - length (e_cw e1)) 1) as [LE|GT].
      * destruct (N.ltb_spec 5 (nwr + 1)); [lia|]. apply (NEXT e' (nwr + 1) IE); [|exact MU|exact CLS]. right. split; [lia|].
        destruct T3 as [D'|[(E' & FZ & _)|(T3 & _)]]; [left; exact D'|right; split; assumption|lia].
      * apply (NEXT e' 0 IE ltac:(left; reflexivity) MU CLS).
Qed.
End T.

(* ---- the entry points, every mode set within {ASCII, Base256, X12} ---- *)
Lemma codewords_abx_total4 sorter e :
  (forall sl k l, exists l', sorter sl k l = Ok l' /\ incl l' l) ->
  (forall m, enabled (e_modes e) m = true -> m4_mode m) -> e_encodation e = Ascii -> e_input e = e_data e ->
  no_panic (codewords (optimize_fn sorter) e).
Proof.
  intros HS HM EA EI. unfold codewords. destruct (e_symbols e) as [|s0 sr] eqn:ES; [exact I|]. rewrite <- ES.
  set (symbols := e_symbols e). set (data := e_data e). set (modes := e_modes e).
  assert (forall k l l', sorter symbols k l = Ok l' -> incl l' l) as HI.
  { intros k l l' E. destruct (HS symbols k l) as (l2 & E2 & I2). rewrite E in E2. inversion E2; subst. exact I2. }
  destruct (_ <? _); [exact I|]. destruct (upper_limit_for_number_of_codewords _ _); [|exact I].
  unfold optimize_fn.
  destruct (optimize_total symbols (sorter symbols) (HS symbols) data (cw_len e) Ascii modes) as [[r st] EO]. rewrite EO. cbn [bind lift].
  destruct r as [p|]; [|exact I]. rewrite EA.
  set (e0 := mkenc data (e_input e) Ascii p (e_new_mode e) (e_cw e) modes symbols).
  assert (no_panic (main_loop (6 * length (e_data e0) + 12) e0 0)) as NP.
  { apply (main_loop_total_x4 data); [unfold mux4; cbn [e_data e_encodation e0]; destruct (first_pos e0 =? 0); lia|].
    split; [exact EI|]. assert (data = [] \/ data <> []) as [ED|ND] by (destruct data; [left; reflexivity|right; discriminate]); [left; exact ED|].
    destruct (optimize_align symbols data (sorter symbols) (HS symbols) (cw_len e) Ascii modes p st ND EO) as (NE & (RO & AO) & FIRST).
    destruct (optimize_shape symbols (sorter symbols) HI data (cw_len e) Ascii modes p st EO) as (_ & MO & LA).
    right. left. split; [reflexivity|]. destruct p as [|[p0 m0] rest]; [contradiction|]. destruct FIRST as [F1 F2].
    split; [|split; [exact F2|split; [|left; reflexivity]]].
    - split; [cbn [e_data e0]; unfold chars_left; cbn [e_data]; symmetry; apply PlanAlign.suffix_n|]. split; [cbn [e_data e0]; lia|].
      cbn [e_planned e0]. split; [unfold chars_left; cbn [e_data]; exact F1|]. split; [split; assumption|exact (LA ltac:(discriminate))].
    - unfold m4_plan. apply Forall_forall. intros x Hx. unfold modes_ok in MO. rewrite Forall_forall in MO. apply HM. exact (MO x Hx). }
  change (e_data e0) with data in *.
  destruct (main_loop (6 * length data + 12) e0 0) as [e3| |]; cbn [bind]; [|exact I|contradiction].
  destruct (symbol_for e3 0) as [s'|] eqn:SF; [|exact I].
  destruct (add_padding_total e3 s' SF) as (e4 & ->). exact I.
Qed.

(* every byte string, symbol list, macro / FNC1 option and ECI number up to 999999 *)
Theorem abx_total4 sorter data symbols eci modes use_macros fnc1 :
  (forall sl k l, exists l', sorter sl k l = Ok l' /\ incl l' l) ->
  (forall m, enabled modes m = true -> m4_mode m) ->
  match eci with Some c => c <= 999999 | None => True end ->
  no_panic (encode_data_internal (optimize_fn sorter) data symbols eci modes use_macros fnc1).
Proof.
  intros HS HM HE. unfold encode_data_internal. cbv zeta.
  set (e := with_size data symbols modes fnc1).
  assert (forall e1, e_encodation e1 = Ascii -> e_modes e1 = modes -> e_input e1 = e_data e1 ->
            no_panic (let* e2 := match eci with Some c => enc_write_eci e1 c | None => Ok e1 end in codewords (optimize_fn sorter) e2)) as STEP.
  { intros e1 A1 A3 A4. destruct eci as [c|]; cbn [bind].
    - destruct (enc_write_eci_total e1 c HE) as (e2 & E2). rewrite E2. cbn [bind]. unfold enc_write_eci in E2. destruct (write_eci c); try discriminate.
      inversion E2; subst e2. apply codewords_abx_total4; [exact HS|cbn [e_modes set_cw]; rewrite A3; exact HM|exact A1|exact A4].
    - apply codewords_abx_total4; [exact HS|rewrite A3; exact HM|exact A1|exact A4]. }
  destruct use_macros.
  - destruct (use_macro_spec e) as (e1 & UM & _). rewrite UM. cbn [bind]. destruct (use_macro_keeps e e1 UM) as (K1 & K2 & K3).
    apply STEP; [rewrite K1; reflexivity|rewrite K3; reflexivity|].
    revert UM. unfold use_macro_if_possible. destruct (_ || _); [intros [= <-]; reflexivity|].
    destruct (starts_with (e_data e) MACRO05_HEAD); [|destruct (starts_with (e_data e) MACRO06_HEAD); [|intros [= <-]; reflexivity]];
      (destruct (_ || _); [discriminate|]; intros [= <-]; reflexivity).
  - cbn [bind]. apply STEP; reflexivity.
Qed.
Print Assumptions abx_total4.
