(* Proofs/PathProofs.v -- property C17: the outline graph is the dark/light boundary; any well-formed path that
   draws every vertical boundary edge an odd number of times (and no other vertical edge an odd number of
   times) fills exactly the dark modules under the even-odd rule; soundness of the certificate check; pixels(). *)
From Coq Require Import ZArith List Bool Lia Arith.
From DM Require Import Model.Outcome Model.Path Spec.EvenOdd.
Import ListNotations.
Local Open Scope Z_scope.

Section Bitmap.
Variables (bits : PM.t bool) (w h : Z).
Notation D := (dark bits w h).

Lemma dark_out_left i : D i (-1) = false.
Proof. unfold dark. destruct (0 <=? i), (i <? h); reflexivity. Qed.
Lemma dark_out_right i : D i w = false.
Proof. unfold dark. rewrite Z.ltb_irrefl, andb_false_r. reflexivity. Qed.
Lemma dark_out_top j : D (-1) j = false.
Proof. unfold dark. reflexivity. Qed.
Lemma dark_out_bottom j : D h j = false.
Proof. unfold dark. rewrite Z.ltb_irrefl, andb_false_r. reflexivity. Qed.

(* bits_to_edge_graph: an edge is in the graph iff it separates a dark module from a light (or absent) one *)
Lemma left_at_xor i j : 0 <= j <= w -> left_at bits w h i j = xorb (D i j) (D i (j - 1)).
Proof.
  intros Hj. unfold left_at.
  destruct (Z.eqb_spec j 0) as [->|N0].
  - change (0 - 1) with (-1). rewrite dark_out_left. destruct (D i 0); reflexivity.
  - destruct (Z.eqb_spec (j - 1) (w - 1)) as [E|NE].
    + assert (j = w) as -> by lia. rewrite dark_out_right. destruct (D i (w - 1)); reflexivity.
    + cbn [orb]. destruct (D i j), (D i (j - 1)); reflexivity.
Qed.
Lemma top_at_xor i j : 0 <= i <= h -> top_at bits w h i j = xorb (D i j) (D (i - 1) j).
Proof.
  intros Hi. unfold top_at.
  destruct (Z.eqb_spec i 0) as [->|N0].
  - change (0 - 1) with (-1). rewrite dark_out_top. destruct (D 0 j); reflexivity.
  - destruct (Z.eqb_spec (i - 1) (h - 1)) as [E|NE].
    + assert (i = h) as -> by lia. rewrite dark_out_bottom. destruct (D (h - 1) j); reflexivity.
    + cbn [orb]. destruct (D i j), (D (i - 1) j); reflexivity.
Qed.

(* telescoping: the parity of boundary edges at columns 0..x of row y is the colour of module (x, y) *)
Fixpoint xor_upto (f : Z -> bool) (n : nat) : bool :=      (* f 0 xor ... xor f n *)
  match n with O => f 0 | S k => xorb (xor_upto f k) (f (Z.of_nat (S k))) end.
Lemma boundary_telescope y n : Z.of_nat n <= w -> xor_upto (fun x => left_at bits w h y x) n = D y (Z.of_nat n).
Proof.
  induction n as [|n IH]; intros Hn; cbn [xor_upto].
  - rewrite left_at_xor by lia. change (0 - 1) with (-1). rewrite dark_out_left. apply xorb_false_r.
  - rewrite IH by lia. rewrite left_at_xor by lia. replace (Z.of_nat (S n) - 1) with (Z.of_nat n) by lia.
    destruct (D y (Z.of_nat n)), (D y (Z.of_nat (S n))); reflexivity.
Qed.
End Bitmap.

(* counting drawn edges *)
Lemma count_le_step es x y : count_le es x y = (count_le es (x - 1) y + count_at es x y)%nat.
Proof.
  unfold count_le, count_at. induction es as [|[ex ey] r IH]; cbn [filter fst snd length]; [reflexivity|].
  destruct (ey =? y); cbn [andb]; [|exact IH].
  destruct (Z.leb_spec ex x), (Z.leb_spec ex (x - 1)), (Z.eqb_spec ex x); try lia; cbn [length]; lia.
Qed.
Lemma count_le_neg es y : Forall (fun e => 0 <= fst e) es -> count_le es (-1) y = O.
Proof.
  unfold count_le. induction 1 as [|[ex ey] r H _ IH]; cbn [filter fst snd length] in *; [reflexivity|].
  destruct (ey =? y); cbn [andb]; [|exact IH]. destruct (Z.leb_spec ex (-1)); [lia|exact IH].
Qed.
Lemma odd_add a b : Nat.odd (a + b) = xorb (Nat.odd a) (Nat.odd b).
Proof. apply Nat.odd_add. Qed.

Lemma count_le_parity es y n : Forall (fun e => 0 <= fst e) es ->
  Nat.odd (count_le es (Z.of_nat n) y) = xor_upto (fun x => Nat.odd (count_at es x y)) n.
Proof.
  intros F. induction n as [|n IH]; cbn [xor_upto].
  - rewrite count_le_step. change (Z.of_nat 0 - 1) with (-1). rewrite (count_le_neg es y F). reflexivity.
  - rewrite count_le_step, odd_add. replace (Z.of_nat (S n) - 1) with (Z.of_nat n) by lia. rewrite IH. reflexivity.
Qed.
Lemma xor_upto_ext f g n : (forall k, (k <= n)%nat -> f (Z.of_nat k) = g (Z.of_nat k)) -> xor_upto f n = xor_upto g n.
Proof.
  induction n as [|n IH]; intros H; cbn [xor_upto]; [apply (H O); lia|].
  rewrite IH by (intros k Hk; apply H; lia). rewrite (H (S n)) by lia. reflexivity.
Qed.

(* every drawn vertical edge has a non-negative abscissa when the path stays in the box *)
Lemma vunits_fst x y0 y1 e : In e (vunits x y0 y1) -> fst e = x.
Proof. unfold vunits. intros H. apply in_map_iff in H. destruct H as (k & <- & _). reflexivity. Qed.

Lemma draw_edges_nonneg w h segs : forall p, good (fold_left (draw1 w h) segs p) = true ->
  0 <= fst (cur p) -> 0 <= fst (sub_start p) -> Forall (fun e => 0 <= fst e) (edges p) ->
  Forall (fun e => 0 <= fst e) (edges (fold_left (draw1 w h) segs p)).
Proof.
  induction segs as [|s r IH]; intros p G C S F; cbn [fold_left] in *; [exact F|].
  assert (good (draw1 w h p s) = true) as G1.
  { clear IH. revert G. generalize (draw1 w h p s) as q. induction r as [|s' r IHr]; intros q G; cbn [fold_left] in G; [exact G|].
    apply IHr in G. destruct q as [[qx qy] [qsx qsy] qe qa qg]. destruct s'; cbn in G; destruct qg; cbn in G; auto; discriminate. }
  apply IH; [exact G| | |]; destruct p as [[x y] [sx sy] es ac g]; cbn [cur sub_start edges fst] in *; destruct s; cbn in G1 |- *;
    try (rewrite !andb_true_iff in G1; unfold in_box in G1; cbn in G1; rewrite ?andb_true_iff, ?Z.leb_le in G1);
    try lia; try assumption;
    try (apply Forall_app; split; [assumption|]; try (destruct (x =? sx); [|constructor]);
         apply Forall_forall; intros e He; rewrite (vunits_fst _ _ _ _ He); assumption).
Qed.

(* T2: even-odd fill of any well-formed path whose vertical edge parities are exactly the boundary *)
Theorem evenodd_fills_dark bits w h segs :
  wf_path w h segs = true ->
  (forall x y, 0 <= x <= w -> 0 <= y < h ->
     Nat.odd (count_at (edges (draw w h segs)) x y) = left_at bits w h y x) ->
  forall x y, 0 <= x < w -> 0 <= y < h -> inside w h segs x y = dark bits w h y x.
Proof.
  intros WF PAR x y Hx Hy. unfold inside, wf_path in *. apply andb_true_iff in WF. destruct WF as [G _].
  assert (Forall (fun e => 0 <= fst e) (edges (draw w h segs))) as F.
  { unfold draw. apply draw_edges_nonneg; cbn; try lia; [exact G|constructor]. }
  rewrite <- (Z2Nat.id x) by lia. rewrite (count_le_parity _ y _ F).
  rewrite (xor_upto_ext _ (fun x => left_at bits w h y x)).
  - apply boundary_telescope. lia.
  - intros k Hk. apply PAR; lia.
Qed.

(* the certificate check is sound: it implies well-formedness and the fill on every module *)
Lemma in_cells w h x y : 0 <= x < w -> 0 <= y < h -> In (x, y) (cells w h).
Proof.
  intros Hx Hy. unfold cells. apply in_flat_map. exists (Z.to_nat y). split; [apply in_seq; lia|].
  apply in_map_iff. exists (Z.to_nat x). split; [f_equal; lia|apply in_seq; lia].
Qed.
Theorem check_path_sound bits w h segs : check_path bits w h segs = true ->
  wf_path w h segs = true /\
  forall x y, 0 <= x < w -> 0 <= y < h -> inside w h segs x y = dark (bits_map bits) w h y x.
Proof.
  unfold check_path. intros H. apply andb_true_iff in H. destruct H as [WF A]. split; [exact WF|].
  intros x y Hx Hy. rewrite forallb_forall in A. specialize (A (x, y) (in_cells w h x y Hx Hy)).
  cbn [fst snd] in A. apply Bool.eqb_prop in A. exact A.
Qed.

(* what well-formedness gives, spelled out for a single drawing step *)
Theorem wf_step w h p s : good (draw1 w h p s) = true ->
  good p = true /\
  match s with
  | Hor d | Ver d => d <> 0 /\ in_box w h (cur (draw1 w h p s)) = true /\ after_close p = false
  | Close => after_close p = false /\ cur p <> sub_start p /\ (fst (cur p) = fst (sub_start p) \/ snd (cur p) = snd (sub_start p))
  | Move _ _ => after_close p = true /\ in_box w h (cur (draw1 w h p s)) = true
  end.
Proof.
  destruct p as [[x y] [sx sy] es ac g]. destruct s; cbn; rewrite ?andb_true_iff, ?negb_true_iff, ?orb_true_iff, ?andb_true_iff, ?negb_true_iff, ?Z.eqb_eq, ?Z.eqb_neq.
  - intros [[A B] C]. split; [exact A|]. repeat split; assumption.
  - intros [[[A B] C] D]. split; [exact A|]. repeat split; assumption.
  - intros [[[A B] C] D]. split; [exact A|]. repeat split; assumption.
  - intros [[A B] [[C D]|[C D]]]; (split; [exact A|]); (split; [exact B|]); (split; [intros E; inversion E; congruence|]); [left|right]; exact C.
Qed.

(* ---------- Bitmap::pixels ---------- *)
Lemma bitmap_new_ok l w h : bitmap_new l w = Ok h -> w <> 0 /\ h = Z.of_nat (length l) / w.
Proof.
  unfold bitmap_new. destruct (Z.eqb_spec w 0); [discriminate|]. destruct (negb _); [discriminate|].
  intros [= <-]. split; [assumption|reflexivity].
Qed.

Theorem pixels_spec l w ps : 0 < w -> pixels l w = Ok ps ->
  (forall x y, In (x, y) ps <-> 0 <= x < w /\ 0 <= y /\ nth (Z.to_nat (y * w + x)) l false = true) /\
  Sorted.StronglySorted (fun a b => snd a * w + fst a < snd b * w + fst b) ps.
Proof.
  intros Hw. unfold pixels. destruct (bitmap_new l w) as [h| |]; cbn [bind]; try discriminate. intros [= <-]. split.
  - intros x y. rewrite in_map_iff. split.
    + intros (k & E & Hk). apply filter_In in Hk. destruct Hk as [_ Hk]. inversion E; subst x y.
      pose proof (Z.mod_pos_bound (Z.of_nat k) w Hw). pose proof (Z.div_pos (Z.of_nat k) w ltac:(lia) Hw).
      split; [lia|]. split; [lia|].
      replace (Z.of_nat k / w * w + Z.of_nat k mod w) with (Z.of_nat k) by (rewrite (Z.div_mod (Z.of_nat k) w) at 1; lia).
      rewrite Nat2Z.id. exact Hk.
    + intros (Hx & Hy & Hn). exists (Z.to_nat (y * w + x)). split.
      * rewrite Z2Nat.id by nia. f_equal.
        -- rewrite Z.add_comm, Z.mod_add by lia. apply Z.mod_small. lia.
        -- rewrite Z.add_comm, Z.div_add by lia. rewrite Z.div_small by lia. lia.
      * apply filter_In. split; [|exact Hn]. apply in_seq. split; [lia|]. cbn.
        destruct (Nat.lt_ge_cases (Z.to_nat (y * w + x)) (length l)) as [L|G]; [exact L|].
        rewrite nth_overflow in Hn by exact G. discriminate.
  - generalize (seq_NoDup (length l) 0). intros _.
    assert (forall n s, Sorted.StronglySorted (fun a b => snd a * w + fst a < snd b * w + fst b)
              (map (fun k => (Z.of_nat k mod w, Z.of_nat k / w)) (filter (fun k => nth k l false) (seq s n)))) as H.
    { induction n as [|n IH]; intros s; cbn [seq filter map]; [constructor|].
      destruct (nth s l false); cbn [map]; [|apply IH].
      constructor; [apply IH|]. apply Forall_forall. intros [x y] Hin. apply in_map_iff in Hin.
      destruct Hin as (k & E & Hk). apply filter_In in Hk. destruct Hk as [Hk _]. apply in_seq in Hk. inversion E; subst x y.
      cbn [fst snd].
      replace (Z.of_nat s / w * w + Z.of_nat s mod w) with (Z.of_nat s) by (rewrite (Z.div_mod (Z.of_nat s) w) at 1; lia).
      replace (Z.of_nat k / w * w + Z.of_nat k mod w) with (Z.of_nat k) by (rewrite (Z.div_mod (Z.of_nat k) w) at 1; lia).
      lia. }
    apply H.
Qed.

(* ---------- the fast organisation of the certificate check ---------- *)
Lemma count_le_row es x y : count_le es x y = length (filter (fun ex => ex <=? x) (row_xs es y)).
Proof.
  unfold count_le, row_xs. induction es as [|[ex ey] r IH]; cbn [filter map fst snd length]; [reflexivity|].
  destruct (ey =? y); cbn [andb map filter fst]; [|exact IH]. destruct (ex <=? x); cbn [length]; now rewrite IH.
Qed.

Theorem check_path_fast_sound bits w h segs : check_path_fast bits w h segs = true ->
  wf_path w h segs = true /\
  forall x y, 0 <= x < w -> 0 <= y < h -> inside w h segs x y = dark (bits_map bits) w h y x.
Proof.
  unfold check_path_fast. cbv zeta. intros H. apply andb_true_iff in H. destruct H as [WF A]. split; [exact WF|].
  intros x y Hx Hy. rewrite forallb_forall in A. specialize (A (Z.to_nat y) ltac:(apply in_seq; lia)).
  rewrite forallb_forall in A. specialize (A (Z.to_nat x) ltac:(apply in_seq; lia)).
  rewrite !Z2Nat.id in A by lia. apply Bool.eqb_prop in A. unfold inside. rewrite count_le_row. exact A.
Qed.
