(* Proofs/BPMath.v -- the algebra of the Bjoerck-Pereyra solve of the transposed Vandermonde system
   sum_i a_i x_i^j = f_j (j < e) in characteristic 2: stage 1 turns the moments f into Newton-basis functionals,
   stage 2 peels them back to the weights a.  Vectors are functions nat -> F. *)
From Coq Require Import Arith List Bool Lia Ring Field.
From DM Require Import Spec.GF256 Proofs.LDMath.
Import ListNotations.

Section BP.
Variables (x a : nat -> F) (e : nat).
Hypothesis He : 1 <= e.
Hypothesis Dist : forall i j, i < e -> j < e -> i <> j -> x i <> x j.

(* N_k(X) = prod_{l<k} (X - x_l) *)
Fixpoint fN (k : nat) (X : F) : F := match k with O => F1 | S k' => Fmul (fN k' X) (Fadd X (x k')) end.

(* ---- stage 1 ---- *)
Definition v1 (K j i : nat) : F := if j <? K then fN j (x i) else Fmul (fN K (x i)) (Fpow (x i) (j - K)).
Definition st1 (K j : nat) : F := fsum e (fun i => Fmul (a i) (v1 K j i)).

Lemma st1_0 j : st1 0 j = fsum e (fun i => Fmul (a i) (Fpow (x i) j)).
Proof. unfold st1. apply fsum_ext. intros i _. unfold v1. cbn [Nat.ltb Nat.leb fN]. rewrite Nat.sub_0_r. ring. Qed.

Lemma st1_keep K j : j <= K -> st1 (S K) j = st1 K j.
Proof.
  intros H. unfold st1. apply fsum_ext. intros i _. unfold v1. destruct (Nat.ltb_spec j (S K)); [|lia].
  destruct (Nat.ltb_spec j K) as [LT|GE]; [reflexivity|]. assert (j = K) as -> by lia. rewrite Nat.sub_diag. cbn [Fpow]. ring.
Qed.

Lemma st1_step K j : K < j -> Fadd (st1 K j) (Fmul (x K) (st1 K (j - 1))) = st1 (S K) j.
Proof.
  intros H. unfold st1. rewrite <- fsum_scale, <- fsum_add. apply fsum_ext. intros i _. unfold v1.
  destruct (Nat.ltb_spec j K); [lia|]. destruct (Nat.ltb_spec (j - 1) K); [lia|]. destruct (Nat.ltb_spec j (S K)); [lia|].
  cbn [fN]. replace (j - K) with (S (j - S K)) by lia. replace (j - 1 - K) with (j - S K) by lia. cbn [Fpow]. ring.
Qed.

(* ---- stage 2 ---- *)
Fixpoint G (k j i : nat) : F := match k with O => F1 | S k' => Fmul (G k' j i) (Fadd (x i) (x (j - S k'))) end.

Lemma G_shift k : forall j i, G (S k) (S j) i = Fmul (Fadd (x i) (x j)) (G k j i).
Proof.
  induction k as [|k IH]; intros j i.
  - cbn [G]. replace (S j - 1) with j by lia. ring.
  - change (G (S (S k)) (S j) i) with (Fmul (G (S k) (S j) i) (Fadd (x i) (x (S j - S (S k))))). rewrite IH.
    change (G (S k) j i) with (Fmul (G k j i) (Fadd (x i) (x (j - S k)))). replace (S j - S (S k)) with (j - S k) by lia. ring.
Qed.

Lemma fN_G j : forall i, fN j (x i) = G j j i.
Proof. induction j as [|j IH]; intros i; [reflexivity|]. rewrite G_shift. cbn [fN]. rewrite IH. ring. Qed.

Lemma G_support j i : i < j -> G j j i = F0.
Proof.
  revert i. induction j as [|j IH]; intros i H; [lia|]. rewrite G_shift. destruct (Nat.eq_dec i j) as [->|NE].
  - rewrite Fadd_self. ring.
  - rewrite IH by lia. ring.
Qed.

Definition delta2 (j i : nat) : F := if Nat.eqb j i then F1 else F0.
Definition v2 (K j i : nat) : F :=
  if j <? K then G j j i
  else match K with
       | O => delta2 j i
       | S K' => if j <=? i then Fmul (G K' j i) (Fadd (x j) (x (j - K))) else F0
       end.
Definition st2 (K j : nat) : F := fsum e (fun i => Fmul (a i) (v2 K j i)).

(* the values after the division of step K: g_j = sum_i a_i [j <= i] G K j i, for j >= K *)
Definition gv (K j : nat) : F := fsum e (fun i => Fmul (a i) (if j <=? i then G K j i else F0)).

(* stage 1 ends where stage 2 starts *)
Lemma st1_st2 j : j < e -> st1 (e - 1) j = st2 (e - 1) j.
Proof.
  intros Hj. unfold st1, st2. apply fsum_ext. intros i Hi. f_equal. unfold v1, v2.
  destruct (Nat.ltb_spec j (e - 1)) as [LT|GE]; [apply fN_G|]. assert (j = e - 1) as -> by lia. rewrite Nat.sub_diag. cbn [Fpow].
  rewrite fN_G. destruct (e - 1) as [|K'] eqn:EK.
  - assert (i = 0) as -> by lia. unfold delta2. cbn [G Nat.eqb]. ring.
  - destruct (Nat.leb_spec (S K') i) as [LE|GT].
    + assert (i = S K') as -> by lia. change (G (S K') (S K') (S K')) with (Fmul (G K' (S K') (S K')) (Fadd (x (S K')) (x (S K' - S K')))). rewrite Nat.sub_diag. ring.
    + rewrite G_support by lia. ring.
Qed.

(* the division of step K turns st2 (K+1) into gv K, for every j >= K (j = K is not divided) *)
Lemma st2_div K j : K < j -> j < e -> st2 (S K) j = Fmul (Fadd (x j) (x (j - S K))) (gv K j).
Proof.
  intros H Hj. unfold st2, gv. rewrite <- fsum_scale. apply fsum_ext. intros i _. unfold v2.
  destruct (Nat.ltb_spec j (S K)); [lia|]. destruct (j <=? i); ring.
Qed.
Lemma st2_nodiv K : st2 (S K) K = gv K K.
Proof.
  unfold st2, gv. apply fsum_ext. intros i Hi. f_equal. unfold v2. destruct (Nat.ltb_spec K (S K)); [|lia].
  destruct (Nat.leb_spec K i); [reflexivity|]. apply G_support. lia.
Qed.

(* the subtraction of step K *)
Lemma gv_sub K j : K <= j -> j < e -> Fadd (gv K j) (gv K (j + 1)) = st2 K j.
Proof.
  intros H Hj. unfold gv, st2. rewrite <- fsum_add. apply fsum_ext. intros i Hi. unfold v2.
  destruct (Nat.ltb_spec j K); [lia|]. destruct K as [|K'].
  - cbn [G]. unfold delta2. destruct (Nat.leb_spec j i); destruct (Nat.leb_spec (j + 1) i); destruct (Nat.eqb_spec j i); try lia; try ring.
  - replace (j + 1) with (S j) by lia. rewrite G_shift.
    change (G (S K') j i) with (Fmul (G K' j i) (Fadd (x i) (x (j - S K')))).
    destruct (Nat.leb_spec j i); destruct (Nat.leb_spec (S j) i); try lia; try ring.
    all: try (assert (i = j) as -> by lia; ring).
Qed.

Lemma st2_keep K j : j < K -> st2 (S K) j = st2 K j.
Proof.
  intros H. unfold st2. apply fsum_ext. intros i _. unfold v2. destruct (Nat.ltb_spec j (S K)); [|lia]. destruct (Nat.ltb_spec j K); [reflexivity|lia].
Qed.

Lemma st2_0 j : j < e -> st2 0 j = a j.
Proof.
  intros Hj. unfold st2. rewrite (fsum_single e _ j Hj).
  - unfold v2. cbn [Nat.ltb Nat.leb]. unfold delta2. rewrite Nat.eqb_refl. ring.
  - intros i Hi NE. unfold v2. cbn [Nat.ltb Nat.leb]. unfold delta2. destruct (Nat.eqb_spec j i); [lia|ring].
Qed.

Lemma gv_end K : gv K e = F0.
Proof. unfold gv. apply fsum_zero. intros i Hi. destruct (Nat.leb_spec e i); [lia|ring]. Qed.

Lemma div_ok K j : K < j -> j < e -> Fadd (x j) (x (j - S K)) <> F0.
Proof.
  intros H Hj E. apply (Dist j (j - S K)); [lia|lia|lia|].
  transitivity (Fadd (Fadd (x j) (x (j - S K))) (x (j - S K))); [ring|rewrite E; ring].
Qed.
End BP.
