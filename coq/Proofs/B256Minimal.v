(* Proofs/B256Minimal.v -- property C10, the full minimality statement for the Base256-only configuration: the symbol
   returned by the encoder is the smallest listed symbol that ANY legal stream made of Base256 fields (one or several
   explicit-length fields, or a field running to the end of the symbol) and padding can fill for this message. *)
From Coq Require Import Arith NArith List Bool Lia Sorted.
From DM Require Import Generated.Symbols Generated.ModeTables Model.Outcome Model.SymbolList Model.Planner Model.PlannerRun Model.Eci Model.Enc
  Model.Dec Model.Api Spec.Stream16022 Proofs.SymbolListProofs Proofs.EncLocal Proofs.EncTop Proofs.EncAscii Proofs.PlanB256
  Proofs.DecStream Proofs.DecStreamC40 Proofs.DecStreamEdi Proofs.DecScript Proofs.EncB256.
Import ListNotations.
Local Open Scope N_scope.

Definition b256_seg (s : segment) : bool := match s with SB256 _ | SB256End _ => true | _ => false end.

Lemma len_field_length n : length (len_field n) = if n <? 250 then 1%nat else 2%nat.
Proof. unfold len_field. destruct (n <? 250); reflexivity. Qed.

Lemma b256_seg_length b s : b256_seg s = true -> (length (segment_data s) + 2 <= length (segment_cw b s))%nat.
Proof.
  destruct s; try discriminate; intros _; cbn [segment_cw segment_data length]; rewrite rand255_run_length.
  - rewrite app_length, len_field_length. destruct (_ <? 250); lia.
  - cbn [length]. lia.
Qed.

Lemma b256_render_lower : forall segs b, forallb b256_seg segs = true ->
  (length (meaning segs) + 2 * length segs <= length (render b segs))%nat.
Proof.
  induction segs as [|s r IH]; intros b H; [cbn; lia|]. cbn [forallb] in H. apply andb_true_iff in H. destruct H as [Hs Hr].
  cbn [render]. cbv zeta. unfold meaning in *. cbn [flat_map]. rewrite !app_length. cbn [length].
  pose proof (b256_seg_length b s Hs). specialize (IH (b + N.of_nat (length (segment_cw b s))) Hr). lia.
Qed.

(* a legal Base256-only script for n >= 250 bytes in fewer than n + 3 codewords is the single field that runs to the end *)
Lemma b256_short_script segs npad b : forallb b256_seg segs = true -> script_ok segs npad = true -> meaning segs <> [] ->
  (length (meaning segs) + 2 <= length (render b segs))%nat /\
  (250 <= length (meaning segs) -> length (render b segs) < length (meaning segs) + 3 ->
   segs = [SB256End (meaning segs)] /\ npad = 0%nat)%nat.
Proof.
  intros HB SO NE. destruct segs as [|s r]; [contradiction|]. pose proof (b256_render_lower (s :: r) b HB) as LB.
  cbn [length] in LB. split; [lia|]. intros Big Short. destruct r as [|s2 r2]; [|cbn [length] in LB; lia].
  unfold meaning in *. cbn [flat_map] in *. rewrite app_nil_r in *. cbn [render] in Short. cbv zeta in Short. rewrite app_nil_r in Short.
  destruct s; try discriminate HB.
  - cbn [segment_cw segment_data length] in *. rewrite rand255_run_length, app_length, len_field_length in Short.
    destruct (N.ltb_spec (N.of_nat (length bytes)) 250); lia.
  - cbn [segment_data] in *. split; [reflexivity|]. cbn [script_ok] in SO. apply andb_true_iff in SO. destruct SO as [_ SO].
    apply Nat.eqb_eq. exact SO.
Qed.

(* what the encoder does in this configuration: U codewords before padding, symbol = first fit of U *)
Lemma b256_only_shape sorter data symbols cw s :
  (forall k l l', sorter symbols k l = Ok l' -> incl l' l) ->
  encode_data_internal (optimize_fn sorter) data symbols None 32 false false = Ok (cw, s) ->
  (data = [] /\ first_symbol_big_enough_for symbols 0 = Some s) \/
  (data <> [] /\ exists U s1, first_symbol_big_enough_for symbols U = Some s /\ first_symbol_big_enough_for symbols (N.of_nat (length data) + 2) = Some s1 /\
     ((N.of_nat (length data) + 2 < num_data_codewords s1 /\ U = N.of_nat (length data) + 2 + (if N.of_nat (length data) <? 250 then 0 else 1)) \/
      (N.of_nat (length data) + 2 = num_data_codewords s1 /\ U = N.of_nat (length data) + 2))).
Proof.
  intros HS H. revert H. unfold encode_data_internal. cbv zeta. cbn [bind]. unfold codewords.
  cbn [with_size e_symbols e_data e_modes e_input e_encodation e_new_mode e_cw].
  destruct symbols as [|s0 sr] eqn:ES; [discriminate|]. rewrite <- ES in *.
  destruct (_ <? _); [discriminate|]. destruct (upper_limit_for_number_of_codewords _ _); [|discriminate].
  change (cw_len (with_size data symbols 32 false)) with 0.
  unfold optimize_fn. destruct (optimize symbols (sorter symbols) data 0 Ascii 32) as [[p st]| |] eqn:EO; cbn [bind lift]; try discriminate.
  destruct p as [p|]; [|discriminate].
  rewrite (b256_only_plan symbols (sorter symbols) HS data 0 p st EO). fold (b256_plan data).
  destruct (main_loop _ _ 0) as [e3| |] eqn:ML; cbn [bind]; try discriminate.
  unfold symbol_for. destruct (first_symbol_big_enough_for (e_symbols e3) (cw_len e3 + 0)) as [s'|] eqn:FF; [|discriminate].
  destruct (add_padding e3 s') as [e4| |] eqn:AP; cbn [bind]; try discriminate. intros [= <- <-].
  destruct data as [|d0 dr] eqn:ED.
  - left. split; [reflexivity|].
    cbn [main_loop Nat.mul Nat.add length] in ML. unfold has_more in ML. cbn [e_data negb] in ML. inversion ML; subst e3.
    cbn [e_symbols] in FF. exact FF.
  - right. rewrite <- ED in *. assert (data <> []) as ND by (rewrite ED; discriminate). split; [exact ND|].
    destruct (main_loop_b256 data symbols 32 (6 * length data + 12)%nat e3 ND ltac:(lia) ML) as (EA & ESy & s1 & F1 & CASES).
    rewrite ESy, N.add_0_r in FF. exists (cw_len e3), s1. split; [exact FF|]. split; [exact F1|].
    destruct CASES as [(LT & LE & C3)|(EQ & C3)]; [left|right]; (split; [assumption|]); unfold cw_len; rewrite C3; cbn [length];
      rewrite rand255_run_length.
    + rewrite app_length, len_field_length. destruct (_ <? 250); lia.
    + cbn [length]. lia.
Qed.

Lemma ss_ltP_capacity a b : ss_ltP a b -> num_data_codewords a <= num_data_codewords b.
Proof. unfold ss_ltP, ss_lt. intros H. apply key_lt_fst in H. exact H. Qed.

Theorem b256_only_minimal sorter data symbols cw s : wf symbols ->
  (forall k l l', sorter symbols k l = Ok l' -> incl l' l) ->
  encode_data_internal (optimize_fn sorter) data symbols None 32 false false = Ok (cw, s) ->
  forall script npad, forallb b256_seg script = true -> script_ok script npad = true -> meaning script = data ->
  forall s', In s' symbols -> N.of_nat (length (stream script npad)) = num_data_codewords s' -> s' = s \/ ss_ltP s s'.
Proof.
  intros W HS H script npad HB SO ME s' IN FILL.
  assert (N.of_nat (length (render 0 script)) <= num_data_codewords s') as RL.
  { rewrite <- FILL. unfold stream. rewrite app_length. lia. }
  destruct (b256_only_shape sorter data symbols cw s HS H) as [(E0 & FF)|(ND & U & s1 & FF & F1 & CASES)].
  - apply (first_fit_spec symbols 0 s W) in FF. destruct FF as (_ & _ & MIN). apply MIN; [exact IN|lia].
  - rewrite <- ME in ND. destruct (b256_short_script script npad 0 HB SO ND) as [LB SHORT]. rewrite ME in LB, SHORT.
    apply (first_fit_spec symbols U s W) in FF. destruct FF as (_ & _ & MIN).
    apply (first_fit_spec symbols _ s1 W) in F1. destruct F1 as (_ & _ & MIN1).
    set (n := N.of_nat (length data)) in *.
    destruct CASES as [(LT & ->)|(EQ & ->)]; [|apply MIN; [exact IN|lia]].
    destruct (N.ltb_spec n 250) as [SM|BG]; [apply MIN; [exact IN|lia]|].
    destruct (Nat.lt_ge_cases (length (render 0 script)) (length data + 3)) as [SH|LG]; [|apply MIN; [exact IN|lia]].
    (* only the run-to-the-end form is that short; it would need a symbol of exactly n + 2 codewords, which the list
       does not have below s1 *)
    destruct SHORT as [ES EP]; [unfold n in BG; lia|exact SH|]. exfalso.
    assert (N.of_nat (length (stream script npad)) = n + 2) as SL.
    { rewrite ES, EP. unfold stream. cbn [render segment_cw pad]. cbv zeta. rewrite !app_nil_r. cbn [length].
      rewrite rand255_run_length. cbn [length]. unfold n. lia. }
    rewrite SL in FILL. destruct (MIN1 s' IN ltac:(lia)) as [->|LTs]; [lia|]. apply ss_ltP_capacity in LTs. lia.
Qed.
