(* Proofs/AsciiTotal.v -- property C11 as a theorem for the ASCII-only configuration: the planner never panics
   (Proofs/PlanTotal.v), it can only answer "stay in ASCII" (Proofs/PlanAscii.v) or "no plan", and under that plan no
   assertion of the main loop can fire (Proofs/EncAscii.v): every byte string and every symbol list yield a value or an
   error, never a panic. *)
From Coq Require Import Arith NArith List Bool Lia.
From DM Require Import Generated.Symbols Generated.ModeTables Model.Outcome Model.SymbolList Model.Planner Model.Enc Model.Api
  Proofs.PlanShape Proofs.PlanAscii Proofs.EncAscii Proofs.PlanTotal.
Import ListNotations.
Local Open Scope N_scope.

Theorem ascii_only_total sorter data symbols :
  (forall sl k l, exists l', sorter sl k l = Ok l' /\ incl l' l) ->
  no_panic (encode_data_internal (optimize_fn sorter) data symbols None 1 false false).
Proof.
  intros HS.
  assert (forall k l l', sorter symbols k l = Ok l' -> incl l' l) as HI.
  { intros k l l' E. destruct (HS symbols k l) as (l2 & E2 & I2). rewrite E in E2. inversion E2; subst. exact I2. }
  destruct (optimize_total symbols (sorter symbols) (HS symbols) data 0 Ascii 1) as [[r st] E].
  destruct r as [p|].
  - pose proof (ascii_only_plan symbols (sorter symbols) HI data p st E) as ->.
    apply ascii_plan_total. unfold optimize_fn. rewrite E. reflexivity.
  - unfold encode_data_internal. cbv zeta. cbn [bind]. set (e := with_size data symbols 1 false).
    unfold codewords. destruct (e_symbols e) as [|s0 sr] eqn:ES; [exact I|]. rewrite <- ES.
    destruct (_ <? _); [exact I|]. destruct (upper_limit_for_number_of_codewords _ _); [|exact I].
    change (e_data e) with data. change (cw_len e) with 0. change (e_symbols e) with symbols. change (e_modes e) with 1.
    unfold optimize_fn. rewrite E. cbn [bind lift]. exact I.
Qed.
Print Assumptions ascii_only_total.
