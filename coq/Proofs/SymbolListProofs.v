(* Proofs/SymbolListProofs.v -- lemmas behind property C12. *)
From Coq Require Import NArith List Bool Lia Sorted Permutation.
From DM Require Import Generated.Symbols Spec.Table7 Model.SymbolList.
Import ListNotations.
Open Scope N_scope.

(* ---------- the finite domain ---------- *)
Lemma all_variants_complete : forall s, In s all_variants.
Proof. intros s; destruct s; vm_compute; tauto. Qed.

Lemma sweep (P : SymbolSize -> bool) :
  forallb P all_variants = true -> forall s, P s = true.
Proof. intros H s. rewrite forallb_forall in H. apply H, all_variants_complete. Qed.

Lemma sweep2 (P : SymbolSize -> SymbolSize -> bool) :
  forallb (fun a => forallb (P a) all_variants) all_variants = true -> forall a b, P a b = true.
Proof. intros H a b. pose proof (sweep _ H a) as Ha. cbv beta in Ha.
  rewrite forallb_forall in Ha. apply Ha, all_variants_complete. Qed.

Lemma variant_index_inj : forall a b, variant_index a = variant_index b -> a = b.
Proof. intros a b; destruct a; destruct b; intros H; try reflexivity; discriminate H. Qed.

Lemma ss_eqb_eq a b : ss_eqb a b = true <-> a = b.
Proof. unfold ss_eqb. rewrite N.eqb_eq. split; [apply variant_index_inj | now intros ->]. Qed.

(* ---------- the catalogue against the standards ---------- *)
Definition attrs (s : SymbolSize) : row :=
  let rv := extra_horizontal_alignments s + 1 in
  let rh := extra_vertical_alignments s + 1 in
  mk (height s) (width s)
     (content_height s / rv) (content_width s / rh) rv rh
     (num_data_codewords s) (num_ecc_blocks s * num_ecc_per_block s) (num_ecc_blocks s).

Definition row_eqb (a b : row) : bool :=
  (t_rows a =? t_rows b) && (t_cols a =? t_cols b) && (t_rrows a =? t_rrows b) &&
  (t_rcols a =? t_rcols b) && (t_regv a =? t_regv b) && (t_regh a =? t_regh b) &&
  (t_data a =? t_data b) && (t_ec a =? t_ec b) && (t_blocks a =? t_blocks b).

Lemma row_eqb_eq a b : row_eqb a b = true -> a = b.
Proof.
  destruct a as [a1 a2 a3 a4 a5 a6 a7 a8 a9], b as [b1 b2 b3 b4 b5 b6 b7 b8 b9]; unfold row_eqb;
  cbn [t_rows t_cols t_rrows t_rcols t_regv t_regh t_data t_ec t_blocks].
  rewrite !andb_true_iff, !N.eqb_eq. intros [[[[[[[[-> ->] ->] ->] ->] ->] ->] ->] ->]. reflexivity.
Qed.

Definition in_rows (l : list row) (r : row) : bool := existsb (row_eqb r) l.
Lemma in_rows_In l r : in_rows l r = true -> In r l.
Proof. unfold in_rows. rewrite existsb_exists. intros [x [Hx He]]. apply row_eqb_eq in He. now subst. Qed.

(* every symbol of the crate is a row of the standards, region geometry divides evenly *)
Definition table_ok (s : SymbolSize) : bool :=
  in_rows rows (attrs s)
  && (content_height s mod (extra_horizontal_alignments s + 1) =? 0)
  && (content_width s mod (extra_vertical_alignments s + 1) =? 0)
  && (2 + extra_vertical_alignments s * 2 <=? width s)
  && (2 + extra_horizontal_alignments s * 2 <=? height s)
  && Bool.eqb (is_dmre s) (in_rows iso21471 (attrs s))
  && Bool.eqb (negb (is_dmre s)) (in_rows iso16022 (attrs s))
  && Bool.eqb (is_square s) (height s =? width s)
  && Bool.eqb (has_padding_modules s)
       (content_width s * content_height s =? 8 * (num_data_codewords s + num_ecc_blocks s * num_ecc_per_block s) + 4)
  && (if has_padding_modules s then true else
       content_width s * content_height s =? 8 * (num_data_codewords s + num_ecc_blocks s * num_ecc_per_block s)).

Lemma table_sweep : forallb table_ok all_variants = true.
Proof. vm_compute. reflexivity. Qed.

(* the 48 symbols are pairwise different rows: together with |rows| = 48 a bijection *)
Definition dims (s : SymbolSize) : N * N := (width s, height s).
Lemma dims_injective_sweep :
  forallb (fun a => forallb (fun b =>
     implb (key_eqb (dims a) (dims b)) (ss_eqb a b)) all_variants) all_variants = true.
Proof. vm_compute. reflexivity. Qed.

Lemma ord_key_injective_sweep :
  forallb (fun a => forallb (fun b =>
     implb (key_eqb (ord_key a) (ord_key b)) (ss_eqb a b)) all_variants) all_variants = true.
Proof. vm_compute. reflexivity. Qed.

Lemma key_eqb_eq a b : key_eqb a b = true <-> a = b.
Proof. destruct a, b; unfold key_eqb; cbn [fst snd]. rewrite andb_true_iff, !N.eqb_eq.
  split; [intros [-> ->]; reflexivity | intros H; inversion H; auto]. Qed.

Lemma dims_injective a b : dims a = dims b -> a = b.
Proof. intros H. pose proof (sweep2 _ dims_injective_sweep a b) as S. cbv beta in S.
  apply key_eqb_eq in H. rewrite H in S. cbn in S. now apply ss_eqb_eq. Qed.

Lemma ord_key_injective a b : ord_key a = ord_key b -> a = b.
Proof. intros H. pose proof (sweep2 _ ord_key_injective_sweep a b) as S. cbv beta in S.
  apply key_eqb_eq in H. rewrite H in S. cbn in S. now apply ss_eqb_eq. Qed.

Lemma variants_count : length all_variants = 48%nat /\ length rows = 48%nat
                       /\ length SYMBOL_SIZES = 48%nat.
Proof. repeat split. Qed.

Lemma symbol_sizes_complete : forall s, In s SYMBOL_SIZES.
Proof. intros s; destruct s; vm_compute; tauto. Qed.

(* ---------- order ---------- *)
Lemma key_lt_irrefl a : key_lt a a = false.
Proof. unfold key_lt. rewrite !N.ltb_irrefl, andb_false_r. reflexivity. Qed.

Lemma key_lt_trans a b c : key_lt a b = true -> key_lt b c = true -> key_lt a c = true.
Proof. unfold key_lt. rewrite !orb_true_iff, !andb_true_iff, !N.ltb_lt, !N.eqb_eq. lia. Qed.

Lemma key_total a b : key_lt a b = false -> key_lt b a = false -> a = b.
Proof. destruct a as [a1 a2], b as [b1 b2]. unfold key_lt; cbn [fst snd].
  rewrite !orb_false_iff, !andb_false_iff, !N.ltb_ge, !N.eqb_neq. intros H1 H2.
  f_equal; lia. Qed.

Lemma key_lt_fst a b : key_lt a b = true -> fst a <= fst b.
Proof. unfold key_lt. rewrite orb_true_iff, andb_true_iff, N.ltb_lt, N.eqb_eq. lia. Qed.

Definition ss_ltP (a b : SymbolSize) : Prop := ss_lt a b = true.

Lemma ss_lt_trans a b c : ss_ltP a b -> ss_ltP b c -> ss_ltP a c.
Proof. unfold ss_ltP, ss_lt. apply key_lt_trans. Qed.

Lemma ss_total a b : ss_lt a b = false -> ss_lt b a = false -> a = b.
Proof. unfold ss_lt. intros H1 H2. apply ord_key_injective, key_total; assumption. Qed.

(* a SymbolList value = strictly sorted list *)
Definition wf (l : list SymbolSize) : Prop := StronglySorted ss_ltP l.

Lemma sl_insert_In s l x : In x (sl_insert s l) <-> x = s \/ In x l.
Proof.
  induction l as [|y r IH]; cbn [sl_insert].
  - cbn. intuition congruence.
  - destruct (ss_lt s y) eqn:E1; [cbn; intuition congruence|].
    destruct (ss_lt y s) eqn:E2.
    + cbn [In]. rewrite IH. tauto.
    + pose proof (ss_total _ _ E1 E2) as ->. cbn [In]. intuition congruence.
Qed.

Lemma sl_insert_wf s l : wf l -> wf (sl_insert s l).
Proof.
  unfold wf. induction l as [|y r IH]; cbn [sl_insert]; intros W.
  - repeat constructor.
  - inversion W as [|? ? Wr Hy]; subst.
    destruct (ss_lt s y) eqn:E1.
    + constructor; [assumption|]. constructor; [exact E1|].
      rewrite Forall_forall in *. intros z Hz. eapply ss_lt_trans; [exact E1|]. now apply Hy.
    + destruct (ss_lt y s) eqn:E2; [|assumption].
      constructor; [now apply IH|].
      rewrite Forall_forall in *. intros z Hz. apply sl_insert_In in Hz. destruct Hz as [->|Hz]; [exact E2|now apply Hy].
Qed.

Lemma sl_extend_wf l acc : wf acc -> wf (sl_extend acc l).
Proof. unfold sl_extend. revert acc. induction l as [|x r IH]; cbn [fold_left]; intros acc W; [assumption|].
  apply IH, sl_insert_wf, W. Qed.

Lemma sl_extend_In l acc x : In x (sl_extend acc l) <-> In x acc \/ In x l.
Proof. unfold sl_extend. revert acc. induction l as [|y r IH]; cbn [fold_left]; intros acc.
  - cbn. tauto.
  - rewrite IH, sl_insert_In. cbn [In]. intuition congruence. Qed.

Lemma sl_from_iter_wf l : wf (sl_from_iter l).
Proof. apply sl_extend_wf. constructor. Qed.

Lemma sl_from_iter_In l x : In x (sl_from_iter l) <-> In x l.
Proof. unfold sl_from_iter. rewrite sl_extend_In. cbn. tauto. Qed.

Lemma filter_wf f l : wf l -> wf (filter f l).
Proof.
  unfold wf. induction l as [|y r IH]; cbn [filter]; intros W; [constructor|].
  inversion W as [|? ? Wr Hy]; subst. destruct (f y); [|now apply IH].
  constructor; [now apply IH|]. rewrite Forall_forall in *. intros z Hz. apply filter_In in Hz. now apply Hy.
Qed.

(* iteration order is by non-decreasing data capacity *)
Lemma wf_sorted_capacity l : wf l ->
  StronglySorted (fun a b => num_data_codewords a <= num_data_codewords b) l.
Proof.
  unfold wf. induction 1 as [|a l W IH Ha]; constructor; [assumption|].
  rewrite Forall_forall in *. intros z Hz. specialize (Ha z Hz).
  unfold ss_ltP, ss_lt in Ha. apply key_lt_fst in Ha. exact Ha.
Qed.

(* wf lists with the same elements are equal: iteration order is determined by the set *)
Lemma ss_lt_irrefl a : ss_lt a a = false.
Proof. apply key_lt_irrefl. Qed.

Lemma wf_unique l1 : forall l2, wf l1 -> wf l2 -> (forall x, In x l1 <-> In x l2) -> l1 = l2.
Proof.
  unfold wf. induction l1 as [|a r1 IH]; intros l2 W1 W2 E.
  - destruct l2 as [|b r2]; [reflexivity|]. exfalso. apply (E b). now left.
  - destruct l2 as [|b r2]; [exfalso; apply (E a); now left|].
    inversion W1 as [|? ? W1r H1]; inversion W2 as [|? ? W2r H2]; subst.
    rewrite Forall_forall in H1, H2.
    assert (a = b) as ->.
    { destruct (proj1 (E a) (or_introl eq_refl)) as [<-|Hin]; [reflexivity|].
      destruct (proj2 (E b) (or_introl eq_refl)) as [->|Hin']; [reflexivity|].
      pose proof (H2 _ Hin) as L1. pose proof (H1 _ Hin') as L2.
      pose proof (ss_lt_trans _ _ _ L1 L2) as L. unfold ss_ltP in L. rewrite ss_lt_irrefl in L. discriminate. }
    f_equal. apply IH; try assumption. intros x. split; intros Hx.
    + destruct (proj1 (E x) (or_intror Hx)) as [<-|Hin]; [|assumption].
      pose proof (H1 _ Hx) as L. unfold ss_ltP in L. rewrite ss_lt_irrefl in L. discriminate.
    + destruct (proj2 (E x) (or_intror Hx)) as [<-|Hin]; [|assumption].
      pose proof (H2 _ Hx) as L. unfold ss_ltP in L. rewrite ss_lt_irrefl in L. discriminate.
Qed.

(* ---------- look-ups ---------- *)
Lemma find_first {A} (f : A -> bool) l x :
  find f l = Some x <-> exists l1 l2, l = l1 ++ x :: l2 /\ f x = true /\ forall y, In y l1 -> f y = false.
Proof.
  induction l as [|a r IH]; cbn [find].
  - split; [discriminate|]. intros (l1 & l2 & H & _). destruct l1; discriminate H.
  - destruct (f a) eqn:Fa.
    + split.
      * intros [= ->]. exists [], r. repeat split; [assumption|intros y []].
      * intros (l1 & l2 & H & Fx & Hl1). destruct l1 as [|b l1]; [now inversion H|].
        inversion H; subst. rewrite (Hl1 b (or_introl eq_refl)) in Fa. discriminate.
    + rewrite IH. split; intros (l1 & l2 & H & Fx & Hl1).
      * exists (a :: l1), l2. subst. repeat split; [assumption|]. intros y [<-|Hy]; auto.
      * destruct l1 as [|b l1]; [inversion H; subst; congruence|].
        inversion H; subst. exists l1, l2. repeat split; [assumption|]. intros y Hy. apply Hl1. now right.
Qed.

Lemma find_none_iff {A} (f : A -> bool) l : find f l = None <-> forall y, In y l -> f y = false.
Proof. induction l as [|a r IH]; cbn [find]; [split; [intros _ y []|reflexivity]|].
  destruct (f a) eqn:Fa; [split; [discriminate|intros H; rewrite (H a (or_introl eq_refl)) in Fa; discriminate]|].
  rewrite IH. split; intros H y; [intros [<-|Hy]; auto | intros Hy; apply H; now right]. Qed.

Lemma wf_app_lt l1 x l2 : wf (l1 ++ x :: l2) ->
  (forall y, In y l1 -> ss_ltP y x) /\ (forall y, In y l2 -> ss_ltP x y).
Proof.
  unfold wf. induction l1 as [|a r IH]; cbn [app]; intros W.
  - inversion W as [|? ? _ H]; subst. rewrite Forall_forall in H. split; [intros y []|exact H].
  - inversion W as [|? ? Wr H]; subst. rewrite Forall_forall in H. destruct (IH Wr) as [I1 I2]. split; [|exact I2].
    intros y [<-|Hy]; [apply H, in_elt|auto].
Qed.

(* the symbol picked is the least (in iteration order) that is large enough *)
Lemma first_fit_spec l n s : wf l ->
  (first_symbol_big_enough_for l n = Some s <->
   In s l /\ n <= num_data_codewords s /\
   forall s', In s' l -> n <= num_data_codewords s' -> s' = s \/ ss_ltP s s').
Proof.
  intros W. unfold first_symbol_big_enough_for. rewrite find_first. split.
  - intros (l1 & l2 & -> & Fx & Hl1). apply N.leb_le in Fx. destruct (wf_app_lt _ _ _ W) as [_ I2].
    repeat split; [apply in_elt|assumption|]. intros s' Hin Hn. apply in_app_or in Hin.
    destruct Hin as [Hin|[<-|Hin]]; [|now left|right; auto].
    apply Hl1 in Hin. apply N.leb_gt in Hin. lia.
  - intros (Hin & Hn & Hmin). apply in_split in Hin. destruct Hin as (l1 & l2 & ->).
    exists l1, l2. repeat split; [now apply N.leb_le|]. intros y Hy.
    destruct (n <=? num_data_codewords y) eqn:E; [|reflexivity]. exfalso. apply N.leb_le in E.
    destruct (wf_app_lt _ _ _ W) as [I1 _]. specialize (I1 y Hy).
    destruct (Hmin y (in_or_app _ _ _ (or_introl Hy)) E) as [->|L].
    + unfold ss_ltP in I1. rewrite ss_lt_irrefl in I1. discriminate.
    + pose proof (ss_lt_trans _ _ _ I1 L) as L'. unfold ss_ltP in L'. rewrite ss_lt_irrefl in L'. discriminate.
Qed.

Lemma first_fit_none l n :
  first_symbol_big_enough_for l n = None <-> forall s, In s l -> num_data_codewords s < n.
Proof. unfold first_symbol_big_enough_for. rewrite find_none_iff.
  split; intros H y Hy; specialize (H y Hy); [apply N.leb_gt in H|apply N.leb_gt]; assumption. Qed.

(* the two standard lists *)
Lemma sl_all_elements : forall s, In s sl_all.
Proof. intros s. apply sl_from_iter_In, symbol_sizes_complete. Qed.

Lemma sl_default_elements : forall s, In s sl_default <-> is_dmre s = false.
Proof. intros s. unfold sl_default. rewrite sl_from_iter_In, filter_In, negb_true_iff.
  split; [tauto|]. intros H; split; [apply symbol_sizes_complete|assumption]. Qed.

Lemma sl_all_is_SYMBOL_SIZES : sl_all = SYMBOL_SIZES.
Proof. vm_compute. reflexivity. Qed.

Lemma sl_default_count : length sl_default = 30%nat /\ length sl_all = 48%nat.
Proof. vm_compute. split; reflexivity. Qed.

Lemma range_contains_spec lo hi x : range_contains lo hi x = true <->
  (match lo with Incl a => a <= x | Excl a => a < x | Unb => True end) /\
  (match hi with Incl b => x <= b | Excl b => x < b | Unb => True end).
Proof. unfold range_contains. rewrite andb_true_iff.
  destruct lo, hi; rewrite ?N.leb_le, ?N.ltb_lt; tauto. Qed.

Lemma max_capacity_spec l : forall s, In s l -> capacity_max s <= max_capacity l.
Proof.
  unfold max_capacity.
  assert (G : forall l m, m <= fold_left (fun m s => N.max m (capacity_max s)) l m).
  { induction l0 as [|a r IH]; intros m; cbn [fold_left]; [lia|]. specialize (IH (N.max m (capacity_max a))). lia. }
  assert (F : forall l m s, In s l -> capacity_max s <= fold_left (fun m s => N.max m (capacity_max s)) l m).
  { induction l0 as [|a r IH]; intros m s; cbn [fold_left In]; [tauto|]. intros [->|H]; [|now apply IH].
    specialize (G r (N.max m (capacity_max s))). lia. }
  intros s. apply F.
Qed.
