(* Proofs/LDInv.v -- the identities (3)/(4) are invariants of the Levinson-Durbin loop of Model/RSDec.v: the
   cfg!(debug_assertions) self-checks (Panic PAssertLD of the model) can never fire, for any syndrome vector. *)
From Coq Require Import Arith NArith List Bool Lia Ring Field.
From DM Require Import Spec.GF256 Spec.Poly Model.Outcome Model.GF Model.RSEnc Model.RSDec Proofs.GFTie Proofs.RSEncProofs
  Proofs.RSDecProofs Proofs.LDBound Proofs.RSTotal Proofs.LDMath Proofs.LDBridge.
Import ListNotations.
Local Open Scope nat_scope.

Section Inv.
Variable syn : list N.
Hypothesis syn_bytes : Forall byte syn.
Notation S_ := (SF syn).

Record InvN (s : ld_state) : Prop := mkInvN {
  iv_pos : 1 <= ld_v s;
  iv_lw : length (ld_w s) = ld_v s;
  iv_ly : length (ld_y s) = ld_v s;
  iv_bw : Forall byte (ld_w s);
  iv_by : Forall byte (ld_y s);
  iv_3 : Inv3 S_ (ld_v s) (vf (ld_y s));
  iv_4 : Inv4 S_ (ld_v s) (vf (ld_w s)) }.

(* the debug check accepts every state that satisfies the invariant *)
Lemma debug_check_ok s : InvN s -> 2 * ld_v s <= length syn -> ld_debug_check syn s = Ok tt.
Proof.
  intros I Hs. destruct I as [P Lw Ly Bw By I3 I4]. unfold ld_debug_check. rewrite Lw, Ly, Nat.eqb_refl. cbn [negb orb].
  destruct (Nat.ltb_spec (length syn) (2 * ld_v s)); [lia|]. rewrite andb_false_r.
  set (v := ld_v s) in *.
  assert (forallb (fun i => N.eqb (gsum (zipw GF.mul (firstn v (skipn i syn)) (ld_y s))) (if i =? v - 1 then 1%N else 0%N)) (seq 0 v) = true) as ->.
  { apply forallb_forall. intros i Hi. apply in_seq in Hi. apply N.eqb_eq.
    destruct (window_dot syn syn_bytes i v (ld_y s) Ly ltac:(lia) By) as [B E].
    apply toF_inj; [exact B|destruct (i =? v - 1); [exact byte_1|exact byte_0]|].
    rewrite E, (I3 i) by lia. unfold delta. destruct (i =? v - 1); reflexivity. }
  cbn [negb].
  assert (forallb (fun i => N.eqb (gsum (zipw GF.mul (firstn v (skipn i syn)) (ld_w s))) (nth (v + i) syn 0%N)) (seq 0 v) = true) as ->.
  { apply forallb_forall. intros i Hi. apply in_seq in Hi. apply N.eqb_eq.
    destruct (window_dot syn syn_bytes i v (ld_w s) Lw ltac:(lia) Bw) as [B E].
    apply toF_inj; [exact B|apply nth_byte; exact syn_bytes|]. rewrite E, (I4 i) by lia. reflexivity. }
  reflexivity.
Qed.

(* entries of [w, 1] *)
Lemma vf_snoc1 w j : vf (w ++ [1%N]) j = ext1 (length w) (vf w) j.
Proof.
  unfold vf, ext1. destruct (Nat.ltb_spec j (length w)) as [LT|GE]; [rewrite app_nth1 by lia; reflexivity|].
  rewrite app_nth2 by lia. destruct (Nat.eqb_spec j (length w)) as [->|NE]; [rewrite Nat.sub_diag; reflexivity|].
  destruct (j - length w) as [|[|k]] eqn:E; [lia|reflexivity|reflexivity].
Qed.

Lemma Forall_snoc {A} (P : A -> Prop) l x : Forall P l -> P x -> Forall P (l ++ [x]).
Proof. intros H Hx. apply Forall_app. split; [exact H|constructor; [exact Hx|constructor]]. Qed.

(* ---- the regular step ---- *)
Lemma regular_step s eps b0 beta gam einv sl sl1 sl2 :
  InvN s -> let v := ld_v s in let w := ld_w s in let y := ld_y s in let tmp := w ++ [1%N] in
  slice_incl syn v (2 * v) = Ok sl -> dot sl tmp = Ok eps -> eps <> 0%N ->
  slice_incl syn (v + 1) (2 * v + 1) = Ok sl1 -> dot sl1 tmp = Ok b0 -> gdiv b0 eps = Ok beta ->
  slice_incl syn v (2 * v - 1) = Ok sl2 -> dot sl2 y = Ok gam -> gdiv 1%N eps = Ok einv ->
  let w1 := 0%N :: w in
  let w2 := zip_upd (fun wi yi => GF.add wi (GF.mul eps yi)) (firstn v w1) y ++ skipn v w1 in
  let w3 := zip_upd (fun wi ti => GF.add wi (GF.mul (GF.add beta gam) ti)) w2 tmp in
  let y1 := zip_upd (fun _ ti => GF.mul ti einv) y tmp in
  InvN (mkld (v + 1) (y1 ++ [einv]) w3).
Proof.
  intros I v w y tmp SL D NZ SL1 D1 GB SL2 D2 GE w1 w2 w3 y1.
  destruct I as [P Lw Ly Bw By I3 I4]. fold v in P, Lw, Ly, I3, I4. fold w in Lw, Bw, I4. fold y in Ly, By, I3.
  assert (Forall byte tmp) as Bt by (apply Forall_snoc; [exact Bw|exact byte_1]).
  assert (length tmp = v + 1) as Lt by (unfold tmp; rewrite app_length; cbn [length]; lia).
  destruct (dot_bridge syn syn_bytes _ _ _ _ _ SL D Bt) as (_ & Beps & Eeps).
  destruct (dot_bridge syn syn_bytes _ _ _ _ _ SL1 D1 Bt) as (_ & Bb0 & Eb0).
  destruct (dot_bridge syn syn_bytes _ _ _ _ _ SL2 D2 By) as (_ & Bgam & Egam).
  destruct (gdiv_toF _ _ _ Bb0 Beps GB) as (_ & Bbeta & Ebeta).
  destruct (gdiv_toF _ _ _ byte_1 Beps GE) as (_ & Beinv & Eeinv).
  rewrite Lt in Eeps, Eb0. rewrite Ly in Egam. replace (v + 1) with (Datatypes.S v) in Eeps, Eb0 by lia.
  assert (forall j, vf tmp j = ext1 v (vf w) j) as Etmp by (intros j; unfold tmp; rewrite vf_snoc1, Lw; reflexivity).
  rewrite (hs_ext _ _ _ (ext1 v (vf w))) in Eeps, Eb0 by (intros; apply Etmp).
  set (E := toF eps) in *. assert (E <> F0) as ENZ by (apply toF_nonzero; assumption).
  assert (toF einv = Finv E) as Eeinv' by (rewrite Eeinv; change (toF 1%N) with F1; ring).
  assert (Fmul E (Finv E) = F1) as HI by (apply Finv_r; exact ENZ).
  assert (Forall byte w1) as Bw1 by (constructor; [exact byte_0|exact Bw]).
  assert (Forall byte w2) as Bw2.
  { unfold w2. apply Forall_app. split; [|apply Forall_skipn; exact Bw1].
    apply Forall_zip_upd; [intros a b Ha Hb; apply add_byte; [exact Ha|apply mul_byte; assumption]|apply Forall_firstn; exact Bw1|exact By]. }
  assert (length w2 = v + 1) as Lw2.
  { unfold w2. rewrite app_length, zip_upd_length, firstn_length, skipn_length. unfold w1. cbn [length]. lia. }
  assert (Forall byte w3) as Bw3.
  { unfold w3. apply Forall_zip_upd; [intros a b Ha Hb; apply add_byte; [exact Ha|apply mul_byte; [apply add_byte; assumption|exact Hb]]|exact Bw2|exact Bt]. }
  assert (Forall byte (y1 ++ [einv])) as By1.
  { apply Forall_snoc; [|exact Beinv]. unfold y1. apply Forall_zip_upd; [intros a b _ Hb; apply mul_byte; assumption|exact By|exact Bt]. }
  constructor; cbn [ld_v ld_w ld_y].
  - lia.
  - unfold w3. rewrite zip_upd_length. exact Lw2.
  - rewrite app_length. unfold y1. rewrite zip_upd_length. cbn [length]. lia.
  - exact Bw3.
  - exact By1.
  - (* (3) *)
    replace (v + 1) with (Datatypes.S v) by lia. intros i Hi.
    rewrite (hs_ext _ _ _ (y_reg v (vf w) (Finv E))).
    + apply (regular_inv3 S_ v (vf w) E (Finv E) P I4 Eeps HI i Hi).
    + intros j Hj. unfold y_reg, vf. destruct (Nat.lt_ge_cases j v) as [LT|GE'].
      * rewrite app_nth1 by (unfold y1; rewrite zip_upd_length; lia). unfold y1. rewrite nth_zip_upd.
        destruct (Nat.ltb_spec j (length y)); [|lia]. destruct (Nat.ltb_spec j (length tmp)); [|lia]. cbn [andb].
        rewrite toF_mul by (try apply nth_byte; assumption). rewrite Eeinv'. fold (vf tmp j). rewrite Etmp. reflexivity.
      * assert (j = v) as -> by lia. rewrite app_nth2 by (unfold y1; rewrite zip_upd_length; lia).
        unfold y1. rewrite zip_upd_length, Ly, Nat.sub_diag. cbn [nth]. rewrite Eeinv'. unfold ext1.
        destruct (Nat.ltb_spec v v); [lia|]. rewrite Nat.eqb_refl. ring.
  - (* (4) *)
    replace (v + 1) with (Datatypes.S v) by lia. intros i Hi.
    rewrite (hs_ext _ _ _ (w_reg S_ v (vf y) (vf w) E (Finv E))).
    + apply (regular_inv4 S_ v (vf y) (vf w) E (Finv E) P I3 I4 Eeps HI i Hi).
    + intros j Hj. unfold w_reg. cbv zeta. unfold vf at 1. unfold w3. rewrite nth_zip_upd.
      destruct (Nat.ltb_spec j (length w2)); [|lia]. destruct (Nat.ltb_spec j (length tmp)); [|lia]. cbn [andb].
      rewrite toF_add, toF_mul, toF_add by (try apply add_byte; try apply mul_byte; try apply nth_byte; try apply add_byte; assumption).
      rewrite Ebeta, Egam, Eb0. fold (vf tmp j). rewrite Etmp. f_equal; [|replace (v + 1) with (Datatypes.S v) by lia; reflexivity].
      unfold w2. destruct (Nat.lt_ge_cases j v) as [LT|GE'].
      * rewrite app_nth1 by (rewrite zip_upd_length, firstn_length; unfold w1; cbn [length]; lia).
        rewrite nth_zip_upd. rewrite firstn_length. unfold w1 at 1. cbn [length].
        destruct (Nat.ltb_spec j (Nat.min v (Datatypes.S (length w)))); [|lia]. destruct (Nat.ltb_spec j (length y)); [|lia]. cbn [andb].
        destruct (Nat.ltb_spec j v); [|lia].
        rewrite toF_add, toF_mul by (try apply mul_byte; try apply nth_byte; try apply Forall_firstn; assumption).
        rewrite nth_firstn'. destruct (Nat.ltb_spec j v); [|lia]. f_equal. unfold w1. destruct j as [|j']; reflexivity.
      * assert (j = v) as -> by lia. rewrite app_nth2 by (rewrite zip_upd_length, firstn_length; unfold w1; cbn [length]; lia).
        rewrite zip_upd_length, firstn_length. unfold w1 at 1. cbn [length]. replace (v - Nat.min v (Datatypes.S (length w))) with 0 by lia.
        rewrite nth_skipn'. rewrite Nat.add_0_r. destruct (Nat.ltb_spec v v); [lia|]. unfold w1.
        destruct v as [|v']; [lia|]. cbn [nth]. unfold vf. ring.
Qed.

(* ---- the singular step, piece by piece ---- *)
Lemma nth_removelast (l : list N) j : j < length l - 1 -> nth j (removelast l) 0%N = nth j l 0%N.
Proof.
  revert j. induction l as [|x r IH]; intros j H; [cbn in H; lia|]. destruct r as [|y r']; [cbn in H; lia|].
  change (removelast (x :: y :: r')) with (x :: removelast (y :: r')). destruct j as [|j]; [reflexivity|].
  cbn [nth]. apply IH. cbn [length] in *. lia.
Qed.

Lemma Forall_removelast (P : N -> Prop) l : Forall P l -> Forall P (removelast l).
Proof.
  induction 1 as [|x r Hx Hr IH]; [constructor|]. destruct r as [|y r']; [constructor|].
  change (removelast (x :: y :: r')) with (x :: removelast (y :: r')). constructor; assumption.
Qed.

Lemma map_ok_nth {A} (f : nat -> RR A) (d : A) : forall l ys, map_ok f l = Ok ys ->
  length ys = length l /\ forall idx, idx < length l -> f (nth idx l 0) = Ok (nth idx ys d).
Proof.
  induction l as [|x r IH]; intros ys H; cbn [map_ok] in H; [inversion H; subst; split; [reflexivity|intros idx Hi; cbn in Hi; lia]|].
  destruct (f x) as [y| |] eqn:E; cbn [bind] in H; try discriminate.
  destruct (map_ok f r) as [ys'| |] eqn:E2; cbn [bind] in H; try discriminate. inversion H; subst ys.
  destruct (IH ys' eq_refl) as [L HI]. split; [cbn [length]; lia|]. intros [|idx] Hi; cbn [nth]; [exact E|]. apply HI. cbn [length] in Hi. lia.
Qed.

Lemma Forall_zipw (f : N -> N -> N) : (forall a b, byte a -> byte b -> byte (f a b)) ->
  forall l1 l2, Forall byte l1 -> Forall byte l2 -> Forall byte (zipw f l1 l2).
Proof.
  intros Hf l1 l2 H1. revert l2. induction H1 as [|a r Ha Hr IH]; intros [|b r2] H2; cbn [zipw]; try constructor.
  - inversion H2; subst. apply Hf; assumption.
  - inversion H2; subst. apply IH. assumption.
Qed.

Section Singular.
Variables (v : nat) (y w : list N).
Hypothesis Hv : 1 <= v.
Hypothesis Lw : length w = v.
Hypothesis Ly : length y = v.
Hypothesis Bw : Forall byte w.
Hypothesis By : Forall byte y.
Hypothesis I3 : Inv3 S_ v (vf y).
Hypothesis I4 : Inv4 S_ v (vf w).

(* eq. (8): the iteration w^k *)
Lemma iter_wk_inv : forall len k0 tmp tmp', length tmp = v -> Forall byte tmp -> Wk S_ v k0 (vf tmp) ->
  iter_wk syn y w tmp v (seq k0 len) = Ok tmp' ->
  length tmp' = v /\ Forall byte tmp' /\ Wk S_ v (k0 + len) (vf tmp').
Proof.
  induction len as [|len IH]; intros k0 tmp tmp' Lt Bt W H; cbn [seq iter_wk] in H.
  - inversion H; subst. rewrite Nat.add_0_r. auto.
  - destruct (nth_ok syn (2 * v + k0)) as [s| |] eqn:E1; cbn [bind] in H; try discriminate.
    destruct (slice_incl syn v (2 * v - 1)) as [sl| |] eqn:E2; cbn [bind] in H; try discriminate.
    destruct (dot sl tmp) as [d| |] eqn:E3; cbn [bind] in H; try discriminate.
    destruct (nth_ok tmp (v - 1)) as [eta| |] eqn:E4; cbn [bind] in H; try discriminate.
    destruct (nth_ok_nth _ _ _ E1) as [N1 _]. destruct (nth_ok_nth _ _ _ E4) as [N4 _].
    destruct (dot_bridge syn syn_bytes _ _ _ _ _ E2 E3 Bt) as (_ & Bd & Ed). rewrite Lt in Ed.
    assert (byte s) as Bs by (rewrite <- N1; apply nth_byte; exact syn_bytes).
    assert (byte eta) as Be by (rewrite <- N4; apply nth_byte; exact Bt).
    set (rho := GF.add s d) in *. assert (byte rho) as Br by (apply add_byte; assumption).
    set (yw := zipw (fun yi wi => GF.add (GF.mul rho yi) (GF.mul eta wi)) y w) in *.
    set (tmp2 := zip_upd GF.add (0%N :: removelast tmp) yw) in *.
    assert (length yw = v) as Lyw by (unfold yw; rewrite zipw_length_min; lia).
    assert (Forall byte (0%N :: removelast tmp)) as Bt1 by (constructor; [exact byte_0|apply Forall_removelast; exact Bt]).
    assert (length (0%N :: removelast tmp) = v) as Lt1 by (cbn [length]; rewrite removelast_length; lia).
    assert (Forall byte yw) as Byw.
    { unfold yw. apply Forall_zipw; [|exact By|exact Bw]. intros a b Ha Hb. apply add_byte; apply mul_byte; assumption. }
    assert (Forall byte tmp2) as Bt2 by (apply Forall_zip_upd; [intros; apply add_byte; assumption|exact Bt1|exact Byw]).
    assert (length tmp2 = v) as Lt2 by (unfold tmp2; rewrite zip_upd_length; exact Lt1).
    replace (k0 + Datatypes.S len) with (Datatypes.S k0 + len) by lia.
    apply (IH (Datatypes.S k0) tmp2 tmp' Lt2 Bt2); [|exact H].
    intros i Hi. rewrite (hs_ext _ _ _ (wstep S_ v (vf y) (vf w) k0 (vf tmp))).
    + exact (wstep_Wk S_ v 1 (vf y) (vf w) Hv ltac:(lia) I3 I4 k0 (vf tmp) W i Hi).
    + intros j Hj. unfold wstep. cbv zeta. unfold vf at 1. unfold tmp2. rewrite nth_zip_upd, Lt1, Lyw.
      destruct (Nat.ltb_spec j v); [|lia]. cbn [andb].
      unfold yw. rewrite (nth_zipw _ 0%N 0%N 0%N) by lia.
      rewrite toF_add, toF_add, !toF_mul by (try apply add_byte; try apply mul_byte; try apply nth_byte; assumption).
      unfold rho. rewrite toF_add by assumption. rewrite Ed. rewrite <- N1, <- N4.
      assert (toF (nth j (0%N :: removelast tmp) 0%N) = match j with O => F0 | Datatypes.S j' => vf tmp j' end) as ->.
      { destruct j as [|j']; [reflexivity|]. cbn [nth]. unfold vf. rewrite nth_removelast by lia. reflexivity. }
      unfold SF, vf. ring.
Qed.
End Singular.

(* eq. (10): the lower triangular Toeplitz solve for gamma *)
Lemma gamma_inner_spec sigma i : Forall byte sigma -> forall len j0 gamma g', Forall byte gamma ->
  gamma_inner sigma gamma i (seq j0 len) = Ok g' -> j0 + len <= i ->
  length g' = length gamma /\ Forall byte g' /\ (forall q, q <> i -> nth q g' 0%N = nth q gamma 0%N) /\
  vf g' i = Fadd (vf gamma i) (fsum len (fun t => Fmul (vf sigma (i - (j0 + t))) (vf gamma (j0 + t)))).
Proof.
  intros Bs. induction len as [|len IH]; intros j0 gamma g' Bg H Hle; cbn [seq gamma_inner] in H.
  - inversion H; subst. cbn [fsum]. repeat split; auto. ring.
  - destruct (nth_ok gamma j0) as [gj| |] eqn:E1; cbn [bind] in H; try discriminate.
    destruct (nth_ok sigma (i - j0)) as [sg| |] eqn:E2; cbn [bind] in H; try discriminate.
    destruct (nth_ok gamma i) as [cur| |] eqn:E3; cbn [bind] in H; try discriminate.
    destruct (set_ok gamma i (GF.add cur (GF.mul sg gj))) as [g1| |] eqn:E4; cbn [bind] in H; try discriminate.
    destruct (nth_ok_nth _ _ _ E1) as [N1 _]. destruct (nth_ok_nth _ _ _ E2) as [N2 _]. destruct (nth_ok_nth _ _ _ E3) as [N3 _].
    assert (byte gj) as B1 by (rewrite <- N1; apply nth_byte; exact Bg).
    assert (byte sg) as B2 by (rewrite <- N2; apply nth_byte; exact Bs).
    assert (byte cur) as B3 by (rewrite <- N3; apply nth_byte; exact Bg).
    assert (Forall byte g1) as Bg1 by (eapply Forall_set_ok; [exact E4|exact Bg|apply add_byte; [exact B3|apply mul_byte; assumption]]).
    destruct (IH (Datatypes.S j0) g1 g' Bg1 H ltac:(lia)) as (L & B & U & V).
    pose proof (set_ok_length _ _ _ _ E4) as L1.
    split; [lia|]. split; [exact B|]. split.
    + intros q Hq. rewrite (U q Hq). rewrite (nth_set_ok _ _ _ _ q E4). destruct (Nat.eqb_spec q i); [contradiction|reflexivity].
    + rewrite V. rewrite fsum_shift. rewrite Nat.add_0_r.
      assert (vf g1 i = Fadd (vf gamma i) (Fmul (vf sigma (i - j0)) (vf gamma j0))) as ->.
      { unfold vf. rewrite (nth_set_ok _ _ _ _ i E4), Nat.eqb_refl. rewrite toF_add, toF_mul by (try apply mul_byte; assumption).
        rewrite N1, N2, N3. reflexivity. }
      rewrite (fsum_ext len _ (fun t => Fmul (vf sigma (i - (j0 + Datatypes.S t))) (vf gamma (j0 + Datatypes.S t)))).
      * ring.
      * intros t Ht. replace (Datatypes.S j0 + t) with (j0 + Datatypes.S t) by lia. f_equal. unfold vf.
        rewrite (nth_set_ok _ _ _ _ _ E4). destruct (Nat.eqb_spec (j0 + Datatypes.S t) i); [lia|reflexivity].
Qed.

Lemma gamma_outer_spec s0 srest : Forall byte (s0 :: srest) -> s0 <> 0%N -> forall len i0 gamma g', Forall byte gamma ->
  gamma_outer (s0 :: srest) gamma (seq i0 len) = Ok g' -> i0 + len <= length gamma ->
  length g' = length gamma /\ Forall byte g' /\
  (forall q, q < i0 \/ i0 + len <= q -> nth q g' 0%N = nth q gamma 0%N) /\
  (forall q, i0 <= q < i0 + len ->
     Fadd (fsum q (fun j => Fmul (vf (s0 :: srest) (q - j)) (vf g' j))) (Fmul (toF s0) (vf g' q)) = vf gamma q).
Proof.
  intros Bs NZ. induction len as [|len IH]; intros i0 gamma g' Bg H Hle; cbn [seq gamma_outer] in H.
  - inversion H; subst. repeat split; auto. intros q Hq. lia.
  - destruct (gamma_inner (s0 :: srest) gamma i0 (seq 0 i0)) as [g1| |] eqn:E1; cbn [bind] in H; try discriminate.
    destruct (gamma_inner_spec _ i0 Bs i0 0 gamma g1 Bg E1 ltac:(lia)) as (L1 & B1 & U1 & V1).
    destruct (nth_ok g1 i0) as [cur| |] eqn:E2; cbn [bind] in H; try discriminate.
    unfold nth_ok at 1, get in H. cbn [nth_error bind] in H.
    destruct (gdiv cur s0) as [q0| |] eqn:E3; cbn [bind] in H; try discriminate.
    destruct (set_ok g1 i0 q0) as [g2| |] eqn:E4; cbn [bind] in H; try discriminate.
    destruct (nth_ok_nth _ _ _ E2) as [N2 _].
    assert (byte cur) as Bc by (rewrite <- N2; apply nth_byte; exact B1).
    assert (byte s0) as Bs0 by (inversion Bs; assumption).
    destruct (gdiv_toF _ _ _ Bc Bs0 E3) as (_ & Bq & Eq).
    assert (Forall byte g2) as B2 by (eapply Forall_set_ok; [exact E4|exact B1|exact Bq]).
    pose proof (set_ok_length _ _ _ _ E4) as L2.
    destruct (IH (Datatypes.S i0) g2 g' B2 H ltac:(lia)) as (L & B & U & V).
    split; [lia|]. split; [exact B|]. split.
    + intros q Hq. rewrite (U q ltac:(lia)). rewrite (nth_set_ok _ _ _ _ q E4). destruct (Nat.eqb_spec q i0); [lia|]. apply U1. lia.
    + intros q Hq. destruct (Nat.eq_dec q i0) as [->|NE].
      * (* the row just solved *)
        assert (forall j, j <= i0 -> vf g' j = vf g2 j) as AG by (intros j Hj; unfold vf; rewrite (U j ltac:(lia)); reflexivity).
        rewrite (AG i0 (le_n _)).
        rewrite (fsum_ext i0 _ (fun j => Fmul (vf (s0 :: srest) (i0 - j)) (vf gamma j))).
        2:{ intros j Hj. rewrite (AG j ltac:(lia)). f_equal. unfold vf. rewrite (nth_set_ok _ _ _ _ j E4).
            destruct (Nat.eqb_spec j i0); [lia|]. rewrite (U1 j ltac:(lia)). reflexivity. }
        assert (vf g2 i0 = Fmul (toF cur) (Finv (toF s0))) as -> by (unfold vf; rewrite (nth_set_ok _ _ _ _ i0 E4), Nat.eqb_refl; exact Eq).
        assert (toF cur = vf g1 i0) as -> by (unfold vf; rewrite N2; reflexivity). cbn [Nat.add] in V1. rewrite V1.
        set (sm := fsum i0 (fun j => Fmul (vf (s0 :: srest) (i0 - j)) (vf gamma j))).
        pose proof (Finv_r (toF s0) (toF_nonzero _ Bs0 NZ)) as HI.
        transitivity (Fadd sm (Fmul (Fadd (vf gamma i0) sm) (Fmul (toF s0) (Finv (toF s0))))); [ring|]. rewrite HI.
        transitivity (Fadd (vf gamma i0) (Fadd sm sm)); [ring|]. rewrite Fadd_self. ring.
      * rewrite (V q ltac:(lia)). unfold vf. rewrite (nth_set_ok _ _ _ _ q E4). destruct (Nat.eqb_spec q i0); [lia|]. rewrite (U1 q NE). reflexivity.
Qed.

(* eq. (9): adding the shifted copies of [w, 1] *)
Lemma upd_w_spec (w : list N) (m v : nat) : length w = v -> Forall byte w ->
  forall gr I tmp tmp', length tmp = m + v + 1 -> Forall byte tmp -> Forall byte gr -> I + length gr <= m + 1 ->
  upd_w tmp w m v (combine (seq I (length gr)) gr) = Ok tmp' ->
  length tmp' = m + v + 1 /\ Forall byte tmp' /\
  forall j, vf tmp' j = Fadd (vf tmp j) (fsum (length gr) (fun t => Fmul (vf gr t) (placed v m (vf w) (I + t) j))).
Proof.
  intros Lw Bw. induction gr as [|gi gr IH]; intros I tmp tmp' Lt Bt Bg HI H; cbn [length seq combine upd_w] in H.
  - inversion H; subst. cbn [length fsum]. repeat split; auto. intros j. ring.
  - assert (I <= m) as Hi by (cbn [length] in HI; lia).
    destruct (Nat.ltb_spec (length tmp) (m - I)); [lia|].
    set (tmp1 := firstn (m - I) tmp ++ zip_upd (fun t wj => GF.add t (GF.mul gi wj)) (skipn (m - I) tmp) w) in *.
    destruct (nth_ok tmp1 (m - I + v)) as [cur| |] eqn:E1; cbn [bind] in H; try discriminate.
    destruct (set_ok tmp1 (m - I + v) (GF.add cur gi)) as [tmp2| |] eqn:E2; cbn [bind] in H; try discriminate.
    apply Forall_cons_iff in Bg. destruct Bg as [Bgi Bgr].
    assert (length tmp1 = m + v + 1) as L1 by (unfold tmp1; rewrite app_length, zip_upd_length, firstn_length, skipn_length; lia).
    assert (Forall byte tmp1) as B1.
    { unfold tmp1. apply Forall_app. split; [apply Forall_firstn; exact Bt|].
      apply Forall_zip_upd; [intros a b Ha Hb; apply add_byte; [exact Ha|apply mul_byte; assumption]|apply Forall_skipn; exact Bt|exact Bw]. }
    destruct (nth_ok_nth _ _ _ E1) as [N1 _].
    assert (byte cur) as Bc by (rewrite <- N1; apply nth_byte; exact B1).
    assert (Forall byte tmp2) as B2 by (eapply Forall_set_ok; [exact E2|exact B1|apply add_byte; assumption]).
    pose proof (set_ok_length _ _ _ _ E2) as L2.
    destruct (IH (Datatypes.S I) tmp2 tmp' ltac:(lia) B2 Bgr ltac:(cbn [length] in HI; lia) H) as (L & B & V).
    split; [exact L|]. split; [exact B|]. intros j. rewrite V. cbn [length]. rewrite fsum_shift. rewrite Nat.add_0_r.
    assert (vf tmp2 j = Fadd (vf tmp j) (Fmul (toF gi) (placed v m (vf w) I j))) as ->.
    { unfold vf at 1. rewrite (nth_set_ok _ _ _ _ j E2). unfold placed.
      assert (forall jj, nth jj tmp1 0%N = if (m - I <=? jj) && (jj <? m - I + v) then GF.add (nth jj tmp 0%N) (GF.mul gi (nth (jj - (m - I)) w 0%N)) else nth jj tmp 0%N) as T1.
      { intros jj. unfold tmp1. destruct (Nat.leb_spec (m - I) jj) as [GE|LT]; cbn [andb].
        - rewrite app_nth2 by (rewrite firstn_length; lia). rewrite firstn_length. replace (Nat.min (m - I) (length tmp)) with (m - I) by lia.
          rewrite nth_zip_upd, skipn_length, nth_skipn', Lw.
          replace (m - I + (jj - (m - I))) with jj by lia.
          destruct (Nat.ltb_spec (jj - (m - I)) (length tmp - (m - I))); destruct (Nat.ltb_spec (jj - (m - I)) v); destruct (Nat.ltb_spec jj (m - I + v)); cbn [andb]; try lia; try reflexivity.
        - rewrite app_nth1 by (rewrite firstn_length; lia). rewrite nth_firstn'. destruct (Nat.ltb_spec jj (m - I)); [reflexivity|lia]. }
      destruct (Nat.eqb_spec j (m - I + v)) as [->|NE].
      - rewrite toF_add by assumption. rewrite <- N1, T1.
        destruct (Nat.leb_spec (m - I) (m - I + v)); [|lia]. destruct (Nat.ltb_spec (m - I + v) (m - I + v)); [lia|]. cbn [andb].
        destruct (Nat.ltb_spec (m - I + v) (m - I)); [lia|]. replace (m - I + v - (m - I)) with v by lia.
        unfold ext1. destruct (Nat.ltb_spec v v); [lia|]. rewrite Nat.eqb_refl. unfold vf. ring.
      - rewrite T1. destruct (Nat.leb_spec (m - I) j) as [GE|LT]; cbn [andb].
        + destruct (Nat.ltb_spec j (m - I)); [lia|]. destruct (Nat.ltb_spec j (m - I + v)) as [IN|OUT].
          * rewrite toF_add, toF_mul by (try apply mul_byte; try apply nth_byte; assumption).
            unfold ext1. destruct (Nat.ltb_spec (j - (m - I)) v); [|lia]. reflexivity.
          * unfold ext1. destruct (Nat.ltb_spec (j - (m - I)) v); [lia|]. destruct (Nat.eqb_spec (j - (m - I)) v); [lia|]. unfold vf. ring.
        + destruct (Nat.ltb_spec j (m - I)); [|lia]. unfold vf. ring. }
    assert (vf (gi :: gr) 0 = toF gi) as -> by reflexivity.
    rewrite (fsum_ext (length gr) (fun j0 => Fmul (vf (gi :: gr) (Datatypes.S j0)) (placed v m (vf w) (I + Datatypes.S j0) j))
                      (fun t => Fmul (vf gr t) (placed v m (vf w) (Datatypes.S I + t) j))).
    + ring.
    + intros t Ht. replace (I + Datatypes.S t) with (Datatypes.S I + t) by lia. reflexivity.
Qed.

Lemma find_m_spec tmp v : length tmp = v + 1 -> Forall byte tmp -> forall len a m sg,
  find_m syn tmp v (seq a len) = Ok (Some (m, sg)) ->
  a <= m < a + len /\ byte sg /\ sg <> 0%N /\ toF sg = hs S_ (Datatypes.S v) (vf tmp) (v + m) /\
  forall i, a <= i < m -> hs S_ (Datatypes.S v) (vf tmp) (v + i) = F0.
Proof.
  intros Lt Bt. induction len as [|len IH]; intros a m sg H; cbn [seq find_m] in H; [discriminate|].
  destruct (slice_incl syn (v + a) (2 * v + a)) as [sl| |] eqn:E1; cbn [bind] in H; try discriminate.
  destruct (dot sl tmp) as [sigma_i| |] eqn:E2; cbn [bind] in H; try discriminate.
  destruct (dot_bridge syn syn_bytes _ _ _ _ _ E1 E2 Bt) as (_ & Bs & Es). rewrite Lt in Es. replace (v + 1) with (Datatypes.S v) in Es by lia.
  destruct (N.eqb_spec sigma_i 0) as [Z|NZ].
  - destruct (IH (Datatypes.S a) m sg H) as (R & B & NZ & E & ZS). split; [lia|]. split; [exact B|]. split; [exact NZ|]. split; [exact E|].
    intros i Hi. destruct (Nat.eq_dec i a) as [->|NE]; [rewrite <- Es, Z; reflexivity|apply ZS; lia].
  - inversion H; subst. split; [lia|]. split; [exact Bs|]. split; [exact NZ|]. split; [exact Es|]. intros i Hi. lia.
Qed.

Lemma nth_repeat0 n j : nth j (repeat 0%N n) 0%N = 0%N.
Proof. revert j. induction n as [|n IH]; intros [|j]; cbn; auto. Qed.

Lemma resize_nth l n j : j < n -> nth j (resize l n) 0%N = nth j l 0%N.
Proof.
  intros H. unfold resize. destruct (Nat.lt_ge_cases j (length l)) as [LT|GE].
  - rewrite app_nth1 by (rewrite firstn_length; lia). rewrite nth_firstn'. destruct (Nat.ltb_spec j n); [reflexivity|lia].
  - rewrite app_nth2 by (rewrite firstn_length; lia). rewrite nth_repeat0. rewrite nth_overflow by lia. reflexivity.
Qed.

Lemma Forall_repeat0 n : Forall byte (repeat 0%N n).
Proof. induction n; cbn; constructor; [exact byte_0|assumption]. Qed.

(* ---- the singular step ---- *)
Lemma singular_step s t m sg sl sig_rest tmp1 sinv y2 gamma0 gamma tmp3 :
  InvN s -> let v := ld_v s in let w := ld_w s in let y := ld_y s in let tmp := w ++ [1%N] in
  v < t -> 2 * t <= length syn ->
  slice_incl syn v (2 * v) = Ok sl -> dot sl tmp = Ok 0%N ->
  find_m syn tmp v (seq 1 (t - v - 1)) = Ok (Some (m, sg)) ->
  map_ok (fun k => let* sl := slice_incl syn (v + k) (2 * v + k) in dot sl tmp) (seq (m + 1) m) = Ok sig_rest ->
  iter_wk syn y w w v (seq 0 (m + 1)) = Ok tmp1 ->
  gdiv 1%N sg = Ok sinv ->
  set_ok (zip_upd (fun _ wi => GF.mul wi sinv) (repeat 0%N (m + v + 1)) w) (length w) sinv = Ok y2 ->
  map_ok (fun i => let* s1 := nth_ok syn (m + v + v + 1 + i) in
                   let* sl := slice_incl syn (v + i) (2 * v - 1 + i) in
                   let* d := dot sl tmp1 in Ok (GF.add s1 d)) (seq 0 (m + 1)) = Ok gamma0 ->
  gamma_outer (sg :: sig_rest) gamma0 (seq 0 (m + 1)) = Ok gamma ->
  upd_w (resize tmp1 (m + v + 1)) w m v (combine (seq 0 (length gamma)) gamma) = Ok tmp3 ->
  InvN (mkld (m + v + 1) y2 tmp3).
Proof.
  intros I v w y tmp Hvt Hs SL D FM SR IW GI SY G0 GO UW.
  destruct I as [P Lw Ly Bw By I3 I4]. fold v in P, Lw, Ly, I3, I4. fold w in Lw, Bw, I4. fold y in Ly, By, I3.
  assert (Forall byte tmp) as Bt by (apply Forall_snoc; [exact Bw|exact byte_1]).
  assert (length tmp = v + 1) as Lt by (unfold tmp; rewrite app_length; cbn [length]; lia).
  assert (forall j, vf tmp j = ext1 v (vf w) j) as Etmp by (intros j; unfold tmp; rewrite vf_snoc1, Lw; reflexivity).
  assert (forall r, hs S_ (Datatypes.S v) (vf tmp) r = hs S_ (Datatypes.S v) (ext1 v (vf w)) r) as Ehs by (intros r; apply hs_ext; intros; apply Etmp).
  (* sigma_0 = eps = 0, sigma_i = 0 up to m, sigma_m <> 0 *)
  destruct (dot_bridge syn syn_bytes _ _ _ _ _ SL D Bt) as (_ & _ & E0). rewrite Lt in E0. replace (v + 1) with (Datatypes.S v) in E0 by lia.
  destruct (find_m_spec tmp v Lt Bt _ _ _ _ FM) as (Rm & Bsg & NZsg & Esg & Zs).
  assert (forall k, k < m -> sigma S_ v (vf w) k = F0) as HZ.
  { intros k Hk. unfold sigma. rewrite <- Ehs. destruct k as [|k']; [rewrite Nat.add_0_r, <- E0; reflexivity|apply Zs; lia]. }
  assert (toF sg = sigma S_ v (vf w) m) as Esg' by (unfold sigma; rewrite <- Ehs; exact Esg).
  destruct (gdiv_toF _ _ _ byte_1 Bsg GI) as (_ & Bsinv & Esinv).
  assert (Fmul (sigma S_ v (vf w) m) (toF sinv) = F1) as HI.
  { rewrite Esinv, <- Esg'. change (toF 1%N) with F1. transitivity (Fmul (toF sg) (Finv (toF sg))); [ring|]. apply Finv_r, toF_nonzero; assumption. }
  assert (1 <= m) as Hm by lia.
  (* the rest of sigma *)
  destruct (map_ok_nth _ 0%N _ _ SR) as [Lsr Hsr]. rewrite seq_length in Lsr.
  assert (Forall byte (sg :: sig_rest) /\ forall k, k <= m -> vf (sg :: sig_rest) k = sigma S_ v (vf w) (m + k)) as [Bsig Esig].
  { assert (forall idx, idx < m -> byte (nth idx sig_rest 0%N) /\ toF (nth idx sig_rest 0%N) = sigma S_ v (vf w) (m + Datatypes.S idx)) as HH.
    { intros idx Hi. specialize (Hsr idx ltac:(rewrite seq_length; exact Hi)). rewrite seq_nth in Hsr by exact Hi. cbv beta in Hsr.
      destruct (slice_incl syn (v + (m + 1 + idx)) (2 * v + (m + 1 + idx))) as [sl'| |] eqn:E1; cbn [bind] in Hsr; try discriminate.
      destruct (dot_bridge syn syn_bytes _ _ _ _ _ E1 Hsr Bt) as (_ & B & E). split; [exact B|]. rewrite E, Lt.
      replace (v + 1) with (Datatypes.S v) by lia. unfold sigma. rewrite Ehs. f_equal. lia. }
    split.
    - constructor; [exact Bsg|]. apply Forall_forall. intros x Hx. destruct (In_nth _ _ 0%N Hx) as (idx & Hi & <-). apply HH. lia.
    - intros [|k] Hk; [rewrite Nat.add_0_r; exact Esg'|]. unfold vf. cbn [nth]. apply HH. lia. }
  (* w^{m+1} *)
  destruct (iter_wk_inv v y w P Lw Ly Bw By I3 I4 (m + 1) 0 w tmp1 Lw Bw (Wk_0 S_ v 1 (vf w) P ltac:(lia) I4) IW) as (L1 & B1 & W1).
  replace (0 + (m + 1)) with (Datatypes.S m) in W1 by lia.
  (* gamma0 *)
  destruct (map_ok_nth _ 0%N _ _ G0) as [Lg0 Hg0]. rewrite seq_length in Lg0.
  assert (Forall byte gamma0 /\ forall q, q <= m -> vf gamma0 q = g0 S_ v m (vf tmp1) q) as [Bg0 Eg0].
  { assert (forall q, q <= m -> byte (nth q gamma0 0%N) /\ toF (nth q gamma0 0%N) = g0 S_ v m (vf tmp1) q) as HH.
    { intros q Hq. specialize (Hg0 q ltac:(rewrite seq_length; lia)). rewrite seq_nth in Hg0 by lia. cbv beta in Hg0. cbn [Nat.add] in Hg0.
      destruct (nth_ok syn (m + v + v + 1 + q)) as [s1| |] eqn:E1; cbn [bind] in Hg0; try discriminate.
      destruct (slice_incl syn (v + q) (2 * v - 1 + q)) as [sl'| |] eqn:E2; cbn [bind] in Hg0; try discriminate.
      destruct (dot sl' tmp1) as [d| |] eqn:E3; cbn [bind] in Hg0; try discriminate. inversion Hg0 as [HN].
      destruct (nth_ok_nth _ _ _ E1) as [N1 _]. destruct (dot_bridge syn syn_bytes _ _ _ _ _ E2 E3 B1) as (_ & Bd & Ed).
      assert (byte s1) as Bs1 by (rewrite <- N1; apply nth_byte; exact syn_bytes).
      split; [apply add_byte; assumption|]. rewrite toF_add by assumption. rewrite Ed, L1, <- N1. unfold g0. f_equal. unfold SF, vf. f_equal. f_equal. lia. }
    split.
    - apply Forall_forall. intros x Hx. destruct (In_nth _ _ 0%N Hx) as (idx & Hi & <-). apply HH. lia.
    - intros q Hq. apply HH. exact Hq. }
  (* gamma *)
  destruct (gamma_outer_spec sg sig_rest Bsig NZsg (m + 1) 0 gamma0 gamma Bg0 GO ltac:(lia)) as (Lg & Bg & _ & Vg).
  assert (forall q, q <= m -> fsum (Datatypes.S q) (fun i => Fmul (sigma S_ v (vf w) (m + q - i)) (vf gamma i)) = g0 S_ v m (vf tmp1) q) as HG.
  { intros q Hq. cbn [fsum]. rewrite <- (Eg0 q Hq), <- (Vg q ltac:(lia)). f_equal.
    - apply fsum_ext. intros j Hj. rewrite (Esig (q - j)) by lia. f_equal. f_equal. lia.
    - rewrite Esg'. f_equal. f_equal. lia. }
  (* the new w *)
  assert (length (resize tmp1 (m + v + 1)) = m + v + 1) as Lr by apply resize_length.
  assert (Forall byte (resize tmp1 (m + v + 1))) as Br.
  { unfold resize. apply Forall_app. split; [apply Forall_firstn; exact B1|apply Forall_repeat0]. }
  destruct (upd_w_spec w m v Lw Bw gamma 0 _ tmp3 Lr Br Bg ltac:(lia) UW) as (L3 & B3 & V3).
  (* the new y *)
  pose proof (set_ok_length _ _ _ _ SY) as Ly2. rewrite zip_upd_length, repeat_length in Ly2.
  assert (Forall byte y2) as By2.
  { eapply Forall_set_ok; [exact SY| |exact Bsinv]. apply Forall_zip_upd; [intros a b _ Hb; apply mul_byte; assumption|apply Forall_repeat0|exact Bw]. }
  constructor; cbn [ld_v ld_w ld_y]; try assumption; try lia.
  - (* (3) *)
    replace (m + v + 1) with (Datatypes.S (v + m)) by lia. intros i Hi.
    rewrite (hs_ext _ _ _ (y_sing v (vf w) (toF sinv))).
    + exact (singular_inv3 S_ v m (vf w) (toF sinv) P Hm I4 HZ HI i Hi).
    + intros j Hj. unfold y_sing, vf at 1. rewrite (nth_set_ok _ _ _ _ j SY). rewrite Lw. unfold ext1.
      destruct (Nat.eqb_spec j v) as [->|NE].
      * destruct (Nat.ltb_spec v v); [lia|]. ring.
      * rewrite nth_zip_upd, repeat_length, Lw. destruct (Nat.ltb_spec j (m + v + 1)); [|lia]. destruct (Nat.ltb_spec j v); cbn [andb].
        -- rewrite toF_mul by (try apply nth_byte; assumption). reflexivity.
        -- rewrite nth_repeat0. change (toF 0%N) with F0. ring.
  - (* (4) *)
    replace (m + v + 1) with (Datatypes.S (v + m)) by lia. intros i Hi.
    rewrite (hs_ext _ _ _ (w_sing v m (vf w) (vf tmp1) (vf gamma))).
    + exact (singular_inv4 S_ v m (vf w) P Hm I4 HZ (vf tmp1) (vf gamma) W1 HG i Hi).
    + intros j Hj. rewrite V3. unfold w_sing. rewrite Lg, Lg0. replace (m + 1) with (Datatypes.S m) by lia. f_equal.
      unfold vf. rewrite resize_nth by lia. destruct (Nat.ltb_spec j v); [reflexivity|]. rewrite nth_overflow by lia. reflexivity.
Qed.

(* ---- the initial state: y = [1 / S_{v-1}, 0, ..], w from the anti-triangular solve ---- *)
Lemma take_while_zero_zeros l : forall i, i < take_while_zero l -> nth i l 0%N = 0%N.
Proof.
  induction l as [|x r IH]; intros i H; cbn [take_while_zero] in H; [lia|]. destruct (N.eqb_spec x 0) as [->|]; [|lia].
  destruct i as [|i]; [reflexivity|]. cbn [nth]. apply IH. lia.
Qed.

Lemma init_w_inner_spec v i : forall len j0 w w', Forall byte w -> v - 1 - i < j0 ->
  init_w_inner syn w v i (seq j0 len) = Ok w' ->
  length w' = length w /\ Forall byte w' /\ (forall q, q <> v - 1 - i -> nth q w' 0%N = nth q w 0%N) /\
  vf w' (v - 1 - i) = Fadd (vf w (v - 1 - i)) (fsum len (fun t => Fmul (S_ (i + (j0 + t))) (vf w (j0 + t)))).
Proof.
  induction len as [|len IH]; intros j0 w w' Bw Hp H; cbn [seq init_w_inner] in H.
  - inversion H; subst. cbn [fsum]. repeat split; auto. ring.
  - destruct (nth_ok w j0) as [wj| |] eqn:E1; cbn [bind] in H; try discriminate.
    destruct (nth_ok syn (i + j0)) as [sv| |] eqn:E2; cbn [bind] in H; try discriminate.
    destruct (nth_ok w (v - 1 - i)) as [cur| |] eqn:E3; cbn [bind] in H; try discriminate.
    destruct (set_ok w (v - 1 - i) (GF.add cur (GF.mul sv wj))) as [w1| |] eqn:E4; cbn [bind] in H; try discriminate.
    destruct (nth_ok_nth _ _ _ E1) as [N1 _]. destruct (nth_ok_nth _ _ _ E2) as [N2 _]. destruct (nth_ok_nth _ _ _ E3) as [N3 _].
    assert (byte wj) as B1 by (rewrite <- N1; apply nth_byte; exact Bw).
    assert (byte sv) as B2 by (rewrite <- N2; apply nth_byte; exact syn_bytes).
    assert (byte cur) as B3 by (rewrite <- N3; apply nth_byte; exact Bw).
    assert (Forall byte w1) as Bw1 by (eapply Forall_set_ok; [exact E4|exact Bw|apply add_byte; [exact B3|apply mul_byte; assumption]]).
    destruct (IH (Datatypes.S j0) w1 w' Bw1 ltac:(lia) H) as (L & B & U & V).
    pose proof (set_ok_length _ _ _ _ E4) as L1.
    split; [lia|]. split; [exact B|]. split.
    + intros q Hq. rewrite (U q Hq). rewrite (nth_set_ok _ _ _ _ q E4). destruct (Nat.eqb_spec q (v - 1 - i)); [contradiction|reflexivity].
    + rewrite V. rewrite fsum_shift. rewrite Nat.add_0_r.
      assert (vf w1 (v - 1 - i) = Fadd (vf w (v - 1 - i)) (Fmul (S_ (i + j0)) (vf w j0))) as ->.
      { unfold vf at 1. rewrite (nth_set_ok _ _ _ _ _ E4), Nat.eqb_refl. rewrite toF_add, toF_mul by (try apply mul_byte; assumption).
        rewrite <- N1, <- N2, <- N3. reflexivity. }
      rewrite (fsum_ext len _ (fun t => Fmul (S_ (i + (j0 + Datatypes.S t))) (vf w (j0 + Datatypes.S t)))).
      * ring.
      * intros t Ht. replace (Datatypes.S j0 + t) with (j0 + Datatypes.S t) by lia. f_equal. unfold vf.
        rewrite (nth_set_ok _ _ _ _ _ E4). destruct (Nat.eqb_spec (j0 + Datatypes.S t) (v - 1 - i)); [lia|reflexivity].
Qed.

Lemma init_w_outer_spec v d : nth (v - 1) syn 0%N = d -> d <> 0%N -> v - 1 < length syn ->
  forall len i0 w w', Forall byte w -> length w = v -> i0 + len <= v ->
  init_w_outer syn w v (seq i0 len) = Ok w' ->
  length w' = v /\ Forall byte w' /\
  (forall q, q + (i0 + len) < v \/ v <= q + i0 -> nth q w' 0%N = nth q w 0%N) /\
  (forall i, i0 <= i < i0 + len ->
     Fadd (Fmul (toF d) (vf w' (v - 1 - i))) (fsum i (fun t => Fmul (S_ (i + (v - i + t))) (vf w' (v - i + t)))) = vf w (v - 1 - i)).
Proof.
  intros Hd NZ Hv. assert (byte d) as Bd by (rewrite <- Hd; apply nth_byte; exact syn_bytes).
  induction len as [|len IH]; intros i0 w w' Bw Lw Hle H; cbn [seq init_w_outer] in H.
  - inversion H; subst. repeat split; auto. intros i Hi. lia.
  - destruct (init_w_inner syn w v i0 (seq (v - i0) i0)) as [w1| |] eqn:E1; cbn [bind] in H; try discriminate.
    destruct (init_w_inner_spec v i0 i0 (v - i0) w w1 Bw ltac:(lia) E1) as (L1 & B1 & U1 & V1).
    destruct (nth_ok w1 (v - 1 - i0)) as [cur| |] eqn:E2; cbn [bind] in H; try discriminate.
    destruct (nth_ok syn (v - 1)) as [d'| |] eqn:E3; cbn [bind] in H; try discriminate.
    destruct (nth_ok_nth _ _ _ E3) as [N3 _]. rewrite Hd in N3. subst d'.
    destruct (gdiv cur d) as [q0| |] eqn:E4; cbn [bind] in H; try discriminate.
    destruct (set_ok w1 (v - 1 - i0) q0) as [w2| |] eqn:E5; cbn [bind] in H; try discriminate.
    destruct (nth_ok_nth _ _ _ E2) as [N2 _].
    assert (byte cur) as Bc by (rewrite <- N2; apply nth_byte; exact B1).
    destruct (gdiv_toF _ _ _ Bc Bd E4) as (_ & Bq & Eq).
    assert (Forall byte w2) as B2 by (eapply Forall_set_ok; [exact E5|exact B1|exact Bq]).
    pose proof (set_ok_length _ _ _ _ E5) as L2.
    destruct (IH (Datatypes.S i0) w2 w' B2 ltac:(lia) ltac:(lia) H) as (L & B & U & V).
    split; [exact L|]. split; [exact B|]. split.
    + intros q Hq. rewrite (U q ltac:(lia)). rewrite (nth_set_ok _ _ _ _ q E5). destruct (Nat.eqb_spec q (v - 1 - i0)); [lia|]. apply U1. lia.
    + intros i Hi. destruct (Nat.eq_dec i i0) as [->|NE].
      * assert (forall q, v - 1 - i0 <= q -> vf w' q = vf w2 q) as AG by (intros q Hq; unfold vf; rewrite (U q ltac:(lia)); reflexivity).
        rewrite (AG (v - 1 - i0) (le_n _)).
        rewrite (fsum_ext i0 _ (fun t => Fmul (S_ (i0 + (v - i0 + t))) (vf w (v - i0 + t)))).
        2:{ intros t Ht. rewrite (AG (v - i0 + t) ltac:(lia)). f_equal. unfold vf. rewrite (nth_set_ok _ _ _ _ _ E5).
            destruct (Nat.eqb_spec (v - i0 + t) (v - 1 - i0)); [lia|]. rewrite (U1 (v - i0 + t) ltac:(lia)). reflexivity. }
        assert (vf w2 (v - 1 - i0) = Fmul (toF cur) (Finv (toF d))) as -> by (unfold vf; rewrite (nth_set_ok _ _ _ _ _ E5), Nat.eqb_refl; exact Eq).
        assert (toF cur = vf w1 (v - 1 - i0)) as -> by (unfold vf; rewrite N2; reflexivity). rewrite V1.
        set (sm := fsum i0 (fun t => Fmul (S_ (i0 + (v - i0 + t))) (vf w (v - i0 + t)))).
        pose proof (Finv_r (toF d) (toF_nonzero _ Bd NZ)) as HI.
        transitivity (Fadd (Fmul (Fadd (vf w (v - 1 - i0)) sm) (Fmul (toF d) (Finv (toF d)))) sm); [ring|]. rewrite HI.
        transitivity (Fadd (vf w (v - 1 - i0)) (Fadd sm sm)); [ring|]. rewrite Fadd_self. ring.
      * rewrite (V i ltac:(lia)). unfold vf. rewrite (nth_set_ok _ _ _ _ _ E5). destruct (Nat.eqb_spec (v - 1 - i) (v - 1 - i0)); [lia|]. rewrite (U1 (v - 1 - i) ltac:(lia)). reflexivity.
Qed.

Lemma initial_inv (v : nat) (d y0 : N) sl w : v = take_while_zero syn + 1 -> 2 * v <= length syn ->
  nth_ok syn (v - 1) = Ok d -> gdiv 1%N d = Ok y0 -> slice_incl syn v (2 * v - 1) = Ok sl ->
  init_w_outer syn (rev sl) v (seq 0 v) = Ok w ->
  InvN (mkld v (y0 :: repeat 0%N (v - 1)) w).
Proof.
  intros Ev Hs ND GY SL IW. destruct (nth_ok_nth _ _ _ ND) as [Nd Hd].
  assert (byte d) as Bd by (rewrite <- Nd; apply nth_byte; exact syn_bytes).
  destruct (gdiv_toF _ _ _ byte_1 Bd GY) as (NZ & By0 & Ey0).
  assert (forall i, i < v - 1 -> S_ i = F0) as ZS by (intros i Hi; unfold SF, vf; rewrite take_while_zero_zeros by lia; reflexivity).
  destruct (slice_is_window syn _ _ _ SL) as (-> & _ & _). set (sl := firstn (2 * v - 1 + 1 - v) (skipn v syn)) in *.
  assert (length sl = v) as Lsl by (unfold sl; rewrite firstn_length, skipn_length; lia).
  assert (Forall byte (rev sl)) as Brev by (apply Forall_rev; unfold sl; apply Forall_firstn, Forall_skipn; exact syn_bytes).
  destruct (init_w_outer_spec v d Nd NZ Hd v 0 (rev sl) w Brev ltac:(rewrite rev_length; exact Lsl) ltac:(lia) IW) as (Lw & Bw & _ & Vw).
  constructor; cbn [ld_v ld_w ld_y].
  - lia.
  - exact Lw.
  - cbn [length]. rewrite repeat_length. lia.
  - exact Bw.
  - constructor; [exact By0|apply Forall_repeat0].
  - (* (3) *)
    intros i Hi. unfold hs. rewrite (fsum_single v _ 0); [|lia|intros j Hj Hn; unfold vf; destruct j as [|j']; [lia|]; cbn [nth]; rewrite nth_repeat0; change (toF 0%N) with F0; ring].
    rewrite Nat.add_0_r. unfold vf at 1. cbn [nth]. unfold delta. destruct (Nat.eqb_spec i (v - 1)) as [->|NE].
    + unfold SF, vf. rewrite Nd, Ey0. change (toF 1%N) with F1. transitivity (Fmul (toF d) (Finv (toF d))); [ring|]. apply Finv_r, toF_nonzero; assumption.
    + rewrite ZS by lia. ring.
  - (* (4) *)
    intros i Hi. specialize (Vw i ltac:(lia)).
    assert (vf (rev sl) (v - 1 - i) = S_ (v + i)) as ER.
    { unfold vf. rewrite rev_nth by lia. rewrite Lsl. unfold sl. rewrite nth_firstn'. destruct (Nat.ltb_spec (v - Datatypes.S (v - 1 - i)) (2 * v - 1 + 1 - v)); [|lia].
      rewrite nth_skipn'. unfold SF, vf. f_equal. f_equal. lia. }
    rewrite ER in Vw. rewrite <- Vw. unfold hs.
    replace v with ((v - 1 - i) + (1 + i)) at 1 by lia. rewrite fsum_split, (fsum_split 1 i).
    rewrite fsum_zero by (intros j Hj; rewrite ZS by lia; ring). cbn [fsum].
    rewrite !Nat.add_0_r. replace (i + (v - 1 - i)) with (v - 1) by lia.
    assert (S_ (v - 1) = toF d) as -> by (unfold SF, vf; rewrite Nd; reflexivity).
    rewrite (fsum_ext i _ (fun t => Fmul (S_ (i + (v - i + t))) (vf w (v - i + t)))).
    + ring.
    + intros t Ht. replace (v - 1 - i + (1 + t)) with (v - i + t) by lia. reflexivity.
Qed.
End Inv.
