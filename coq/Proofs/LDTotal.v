(* Proofs/LDTotal.v -- the Levinson-Durbin loop of the model always returns a value: the index / division / length
   obligations (Proofs/RSTotal.v) and the algebraic self-checks (3)/(4) and the gamma re-check (Proofs/LDInv.v) all hold
   for every syndrome vector.  Hence the Reed-Solomon decoder and DataMatrix::decode cannot panic in any build. *)
From Coq Require Import Arith NArith List Bool Lia Ring Field.
From DM Require Import Generated.Symbols Spec.GF256 Spec.Poly Model.Outcome Model.GF Model.RSEnc Model.RSDec Proofs.GFTie Proofs.RSEncProofs
  Proofs.RSDecProofs Proofs.LDBound Proofs.RSTotal Proofs.LDMath Proofs.LDBridge Proofs.LDInv.
Import ListNotations.
Local Open Scope nat_scope.

Section Total.
Variable syn : list N.
Hypothesis syn_bytes : Forall byte syn.

Lemma gamma_row_spec sigma gamma i : Forall byte sigma -> Forall byte gamma -> forall len j0 acc r, byte acc ->
  gamma_row sigma gamma i (seq j0 len) acc = Ok r ->
  byte r /\ toF r = Fadd (toF acc) (fsum len (fun t => Fmul (vf sigma (i - (j0 + t))) (vf gamma (j0 + t)))).
Proof.
  intros Bs Bg. induction len as [|len IH]; intros j0 acc r Ba H; cbn [seq gamma_row] in H.
  - inversion H; subst. cbn [fsum]. split; [exact Ba|ring].
  - destruct (nth_ok sigma (i - j0)) as [sg| |] eqn:E1; cbn [bind] in H; try discriminate.
    destruct (nth_ok gamma j0) as [gj| |] eqn:E2; cbn [bind] in H; try discriminate.
    destruct (nth_ok_nth _ _ _ E1) as [N1 _]. destruct (nth_ok_nth _ _ _ E2) as [N2 _].
    assert (byte sg) as B1 by (rewrite <- N1; apply nth_byte; exact Bs).
    assert (byte gj) as B2 by (rewrite <- N2; apply nth_byte; exact Bg).
    assert (byte (GF.add acc (GF.mul sg gj))) as Ba' by (apply add_byte; [exact Ba|apply mul_byte; assumption]).
    destruct (IH (Datatypes.S j0) _ r Ba' H) as [Br Er].
    split; [exact Br|]. rewrite Er, fsum_shift, Nat.add_0_r. rewrite toF_add, toF_mul by (try apply mul_byte; assumption).
    rewrite <- N1, <- N2. unfold vf.
    rewrite (fsum_ext len (fun t => Fmul (toF (nth (i - (Datatypes.S j0 + t)) sigma 0%N)) (toF (nth (Datatypes.S j0 + t) gamma 0%N)))
                          (fun j => Fmul (toF (nth (i - (j0 + Datatypes.S j)) sigma 0%N)) (toF (nth (j0 + Datatypes.S j) gamma 0%N)))).
    + ring.
    + intros t Ht. replace (Datatypes.S j0 + t) with (j0 + Datatypes.S t) by lia. reflexivity.
Qed.

Lemma gamma_check_ok sigma gamma gamma0 : Forall byte sigma -> Forall byte gamma -> Forall byte gamma0 ->
  forall len i0, i0 + len <= length sigma -> i0 + len <= length gamma -> i0 + len <= length gamma0 ->
  (forall q, i0 <= q < i0 + len ->
     Fadd (fsum q (fun j => Fmul (vf sigma (q - j)) (vf gamma j))) (Fmul (vf sigma 0) (vf gamma q)) = vf gamma0 q) ->
  gamma_check sigma gamma gamma0 (seq i0 len) = Ok tt.
Proof.
  intros Bs Bg B0. induction len as [|len IH]; intros i0 L1 L2 L3 H; cbn [seq gamma_check]; [reflexivity|].
  destruct (gamma_row_ok sigma gamma i0 (seq 0 (i0 + 1)) 0%N) as (row & E1).
  { intros j Hj. apply in_seq in Hj. lia. }
  rewrite E1. cbn [bind]. destruct (nth_ok_ok gamma0 i0 ltac:(lia)) as (tg & E2). rewrite E2. cbn [bind].
  destruct (gamma_row_spec sigma gamma i0 Bs Bg _ _ _ _ byte_0 E1) as [Br Er]. destruct (nth_ok_nth _ _ _ E2) as [N2 _].
  assert (row = tg) as ->.
  { apply toF_inj; [exact Br|rewrite <- N2; apply nth_byte; exact B0|]. rewrite Er. change (toF 0%N) with F0.
    replace (i0 + 1) with (Datatypes.S i0) by lia. cbn [fsum]. cbn [Nat.add]. rewrite Nat.sub_diag.
    rewrite <- N2. fold (vf gamma0 i0). rewrite <- (H i0 ltac:(lia)). ring. }
  rewrite N.eqb_refl. apply IH; try lia. intros q Hq. apply H. lia.
Qed.

Lemma find_m_none tmp v : length tmp = v + 1 -> Forall byte tmp -> forall len a,
  find_m syn tmp v (seq a len) = Ok None -> forall i, a <= i < a + len -> hs (SF syn) (Datatypes.S v) (vf tmp) (v + i) = F0.
Proof.
  intros Lt Bt. induction len as [|len IH]; intros a H i Hi; [lia|]. cbn [seq find_m] in H.
  destruct (slice_incl syn (v + a) (2 * v + a)) as [sl| |] eqn:E1; cbn [bind] in H; try discriminate.
  destruct (dot sl tmp) as [sg| |] eqn:E2; cbn [bind] in H; try discriminate.
  destruct (dot_bridge syn syn_bytes _ _ _ _ _ E1 E2 Bt) as (_ & Bs & Es). rewrite Lt in Es. replace (v + 1) with (Datatypes.S v) in Es by lia.
  destruct (N.eqb_spec sg 0) as [Z|NZ]; [|discriminate].
  destruct (Nat.eq_dec i a) as [->|NE]; [rewrite <- Es, Z; reflexivity|apply (IH (Datatypes.S a) H); lia].
Qed.

(* what the loop returns: a state satisfying the invariant whose polynomial [w, 1] annihilates the first t rows *)
Definition exit_ok (t : nat) (s' : ld_state) : Prop :=
  InvN syn s' /\ ld_v s' <= t /\
  forall r, r < t -> hs (SF syn) (Datatypes.S (ld_v s')) (ext1 (ld_v s') (vf (ld_w s'))) r = F0.

Theorem ld_loop_total t : 2 * t <= length syn -> forall fuel s, t - ld_v s < fuel -> InvN syn s -> ld_v s <= t ->
  exists s', ld_loop fuel syn t s = Ok s' /\ exit_ok t s'.
Proof.
  intros Hs. induction fuel as [|f IH]; intros s Hf I Hvt; [lia|]. cbn [ld_loop].
  pose proof I as I'. destruct I' as [Hv Lw Ly Bw By I3 I4].
  destruct (Nat.ltb_spec (ld_v s) t) as [LT|GE]; cbn [negb].
  2:{ exists s. split; [reflexivity|]. split; [exact I|]. split; [exact Hvt|]. intros r Hr. apply ext1_annihilated; [exact I4|lia]. }
  set (v := ld_v s) in *. set (w := ld_w s) in *. set (y := ld_y s) in *.
  assert (length (w ++ [1%N]) = v + 1) as Lt by (rewrite app_length; cbn [length]; lia).
  assert (Forall byte (w ++ [1%N])) as Bt0 by (apply Forall_snoc; [exact Bw|exact byte_1]).
  assert (forall r, hs (SF syn) (Datatypes.S v) (vf (w ++ [1%N])) r = hs (SF syn) (Datatypes.S v) (ext1 v (vf w)) r) as Ehs0
    by (intros r; apply hs_ext; intros j _; rewrite vf_snoc1, Lw; reflexivity).
  destruct (slice_incl_ok syn v (2 * v)) as (sl & E1 & L1); [lia|lia|]. rewrite E1. cbn [bind].
  destruct (dot_ok sl (w ++ [1%N])) as (eps & E2); [lia|]. rewrite E2. cbn [bind].
  destruct (N.eqb_spec eps 0) as [EZ|ENZ]; cbn [negb].
  - (* singular *)
    subst eps.
    destruct (find_m_ok syn (w ++ [1%N]) v (seq 1 (t - v - 1)) Lt) as (mo & E3).
    { intros i Hi. apply in_seq in Hi. lia. }
    rewrite E3. cbn [bind]. destruct mo as [[m sg]|].
    2:{ exists s. split; [reflexivity|]. split; [exact I|]. split; [exact Hvt|]. intros r Hr. fold v w. rewrite <- Ehs0.
        destruct (Nat.lt_ge_cases r v) as [RL|RG]; [rewrite Ehs0; apply ext1_annihilated; assumption|].
        destruct (dot_bridge syn syn_bytes _ _ _ _ _ E1 E2 Bt0) as (_ & _ & E0). rewrite Lt in E0. replace (v + 1) with (Datatypes.S v) in E0 by lia.
        destruct (Nat.eq_dec r v) as [->|NE]; [rewrite <- E0; reflexivity|].
        replace r with (v + (r - v)) by lia. apply (find_m_none (w ++ [1%N]) v Lt Bt0 _ _ E3). lia. }
    pose proof (find_m_range _ _ _ _ _ _ E3) as Hm. apply in_seq in Hm.
    pose proof (find_m_nonzero _ _ _ _ _ _ E3) as Hsg.
    destruct (map_ok_ok (fun k => let* sl := slice_incl syn (v + k) (2 * v + k) in dot sl (w ++ [1%N])) (seq (m + 1) m)) as (srest & E4 & L4).
    { intros k Hk. apply in_seq in Hk.
      destruct (slice_incl_ok syn (v + k) (2 * v + k)) as (sl' & E & L); [lia|lia|]. rewrite E. cbn [bind]. apply dot_ok. lia. }
    rewrite E4. cbn [bind]. rewrite removelast_snoc.
    destruct (iter_wk_ok syn y w v Hv Ly Lw (seq 0 (m + 1)) w Lw) as (tmp1 & E5 & L5).
    { intros k Hk. apply in_seq in Hk. lia. }
    rewrite E5. cbn [bind].
    destruct (gdiv_ok 1%N sg Hsg) as (sinv & E6). rewrite E6. cbn [bind].
    destruct (set_ok_ok (zip_upd (fun _ wi => GF.mul wi sinv) (repeat 0%N (m + v + 1)) w) (length w) sinv) as (y2 & E7 & L7).
    { rewrite zip_upd_length, repeat_length. lia. }
    rewrite E7. cbn [bind].
    destruct (map_ok_ok (fun i => let* s1 := nth_ok syn (m + v + v + 1 + i) in
                                  let* sl := slice_incl syn (v + i) (2 * v - 1 + i) in
                                  let* d := dot sl tmp1 in Ok (GF.add s1 d)) (seq 0 (m + 1))) as (gamma0 & E8 & L8).
    { intros i Hi. apply in_seq in Hi.
      destruct (nth_ok_ok syn (m + v + v + 1 + i)) as (s1 & E); [lia|]. rewrite E. cbn [bind].
      destruct (slice_incl_ok syn (v + i) (2 * v - 1 + i)) as (sl' & E' & L'); [lia|lia|]. rewrite E'. cbn [bind].
      destruct (dot_ok sl' tmp1) as (d & E''); [lia|]. rewrite E''. cbn [bind]. eexists; reflexivity. }
    rewrite E8. cbn [bind].
    destruct (gamma_outer_ok sg srest Hsg (seq 0 (m + 1)) gamma0) as (gamma & E9 & L9).
    { intros i Hi. apply in_seq in Hi. rewrite L8, L4, !seq_length. lia. }
    rewrite E9. cbn [bind].
    destruct (upd_w_ok w m v (combine (seq 0 (length gamma)) gamma) (resize tmp1 (m + v + 1))) as (tmp3 & E10 & L10).
    { apply resize_length. }
    { intros i g Hi. apply in_combine_seq in Hi. rewrite L9, L8, seq_length in Hi. lia. }
    pose proof (singular_step syn syn_bytes s t m sg sl srest tmp1 sinv y2 gamma0 gamma tmp3 I LT Hs E1 E2 E3 E4 E5 E6 E7 E8 E9 E10) as INEW.
    cbv zeta in INEW. fold v w y in INEW.
    (* the gamma re-check *)
    assert (gamma_check (sg :: srest) gamma gamma0 (seq 0 (m + 1)) = Ok tt) as ->.
    { (* re-derive the facts singular_step used *)
      assert (Forall byte (w ++ [1%N])) as Bt by (apply Forall_snoc; [exact Bw|exact byte_1]).
      destruct (find_m_spec syn syn_bytes (w ++ [1%N]) v Lt Bt _ _ _ _ E3) as (_ & Bsg & _ & _ & _).
      destruct (map_ok_nth _ 0%N _ _ E4) as [_ Hsr].
      assert (Forall byte (sg :: srest)) as Bsig.
      { constructor; [exact Bsg|]. apply Forall_forall. intros x Hx. destruct (In_nth _ _ 0%N Hx) as (idx & Hi & <-).
        rewrite L4, seq_length in Hi. specialize (Hsr idx ltac:(rewrite seq_length; lia)). rewrite seq_nth in Hsr by lia. cbv beta in Hsr.
        destruct (slice_incl syn (v + (m + 1 + idx)) (2 * v + (m + 1 + idx))) as [sl'| |] eqn:EE; cbn [bind] in Hsr; try discriminate.
        destruct (dot_bridge syn syn_bytes _ _ _ _ _ EE Hsr Bt) as (_ & B & _). exact B. }
      destruct (iter_wk_inv syn syn_bytes v y w Hv Lw Ly Bw By I3 I4 (m + 1) 0 w tmp1 Lw Bw (Wk_0 (SF syn) v 1 (vf w) Hv ltac:(lia) I4) E5) as (_ & B1 & _).
      destruct (map_ok_nth _ 0%N _ _ E8) as [_ Hg0].
      assert (Forall byte gamma0) as Bg0.
      { apply Forall_forall. intros x Hx. destruct (In_nth _ _ 0%N Hx) as (q & Hq & <-).
        rewrite L8, seq_length in Hq. specialize (Hg0 q ltac:(rewrite seq_length; lia)). rewrite seq_nth in Hg0 by lia. cbv beta in Hg0. cbn [Nat.add] in Hg0.
        destruct (nth_ok syn (m + v + v + 1 + q)) as [s1| |] eqn:EA; cbn [bind] in Hg0; try discriminate.
        destruct (slice_incl syn (v + q) (2 * v - 1 + q)) as [sl'| |] eqn:EB; cbn [bind] in Hg0; try discriminate.
        destruct (dot sl' tmp1) as [d| |] eqn:EC; cbn [bind] in Hg0; try discriminate. inversion Hg0 as [HN].
        destruct (nth_ok_nth _ _ _ EA) as [N1 _]. destruct (dot_bridge syn syn_bytes _ _ _ _ _ EB EC B1) as (_ & Bd & _).
        apply add_byte; [rewrite <- N1; apply nth_byte; exact syn_bytes|exact Bd]. }
      destruct (gamma_outer_spec sg srest Bsig Hsg (m + 1) 0 gamma0 gamma Bg0 E9 ltac:(rewrite L8, seq_length; lia)) as (Lg & Bg & _ & Vg).
      apply gamma_check_ok; try assumption; cbn [length]; try (rewrite ?Lg, ?L8, ?L4, ?seq_length; lia). }
    cbn [bind]. rewrite E10. cbn [bind].
    rewrite (debug_check_ok syn syn_bytes _ INEW) by (cbn [ld_v]; lia). cbn [bind].
    apply IH; [cbn [ld_v]; lia|exact INEW|cbn [ld_v]; lia].
  - (* regular *)
    cbn [length]. destruct (Nat.ltb_spec (Datatypes.S (length w)) v); [lia|].
    destruct (slice_incl_ok syn (v + 1) (2 * v + 1)) as (sl1 & E3 & L3); [lia|lia|]. rewrite E3. cbn [bind].
    destruct (dot_ok sl1 (w ++ [1%N])) as (b0 & E4); [lia|]. rewrite E4. cbn [bind].
    destruct (gdiv_ok b0 eps ENZ) as (beta & E5). rewrite E5. cbn [bind].
    destruct (slice_incl_ok syn v (2 * v - 1)) as (sl2 & E6 & L6); [lia|lia|]. rewrite E6. cbn [bind].
    destruct (dot_ok sl2 y) as (gam & E7); [lia|]. rewrite E7. cbn [bind].
    destruct (gdiv_ok 1%N eps ENZ) as (einv & E8). rewrite E8. cbn [bind].
    pose proof (regular_step syn syn_bytes s eps b0 beta gam einv sl sl1 sl2 I E1 E2 ENZ E3 E4 E5 E6 E7 E8) as INEW.
    cbv zeta in INEW. fold v w y in INEW.
    rewrite (debug_check_ok syn syn_bytes _ INEW) by (cbn [ld_v]; lia). cbn [bind].
    apply IH; [cbn [ld_v]; lia|exact INEW|cbn [ld_v]; lia].
Qed.
End Total.

(* ---- no panic at all ---- *)
Lemma np_bind {E A B} (o : outcome E A) (f : A -> outcome E B) :
  no_panic o -> (forall a, o = Ok a -> no_panic (f a)) -> no_panic (bind o f).
Proof. intros No Nf. destruct o as [a|e|q]; cbn [bind]; [exact (Nf a eq_refl)|exact I|exact No]. Qed.

Theorem levinson_durbin_np syn : Forall byte syn -> no_panic (find_inv_error_locations_levinson_durbin syn).
Proof.
  intros Bs. unfold find_inv_error_locations_levinson_durbin. set (t := length syn / 2). set (v := take_while_zero syn + 1).
  assert (2 * t <= length syn) as Ht.
  { unfold t. pose proof (Nat.div_mod (length syn) 2 ltac:(lia)). lia. }
  destruct (Nat.ltb_spec t v) as [GT|LE]; [exact I|].
  destruct (take_while_zero_nth syn) as (d & Hd & Hnz); [unfold v in LE; lia|].
  assert (v - 1 = take_while_zero syn) as Hv1 by (unfold v; lia).
  assert (nth_ok syn (v - 1) = Ok d) as ND by (unfold nth_ok, get; rewrite Hv1, Hd; reflexivity).
  rewrite ND. cbn [bind].
  destruct (gdiv_ok 1%N d Hnz) as (y0 & E1). rewrite E1. cbn [bind].
  destruct (slice_incl_ok syn v (2 * v - 1)) as (sl & E2 & L2); [lia|lia|]. rewrite E2. cbn [bind].
  destruct (init_w_outer_ok syn v d) with (is_ := seq 0 v) (w := rev sl) as (w & E3 & L3);
    [lia|rewrite Hv1; exact Hd|exact Hnz|rewrite rev_length; lia|intros i Hi; apply in_seq in Hi; lia|].
  rewrite E3. cbn [bind].
  pose proof (initial_inv syn Bs v d y0 sl w eq_refl ltac:(lia) ND E1 E2 E3) as I0.
  destruct (ld_loop_total syn Bs t Ht (t + 2) _ ltac:(cbn [ld_v]; lia) I0 ltac:(cbn [ld_v]; lia)) as (s' & ES & _). rewrite ES. cbn [bind]. exact I.
Qed.

Lemma chien_search_np c : no_panic (chien_search c).
Proof.
  unfold chien_search. destruct c as [|c0 [|c1 [|c2 r]]]; try exact I.
  destruct (N.eqb_spec c1 0); cbn [negb andb]; [exact I|]. destruct (N.eqb_spec c0 0) as [|NZ]; cbn [negb]; [exact I|].
  destruct (gdiv_ok c1 c0 NZ) as (q & E). rewrite E. exact I.
Qed.

Lemma apply_corr_np stride n_data n_error : stride <> 0 -> forall locs errs data error,
  Forall (fun x => x <> 0%N) locs -> n_data = (length data + stride - 1) / stride -> n_error = (length error + stride - 1) / stride ->
  no_panic (apply_corr data error stride (n_data + n_error) n_data locs errs).
Proof.
  intros Hs. induction locs as [|loc lr IH]; intros errs data error NZ Hd He; [exact I|].
  destruct errs as [|err er]; [exact I|]. cbn [apply_corr]. apply Forall_cons_iff in NZ. destruct NZ as [Hl NZ'].
  unfold GF.glog. destruct (N.eqb_spec loc 0) as [|_]; [contradiction|].
  destruct (Nat.leb_spec (n_data + n_error) (N.to_nat (GF.logt loc))) as [|LT]; [exact I|].
  set (pos := n_data + n_error - N.to_nat (GF.logt loc) - 1).
  destruct (Nat.ltb_spec pos n_data) as [P|P].
  - assert (pos * stride < length data) as II by (apply stride_index; [exact Hs|rewrite <- Hd; exact P]).
    destruct (nth_ok_ok data (pos * stride) II) as (cur & E1). rewrite E1. cbn [bind].
    destruct (set_ok_ok data (pos * stride) (GF.add cur err) II) as (d1 & E2 & L2). rewrite E2. cbn [bind].
    apply IH; [exact NZ'|rewrite L2; exact Hd|exact He].
  - assert ((pos - n_data) * stride < length error) as II by (apply stride_index; [exact Hs|rewrite <- He; unfold pos; lia]).
    destruct (nth_ok_ok error ((pos - n_data) * stride) II) as (cur & E1). rewrite E1. cbn [bind].
    destruct (set_ok_ok error ((pos - n_data) * stride) (GF.add cur err) II) as (e1 & E2 & L2). rewrite E2. cbn [bind].
    apply IH; [exact NZ'|exact Hd|rewrite L2; exact He].
Qed.

Theorem decode_gen_np data error stride k : Forall byte data -> Forall byte error -> stride <> 0 -> 1 <= k ->
  k < (length data + stride - 1) / stride + (length error + stride - 1) / stride ->
  no_panic (decode_gen data error stride k).
Proof.
  intros Bd Be Hs Hk Hn. unfold decode_gen. destruct (Nat.eqb_spec stride 0); [contradiction|].
  destruct (Nat.leb_spec 1 k); [|lia]. destruct (Nat.ltb_spec k ((length data + stride - 1) / stride + (length error + stride - 1) / stride)); [|lia].
  cbn [negb].
  assert (Forall byte (every stride 0 data ++ every stride 0 error)) as Brec by (apply Forall_app; split; apply Forall_every; assumption).
  pose proof (syndromes_spec _ k Brec) as SS. cbv zeta in SS. destruct SS as [Bsyn _].
  unfold primitive_element_evaluation at 1. unfold primitive_element_evaluation in Bsyn. cbn [fst] in Bsyn.
  set (syn := pee_go k _ _) in *. assert (length syn = k) as Lsyn by apply pee_go_len.
  destruct (existsb _ syn); cbn [negb]; [|exact I].
  apply np_bind; [apply levinson_durbin_np; exact Bsyn|]. intros lam Hlam.
  pose proof (ld_locator_length _ _ Hlam) as U. pose proof (ld_locator_lower _ _ Hlam) as Lo. rewrite Lsyn in U.
  apply np_bind; [apply chien_search_np|]. intros z Hz.
  destruct (Nat.eqb_spec (length z) (length lam - 1)) as [Lz|]; cbn [negb]; [|exact I].
  destruct (nth_ok_ok z 0) as (first & E1); [lia|]. rewrite E1. cbn [bind].
  destruct (N.eqb_spec first 0) as [|NZ]; [exact I|].
  pose proof (chien_search_good _ _ _ Hz (nth_ok_spec _ _ _ E1) NZ) as G.
  assert (2 * (k / 2) <= k) as K2 by (pose proof (Nat.div_mod k 2 ltac:(lia)); lia).
  destruct (Nat.ltb_spec (2 * (k / 2)) (length lam - 1 + 1)); [lia|].
  match goal with |- no_panic (let* tj := map_ok ?F ?L in _) => destruct (map_ok_ok F L) as (tj & E2 & L2) end.
  { intros j Hj. apply in_seq in Hj. destruct (Nat.ltb_spec (length syn - j) (length lam)); [lia|]. eexists; reflexivity. }
  rewrite E2. cbn [bind]. destruct (existsb _ tj); [exact I|].
  destruct (find_error_values_bp_ok z syn G) as (s3 & E3 & L3); [lia|]. rewrite E3. cbn [bind].
  apply np_bind.
  - apply apply_corr_np; [exact Hs| |reflexivity|reflexivity].
    apply Forall_forall. intros x Hx. apply in_map_iff in Hx. destruct Hx as (y & <- & Hy). apply ginv_nz.
    exact (proj1 (Forall_forall _ _) (proj1 G) y Hy).
  - intros [d1 e1] _. destruct (primitive_element_evaluation _ k) as [s2 nz]. destruct nz; exact I.
Qed.

Lemma decode_blocks_np B k nd : B <> 0 -> 1 <= k -> B <= nd -> forall blocks data error,
  Forall byte data -> Forall byte error ->
  length data = nd -> length error = B * k -> (forall b, In b blocks -> b < B) ->
  no_panic (decode_blocks data error B k blocks).
Proof.
  intros HB Hk Hnd. induction blocks as [|b r IH]; intros data error Bd Be Ld Le H; cbn [decode_blocks]; [exact I|].
  assert (b < B) as Hb by (apply H; now left).
  destruct (Nat.ltb_spec (length data) b); [lia|]. destruct (Nat.ltb_spec (length error) b); [nia|]. cbn [orb].
  apply np_bind.
  - apply decode_gen_np; [apply Forall_skipn; exact Bd|apply Forall_skipn; exact Be|exact HB|exact Hk|]. rewrite !skipn_length, Ld, Le.
    assert (1 <= (nd - b + B - 1) / B) by (apply Nat.div_le_lower_bound; [exact HB|lia]).
    assert (k <= (B * k - b + B - 1) / B) by (apply Nat.div_le_lower_bound; [exact HB|nia]). lia.
  - intros [d' e'] Hg. destruct (decode_gen_spec _ _ _ _ _ _ Hg (Forall_skipn _ _ _ Bd) (Forall_skipn _ _ _ Be)) as (_ & G1 & G2 & G3 & G4 & _).
    rewrite skipn_length in G1, G2.
    apply IH; [apply Forall_app; split; [apply Forall_firstn; exact Bd|exact G3]|apply Forall_app; split; [apply Forall_firstn; exact Be|exact G4]| | |intros b' Hb'; apply H; now right].
    + rewrite app_length, firstn_length, G1. lia.
    + rewrite app_length, firstn_length, G2. nia.
Qed.

(* the error-correction entry point: for every word of the symbol's length it returns a value or an error *)
Theorem decode_np s cw : Forall byte cw ->
  length cw = N.to_nat (num_data_codewords s + num_ecc_blocks s * num_ecc_per_block s) -> no_panic (RSDec.decode cw s).
Proof.
  intros Bc L. unfold RSDec.decode.
  destruct (size_facts s) as [HB [Hk1 Hk2]].
  pose proof (SymbolListProofs.sweep _ data_blocks_sweep s) as DB. cbv beta in DB. apply N.leb_le in DB.
  set (B := N.to_nat (num_ecc_blocks s)) in *. set (k := N.to_nat (num_ecc_per_block s)) in *. set (nd := N.to_nat (num_data_codewords s)) in *.
  assert (length cw = nd + B * k) as L' by (rewrite L; unfold nd, B, k; lia).
  destruct (Nat.ltb_spec (length cw) nd); [lia|].
  apply np_bind; [|intros [d e] _; exact I].
  apply (decode_blocks_np B k nd); [lia|lia|unfold B, nd; lia|apply Forall_firstn; exact Bc|apply Forall_skipn; exact Bc| | |].
  - rewrite firstn_length. lia.
  - rewrite skipn_length. lia.
  - intros b Hb. apply in_seq in Hb. lia.
Qed.

(* what the locator search returns *)
Theorem levinson_durbin_cases syn : Forall byte syn ->
  let t := length syn / 2 in let v := take_while_zero syn + 1 in
  (t < v /\ find_inv_error_locations_levinson_durbin syn = Err TooManyErrors) \/
  (v <= t /\ exists s', find_inv_error_locations_levinson_durbin syn = Ok (ld_w s' ++ [1%N]) /\ exit_ok syn t s').
Proof.
  intros Bs t v. unfold find_inv_error_locations_levinson_durbin. fold t v.
  assert (2 * t <= length syn) as Ht.
  { unfold t. pose proof (Nat.div_mod (length syn) 2 ltac:(lia)). lia. }
  destruct (Nat.ltb_spec t v) as [GT|LE]; [left; split; [exact GT|reflexivity]|]. right. split; [exact LE|].
  destruct (take_while_zero_nth syn) as (d & Hd & Hnz); [unfold v in LE; lia|].
  assert (v - 1 = take_while_zero syn) as Hv1 by (unfold v; lia).
  assert (nth_ok syn (v - 1) = Ok d) as ND by (unfold nth_ok, get; rewrite Hv1, Hd; reflexivity).
  rewrite ND. cbn [bind].
  destruct (gdiv_ok 1%N d Hnz) as (y0 & E1). rewrite E1. cbn [bind].
  destruct (slice_incl_ok syn v (2 * v - 1)) as (sl & E2 & L2); [lia|lia|]. rewrite E2. cbn [bind].
  destruct (init_w_outer_ok syn v d) with (is_ := seq 0 v) (w := rev sl) as (w & E3 & L3);
    [lia|rewrite Hv1; exact Hd|exact Hnz|rewrite rev_length; lia|intros i Hi; apply in_seq in Hi; lia|].
  rewrite E3. cbn [bind].
  pose proof (initial_inv syn Bs v d y0 sl w eq_refl ltac:(lia) ND E1 E2 E3) as I0.
  destruct (ld_loop_total syn Bs t Ht (t + 2) _ ltac:(cbn [ld_v]; lia) I0 ltac:(cbn [ld_v]; lia)) as (s' & ES & EX). rewrite ES. cbn [bind].
  exists s'. split; [reflexivity|exact EX].
Qed.
