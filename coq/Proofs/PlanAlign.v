(* Proofs/PlanAlign.v -- what every plan of the optimiser guarantees to the ASCII and Base256 encoders (properties C11 / C18,
   planner side of the planner/encoder agreement for these two modes): an ASCII run of the plan ends where the greedy
   ASCII encodation (digit pairs wherever two digits meet) of the characters from its start has an item boundary, so the
   encoder never reads past a planned switch; a Base256 run that is left has at most 1555 bytes, the last one at most 1556.
   Holds for every input, symbol list, mode set and every sort that returns a sub-list of its input. *)
From Coq Require Import Arith NArith List Bool Lia.
From DM Require Import Generated.Symbols Generated.ModeTables Model.Outcome Model.SymbolList Model.Planner Proofs.PlanShape Proofs.PlanTotal.
Import ListNotations.
Local Open Scope N_scope.

(* greedy ASCII items from the head of d can stop with exactly p characters left *)
Inductive aligned : list N -> nat -> Prop :=
  | al_here d : aligned d (length d)
  | al_pair a b t p : is_digit a && is_digit b = true -> aligned t p -> aligned (a :: b :: t) p
  | al_single a t p : match t with b :: _ => is_digit a && is_digit b = false | [] => True end -> aligned t p -> aligned (a :: t) p.

Lemma aligned_le d p : aligned d p -> (p <= length d)%nat.
Proof. induction 1; cbn [length] in *; lia. Qed.

Lemma aligned_trans d p q : aligned d p -> aligned (skipn (length d - p) d) q -> aligned d q.
Proof.
  induction 1 as [d|a b t p DG H IH|a t p C H IH]; intros H2.
  - rewrite Nat.sub_diag in H2. exact H2.
  - pose proof (aligned_le _ _ H) as L. apply al_pair; [exact DG|]. apply IH. cbn [length] in H2.
    replace (S (S (length t)) - p)%nat with (S (S (length t - p))) in H2 by lia. exact H2.
  - pose proof (aligned_le _ _ H) as L. apply al_single; [exact C|]. apply IH. cbn [length] in H2.
    replace (S (length t) - p)%nat with (S (length t - p)) in H2 by lia. exact H2.
Qed.

(* 2k leading digits are consumed as k pairs *)
Lemma aligned_pairs : forall k d, (2 * k <= N.to_nat (count_while is_digit d))%nat -> aligned d (length d - 2 * k).
Proof.
  induction k as [|k IH]; intros d H; [rewrite Nat.sub_0_r; constructor|].
  destruct d as [|a [|b t]]; cbn [count_while] in H.
  - lia.
  - destruct (is_digit a); cbn in H; lia.
  - destruct (is_digit a) eqn:A; [|cbn in H; lia]. destruct (is_digit b) eqn:B; [|cbn in H; lia].
    apply al_pair; [rewrite A, B; reflexivity|]. cbn [length]. replace (S (S (length t)) - 2 * S k)%nat with (length t - 2 * k)%nat by lia.
    apply IH. lia.
Qed.

Lemma aligned_one a t : (N.to_nat (count_while is_digit (a :: t)) < 2)%nat -> aligned (a :: t) (length t).
Proof.
  intros H. apply al_single; [|constructor]. destruct t as [|b r]; [exact I|]. cbn [count_while] in H.
  destruct (is_digit a); [|reflexivity]. destruct (is_digit b); [lia|reflexivity].
Qed.

(* ---- the exact effect of one AsciiPlan step ---- *)
Definition da_eff (p : ascii_plan) : N :=
  if ap_digits_ahead p =? 0 then (count_while is_digit (c_data (ap_ctx p)) / 2) * 2 else ap_digits_ahead p.

Lemma ap_step_exact p ch D : c_data (ap_ctx p) = ch :: D -> ap_digits_ahead p <= count_while is_digit (ch :: D) ->
  exists p', ap_step p = Ok (Some (mksr false (0 <? da_eff p), p')) /\ c_data (ap_ctx p') = D /\
    ap_digits_ahead p' = (if 0 <? da_eff p then da_eff p - 1 else 0).
Proof.
  intros HD DA. unfold ap_step, da_eff.
  destruct (N.eqb_spec (ap_digits_ahead p) 0) as [E|NE].
  - cbn [ap_ctx ap_digits_ahead]. rewrite HD. set (da := count_while is_digit (ch :: D) / 2 * 2).
    rewrite (ctx_eat_cons _ ch D) by (rewrite ctx_write_data; exact HD).
    assert (da <= count_while is_digit (ch :: D)) as LE by (unfold da; pose proof (N.mul_div_le (count_while is_digit (ch :: D)) 2 ltac:(lia)); lia).
    destruct (N.ltb_spec 0 da) as [POS|Z].
    + destruct (count_pos_digit ch D ltac:(lia)) as [DG _]. rewrite DG. cbn [negb]. eexists. split; [reflexivity|]. split; reflexivity.
    + destruct (ch <=? 127); eexists; (split; [reflexivity|]); split; reflexivity.
  - rewrite (ctx_eat_cons _ ch D HD). destruct (N.ltb_spec 0 (ap_digits_ahead p)) as [POS|Z]; [|lia].
    destruct (count_pos_digit ch D ltac:(lia)) as [DG _]. rewrite DG. cbn [negb]. eexists. split; [reflexivity|]. split; reflexivity.
Qed.

(* the alignment of the running ASCII run is kept by a step *)
Lemma ascii_align_step RS p ch D p' : c_data (ap_ctx p) = ch :: D -> ap_digits_ahead p <= count_while is_digit (ch :: D) ->
  skipn (length RS - length (ch :: D)) RS = ch :: D -> (length (ch :: D) <= length RS)%nat ->
  aligned RS (length (ch :: D) - N.to_nat (ap_digits_ahead p)) ->
  ap_digits_ahead p' = (if 0 <? da_eff p then da_eff p - 1 else 0) ->
  aligned RS (length D - N.to_nat (ap_digits_ahead p')).
Proof.
  intros HD DA SUF LE AL E. rewrite E. unfold da_eff. rewrite HD.
  destruct (N.eqb_spec (ap_digits_ahead p) 0) as [Z|NZ].
  - rewrite Z in AL. cbn [N.to_nat] in AL. rewrite Nat.sub_0_r in AL.
    set (c := count_while is_digit (ch :: D)). pose proof (N.mul_div_le c 2 ltac:(lia)) as MD. pose proof (N.mul_succ_div_gt c 2 ltac:(lia)) as MG. set (h := c / 2) in *. set (k := N.to_nat h).
    assert (N.to_nat (h * 2) = (2 * k)%nat) as EK by (unfold k; lia).
    assert (2 * k <= N.to_nat c)%nat as LK by (unfold k; lia).
    destruct (N.ltb_spec 0 (h * 2)) as [POS|ZZ].
    + replace (length D - N.to_nat (h * 2 - 1))%nat with (length (ch :: D) - 2 * k)%nat by (cbn [length]; lia).
      apply (aligned_trans RS (length (ch :: D))); [exact AL|]. rewrite SUF. apply aligned_pairs. exact LK.
    + cbn [N.to_nat]. rewrite Nat.sub_0_r. apply (aligned_trans RS (length (ch :: D))); [exact AL|]. rewrite SUF. apply aligned_one. fold c. lia.
  - destruct (N.ltb_spec 0 (ap_digits_ahead p)) as [POS|ZZ]; [|lia]. cbn [length] in AL.
    replace (length D - N.to_nat (ap_digits_ahead p - 1))%nat with (S (length D) - N.to_nat (ap_digits_ahead p))%nat by lia. exact AL.
Qed.

(* ---- the exact effect of one X12Plan step, and the invariant of a running X12 run ---- *)
Definition xtrig (p : x12_plan) : bool :=
  (xp_values p =? 0) && (ctx_left (xp_ctx p) <=? 2) && (match xp_ascii_end p with None => true | _ => false end).

Lemma xp_look_cases sl p ch D : c_data (xp_ctx p) = ch :: D ->
  (xtrig p = false /\ xp_look sl p = Ok (Some p)) \/
  (xtrig p = true /\ (xp_look sl p = Ok None \/
     exists p1 f, xp_look sl p = Ok (Some p1) /\ xp_ctx p1 = xp_ctx p /\ xp_values p1 = xp_values p /\ xp_ascii_end p1 = Some f)).
Proof.
  intros HD. unfold xp_look, xtrig. pose proof (ctx_left_cons _ _ _ HD) as CL.
  destruct ((xp_values p =? 0) && (ctx_left (xp_ctx p) <=? 2) && (match xp_ascii_end p with None => true | _ => false end)) eqn:C; [|left; split; reflexivity].
  right. split; [reflexivity|].
  apply andb_true_iff in C. destruct C as [C AE]. apply andb_true_iff in C. destruct C as [_ C]. apply N.leb_le in C.
  assert (xp_ascii_end p = None) as AN by (destruct (xp_ascii_end p); [discriminate|reflexivity]).
  assert (ctx_left (xp_ctx p) = 1 \/ ctx_left (xp_ctx p) = 2 \/ ctx_left (xp_ctx p) = 3 \/ ctx_left (xp_ctx p) = 4) as FD by lia.
  cbv zeta. set (asz := ascii_encoding_size (c_data (xp_ctx p))).
  destruct (frac_new_ok asz _ FD) as [f F].
  destruct (asz =? 1).
  - destruct (ctx_symbol_size_left sl (xp_ctx p) asz) as [space|]; [|left; reflexivity].
    destruct (space <=? 1).
    + rewrite F. cbn [bind xp_ascii_end]. right. do 2 eexists. split; [reflexivity|]. cbn [xp_ctx xp_values xp_ascii_end]. repeat split.
    + cbn [bind]. rewrite AN, F. cbn [bind]. right. do 2 eexists. split; [reflexivity|]. cbn [xp_ctx xp_values xp_ascii_end]. repeat split.
  - cbn [bind]. rewrite AN, F. cbn [bind]. right. do 2 eexists. split; [reflexivity|]. cbn [xp_ctx xp_values xp_ascii_end]. repeat split.
Qed.

Lemma xp_step_exact sl p ch D sr p' : c_data (xp_ctx p) = ch :: D -> xp_step sl p = Ok (Some (sr, p')) ->
  c_data (xp_ctx p') = D /\
  ((xp_ascii_end p' = None /\ xp_ascii_end p = None /\ xtrig p = false /\ is_native_x12 ch = true /\ xp_values p' = (xp_values p + 1) mod 3) \/
   (exists f, xp_ascii_end p' = Some f /\ xp_values p' = xp_values p /\ (xp_ascii_end p = None -> xtrig p = true))).
Proof.
  intros HD H. rewrite xp_step_eq, (ctx_more_cons _ _ _ HD) in H. cbn [negb] in H.
  destruct (xp_look_cases sl p ch D HD) as [[T E]|[T [E|(p1 & f & E & C1 & V1 & A1)]]]; rewrite E in H; cbn [bind] in H; try discriminate.
  - rewrite (ctx_eat_cons _ _ _ HD) in H. destruct (xp_ascii_end p) as [f|] eqn:AE.
    + inversion H; subst. cbn [xp_ctx xp_ascii_end xp_values]. split; [reflexivity|]. right. exists f. split; [reflexivity|]. split; [reflexivity|discriminate].
    + destruct (is_native_x12 ch) eqn:NA; cbn [negb] in H; [|discriminate]. inversion H; subst. cbn [xp_ctx xp_ascii_end xp_values].
      split; [destruct (_ =? 0); reflexivity|]. left. repeat split; assumption.
  - assert (c_data (xp_ctx p1) = ch :: D) as HD1 by (rewrite C1; exact HD). rewrite (ctx_eat_cons _ _ _ HD1), A1 in H. inversion H; subst.
    cbn [xp_ctx xp_ascii_end xp_values]. split; [reflexivity|]. right. exists f. split; [reflexivity|]. split; [exact V1|intros _; exact T].
Qed.

Definition natives (l : list N) : Prop := forallb is_native_x12 l = true.
(* RS = the characters from the start of the run, c of them consumed *)
Definition XI (RS : list N) (c : nat) (p : x12_plan) : Prop :=
  match xp_ascii_end p with
  | None => xp_values p = N.of_nat c mod 3 /\ natives (firstn c RS)
  | Some _ => exists c0, (c0 <= c)%nat /\ (c0 mod 3 = 0)%nat /\ (length RS - c0 <= 2)%nat /\ natives (firstn c0 RS)
  end.

Lemma firstn_S_skipn {A} (l : list A) c x r : skipn c l = x :: r -> firstn (S c) l = firstn c l ++ [x].
Proof.
  revert l. induction c as [|c IH]; intros l H; destruct l as [|y l']; cbn [skipn] in H; try discriminate.
  - inversion H; subst. reflexivity.
  - cbn [firstn app]. f_equal. apply IH. exact H.
Qed.

Lemma x12_inv_step sl RS c p ch D sr p' : skipn c RS = ch :: D -> length RS = (c + S (length D))%nat ->
  c_data (xp_ctx p) = ch :: D -> XI RS c p -> xp_step sl p = Ok (Some (sr, p')) -> XI RS (S c) p'.
Proof.
  intros SK LR HD HX H. destruct (xp_step_exact sl p ch D sr p' HD H) as (_ & [(A1 & A0 & T & NA & V)|(f & A1 & V & T)]); unfold XI in *.
  - rewrite A1. rewrite A0 in HX. destruct HX as [HV HN]. split.
    + rewrite V, HV. replace (N.of_nat (S c)) with (N.of_nat c + 1) by lia. rewrite N.add_mod_idemp_l by lia. reflexivity.
    + unfold natives in *. rewrite (firstn_S_skipn RS c ch D SK), forallb_app, HN. cbn [forallb]. rewrite NA. reflexivity.
  - rewrite A1. destruct (xp_ascii_end p) as [f0|] eqn:A0.
    + destruct HX as (c0 & X1 & X2 & X3 & X4). exists c0. repeat split; try assumption. lia.
    + destruct HX as [HV HN]. specialize (T eq_refl). unfold xtrig in T. apply andb_true_iff in T. destruct T as [T _]. apply andb_true_iff in T. destruct T as [T1 T2].
      apply N.eqb_eq in T1. apply N.leb_le in T2. rewrite (ctx_left_cons _ _ _ HD) in T2.
      exists c. split; [lia|]. split; [|split; [lia|exact HN]].
      rewrite T1 in HV. symmetry in HV. apply N.mod_divide in HV; [|lia]. destruct HV as [q HQ]. assert (c = (N.to_nat q * 3)%nat) as -> by lia. apply Nat.mod_mul. lia.
Qed.

Section Align.
Variable sl : list SymbolSize.
Variable data : list N.
Let n := length data.
Definition suffix (p : N) : list N := skipn (n - N.to_nat p) data.

Lemma suffix_tl ch D : ch :: D = suffix (N.of_nat (length (ch :: D))) -> (length (ch :: D) <= n)%nat -> D = suffix (N.of_nat (length D)).
Proof.
  unfold suffix. rewrite !Nat2N.id. cbn [length]. intros H L.
  replace (n - length D)%nat with (S (n - S (length D))) by lia.
  assert (forall k (l : list N) x r, skipn k l = x :: r -> skipn (S k) l = r) as SK.
  { induction k as [|k IH]; intros l x r E; destruct l as [|y l']; cbn [skipn] in *; try discriminate; [inversion E; reflexivity|].
    destruct l' as [|z l'']; [destruct k; discriminate|]. exact (IH _ _ _ E). }
  symmetry. apply (SK _ _ ch). symmetry. exact H.
Qed.

(* an X12 run from pi to pj: native characters in whole triples; the last run may leave up to two characters to ASCII *)
Definition x12_run (pi pj : N) : Prop :=
  let L := (N.to_nat pi - N.to_nat pj)%nat in
  (0 < pj -> (L mod 3 = 0)%nat /\ natives (firstn L (suffix pi))) /\ (pj = 0 -> natives (firstn (3 * (L / 3)) (suffix pi))).
Definition run_ok (pi : N) (mi : EncodationType) (pj : N) : Prop :=
  pj < pi /\ (N.to_nat pi <= n)%nat /\
  (mi = Ascii -> aligned (suffix pi) (N.to_nat pj)) /\ (mi = Base256 -> pi - pj <= 1556 /\ (0 < pj -> pi - pj <= 1555)) /\
  (mi = X12 -> x12_run pi pj).
Fixpoint runs_ok (sw : list (N * EncodationType)) : Prop :=
  match sw with
  | (pi, mi) :: (((pj, _) :: _) as r) => run_ok pi mi pj /\ runs_ok r
  | _ => True
  end.

Lemma runs_ok_snoc : forall sw pk mk q m, runs_ok sw -> last sw (0, Ascii) = (pk, mk) -> sw <> [] -> run_ok pk mk q -> runs_ok (sw ++ [(q, m)]).
Proof.
  induction sw as [|[p1 m1] r IH]; intros pk mk q m H L NE R; [contradiction|].
  destruct r as [|[p2 m2] r2].
  - cbn [last] in L. inversion L; subst. cbn [app runs_ok]. split; [exact R|exact I].
  - cbn [runs_ok] in H. destruct H as [H1 H2]. change (((p1, m1) :: (p2, m2) :: r2) ++ [(q, m)]) with ((p1, m1) :: ((p2, m2) :: r2) ++ [(q, m)]).
    cbn [app runs_ok]. split; [exact H1|]. apply (IH pk mk q m H2); [exact L|discriminate|exact R].
Qed.

(* consecutive entries name different modes, except for the final entry (position 0) *)
Fixpoint alt_ok (sw : list (N * EncodationType)) : Prop :=
  match sw with
  | (_, mi) :: (((pj, mj) :: _) as r) => (mi = mj -> pj = 0) /\ alt_ok r
  | _ => True
  end.
Lemma alt_ok_snoc : forall sw pk mk q m, alt_ok sw -> last sw (0, Ascii) = (pk, mk) -> sw <> [] -> (mk = m -> q = 0) -> alt_ok (sw ++ [(q, m)]).
Proof.
  induction sw as [|[p1 m1] r IH]; intros pk mk q m H L NE R; [contradiction|].
  destruct r as [|[p2 m2] r2].
  - cbn [last] in L. inversion L; subst. cbn [app alt_ok]. split; [exact R|exact I].
  - cbn [alt_ok] in H. destruct H as [H1 H2]. change (((p1, m1) :: (p2, m2) :: r2) ++ [(q, m)]) with ((p1, m1) :: ((p2, m2) :: r2) ++ [(q, m)]).
    cbn [app alt_ok]. split; [exact H1|]. apply (IH pk mk q m H2); [exact L|discriminate|exact R].
Qed.
Lemma alt_ok_tl x r : alt_ok (x :: r) -> alt_ok r.
Proof. destruct x as [p m]. destruct r as [|[q m2] r2]; [intros _; exact I|]. cbn [alt_ok]. intros [_ H]. exact H. Qed.

Definition AI (D : list N) (g : generic_plan) : Prop :=
  TI D g /\ D = suffix (N.of_nat (length D)) /\ (length D <= n)%nat /\ (runs_ok (gp_switches g) /\ alt_ok (gp_switches g)) /\
  fst (hd (0, Ascii) (gp_switches g)) = N.of_nat n /\
  exists pk, last (gp_switches g) (0, Ascii) = (pk, gp_current g) /\ N.of_nat (length D) <= pk /\ (N.to_nat pk <= n)%nat /\
    (N.of_nat (length D) < pk \/ (length (gp_switches g) = 1%nat /\ length D = n)) /\
    match gp_plan g with
    | PAscii p => aligned (suffix pk) (length D - N.to_nat (ap_digits_ahead p))
    | PBase256 p => bp_written p = pk - N.of_nat (length D) /\ bp_written p <= 1556 /\ (bp_written p = 1556 -> D = [])
    | PX12 p => XI (suffix pk) (N.to_nat pk - length D) p
    | _ => True
    end.

Lemma skipn_skipn' {A} : forall x y (l : list A), skipn x (skipn y l) = skipn (x + y) l.
Proof.
  intros x y. revert x. induction y as [|y IH]; intros x l; [rewrite Nat.add_0_r; reflexivity|].
  destruct l as [|a l]; [rewrite !skipn_nil; reflexivity|]. rewrite Nat.add_succ_r. cbn [skipn]. apply IH.
Qed.

(* D is the suffix of the run start that has length D *)
Lemma suffix_of_suffix pk D : D = suffix (N.of_nat (length D)) -> N.of_nat (length D) <= pk -> (N.to_nat pk <= n)%nat ->
  skipn (length (suffix pk) - length D) (suffix pk) = D /\ (length D <= length (suffix pk))%nat.
Proof.
  intros HD L1 L2. unfold suffix in *. rewrite Nat2N.id in HD. rewrite skipn_length. rewrite skipn_skipn'. fold n.
  replace (n - (n - N.to_nat pk) - length D + (n - N.to_nat pk))%nat with (n - length D)%nat by lia. split; [symmetry; exact HD|lia].
Qed.

Lemma gp_step_align g ch D sr g' : gp_step sl g = Ok (Some (sr, g')) -> AI (ch :: D) g -> AI D g'.
Proof.
  intros H (HT & HS & HL & HR & HH & pk & LA & L1 & L2 & SP & HM).
  destruct (gp_step_cons sl g ch D HT) as [[E _]|(ub & g2 & E & HT2 & _)]; [rewrite E in H; discriminate|].
  rewrite E in H. inversion H; subst sr g2. clear H.
  assert (gp_switches g' = gp_switches g /\ gp_current g' = gp_current g /\
          match gp_plan g, gp_plan g' with
          | PAscii p, PAscii p' => ap_digits_ahead p' = (if 0 <? da_eff p then da_eff p - 1 else 0)
          | PBase256 p, PBase256 p' => bp_written p' = bp_written p + 1 /\ (bp_written p' <= 1556) /\ (bp_written p' = 1556 -> D = [])
          | PX12 p, PX12 p' => exists sr0, xp_step sl p = Ok (Some (sr0, p'))
          | PC40 _, PC40 _ | PText _, PText _ | PEdifact _, PEdifact _ => True
          | _, _ => False
          end) as (SW & CU & REL).
  { destruct HT as (_ & HDa & HMo). unfold gp_step, gp_current in *. destruct (gp_plan g) as [p|p|p|p|p|p] eqn:EP; cbn [impl_ctx] in HDa.
    - destruct (ap_step_exact p ch D HDa HMo) as (p' & ES & _ & DA'). rewrite ES in E. cbn [bind] in E. inversion E. cbn [gp_switches gp_plan]. repeat split. exact DA'.
    - destruct (cp_step sl p) as [[[s1 p1]|]| |]; cbn [bind] in E; inversion E. cbn [gp_switches gp_plan]. repeat split.
    - destruct (cp_step sl p) as [[[s1 p1]|]| |]; cbn [bind] in E; inversion E. cbn [gp_switches gp_plan]. repeat split.
    - destruct (xp_step sl p) as [[[s1 p1]|]| |] eqn:XS; cbn [bind] in E; inversion E. cbn [gp_switches gp_plan]. repeat split. eexists. reflexivity.
    - destruct (ep_step sl p) as [[[s1 p1]|]| |]; cbn [bind] in E; inversion E. cbn [gp_switches gp_plan]. repeat split.
    - unfold bp_step in E. rewrite (ctx_eat_cons _ ch D HDa) in E. cbn [bind] in E.
      destruct ((1556 <? bp_written p + 1) || ((bp_written p + 1 =? 1556) && ctx_more (ctx_write (mkctx D (c_consumed (bp_ctx p) + 1) (c_written (bp_ctx p))) 1))) eqn:C; cbn [bind] in E; inversion E.
      cbn [gp_switches gp_plan bp_written]. apply orb_false_iff in C. destruct C as [C1 C2]. apply N.ltb_ge in C1. repeat split; [exact C1|].
      intros E6. rewrite E6, N.eqb_refl in C2. cbn [andb] in C2. unfold ctx_more in C2. cbn [ctx_write c_data] in C2. destruct D; [reflexivity|discriminate]. }
  pose proof (suffix_tl ch D HS HL) as HS'. cbn [length] in HL, L1.
  split; [exact HT2|]. split; [exact HS'|]. split; [lia|]. split; [rewrite SW; exact HR|]. split; [rewrite SW; exact HH|].
  exists pk. rewrite SW, CU. split; [exact LA|]. split; [lia|]. split; [exact L2|]. split; [left; lia|].
  destruct HT as (_ & HDa & HMo).
  destruct (gp_plan g) as [p|p|p|p|p|p] eqn:EP; destruct (gp_plan g') as [p'|p'|p'|p'|p'|p'] eqn:EP'; try contradiction; try exact I.
  - cbn [impl_ctx] in HDa. destruct (suffix_of_suffix pk (ch :: D) HS ltac:(cbn [length]; lia) L2) as [SU LE].
    exact (ascii_align_step (suffix pk) p ch D p' HDa HMo SU LE HM REL).
  - cbn [impl_ctx] in HDa. destruct REL as (sr0 & XS). destruct (suffix_of_suffix pk (ch :: D) HS ltac:(cbn [length]; lia) L2) as [SU LE].
    assert (length (suffix pk) = N.to_nat pk) as LS by (unfold suffix; rewrite skipn_length; fold n; lia). rewrite LS in SU, LE. cbn [length] in SU, LE.
    replace (N.to_nat pk - length D)%nat with (S (N.to_nat pk - S (length D))) by lia.
    apply (x12_inv_step sl (suffix pk) (N.to_nat pk - S (length D)) p ch D sr0 p' SU ltac:(rewrite LS; lia) HDa HM XS).
  - destruct HM as (W1 & W2 & W3). destruct REL as (R1 & R2 & R3). split; [rewrite R1, W1; cbn [length]; lia|]. split; [exact R2|exact R3].
Qed.

Lemma suffix_0 : suffix 0 = [].
Proof. unfold suffix. cbn [N.to_nat]. rewrite Nat.sub_0_r. apply skipn_all. Qed.

Lemma gp_step_align_nil g sr g' : gp_step sl g = Ok (Some (sr, g')) -> AI [] g -> AI [] g'.
Proof.
  intros H (HT & HS & HL & HR & HH & pk & LA & L1 & L2 & SP & HM).
  destruct (gp_step_nil sl g HT) as (ub & g2 & E & HT2). rewrite E in H. inversion H; subst sr g2. clear H.
  assert (gp_switches g' = gp_switches g /\ gp_current g' = gp_current g /\
          match gp_plan g, gp_plan g' with
          | PAscii p, PAscii p' => ap_digits_ahead p' = 0
          | PBase256 p, PBase256 p' => p' = p
          | PX12 p, PX12 p' => p' = p
          | PC40 _, PC40 _ | PText _, PText _ | PEdifact _, PEdifact _ => True
          | _, _ => False
          end) as (SW & CU & REL).
  { destruct HT as (_ & HDa & HMo). unfold gp_step, gp_current in *. destruct (gp_plan g) as [p|p|p|p|p|p] eqn:EP; cbn [impl_ctx] in HDa.
    - destruct (ap_step_nil p HDa HMo) as (ub' & p' & ES & _ & DA'). rewrite ES in E. cbn [bind] in E. inversion E. cbn [gp_switches gp_plan]. repeat split. exact DA'.
    - destruct (cp_step sl p) as [[[s1 p1]|]| |]; cbn [bind] in E; inversion E. cbn [gp_switches gp_plan]. repeat split.
    - destruct (cp_step sl p) as [[[s1 p1]|]| |]; cbn [bind] in E; inversion E. cbn [gp_switches gp_plan]. repeat split.
    - destruct (xp_step_nil sl p HDa) as (ubx & XS). rewrite XS in E. cbn [bind] in E. inversion E. cbn [gp_switches gp_plan]. repeat split.
    - destruct (ep_step sl p) as [[[s1 p1]|]| |]; cbn [bind] in E; inversion E. cbn [gp_switches gp_plan]. repeat split.
    - rewrite (bp_step_nil p HDa) in E. cbn [bind] in E. inversion E. cbn [gp_switches gp_plan]. repeat split. }
  split; [exact HT2|]. split; [exact HS|]. split; [exact HL|]. split; [rewrite SW; exact HR|]. split; [rewrite SW; exact HH|].
  exists pk. rewrite SW, CU. split; [exact LA|]. split; [exact L1|]. split; [exact L2|]. split; [exact SP|].
  destruct (gp_plan g) as [p|p|p|p|p|p] eqn:EP; destruct (gp_plan g') as [p'|p'|p'|p'|p'|p'] eqn:EP'; try contradiction; try exact I.
  - cbn [length Nat.sub] in *. exact HM.
  - subst p'. exact HM.
  - subst p'. exact HM.
Qed.

(* the first step of a fresh plan: kind, invariant of PlanTotal, and the alignment / run length of the new run *)
Lemma fresh_align mode ctx D pl : c_data ctx = D ->
    (match mode with
     | Ascii => let* o := ap_step (ap_new ctx) in Ok (option_map (fun x => PAscii (snd x)) o)
     | Base256 => Ok (option_map (fun x => PBase256 (snd x)) (bp_step (bp_new ctx)))
     | Edifact => let* o := ep_step sl (ep_new ctx) in Ok (option_map (fun x => PEdifact (snd x)) o)
     | X12 => let* o := xp_step sl (xp_new ctx) in Ok (option_map (fun x => PX12 (snd x)) o)
     | Text => let* o := cp_step sl (cp_new true ctx) in Ok (option_map (fun x => PText (snd x)) o)
     | C40 => let* o := cp_step sl (cp_new false ctx) in Ok (option_map (fun x => PC40 (snd x)) o)
     end) = Ok (Some pl) ->
  IM (tl D) pl /\
  match mode, pl with
  | Ascii, PAscii p => aligned D (length (tl D) - N.to_nat (ap_digits_ahead p))
  | Base256, PBase256 p => bp_written p = N.of_nat (length D) - N.of_nat (length (tl D)) /\ bp_written p <= 1556 /\ (bp_written p = 1556 -> tl D = [])
  | X12, PX12 p => XI D (length D - length (tl D)) p
  | C40, PC40 _ | Text, PText _ | Edifact, PEdifact _ => True
  | _, _ => False
  end.
Proof.
  intros HD H. destruct (fresh_step sl mode ctx D HD) as (st & E & FS). rewrite E in H. inversion H; subst st. split; [exact (FS pl eq_refl)|].
  destruct mode; cbn [bind] in E.
  - assert (c_data (ap_ctx (ap_new ctx)) = D) as H1 by exact HD. destruct D as [|ch D'].
    + destruct (ap_step_nil _ H1 ltac:(cbn; lia)) as (ub & p' & ES & _ & DA). rewrite ES in E. cbn [bind option_map snd] in E. inversion E. cbn [tl length]. rewrite DA. constructor.
    + destruct (ap_step_exact _ ch D' H1 ltac:(cbn [ap_new ap_digits_ahead]; lia)) as (p' & ES & _ & DA). rewrite ES in E. cbn [bind option_map snd] in E. inversion E. cbn [tl].
      apply (ascii_align_step (ch :: D') (ap_new ctx) ch D' p' H1 ltac:(cbn [ap_new ap_digits_ahead]; lia)); [rewrite Nat.sub_diag; reflexivity|lia| |exact DA].
      cbn [ap_new ap_digits_ahead N.to_nat]. rewrite Nat.sub_0_r. constructor.
  - destruct (cp_step sl _) as [[[s1 p1]|]| |]; cbn [bind option_map snd] in E; inversion E. exact I.
  - destruct (cp_step sl _) as [[[s1 p1]|]| |]; cbn [bind option_map snd] in E; inversion E. exact I.
  - assert (c_data (xp_ctx (xp_new ctx)) = D) as H1 by exact HD.
    assert (XI D 0 (xp_new ctx)) as X0 by (unfold XI; cbn [xp_new xp_ascii_end xp_values firstn]; split; reflexivity).
    destruct D as [|ch D'].
    + destruct (xp_step_nil sl _ H1) as (ubx & XS). rewrite XS in E. cbn [bind option_map snd] in E. inversion E. cbn [tl length Nat.sub]. exact X0.
    + destruct (xp_step sl (xp_new ctx)) as [[[s1 p1]|]| |] eqn:XS; cbn [bind option_map snd] in E; inversion E. cbn [tl length].
      replace (S (length D') - length D')%nat with 1%nat by lia.
      exact (x12_inv_step sl (ch :: D') 0 (xp_new ctx) ch D' s1 p1 eq_refl ltac:(cbn [length]; lia) H1 X0 XS).
  - destruct (ep_step sl _) as [[[s1 p1]|]| |]; cbn [bind option_map snd] in E; inversion E. exact I.
  - assert (c_data (bp_ctx (bp_new ctx)) = D) as H1 by exact HD. destruct D as [|ch D'].
    + rewrite (bp_step_nil _ H1) in E. cbn [option_map snd] in E. inversion E. cbn [bp_new bp_written tl length]. split; [reflexivity|]. split; [lia|discriminate].
    + unfold bp_step in E. rewrite (ctx_eat_cons _ ch D' H1) in E. cbn [bp_new bp_written] in E. change (1556 <? 0 + 1) with false in E. change (0 + 1 =? 1556) with false in E.
      cbn [orb andb option_map snd] in E. inversion E. cbn [bp_written tl length]. split; [lia|]. split; [lia|discriminate].
Qed.

Lemma kind_current g pl : gp_plan g = pl -> gp_current g = match pl with PAscii _ => Ascii | PC40 _ => C40 | PText _ => Text | PX12 _ => X12 | PEdifact _ => Edifact | PBase256 _ => Base256 end.
Proof. intros <-. reflexivity. Qed.

Lemma add_switch_align g ctx ac rest st mode extra l s l' s' D pk :
  add_switch sl g ctx ac rest st mode extra (l, s) = Ok (l', s') ->
  c_data ctx = D -> rest = N.of_nat (length D) -> D = suffix (N.of_nat (length D)) -> (length D <= n)%nat ->
  (st = true -> rest = N.of_nat n) ->
  (st = false -> D <> [] /\ runs_ok (gp_switches g) /\ gp_switches g <> [] /\ last (gp_switches g) (0, Ascii) = (pk, gp_current g) /\
                 run_ok pk (gp_current g) rest /\ fst (hd (0, Ascii) (gp_switches g)) = N.of_nat n) ->
  (st = false -> alt_ok (gp_switches g) /\ mode <> gp_current g) ->
  Forall (AI (tl D)) l -> Forall (AI (tl D)) l'.
Proof.
  unfold add_switch. intros H HD HR HS HL ST NST NST2 HF.
  destruct (if st then _ else _) as [sw| |] eqn:ES; cbn [bind] in H; try discriminate.
  match type of H with (let* stepped := ?X in _) = _ => destruct X as [[pl|]| |] eqn:EX end; cbn [bind] in H; try discriminate;
    inversion H; subst; [|exact HF].
  apply Forall_app. split; [exact HF|]. constructor; [|constructor].
  destruct (fresh_align mode (ctx_write ctx extra) (c_data ctx) pl ltac:(apply ctx_write_data) EX) as [HIM HK].
  set (D := c_data ctx) in *.
  assert (sw <> [] /\ (runs_ok sw /\ alt_ok sw) /\ last sw (0, Ascii) = (N.of_nat (length D), mode) /\ fst (hd (0, Ascii) sw) = N.of_nat n) as (NS & RO & LS & HDn).
  { destruct st.
    - destruct (negb _); [discriminate|]. inversion ES; subst sw. cbn [runs_ok alt_ok last hd fst]. repeat split; [discriminate|]. exact (ST eq_refl).
    - inversion ES; subst sw. destruct (NST eq_refl) as (_ & R1 & R2 & R3 & R4 & R5). destruct (NST2 eq_refl) as [A1 A2]. split; [destruct (gp_switches g); discriminate|]. split; [|split].
      + split; [exact (runs_ok_snoc _ pk (gp_current g) _ mode R1 R3 R2 R4)|]. apply (alt_ok_snoc _ pk (gp_current g)); [exact A1|exact R3|exact R2|]. intros EQ. exfalso. apply A2. symmetry. exact EQ.
      + apply last_last.
      + destruct (gp_switches g) as [|x xs]; [contradiction|]. exact R5. }
  assert (tl D = suffix (N.of_nat (length (tl D))) /\ (length (tl D) <= length D)%nat) as [HS' HL'].
  { destruct D as [|ch D'] eqn:ED; [split; [exact HS|cbn [tl length]; lia]|]. cbn [tl]. split; [exact (suffix_tl ch D' HS HL)|cbn [length]; lia]. }
  assert (suffix (N.of_nat (length D)) = D) as SD by (symmetry; exact HS).
  split; [split; [exact NS|exact HIM]|]. split; [exact HS'|]. split; [lia|]. cbn [gp_switches gp_plan]. split; [exact RO|]. split; [exact HDn|].
  exists (N.of_nat (length D)). split.
  - rewrite LS. f_equal. unfold gp_current. cbn [gp_plan]. destruct mode, pl; try contradiction; reflexivity.
  - split; [lia|]. split; [lia|]. split.
    { destruct D as [|ch D'] eqn:ED; [|left; cbn [tl length]; lia]. right. cbn [tl length] in *. destruct st; [|destruct (NST eq_refl) as (X & _); contradiction].
      inversion ES as [ES']. destruct (negb _) in ES'; [discriminate|]. inversion ES'; subst sw. split; [reflexivity|]. specialize (ST eq_refl). lia. }
    destruct mode, pl; try contradiction; try exact I.
    + rewrite SD. exact HK.
    + rewrite SD, Nat2N.id. exact HK.
    + destruct HK as (K1 & K2 & K3). split; [exact K1|]. split; [exact K2|exact K3].
Qed.

Lemma add_switch_all_align g ctx ac rest st D pk : c_data ctx = D -> rest = N.of_nat (length D) -> D = suffix (N.of_nat (length D)) -> (length D <= n)%nat ->
  (st = true -> rest = N.of_nat n) ->
  (st = false -> D <> [] /\ runs_ok (gp_switches g) /\ gp_switches g <> [] /\ last (gp_switches g) (0, Ascii) = (pk, gp_current g) /\
                 run_ok pk (gp_current g) rest /\ fst (hd (0, Ascii) (gp_switches g)) = N.of_nat n) ->
  (st = false -> alt_ok (gp_switches g)) ->
  forall todo l s l' s', Forall (fun me => fst me <> gp_current g) todo -> add_switch_all sl g ctx ac rest st todo (l, s) = Ok (l', s') -> Forall (AI (tl D)) l -> Forall (AI (tl D)) l'.
Proof.
  intros HD HR HS HL ST NST NST2. induction todo as [|[mode extra] t IH]; intros l s l' s' HT H HF; cbn [add_switch_all] in H; [inversion H; subst; exact HF|].
  apply Forall_cons_iff in HT. destruct HT as [HT1 HT2]. cbn [fst] in HT1.
  destruct (add_switch sl g ctx ac rest st mode extra (l, s)) as [[l1 s1]| |] eqn:A; cbn [bind] in H; try discriminate.
  apply (IH _ _ _ _ HT2 H). exact (add_switch_align g ctx ac rest st mode extra l s l1 s1 D pk A HD HR HS HL ST NST ltac:(intros EF; split; [exact (NST2 EF)|exact HT1]) HF).
Qed.

Lemma add_switches_align g rest st modes s l s' D : gp_add_switches sl g rest st modes s = Ok (l, s') ->
  AI D g -> UL g -> rest = N.of_nat (length D) -> (st = true -> rest = N.of_nat n) -> (st = false -> D <> [] /\ (length D < n)%nat) -> Forall (AI (tl D)) l.
Proof.
  unfold gp_add_switches. intros H (HT & HS & HL & (HR & HAlt) & HH & pk & LA & L1 & L2 & SP & HM) HU HRe ST NST.
  destruct (gp_mode_switch_cost g) as [c|] eqn:C; [|inversion H; constructor].
  destruct (write_unlatch_total g D c HT HU C) as (ctx & EW & HD). rewrite EW in H. cbn [bind] in H.
  apply (add_switch_all_align g ctx c rest st D pk HD HRe HS HL ST) with (todo := filter (fun me => negb (et_eqb (gp_current g) (fst me)) && enabled modes (fst me)) switch_order)
    (l := []) (s := s) (s' := s'); [|intros _; exact HAlt| |exact H|constructor].
  2:{ apply Forall_forall. intros me Hin. apply filter_In in Hin. destruct Hin as [_ Hc]. apply andb_true_iff in Hc. destruct Hc as [Hc _].
      intros EQ. rewrite EQ in Hc. unfold et_eqb in Hc. rewrite N.eqb_refl in Hc. discriminate. }
  intros EF. destruct (NST EF) as [ND LT]. split; [exact ND|]. split; [exact HR|]. split; [exact (proj1 HT)|]. split; [exact LA|]. split; [|exact HH].
  split; [destruct SP as [SP|[_ SP]]; lia|]. split; [exact L2|]. split; [|split].
  - intros EA. unfold gp_current in EA. unfold UL in HU. destruct (gp_plan g) as [p|p|p|p|p|p]; try discriminate.
    rewrite HU in HM. cbn [N.to_nat] in HM. rewrite Nat.sub_0_r in HM. rewrite HRe, Nat2N.id. exact HM.
  - intros EB. unfold gp_current in EB. unfold gp_mode_switch_cost in C. destruct (gp_plan g) as [p|p|p|p|p|p]; try discriminate.
    destruct HM as (W1 & W2 & W3). unfold bp_mode_switch_cost in C. destruct (N.ltb_spec 1555 (bp_written p)); [discriminate|]. rewrite HRe, <- W1. split; [lia|intros _; lia].
  - intros EX. unfold gp_current in EX. unfold UL in HU. unfold gp_mode_switch_cost in C. destruct (gp_plan g) as [p|p|p|p|p|p]; try discriminate.
    unfold xp_mode_switch_cost in C. destruct (N.eqb_spec (xp_values p) 0) as [V0|]; [|discriminate]. unfold XI in HM. rewrite HU in HM. destruct HM as [HV HN].
    unfold x12_run. rewrite HRe, Nat2N.id. cbv zeta. set (cc := (N.to_nat pk - length D)%nat) in *.
    assert (cc mod 3 = 0)%nat as C3.
    { rewrite V0 in HV. symmetry in HV. apply N.mod_divide in HV; [|lia]. destruct HV as [q HQ]. assert (cc = (N.to_nat q * 3)%nat) as -> by lia. apply Nat.mod_mul. lia. }
    split; [intros _; split; [exact C3|exact HN]|]. intros _. replace (3 * (cc / 3))%nat with cc; [exact HN|].
    pose proof (Nat.div_mod cc 3 ltac:(lia)). lia.
Qed.

Lemma step_all_align rest uas modes D : rest = N.of_nat (length D) -> (uas = true -> rest = N.of_nat n) -> (uas = false -> (length D < n)%nat) ->
  forall plans np ae s np' ae' s', step_all sl plans rest uas modes np ae s = Ok (np', ae', s') ->
  Forall (AI D) plans -> Forall (AI (tl D)) np -> Forall (AI (tl D)) np'.
Proof.
  intros HRe ST NST. induction plans as [|plan r IH]; intros np ae s np' ae' s' H HP HN; cbn [step_all] in H; [inversion H; subst; exact HN|].
  apply Forall_cons_iff in HP. destruct HP as [G HP']. pose proof G as (HT & _).
  destruct D as [|ch D'].
  - destruct (gp_step_nil sl plan HT) as (ub & g' & E & _). rewrite E in H. cbn [bind sr_end sr_unbeatable negb andb] in H. rewrite andb_false_r in H. cbn [bind] in H.
    destruct (negb (Bool.eqb _ _)); [discriminate|]. apply (IH _ _ _ _ _ _ H HP'). apply Forall_app. split; [exact HN|]. constructor; [|constructor].
    exact (gp_step_align_nil plan _ g' E G).
  - destruct (gp_step_cons sl plan ch D' HT) as [[E HUL]|(ub & g' & E & _ & HUL)]; rewrite E in H; cbn [bind] in H.
    + destruct (gp_add_switches sl plan rest uas modes (s + 1)) as [[added s1]| |] eqn:A; cbn [bind] in H; try discriminate.
      apply (IH _ _ _ _ _ _ H HP'). apply Forall_app. split; [exact HN|]. exact (add_switches_align plan rest uas modes _ added s1 (ch :: D') A G HUL HRe ST ltac:(intros EF; split; [discriminate|exact (NST EF)])).
    + cbn [sr_end sr_unbeatable] in H. rewrite andb_true_r in H. pose proof (gp_step_align plan ch D' _ g' E G) as G'.
      destruct ub; cbn [negb bind] in H.
      * destruct (negb (Bool.eqb _ _)); [discriminate|]. apply (IH _ _ _ _ _ _ H HP'). apply Forall_app. split; [exact HN|constructor; [exact G'|constructor]].
      * destruct (gp_add_switches sl plan rest uas modes (s + 1)) as [[added s1]| |] eqn:A; cbn [bind] in H; try discriminate.
        destruct (negb (Bool.eqb _ _)); [discriminate|]. apply (IH _ _ _ _ _ _ H HP').
        apply Forall_app. split; [apply Forall_app; split; [exact HN|constructor; [exact G'|constructor]]|].
        exact (add_switches_align plan rest uas modes _ added s1 (ch :: D') A G (HUL eq_refl) HRe ST ltac:(intros EF; split; [discriminate|exact (NST EF)])).
Qed.

Definition plan_ok (res : list (N * EncodationType)) : Prop :=
  res <> [] /\ (runs_ok res /\ alt_ok res) /\ match res with (p0, _) :: _ => p0 <= N.of_nat n /\ aligned data (N.to_nat p0) | [] => True end.

Lemma suffix_n : suffix (N.of_nat n) = data.
Proof. unfold suffix. rewrite Nat2N.id, Nat.sub_diag. reflexivity. Qed.

Lemma runs_ok_tl x r : runs_ok (x :: r) -> runs_ok r.
Proof. destruct x as [p m]. destruct r as [|[q m2] r2]; [intros _; exact I|]. cbn [runs_ok]. intros [_ H]. exact H. Qed.

Section Sorted.
Variable sorter : nat -> list generic_plan -> PR (list generic_plan).
Hypothesis sorter_ok : forall k l, exists l', sorter k l = Ok l' /\ incl l' l.

Lemma sorter_incl' k l l' : sorter k l = Ok l' -> incl l' l.
Proof. intros E. destruct (sorter_ok k l) as (l2 & E2 & I2). rewrite E in E2. inversion E2; subst. exact I2. Qed.

Lemma final_plan_ok best w : (0 < n)%nat -> AI [] best ->
  plan_ok (let sw := gp_switches best ++ [(0, gp_current best)] in
           match sw with
           | (n0, Ascii) :: rest => if (w =? 0) && (n0 =? N.of_nat n) then rest else sw
           | _ => sw
           end).
Proof.
  intros NZ (HT & HS & HL & (HR & HAlt) & HH & pk & LA & L1 & L2 & SP & HM). cbv zeta.
  assert (0 < pk) as PK by (destruct SP as [SP|[_ SP]]; cbn [length] in SP; lia).
  assert (runs_ok (gp_switches best ++ [(0, gp_current best)])) as RO.
  { apply (runs_ok_snoc _ pk (gp_current best)); [exact HR|exact LA|exact (proj1 HT)|].
    split; [lia|]. split; [exact L2|]. split; [|split].
    - intros EA. unfold gp_current in EA. destruct (gp_plan best) as [p|p|p|p|p|p]; try discriminate. cbn [length Nat.sub N.to_nat] in *. exact HM.
    - intros EB. unfold gp_current in EB. destruct (gp_plan best) as [p|p|p|p|p|p]; try discriminate. destruct HM as (W1 & W2 & _). cbn [length] in W1. split; [lia|lia].
    - intros EX. unfold gp_current in EX. destruct (gp_plan best) as [p|p|p|p|p|p]; try discriminate. unfold x12_run. cbv zeta. cbn [N.to_nat length] in *.
      rewrite Nat.sub_0_r in *. split; [lia|]. intros _.
      assert (length (suffix pk) = N.to_nat pk) as LSu by (unfold suffix; rewrite skipn_length; fold n; lia).
      assert (forall l k m, (k <= m)%nat -> natives (firstn m l) -> natives (firstn k l)) as PRE.
      { unfold natives. induction l as [|x l IHl]; intros k m LE HN; [rewrite firstn_nil; reflexivity|]. destruct k as [|k]; [reflexivity|]. destruct m as [|m]; [lia|].
        cbn [firstn forallb] in *. apply andb_true_iff in HN. destruct HN as [A B]. rewrite A. cbn [andb]. apply (IHl k m); [lia|exact B]. }
      unfold XI in HM. pose proof (Nat.div_mod (N.to_nat pk) 3 ltac:(lia)) as DM. pose proof (Nat.mod_upper_bound (N.to_nat pk) 3 ltac:(lia)) as MB.
      destruct (xp_ascii_end p).
      + destruct HM as (c0 & X1 & X2 & X3 & X4). rewrite LSu in X3. replace (3 * (N.to_nat pk / 3))%nat with c0; [exact X4|].
        pose proof (Nat.div_mod c0 3 ltac:(lia)) as DM0. rewrite X2 in DM0. assert (c0 / 3 = N.to_nat pk / 3)%nat; [|lia].
        assert (3 * (c0 / 3) <= N.to_nat pk /\ N.to_nat pk < 3 * (c0 / 3) + 3)%nat as [B1 B2] by lia.
        apply (Nat.div_unique (N.to_nat pk) 3 (c0 / 3) (N.to_nat pk - 3 * (c0 / 3))); lia.
      + destruct HM as [_ HN]. apply (PRE _ _ (N.to_nat pk)); [lia|exact HN]. }
  assert (alt_ok (gp_switches best ++ [(0, gp_current best)])) as AO.
  { apply (alt_ok_snoc _ pk (gp_current best)); [exact HAlt|exact LA|exact (proj1 HT)|reflexivity]. }
  destruct (gp_switches best) as [|[n0 m0] r0] eqn:ES; [exfalso; exact (proj1 HT ES)|]. cbn [hd fst] in HH. subst n0.
  cbn [app] in *.
  assert (plan_ok ((N.of_nat n, m0) :: r0 ++ [(0, gp_current best)])) as FULL.
  { split; [discriminate|]. split; [split; [exact RO|exact AO]|]. split; [lia|]. rewrite Nat2N.id. constructor. }
  destruct m0; try exact FULL. destruct ((w =? 0) && (N.of_nat n =? N.of_nat n)); [|exact FULL].
  split; [destruct r0; discriminate|]. split; [split; [exact (runs_ok_tl _ _ RO)|exact (alt_ok_tl _ _ AO)]|].
  destruct (r0 ++ [(0, gp_current best)]) as [|[p1 m1] r1] eqn:ER; [exact I|].
  cbn [runs_ok] in RO. destruct RO as [(R1 & R2 & R3 & _) _]. split; [lia|]. rewrite <- suffix_n. exact (R3 eq_refl).
Qed.

Lemma opt_loop_align : forall fuel it data_len w modes plans new_plan st res st' D,
  opt_loop sl sorter fuel it data_len w modes plans new_plan st = Ok (Some res, st') ->
  data_len = N.of_nat n -> data_len = N.of_nat it + N.of_nat (length D) ->
  Forall (AI D) plans -> Forall (AI (tl D)) new_plan ->
  (it = 0%nat -> Forall (fun g => length (gp_switches g) = 1%nat) plans) -> (it <> 0%nat -> plans <> []) -> (0 < n)%nat ->
  plan_ok res.
Proof.
  induction fuel as [|f IH]; intros it data_len w modes plans new_plan st res st' D H HN HLn HP HNp HU HE NZ; [discriminate|]. cbn [opt_loop] in H.
  destruct (N.ltb_spec data_len (N.of_nat it)); [lia|].
  set (ae0 := (Nat.eqb it 0) && (match plans with [] => true | _ => false end) && (data_len =? 0)) in *.
  assert (Forall (TI D) plans) as HPT by (eapply Forall_impl; [|exact HP]; intros g G; exact (proj1 G)).
  assert (Forall (TI (tl D)) new_plan) as HNT by (eapply Forall_impl; [|exact HNp]; intros g G; exact (proj1 G)).
  destruct (step_all_total sl (data_len - N.of_nat it) (Nat.eqb it 0) modes D plans new_plan ae0 (st_steps st) HPT HNT) as (np & ae & steps & SA & _ & R2 & R3 & R4 & _).
  { intros E. apply Nat.eqb_eq in E. exact (HU E). }
  { unfold ae0. intros E. apply andb_true_iff in E. destruct E as [_ E]. apply N.eqb_eq in E. destruct D; [reflexivity|cbn [length] in HLn; lia]. }
  rewrite SA in H. cbn [bind] in H.
  assert (Forall (AI (tl D)) np) as I1.
  { apply (step_all_align (data_len - N.of_nat it) (Nat.eqb it 0) modes D ltac:(lia)) with (plans := plans) (np := new_plan) (ae := ae0) (s := st_steps st) (ae' := ae) (s' := steps); [| |exact SA|exact HP|exact HNp].
    - intros E. apply Nat.eqb_eq in E. subst it. lia.
    - intros E. apply Nat.eqb_neq in E. lia. }
  destruct (sorter it np) as [sorted| |] eqn:SO; cbn [bind] in H; try discriminate.
  destruct (remove_hopeless_cases sl sorted) as [np2| |] eqn:RH; cbn [bind] in H; try discriminate.
  assert (Forall (AI (tl D)) np2) as I2.
  { apply Forall_forall. intros g Hg. rewrite Forall_forall in I1. apply I1. eapply sorter_incl'; [exact SO|]. eapply remove_hopeless_incl; eassumption. }
  destruct np2 as [|p0 rest] eqn:EN; [discriminate|]. rewrite <- EN in *. destruct ae.
  - pose proof (R2 eq_refl) as DN. subst D. cbn [tl] in I2.
    match type of H with (let* keyed := ?X in _) = _ => destruct X as [keyed| |] eqn:EK end; cbn [bind] in H; try discriminate.
    destruct keyed as [|[p k] r]; [discriminate|].
    destruct (gp_cost sl (min_by p k r)) as [c| |]; cbn [bind] in H; try discriminate.
    assert (map fst ((p, k) :: r) = np2) as MK by (eapply with_keys_fst; exact EK).
    assert (AI [] (min_by p k r)) as AB.
    { rewrite Forall_forall in I2. apply I2. rewrite <- MK. cbn [map fst]. destruct (min_by_In p k r) as [E|E]; [left; exact (eq_sym E)|right; exact E]. }
    inversion H; subst res. rewrite HN. exact (final_plan_ok (min_by p k r) w NZ AB).
  - assert (D <> []) as ND.
    { intros ->. destruct plans as [|x xs]; [|specialize (R3 ltac:(discriminate) eq_refl); discriminate].
      specialize (R4 eq_refl). destruct it as [|it']; [|exact (HE ltac:(discriminate) eq_refl)].
      unfold ae0 in R4. cbn [Nat.eqb andb length] in R4, HLn. assert (data_len = 0) as E0 by lia. rewrite E0 in R4. discriminate. }
    destruct D as [|ch D']; [contradiction|]. cbn [tl length] in *.
    apply (IH (S it) data_len w modes np2 [] _ res st' D' H HN); [lia|exact I2|constructor|discriminate|intros _; rewrite EN; discriminate|exact NZ].
Qed.

Theorem optimize_align written mode modes res st : data <> [] ->
  optimize sl sorter data written mode modes = Ok (Some res, st) -> plan_ok res.
Proof.
  unfold optimize. intros ND H. fold n in H. assert (0 < n)%nat as NZ by (unfold n; destruct data; [contradiction|cbn [length]; lia]).
  assert (AI data (gp_for_mode mode data written)) as HA.
  { split; [split; [discriminate|unfold gp_for_mode; destruct mode; (split; [reflexivity|]); cbn; try lia; exact I]|].
    split; [symmetry; exact suffix_n|]. split; [unfold n; lia|]. cbn [gp_for_mode gp_switches runs_ok alt_ok hd fst]. split; [split; exact I|]. split; [reflexivity|].
    exists (N.of_nat n). split; [cbn [last]; f_equal; unfold gp_current; destruct mode; reflexivity|]. split; [unfold n; lia|]. split; [lia|]. split; [right; split; reflexivity|].
    rewrite suffix_n. unfold gp_for_mode. destruct mode; cbn [gp_plan]; try exact I.
    - cbn [ap_new ap_digits_ahead N.to_nat]. rewrite Nat.sub_0_r. constructor.
    - rewrite Nat2N.id. fold n. rewrite Nat.sub_diag. unfold XI. cbn [xp_new xp_ascii_end xp_values firstn]. split; reflexivity.
    - cbn [bp_new bp_written]. fold n. split; [lia|]. split; [lia|discriminate]. }
  assert (UL (gp_for_mode mode data written)) as HU by (unfold UL, gp_for_mode; destruct mode; reflexivity).
  destruct (enabled modes mode).
  - cbn [bind] in H. apply (opt_loop_align _ 0 _ _ _ _ _ _ _ _ data H eq_refl); [cbn; fold n; lia|constructor; [exact HA|constructor]|constructor| |congruence|exact NZ].
    intros _. constructor; [reflexivity|constructor].
  - destruct (gp_add_switches sl _ (N.of_nat n) true modes 0) as [[added steps]| |] eqn:A; cbn [bind] in H; try discriminate.
    apply (opt_loop_align _ 0 _ _ _ _ _ _ _ _ data H eq_refl); [cbn; fold n; lia|constructor| |intros _; constructor|congruence|exact NZ].
    exact (add_switches_align _ _ true modes 0 added steps data A HA HU eq_refl ltac:(reflexivity) ltac:(discriminate)).
Qed.
End Sorted.
End Align.
Print Assumptions optimize_align.
