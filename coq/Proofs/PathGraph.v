(* Proofs/PathGraph.v -- property C17: the outline graph of Model/Path.v as a set of unit-edge keys: which keys are
   present, what remove_edge does, the graph built from a bitmap, and what "no edge left" means. *)
From Coq Require Import ZArith List Bool Lia Arith FMapPositive.
From DM Require Import Model.Outcome Model.Path Spec.EvenOdd Proofs.PathProofs Proofs.PathMicro.
Import ListNotations.
Local Open Scope Z_scope.

Definition key := (bool * Z * Z)%type.     (* (vertical?, x = column, y = row) *)
Definition edge_in (g : graph) (k : key) : bool :=
  match k with (true, x, y) => gleft g y x | (false, x, y) => gtop g y x end.
Definition pkey (p : pos) : key := ekey (start_node p) (end_node p).

Definition keyeqb (a b : key) : bool :=
  match a, b with (v1, x1, y1), (v2, x2, y2) => Bool.eqb v1 v2 && (x1 =? x2) && (y1 =? y2) end.
Lemma keyeqb_eq a b : keyeqb a b = true <-> a = b.
Proof.
  destruct a as [[v1 x1] y1], b as [[v2 x2] y2]. unfold keyeqb. rewrite !andb_true_iff, !Z.eqb_eq, Bool.eqb_true_iff.
  split; [intros [[-> ->] ->]; reflexivity|intros [= -> -> ->]; repeat split].
Qed.

Lemma pkey_cases p : pkey p = match p_d p with
                              | Left | Right => (false, p_j p, p_i p)
                              | Up | Down => (true, p_j p, p_i p) end.
Proof.
  destruct p as [i j d]. unfold pkey, start_node, pflip, end_node, ekey.
  destruct d; cbn [p_i p_j p_d dflip fst snd].
  - destruct (Z.eqb_spec (i + 1) i); [lia|]. rewrite Z.min_r by lia. reflexivity.
  - destruct (Z.eqb_spec i (i + 1)); [lia|]. rewrite Z.min_l by lia. reflexivity.
  - rewrite Z.eqb_refl. rewrite Z.min_l by lia. reflexivity.
  - rewrite Z.eqb_refl. rewrite Z.min_r by lia. reflexivity.
Qed.

Lemma has_edge_key g p : has_edge g p = edge_in g (pkey p).
Proof. rewrite pkey_cases. unfold has_edge, edge_in. destruct (p_d p); reflexivity. Qed.

(* the cell index is injective on the cells of the grid *)
Lemma eidx_inj g i j i' j' : 0 <= g_w g -> has_cell g i j = true -> has_cell g i' j' = true -> eidx g i j = eidx g i' j' -> i = i' /\ j = j'.
Proof.
  intros Hw H1 H2 E. unfold has_cell in *. repeat (apply andb_true_iff in H1; destruct H1 as [H1 ?]). repeat (apply andb_true_iff in H2; destruct H2 as [H2 ?]).
  repeat match goal with H : (_ <=? _) = true |- _ => apply Z.leb_le in H end.
  assert (0 <= i * (g_w g + 1)) by (apply Z.mul_nonneg_nonneg; lia). assert (0 <= i' * (g_w g + 1)) by (apply Z.mul_nonneg_nonneg; lia).
  unfold eidx in E. apply (f_equal Z.pos) in E. rewrite !Z2Pos.id in E by lia.
  assert (i = i') as -> by nia. split; [reflexivity|lia].
Qed.

Lemma mem_remove m k k' : mem (PM.remove k m) k' = mem m k' && negb (Pos.eqb k' k).
Proof.
  unfold mem. destruct (Pos.eqb_spec k' k) as [->|NE].
  - rewrite PM.grs. destruct (PM.find k m); reflexivity.
  - rewrite PM.gro by exact NE. destruct (PM.find k' m); reflexivity.
Qed.

Lemma mem_remove_cell g (m : PM.t unit) i0 j0 i j : 0 <= g_w g -> has_cell g i0 j0 = true ->
  has_cell g i j && mem (PM.remove (eidx g i0 j0) m) (eidx g i j) = has_cell g i j && mem m (eidx g i j) && negb ((i =? i0) && (j =? j0)).
Proof.
  intros Hw H0. destruct (has_cell g i j) eqn:HC; cbn [andb]; [|reflexivity]. rewrite mem_remove.
  destruct (Pos.eqb_spec (eidx g i j) (eidx g i0 j0)) as [E|NE].
  - destruct (eidx_inj g i j i0 j0 Hw HC H0 E) as [-> ->]. rewrite !Z.eqb_refl. reflexivity.
  - destruct (Z.eqb_spec i i0) as [->|]; destruct (Z.eqb_spec j j0) as [->|]; cbn [andb negb]; try reflexivity. contradiction.
Qed.

Lemma remove_edge_spec g p k : 0 <= g_w g -> edge_in (remove_edge g p) k = edge_in g k && negb (keyeqb k (pkey p)).
Proof.
  intros Hw. rewrite pkey_cases. destruct k as [[v x] y]. unfold remove_edge. destruct (has_cell g (p_i p) (p_j p)) eqn:HC.
  - destruct (p_d p); destruct v; unfold edge_in, gleft, gtop, has_cell, eidx; cbn [g_w g_h g_left g_top keyeqb Bool.eqb andb negb]; rewrite ?andb_true_r; try reflexivity;
      fold (eidx g (p_i p) (p_j p)); fold (eidx g y x); fold (has_cell g y x);
      rewrite (mem_remove_cell g _ (p_i p) (p_j p) y x Hw HC); rewrite (andb_comm (x =? p_j p)); reflexivity.
  - destruct (p_d p); destruct v; cbn [edge_in keyeqb Bool.eqb andb negb]; rewrite ?andb_true_r; try reflexivity;
      (destruct (Z.eqb_spec x (p_j p)) as [->|NX]; destruct (Z.eqb_spec y (p_i p)) as [->|NY]; cbn [andb negb]; rewrite ?andb_true_r; try reflexivity);
      unfold gleft, gtop; rewrite HC; reflexivity.
Qed.

(* ---- the graph built from a bitmap ---- *)
Lemma mem_add m k k' : mem (PM.add k tt m) k' = Pos.eqb k' k || mem m k'.
Proof.
  unfold mem. destruct (Pos.eqb_spec k' k) as [->|NE]; [rewrite PM.gss; reflexivity|]. rewrite PM.gso by exact NE. reflexivity.
Qed.

Lemma edge_set_fold (f : Z -> Z -> bool) w : forall L m k,
  mem (fold_left (fun m idx => if f (idx / (w + 1)) (idx mod (w + 1)) then PM.add (Z.to_pos (idx + 1)) tt m else m) L m) k =
  mem m k || existsb (fun idx => Pos.eqb k (Z.to_pos (idx + 1)) && f (idx / (w + 1)) (idx mod (w + 1))) L.
Proof.
  induction L as [|idx r IH]; intros m k; cbn [fold_left existsb]; [rewrite orb_false_r; reflexivity|].
  rewrite IH. destruct (f (idx / (w + 1)) (idx mod (w + 1))); [rewrite mem_add|]; rewrite ?andb_true_r, ?andb_false_r; cbn [orb];
    destruct (mem m k); destruct (Pos.eqb k (Z.to_pos (idx + 1))); reflexivity.
Qed.

Lemma edge_set_mem f w h i j : 0 <= w -> 0 <= h -> 0 <= i <= h -> 0 <= j <= w ->
  mem (edge_set f w h) (Z.to_pos (i * (w + 1) + j + 1)) = f i j.
Proof.
  intros Hw Hh Hi Hj. unfold edge_set. rewrite edge_set_fold. unfold mem at 1. rewrite PM.gempty. cbn [orb].
  assert (0 <= i * (w + 1)) as P1 by (apply Z.mul_nonneg_nonneg; lia).
  destruct (f i j) eqn:F.
  - apply existsb_exists. exists (i * (w + 1) + j). split.
    + unfold all_idx. apply in_map_iff. exists (Z.to_nat (i * (w + 1) + j)). split; [lia|]. apply in_seq. split; [lia|]. cbn [Nat.add].
      apply Z2Nat.inj_lt; [lia|nia|nia].
    + rewrite Pos.eqb_refl. cbn [andb]. rewrite Z.div_add_l by lia. rewrite Z.div_small by lia. rewrite Z.add_0_r.
      rewrite Z.add_comm, Z.mod_add by lia. rewrite Z.mod_small by lia. exact F.
  - apply not_true_is_false. intros H. apply existsb_exists in H. destruct H as (idx & Hin & H). apply andb_true_iff in H. destruct H as [E F2].
    apply Pos.eqb_eq in E. unfold all_idx in Hin. apply in_map_iff in Hin. destruct Hin as (n & <- & Hn). apply in_seq in Hn.
    apply (f_equal Z.pos) in E. rewrite !Z2Pos.id in E by lia. assert (Z.of_nat n = i * (w + 1) + j) as EN by lia. rewrite EN in F2.
    rewrite Z.div_add_l in F2 by lia. rewrite Z.div_small in F2 by lia. rewrite Z.add_0_r in F2.
    rewrite Z.add_comm, Z.mod_add in F2 by lia. rewrite Z.mod_small in F2 by lia. congruence.
Qed.

Section FromBits.
Variables (l : list bool) (w h : Z) (g0 : graph).
Hypothesis Hw : 0 < w.
Hypothesis Hh : 0 <= h.
Hypothesis G0 : bits_to_edge_graph l w h = Ok g0.
Let bits := bits_map l.

Lemma g0_dims : g_w g0 = w /\ g_h g0 = h.
Proof. unfold bits_to_edge_graph in G0. destruct (_ || _); [discriminate|]. inversion G0; subst. split; reflexivity. Qed.

Lemma g0_left i j : 0 <= i <= h -> 0 <= j <= w -> gleft g0 i j = left_at bits w h i j.
Proof.
  intros Hi Hj. unfold bits_to_edge_graph in G0. destruct (_ || _); [discriminate|]. inversion G0; subst g0.
  unfold gleft, has_cell, eidx. cbn [g_w g_h g_left].
  destruct (Z.leb_spec 0 i); [|lia]. destruct (Z.leb_spec i h); [|lia]. destruct (Z.leb_spec 0 j); [|lia]. destruct (Z.leb_spec j w); [|lia]. cbn [andb].
  apply edge_set_mem; lia.
Qed.

Lemma g0_top i j : 0 <= i <= h -> 0 <= j <= w -> gtop g0 i j = top_at bits w h i j.
Proof.
  intros Hi Hj. unfold bits_to_edge_graph in G0. destruct (_ || _); [discriminate|]. inversion G0; subst g0.
  unfold gtop, has_cell, eidx. cbn [g_w g_h g_top].
  destruct (Z.leb_spec 0 i); [|lia]. destruct (Z.leb_spec i h); [|lia]. destruct (Z.leb_spec 0 j); [|lia]. destruct (Z.leb_spec j w); [|lia]. cbn [andb].
  apply edge_set_mem; lia.
Qed.

(* the edges of the initial graph lie inside the box *)
Lemma dark_range i j : dark bits w h i j = true -> 0 <= i < h /\ 0 <= j < w.
Proof.
  unfold dark. intros H. repeat (apply andb_true_iff in H; destruct H as [H ?]).
  repeat match goal with H : (_ <=? _) = true |- _ => apply Z.leb_le in H | H : (_ <? _) = true |- _ => apply Z.ltb_lt in H end. lia.
Qed.

Lemma g0_key_range k : edge_in g0 k = true ->
  match k with (true, x, y) => 0 <= y < h /\ 0 <= x <= w | (false, x, y) => 0 <= y <= h /\ 0 <= x < w end.
Proof.
  destruct k as [[v x] y]. destruct g0_dims as [DW DH]. unfold edge_in. destruct v.
  - intros H. assert (has_cell g0 y x = true) as HC by (unfold gleft in H; apply andb_true_iff in H; apply H).
    unfold has_cell in HC. rewrite DW, DH in HC. repeat (apply andb_true_iff in HC; destruct HC as [HC ?]).
    repeat match goal with H : (_ <=? _) = true |- _ => apply Z.leb_le in H end.
    rewrite g0_left in H by lia. unfold left_at in H. apply orb_true_iff in H. destruct H as [H|H]; apply andb_true_iff in H; destruct H as [H _]; apply dark_range in H; lia.
  - intros H. assert (has_cell g0 y x = true) as HC by (unfold gtop in H; apply andb_true_iff in H; apply H).
    unfold has_cell in HC. rewrite DW, DH in HC. repeat (apply andb_true_iff in HC; destruct HC as [HC ?]).
    repeat match goal with H : (_ <=? _) = true |- _ => apply Z.leb_le in H end.
    rewrite g0_top in H by lia. unfold top_at in H. apply orb_true_iff in H. destruct H as [H|H]; apply andb_true_iff in H; destruct H as [H _]; apply dark_range in H; lia.
Qed.
End FromBits.

(* ---- the bitmap as a list, the first dark module, the scan for a remaining edge ---- *)
Lemma fill_bits_find : forall (l : list bool) k0 m p,
  PM.find p (fill_bits l k0 m) =
  if (Pos.leb k0 p) && (Pos.to_nat p <? Pos.to_nat k0 + length l)%nat && nth (Pos.to_nat p - Pos.to_nat k0) l false then Some true else PM.find p m.
Proof.
  induction l as [|b r IH]; intros k0 m p; cbn [fill_bits length].
  - rewrite Nat.add_0_r. destruct (Pos.leb_spec k0 p); cbn [andb]; [|reflexivity]. destruct (Nat.ltb_spec (Pos.to_nat p) (Pos.to_nat k0)); [lia|reflexivity].
  - rewrite IH. rewrite Pos2Nat.inj_succ.
    destruct (Pos.leb_spec (Pos.succ k0) p) as [L1|L1]; destruct (Pos.leb_spec k0 p) as [L2|L2]; try lia; cbn [andb].
    + replace (Pos.to_nat p - Pos.to_nat k0)%nat with (S (Pos.to_nat p - S (Pos.to_nat k0))) by lia. cbn [nth].
      replace (S (Pos.to_nat k0) + length r)%nat with (Pos.to_nat k0 + S (length r))%nat by lia.
      destruct ((Pos.to_nat p <? Pos.to_nat k0 + S (length r))%nat && nth (Pos.to_nat p - S (Pos.to_nat k0)) r false); [reflexivity|].
      destruct b; [rewrite PM.gso by lia|]; reflexivity.
    + assert (p = k0) as -> by lia. rewrite Nat.sub_diag. cbn [nth]. destruct (Nat.ltb_spec (Pos.to_nat k0) (Pos.to_nat k0 + S (length r))); [|lia]. cbn [andb].
      destruct b; [rewrite PM.gss; reflexivity|reflexivity].
    + destruct b; [rewrite PM.gso by lia|]; reflexivity.
Qed.

Lemma dark_nth (l : list bool) w h i j : dark (bits_map l) w h i j = true -> nth (Z.to_nat (i * w + j)) l false = true /\ 0 <= i < h /\ 0 <= j < w.
Proof.
  intros H. pose proof (dark_range l w h i j H) as R. split; [|exact R]. unfold dark in H. apply andb_true_iff in H. destruct H as [_ H].
  unfold bits_map in H. rewrite fill_bits_find in H.
  destruct (Pos.leb 1 (Z.to_pos (i * w + j + 1)) && (Pos.to_nat (Z.to_pos (i * w + j + 1)) <? Pos.to_nat 1 + length l)%nat && nth (Pos.to_nat (Z.to_pos (i * w + j + 1)) - Pos.to_nat 1) l false) eqn:E.
  - apply andb_true_iff in E. destruct E as [_ E]. assert (0 <= i * w + j) as Hz by nia. set (z := i * w + j) in *.
    replace (Pos.to_nat (Z.to_pos (z + 1)) - Pos.to_nat 1)%nat with (Z.to_nat z) in E by lia. exact E.
  - rewrite PM.gempty in H. discriminate.
Qed.

Lemma first_dark_spec (l : list bool) k : first_dark l = Some k -> forall k', (k' < k)%nat -> nth k' l false = false.
Proof.
  unfold first_dark. assert (forall (l : list bool) s k, (fix go (l : list bool) (k : nat) := match l with [] => None | b :: r => if b then Some k else go r (S k) end) l s = Some k ->
            (s <= k)%nat /\ forall k', (k' < k - s)%nat -> nth k' l false = false) as G.
  { induction l0 as [|b r IH]; intros s k0 H; [discriminate|]. destruct b.
    - inversion H; subst. split; [lia|]. intros k' Hk. lia.
    - destruct (IH _ _ H) as [A B]. split; [lia|]. intros [|k'] Hk; [reflexivity|]. cbn [nth]. apply B. lia. }
  intros H k' Hk. destruct (G l 0%nat k H) as [_ B]. apply B. lia.
Qed.
Lemma first_dark_none (l : list bool) : first_dark l = None -> forall k', nth k' l false = false.
Proof.
  unfold first_dark. assert (forall (l : list bool) s, (fix go (l : list bool) (k : nat) := match l with [] => None | b :: r => if b then Some k else go r (S k) end) l s = None ->
            forall k', nth k' l false = false) as G.
  { induction l0 as [|b r IH]; intros s H k'; [destruct k'; reflexivity|]. destruct b; [discriminate|]. destruct k' as [|k']; [reflexivity|]. cbn [nth]. exact (IH _ H k'). }
  intros H. exact (G l 0%nat H).
Qed.

Definition kindex (w : Z) (k : key) : Z := match k with (_, x, y) => y * (w + 1) + x end.
Definition hint_ok (g : graph) : Prop := forall k, edge_in g k = true -> g_hint g <= kindex (g_w g) k.

Lemma g0_hint_ok (l : list bool) w h g0 : 0 < w -> 0 <= h -> bits_to_edge_graph l w h = Ok g0 -> hint_ok g0.
Proof.
  intros Hw Hh G0 k Hk. destruct (g0_dims l w h g0 G0) as [DW DH]. rewrite DW.
  pose proof (g0_key_range l w h g0 Hw Hh G0 k Hk) as R.
  assert (exists i j, dark (bits_map l) w h i j = true /\ i * (w + 1) + j <= kindex w k) as (i & j & D & LE).
  { destruct k as [[v x] y]. unfold edge_in in Hk. destruct v.
    - rewrite (g0_left l w h g0 Hw Hh G0) in Hk by lia. unfold left_at in Hk. apply orb_true_iff in Hk. destruct Hk as [H|H]; apply andb_true_iff in H; destruct H as [H _].
      + exists y, x. split; [exact H|cbn [kindex]; lia].
      + exists y, (x - 1). split; [exact H|cbn [kindex]; lia].
    - rewrite (g0_top l w h g0 Hw Hh G0) in Hk by lia. unfold top_at in Hk. apply orb_true_iff in Hk. destruct Hk as [H|H]; apply andb_true_iff in H; destruct H as [H _].
      + exists y, x. split; [exact H|cbn [kindex]; lia].
      + exists (y - 1), x. split; [exact H|cbn [kindex]; nia]. }
  destruct (dark_nth l w h i j D) as (N & Ri & Rj).
  unfold bits_to_edge_graph in G0. destruct (_ || _); [discriminate|]. inversion G0; subst g0. cbn [g_hint].
  destruct (first_dark l) as [k0|] eqn:FD.
  - assert (Z.of_nat k0 <= i * w + j) as LK.
    { destruct (Z.le_gt_cases (Z.of_nat k0) (i * w + j)) as [A|A]; [exact A|exfalso]. rewrite (first_dark_spec l k0 FD (Z.to_nat (i * w + j))) in N by nia. discriminate. }
    assert (Z.of_nat k0 / w * (w + 1) + Z.of_nat k0 mod w <= i * (w + 1) + j); [|lia].
    pose proof (Z.div_mod (Z.of_nat k0) w ltac:(lia)) as DM. pose proof (Z.mod_pos_bound (Z.of_nat k0) w Hw) as MB.
    set (q := Z.of_nat k0 / w) in *. set (r := Z.of_nat k0 mod w) in *.
    assert (q <= i) by nia. destruct (Z.eq_dec q i) as [->|NE]; nia.
  - rewrite (first_dark_none l FD) in N. discriminate.
Qed.

(* ---- scan / edge_left ---- *)
Definition any_at (g : graph) (z : Z) : bool := mem (g_left g) (Z.to_pos (z + 1)) || mem (g_top g) (Z.to_pos (z + 1)).

Lemma scan_none g : forall fuel idx, scan g fuel idx = None -> forall z, idx <= z < idx + Z.of_nat fuel -> any_at g z = false.
Proof.
  induction fuel as [|f IH]; intros idx H z Hz; [lia|]. cbn [scan] in H. fold (any_at g idx) in H.
  destruct (any_at g idx) eqn:A; [discriminate|]. destruct (Z.eq_dec z idx) as [->|NE]; [exact A|]. apply (IH _ H). lia.
Qed.
Lemma scan_some g : forall fuel idx r, scan g fuel idx = Some r ->
  idx <= r < idx + Z.of_nat fuel /\ any_at g r = true /\ forall z, idx <= z < r -> any_at g z = false.
Proof.
  induction fuel as [|f IH]; intros idx r H; [discriminate|]. cbn [scan] in H. fold (any_at g idx) in H.
  destruct (any_at g idx) eqn:A.
  - inversion H; subst r. split; [lia|]. split; [exact A|]. intros z Hz. lia.
  - destruct (IH _ _ H) as (R1 & R2 & R3). split; [lia|]. split; [exact R2|]. intros z Hz. destruct (Z.eq_dec z idx) as [->|NE]; [exact A|]. apply R3. lia.
Qed.

Lemma edge_in_cell g k : edge_in g k = true ->
  match k with (_, x, y) => 0 <= y <= g_h g /\ 0 <= x <= g_w g end /\ any_at g (kindex (g_w g) k) = true.
Proof.
  destruct k as [[v x] y]. unfold edge_in, any_at, kindex. destruct v; intros H.
  - unfold gleft in H. apply andb_true_iff in H. destruct H as [HC M]. unfold has_cell in HC. repeat (apply andb_true_iff in HC; destruct HC as [HC ?]).
    repeat match goal with H : (_ <=? _) = true |- _ => apply Z.leb_le in H end. split; [lia|]. unfold eidx in M. rewrite M. reflexivity.
  - unfold gtop in H. apply andb_true_iff in H. destruct H as [HC M]. unfold has_cell in HC. repeat (apply andb_true_iff in HC; destruct HC as [HC ?]).
    repeat match goal with H : (_ <=? _) = true |- _ => apply Z.leb_le in H end. split; [lia|]. unfold eidx in M. rewrite M. apply orb_true_r.
Qed.

Lemma edge_left_none g g' : 0 <= g_w g -> 0 <= g_h g -> hint_ok g -> edge_left g = (None, g') -> forall k, edge_in g k = false.
Proof.
  intros Hw Hh HO H k. destruct (edge_in g k) eqn:E; [exfalso|reflexivity]. unfold edge_left in H.
  destruct (scan g _ (g_hint g)) as [r|] eqn:S; [discriminate|]. destruct (edge_in_cell g k E) as [R A]. pose proof (HO k E) as LO.
  rewrite (scan_none g _ _ S) in A; [discriminate|]. destruct k as [[v x] y]. cbn [kindex] in *. split; [exact LO|]. rewrite Z2Nat.id by nia. nia.
Qed.

Lemma edge_left_some g np g' : 0 <= g_w g -> 0 <= g_h g -> 0 <= g_hint g -> edge_left g = (Some np, g') ->
  has_edge g' np = true /\ (forall k, edge_in g' k = edge_in g k) /\ g_w g' = g_w g /\ g_h g' = g_h g /\ 0 <= g_hint g' /\ (hint_ok g -> hint_ok g').
Proof.
  intros Hw Hh Hhi H. unfold edge_left in H. destruct (scan g _ (g_hint g)) as [r|] eqn:S; [|discriminate]. inversion H; subst np g'. clear H.
  destruct (scan_some g _ _ _ S) as (R1 & R2 & R3).
  assert (r < (g_w g + 1) * (g_h g + 1)) as RL by lia.
  pose proof (Z.div_mod r (g_w g + 1) ltac:(lia)) as DM. pose proof (Z.mod_pos_bound r (g_w g + 1) ltac:(lia)) as MB.
  assert (0 <= r / (g_w g + 1)) as Q0 by (apply Z.div_pos; lia). assert (r / (g_w g + 1) <= g_h g) as Q1 by (apply Z.lt_succ_r, Z.div_lt_upper_bound; lia).
  assert (forall k, edge_in (mkgraph (g_w g) (g_h g) (g_left g) (g_top g) r) k = edge_in g k) as SAME by (intros [[[] x] y]; reflexivity).
  split; [|split; [exact SAME|split; [reflexivity|split; [reflexivity|split; [cbn [g_hint]; lia|]]]]].
  - unfold has_edge, gtop, gleft, has_cell, eidx. cbn [p_i p_j p_d g_w g_h g_left g_top].
    destruct (Z.leb_spec 0 (r / (g_w g + 1))); [|lia]. destruct (Z.leb_spec (r / (g_w g + 1)) (g_h g)); [|lia].
    destruct (Z.leb_spec 0 (r mod (g_w g + 1))); [|lia]. destruct (Z.leb_spec (r mod (g_w g + 1)) (g_w g)); [|lia]. cbn [andb].
    replace (r / (g_w g + 1) * (g_w g + 1) + r mod (g_w g + 1) + 1) with (r + 1) by lia.
    unfold any_at in R2. destruct (mem (g_top g) (Z.to_pos (r + 1))) eqn:T; [reflexivity|]. rewrite orb_false_r in R2. exact R2.
  - intros HO k E. rewrite SAME in E. cbn [g_hint g_w]. destruct (edge_in_cell g k E) as [_ A]. pose proof (HO k E) as LO.
    destruct (Z.le_gt_cases r (kindex (g_w g) k)) as [OK|LT]; [exact OK|]. rewrite R3 in A by lia. discriminate.
Qed.

(* ---- geometry of the three continuations ---- *)
Lemma next_start p p' : In p' [straight p; pleft p; pright p] -> start_node p' = end_node p.
Proof.
  destruct p as [i j d]. intros [<-|[<-|[<-|[]]]]; destruct d; unfold start_node, pflip, end_node, straight, pleft, pright; cbn [p_i p_j p_d dflip]; f_equal; lia.
Qed.
Lemma pos_unit_move p : unit_move (start_node p) (end_node p) = true.
Proof.
  destruct p as [i j d]. destruct d; unfold unit_move, start_node, pflip, end_node; cbn [p_i p_j p_d dflip fst snd];
    repeat match goal with |- context [?a =? ?b] => destruct (Z.eqb_spec a b) end; cbn [andb orb]; try reflexivity; lia.
Qed.
Lemma key_nodes w h p : match pkey p with (true, x, y) => 0 <= y < h /\ 0 <= x <= w | (false, x, y) => 0 <= y <= h /\ 0 <= x < w end ->
  nodebox w h (start_node p) = true /\ nodebox w h (end_node p) = true.
Proof.
  rewrite pkey_cases. destruct p as [i j d]. destruct d; unfold nodebox, start_node, pflip, end_node; cbn [p_i p_j p_d dflip fst snd]; intros R;
    split; repeat (apply andb_true_iff; split); apply Z.leb_le; lia.
Qed.
Lemma can_step_spec g p np : can_step g p = Some np -> has_edge g np = true /\ In np [straight p; pleft p; pright p].
Proof.
  unfold can_step. destruct (has_edge g (straight p)) eqn:A; [intros [= <-]; split; [exact A|left; reflexivity]|].
  destruct (has_edge g (pleft p)) eqn:B; [intros [= <-]; split; [exact B|right; left; reflexivity]|].
  destruct (has_edge g (pright p)) eqn:C; [intros [= <-]; split; [exact C|right; right; left; reflexivity]|discriminate].
Qed.
Lemma follow_spec g p np had : follow g p = (Some np, had) -> has_edge g np = true /\ In np [straight p; pleft p; pright p].
Proof.
  unfold follow. intros H. assert (In np (filter (has_edge g) [straight p; pleft p; pright p])) as I.
  { destruct (filter _ _) as [|x [|y r]]; inversion H; subst; left; reflexivity. }
  apply filter_In in I. split; apply I.
Qed.
