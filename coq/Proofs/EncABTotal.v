(* Proofs/EncABTotal.v -- property C11 as a theorem for every mode set within {ASCII, Base256}: the encoder never panics.
   The planner's guarantees (Proofs/PlanAlign.v: positions strictly decrease, an ASCII run ends at an item boundary of the
   greedy ASCII encodation, a Base256 run that is left has at most 1555 bytes and the last one at most 1556; Proofs/PlanShape.v:
   the plan ends at 0; Proofs/PlanTotal.v: the planner itself returns) are exactly what the assertions of the main loop, of
   maybe_switch_mode and of the Base256 length field need. *)
From Coq Require Import Arith NArith List Bool Lia.
From DM Require Import Generated.Symbols Generated.ModeTables Model.Outcome Model.SymbolList Model.Planner Model.PlannerRun Model.Eci Model.Enc
  Model.Dec Model.Api Spec.Stream16022 Proofs.SymbolListProofs Proofs.EncLocal Proofs.EncTop Proofs.EncAscii
  Proofs.EncB256 Proofs.DecStream Proofs.PlanShape Proofs.PlanTotal Proofs.PlanAlign Proofs.EncAB.
Import ListNotations.
Local Open Scope N_scope.

Section T.
Variable data : list N.
Let n := length data.
Let sfx := PlanAlign.suffix data.
Let rok := PlanAlign.runs_ok data.
Let aok := PlanAlign.alt_ok.

Definition PL (e : enc) : Prop :=
  e_data e = sfx (chars_left e) /\ (length (e_data e) <= n)%nat /\
  match e_planned e with
  | [] => False
  | (p0, _) :: _ => p0 <= chars_left e /\ (rok (e_planned e) /\ aok (e_planned e)) /\ fst (last (e_planned e) (0, Ascii)) = 0
  end.

Definition same_rest (e e' : enc) : Prop :=
  e_data e' = e_data e /\ e_cw e' = e_cw e /\ e_input e' = e_input e /\ e_modes e' = e_modes e /\ e_symbols e' = e_symbols e.

Lemma rok_tl x r : rok (x :: r) -> rok r.
Proof. apply PlanAlign.runs_ok_tl. Qed.

Definition stay (e e' : enc) : Prop :=
  e_encodation e' = e_encodation e /\ e_new_mode e' = e_new_mode e /\ e_planned e' = e_planned e /\
  (chars_left e = 0 \/ chars_left e <> fst (hd (0, Ascii) (e_planned e))).
Definition moved (sw : bool) (e e' : enc) : Prop :=
  exists p0 m0 p1 m1 rest, e_planned e = (p0, m0) :: (p1, m1) :: rest /\ e_planned e' = (p1, m1) :: rest /\ chars_left e = p0 /\ 0 < p0 /\
    PlanAlign.run_ok data p0 m0 p1 /\ (m0 = m1 -> p1 = 0) /\ e_encodation e' = m0 /\
    ((sw = false /\ m0 = e_encodation e /\ e_new_mode e' = e_new_mode e) \/
     (sw = true /\ m0 <> e_encodation e /\ e_new_mode e' = match et_latch_from_ascii m0 with Some l => Some l | None => e_new_mode e end)).

Lemma msm_total e : PL e ->
  exists sw e', maybe_switch_mode e = Ok (sw, e') /\ same_rest e e' /\ ((sw = false /\ stay e e') \/ (moved sw e e' /\ PL e')).
Proof.
  intros (HD & HL & HP). unfold maybe_switch_mode. destruct (e_planned e) as [|[p0 m0] rest] eqn:EP; [contradiction|]. destruct HP as (LE & (RO & AO) & LA).
  destruct (N.leb_spec p0 (chars_left e)) as [_|]; [|lia]. cbn [negb].
  destruct ((0 <? chars_left e) && (chars_left e =? p0)) eqn:C.
  - apply andb_true_iff in C. destruct C as [C1 C2]. apply N.ltb_lt in C1. apply N.eqb_eq in C2.
    destruct rest as [|[p1 m1] rest2]; [cbn [last fst] in LA; lia|].
    assert (PlanAlign.run_ok data p0 m0 p1) as R01 by (cbn [PlanAlign.runs_ok] in RO; apply RO).
    assert (m0 = m1 -> p1 = 0) as A01 by (cbn [PlanAlign.alt_ok] in AO; apply AO).
    assert (forall nm, PL (mkenc (e_data e) (e_input e) m0 ((p1, m1) :: rest2) nm (e_cw e) (e_modes e) (e_symbols e))) as PL'.
    { intros nm. split; [exact HD|]. split; [exact HL|]. cbn [e_planned]. split; [unfold chars_left in *; cbn [e_data]; destruct R01 as (R & _); lia|].
      split; [split; [exact (rok_tl _ _ RO)|exact (PlanAlign.alt_ok_tl _ _ AO)]|exact LA]. }
    destruct (negb (et_eqb m0 (e_encodation e))) eqn:SW.
    + assert (m0 <> e_encodation e) as NE by (intros ->; apply negb_true_iff in SW; unfold et_eqb in SW; rewrite N.eqb_refl in SW; discriminate).
      destruct (et_latch_from_ascii m0) as [l|] eqn:EL; do 2 eexists; (split; [reflexivity|]); (split; [repeat split|]); right;
        (split; [|apply PL']); exists p0, m0, p1, m1, rest2; cbn [e_planned e_encodation e_new_mode];
        (split; [exact EP|]); (split; [reflexivity|]); (split; [exact C2|]); (split; [lia|]); (split; [exact R01|]); (split; [exact A01|]); (split; [reflexivity|]);
        right; (split; [reflexivity|]); (split; [exact NE|]); rewrite EL; reflexivity.
    + assert (m0 = e_encodation e) as EQ.
      { apply negb_false_iff in SW. unfold et_eqb in SW. apply N.eqb_eq in SW. destruct m0, (e_encodation e); cbn in SW; try discriminate; reflexivity. }
      do 2 eexists. split; [reflexivity|]. split; [repeat split|]. right. split; [|rewrite <- EQ; apply PL'].
      exists p0, m0, p1, m1, rest2. cbn [e_planned e_encodation e_new_mode].
      split; [exact EP|]. split; [reflexivity|]. split; [exact C2|]. split; [lia|]. split; [exact R01|]. split; [exact A01|]. split; [symmetry; exact EQ|].
      left. split; [reflexivity|]. split; [exact EQ|reflexivity].
  - rewrite (proj2 (N.eqb_eq _ _) eq_refl : et_eqb (e_encodation e) (e_encodation e) = true). cbn [negb].
    do 2 eexists. split; [reflexivity|]. split; [repeat split|]. left. split; [reflexivity|]. unfold stay. cbn [e_encodation e_new_mode e_planned].
    split; [reflexivity|]. split; [reflexivity|]. split; [exact (eq_sym EP)|]. rewrite EP. cbn [hd fst]. apply andb_false_iff in C. destruct C as [C|C]; [left; apply N.ltb_ge in C; lia|right; apply N.eqb_neq in C; exact C].
Qed.

Definition first_pos (e : enc) : N := fst (hd (0, Ascii) (e_planned e)).
Definition AL (e : enc) : Prop := aligned (e_data e) (N.to_nat (first_pos e)).
(* a Base256 run is about to start: its length is bounded *)
Definition RB (e : enc) : Prop := first_pos e < chars_left e /\ chars_left e - first_pos e <= 1556 /\ (0 < first_pos e -> chars_left e - first_pos e <= 1555).

Lemma PL_consume e d cwv : PL e -> (exists pre, e_data e = pre ++ d /\ (N.to_nat (first_pos e) <= length d)%nat) ->
  PL (set_cw (set_data e d) cwv).
Proof.
  intros (HD & HL & HP) (pre & ED & LE). unfold PL, chars_left in *. cbn [e_data e_planned set_cw set_data].
  assert (d = sfx (N.of_nat (length d)) /\ (length d <= n)%nat) as [A B].
  { revert HD HL. rewrite ED. clear ED. induction pre as [|x pre IH]; intros HD HL; [split; [exact HD|exact HL]|].
    cbn [app] in HD, HL. apply IH; [|cbn [length] in HL; lia]. exact (PlanAlign.suffix_tl data x (pre ++ d) HD HL). }
  split; [exact A|]. split; [exact B|]. unfold first_pos in LE. destruct (e_planned e) as [|[p0 m0] rest]; [contradiction|]. cbn [hd fst] in LE.
  destruct HP as (_ & RO & LA). split; [lia|]. split; assumption.
Qed.

Definition CM (e : enc) : Prop := snd (hd (0, Ascii) (e_planned e)) = e_encodation e -> first_pos e = 0.

Definition post_ascii (e e' : enc) : Prop :=
  (length (e_data e') <= length (e_data e))%nat /\ e_symbols e' = e_symbols e /\
  ((e_data e' = [] /\ e_encodation e' = Ascii) \/
   (e_encodation e' = Base256 /\ e_data e' <> [] /\ e_new_mode e' = Some 231 /\ PL e' /\ RB e' /\ CM e' /\ ab_plan (e_planned e'))).

Lemma ascii_total : forall fuel e, (length (e_data e) < fuel)%nat -> e_encodation e = Ascii -> ab_plan (e_planned e) -> PL e -> AL e ->
  exists e', ascii_encode fuel e = Ok e' /\ post_ascii e e'.
Proof.
  induction fuel as [|f IH]; intros e HF EA AB HPL HAL; [lia|]. cbn [ascii_encode].
  destruct (msm_total e HPL) as (sw & e1 & MS & (D1 & C1 & I1 & M1 & S1) & CASE). rewrite MS. cbn [bind].
  (* consuming an item from a state that is in ASCII and not at a switch position *)
  assert (forall e1, e_data e1 = e_data e -> e_symbols e1 = e_symbols e -> e_encodation e1 = Ascii -> ab_plan (e_planned e1) -> PL e1 -> AL e1 ->
            (chars_left e1 = 0 \/ chars_left e1 <> first_pos e1) ->
          exists e', (match e_data e1 with
                      | a :: b :: t =>
                        if is_digit a && is_digit b then ascii_encode f (push (set_data e1 t) ((a - 48) * 10 + (b - 48) + 130))
                        else if a <=? 127 then ascii_encode f (push (set_data e1 (b :: t)) (a + 1))
                        else ascii_encode f (push (push (set_data e1 (b :: t)) ascii_UPPER_SHIFT) (a - 128 + 1))
                      | [a] =>
                        if a <=? 127 then ascii_encode f (push (set_data e1 []) (a + 1))
                        else ascii_encode f (push (push (set_data e1 []) ascii_UPPER_SHIFT) (a - 128 + 1))
                      | [] => Ok e1
                      end) = Ok e' /\ post_ascii e e') as ITEM.
  { clear e1 MS D1 C1 I1 M1 S1 CASE. intros e1 D1 S1 EA1 AB1 PL1 AL1 NS. unfold AL in AL1. unfold chars_left in NS.
    assert (forall d cwv, (exists pre, e_data e1 = pre ++ d /\ pre <> []) -> aligned d (N.to_nat (first_pos e1)) ->
              exists e', ascii_encode f (set_cw (set_data e1 d) cwv) = Ok e' /\ post_ascii e e') as REC.
    { intros d cwv (pre & ED & NP) ALd.
      assert (length d < length (e_data e))%nat as LT by (rewrite <- D1, ED, app_length; destruct pre; [contradiction|cbn [length]; lia]).
      destruct (IH (set_cw (set_data e1 d) cwv)) as (e' & E' & (P1 & P2 & P3)).
      - cbn [e_data set_cw set_data]. lia.
      - exact EA1.
      - exact AB1.
      - apply PL_consume; [exact PL1|]. exists pre. split; [exact ED|]. exact (aligned_le _ _ ALd).
      - exact ALd.
      - exists e'. split; [exact E'|]. cbn [e_data e_symbols set_cw set_data] in P1, P2. split; [lia|]. split; [congruence|exact P3]. }
    destruct (e_data e1) as [|a [|b t]] eqn:ED1.
    - exists e1. split; [reflexivity|]. split; [rewrite ED1; cbn [length]; lia|]. split; [exact S1|]. left. split; [exact ED1|exact EA1].
    - assert (aligned [] (N.to_nat (first_pos e1))) as AN.
      { inversion AL1 as [d Hd|? ? ? ? ? ?|a0 t0 p0 C0 A0]; subst; [cbn [length] in *; destruct NS as [NS|NS]; [discriminate|exfalso; apply NS; lia]|exact A0]. }
      destruct (a <=? 127).
      + exact (REC [] (e_cw e1 ++ [a + 1]) ltac:(exists [a]; split; [reflexivity|discriminate]) AN).
      + exact (REC [] ((e_cw e1 ++ [ascii_UPPER_SHIFT]) ++ [a - 128 + 1]) ltac:(exists [a]; split; [reflexivity|discriminate]) AN).
    - destruct (is_digit a && is_digit b) eqn:DG.
      + assert (aligned t (N.to_nat (first_pos e1))) as AN.
        { inversion AL1 as [d Hd|a0 b0 t0 p0 C0 A0|a0 t0 p0 C0 A0]; subst; [cbn [length] in *; destruct NS as [NS|NS]; [discriminate|exfalso; apply NS; lia]|exact A0|].
          rewrite DG in C0. discriminate. }
        exact (REC t (e_cw e1 ++ [(a - 48) * 10 + (b - 48) + 130]) ltac:(exists [a; b]; split; [reflexivity|discriminate]) AN).
      + assert (aligned (b :: t) (N.to_nat (first_pos e1))) as AN.
        { inversion AL1 as [d Hd|a0 b0 t0 p0 C0 A0|a0 t0 p0 C0 A0]; subst; [cbn [length] in *; destruct NS as [NS|NS]; [discriminate|exfalso; apply NS; lia]| |exact A0].
          rewrite DG in C0. discriminate. }
        destruct (a <=? 127).
        * exact (REC (b :: t) (e_cw e1 ++ [a + 1]) ltac:(exists [a]; split; [reflexivity|discriminate]) AN).
        * exact (REC (b :: t) ((e_cw e1 ++ [ascii_UPPER_SHIFT]) ++ [a - 128 + 1]) ltac:(exists [a]; split; [reflexivity|discriminate]) AN). }
  destruct CASE as [(-> & (EN1 & NM1 & EP1 & NS))|((p0 & m0 & p1 & m1 & rest & EP & EP1 & CL & POS & R01 & A01 & EM & SWC) & PL1)].
  - (* no planned position here *)
    apply (ITEM e1 D1 S1); [rewrite EN1; exact EA|rewrite EP1; exact AB| | |].
    + destruct HPL as (HD & HL & HP). split; [rewrite D1; unfold chars_left; rewrite D1; exact HD|]. split; [rewrite D1; exact HL|]. rewrite EP1. unfold chars_left. rewrite D1. exact HP.
    + unfold AL, first_pos. rewrite D1, EP1. exact HAL.
    + unfold chars_left, first_pos. rewrite D1, EP1. exact NS.
  - assert (ab_plan (e_planned e1)) as AB1 by (rewrite EP in AB; rewrite EP1; inversion AB; assumption).
    assert (ab_mode m0) as ABM by (rewrite EP in AB; inversion AB; assumption).
    destruct R01 as (R1 & R2 & R3 & R4 & R5).
    destruct SWC as [(-> & EQ & NM1)|(-> & NE & NM1)].
    + (* the planned mode is ASCII again: go on with the next planned position *)
      apply (ITEM e1 D1 S1); [rewrite EM, EQ; exact EA|exact AB1|exact PL1| |].
      * unfold AL, first_pos. rewrite EP1. cbn [hd fst]. rewrite D1. destruct HPL as (HD & _). rewrite HD, CL. apply R3. rewrite EQ. exact EA.
      * right. unfold chars_left, first_pos. rewrite D1, EP1. cbn [hd fst]. unfold chars_left in CL. rewrite CL. lia.
    + (* switch to Base256 *)
      destruct ABM as [A|B]; [exfalso; apply NE; rewrite A; symmetry; exact EA|]. rewrite B in *.
      exists e1. split; [reflexivity|]. split; [rewrite D1; lia|]. split; [exact S1|]. right. split; [exact EM|].
      split; [rewrite D1; unfold chars_left in CL; destruct (e_data e); [cbn in CL; lia|discriminate]|]. split; [rewrite NM1; reflexivity|]. split; [exact PL1|].
      split; [unfold RB, first_pos, chars_left; rewrite D1, EP1; cbn [hd fst]; unfold chars_left in CL; rewrite CL; destruct (R4 eq_refl) as [B1 B2]; split; [lia|split; [exact B1|exact B2]]|].
      split; [|exact AB1]. unfold CM, first_pos. rewrite EP1, EM. cbn [hd fst snd]. intros EQ. apply A01. symmetry. exact EQ.
Qed.

Lemma capacity_max s : num_data_codewords s <= 1558.
Proof. destruct s; vm_compute; discriminate. Qed.

Lemma wl_total e pre d : e_cw e = pre ++ 0 :: d -> d <> [] -> (1 <= length pre)%nat ->
  (N.of_nat (length d) <= 1555 \/ (N.of_nat (length d) = 1556 /\ has_more e = false)) ->
  no_panic (b256_write_length e (length pre)).
Proof.
  intros EC ND LP BD. unfold b256_write_length, ssl, symbol_size_left.
  destruct (symbol_for e 0) as [s|] eqn:SF; cbn [bind]; [|exact I].
  rewrite N.add_0_r. rewrite EC. rewrite app_length. cbn [length].
  destruct (Nat.ltb_spec (length pre + S (length d)) (length pre)); [lia|].
  replace (length pre + S (length d) - length pre)%nat with (S (length d)) by lia.
  assert (cw_len e = N.of_nat (length pre) + N.of_nat (length d) + 1) as CL by (unfold cw_len; rewrite EC, app_length; cbn [length]; lia).
  set (k := N.of_nat (length d)) in *.
  assert (1 <= k) as N1 by (unfold k; destruct d; [congruence|cbn [length]; lia]).
  destruct (has_more e || (0 <? num_data_codewords s - cw_len e)) eqn:EXPL.
  - cbn [Nat.eqb]. replace (S (length d) - 1)%nat with (length d) by lia. fold k.
    destruct (N.leb_spec k 249) as [S1|S1].
    + rewrite set_nth_app. cbn [bind].
      rewrite (finish_write_gen e pre (k :: d)); [exact I|reflexivity|reflexivity|reflexivity].
    + destruct (N.leb_spec k 1555) as [S2|S2].
      * rewrite set_nth_app. cbn [bind]. rewrite app_length. cbn [length].
        destruct (Nat.ltb_spec (length pre + S (length d)) (length pre + 1)); [lia|]. cbn [bind].
        assert (firstn (length pre + 1) (pre ++ k / 250 + 249 :: d) ++ [k mod 250] ++ skipn (length pre + 1) (pre ++ k / 250 + 249 :: d)
                = pre ++ k / 250 + 249 :: k mod 250 :: d) as ->.
        { rewrite firstn_app, firstn_all2 by lia. replace (length pre + 1 - length pre)%nat with 1%nat by lia. cbn [firstn].
          rewrite skipn_app, skipn_all2 by lia. replace (length pre + 1 - length pre)%nat with 1%nat by lia. cbn [skipn app].
          rewrite <- app_assoc. reflexivity. }
        rewrite (finish_write_gen e pre (k / 250 + 249 :: k mod 250 :: d)); [exact I|reflexivity|reflexivity|reflexivity].
      * exfalso. destruct BD as [BD|[BD HM]]; [lia|]. rewrite HM in EXPL. cbn [orb] in EXPL. apply N.ltb_lt in EXPL.
        pose proof (capacity_max s). lia.
  - cbn [bind]. rewrite (finish_write_gen e pre (0 :: d)); [exact I|reflexivity|reflexivity|reflexivity].
Qed.

(* ---- a Base256 run ---- *)
Definition BI (pre : list N) (e : enc) : Prop :=
  e_encodation e = Base256 /\ ab_plan (e_planned e) /\ PL e /\ CM e /\ first_pos e < chars_left e /\
  exists run, e_cw e = pre ++ 0 :: run /\
    chars_left e + N.of_nat (length run) - first_pos e <= 1556 /\
    (0 < first_pos e -> chars_left e + N.of_nat (length run) - first_pos e <= 1555).

Definition post_b256 (pre : list N) (e e' : enc) : Prop :=
  e_symbols e' = e_symbols e /\ (length (e_data e') < length (e_data e))%nat /\ (length pre + 2 <= length (e_cw e'))%nat /\ e_encodation e' = Ascii /\
  (e_data e' = [] \/ (e_data e' <> [] /\ e_new_mode e' = e_new_mode e /\ PL e' /\ AL e' /\ ab_plan (e_planned e'))).

Lemma wl_result e pre d e2 : e_cw e = pre ++ 0 :: d -> d <> [] -> b256_write_length e (length pre) = Ok e2 ->
  e2 = set_cw e (e_cw e2) /\ (length pre + 2 <= length (e_cw e2))%nat.
Proof.
  intros EC ND WL. destruct (write_length_gen e pre d e2 EC ND WL) as (s & _ & E2 & CASES). split; [exact E2|].
  assert (1 <= length d)%nat by (destruct d; [congruence|cbn [length]; lia]).
  destruct CASES as [(_ & _ & C)|(_ & _ & C)]; rewrite C, app_length, rand255_run_length; [rewrite app_length; unfold len_field; destruct (_ <? _)|]; cbn [length]; lia.
Qed.

Lemma b256_total pre : (1 <= length pre)%nat -> forall fuel e, (length (e_data e) < fuel)%nat -> BI pre e ->
  match b256_loop fuel e (length pre) with
  | Panic _ => False
  | Err _ => True
  | Ok e' => post_b256 pre e e'
  end.
Proof.
  intros LP. induction fuel as [|f IH]; intros e HF (EB & AB & HPL & HCM & LT & run & EC & B1 & B2); [lia|]. cbn [b256_loop].
  destruct (e_data e) as [|ch t] eqn:ED; [unfold chars_left in LT; rewrite ED in LT; cbn [length] in LT; lia|]. unfold eat. rewrite ED.
  set (e1 := push (set_data e t) ch).
  assert (e_cw e1 = pre ++ 0 :: (run ++ [ch])) as EC1 by (unfold e1; cbn [e_cw push set_cw set_data]; rewrite EC, <- app_assoc; reflexivity).
  assert (run ++ [ch] <> []) as NR by (destruct run; discriminate).
  assert (chars_left e = N.of_nat (length t) + 1) as CLE by (unfold chars_left; rewrite ED; cbn [length]; lia).
  assert (PL e1) as PL1.
  { apply PL_consume; [exact HPL|]. exists [ch]. split; [rewrite ED; reflexivity|]. lia. }
  assert (first_pos e1 = first_pos e /\ chars_left e1 = N.of_nat (length t) /\ e_planned e1 = e_planned e /\ e_encodation e1 = Base256 /\ e_symbols e1 = e_symbols e /\ e_new_mode e1 = e_new_mode e /\ e_data e1 = t) as (FP1 & CL1 & EP1 & EB1 & ES1 & NM1 & ED1)
    by (unfold first_pos, chars_left, e1; cbn [e_planned e_data e_encodation e_symbols e_new_mode push set_cw set_data]; repeat split; exact EB).
  assert (N.of_nat (length (run ++ [ch])) = N.of_nat (length run) + 1) as LR by (rewrite app_length; cbn [length]; lia).
  (* finishing the run at e2 (data and codewords of e1, possibly another plan / mode) *)
  assert (forall e2, e_cw e2 = e_cw e1 -> e_data e2 = t -> e_symbols e2 = e_symbols e ->
            (N.of_nat (length (run ++ [ch])) <= 1555 \/ (N.of_nat (length (run ++ [ch])) = 1556 /\ has_more e2 = false)) ->
            (e_data e2 = [] \/ (e_encodation e2 = Ascii /\ e_new_mode e2 = e_new_mode e /\ PL e2 /\ AL e2 /\ ab_plan (e_planned e2))) ->
            match (let* e3 := b256_write_length e2 (length pre) in Ok (if negb (has_more e3) then set_ascii_until_end e3 else e3)) with
            | Panic _ => False | Err _ => True | Ok e' => post_b256 pre e e' end) as FIN.
  { intros e2 C2 D2 S2 BD REST. pose proof (wl_total e2 pre (run ++ [ch]) ltac:(rewrite C2; exact EC1) NR LP BD) as NP.
    destruct (b256_write_length e2 (length pre)) as [e3| |] eqn:WL; cbn [bind]; [|exact I|contradiction].
    destruct (wl_result e2 pre (run ++ [ch]) e3 ltac:(rewrite C2; exact EC1) NR WL) as [E3 L3].
    assert (e_data e3 = t /\ e_symbols e3 = e_symbols e) as [D3 S3] by (rewrite E3; cbn [e_data e_symbols set_cw]; split; assumption).
    unfold post_b256. destruct (has_more e3) eqn:HM3; cbn [negb].
    - assert (t <> []) as NT by (unfold has_more in HM3; rewrite D3 in HM3; destruct t; [discriminate|discriminate]).
      split; [exact S3|]. split; [rewrite D3, ED; cbn [length]; lia|]. split; [exact L3|].
      destruct REST as [RE|(R1 & R2 & R3 & R4 & R5)]; [rewrite D2 in RE; contradiction|].
      split; [rewrite E3; exact R1|]. right. split; [rewrite D3; exact NT|]. rewrite E3. cbn [e_new_mode e_planned set_cw]. split; [exact R2|].
      split; [destruct R3 as (X1 & X2 & X3); split; [exact X1|split; [exact X2|exact X3]]|]. split; [exact R4|exact R5].
    - cbn [e_symbols e_data e_cw e_encodation set_ascii_until_end]. split; [exact S3|]. split; [rewrite D3, ED; cbn [length]; lia|]. split; [exact L3|]. split; [reflexivity|].
      left. unfold has_more in HM3. destruct (e_data e3); [reflexivity|discriminate]. }
  destruct t as [|c2 t2] eqn:ET.
  - (* the data ends here *)
    unfold has_more at 1. cbn [e_data e1 push set_cw set_data negb].
    apply (FIN e1 eq_refl ED1 ES1); [|left; exact ED1].
    assert (first_pos e = 0) as FZ by (cbn [length] in CLE; lia). rewrite FZ in B1. rewrite LR.
    destruct (N.le_gt_cases (N.of_nat (length run) + 1) 1555); [left; lia|]. right. split; [lia|]. unfold has_more. rewrite ED1. reflexivity.
  - unfold has_more at 1. cbn [e_data e1 push set_cw set_data negb]. fold e1.
    destruct (msm_total e1 PL1) as (sw & e2 & MS & (D2 & C2 & I2 & M2 & S2) & CASE). rewrite MS. cbn [bind].
    destruct CASE as [(-> & (EN2 & NM2 & EP2 & NS))|((p0 & m0 & p1 & m1 & rest & EP & EP2 & CL & POS & R01 & A01 & EM & SWC) & PL2)].
    + (* no switch: go on *)
      assert (match b256_loop f e2 (length pre) with Panic _ => False | Err _ => True | Ok e' => post_b256 pre e2 e' end) as R.
      2:{ destruct (b256_loop f e2 (length pre)) as [e'| |]; [|exact I|contradiction]. destruct R as (Q1 & Q2 & Q3 & Q4 & Q5).
          split; [rewrite Q1, S2; exact ES1|]. split; [rewrite D2, ED1 in Q2; rewrite ED; cbn [length] in *; lia|]. split; [exact Q3|]. split; [exact Q4|].
          destruct Q5 as [Q5|(Q5 & Q6 & Q7)]; [left; exact Q5|right; split; [exact Q5|split; [rewrite Q6, NM2; exact NM1|exact Q7]]]. }
      apply IH.
      * rewrite D2, ED1. cbn [length] in *. lia.
      * split; [rewrite EN2; exact EB1|]. split; [rewrite EP2, EP1; exact AB|].
        assert (PL e2) as PLs.
        { destruct PL1 as (X1 & X2 & X3). unfold PL, chars_left. rewrite D2, EP2. split; [exact X1|]. split; [exact X2|exact X3]. }
        split; [exact PLs|]. split; [unfold CM, first_pos; rewrite EP2, EP1, EN2, EB1; rewrite <- EB; exact HCM|].
        assert (first_pos e2 = first_pos e /\ chars_left e2 = N.of_nat (length (c2 :: t2))) as [FP2 CL2] by (unfold first_pos, chars_left; rewrite EP2, EP1, D2, ED1; split; reflexivity).
        split; [rewrite FP2, CL2; unfold chars_left, first_pos in NS; rewrite ED1, EP1 in NS; destruct NS as [NS|NS]; [cbn [length] in NS; lia|];
                destruct PL1 as (_ & _ & X3); rewrite EP1 in X3; unfold first_pos; destruct (e_planned e) as [|[q mq] rq]; [contradiction|]; cbn [hd fst] in *;
                destruct X3 as (X3 & _); unfold chars_left in X3; rewrite ED1 in X3; lia|].
        exists (run ++ [ch]). split; [rewrite C2; exact EC1|]. rewrite FP2, CL2, LR. cbn [length] in *. split; [lia|intros P; specialize (B2 P); lia].
    + (* a planned switch: by CM it leaves Base256 *)
      assert (m0 <> Base256) as NB.
      { intros ->. unfold CM, first_pos in HCM. rewrite EP1 in EP. rewrite EP in HCM. cbn [hd fst snd] in HCM. rewrite EB in HCM. specialize (HCM eq_refl). lia. }
      assert (ab_mode m0) as ABM by (rewrite EP1 in EP; rewrite EP in AB; inversion AB; assumption).
      destruct ABM as [MA|MB]; [|contradiction]. rewrite MA in *.
      destruct SWC as [(-> & EQ & _)|(-> & NE & NM2)]; [rewrite EB1 in EQ; discriminate|].
      destruct R01 as (R1 & R2 & R3 & R4 & R5).
      apply (FIN e2 C2 D2 S2).
      * left. rewrite LR. rewrite CL1 in CL. rewrite EP1 in EP. unfold first_pos in B2. rewrite EP in B2. cbn [hd fst] in B2. specialize (B2 POS). cbn [length] in *. lia.
      * right. split; [exact EM|]. split; [rewrite NM2; cbn [et_latch_from_ascii]; exact NM1|]. split; [exact PL2|].
        split; [|rewrite EP2; rewrite EP1 in EP; rewrite EP in AB; inversion AB; assumption].
        unfold AL, first_pos. rewrite EP2. cbn [hd fst]. rewrite D2. destruct PL1 as (X1 & _). rewrite X1, CL. exact (R3 eq_refl).
Qed.

(* ---- the main loop ---- *)
Definition MI (e : enc) (nwr : N) : Prop :=
  e_data e = [] \/
  (e_encodation e = Ascii /\ e_new_mode e = None /\ PL e /\ AL e /\ ab_plan (e_planned e) /\ nwr = 0) \/
  (e_encodation e = Base256 /\ e_new_mode e = Some 231 /\ PL e /\ RB e /\ CM e /\ ab_plan (e_planned e) /\ nwr <= 1).

Definition mu (e : enc) : nat := (2 * length (e_data e) + (match e_encodation e with Ascii => 1 | _ => 0 end))%nat.

Lemma cw_grows e e' : mode_encode e = Ok e' -> (length (e_cw e) <= length (e_cw e'))%nat.
Proof.
  intros H. pose proof (mode_encode_post e) as P. rewrite H in P. cbn [post] in P. destruct P as (_ & _ & s & ->). rewrite app_length. lia.
Qed.

Lemma main_loop_total : forall fuel e nwr, (mu e < fuel)%nat -> MI e nwr -> no_panic (main_loop fuel e nwr).
Proof.
  induction fuel as [|f IH]; intros e nwr HF HM; [lia|]. cbn [main_loop].
  destruct (has_more e) eqn:HMo; cbn [negb]; [|exact I].
  assert (e_data e <> []) as ND by (unfold has_more in HMo; destruct (e_data e); [discriminate|discriminate]).
  assert (1 <= length (e_data e))%nat as L1 by (destruct (e_data e); [contradiction|cbn [length]; lia]).
  destruct HM as [HM|[(EA & NM & HPL & HAL & AB & NW)|(EB & NM & HPL & HRB & HCM & AB & NW)]]; [contradiction| |].
  - (* an ASCII run *)
    rewrite NM. unfold mode_encode. rewrite EA.
    destruct (ascii_total (S (S (length (e_data e)))) e ltac:(lia) EA AB HPL HAL) as (e' & AE & (P1 & P2 & P3)).
    rewrite AE. cbn [bind].
    assert (length (e_cw e) <= length (e_cw e'))%nat as GR by (apply cw_grows; unfold mode_encode; rewrite EA; exact AE).
    destruct (Nat.ltb_spec (length (e_cw e')) (length (e_cw e))); [lia|].
    assert (forall k, k <= 1 -> no_panic (main_loop f e' k)) as NEXT.
    { intros k Hk. apply IH.
      - unfold mu in *. rewrite EA in HF. destruct P3 as [(D0 & E0)|(E0 & _)]; [rewrite D0, E0; cbn [length]; lia|rewrite E0; lia].
      - destruct P3 as [(D0 & _)|(E0 & D0 & N0 & Q1 & Q2 & Q3 & Q4)]; [left; exact D0|]. right. right. split; [exact E0|]. split; [exact N0|]. split; [exact Q1|]. split; [exact Q2|]. split; [exact Q3|]. split; [exact Q4|exact Hk]. }
    destruct (length (e_cw e') - length (e_cw e) <=? 1)%nat.
    + subst nwr. change (5 <? 0 + 1) with false. cbv iota. apply NEXT. lia.
    + apply NEXT. lia.
  - (* a Base256 run *)
    rewrite NM. set (e0 := push (mkenc (e_data e) (e_input e) (e_encodation e) (e_planned e) None (e_cw e) (e_modes e) (e_symbols e)) 231).
    unfold mode_encode. cbn [e_encodation e0 push set_cw]. rewrite EB. unfold base256_encode.
    set (pre := e_cw e0).
    assert (1 <= length pre)%nat as LP by (unfold pre, e0; cbn [e_cw push set_cw]; rewrite app_length; cbn [length]; lia).
    assert (BI pre (push e0 0)) as HBI.
    { destruct HRB as (R0 & R1 & R2).
      assert (first_pos (push e0 0) = first_pos e /\ chars_left (push e0 0) = chars_left e) as [FP CL] by (split; reflexivity).
      split; [exact EB|]. split; [exact AB|]. split; [exact HPL|]. split; [exact HCM|]. split; [rewrite FP, CL; exact R0|].
      exists []. split; [reflexivity|]. rewrite FP, CL. cbn [length]. split; [lia|intros P; specialize (R2 P); lia]. }
    pose proof (b256_total pre LP (S (S (length (e_data e0)))) (push e0 0) ltac:(cbn [e_data e0 push set_cw]; lia) HBI) as BT.
    change (e_data (push e0 0)) with (e_data e) in *. change (e_data e0) with (e_data e) in *.
    destruct (b256_loop (S (S (length (e_data e)))) (push e0 0) (length pre)) as [e'| |] eqn:BL; cbn [bind]; [|exact I|contradiction].
    destruct BT as (Q1 & Q2 & Q3 & Q4 & Q5). fold pre. cbn [e_data e_new_mode e0 push set_cw] in Q2, Q5.
    destruct (Nat.ltb_spec (length (e_cw e')) (length pre)); [lia|].
    destruct (Nat.leb_spec (length (e_cw e') - length pre) 1); [lia|].
    apply IH.
    + unfold mu in *. rewrite EB in HF. rewrite Q4. lia.
    + destruct Q5 as [Q5|(Q5 & Q6 & Q7 & Q8 & Q9)]; [left; exact Q5|]. right. left. split; [exact Q4|]. split; [rewrite Q6; reflexivity|]. split; [exact Q7|]. split; [exact Q8|]. split; [exact Q9|reflexivity].
Qed.
End T.

(* ---- the entry points, every mode set within {ASCII, Base256} ---- *)
Lemma codewords_ab_total sorter e :
  (forall sl k l, exists l', sorter sl k l = Ok l' /\ incl l' l) ->
  (forall m, enabled (e_modes e) m = true -> ab_mode m) -> e_encodation e = Ascii -> e_new_mode e = None ->
  no_panic (codewords (optimize_fn sorter) e).
Proof.
  intros HS HM EA NM. unfold codewords. destruct (e_symbols e) as [|s0 sr] eqn:ES; [exact I|]. rewrite <- ES.
  set (symbols := e_symbols e). set (data := e_data e). set (modes := e_modes e).
  assert (forall k l l', sorter symbols k l = Ok l' -> incl l' l) as HI.
  { intros k l l' E. destruct (HS symbols k l) as (l2 & E2 & I2). rewrite E in E2. inversion E2; subst. exact I2. }
  destruct (_ <? _); [exact I|]. destruct (upper_limit_for_number_of_codewords _ _); [|exact I].
  unfold optimize_fn.
  destruct (optimize_total symbols (sorter symbols) (HS symbols) data (cw_len e) Ascii modes) as [[r st] EO]. rewrite EO. cbn [bind lift].
  destruct r as [p|]; [|exact I]. rewrite EA, NM.
  set (e0 := mkenc data (e_input e) Ascii p None (e_cw e) modes symbols).
  assert (no_panic (main_loop (6 * length (e_data e0) + 12) e0 0)) as NP.
  { apply (main_loop_total data); [unfold mu; cbn [e_data e_encodation e0]; lia|].
    assert (data = [] \/ data <> []) as [ED|ND] by (destruct data; [left; reflexivity|right; discriminate]); [left; exact ED|].
    destruct (optimize_align symbols data (sorter symbols) (HS symbols) (cw_len e) Ascii modes p st ND EO) as (NE & (RO & AO) & FIRST).
    destruct (optimize_shape symbols (sorter symbols) HI data (cw_len e) Ascii modes p st EO) as (_ & MO & LA).
    right. left. split; [reflexivity|]. split; [reflexivity|]. destruct p as [|[p0 m0] rest]; [contradiction|]. destruct FIRST as [F1 F2].
    split; [|split; [exact F2|split; [|reflexivity]]].
    - split; [cbn [e_data e0]; unfold chars_left; cbn [e_data]; symmetry; apply PlanAlign.suffix_n|]. split; [cbn [e_data e0]; lia|].
      cbn [e_planned e0]. split; [unfold chars_left; cbn [e_data]; exact F1|]. split; [split; assumption|exact (LA ltac:(discriminate))].
    - unfold ab_plan. apply Forall_forall. intros x Hx. unfold modes_ok in MO. rewrite Forall_forall in MO. apply HM. exact (MO x Hx). }
  change (e_data e0) with data in *.
  destruct (main_loop (6 * length data + 12) e0 0) as [e3| |]; cbn [bind]; [|exact I|contradiction].
  destruct (symbol_for e3 0) as [s'|] eqn:SF; [|exact I].
  destruct (add_padding_total e3 s' SF) as (e4 & ->). exact I.
Qed.

Lemma use_macro_keeps e e' : use_macro_if_possible e = Ok e' ->
  e_encodation e' = e_encodation e /\ e_new_mode e' = e_new_mode e /\ e_modes e' = e_modes e.
Proof.
  unfold use_macro_if_possible. destruct (_ || _); [intros [= <-]; repeat split|].
  destruct (starts_with (e_data e) MACRO05_HEAD); [|destruct (starts_with (e_data e) MACRO06_HEAD); [|intros [= <-]; repeat split]];
    (destruct (_ || _); [discriminate|]; intros [= <-]; repeat split).
Qed.

(* every byte string, symbol list, macro / FNC1 option and ECI number up to 999999 *)
Theorem ab_total sorter data symbols eci modes use_macros fnc1 :
  (forall sl k l, exists l', sorter sl k l = Ok l' /\ incl l' l) ->
  (forall m, enabled modes m = true -> ab_mode m) ->
  match eci with Some c => c <= 999999 | None => True end ->
  no_panic (encode_data_internal (optimize_fn sorter) data symbols eci modes use_macros fnc1).
Proof.
  intros HS HM HE. unfold encode_data_internal. cbv zeta.
  set (e := with_size data symbols modes fnc1).
  assert (forall e1, e_encodation e1 = Ascii -> e_new_mode e1 = None -> e_modes e1 = modes ->
            no_panic (let* e2 := match eci with Some c => enc_write_eci e1 c | None => Ok e1 end in codewords (optimize_fn sorter) e2)) as STEP.
  { intros e1 A1 A2 A3. destruct eci as [c|]; cbn [bind].
    - destruct (enc_write_eci_total e1 c HE) as (e2 & E2). rewrite E2. cbn [bind]. unfold enc_write_eci in E2. destruct (write_eci c); try discriminate.
      inversion E2; subst e2. apply codewords_ab_total; [exact HS|cbn [e_modes set_cw]; rewrite A3; exact HM|exact A1|exact A2].
    - apply codewords_ab_total; [exact HS|rewrite A3; exact HM|exact A1|exact A2]. }
  destruct use_macros.
  - destruct (use_macro_spec e) as (e1 & UM & _). rewrite UM. cbn [bind]. destruct (use_macro_keeps e e1 UM) as (K1 & K2 & K3).
    apply STEP; [rewrite K1; reflexivity|rewrite K2; reflexivity|rewrite K3; reflexivity].
  - cbn [bind]. apply STEP; reflexivity.
Qed.
Print Assumptions ab_total.
