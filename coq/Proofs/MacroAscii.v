(* Proofs/MacroAscii.v -- property C16, the lossless part as a theorem for the ASCII-only configuration: a message in
   the Macro 05/06 envelope is encoded as the macro codeword followed by a legal ASCII script for the body, and the
   decoder returns the whole message.  Generalises Proofs/PlanAscii.v and Proofs/EncAscii.v to a non-empty header. *)
From Coq Require Import Arith NArith List Bool Lia.
From DM Require Import Generated.Symbols Generated.ModeTables Model.Outcome Model.SymbolList Model.Planner Model.PlannerRun Model.Eci Model.Enc
  Model.Dec Model.Api Spec.Stream16022 Proofs.SymbolListProofs Proofs.PlanShape Proofs.EncLocal Proofs.EncTop Proofs.EncAscii Proofs.PlanAscii Proofs.EncB256
  Proofs.DecStream Proofs.DecStreamC40 Proofs.DecStreamEdi Proofs.DecScript.
Import ListNotations.
Local Open Scope N_scope.

Section S.
Variable sl : list SymbolSize.
Variable sorter : nat -> list generic_plan -> PR (list generic_plan).
Hypothesis sorter_incl : forall k l l', sorter k l = Ok l' -> incl l' l.

Lemma opt_loop_ascii_w fuel : forall it n w plans new_plan st res st',
  opt_loop sl sorter fuel it n w 1 plans new_plan st = Ok (Some res, st') ->
  Forall (ascii_inv n) plans -> Forall (ascii_inv n) new_plan ->
  res = if (w =? 0) then [(0, Ascii)] else [(n, Ascii); (0, Ascii)].
Proof.
  induction fuel as [|f IH]; intros it n w plans new_plan st res st' H HP HN; cbn [opt_loop] in H; [discriminate|].
  destruct (n <? N.of_nat it); [discriminate|].
  destruct (step_all sl plans (n - N.of_nat it) _ 1 new_plan _ (st_steps st)) as [[[np ae] steps]| |] eqn:SA; cbn [bind] in H; try discriminate.
  assert (Forall (ascii_inv n) np) as I1 by (eapply step_all_ascii; eassumption).
  destruct (sorter it np) as [sorted| |] eqn:SO; cbn [bind] in H; try discriminate.
  destruct (remove_hopeless_cases sl sorted) as [np2| |] eqn:RH; cbn [bind] in H; try discriminate.
  assert (Forall (ascii_inv n) np2) as I2.
  { apply Forall_forall. intros g Hg. rewrite Forall_forall in I1. apply I1. eapply sorter_incl; [exact SO|]. eapply remove_hopeless_incl; eassumption. }
  destruct np2 as [|p0 rest]; [discriminate|]. destruct ae.
  - match type of H with (let* keyed := ?X in _) = _ => destruct X as [keyed| |] eqn:EK end; cbn [bind] in H; try discriminate.
    destruct keyed as [|[p k] r]; [discriminate|].
    destruct (gp_cost sl (min_by p k r)) as [c| |]; cbn [bind] in H; try discriminate.
    assert (map fst ((p, k) :: r) = p0 :: rest) as MK by (eapply with_keys_fst; exact EK).
    assert (ascii_inv n (min_by p k r)) as [SW [a PA]].
    { rewrite Forall_forall in I2. apply I2. rewrite <- MK. cbn [map fst].
      destruct (min_by_In p k r) as [E|E]; [left; exact (eq_sym E)|right; exact E]. }
    unfold gp_current in H. rewrite SW, PA in H. cbn [app] in H. rewrite N.eqb_refl, andb_true_r in H.
    inversion H as [[H1 H2]]. destruct (w =? 0); reflexivity.
  - apply (IH (S it) n w (p0 :: rest) [] _ res st' H I2). constructor.
Qed.

Theorem ascii_only_plan_w data w res st : optimize sl sorter data w Ascii 1 = Ok (Some res, st) ->
  res = if (w =? 0) then [(0, Ascii)] else [(N.of_nat (length data), Ascii); (0, Ascii)].
Proof.
  unfold optimize. change (enabled 1 Ascii) with true. cbv iota. cbn [bind]. intros H.
  eapply opt_loop_ascii_w; [exact H| |constructor].
  constructor; [|constructor]. split; [reflexivity|eexists; reflexivity].
Qed.
End S.

(* the encoder under the plan [(n, Ascii); (0, Ascii)] with n = the number of characters: the first call of
   maybe_switch_mode consumes the first entry without switching, after which it "stays" *)
Definition stays_from (e : enc) : Prop :=
  e_planned e = [(chars_left e, Ascii); (0, Ascii)] /\ e_encodation e = Ascii /\ e_data e <> [].
Definition drop_first (e : enc) : enc :=
  mkenc (e_data e) (e_input e) (e_encodation e) [(0, Ascii)] (e_new_mode e) (e_cw e) (e_modes e) (e_symbols e).

Lemma maybe_switch_first e : stays_from e -> maybe_switch_mode e = Ok (false, drop_first e).
Proof.
  intros (P & A & ND). unfold maybe_switch_mode. rewrite P, A. rewrite N.leb_refl, N.eqb_refl. cbn [negb].
  replace (0 <? chars_left e) with true by (symmetry; apply N.ltb_lt; unfold chars_left; destruct (e_data e); [congruence|cbn [length]; lia]).
  cbn [andb]. rewrite (proj2 (N.eqb_eq _ _) eq_refl : et_eqb Ascii Ascii = true). cbn [negb].
  unfold drop_first. rewrite A. reflexivity.
Qed.

Lemma ascii_encode_first fuel e : stays_from e -> ascii_encode (S fuel) e = ascii_encode (S fuel) (drop_first e).
Proof.
  intros SF. cbn [ascii_encode]. rewrite (maybe_switch_first e SF).
  assert (stays (drop_first e)) as ST by (destruct SF as (_ & A & _); split; [reflexivity|exact A]).
  rewrite (maybe_switch_stays _ ST). reflexivity.
Qed.

Lemma main_loop_stays_from fuel e : stays_from e -> e_new_mode e = None -> (2 <= fuel)%nat ->
  exists e', main_loop fuel e 0 = Ok e' /\ e_encodation e' = Ascii /\ e_symbols e' = e_symbols e /\ e_data e' = [] /\
    e_cw e' = e_cw e ++ flat_map aitem_cw (greedy (e_data e)).
Proof.
  intros SF NM Hf. destruct fuel as [|[|f]]; try lia. rewrite main_loop_S.
  destruct SF as (P & A & ND). unfold has_more. destruct (e_data e) as [|a t] eqn:ED; [congruence|]. cbn [negb]. rewrite NM. cbv zeta.
  unfold mode_encode. rewrite A. rewrite ascii_encode_first by (split; [exact P|split; [exact A|rewrite ED; discriminate]]).
  assert (stays (drop_first e)) as ST by (split; [reflexivity|exact A]).
  destruct (ascii_encode_stays (S (S (length (e_data e)))) (drop_first e) ST ltac:(cbn [e_data drop_first]; lia)) as (e1 & E1 & (S1 & Y1 & N1 & M1) & D1 & C1).
  rewrite E1. cbn [bind]. cbn [e_cw e_data drop_first] in C1. rewrite C1, app_length.
  destruct (Nat.ltb_spec (length (e_cw e) + length (flat_map aitem_cw (greedy (e_data e)))) (length (e_cw e))); [lia|].
  exists e1. rewrite ED in *. split.
  - destruct (_ <=? 1)%nat; [change (5 <? 0 + 1) with false; cbv iota|]; rewrite main_loop_S; unfold has_more; rewrite D1; reflexivity.
  - split; [apply S1|]. split; [exact Y1|]. split; [exact D1|exact C1].
Qed.

(* one header codeword m, then the data, ASCII only: the stream is m followed by a legal ASCII script and padding *)
Lemma header1_ascii sorter symbols d m cw s :
  (forall k l l', sorter symbols k l = Ok l' -> incl l' l) -> bytes_ok d = true ->
  codewords (optimize_fn sorter) (mkenc d d Ascii [] None [m] 1 symbols) = Ok (cw, s) ->
  exists npad, script_ok [SAscii (greedy d)] npad = true /\ cw = stream_with m [SAscii (greedy d)] npad.
Proof.
  intros HS OK. unfold codewords. cbn [e_symbols].
  destruct symbols as [|s0 sr] eqn:ES; [discriminate|]. rewrite <- ES in *.
  destruct (_ <? _); [discriminate|]. destruct (upper_limit_for_number_of_codewords _ _); [|discriminate].
  cbn [e_data e_modes]. change (cw_len (mkenc d d Ascii [] None [m] 1 symbols)) with 1.
  unfold optimize_fn. destruct (optimize symbols (sorter symbols) d 1 Ascii 1) as [[p st]| |] eqn:EO; cbn [bind lift]; try discriminate.
  destruct p as [p|]; [|discriminate].
  rewrite (ascii_only_plan_w symbols (sorter symbols) HS d 1 p st EO). cbn [N.eqb].
  cbn [e_input e_encodation e_new_mode e_cw].
  set (ep := mkenc d d Ascii [(N.of_nat (length d), Ascii); (0, Ascii)] None [m] 1 symbols).
  assert (exists e3, main_loop (6 * length (e_data ep) + 12) ep 0 = Ok e3 /\ e_encodation e3 = Ascii /\ e_symbols e3 = symbols /\
            e_cw e3 = [m] ++ flat_map aitem_cw (greedy d)) as (e3 & ML & EA & ESy & C3).
  { assert (d = [] \/ d <> []) as [EB|NB] by (destruct d; [left; reflexivity|right; discriminate]).
    - exists ep. unfold ep. rewrite EB. cbn. repeat split.
    - destruct (main_loop_stays_from (6 * length (e_data ep) + 12) ep) as (e3 & A & B & C & D & E); [|reflexivity|lia|].
      + split; [reflexivity|]. split; [reflexivity|exact NB].
      + exists e3. repeat split; assumption. }
  change (e_data ep) with d in ML. rewrite ML. cbn [bind].
  unfold symbol_for. destruct (first_symbol_big_enough_for (e_symbols e3) (cw_len e3 + 0)) as [s'|] eqn:FF; [|discriminate].
  destruct (add_padding e3 s') as [e4| |] eqn:AP; cbn [bind]; try discriminate. intros [= <- <-].
  apply add_padding_spec in AP. destruct AP as (L & C4 & _).
  rewrite EA in C4. rewrite (proj2 (N.eqb_eq _ _) eq_refl : et_eqb Ascii Ascii = true) in C4. rewrite padding_pad in C4.
  destruct (greedy_ok d OK) as [GO _].
  exists (N.to_nat (num_data_codewords s' - cw_len e3)). split.
  - cbn [script_ok segment_ok term_of]. rewrite GO. reflexivity.
  - rewrite C4. unfold stream_with, tailS. cbn [render segment_cw]. cbv zeta. rewrite app_nil_r, C3. cbn [app]. do 2 f_equal.
    unfold cw_len. rewrite C3. cbn [app length]. f_equal. lia.
Qed.

(* the lossless part of C16 for the ASCII-only configuration *)
Theorem macro_ascii_roundtrip sorter data symbols body m head cw s :
  (forall k l l', sorter symbols k l = Ok l' -> incl l' l) -> bytes_ok body = true ->
  (m = MACRO05 /\ head = MACRO05_HEAD) \/ (m = MACRO06 /\ head = MACRO06_HEAD) ->
  data = head ++ body ++ MACRO_TRAIL ->
  encode_data_internal (optimize_fn sorter) data symbols None 1 true false = Ok (cw, s) ->
  (exists npad, script_ok [SAscii (greedy body)] npad = true /\ cw = stream_with m [SAscii (greedy body)] npad) /\
  decode_data cw = Ok data.
Proof.
  intros HS OK HM HD H.
  assert (exists npad, script_ok [SAscii (greedy body)] npad = true /\ cw = stream_with m [SAscii (greedy body)] npad) as (npad & SO & CW).
  2:{ split; [exists npad; auto|]. rewrite CW, (decode_script_macro _ _ m head HM SO). unfold meaning. cbn [flat_map segment_data].
      rewrite app_nil_r. destruct (greedy_ok body OK) as [_ GD]. rewrite GD, HD. reflexivity. }
  revert H. unfold encode_data_internal. cbv zeta.
  set (e0 := with_size data symbols 1 false).
  destruct (use_macro_spec e0) as (e1 & UM & M5 & M6 & _). rewrite UM. cbn [bind].
  assert (e1 = strip_to e0 body m) as ->.
  { destruct HM as [[-> ->]|[-> ->]]; [apply M5|apply M6]; try reflexivity; unfold enveloped; exact HD. }
  apply header1_ascii; assumption.
Qed.

(* GS1: FNC1 start, ASCII only -- 232 first, and the decoder returns the data without it *)
Theorem fnc1_ascii_roundtrip sorter data symbols use_macros cw s :
  (forall k l l', sorter symbols k l = Ok l' -> incl l' l) -> bytes_ok data = true ->
  encode_data_internal (optimize_fn sorter) data symbols None 1 use_macros true = Ok (cw, s) ->
  (exists npad, script_ok [SAscii (greedy data)] npad = true /\ cw = stream_with ascii_FNC1 [SAscii (greedy data)] npad) /\
  decode_data cw = Ok data.
Proof.
  intros HS OK H.
  assert (exists npad, script_ok [SAscii (greedy data)] npad = true /\ cw = stream_with ascii_FNC1 [SAscii (greedy data)] npad) as (npad & SO & CW).
  2:{ split; [exists npad; auto|]. rewrite CW, (decode_script_fnc1 _ _ SO). unfold meaning. cbn [flat_map segment_data].
      rewrite app_nil_r. destruct (greedy_ok data OK) as [_ GD]. exact (f_equal Ok GD). }
  revert H. unfold encode_data_internal. cbv zeta.
  set (um := if use_macros then _ else _).
  assert (um = Ok (with_size data symbols 1 true)) as -> by (unfold um; destruct use_macros; reflexivity).
  cbn [bind]. apply header1_ascii; assumption.
Qed.
