(* Proofs/Certify.v -- soundness of the per-output conformance certificate of Spec/Recognise.v (used by C01/C02/C16):
   if `certify` accepts a stream for some bytes, the stream is the rendering of a legal script of Spec/Stream16022.v
   spelling exactly these bytes, and the model of the crate's decoder returns them (C04). *)
From Coq Require Import Arith NArith List Bool Lia.
From DM Require Import Generated.ModeTables Model.Outcome Model.Dec Spec.Stream16022 Spec.Recognise
  Proofs.DecStream Proofs.DecStreamC40 Proofs.DecStreamEdi Proofs.DecScript.
Import ListNotations.
Local Open Scope N_scope.

Lemma leq_eq l1 : forall l2, leq l1 l2 = true -> l1 = l2.
Proof. induction l1 as [|a r IH]; intros [|b r2] H; cbn in H; try discriminate; [reflexivity|].
  apply andb_true_iff in H. destruct H as [E H]. apply N.eqb_eq in E. subst. f_equal. now apply IH. Qed.

Theorem certify_sound cw data : certify None cw data = true ->
  exists segs npad, script_ok segs npad = true /\ cw = stream segs npad /\ meaning segs = data /\ decode_data cw = Ok data.
Proof.
  unfold certify. destruct (recognise _ 0 cw []) as [[segs npad]|]; [|discriminate].
  rewrite !andb_true_iff. intros [[SO E1] E2]. apply leq_eq in E1. apply leq_eq in E2.
  exists segs, npad. split; [exact SO|]. split; [now symmetry|]. split; [exact E2|].
  rewrite <- E1, (decode_script _ _ SO), E2. reflexivity.
Qed.

Theorem certify_sound_prefix m cw data : certify (Some m) cw data = true ->
  exists segs npad, script_ok segs npad = true /\ cw = stream_with m segs npad /\ meaning segs = data.
Proof.
  unfold certify. destruct cw as [|c t]; [discriminate|]. rewrite andb_true_iff. intros [EM H]. apply N.eqb_eq in EM. subst c.
  destruct (recognise _ 1 t []) as [[segs npad]|]; [|discriminate].
  rewrite !andb_true_iff in H. destruct H as [[SO E1] E2]. apply leq_eq in E1. apply leq_eq in E2.
  exists segs, npad. split; [exact SO|]. split; [|exact E2]. rewrite <- E1. reflexivity.
Qed.

Corollary certify_macro05 cw body : certify (Some 236) cw body = true -> decode_data cw = Ok (MACRO05_HEAD ++ body ++ MACRO_TRAIL).
Proof. intros H. destruct (certify_sound_prefix _ _ _ H) as (segs & npad & SO & -> & <-).
  apply decode_script_macro; [left; split; reflexivity|exact SO]. Qed.
Corollary certify_macro06 cw body : certify (Some 237) cw body = true -> decode_data cw = Ok (MACRO06_HEAD ++ body ++ MACRO_TRAIL).
Proof. intros H. destruct (certify_sound_prefix _ _ _ H) as (segs & npad & SO & -> & <-).
  apply decode_script_macro; [right; split; reflexivity|exact SO]. Qed.
Corollary certify_fnc1 cw data : certify (Some 232) cw data = true -> decode_data cw = Ok data.
Proof. intros H. destruct (certify_sound_prefix _ _ _ H) as (segs & npad & SO & -> & <-). apply decode_script_fnc1. exact SO. Qed.
