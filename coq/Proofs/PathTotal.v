(* Proofs/PathTotal.v -- property C17, totality of the model of Bitmap::path: every node of the outline graph has
   even degree, the inner walk therefore always finds a continuation until it is back at its start (the expect()
   of `follow` is never reached), and every loop removes an edge per iteration, so the loop bounds of the model are
   never reached either. *)
From Coq Require Import ZArith List Bool Lia Arith FMapPositive.
From DM Require Import Model.Outcome Model.Path Spec.EvenOdd Proofs.PathProofs Proofs.PathMicro Proofs.PathGraph Proofs.PathAlgo.
Import ListNotations.
Local Open Scope Z_scope.

(* ---- parity of the degree of a node ---- *)
Definition par (g : graph) (n : P2) : bool :=
  let '(i, j) := n in
  xorb (xorb (edge_in g (true, j, i - 1)) (edge_in g (true, j, i))) (xorb (edge_in g (false, j - 1, i)) (edge_in g (false, j, i))).
Definition incx (n : P2) (k : key) : bool :=
  let '(i, j) := n in
  xorb (xorb (keyeqb (true, j, i - 1) k) (keyeqb (true, j, i) k)) (xorb (keyeqb (false, j - 1, i) k) (keyeqb (false, j, i) k)).

Lemma edge_in_remove_x g p k : 0 <= g_w g -> has_edge g p = true -> edge_in (remove_edge g p) k = xorb (edge_in g k) (keyeqb k (pkey p)).
Proof.
  intros Hw HE. rewrite remove_edge_spec by exact Hw. destruct (keyeqb k (pkey p)) eqn:K.
  - apply keyeqb_eq in K. subst k. rewrite <- has_edge_key, HE. reflexivity.
  - rewrite andb_true_r, xorb_false_r. reflexivity.
Qed.

Lemma par_remove g p n : 0 <= g_w g -> has_edge g p = true -> par (remove_edge g p) n = xorb (par g n) (incx n (pkey p)).
Proof.
  intros Hw HE. destruct n as [i j]. unfold par, incx. rewrite !(edge_in_remove_x g p _ Hw HE).
  destruct (edge_in g (true, j, i - 1)), (edge_in g (true, j, i)), (edge_in g (false, j - 1, i)), (edge_in g (false, j, i)),
    (keyeqb (true, j, i - 1) (pkey p)), (keyeqb (true, j, i) (pkey p)), (keyeqb (false, j - 1, i) (pkey p)), (keyeqb (false, j, i) (pkey p)); reflexivity.
Qed.

Ltac zeqb := repeat match goal with |- context [?a =? ?b] => destruct (Z.eqb_spec a b) end.

Lemma incx_pkey n p : incx n (pkey p) = xorb (p2eqb n (start_node p)) (p2eqb n (end_node p)).
Proof.
  destruct n as [i j]. rewrite pkey_cases. destruct p as [pi pj d].
  destruct d; unfold incx, keyeqb, p2eqb, start_node, pflip, end_node; cbn [p_i p_j p_d dflip fst snd Bool.eqb andb xorb];
    zeqb; cbn [andb xorb]; try reflexivity; lia.
Qed.

Lemma par_at_end g p : par g (end_node p) =
  xorb (xorb (edge_in g (pkey p)) (has_edge g (straight p))) (xorb (has_edge g (pleft p)) (has_edge g (pright p))).
Proof.
  rewrite !has_edge_key, !pkey_cases. destruct p as [i j d].
  destruct d; unfold par, end_node, straight, pleft, pright; cbn [p_i p_j p_d];
    rewrite ?Z.add_simpl_r, ?Z.sub_add;
    repeat match goal with |- context [edge_in g ?k] => let b := fresh "b" in generalize (edge_in g k); intros b end;
    repeat match goal with b : bool |- _ => destruct b end; reflexivity.
Qed.

(* ---- number of remaining edges ---- *)
Definition allkeys (w h : Z) : list key :=
  flat_map (fun idx => [(true, idx mod (w + 1), idx / (w + 1)); (false, idx mod (w + 1), idx / (w + 1))]) (all_idx w h).
Definition ecount (g : graph) : nat := length (filter (edge_in g) (allkeys (g_w g) (g_h g))).

Lemma allkeys_length w h : length (allkeys w h) = (2 * Z.to_nat ((w + 1) * (h + 1)))%nat.
Proof.
  assert (forall L : list Z, length (flat_map (fun idx => [(true, idx mod (w + 1), idx / (w + 1)); (false, idx mod (w + 1), idx / (w + 1))]) L) = (2 * length L)%nat) as G.
  { induction L as [|a L IH]; [reflexivity|]. cbn [flat_map app length]. rewrite IH. lia. }
  unfold allkeys. rewrite G. unfold all_idx. rewrite map_length, seq_length. reflexivity.
Qed.

Lemma allkeys_in g k : 0 <= g_w g -> 0 <= g_h g -> edge_in g k = true -> In k (allkeys (g_w g) (g_h g)).
Proof.
  intros Hw Hh E. destruct (edge_in_cell g k E) as [R _]. destruct k as [[v x] y]. unfold allkeys. apply in_flat_map.
  exists (y * (g_w g + 1) + x). split.
  - unfold all_idx. apply in_map_iff. exists (Z.to_nat (y * (g_w g + 1) + x)). split; [nia|]. apply in_seq. split; [lia|]. cbn [Nat.add]. nia.
  - rewrite Z.add_comm, Z.mod_add, Z.mod_small by lia. rewrite Z.add_comm, Z.div_add_l, Z.div_small by lia. rewrite Z.add_0_r.
    destruct v; [left|right; left]; reflexivity.
Qed.

Lemma filter_lt {A} (f f' : A -> bool) (k0 : A) : (forall k, f' k = true -> f k = true) -> f k0 = true -> f' k0 = false ->
  forall L, In k0 L -> (length (filter f' L) < length (filter f L))%nat.
Proof.
  intros SUB F1 F2. assert (forall L, (length (filter f' L) <= length (filter f L))%nat) as LE.
  { induction L as [|a L IH]; [cbn; lia|]. cbn [filter]. destruct (f' a) eqn:A1; [rewrite (SUB _ A1); cbn [length]; lia|]. destruct (f a); cbn [length]; lia. }
  induction L as [|a L IH]; intros I; [destruct I|]. cbn [filter]. destruct I as [->|I].
  - rewrite F1, F2. cbn [length]. specialize (LE L). lia.
  - specialize (IH I). destruct (f' a) eqn:A1; [rewrite (SUB _ A1); cbn [length]; lia|]. destruct (f a); cbn [length]; lia.
Qed.

Lemma ecount_remove g p : 0 <= g_w g -> 0 <= g_h g -> has_edge g p = true -> (ecount (remove_edge g p) < ecount g)%nat.
Proof.
  intros Hw Hh HE. unfold ecount.
  assert (g_w (remove_edge g p) = g_w g /\ g_h (remove_edge g p) = g_h g) as [-> ->].
  { unfold remove_edge. destruct (has_cell _ _ _); [destruct (p_d p)|]; split; reflexivity. }
  apply (filter_lt _ _ (pkey p)).
  - intros k. rewrite remove_edge_spec by exact Hw. intros H. apply andb_true_iff in H. apply H.
  - rewrite <- has_edge_key. exact HE.
  - rewrite remove_edge_spec by exact Hw. rewrite (proj2 (keyeqb_eq _ _) eq_refl). apply andb_false_r.
  - apply allkeys_in; [exact Hw|exact Hh|rewrite <- has_edge_key; exact HE].
Qed.

Lemma ecount_ext g g' : g_w g' = g_w g -> g_h g' = g_h g -> (forall k, edge_in g' k = edge_in g k) -> ecount g' = ecount g.
Proof. intros E1 E2 EQ. unfold ecount. rewrite E1, E2. f_equal. apply filter_ext. exact EQ. Qed.

Lemma ecount_bound g : (ecount g <= 2 * Z.to_nat ((g_w g + 1) * (g_h g + 1)))%nat.
Proof.
  unfold ecount. rewrite <- allkeys_length. generalize (allkeys (g_w g) (g_h g)). induction l as [|a L IH]; [cbn; lia|].
  cbn [filter]. destruct (edge_in g a); cbn [length]; lia.
Qed.

Lemma follow_some g p : has_edge g (straight p) || has_edge g (pleft p) || has_edge g (pright p) = true -> exists p1 had, follow g p = (Some p1, had).
Proof.
  unfold follow. cbn [filter]. destruct (has_edge g (straight p)), (has_edge g (pleft p)), (has_edge g (pright p)); cbn [orb]; intros H; try discriminate; eauto.
Qed.

(* ---- the outline graph of a bitmap has even degree everywhere ---- *)
Section Even0.
Variables (l : list bool) (w h : Z) (g0 : graph).
Hypothesis Hw : 0 < w.
Hypothesis Hh : 0 <= h.
Hypothesis G0 : bits_to_edge_graph l w h = Ok g0.
Let D := dark (bits_map l) w h.

Lemma dark_false i j : ~ (0 <= i < h /\ 0 <= j < w) -> D i j = false.
Proof. intros N. unfold D. destruct (dark (bits_map l) w h i j) eqn:E; [|reflexivity]. apply dark_range in E. contradiction. Qed.

Lemma has_cell_false g i j : ~ (0 <= i <= g_h g /\ 0 <= j <= g_w g) -> has_cell g i j = false.
Proof.
  intros N. unfold has_cell. destruct (Z.leb_spec 0 i); [|reflexivity]. destruct (Z.leb_spec i (g_h g)); [|reflexivity].
  destruct (Z.leb_spec 0 j); [|reflexivity]. destruct (Z.leb_spec j (g_w g)); [|reflexivity]. lia.
Qed.

Lemma g0_edge_v x y : edge_in g0 (true, x, y) = xorb (D y x) (D y (x - 1)).
Proof.
  destruct (g0_dims l w h g0 G0) as [DW DH]. cbn [edge_in].
  destruct (Z_le_dec 0 y), (Z_le_dec y h), (Z_le_dec 0 x), (Z_le_dec x w);
    try (rewrite (g0_left l w h g0 Hw Hh G0), left_at_xor by lia; reflexivity);
    (unfold gleft; rewrite has_cell_false by (rewrite DW, DH; lia); rewrite !dark_false by lia; reflexivity).
Qed.
Lemma g0_edge_h x y : edge_in g0 (false, x, y) = xorb (D y x) (D (y - 1) x).
Proof.
  destruct (g0_dims l w h g0 G0) as [DW DH]. cbn [edge_in].
  destruct (Z_le_dec 0 y), (Z_le_dec y h), (Z_le_dec 0 x), (Z_le_dec x w);
    try (rewrite (g0_top l w h g0 Hw Hh G0), top_at_xor by lia; reflexivity);
    (unfold gtop; rewrite has_cell_false by (rewrite DW, DH; lia); rewrite !dark_false by lia; reflexivity).
Qed.

Lemma even_g0 n : par g0 n = false.
Proof.
  destruct n as [i j]. unfold par. rewrite !g0_edge_v, !g0_edge_h. replace (i - 1 - 1 + 1) with (i - 1) by lia.
  destruct (D (i - 1) (j - 1)), (D (i - 1) j), (D i (j - 1)), (D i j); reflexivity.
Qed.
End Even0.

(* ---- totality of walk / euler / tours ---- *)
Section Total.
Variables (w h : Z).
Hypothesis Hw : 0 <= w.
Hypothesis Hh : 0 <= h.
Definition DI (g : graph) : Prop := g_w g = w /\ g_h g = h /\ 0 <= g_hint g.
Definition even (g : graph) : Prop := forall n, par g n = false.

Lemma DI_remove g p : DI g -> DI (remove_edge g p).
Proof.
  intros (DW & DH & H0). unfold DI, remove_edge. destruct (has_cell _ _ _); [destruct (p_d p)|]; cbn [g_w g_h g_hint]; repeat split; assumption.
Qed.

Lemma ends_differ p : end_node p <> start_node p.
Proof. destruct p as [i j d]. destruct d; unfold start_node, pflip, end_node; cbn [p_i p_j p_d dflip]; intros [=]; lia. Qed.

Lemma walk_total : forall fuel g p start loop insert alts,
  DI g -> (forall n, par g n = xorb (p2eqb n start) (p2eqb n (end_node p))) -> edge_in g (pkey p) = false ->
  end_node p <> start -> (ecount g < fuel)%nat ->
  exists g' p' loop' insert' alts', walk fuel g p start loop insert alts = Ok (g', p', loop', insert', alts') /\
    DI g' /\ even g' /\ (ecount g' <= ecount g)%nat.
Proof.
  induction fuel as [|f IH]; intros g p start loop insert alts HD PI NP NE HF; [lia|]. destruct HD as (DW & DH & H0).
  assert (has_edge g (straight p) || has_edge g (pleft p) || has_edge g (pright p) = true) as SOME.
  { pose proof (PI (end_node p)) as P. rewrite par_at_end, NP in P. rewrite (proj2 (p2eqb_eq _ _) eq_refl) in P.
    destruct (p2eqb (end_node p) start) eqn:Q; [apply p2eqb_eq in Q; contradiction|].
    destruct (has_edge g (straight p)), (has_edge g (pleft p)), (has_edge g (pright p)); try reflexivity; discriminate. }
  destruct (follow_some g p SOME) as (p1 & had & F). destruct (follow_spec _ _ _ _ F) as [HE NX]. pose proof (next_start _ _ NX) as ST.
  assert (forall n, par (remove_edge g p1) n = xorb (p2eqb n start) (p2eqb n (end_node p1))) as PI1.
  { intros n. rewrite par_remove by (assumption || lia). rewrite incx_pkey, PI, ST.
    destruct (p2eqb n start), (p2eqb n (end_node p)), (p2eqb n (end_node p1)); reflexivity. }
  assert (edge_in (remove_edge g p1) (pkey p1) = false) as NP1.
  { rewrite remove_edge_spec by lia. rewrite (proj2 (keyeqb_eq _ _) eq_refl). apply andb_false_r. }
  pose proof (ecount_remove g p1 ltac:(lia) ltac:(lia) HE) as LT.
  pose proof (DI_remove g p1 (conj DW (conj DH H0))) as HD1.
  cbn [walk]. rewrite F. destruct (end_node p1) as [ei ej] eqn:EN.
  destruct ((ei =? fst start) && (ej =? snd start)) eqn:END.
  - do 5 eexists. split; [reflexivity|]. split; [exact HD1|]. split; [|lia].
    intros n. rewrite PI1. apply andb_true_iff in END. destruct END as [E1 E2]. apply Z.eqb_eq in E1, E2. destruct start as [si sj]. cbn [fst snd] in *. subst.
    destruct (p2eqb n (si, sj)); reflexivity.
  - destruct (IH (remove_edge g p1) p1 start (loop ++ [Step ei ej]) (S insert) (if had then alts ++ [(insert, p)] else alts) HD1) as (g' & p' & l' & i' & a' & W & R1 & R2 & R3).
    + intros n. rewrite PI1, EN. reflexivity.
    + exact NP1.
    + rewrite EN. intros Q. subst start. cbn [fst snd] in END. rewrite !Z.eqb_refl in END. discriminate.
    + lia.
    + exists g', p', l', i', a'. split; [exact W|]. split; [exact R1|]. split; [exact R2|lia].
Qed.

Definition big (efuel : nat) : Prop := (2 * Z.to_nat ((w + 1) * (h + 1)) < efuel)%nat.
Lemma ecount_big g efuel : DI g -> big efuel -> (ecount g < efuel)%nat.
Proof. intros (DW & DH & _) B. pose proof (ecount_bound g) as E. rewrite DW, DH in E. unfold big in B. lia. Qed.

Lemma euler_total : forall fuel efuel g p E insert,
  DI g -> even g -> has_edge g p = true -> (ecount g < fuel)%nat -> big efuel ->
  exists g' p' E' insert', euler fuel efuel g p E insert = Ok (g', p', E', insert') /\ DI g' /\ even g' /\ (ecount g' < ecount g)%nat.
Proof.
  induction fuel as [|f IH]; intros efuel g p E insert HD EV HE HF B; [lia|]. pose proof HD as (DW & DH & H0).
  pose proof (ecount_remove g p ltac:(lia) ltac:(lia) HE) as LT. pose proof (DI_remove g p HD) as HD1.
  cbn [euler]. destruct (end_node p) as [ei ej] eqn:EN.
  destruct (walk_total efuel (remove_edge g p) p (start_node p) [Step ei ej] (S insert) [] HD1) as (g2 & p2 & l2 & i2 & a2 & W & HD2 & EV2 & LE2).
  - intros n. rewrite par_remove by (assumption || lia). rewrite incx_pkey, EV, EN. apply xorb_false_l.
  - rewrite remove_edge_spec by lia. rewrite (proj2 (keyeqb_eq _ _) eq_refl). apply andb_false_r.
  - apply ends_differ.
  - apply ecount_big; assumption.
  - rewrite W. cbn [bind]. destruct (first_alt g2 a2) as [[idx np]|] eqn:FA.
    + destruct (first_alt_spec _ _ _ _ FA) as (pa & _ & CS). destruct (can_step_spec _ _ _ CS) as [HE2 _].
      destruct (IH efuel g2 np (splice E insert l2) idx HD2 EV2 HE2 ltac:(lia) B) as (g' & p' & E' & i' & R & R1 & R2 & R3).
      exists g', p', E', i'. split; [exact R|]. split; [exact R1|]. split; [exact R2|lia].
    + do 4 eexists. split; [reflexivity|]. split; [exact HD2|]. split; [exact EV2|lia].
Qed.

Lemma tours_total : forall fuel efuel g p E insert,
  DI g -> even g -> has_edge g p = true -> (ecount g < fuel)%nat -> big efuel ->
  exists R, tours fuel efuel g p E insert = Ok R.
Proof.
  induction fuel as [|f IH]; intros efuel g p E insert HD EV HE HF B; [lia|].
  cbn [tours]. destruct (euler_total efuel efuel g p E insert HD EV HE (ecount_big g efuel HD B) B) as (g1 & p1 & E1 & i1 & EU & HD1 & EV1 & LT).
  rewrite EU. cbn [bind]. destruct (edge_left g1) as [[np|] g2] eqn:EL; [|eexists; reflexivity].
  destruct HD1 as (DW & DH & H0).
  destruct (edge_left_some g1 np g2 ltac:(lia) ltac:(lia) H0 EL) as (HE2 & SAME & DW2 & DH2 & H02 & _).
  destruct (start_node np) as [si sj]. apply IH.
  - split; [lia|split; [lia|exact H02]].
  - intros [i j]. specialize (EV1 (i, j)). unfold par in *. rewrite !SAME. exact EV1.
  - exact HE2.
  - rewrite (ecount_ext g1 g2 DW2 DH2 SAME). lia.
  - exact B.
Qed.
End Total.

Theorem path_total (l : list bool) (w : Z) :
  let h := Z.of_nat (length l) / w in
  0 < w -> Z.of_nat (length l) mod w = 0 -> w + 1 <= 32767 -> h + 1 <= 32767 ->
  exists segs, path l w = Ok segs.
Proof.
  intros h Hw HM LW LH. assert (0 <= h) as Hh by (apply Z.div_pos; lia).
  unfold path, bitmap_new. destruct (Z.eqb_spec w 0); [lia|]. rewrite HM. cbn [Z.eqb negb bind]. fold h.
  destruct (bits_to_edge_graph l w h) as [g0|e|s] eqn:G0.
  2,3: (unfold bits_to_edge_graph in G0; destruct (Z.ltb_spec 32767 (w + 1)); [lia|]; destruct (Z.ltb_spec 32767 (h + 1)); [lia|]; discriminate).
  cbn [bind]. destruct (g0_dims l w h g0 G0) as [DW DH].
  assert (DI w h g0) as HD.
  { split; [exact DW|split; [exact DH|]]. unfold bits_to_edge_graph in G0. destruct (_ || _); [discriminate|]. inversion G0. cbn [g_hint].
    destruct (first_dark l) as [k|]; [|nia]. pose proof (Z.mod_pos_bound (Z.of_nat k) w Hw). assert (0 <= Z.of_nat k / w) by (apply Z.div_pos; lia). nia. }
  destruct (edge_left g0) as [[p|] g1] eqn:EL; [|eexists; reflexivity].
  destruct HD as (_ & _ & H0).
  destruct (edge_left_some g0 p g1 ltac:(lia) ltac:(lia) H0 EL) as (HE & SAME & DW1 & DH1 & H01 & _).
  destruct (tours_total w h ltac:(lia) Hh (Z.to_nat (2 * (w + 1) * (h + 1) + 2)) (Z.to_nat (2 * (w + 1) * (h + 1) + 2)) g1 p [] 0%nat) as [R T].
  - split; [lia|split; [lia|exact H01]].
  - intros [i j]. pose proof (even_g0 l w h g0 Hw Hh G0 (i, j)) as EV. unfold par in *. rewrite !SAME. exact EV.
  - exact HE.
  - pose proof (ecount_bound g1) as B. rewrite DW1, DH1, DW, DH in B. nia.
  - unfold big. nia.
  - rewrite T. cbn [bind]. eexists. reflexivity.
Qed.
Print Assumptions path_total.
