(* Proofs/DecodeGlue.v -- property C05 for the whole-symbol entry point DataMatrix::decode: the glue around the
   Reed-Solomon decoder cannot panic.  For every pixel array and width, a panic of the model of decode() can only be a
   panic raised inside errorcode::decode_error on the codewords read from an array that parsed as a symbol. *)
From Coq Require Import Arith ZArith NArith List Bool Lia.
From DM Require Import Generated.Symbols Spec.GF256 Model.Outcome Model.SymbolList Model.RSEnc Model.RSDec Model.Placement Model.Render Model.Dec
  Model.Api Proofs.SymbolListProofs Proofs.PlacementProofs Proofs.PlacementValues Proofs.RenderProofs Proofs.RSDecProofs Proofs.DecProofs.
Import ListNotations.

Lemma all_ok_visits (a : arr bool) visits : Forall (inr a) (concat visits) ->
  all_ok (map (fun idxs => all_ok (map (get_z a) idxs)) visits) = Ok (map (map (aval a)) visits).
Proof.
  induction visits as [|v r IH]; intros H; [reflexivity|]. cbn [concat] in H. apply Forall_app in H. destruct H as [Hv Hr].
  cbn [map all_ok]. rewrite all_ok_map_get by exact Hv. cbn [bind]. rewrite IH by exact Hr. reflexivity.
Qed.

Lemma bits_byte_byte l : byte (bits_byte l).
Proof.
  unfold bits_byte. assert (forall acc, byte acc -> byte (fold_left (fun (acc : N) (b : bool) => ((acc * 2) mod 256 + (if b then 1 else 0))%N) l acc)) as H.
  { induction l as [|b r IH]; intros acc Ha; cbn [fold_left]; [exact Ha|]. apply IH. unfold byte in *.
    change 256%N with (128 * 2)%N. rewrite N.mul_mod_distr_r by lia.
    pose proof (N.mod_lt acc 128 ltac:(lia)) as M. destruct b; lia. }
  apply H. unfold byte. lia.
Qed.

Lemma size_area_sweep : forallb (fun s => (Z.of_N (content_height s) * Z.of_N (content_width s) / 8 =? Z.of_N (ntotal s))%Z &&
                                          (0 <=? Z.of_N (content_height s) * Z.of_N (content_width s))%Z) all_variants = true.
Proof. vm_compute. reflexivity. Qed.

(* codewords() on any content of the right size: total, ntotal bytes *)
Theorem codewords_total s e : length e = Z.to_nat (zh s * zw s) ->
  exists cw, codewords (zh s) (zw s) e = Ok cw /\ length cw = N.to_nat (ntotal s) /\ Forall byte cw.
Proof.
  intros L. destruct (placement_bijection s) as (visits & Hrun & Hcnt & H8 & Hrange & _ & _).
  pose proof (sweep _ size_area_sweep s) as A. cbv beta in A. apply andb_true_iff in A. destruct A as [A1 A2].
  apply Z.eqb_eq in A1. apply Z.leb_le in A2. fold (zh s) (zw s) in A1, A2.
  unfold codewords, traverse. rewrite Hrun. cbn [bind].
  rewrite all_ok_visits.
  2:{ eapply Forall_impl; [|exact Hrange]. intros x Hx. unfold inr, arr_of_list. cbn [alen]. rewrite L, Z2Nat.id by exact A2. exact Hx. }
  cbn [bind]. rewrite !map_length.
  assert (length e / 8 = length visits)%nat as LV.
  { rewrite L. change 8%nat with (Z.to_nat 8). rewrite <- Z2Nat.inj_div by lia.
    unfold zh, zw in *. rewrite A1. lia. }
  rewrite LV, Nat.ltb_irrefl, Nat.sub_diag. cbn [repeat]. rewrite app_nil_r.
  eexists. split; [reflexivity|]. split; [rewrite !map_length; lia|].
  apply Forall_forall. intros x Hx. apply in_map_iff in Hx. destruct Hx as (v & <- & _). apply bits_byte_byte.
Qed.

(* DataMatrix::decode: the only possible source of a panic is the error-correction decoder *)
Theorem dm_decode_panic_source pixels width p : dm_decode pixels width = Panic p ->
  exists entries size cw, try_from_bits pixels width = Ok (entries, size) /\
    codewords (zh size) (zw size) entries = Ok cw /\ RSDec.decode cw size = Panic p.
Proof.
  unfold dm_decode. rewrite try_from_bits_fast_eq.
  pose proof (try_from_bits_no_panic pixels width) as NP.
  destruct (try_from_bits pixels width) as [[entries size]| |] eqn:TB; try discriminate; [|contradiction].
  destruct (accepts_only_renderings pixels width entries size TB) as (_ & _ & (WL & _)).
  assert (length entries = Z.to_nat (zh size * zw size)) as L.
  { rewrite WL. unfold zh, zw. lia. }
  destruct (codewords_total size entries L) as (cw & CW & LC & BC). fold (zh size) (zw size). rewrite CW.
  destruct (RSDec.decode cw size) as [cw'| |] eqn:RS; try discriminate.
  - destruct (decode_success_codeword size cw cw' LC BC RS) as (L' & _).
    assert (length cw' <? N.to_nat (num_data_codewords size) = false)%nat as ->.
    { apply Nat.ltb_ge. rewrite L', LC. unfold ntotal. lia. }
    pose proof (decode_data_no_panic (firstn (N.to_nat (num_data_codewords size)) cw')) as DN.
    destruct (decode_data _); try discriminate. contradiction.
  - intros [= <-]. exists entries, size, cw. auto.
Qed.
