(* Proofs/GFTie.v -- the table arithmetic of the crate (Model/GF.v) equals the field of the
   standard (Spec/GF256.v) on all bytes: kernel sweeps over 256 and 256^2 cases. *)
From Coq Require Import NArith List Bool Lia.
From DM Require Import Spec.GF256 Model.GF.
Import ListNotations.
Open Scope N_scope.

Lemma tables_sweep : (length ANTI_LOG = 255%nat) /\ (length LOG = 256%nat) /\
  forallb byteb ANTI_LOG = true /\ forallb (fun x => x <? 255) LOG = true /\ ANTI_LOG = alog_list.
Proof. vm_compute. repeat split. Qed.

Lemma mul_sweep : forallb (fun a => forallb (fun b => GF.mul a b =? gmul a b) bytes) bytes = true.
Proof. vm_compute. reflexivity. Qed.
Lemma mul_spec a b : byte a -> byte b -> GF.mul a b = gmul a b.
Proof. intros Ha Hb. apply N.eqb_eq. exact (sweep2 _ mul_sweep a b Ha Hb). Qed.

Definition opt_eqb (o1 o2 : option N) : bool :=
  match o1, o2 with Some x, Some y => x =? y | None, None => true | _, _ => false end.
Lemma opt_eqb_eq o1 o2 : opt_eqb o1 o2 = true -> o1 = o2.
Proof. destruct o1, o2; cbn; try discriminate; try reflexivity. intros H. apply N.eqb_eq in H. now subst. Qed.

Definition inv_tab : list N := Eval vm_compute in map ginv bytes.
Lemma inv_tab_sweep : forallb (fun b => ginv b =? nth (N.to_nat b) inv_tab 0) bytes = true.
Proof. vm_compute. reflexivity. Qed.
Lemma inv_tab_spec b : byte b -> nth (N.to_nat b) inv_tab 0 = ginv b.
Proof. intros Hb. symmetry. apply N.eqb_eq. exact (sweep1 _ inv_tab_sweep b Hb). Qed.

Lemma div_sweep : forallb (fun a => forallb (fun b =>
   opt_eqb (GF.div a b) (if b =? 0 then None else Some (gmul a (nth (N.to_nat b) inv_tab 0)))) bytes) bytes = true.
Proof. vm_compute. reflexivity. Qed.
Lemma div_spec a b : byte a -> byte b -> GF.div a b = if b =? 0 then None else Some (gdiv a b).
Proof. intros Ha Hb. unfold gdiv. rewrite <- (inv_tab_spec b Hb). apply opt_eqb_eq. exact (sweep2 _ div_sweep a b Ha Hb). Qed.

Lemma add_spec a b : GF.add a b = gadd a b. Proof. reflexivity. Qed.

Lemma toF_add a b : byte a -> byte b -> toF (GF.add a b) = Fadd (toF a) (toF b).
Proof. intros Ha Hb. apply F_eq. rewrite Fval_add, !Fval_toF by auto using lxor_byte. reflexivity. Qed.
Lemma toF_mul a b : byte a -> byte b -> toF (GF.mul a b) = Fmul (toF a) (toF b).
Proof. intros Ha Hb. apply F_eq. rewrite Fval_mul, !Fval_toF, mul_spec by (auto using gmul_byte || (rewrite mul_spec by assumption; auto using gmul_byte)). reflexivity. Qed.
Lemma mul_byte a b : byte a -> byte b -> byte (GF.mul a b).
Proof. intros Ha Hb. rewrite mul_spec by assumption. now apply gmul_byte. Qed.
Lemma add_byte a b : byte a -> byte b -> byte (GF.add a b).
Proof. apply lxor_byte. Qed.

Lemma glog_sweep : forallb (fun a => (a =? 0) || (gpow alpha (N.to_nat (logt a)) =? a) && (logt a <? 255)) bytes = true.
Proof. vm_compute. reflexivity. Qed.
Lemma alog_sweep : forallb (fun i => alog i =? gpow alpha (N.to_nat i)) (map N.of_nat (seq 0 255)) = true.
Proof. vm_compute. reflexivity. Qed.
