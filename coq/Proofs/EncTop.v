(* Proofs/EncTop.v -- the glue of data::encode_data_internal (properties C02, C10, C11, C16): macro
   detection is exact and never panics, the error classification, the symbol returned is the first
   listed symbol the produced stream fits and the stream is padded to exactly its capacity, and the
   first codeword identifies Macro 05/06 and FNC1 exactly. *)
From Coq Require Import Arith NArith List Bool Lia.
From DM Require Import Generated.Symbols Generated.ModeTables Model.Outcome Model.SymbolList Model.Planner Model.Eci Model.Enc
  Spec.Eci Proofs.SymbolListProofs Proofs.EciProofs Proofs.EncLatch Proofs.EncLocal.
Import ListNotations.
Local Open Scope N_scope.

(* ---------- starts_with / ends_with ---------- *)
Lemma starts_with_spec p : forall l, starts_with l p = true <-> exists r, l = p ++ r.
Proof.
  induction p as [|x p IH]; intros l.
  - split; [intros _; exists l; reflexivity|intros _; destruct l; reflexivity].
  - destruct l as [|y l]; cbn [starts_with].
    + split; [discriminate|intros (r & H); discriminate].
    + rewrite andb_true_iff, N.eqb_eq, IH. split.
      * intros (-> & r & ->). exists r. reflexivity.
      * intros (r & H). inversion H; subst. split; [reflexivity|exists r; reflexivity].
Qed.

Lemma ends_with_spec l s : ends_with l s = true <-> exists r, l = r ++ s.
Proof.
  unfold ends_with. rewrite andb_true_iff, Nat.leb_le, starts_with_spec. split.
  - intros (L & r & H). exists (firstn (length l - length s) l).
    assert (length (skipn (length l - length s) l) = length s) as LS by (rewrite skipn_length; lia).
    rewrite H, app_length in LS. assert (r = []) as -> by (destruct r; [reflexivity|cbn in LS; lia]).
    rewrite app_nil_r in H. rewrite <- H at 2. symmetry. apply firstn_skipn.
  - intros (r & ->). rewrite app_length. split; [lia|]. exists [].
    replace (length r + length s - length s)%nat with (length r) by lia.
    rewrite skipn_app, skipn_all, Nat.sub_diag. cbn. now rewrite app_nil_r.
Qed.

(* an envelope: header, any body, trailer *)
Definition enveloped (head : list N) (d body : list N) : Prop := d = head ++ body ++ MACRO_TRAIL.

Lemma head_trail_overlap head d : length head = 7%nat -> nth 6 head 0 = 29 ->
  starts_with d head = true -> ends_with d MACRO_TRAIL = true -> exists body, enveloped head d body.
Proof.
  intros LH N6 S E. apply starts_with_spec in S. destruct S as (r & ->).
  apply ends_with_spec in E. destruct E as (r' & E).
  destruct head as [|h0 [|h1 [|h2 [|h3 [|h4 [|h5 [|h6 [|]]]]]]]]; try discriminate LH. cbn in N6. subst h6.
  assert (2 <= length r)%nat as LR.
  { destruct r as [|x [|y r]]; [| |cbn; lia]; exfalso.
    - do 6 (destruct r' as [|? r']; [discriminate E|]); destruct r' as [|? r']; try discriminate E;
      inversion E. destruct r'; discriminate.
    - do 7 (destruct r' as [|? r']; [discriminate E|]); destruct r' as [|? r']; try discriminate E;
      inversion E. destruct r'; discriminate. }
  exists (firstn (length r - 2) r). unfold enveloped. do 2 f_equal.
  assert (skipn (length r - 2) r = MACRO_TRAIL) as ST.
  { assert (skipn (length ([h0; h1; h2; h3; h4; h5; 29] ++ r) - 2) ([h0; h1; h2; h3; h4; h5; 29] ++ r) = MACRO_TRAIL) as H1.
    { rewrite E, app_length. cbn [length MACRO_TRAIL]. replace (length r' + 2 - 2)%nat with (length r') by lia.
      rewrite skipn_app, skipn_all, Nat.sub_diag. reflexivity. }
    rewrite skipn_app in H1. rewrite app_length in H1. cbn [length] in H1.
    replace (7 + length r - 2 - 7)%nat with (length r - 2)%nat in H1 by lia.
    rewrite skipn_all2 in H1 by (cbn [length]; lia). exact H1. }
  rewrite <- ST. symmetry. apply firstn_skipn.
Qed.

Definition strip_to (e : enc) (body : list N) (cw : N) : enc :=
  mkenc body body (e_encodation e) (e_planned e) (e_new_mode e) (e_cw e ++ [cw]) (e_modes e) (e_symbols e).

Lemma enveloped_strip head e body : length head = 7%nat -> enveloped head (e_data e) body ->
  (length (e_data e) <? length MACRO_TRAIL)%nat || (length (e_data e) - length MACRO_TRAIL <? length head)%nat = false /\
  firstn (length (e_data e) - length MACRO_TRAIL - length head) (skipn (length head) (e_data e)) = body.
Proof.
  intros LH ->. rewrite !app_length, LH. cbn [length MACRO_TRAIL].
  destruct (Nat.ltb_spec (7 + (length body + 2)) 2); [lia|]. destruct (Nat.ltb_spec (7 + (length body + 2) - 2) 7); [lia|].
  split; [reflexivity|]. rewrite <- LH, skipn_app, skipn_all, Nat.sub_diag. cbn [skipn app]. rewrite LH.
  replace (7 + (length body + 2) - 2 - 7)%nat with (length body) by lia.
  rewrite firstn_app, Nat.sub_diag, firstn_all. cbn. apply app_nil_r.
Qed.

Definition macro_case (e : enc) : Prop :=
  e_cw e = [] /\ exists body, enveloped MACRO05_HEAD (e_data e) body \/ enveloped MACRO06_HEAD (e_data e) body.

(* use_macro_if_possible never fails, and compacts exactly the enveloped messages *)
Theorem use_macro_spec e : exists e', use_macro_if_possible e = Ok e' /\
  (forall body, e_cw e = [] -> enveloped MACRO05_HEAD (e_data e) body -> e' = strip_to e body MACRO05) /\
  (forall body, e_cw e = [] -> enveloped MACRO06_HEAD (e_data e) body -> e' = strip_to e body MACRO06) /\
  (~ macro_case e -> e' = e).
Proof.
  unfold use_macro_if_possible, macro_case.
  destruct (e_cw e) as [|c0 cr] eqn:ECW; cbn [negb orb].
  2:{ exists e. split; [reflexivity|]. split; [discriminate|]. split; [discriminate|reflexivity]. }
  destruct (ends_with (e_data e) MACRO_TRAIL) eqn:EW; cbn [negb].
  2:{ exists e. split; [reflexivity|].
      assert (forall head body, ~ enveloped head (e_data e) body) as NE.
      { intros head body H. assert (ends_with (e_data e) MACRO_TRAIL = true) as C; [|congruence].
        apply ends_with_spec. exists (head ++ body). rewrite H, app_assoc. reflexivity. }
      split; [intros body _ H; destruct (NE _ _ H)|]. split; [intros body _ H; destruct (NE _ _ H)|reflexivity]. }
  destruct (starts_with (e_data e) MACRO05_HEAD) eqn:S5.
  - destruct (head_trail_overlap MACRO05_HEAD (e_data e) eq_refl eq_refl S5 EW) as (body & EB).
    destruct (enveloped_strip MACRO05_HEAD e body eq_refl EB) as [G B]. cbv zeta. rewrite G, B.
    exists (strip_to e body MACRO05). unfold strip_to. rewrite ECW. split; [reflexivity|]. split; [|split].
    + intros b' _ EB2. unfold enveloped in *. rewrite EB in EB2. apply app_inv_head in EB2. apply app_inv_tail in EB2. now subst.
    + intros b' _ EB2. exfalso. apply starts_with_spec in S5. destruct S5 as (r & Hr). unfold enveloped in EB2.
      rewrite Hr in EB2. discriminate.
    + intros NM. exfalso. apply NM. split; [reflexivity|]. exists body. now left.
  - destruct (starts_with (e_data e) MACRO06_HEAD) eqn:S6.
    + destruct (head_trail_overlap MACRO06_HEAD (e_data e) eq_refl eq_refl S6 EW) as (body & EB).
      destruct (enveloped_strip MACRO06_HEAD e body eq_refl EB) as [G B]. cbv zeta. rewrite G, B.
      exists (strip_to e body MACRO06). unfold strip_to. rewrite ECW. split; [reflexivity|]. split; [|split].
      * intros b' _ EB2. exfalso. apply starts_with_spec in S6. destruct S6 as (r & Hr). unfold enveloped in EB2.
        rewrite Hr in EB2. discriminate.
      * intros b' _ EB2. unfold enveloped in *. rewrite EB in EB2. apply app_inv_head in EB2. apply app_inv_tail in EB2. now subst.
      * intros NM. exfalso. apply NM. split; [reflexivity|]. exists body. now right.
    + exists e. split; [reflexivity|].
      assert (forall head body, enveloped head (e_data e) body -> starts_with (e_data e) head = true) as SW.
      { intros head body H. apply starts_with_spec. exists (body ++ MACRO_TRAIL). exact H. }
      split; [intros body _ H; apply SW in H; congruence|]. split; [intros body _ H; apply SW in H; congruence|reflexivity].
Qed.

(* ---------- the error classification ---------- *)
Lemma upper_limit_some l n : l <> [] -> upper_limit_for_number_of_codewords l n <> None.
Proof.
  intros NE. unfold upper_limit_for_number_of_codewords. destruct l as [|a [|b r]]; [congruence|discriminate|].
  destruct (find _ _); [discriminate|].
  assert (forall l : list SymbolSize, l <> [] ->
     (fix lst (l : list SymbolSize) : option SymbolSize := match l with [] => None | [x] => Some x | _ :: r => lst r end) l <> None) as H.
  { induction l as [|x [|y l'] IH]; intros NEl; [congruence|discriminate|]. apply IH. discriminate. }
  specialize (H (a :: b :: r) NE). match goal with |- option_map _ ?X <> None => destruct X eqn:EX end; [discriminate|]. exfalso. apply H. reflexivity.
Qed.

Lemma classic_macro e :
  (exists body, enveloped MACRO05_HEAD (e_data e) body \/ enveloped MACRO06_HEAD (e_data e) body) \/
  ~ (exists body, enveloped MACRO05_HEAD (e_data e) body \/ enveloped MACRO06_HEAD (e_data e) body).
Proof.
  destruct (ends_with (e_data e) MACRO_TRAIL) eqn:EW.
  - destruct (starts_with (e_data e) MACRO05_HEAD) eqn:S5.
    { left. destruct (head_trail_overlap MACRO05_HEAD (e_data e) eq_refl eq_refl S5 EW) as (body & EB). exists body. now left. }
    destruct (starts_with (e_data e) MACRO06_HEAD) eqn:S6.
    { left. destruct (head_trail_overlap MACRO06_HEAD (e_data e) eq_refl eq_refl S6 EW) as (body & EB). exists body. now right. }
    right. intros (body & [H|H]).
    + assert (starts_with (e_data e) MACRO05_HEAD = true) as C; [|congruence]. apply starts_with_spec. eexists. exact H.
    + assert (starts_with (e_data e) MACRO06_HEAD = true) as C; [|congruence]. apply starts_with_spec. eexists. exact H.
  - right. intros (body & [H|H]);
    (assert (ends_with (e_data e) MACRO_TRAIL = true) as C; [|congruence]); apply ends_with_spec;
    [exists (MACRO05_HEAD ++ body)|exists (MACRO06_HEAD ++ body)]; rewrite H, app_assoc; reflexivity.
Qed.

(* ---------- the first codeword of a stream that starts without a header ---------- *)
Definition plain_first (c : N) : Prop := c <> 232 /\ c <> 236 /\ c <> 237.
Definition latch_cw (l : N) : Prop := In l [230; 231; 238; 239; 240].
Definition J (e : enc) : Prop :=
  match e_cw e with
  | [] => (e_new_mode e = None /\ e_encodation e = Ascii) \/ exists l, e_new_mode e = Some l /\ latch_cw l
  | c :: _ => plain_first c
  end.

Lemma J_fr e e' : e_cw e <> [] -> J e -> fr e e' -> J e'.
Proof.
  intros NE Je (_ & _ & sfx & C). unfold J in *. rewrite C. destruct (e_cw e) as [|c r]; [congruence|]. exact Je.
Qed.

Lemma latch_is_latch m l : et_latch_from_ascii m = Some l -> latch_cw l.
Proof. unfold latch_cw. destruct m; cbn; intros [= <-]; auto 6. Qed.

Lemma maybe_switch_J e sw e' : maybe_switch_mode e = Ok (sw, e') -> e_cw e = [] -> e_new_mode e = None -> e_encodation e = Ascii ->
  e_cw e' = [] /\ e_data e' = e_data e /\
  (if sw then exists l, e_new_mode e' = Some l /\ latch_cw l else e_new_mode e' = None /\ e_encodation e' = Ascii).
Proof.
  unfold maybe_switch_mode. intros H C NM EA. destruct (e_planned e) as [|[p0 m0] rest]; [discriminate|].
  destruct (negb _); [discriminate|]. rewrite EA in H.
  destruct (_ && _).
  - destruct (negb (et_eqb m0 Ascii)) eqn:NE.
    + destruct (et_latch_from_ascii m0) as [l|] eqn:EL.
      * inversion H; subst; cbn. repeat split; auto. exists l. split; [reflexivity|]. eapply latch_is_latch; eassumption.
      * destruct m0; cbn in EL, NE; discriminate.
    + inversion H; subst; cbn. repeat split; auto.
  - cbn [negb et_eqb] in H. rewrite (proj2 (N.eqb_eq _ _) eq_refl : et_eqb Ascii Ascii = true) in H. cbn [negb] in H.
    inversion H; subst; cbn. repeat split; auto.
Qed.

Lemma plain_small a : a <= 229 -> plain_first a. Proof. unfold plain_first. lia. Qed.

Lemma ascii_encode_J fuel e : J e -> (e_cw e = [] -> e_new_mode e = None /\ e_encodation e = Ascii) ->
  match ascii_encode fuel e with Ok e' => J e' | _ => True end.
Proof.
  intros Je HA. pose proof (ascii_encode_post fuel e) as P.
  destruct (e_cw e) as [|c0 r0] eqn:EC.
  2:{ destruct (ascii_encode fuel e); auto. eapply J_fr; [|exact Je|exact P]. congruence. }
  destruct (HA eq_refl) as [NM EA]. clear P HA. destruct fuel as [|f]; cbn [ascii_encode]; [exact I|].
  destruct (maybe_switch_mode e) as [[sw e1]| |] eqn:MS; cbn [bind]; auto.
  destruct (maybe_switch_J e sw e1 MS EC NM EA) as (C1 & D1 & R).
  destruct sw.
  { unfold J. rewrite C1. right. exact R. }
  destruct R as [N1 A1].
  assert (forall e2 c, e_cw e2 = [c] -> plain_first c -> match ascii_encode f e2 with Ok e' => J e' | _ => True end) as T.
  { intros e2 c C2 PC. pose proof (ascii_encode_post f e2) as P. destruct (ascii_encode f e2); auto.
    eapply J_fr; [| |exact P]; [rewrite C2; discriminate|unfold J; rewrite C2; exact PC]. }
  assert (forall e2 c d, e_cw e2 = [c; d] -> plain_first c -> match ascii_encode f e2 with Ok e' => J e' | _ => True end) as T2.
  { intros e2 c d C2 PC. pose proof (ascii_encode_post f e2) as P. destruct (ascii_encode f e2); auto.
    eapply J_fr; [| |exact P]; [rewrite C2; discriminate|unfold J; rewrite C2; exact PC]. }
  destruct (e_data e1) as [|a [|b t]].
  - unfold J. rewrite C1. left. split; assumption.
  - destruct (N.leb_spec a 127).
    + eapply T; [cbn [e_cw push set_cw set_data]; rewrite C1; reflexivity|apply plain_small; lia].
    + eapply T2; [cbn [e_cw push set_cw set_data]; rewrite C1; reflexivity|unfold plain_first, ascii_UPPER_SHIFT; lia].
  - destruct (is_digit a && is_digit b) eqn:DG.
    + eapply T; [cbn [e_cw push set_cw set_data]; rewrite C1; reflexivity|].
      unfold is_digit in DG. rewrite !andb_true_iff, !N.leb_le in DG. apply plain_small. lia.
    + destruct (N.leb_spec a 127).
      * eapply T; [cbn [e_cw push set_cw set_data]; rewrite C1; reflexivity|apply plain_small; lia].
      * eapply T2; [cbn [e_cw push set_cw set_data]; rewrite C1; reflexivity|unfold plain_first, ascii_UPPER_SHIFT; lia].
Qed.

Lemma main_loop_J fuel : forall e nwr, J e -> match main_loop fuel e nwr with Ok e' => J e' | _ => True end.
Proof.
  induction fuel as [|f IH]; intros e nwr Je; cbn [main_loop]; [exact I|].
  destruct (negb (has_more e)); [exact Je|].
  set (e0 := match e_new_mode e with Some m => _ | None => e end).
  assert (J e0 /\ (e_cw e0 = [] -> e_new_mode e0 = None /\ e_encodation e0 = Ascii)) as [J0 H0].
  { unfold e0. destruct (e_new_mode e) as [m|] eqn:NM.
    - unfold J in Je |- *. rewrite ?NM in Je. cbn [e_cw push set_cw]. destruct (e_cw e) as [|c r]; cbn [app].
      + split; [|discriminate]. destruct Je as [[C _]|(l & E & L)]; [discriminate|]. inversion E; subst l.
        unfold latch_cw in L. cbn in L. unfold plain_first. lia.
      + split; [exact Je|discriminate].
    - split; [exact Je|]. intros C. unfold J in Je. rewrite C, ?NM in Je. destruct Je as [Je|(l & C1 & _)]; [|discriminate].
      split; [exact NM|apply Je]. }
  assert (match mode_encode e0 with Ok e' => J e' | _ => True end) as ME.
  { destruct (e_cw e0) as [|c r] eqn:C0.
    - destruct (H0 eq_refl) as [N0 A0]. unfold mode_encode. rewrite A0. apply ascii_encode_J; [exact J0|rewrite C0; auto].
    - pose proof (mode_encode_post e0) as P. destruct (mode_encode e0); auto. eapply J_fr; [|exact J0|exact P]. congruence. }
  destruct (mode_encode e0) as [e1| |]; cbn [bind]; auto.
  destruct (_ <? _)%nat; [exact I|].
  destruct (_ <=? 1)%nat; [destruct (5 <? _); [exact I|]|]; apply IH; exact ME.
Qed.

Section Top.
Variable optimize_fn : list N -> N -> list SymbolSize -> N -> PR (option (list (N * EncodationType))).

Lemma first_fit_In l n s : first_symbol_big_enough_for l n = Some s -> In s l /\ n <= num_data_codewords s.
Proof.
  unfold first_symbol_big_enough_for. intros H. apply find_some in H. destruct H as [I L]. split; [exact I|now apply N.leb_le].
Qed.

(* what a successful run of codewords() returns *)
Theorem codewords_ok e cw s : codewords optimize_fn e = Ok (cw, s) ->
  exists e1, fr e e1 /\ first_symbol_big_enough_for (e_symbols e) (cw_len e1) = Some s /\
    cw = e_cw e1 ++ padding (et_eqb (e_encodation e1) Ascii) (cw_len e1) (num_data_codewords s - cw_len e1) /\
    In s (e_symbols e) /\ N.of_nat (length cw) = num_data_codewords s /\ (J e -> J e1).
Proof.
  unfold codewords. destruct (e_symbols e) as [|s0 sr] eqn:ES; [discriminate|]. rewrite <- ES.
  destruct (_ <? _); [discriminate|]. destruct (upper_limit_for_number_of_codewords _ _); [|discriminate].
  destruct (lift _) as [[p|]| |]; cbn [bind]; try discriminate.
  set (e0 := mkenc _ _ _ p _ _ _ _).
  pose proof (main_loop_post (6 * length (e_data e0) + 12) e0 0) as ML.
  pose proof (main_loop_J (6 * length (e_data e0) + 12) e0 0) as MJ.
  destruct (main_loop _ e0 0) as [e1| |]; cbn [bind post] in *; try discriminate.
  assert (fr e e1) as F1 by (eapply fr_trans; [|exact ML]; apply fr_same; reflexivity).
  unfold symbol_for. destruct (first_symbol_big_enough_for (e_symbols e1) (cw_len e1 + 0)) as [s'|] eqn:FF; [|discriminate].
  destruct (add_padding e1 s') as [e2| |] eqn:AP; cbn [bind]; try discriminate. intros H; inversion H; subst s' cw. clear H.
  exists e1. split; [exact F1|]. destruct F1 as (FS & _). rewrite FS, N.add_0_r in FF. split; [exact FF|].
  apply add_padding_spec in AP. destruct AP as (L & C & _). split; [exact C|]. split; [apply (first_fit_In _ _ _ FF)|].
  split; [|exact MJ].
  rewrite C, app_length, Nat2N.inj_add, padding_length. unfold cw_len in *. lia.
Qed.

Theorem codewords_err e x : codewords optimize_fn e = Err x -> (x = SymbolListEmpty <-> e_symbols e = []).
Proof.
  unfold codewords. destruct (e_symbols e) as [|s0 sr] eqn:ES; [intros [= <-]; tauto|]. rewrite <- ES.
  assert (e_symbols e <> []) as NE by (rewrite ES; discriminate).
  assert (forall y, y = TooMuchOrIllegalData -> (y = SymbolListEmpty <-> e_symbols e = [])) as T
    by (intros y ->; split; [discriminate|intros; contradiction]).
  destruct (_ <? _); [intros [= <-]; now apply T|].
  pose proof (upper_limit_some (e_symbols e) (chars_left e) NE) as UL.
  destruct (upper_limit_for_number_of_codewords _ _); [|congruence].
  destruct (lift _) as [[p|]|y|] eqn:EL; cbn [bind]; try discriminate.
  - set (e0 := mkenc _ _ _ p _ _ _ _).
    pose proof (main_loop_post (6 * length (e_data e0) + 12) e0 0) as ML.
    destruct (main_loop _ e0 0) as [e1|y|]; cbn [bind post] in *; try discriminate.
    + destruct (symbol_for e1 0) as [s'|]; [|intros [= <-]; now apply T].
      destruct (add_padding e1 s') as [e2|y|] eqn:AP; cbn [bind]; try discriminate.
      exfalso. revert AP. unfold add_padding. destruct (_ <? _); [discriminate|]. destruct (_ =? _); [discriminate|].
      destruct (negb _); destruct (0 <? _); discriminate.
    + intros [= <-]. now apply T.
  - intros [= <-]; now apply T.
  - exfalso. revert EL. unfold lift. destruct (optimize_fn _ _ _ _); discriminate.
Qed.

(* the glue after the main loop cannot panic: the symbol chosen holds the stream *)
Lemma add_padding_total e s : symbol_for e 0 = Some s -> exists e', add_padding e s = Ok e'.
Proof.
  unfold symbol_for. intros H. apply first_fit_In in H. destruct H as [_ L]. rewrite N.add_0_r in L.
  unfold add_padding. destruct (N.ltb_spec (num_data_codewords s) (cw_len e)); [lia|].
  destruct (_ =? 0); [eexists; reflexivity|]. destruct (negb _); destruct (0 <? _); eexists; reflexivity.
Qed.

Lemma enc_write_eci_total e c : c <= 999999 -> exists e', enc_write_eci e c = Ok e'.
Proof. intros L. unfold enc_write_eci. rewrite (write_eci_spec c L). eexists; reflexivity. Qed.

(* a panic of codewords() can only come from the planner or from the main loop *)
Theorem codewords_panic_source e p : codewords optimize_fn e = Panic p ->
  lift (optimize_fn (e_data e) (cw_len e) (e_symbols e) (e_modes e)) = Panic p \/
  exists plan, main_loop (6 * length (e_data e) + 12)
    (mkenc (e_data e) (e_input e) (e_encodation e) plan (e_new_mode e) (e_cw e) (e_modes e) (e_symbols e)) 0 = Panic p.
Proof.
  unfold codewords. destruct (e_symbols e) as [|s0 sr] eqn:ES; [discriminate|]. rewrite <- ES.
  destruct (_ <? _); [discriminate|]. destruct (upper_limit_for_number_of_codewords _ _); [|discriminate].
  destruct (lift _) as [[pl|]| |]; cbn [bind]; try discriminate; [|intros [= <-]; now left].
  cbn [e_data]. destruct (main_loop _ _ 0) as [e1| |] eqn:ML; cbn [bind]; try discriminate.
  - destruct (symbol_for e1 0) as [s|] eqn:SF; [|discriminate].
    destruct (add_padding_total e1 s SF) as (e2 & ->). discriminate.
  - intros [= <-]. right. exists pl. exact ML.
Qed.

(* the state handed to codewords() *)
Definition eci_header (eci : option N) : list N :=
  match eci with Some c => 241 :: designator c | None => [] end.

Theorem encode_internal_err data symbols eci modes use_macros fnc1 x :
  encode_data_internal optimize_fn data symbols eci modes use_macros fnc1 = Err x ->
  (x = SymbolListEmpty <-> symbols = []).
Proof.
  unfold encode_data_internal. cbv zeta. set (e0 := with_size data symbols modes fnc1).
  destruct (use_macro_spec e0) as (e1 & UM & _).
  set (um := if use_macros then _ else _).
  assert (exists e1, um = Ok e1 /\ e_symbols e1 = symbols) as (e1' & -> & S1).
  { unfold um. destruct use_macros; [|exists e0; split; reflexivity]. exists e1. split; [exact UM|].
    revert UM. unfold use_macro_if_possible. destruct (_ || _); [intros [= <-]; reflexivity|].
    destruct (starts_with _ MACRO05_HEAD); [|destruct (starts_with _ MACRO06_HEAD); [|intros [= <-]; reflexivity]];
    (destruct (_ || _); [discriminate|intros [= <-]; reflexivity]). }
  cbn [bind]. destruct eci as [c|].
  - unfold enc_write_eci. destruct (write_eci c); cbn [bind]; try discriminate.
    intros H. apply codewords_err in H. cbn [e_symbols set_cw] in H. rewrite S1 in H. exact H.
  - cbn [bind]. intros H. apply codewords_err in H. rewrite S1 in H. exact H.
Qed.

Theorem encode_internal_empty_list data eci modes use_macros fnc1 :
  (match eci with Some c => c <= 999999 | None => True end) ->
  encode_data_internal optimize_fn data [] eci modes use_macros fnc1 = Err SymbolListEmpty.
Proof.
  intros HE. unfold encode_data_internal. cbv zeta. set (e0 := with_size data [] modes fnc1).
  destruct (use_macro_spec e0) as (e1 & UM & _).
  set (um := if use_macros then _ else _).
  assert (exists e1, um = Ok e1 /\ e_symbols e1 = []) as (e1' & -> & S1).
  { unfold um. destruct use_macros; [|exists e0; split; reflexivity]. exists e1. split; [exact UM|].
    revert UM. unfold use_macro_if_possible. destruct (_ || _); [intros [= <-]; reflexivity|].
    destruct (starts_with _ MACRO05_HEAD); [|destruct (starts_with _ MACRO06_HEAD); [|intros [= <-]; reflexivity]];
    (destruct (_ || _); [discriminate|intros [= <-]; reflexivity]). }
  cbn [bind]. destruct eci as [c|]; cbn [bind].
  - unfold enc_write_eci. rewrite (write_eci_spec c HE). cbn [bind]. unfold codewords. cbn [e_symbols set_cw]. rewrite S1. reflexivity.
  - unfold codewords. rewrite S1. reflexivity.
Qed.

(* success: header, then whatever the mode encoders wrote, then the standard padding; symbol from the list *)
Definition header (fnc1 : bool) (macro : option N) (eci : option N) : list N :=
  (if fnc1 then [ascii_FNC1] else []) ++ (match macro with Some m => [m] | None => [] end) ++ eci_header eci.

Theorem encode_internal_ok data symbols eci modes use_macros fnc1 cw s :
  encode_data_internal optimize_fn data symbols eci modes use_macros fnc1 = Ok (cw, s) ->
  In s symbols /\ N.of_nat (length cw) = num_data_codewords s /\
  exists macro body e1,
    (macro = Some MACRO05 /\ use_macros = true /\ fnc1 = false /\ enveloped MACRO05_HEAD data body \/
     macro = Some MACRO06 /\ use_macros = true /\ fnc1 = false /\ enveloped MACRO06_HEAD data body \/
     macro = None /\ body = data /\
       ~ (use_macros = true /\ fnc1 = false /\ exists b, enveloped MACRO05_HEAD data b \/ enveloped MACRO06_HEAD data b)) /\
    (exists stream, e_cw e1 = header fnc1 macro eci ++ stream) /\
    first_symbol_big_enough_for symbols (cw_len e1) = Some s /\
    cw = e_cw e1 ++ padding (et_eqb (e_encodation e1) Ascii) (cw_len e1) (num_data_codewords s - cw_len e1) /\
    (header fnc1 macro eci = [] -> forall c, hd_error cw = Some c -> plain_first c).
Proof.
  unfold encode_data_internal. cbv zeta. set (e0 := with_size data symbols modes fnc1).
  destruct (use_macro_spec e0) as (e1 & UM & M5 & M6 & MN).
  set (um := if use_macros then _ else _).
  assert (exists e1' macro body, um = Ok e1' /\ e_symbols e1' = symbols /\ e_data e1' = body /\
            e_new_mode e1' = None /\ e_encodation e1' = Ascii /\
            e_cw e1' = (if fnc1 then [ascii_FNC1] else []) ++ (match macro with Some m => [m] | None => [] end) /\
    (macro = Some MACRO05 /\ use_macros = true /\ fnc1 = false /\ enveloped MACRO05_HEAD data body \/
     macro = Some MACRO06 /\ use_macros = true /\ fnc1 = false /\ enveloped MACRO06_HEAD data body \/
     macro = None /\ body = data /\
       ~ (use_macros = true /\ fnc1 = false /\ exists b, enveloped MACRO05_HEAD data b \/ enveloped MACRO06_HEAD data b)))
    as (e1' & macro & body & -> & S1 & D1 & NM1 & EA1 & C1 & CASE).
  { unfold um. destruct use_macros.
    2:{ exists e0, None, data. split; [reflexivity|]. split; [reflexivity|]. split; [reflexivity|]. split; [reflexivity|]. split; [reflexivity|]. split; [now rewrite app_nil_r|].
        right. right. split; [reflexivity|]. split; [reflexivity|]. intros (A & _). discriminate. }
    destruct fnc1.
    { exists e0, None, data. assert (e1 = e0) as ->.
      { apply MN. intros (A & _). discriminate. }
      split; [exact UM|]. split; [reflexivity|]. split; [reflexivity|]. split; [reflexivity|]. split; [reflexivity|]. split; [reflexivity|].
      right. right. split; [reflexivity|]. split; [reflexivity|]. intros (_ & A & _). discriminate. }
    destruct (classic_macro e0) as [(body & [E5|E6])|NM].
    - exists e1, (Some MACRO05), body. rewrite (M5 body eq_refl E5). split; [rewrite <- (M5 body eq_refl E5); exact UM|].
      split; [reflexivity|]. split; [reflexivity|]. split; [reflexivity|]. split; [reflexivity|]. split; [reflexivity|]. left. repeat split. exact E5.
    - exists e1, (Some MACRO06), body. rewrite (M6 body eq_refl E6). split; [rewrite <- (M6 body eq_refl E6); exact UM|].
      split; [reflexivity|]. split; [reflexivity|]. split; [reflexivity|]. split; [reflexivity|]. split; [reflexivity|]. right. left. repeat split. exact E6.
    - exists e0, None, data. assert (e1 = e0) as ->.
      { apply MN. intros (_ & b & Hb). apply NM. exists b. exact Hb. }
      split; [exact UM|]. split; [reflexivity|]. split; [reflexivity|]. split; [reflexivity|]. split; [reflexivity|]. split; [reflexivity|].
      right. right. split; [reflexivity|]. split; [reflexivity|]. intros (_ & _ & b & Hb). apply NM. exists b. exact Hb. }
  cbn [bind].
  match goal with |- bind ?X _ = _ -> _ => destruct X as [e2| |] eqn:EE end; cbn [bind]; try discriminate.
  assert (e_symbols e2 = symbols /\ e_cw e2 = header fnc1 macro eci /\ e_new_mode e2 = None /\ e_encodation e2 = Ascii) as (S2 & C2 & NM2 & EA2).
  { destruct eci as [c|].
    - unfold enc_write_eci in EE. destruct (N.leb_spec c 999999) as [Lc|Lc].
      + rewrite (write_eci_spec c Lc) in EE. inversion EE; subst e2. cbn [e_symbols e_cw set_cw]. split; [exact S1|].
        split; [unfold header, eci_header; rewrite C1, app_assoc; reflexivity|]. split; assumption.
      + rewrite (write_eci_panics c Lc) in EE. discriminate.
    - inversion EE; subst e2. split; [exact S1|]. split; [unfold header, eci_header; rewrite C1, app_nil_r; reflexivity|]. split; assumption. }
  intros H. apply codewords_ok in H. destruct H as (e3 & F3 & FF & C3 & I3 & L3 & J3).
  rewrite S2 in *. split; [exact I3|]. split; [exact L3|].
  exists macro, body, e3. split; [exact CASE|]. split; [|split; [exact FF|split; [exact C3|]]].
  - destruct F3 as (_ & _ & sfx & C4). exists sfx. rewrite C4, C2. reflexivity.
  - intros HE c HC. assert (J e3) as J3'.
    { apply J3. unfold J. rewrite C2, HE. left. split; assumption. }
    unfold J in J3'. rewrite C3 in HC. destruct (e_cw e3) as [|c3 r3] eqn:C4; cbn [app hd_error] in HC.
    + unfold padding in HC. destruct (_ =? 0); [discriminate|].
      destruct (et_eqb _ _); cbn [hd_error] in HC; inversion HC; subst c; unfold plain_first, ascii_PAD, UNLATCH; lia.
    + inversion HC; subst c. exact J3'.
Qed.

(* the first codeword tells Macro 05, Macro 06 and FNC1 apart from everything else, exactly *)
Theorem first_codeword data symbols eci modes use_macros fnc1 cw s :
  encode_data_internal optimize_fn data symbols eci modes use_macros fnc1 = Ok (cw, s) ->
  (hd_error cw = Some MACRO05 <-> use_macros = true /\ fnc1 = false /\ exists body, enveloped MACRO05_HEAD data body) /\
  (hd_error cw = Some MACRO06 <-> use_macros = true /\ fnc1 = false /\ exists body, enveloped MACRO06_HEAD data body) /\
  (hd_error cw = Some ascii_FNC1 <-> fnc1 = true).
Proof.
  intros H. apply encode_internal_ok in H.
  destruct H as (_ & _ & macro & body & e1 & CASE & (stream & C1) & _ & C & PL).
  assert (forall c r, header fnc1 macro eci = c :: r -> hd_error cw = Some c) as HD.
  { intros c r HH. rewrite C, C1, HH. reflexivity. }
  assert (forall b5 b6, enveloped MACRO05_HEAD data b5 -> enveloped MACRO06_HEAD data b6 -> False) as EXCL.
  { intros b5 b6 H5 H6. unfold enveloped in *. rewrite H5 in H6. discriminate. }
  destruct CASE as [(-> & -> & -> & E5)|[(-> & -> & -> & E6)|(-> & -> & NC)]].
  - rewrite (HD MACRO05 (eci_header eci) eq_refl). split; [|split].
    + split; [intros _; repeat split; exists body; exact E5|reflexivity].
    + split; [discriminate|]. intros (_ & _ & b6 & E6). destruct (EXCL _ _ E5 E6).
    + split; discriminate.
  - rewrite (HD MACRO06 (eci_header eci) eq_refl). split; [|split].
    + split; [discriminate|]. intros (_ & _ & b5 & E5). destruct (EXCL _ _ E5 E6).
    + split; [intros _; repeat split; exists body; exact E6|reflexivity].
    + split; discriminate.
  - destruct fnc1.
    + rewrite (HD ascii_FNC1 (eci_header eci) eq_refl). split; [|split].
      * split; [discriminate|intros (_ & A & _); discriminate].
      * split; [discriminate|intros (_ & A & _); discriminate].
      * split; reflexivity.
    + assert (forall c, hd_error cw = Some c -> c <> 232 /\ c <> 236 /\ c <> 237) as PF.
      { intros c HC. destruct eci as [e|].
        - rewrite (HD 241 (designator e) eq_refl) in HC. inversion HC. lia.
        - apply (PL eq_refl c HC). }
      split; [|split].
      * split; [intros HC; apply PF in HC; unfold MACRO05 in HC; lia|]. intros (A & B & b & E). exfalso. apply NC. repeat split; auto. exists b. now left.
      * split; [intros HC; apply PF in HC; unfold MACRO06 in HC; lia|]. intros (A & B & b & E). exfalso. apply NC. repeat split; auto. exists b. now right.
      * split; [intros HC; apply PF in HC; unfold ascii_FNC1 in HC; lia|discriminate].
Qed.
End Top.
