(* Proofs/PlacementValues.v -- property C07, value part: writing codewords into the mapping matrix and
   reading them back is the identity, for all 48 sizes and all codeword vectors (generic array lemmas on
   top of the bijection theorem). *)
From Coq Require Import ZArith NArith List Bool Lia FMapPositive.
From DM Require Import Generated.Symbols Spec.GF256 Spec.AnnexF Model.Outcome Model.Placement Proofs.SymbolListProofs Proofs.PlacementProofs.
Import ListNotations.
Local Open Scope Z_scope.

Section Arr.
Context {B : Type}.

Definition aval (a : arr B) (i : Z) : B :=
  match PS.find (Z.to_pos (i + 1)) (amap a) with Some v => v | None => adef a end.
Definition inr (a : arr B) (i : Z) : Prop := 0 <= i < alen a.

Lemma range_test (i n : Z) : 0 <= i < n -> (i <? 0) || (i >=? n) = false.
Proof. intros H. rewrite Z.geb_leb. apply orb_false_iff. split; [apply Z.ltb_ge|apply Z.leb_gt]; lia. Qed.

Lemma get_z_ok a i : inr a i -> get_z a i = Ok (aval a i).
Proof. unfold get_z, inr, aval. intros H.
  rewrite range_test by exact H. reflexivity. Qed.

Lemma set_z_ok a i v : inr a i -> exists a', set_z a i v = Ok a' /\ alen a' = alen a /\ adef a' = adef a /\
  aval a' i = v /\ forall j, 0 <= j -> j <> i -> aval a' j = aval a j.
Proof.
  unfold set_z, inr, aval. intros H.
  rewrite range_test by exact H.
  eexists. split; [reflexivity|]. cbn [alen adef amap]. repeat split.
  - now rewrite PS.gss.
  - intros j Hj Ne. rewrite PS.gso; [reflexivity|]. intros E. apply Ne.
    apply (f_equal Z.pos) in E. rewrite !Z2Pos.id in E by lia. lia.
Qed.

Lemma set_all_ok : forall idxs vals a, length idxs = length vals -> NoDup idxs -> Forall (inr a) idxs ->
  exists a', set_all a idxs vals = Ok a' /\ alen a' = alen a /\ adef a' = adef a /\
    (forall k, (k < length idxs)%nat -> aval a' (nth k idxs 0) = nth k vals (adef a)) /\
    (forall j, 0 <= j -> ~ In j idxs -> aval a' j = aval a j).
Proof.
  induction idxs as [|i ri IH]; intros [|v rv] a L ND R; cbn in L; try lia.
  - exists a. cbn [set_all]. repeat split; auto. intros k Hk. cbn in Hk. lia.
  - inversion ND as [|? ? Hni ND']; subst. inversion R as [|? ? Ri R']; subst.
    destruct (set_z_ok a i v Ri) as (a1 & E1 & L1 & D1 & V1 & O1).
    assert (Forall (inr a1) ri) as R1 by (eapply Forall_impl; [|exact R']; unfold inr; intros; lia).
    destruct (IH rv a1 ltac:(lia) ND' R1) as (a2 & E2 & L2 & D2 & V2 & O2).
    exists a2. cbn [set_all]. rewrite E1. cbn [bind]. rewrite E2. split; [reflexivity|]. split; [lia|]. split; [congruence|]. split.
    + intros [|k] Hk; cbn [nth].
      * rewrite O2; [exact V1|unfold inr in Ri; lia|exact Hni].
      * rewrite V2 by (cbn in Hk; lia). rewrite D1. reflexivity.
    + intros j Hj Hn. rewrite O2 by (try lia; intros Hin; apply Hn; now right). apply O1; [lia|]. intros ->. apply Hn. now left.
Qed.

Lemma has_dup_false l : NoDup l -> has_dup l = false.
Proof.
  induction 1 as [|x r Hn ND IH]; [reflexivity|]. cbn [has_dup]. rewrite IH, orb_false_r.
  destruct (existsb (Z.eqb x) r) eqn:E; [|reflexivity]. apply existsb_exists in E. destruct E as [y [Hy Ey]].
  apply Z.eqb_eq in Ey. subst. contradiction.
Qed.

Lemma all_ok_map_get a idxs : Forall (inr a) idxs -> all_ok (map (get_z a) idxs) = Ok (map (aval a) idxs).
Proof. induction 1 as [|i r Hi _ IH]; [reflexivity|]. cbn [map all_ok]. rewrite get_z_ok by exact Hi. cbn [bind]. rewrite IH. reflexivity. Qed.

Lemma NoDup_app_split {A} (l1 l2 : list A) : NoDup (l1 ++ l2) ->
  NoDup l1 /\ NoDup l2 /\ forall x, In x l1 -> ~ In x l2.
Proof.
  induction l1 as [|a t IH]; cbn [app]; intros H.
  - repeat split; [constructor|exact H|intros x []].
  - inversion H as [|? ? Hn H']; subst. destruct (IH H') as (N1 & N2 & D). repeat split.
    + constructor; [intros Hin; apply Hn, in_or_app; now left|exact N1].
    + exact N2.
    + intros x [<-|Hx]; [intros Hin; apply Hn, in_or_app; now right|now apply D].
Qed.

Lemma NoDup_concat_cons {A} (v : list A) (r : list (list A)) : NoDup (concat (v :: r)) ->
  NoDup v /\ NoDup (concat r) /\ forall x, In x v -> ~ In x (concat r).
Proof. cbn [concat]. apply NoDup_app_split. Qed.

(* writing octets produced by g (independent of the old values) along a disjoint family of index octets *)
Lemma traverse_mut_go_ok (g : nat -> list B) : forall visits cw a,
  NoDup (concat visits) -> Forall (inr a) (concat visits) ->
  Forall (fun v => length v = 8%nat) visits -> (forall c, length (g c) = 8%nat) ->
  exists a', traverse_mut_go (fun c _ => g c) cw visits a = Ok a' /\ alen a' = alen a /\ adef a' = adef a /\
    (forall k j, (k < length visits)%nat -> (j < 8)%nat ->
        aval a' (nth j (nth k visits []) 0) = nth j (g (cw + k)%nat) (adef a)) /\
    (forall i, 0 <= i -> ~ In i (concat visits) -> aval a' i = aval a i).
Proof.
  induction visits as [|v r IH]; intros cw a ND R L8 G.
  - exists a. cbn [traverse_mut_go]. repeat split; auto. intros k j Hk. cbn in Hk. lia.
  - destruct (NoDup_concat_cons _ _ ND) as (NDv & NDr & Dis).
    cbn [concat] in R. apply Forall_app in R. destruct R as [Rv Rr].
    inversion L8 as [|? ? Lv L8']; subst.
    cbn [traverse_mut_go]. rewrite (has_dup_false v NDv), (all_ok_map_get a v Rv). cbn [bind].
    destruct (set_all_ok v (g cw) a ltac:(rewrite G; exact Lv) NDv Rv) as (a1 & E1 & L1 & D1 & V1 & O1).
    rewrite E1. cbn [bind].
    assert (Forall (inr a1) (concat r)) as R1 by (eapply Forall_impl; [|exact Rr]; unfold inr; intros; lia).
    destruct (IH (S cw) a1 NDr R1 L8' G) as (a2 & E2 & L2 & D2 & V2 & O2).
    exists a2. split; [exact E2|]. split; [lia|]. split; [congruence|]. split.
    + intros [|k] j Hk Hj.
      * cbn [nth]. rewrite O2.
        -- rewrite Nat.add_0_r. apply V1. lia.
        -- rewrite Forall_forall in Rv. unfold inr in Rv. apply (Rv (nth j v 0)), nth_In. lia.
        -- apply Dis, nth_In. lia.
      * cbn [nth]. rewrite (V2 k j) by (cbn in Hk; lia). rewrite D1. f_equal. f_equal. lia.
    + intros i Hi Hn. rewrite O2 by (try lia; intros Hc; apply Hn; cbn [concat]; apply in_or_app; now right).
      apply O1; [lia|]. intros Hc. apply Hn. cbn [concat]. apply in_or_app. now left.
Qed.

Lemma arr_to_list_spec a : 0 <= alen a -> arr_to_list a = map (fun i : nat => aval a (Z.of_nat i)) (seq 0 (Z.to_nat (alen a))).
Proof. intros _. unfold arr_to_list, aval. apply map_ext. intros i. replace (Z.to_pos (Z.of_nat i + 1)) with (Pos.of_succ_nat i) by lia. reflexivity. Qed.

Lemma arr_fill_find (l : list B) : forall i m q,
  (forall q', (i <= q')%positive -> PS.find q' m = None) ->
  PS.find q (arr_fill l i m) = if (q <? i)%positive then PS.find q m else nth_error l (Pos.to_nat q - Pos.to_nat i).
Proof.
  induction l as [|x r IH]; intros i m q Hm; cbn [arr_fill].
  - destruct (Pos.ltb_spec q i) as [L|G]; [reflexivity|]. rewrite Hm by exact G. destruct (_ - _)%nat; reflexivity.
  - rewrite IH.
    + destruct (Pos.ltb_spec q (Pos.succ i)) as [L|G]; destruct (Pos.ltb_spec q i) as [L'|G']; try lia.
      * rewrite PS.gso by lia. reflexivity.
      * assert (q = i) as -> by lia. rewrite PS.gss, Nat.sub_diag. reflexivity.
      * replace (Pos.to_nat q - Pos.to_nat i)%nat with (S (Pos.to_nat q - Pos.to_nat (Pos.succ i))) by lia. reflexivity.
    + intros q' Hq. rewrite PS.gso by lia. apply Hm. lia.
Qed.

Lemma aval_of_list d (l : list B) i : 0 <= i -> aval (arr_of_list d l) i = nth (Z.to_nat i) l d.
Proof.
  intros Hi. unfold aval, arr_of_list. cbn [amap adef]. rewrite arr_fill_find by (intros; apply PS.gempty).
  replace (Z.to_pos (i + 1) <? 1)%positive with false by (symmetry; apply Pos.ltb_ge; lia).
  replace (Pos.to_nat (Z.to_pos (i + 1)) - Pos.to_nat 1)%nat with (Z.to_nat i) by lia.
  generalize (Z.to_nat i). clear. induction l as [|x r IH]; intros [|n]; cbn; auto.
Qed.
End Arr.

Lemma nth_map2 {A C} (f : A -> C) l : forall j d d', (j < length l)%nat -> nth j (map f l) d = f (nth j l d').
Proof. induction l as [|a r IH]; intros j d d' H; cbn in *; [lia|]. destruct j; [reflexivity|]. apply IH. lia. Qed.

(* ---- bits of a byte ---- *)
Lemma bits_roundtrip_sweep : forallb (fun c => N.eqb (bits_byte (byte_bits c)) c) bytes = true.
Proof. vm_compute. reflexivity. Qed.
Lemma bits_roundtrip c : byte c -> bits_byte (byte_bits c) = c.
Proof. intros H. apply N.eqb_eq. exact (sweep1 _ bits_roundtrip_sweep c H). Qed.
Lemma byte_bits_length c : length (byte_bits c) = 8%nat. Proof. reflexivity. Qed.

(* ---- a module that the table leaves unassigned is visited by no codeword ---- *)
Lemma tab_add_bits_find cw : forall idxs bit m i, 0 <= i -> Forall (fun x => 0 <= x) idxs ->
  PM.find (key i) (tab_add_bits cw bit idxs m) = None -> ~ In i idxs /\ PM.find (key i) m = None.
Proof.
  induction idxs as [|x r IH]; intros bit m i Hi Hp H; cbn [tab_add_bits] in H; [split; [intros []|exact H]|].
  inversion Hp; subst. destruct (IH _ _ _ Hi H3 H) as [N1 N2].
  destruct (Z.eq_dec i x) as [->|Ne]; [rewrite PM.gss in N2; discriminate|].
  rewrite PM.gso in N2 by (intros E; apply Ne; now apply key_inj). split; [|exact N2]. intros [E|Hin]; [congruence|contradiction].
Qed.

Lemma tab_add_find : forall visits cw m i, 0 <= i -> Forall (fun x => 0 <= x) (concat visits) ->
  PM.find (key i) (tab_add cw visits m) = None -> ~ In i (concat visits) /\ PM.find (key i) m = None.
Proof.
  induction visits as [|v r IH]; intros cw m i Hi Hp H; cbn [tab_add] in H; [split; [intros []|exact H]|].
  cbn [concat] in Hp. apply Forall_app in Hp. destruct Hp as [Pv Pr].
  destruct (IH _ _ _ Hi Pr H) as [N1 N2]. destruct (tab_add_bits_find _ _ _ _ _ Hi Pv N2) as [N3 N4].
  split; [|exact N4]. cbn [concat]. intros Hin. apply in_app_or in Hin. tauto.
Qed.

Lemma unused_not_visited h w visits i : Forall (fun x => 0 <= x) (concat visits) ->
  In i (unused_of h w visits) -> 0 <= i < h * w /\ ~ In i (concat visits).
Proof.
  unfold unused_of. set (n := h * w). intros Hp Hin. apply filter_In in Hin. destruct Hin as [Hr Hf].
  apply in_map_iff in Hr. destruct Hr as [k [<- Hk]]. apply in_seq in Hk.
  destruct (PM.find (key (Z.of_nat k)) _) eqn:E; [discriminate|].
  split; [lia|]. assert (0 <= Z.of_nat k) as Hk0 by lia. exact (proj1 (tab_add_find _ _ _ _ Hk0 Hp E)).
Qed.

(* ---- C07_values ---- *)
Lemma dims_sweep : forallb (fun s => (2 <=? content_width s)%N && (2 <=? content_height s)%N) all_variants = true.
Proof. vm_compute. reflexivity. Qed.

Theorem placement_roundtrip s cws :
  length cws = N.to_nat (ntotal s) -> Forall byte cws ->
  exists e, copy_from_codewords (zh s) (zw s) (has_padding_modules s) cws = Ok e /\
    length e = Z.to_nat (zh s * zw s) /\
    codewords (zh s) (zw s) e = Ok cws /\
    (has_padding_modules s = true ->
       nth (Z.to_nat ((zh s - 2) * zw s + (zw s - 2))) e false = true /\
       nth (Z.to_nat ((zh s - 2) * zw s + (zw s - 1))) e false = false /\
       nth (Z.to_nat ((zh s - 1) * zw s + (zw s - 2))) e false = false /\
       nth (Z.to_nat ((zh s - 1) * zw s + (zw s - 1))) e false = true).
Proof.
  intros Hlen Hb.
  destruct (placement_bijection s) as (visits & Hrun & Hcnt & H8 & Hrange & Hnd & Hun).
  set (h := zh s) in *. set (w := zw s) in *.
  assert (2 <= h /\ 2 <= w) as [Hh Hw].
  { pose proof (sweep _ dims_sweep s) as D. cbv beta in D. apply andb_true_iff in D. destruct D as [D1 D2].
    apply N.leb_le in D1, D2. unfold h, w, zh, zw. lia. }
  assert (length visits = length cws) as Lv by lia.
  assert (Forall (fun x => 0 <= x) (concat visits)) as Hpos by (eapply Forall_impl; [|exact Hrange]; cbv beta; lia).
  unfold copy_from_codewords. rewrite Hrun. cbn [bind].
  replace (length cws <? length visits)%nat with false by (symmetry; apply Nat.ltb_ge; lia). cbn [bind].
  set (g := fun c : nat => byte_bits (nth c cws 0%N)).
  destruct (traverse_mut_go_ok g visits 0%nat (arr_new (h * w) false) Hnd) as (a1 & E1 & L1 & D1 & V1 & O1).
  { eapply Forall_impl; [|exact Hrange]. unfold inr. cbn [alen arr_new]. auto. }
  { exact H8. } { intros c. reflexivity. }
  cbn [alen adef arr_new] in L1, D1. unfold g in E1. rewrite E1. cbn [bind].
  (* padding *)
  assert (exists a2, write_padding true h w (has_padding_modules s) a1 = Ok a2 /\ alen a2 = h * w /\ adef a2 = false /\
            (forall i, 0 <= i -> In i (concat visits) -> aval a2 i = aval a1 i) /\
            (has_padding_modules s = true ->
               aval a2 ((h - 2) * w + (w - 2)) = true /\ aval a2 ((h - 2) * w + (w - 1)) = false /\
               aval a2 ((h - 1) * w + (w - 2)) = false /\ aval a2 ((h - 1) * w + (w - 1)) = true)) as (a2 & E2 & L2 & D2 & V2 & P2).
  { unfold write_padding. destruct (has_padding_modules s) eqn:P.
    - assert (forall i, In i [(h - 2) * w + (w - 2); (h - 2) * w + (w - 1); (h - 1) * w + (w - 2); (h - 1) * w + (w - 1)] ->
                0 <= i < h * w /\ ~ In i (concat visits)) as U.
      { intros i Hi. apply (unused_not_visited h w visits i Hpos). rewrite Hun. exact Hi. }
      destruct (U _ (or_introl eq_refl)) as [R1 N1]. destruct (U _ (or_intror (or_introl eq_refl))) as [R2 N2].
      destruct (U _ (or_intror (or_intror (or_introl eq_refl)))) as [R3 N3].
      destruct (U _ (or_intror (or_intror (or_intror (or_introl eq_refl))))) as [R4 N4].
      destruct (set_z_ok a1 ((h - 2) * w + (w - 2)) true ltac:(unfold inr; lia)) as (b1 & F1 & G1 & G1d & G1v & G1o).
      destruct (set_z_ok b1 ((h - 1) * w + (w - 1)) true ltac:(unfold inr; lia)) as (b2 & F2 & G2 & G2d & G2v & G2o).
      exists b2. rewrite F1. cbn [bind]. rewrite F2. split; [reflexivity|]. split; [lia|]. split; [congruence|]. split.
      + intros i Hi Hin. rewrite G2o by (try lia; intros ->; contradiction). apply G1o; [lia|]. intros ->. contradiction.
      + intros _. repeat split.
        * rewrite G2o by nia. exact G1v.
        * rewrite G2o by nia. rewrite G1o by nia. rewrite O1 by (try lia; exact N2). unfold aval. cbn [amap arr_new adef]. now rewrite PS.gempty.
        * rewrite G2o by nia. rewrite G1o by nia. rewrite O1 by (try lia; exact N3). unfold aval. cbn [amap arr_new adef]. now rewrite PS.gempty.
        * exact G2v.
    - exists a1. split; [reflexivity|]. split; [lia|]. split; [exact D1|]. split; [auto|discriminate]. }
  rewrite E2. cbn [bind].
  set (e := arr_to_list a2).
  assert (length e = Z.to_nat (h * w)) as Le by (unfold e, arr_to_list; rewrite map_length, seq_length, L2; reflexivity).
  assert (forall i, 0 <= i < h * w -> nth (Z.to_nat i) e false = aval a2 i) as Ne.
  { intros i Hi. unfold e. rewrite arr_to_list_spec by lia. rewrite L2.
    rewrite (nth_map2 _ _ _ _ 0%nat) by (rewrite seq_length; lia).
    rewrite seq_nth by lia. cbn [Nat.add]. f_equal. lia. }
  exists e. split; [reflexivity|]. split; [exact Le|]. split.
  - (* reading back *)
    unfold codewords, traverse. rewrite Hrun. cbn [bind].
    set (ar := arr_of_list false e).
    assert (alen ar = h * w) as Lar by (unfold ar, arr_of_list; cbn [alen]; rewrite Le; lia).
    assert (all_ok (map (fun idxs => all_ok (map (get_z ar) idxs)) visits) = Ok (map (fun k => g k) (seq 0 (length visits)))) as RD.
    { assert (forall vs cw0, (forall k j, (k < length vs)%nat -> (j < 8)%nat ->
                 aval a2 (nth j (nth k vs []) 0) = nth j (g (cw0 + k)%nat) false) ->
               Forall (fun v => length v = 8%nat) vs -> Forall (fun x => 0 <= x < h * w) (concat vs) ->
               all_ok (map (fun idxs => all_ok (map (get_z ar) idxs)) vs) = Ok (map (fun k => g k) (seq cw0 (length vs)))) as G.
      { induction vs as [|v r IHv]; intros cw0 HV HL HR; [reflexivity|].
        cbn [map all_ok length seq]. cbn [concat] in HR. apply Forall_app in HR. destruct HR as [HRv HRr].
        inversion HL as [|? ? Lv8 HL']; subst.
        rewrite (all_ok_map_get ar v) by (eapply Forall_impl; [|exact HRv]; unfold inr; rewrite Lar; auto). cbn [bind].
        rewrite (IHv (S cw0)); [| |exact HL'|exact HRr].
        - cbn [bind]. f_equal. f_equal.
          apply (nth_ext _ _ false false); [rewrite map_length, Lv8; reflexivity|].
          intros j Hj. rewrite map_length in Hj.
          rewrite (nth_map2 _ _ _ _ 0) by exact Hj.
          assert (0 <= nth j v 0 < h * w) as Rj by (rewrite Forall_forall in HRv; apply HRv, nth_In; exact Hj).
          unfold ar. rewrite aval_of_list by lia. rewrite Ne by exact Rj.
          specialize (HV 0%nat j ltac:(cbn; lia) ltac:(lia)). cbn [nth] in HV. rewrite Nat.add_0_r in HV. exact HV.
        - intros k j Hk Hj. specialize (HV (S k) j ltac:(cbn; lia) Hj). cbn [nth] in HV. rewrite HV. f_equal. f_equal. lia. }
      apply (G visits 0%nat); [|exact H8|exact Hrange].
      intros k j Hk Hj. rewrite V2.
      - rewrite (V1 k j Hk Hj). reflexivity.
      - rewrite Forall_forall in Hpos. apply Hpos. apply in_concat. exists (nth k visits []). split; [apply nth_In; exact Hk|apply nth_In].
        rewrite Forall_forall in H8. rewrite (H8 (nth k visits [])) by (apply nth_In; exact Hk). exact Hj.
      - apply in_concat. exists (nth k visits []). split; [apply nth_In; exact Hk|apply nth_In].
        rewrite Forall_forall in H8. rewrite (H8 (nth k visits [])) by (apply nth_In; exact Hk). exact Hj. }
    rewrite RD. cbn [bind]. rewrite map_length, seq_length.
    (* |e| / 8 = number of codewords *)
    pose proof (sweep _ SymbolListProofs.table_sweep s) as T. unfold SymbolListProofs.table_ok in T. rewrite !andb_true_iff in T.
    destruct T as [[_ T9] T10]. apply Bool.eqb_prop in T9.
    assert ((length e / 8)%nat = length visits) as Ldiv.
    { rewrite Le. unfold h, w, zh, zw. rewrite <- N2Z.inj_mul.
      replace (Z.to_nat (Z.of_N (content_height s * content_width s))) with (N.to_nat (content_width s * content_height s)) by lia.
      assert (N.of_nat (length visits) = ntotal s) as Hc by exact Hcnt. unfold ntotal in Hc.
      destruct (has_padding_modules s).
      - symmetry in T9. apply N.eqb_eq in T9. rewrite T9.
        replace (N.to_nat (8 * (num_data_codewords s + num_ecc_blocks s * num_ecc_per_block s) + 4)) with (4 + length visits * 8)%nat by lia.
        rewrite Nat.div_add by lia. reflexivity.
      - apply N.eqb_eq in T10. rewrite T10.
        replace (N.to_nat (8 * (num_data_codewords s + num_ecc_blocks s * num_ecc_per_block s))) with (length visits * 8)%nat by lia.
        apply Nat.div_mul. lia. }
    rewrite Ldiv, Nat.ltb_irrefl, Nat.sub_diag. cbn [repeat]. rewrite app_nil_r. f_equal.
    rewrite map_map. rewrite Lv.
    apply (nth_ext _ _ 0%N 0%N); [rewrite map_length, seq_length; reflexivity|].
    intros k Hk. rewrite map_length, seq_length in Hk.
    rewrite (nth_map2 _ _ _ _ 0%nat) by (rewrite seq_length; exact Hk).
    rewrite seq_nth by exact Hk. cbn [Nat.add]. unfold g. apply bits_roundtrip.
    rewrite Forall_forall in Hb. apply Hb, nth_In. exact Hk.
  - intros P. destruct (P2 P) as (Q1 & Q2 & Q3 & Q4). repeat split; rewrite Ne by nia; assumption.
Qed.
