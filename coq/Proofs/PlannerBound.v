(* Proofs/PlannerBound.v -- property C19: the planner executes at most 216 * (n + 1) + 5 plan steps
   and keeps at most 36 plans alive, for every input, symbol list, mode set and every behaviour of
   the sort (the bound needs nothing about costs, the six Plan implementations or the order). *)
From Coq Require Import Arith NArith List Bool Lia.
From DM Require Import Generated.Symbols Generated.ModeTables Model.Outcome Model.SymbolList Model.Planner.
Import ListNotations.
Local Open Scope N_scope.

Lemma et_index_bound m : et_index m <= 5.
Proof. destruct m; cbn; lia. Qed.

(* ---- at most one plan per (start mode, current mode) ---- *)
Lemma nodup_bounded_length (l : list N) : NoDup l -> (forall x, In x l -> x < 36) -> (length l <= 36)%nat.
Proof.
  intros ND B.
  assert (incl l (map N.of_nat (seq 0 36))) as I.
  { intros x Hx. apply in_map_iff. exists (N.to_nat x). split; [lia|]. apply in_seq. specialize (B x Hx). lia. }
  pose proof (NoDup_incl_length ND I) as L. rewrite map_length, seq_length in L. exact L.
Qed.

Lemma dedup_bound l : forall seen r, dedup l seen = Ok r -> NoDup seen -> (forall x, In x seen -> x < 36) ->
  (length r + length seen <= 36)%nat.
Proof.
  induction l as [|pl t IH]; intros seen r H ND B; cbn [dedup] in H.
  - inversion H; subst. cbn. now apply nodup_bounded_length.
  - destruct (gp_start_mode pl) as [sm| |] eqn:E; cbn [bind] in H; try discriminate.
    set (idx := et_index sm * 6 + et_index (gp_current pl)) in *.
    destruct (existsb (N.eqb idx) seen) eqn:Ex.
    + now apply (IH seen r).
    + destruct (dedup t (idx :: seen)) as [r'| |] eqn:D; cbn [bind] in H; try discriminate.
      inversion H; subst. cbn [length].
      assert (length r' + length (idx :: seen) <= 36)%nat as L.
      { apply (IH _ _ D).
        - constructor; [|exact ND]. intros Hin.
          assert (existsb (N.eqb idx) seen = true) as C; [|congruence].
          apply existsb_exists. exists idx. split; [exact Hin|apply N.eqb_refl].
        - intros x [<-|Hx]; [|now apply B]. unfold idx.
          pose proof (et_index_bound sm). pose proof (et_index_bound (gp_current pl)). lia. }
      cbn [length] in L. lia.
Qed.

Lemma dominate_length sl first tail : forall r unc, dominate sl first tail = Ok (r, unc) -> (length r <= length tail)%nat.
Proof.
  induction tail as [|second t IH]; intros r unc H; cbn [dominate] in H.
  - inversion H; subst. cbn. lia.
  - destruct (gp_cost_for_switching_to sl first (gp_current second)) as [[fc|]| |]; cbn [bind] in H; try discriminate.
    + destruct (gp_cost sl second) as [sc| |]; cbn [bind] in H; try discriminate.
      destruct (dominate sl first t) as [[r' u']| |] eqn:D; cbn [bind] in H; try discriminate.
      specialize (IH _ _ eq_refl).
      destruct (fc <? sc); inversion H; subst; cbn [length]; lia.
    + inversion H; subst. lia.
Qed.

Lemma prune_length sl fuel : forall done rest r, prune sl fuel done rest = Ok r ->
  (length r <= length done + length rest)%nat.
Proof.
  induction fuel as [|f IH]; intros done rest r H; cbn [prune] in H; [discriminate|].
  destruct rest as [|first [|x tail]].
  - inversion H; subst. rewrite app_nil_r. cbn. lia.
  - inversion H; subst. rewrite app_length. cbn. lia.
  - destruct (dominate sl first (x :: tail)) as [[tail' unc]| |] eqn:D; cbn [bind] in H; try discriminate.
    pose proof (dominate_length _ _ _ _ _ D) as L.
    destruct unc.
    + apply IH in H. rewrite app_length in H. cbn [length] in *. lia.
    + inversion H; subst. rewrite app_length. cbn [length] in *. lia.
Qed.

Lemma remove_hopeless_bound sl sorted r : remove_hopeless_cases sl sorted = Ok r -> (length r <= 36)%nat.
Proof.
  unfold remove_hopeless_cases. destruct (dedup sorted []) as [l| |] eqn:D; cbn [bind]; try discriminate.
  intros H. apply prune_length in H. cbn [length] in H.
  pose proof (dedup_bound _ _ _ D (NoDup_nil _) ltac:(intros x [])) as B. cbn [length] in B. lia.
Qed.

(* ---- add_switches: at most five new plans, at most five steps ---- *)
Lemma add_switch_bound sl g ctx ac rl st mode extra l s l' s' :
  add_switch sl g ctx ac rl st mode extra (l, s) = Ok (l', s') ->
  (length l' <= length l + 1)%nat /\ s' = s + 1.
Proof.
  unfold add_switch. intros H.
  destruct (if st then _ else _) as [sw| |]; cbn [bind] in H; try discriminate.
  match type of H with (let* stepped := ?X in _) = _ => destruct X as [[pl|]| |] end; cbn [bind] in H; try discriminate;
    inversion H; subst; rewrite ?app_length; cbn [length]; split; lia.
Qed.

Lemma add_switch_all_bound sl g ctx ac rl st todo : forall l s l' s',
  add_switch_all sl g ctx ac rl st todo (l, s) = Ok (l', s') ->
  (length l' <= length l + length todo)%nat /\ s' = s + N.of_nat (length todo).
Proof.
  induction todo as [|[mode extra] t IH]; intros l s l' s' H; cbn [add_switch_all] in H.
  - inversion H; subst. cbn. split; lia.
  - destruct (add_switch sl g ctx ac rl st mode extra (l, s)) as [[l1 s1]| |] eqn:A; cbn [bind] in H; try discriminate.
    apply add_switch_bound in A. apply IH in H. cbn [length]. destruct A, H. split; lia.
Qed.

Lemma switch_targets_bound cur modes :
  (length (filter (fun me => negb (et_eqb cur (fst me)) && enabled modes (fst me)) switch_order) <= 5)%nat.
Proof.
  unfold switch_order. cbn [filter fst].
  destruct cur; cbn [et_eqb et_index N.eqb Pos.eqb negb andb];
    repeat match goal with |- context [enabled modes ?m] => destruct (enabled modes m) end; cbn [length]; lia.
Qed.

Lemma add_switches_bound sl g rl st modes s l s' :
  gp_add_switches sl g rl st modes s = Ok (l, s') -> (length l <= 5)%nat /\ s <= s' <= s + 5.
Proof.
  unfold gp_add_switches. destruct (gp_mode_switch_cost g) as [ac|]; [|intros H; inversion H; subst; cbn; split; lia].
  destruct (gp_write_unlatch g) as [ctx| |]; cbn [bind]; try discriminate.
  intros H. apply add_switch_all_bound in H. pose proof (switch_targets_bound (gp_current g) modes) as B.
  cbn [length] in H. destruct H as [H1 H2]. split; lia.
Qed.

(* ---- one pass over the live plans: at most six steps per plan ---- *)
Lemma step_all_bound sl plans : forall rc uas modes np ae s np' ae' s',
  step_all sl plans rc uas modes np ae s = Ok (np', ae', s') -> s <= s' <= s + 6 * N.of_nat (length plans).
Proof.
  induction plans as [|plan r IH]; intros rc uas modes np ae s np' ae' s' H; cbn [step_all] in H.
  - inversion H; subst. cbn. lia.
  - destruct (gp_step sl plan) as [o| |]; cbn [bind] in H; try discriminate.
    destruct o as [[result plan']|].
    + destruct (negb (sr_unbeatable result) && negb (sr_end result)).
      * destruct (gp_add_switches sl plan rc uas modes (s + 1)) as [[added s1]| |] eqn:A; cbn [bind] in H; try discriminate.
        apply add_switches_bound in A.
        destruct (negb (Bool.eqb _ _)); [discriminate|]. apply IH in H. cbn [length]. lia.
      * cbn [bind] in H. destruct (negb (Bool.eqb _ _)); [discriminate|]. apply IH in H. cbn [length]. lia.
    + destruct (gp_add_switches sl plan rc uas modes (s + 1)) as [[added s1]| |] eqn:A; cbn [bind] in H; try discriminate.
      apply add_switches_bound in A. apply IH in H. cbn [length]. lia.
Qed.

(* ---- the main loop ---- *)
Section Loop.
Variable sl : list SymbolSize.
Variable sorter : nat -> list generic_plan -> PR (list generic_plan).

Lemma opt_loop_bound fuel : forall it n w modes plans new_plan st res st',
  opt_loop sl sorter fuel it n w modes plans new_plan st = Ok (res, st') ->
  (length plans <= 36)%nat ->
  st_max_live st' <= N.max (st_max_live st) 36 /\
  st_iterations st < st_iterations st' /\
  st_iterations st' - st_iterations st + N.of_nat it <= n + 1 /\
  st_steps st' <= st_steps st + 216 * (st_iterations st' - st_iterations st).
Proof.
  induction fuel as [|f IH]; intros it n w modes plans new_plan st res st' H HP; cbn [opt_loop] in H; [discriminate|].
  destruct (n <? N.of_nat it) eqn:Ov; [discriminate|]. apply N.ltb_ge in Ov.
  destruct (step_all sl plans (n - N.of_nat it) (Nat.eqb it 0) modes new_plan _ (st_steps st)) as [[[np ae] steps]| |] eqn:SA;
    cbn [bind] in H; try discriminate.
  apply step_all_bound in SA.
  destruct (sorter it np) as [sorted| |]; cbn [bind] in H; try discriminate.
  destruct (remove_hopeless_cases sl sorted) as [np2| |] eqn:RH; cbn [bind] in H; try discriminate.
  pose proof (remove_hopeless_bound _ _ _ RH) as LB.
  destruct np2 as [|p0 rest].
  - inversion H; subst. cbn [st_max_live st_iterations st_steps length] in *. repeat split; lia.
  - assert (N.of_nat (length (p0 :: rest)) <= 36) as LB' by lia.
    set (live := N.of_nat (length (p0 :: rest))) in *. clearbody live.
    destruct ae.
    + (* at the end: select and return *)
      destruct (with_keys sl (p0 :: rest)) as [keyed| |]; cbn [bind] in H; try discriminate.
      destruct keyed as [|[p k] r]; [discriminate|].
      destruct (gp_cost sl (min_by p k r)) as [c| |]; cbn [bind] in H; try discriminate.
      inversion H; subst. cbn [st_max_live st_iterations st_steps] in *. repeat split; try lia.
    + apply IH in H; [|exact LB]. cbn [st_max_live st_iterations st_steps] in H.
      destruct H as (H1 & H2 & H3 & H4). repeat split; try lia.
Qed.
End Loop.

Theorem optimize_bound sl sorter data written mode modes res st :
  optimize sl sorter data written mode modes = Ok (res, st) ->
  st_max_live st <= 36 /\ st_iterations st <= N.of_nat (length data) + 1 /\
  st_steps st <= 216 * (N.of_nat (length data) + 1) + 5.
Proof.
  unfold optimize. intros H. set (n := N.of_nat (length data)) in *.
  destruct (enabled modes mode).
  - cbn [bind] in H. apply opt_loop_bound in H; [|cbn; lia].
    cbn [st_max_live st_iterations st_steps] in H. destruct H as (H1 & H2 & H3 & H4). repeat split; lia.
  - destruct (gp_add_switches sl _ _ true modes 0) as [[added steps]| |] eqn:A; cbn [bind] in H; try discriminate.
    apply add_switches_bound in A.
    apply opt_loop_bound in H; [|cbn; lia].
    cbn [st_max_live st_iterations st_steps] in H. destruct H as (H1 & H2 & H3 & H4). repeat split; lia.
Qed.
