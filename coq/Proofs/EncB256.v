(* Proofs/EncB256.v -- the data layer for the Base256-only configuration (ASCII disabled): the optimiser can only
   answer "Base256 from the first character to the end" (Proofs/PlanB256.v), and under that plan the encoder's output
   is the rendering of a legal script of Spec/Stream16022.v -- a Base256 run with explicit length and padding, or the
   run-to-the-end form when it fills the symbol exactly -- hence decodes to the input (C04). *)
From Coq Require Import Arith NArith List Bool Lia.
From DM Require Import Generated.Symbols Generated.ModeTables Model.Outcome Model.SymbolList Model.Planner Model.PlannerRun Model.Eci Model.Enc
  Model.Dec Model.Api Spec.Stream16022 Proofs.SymbolListProofs Proofs.EncLocal Proofs.EncTop Proofs.EncAscii Proofs.PlanB256
  Proofs.DecStream Proofs.DecStreamC40 Proofs.DecStreamEdi Proofs.DecScript.
Import ListNotations.
Local Open Scope N_scope.

(* randomising a run in place = the specification's rand255_run *)
Lemma randomize_run l : forall k start,
  map (fun ic : nat * N => randomize_255_state (snd ic) (N.of_nat (start + fst ic + 1))) (combine (seq k (length l)) l)
  = rand255_run l (N.of_nat (start + k + 1)).
Proof.
  induction l as [|x r IH]; intros k start; cbn [length seq combine map rand255_run]; [reflexivity|].
  rewrite IH. f_equal. f_equal. lia.
Qed.

(* inside the Base256 run the plan [(0, Base256)] never asks for a switch *)
Definition in_b256 (e : enc) : Prop := e_planned e = [(0, Base256)] /\ e_encodation e = Base256.

Lemma maybe_switch_in_b256 e : in_b256 e -> maybe_switch_mode e = Ok (false, e).
Proof.
  intros [P A]. unfold maybe_switch_mode. rewrite P, A.
  replace (0 <=? chars_left e) with true by (symmetry; apply N.leb_le; lia). cbn [negb].
  assert ((0 <? chars_left e) && (chars_left e =? 0) = false) as ->.
  { destruct (N.eqb_spec (chars_left e) 0) as [->|]; [reflexivity|now rewrite andb_false_r]. }
  rewrite (proj2 (N.eqb_eq _ _) eq_refl : et_eqb Base256 Base256 = true). cbn [negb].
  destruct e; cbn in *; subst; reflexivity.
Qed.

(* the loop copies every remaining byte, then writes the length *)
Lemma b256_loop_copy fuel : forall e start, in_b256 e -> (length (e_data e) < fuel)%nat ->
  b256_loop fuel e start =
  (let* e2 := b256_write_length (set_data (set_cw e (e_cw e ++ e_data e)) []) start in
   Ok (if negb (has_more e2) then set_ascii_until_end e2 else e2)).
Proof.
  induction fuel as [|f IH]; intros e start IB Hf; [lia|]. cbn [b256_loop].
  destruct (e_data e) as [|ch t] eqn:ED.
  - unfold eat. rewrite ED. unfold has_more. rewrite ED. cbn [negb]. rewrite app_nil_r.
    assert (set_data (set_cw e (e_cw e)) [] = e) as -> by (destruct e; cbn in *; subst; reflexivity). reflexivity.
  - unfold eat. rewrite ED. set (e1 := push (set_data e t) ch).
    assert (in_b256 e1) as IB1 by (destruct IB; split; assumption).
    destruct t as [|c2 t2].
    + unfold has_more. cbn [e_data e1 push set_cw set_data negb].
      assert (e1 = set_data (set_cw e (e_cw e ++ [ch])) []) as -> by reflexivity. reflexivity.
    + unfold has_more at 1. cbn [e_data e1 push set_cw set_data negb].
      rewrite (maybe_switch_in_b256 e1 IB1). cbn [bind].
      rewrite (IH e1 start IB1) by (cbn [e_data e1 push set_cw set_data length] in *; lia).
      cbn [e_cw e_data e1 push set_cw set_data]. rewrite <- app_assoc. reflexivity.
Qed.

Lemma rand_same ch pos : randomize_255_state ch pos = rand255 ch pos.
Proof. reflexivity. Qed.

(* the in-place randomisation at the end of write_length, for a run that starts right after the latch at index 0 *)
Lemma finish_write e m : forall cw dw, cw = 231 :: m -> dw = length m ->
  (if (length cw <? 1 + dw)%nat then Panic PIndex else
   Ok (set_cw e (firstn 1 cw ++
                 map (fun ic : nat * N => randomize_255_state (snd ic) (N.of_nat (1 + fst ic + 1)))
                     (combine (seq 0 dw) (firstn dw (skipn 1 cw))) ++ skipn (1 + dw) cw)))
  = (Ok (set_cw e (231 :: rand255_run m 2)) : ER enc).
Proof.
  intros cw dw -> ->. cbn [length]. rewrite Nat.ltb_irrefl.
  cbn [firstn skipn app Nat.add]. rewrite firstn_all, skipn_all, app_nil_r.
  pose proof (randomize_run m 0 1) as R. cbn [Nat.add] in R. rewrite R. reflexivity.
Qed.

(* writing the length field of a run that starts right after the latch at index 0 *)
Lemma write_length_spec e d e' : e_data e = [] -> e_cw e = 231 :: 0 :: d -> d <> [] ->
  b256_write_length e 1 = Ok e' ->
  exists s, symbol_for e 0 = Some s /\ e' = set_cw e (e_cw e') /\
    ((cw_len e < num_data_codewords s /\ N.of_nat (length d) <= 1555 /\
      e_cw e' = 231 :: rand255_run (len_field (N.of_nat (length d)) ++ d) 2) \/
     (cw_len e = num_data_codewords s /\ e_cw e' = 231 :: rand255_run (0 :: d) 2)).
Proof.
  intros ED EC ND. unfold b256_write_length, ssl, symbol_size_left.
  destruct (symbol_for e 0) as [s|] eqn:SF; cbn [bind]; [|discriminate].
  assert (cw_len e <= num_data_codewords s) as FIT.
  { unfold symbol_for in SF. apply first_fit_In in SF. rewrite N.add_0_r in SF. apply SF. }
  rewrite N.add_0_r. rewrite EC. cbn [length]. change (S (S (length d)) <? 1)%nat with false. cbv iota.
  replace (S (S (length d)) - 1)%nat with (S (length d)) by lia.
  unfold has_more. rewrite ED. cbn [orb].
  assert (cw_len e = N.of_nat (length d) + 2) as CL by (unfold cw_len; rewrite EC; cbn [length]; lia).
  set (n := N.of_nat (length d)) in *.
  assert (1 <= n) as N1 by (unfold n; destruct d; [congruence|cbn [length]; lia]).
  destruct (N.ltb_spec 0 (num_data_codewords s - cw_len e)) as [SP|SP].
  - (* room left: explicit length *)
    cbn [Nat.eqb]. replace (S (length d) - 1)%nat with (length d) by lia. fold n.
    unfold len_field. destruct (N.leb_spec n 249) as [S1|S1].
    + destruct (N.ltb_spec n 250); [|lia]. cbn [set_nth_N bind].
      erewrite (finish_write e (n :: d)); [|reflexivity|reflexivity].
      intros [= <-]. exists s. split; [reflexivity|]. split; [reflexivity|]. left.
      split; [lia|]. split; [lia|]. reflexivity.
    + destruct (N.ltb_spec n 250); [lia|]. destruct (N.leb_spec n 1555) as [S2|S2]; [|discriminate].
      cbn [set_nth_N bind]. cbn [length]. change (S (S (length d)) <? 1 + 1)%nat with false. cbv iota.
      cbn [bind]. change (firstn (1 + 1) (231 :: n / 250 + 249 :: d) ++ [n mod 250] ++ skipn (1 + 1) (231 :: n / 250 + 249 :: d))
        with (231 :: n / 250 + 249 :: n mod 250 :: d).
      erewrite (finish_write e (n / 250 + 249 :: n mod 250 :: d)); [|reflexivity|reflexivity].
      intros [= <-]. exists s. split; [reflexivity|]. split; [reflexivity|]. left.
      split; [lia|]. split; [lia|]. reflexivity.
  - (* the run fills the symbol exactly: length 0 = to the end *)
    cbn [bind]. erewrite (finish_write e (0 :: d)); [|reflexivity|reflexivity].
    intros [= <-]. exists s. split; [reflexivity|]. split; [reflexivity|]. right. split; [lia|reflexivity].
Qed.

Definition b256_plan (data : list N) : list (N * EncodationType) := [(N.of_nat (length data), Base256); (0, Base256)].

Lemma main_loop_S f e nwr : main_loop (S f) e nwr =
  if negb (has_more e) then Ok e else
  let e0 := match e_new_mode e with
            | Some m => push (mkenc (e_data e) (e_input e) (e_encodation e) (e_planned e) None (e_cw e) (e_modes e) (e_symbols e)) m
            | None => e end in
  let len := length (e_cw e0) in
  let* e' := mode_encode e0 in
  if (length (e_cw e') <? len)%nat then Panic POverflow else
  let ww := (length (e_cw e') - len)%nat in
  if (ww <=? 1)%nat then (let n := nwr + 1 in if 5 <? n then Panic PAssert else main_loop f e' n) else main_loop f e' 0.
Proof. reflexivity. Qed.

Section Pass.
Variables (data : list N) (modes : N) (symbols : list SymbolSize).
Hypothesis ND : data <> [].
Let e0 := mkenc data data Ascii (b256_plan data) None [] modes symbols.
Let e1 := mkenc data data Base256 [(0, Base256)] (Some 231) [] modes symbols.
Let e2 := mkenc data data Base256 [(0, Base256)] None [231] modes symbols.
Let ex := mkenc [] data Base256 [(0, Base256)] None (231 :: 0 :: data) modes symbols.

Lemma pass1 : mode_encode e0 = Ok e1.
Proof.
  unfold mode_encode. cbn [e_encodation e0 ascii_encode]. unfold maybe_switch_mode. cbn [e_planned e0 b256_plan].
  unfold chars_left. cbn [e_data e0]. rewrite N.leb_refl, N.eqb_refl. cbn [negb].
  replace (0 <? N.of_nat (length data)) with true by (symmetry; apply N.ltb_lt; destruct data; [congruence|cbn [length]; lia]).
  cbn [andb e_encodation e0]. change (negb (et_eqb Base256 Ascii)) with true. cbv iota.
  change (et_latch_from_ascii Base256) with (Some 231). cbn [bind]. reflexivity.
Qed.

Lemma pass2 : mode_encode e2 =
  (let* e' := b256_write_length ex 1 in Ok (if negb (has_more e') then set_ascii_until_end e' else e')).
Proof.
  unfold mode_encode. cbn [e_encodation e2]. unfold base256_encode. cbn [e_cw e2 length e_data].
  rewrite b256_loop_copy; [|split; reflexivity|cbn [e_data push set_cw e2]; lia]. reflexivity.
Qed.
End Pass.

(* the main loop under the Base256 plan, for a non-empty message and no header *)
Lemma main_loop_b256 data symbols modes fuel e3 : data <> [] -> (3 <= fuel)%nat ->
  main_loop fuel (mkenc data data Ascii (b256_plan data) None [] modes symbols) 0 = Ok e3 ->
  e_encodation e3 = Ascii /\ e_symbols e3 = symbols /\
  exists s, first_symbol_big_enough_for symbols (N.of_nat (length data) + 2) = Some s /\
    ((N.of_nat (length data) + 2 < num_data_codewords s /\ N.of_nat (length data) <= 1555 /\
      e_cw e3 = 231 :: rand255_run (len_field (N.of_nat (length data)) ++ data) 2) \/
     (N.of_nat (length data) + 2 = num_data_codewords s /\ e_cw e3 = 231 :: rand255_run (0 :: data) 2)).
Proof.
  intros ND Hf. destruct fuel as [|[|[|f]]]; try lia.
  assert (forall x y z w v u t, has_more (mkenc data x y z w v u t) = true) as HM1
    by (intros; unfold has_more; cbn [e_data]; destruct data; [congruence|reflexivity]).
  rewrite main_loop_S, HM1. cbn [negb e_new_mode]. cbv zeta. rewrite (pass1 data modes symbols ND). cbn [bind e_cw length Nat.ltb Nat.leb Nat.sub].
  change (5 <? 0 + 1) with false. cbv iota.
  rewrite main_loop_S, HM1. cbn [negb e_new_mode e_data e_input e_encodation e_planned e_cw e_modes e_symbols push set_cw app]. cbv zeta.
  change (push (mkenc data data Base256 [(0, Base256)] None [] modes symbols) 231) with (mkenc data data Base256 [(0, Base256)] None [231] modes symbols).
  rewrite (pass2 data modes symbols).
  set (ex := mkenc [] data Base256 [(0, Base256)] None (231 :: 0 :: data) modes symbols).
  destruct (b256_write_length ex 1) as [e'| |] eqn:WL; cbn [bind]; try discriminate.
  destruct (write_length_spec ex data e' eq_refl eq_refl ND WL) as (s & SF & EE & CASES).
  assert (has_more e' = false) as HM by (rewrite EE; reflexivity). rewrite HM. cbn [negb].
  assert (3 <= length (e_cw e'))%nat as L3.
  { assert (1 <= length data)%nat by (destruct data; [congruence|cbn [length]; lia]).
    destruct CASES as [(_ & _ & C)|(_ & C)]; rewrite C; cbn [length]; rewrite rand255_run_length; [rewrite app_length; unfold len_field; destruct (_ <? 250)|]; cbn [length]; lia. }
  cbn [e_cw set_ascii_until_end length]. destruct (Nat.ltb_spec (length (e_cw e')) 1); [lia|].
  destruct (Nat.leb_spec (length (e_cw e') - 1) 1); [lia|].
  rewrite main_loop_S. unfold has_more at 1. cbn [e_data set_ascii_until_end]. rewrite EE at 1. cbn [e_data set_cw negb]. intros [= <-].
  cbn [e_encodation e_symbols e_cw set_ascii_until_end]. split; [reflexivity|]. split; [rewrite EE; reflexivity|].
  exists s. unfold symbol_for, cw_len in SF. cbn [e_symbols e_cw ex length] in SF.
  replace (N.of_nat (S (S (length data))) + 0) with (N.of_nat (length data) + 2) in SF by lia. split; [exact SF|].
  unfold cw_len in CASES. cbn [e_cw ex length] in CASES.
  replace (N.of_nat (S (S (length data)))) with (N.of_nat (length data) + 2) in CASES by lia. exact CASES.
Qed.

(* the data layer for the Base256-only configuration: every byte string, every symbol list, every admissible sort *)
Theorem b256_only_roundtrip sorter data symbols cw s :
  (forall k l l', sorter symbols k l = Ok l' -> incl l' l) -> bytes_ok data = true ->
  encode_data_internal (optimize_fn sorter) data symbols None 32 false false = Ok (cw, s) ->
  (exists script npad, script_ok script npad = true /\ cw = stream script npad /\ meaning script = data) /\
  decode_data cw = Ok data.
Proof.
  intros HS OK H.
  assert (exists script npad, script_ok script npad = true /\ cw = stream script npad /\ meaning script = data) as (script & npad & SO & CW & ME).
  2:{ split; [exists script, npad; auto|]. rewrite CW, (decode_script _ _ SO), ME. reflexivity. }
  revert H. unfold encode_data_internal. cbv zeta. cbn [bind]. unfold codewords. cbn [with_size e_symbols e_data e_modes e_input e_encodation e_new_mode e_cw].
  destruct symbols as [|s0 sr] eqn:ES; [discriminate|]. rewrite <- ES in *.
  destruct (_ <? _); [discriminate|]. destruct (upper_limit_for_number_of_codewords _ _); [|discriminate].
  change (cw_len (with_size data symbols 32 false)) with 0.
  unfold optimize_fn. destruct (optimize symbols (sorter symbols) data 0 Ascii 32) as [[p st]| |] eqn:EO; cbn [bind lift]; try discriminate.
  destruct p as [p|]; [|discriminate].
  rewrite (b256_only_plan symbols (sorter symbols) HS data 0 p st EO). fold (b256_plan data).
  destruct (main_loop _ _ 0) as [e3| |] eqn:ML; cbn [bind]; try discriminate.
  unfold symbol_for. destruct (first_symbol_big_enough_for (e_symbols e3) (cw_len e3 + 0)) as [s'|] eqn:FF; [|discriminate].
  destruct (add_padding e3 s') as [e4| |] eqn:AP; cbn [bind]; try discriminate. intros [= <- <-].
  apply add_padding_spec in AP. destruct AP as (L & C4 & _).
  destruct data as [|d0 dr] eqn:ED.
  - (* empty message: nothing but padding *)
    cbn [main_loop Nat.mul Nat.add length] in ML. unfold has_more in ML. cbn [e_data negb] in ML. inversion ML; subst e3. clear ML.
    cbn [e_cw e_encodation app] in C4. rewrite (proj2 (N.eqb_eq _ _) eq_refl : et_eqb Ascii Ascii = true) in C4.
    rewrite padding_pad in C4. exists [], (N.to_nat (num_data_codewords s' - cw_len (mkenc [] [] Ascii (b256_plan []) None [] 32 symbols))).
    split; [reflexivity|]. split; [|reflexivity]. rewrite C4. reflexivity.
  - rewrite <- ED in *. assert (data <> []) as ND by (rewrite ED; discriminate).
    destruct (main_loop_b256 data symbols 32 (6 * length data + 12)%nat e3 ND ltac:(lia) ML) as (EA & ESy & s1 & F1 & CASES).
    rewrite EA in C4. rewrite (proj2 (N.eqb_eq _ _) eq_refl : et_eqb Ascii Ascii = true) in C4. rewrite padding_pad in C4.
    destruct CASES as [(LT & LE & C3)|(EQ & C3)].
    + exists [SB256 data], (N.to_nat (num_data_codewords s' - cw_len e3)). split; [|split].
      * cbn [script_ok segment_ok term_of]. rewrite OK. cbn [andb].
        replace (1 <=? N.of_nat (length data)) with true by (symmetry; apply N.leb_le; destruct data; [congruence|cbn [length]; lia]).
        replace (N.of_nat (length data) <=? 1555) with true by (symmetry; apply N.leb_le; exact LE). reflexivity.
      * rewrite C4. unfold stream. cbn [render segment_cw]. cbv zeta. rewrite app_nil_r. rewrite N.add_0_l, C3. unfold cw_len. rewrite C3. reflexivity.
      * unfold meaning. cbn [flat_map segment_data]. apply app_nil_r.
    + exists [SB256End data], 0%nat. split; [|split].
      * cbn [script_ok segment_ok]. rewrite OK. reflexivity.
      * assert (cw_len e3 = N.of_nat (length data) + 2) as CL.
        { unfold cw_len. rewrite C3. cbn [length]. rewrite rand255_run_length. cbn [length]. lia. }
        rewrite ESy, CL, N.add_0_r, F1 in FF. inversion FF; subst s'.
        rewrite C4, CL, <- EQ, N.sub_diag. cbn [N.to_nat pad]. rewrite app_nil_r.
        unfold stream. cbn [render segment_cw pad]. cbv zeta. rewrite !app_nil_r, N.add_0_l. exact C3.
      * unfold meaning. cbn [flat_map segment_data]. apply app_nil_r.
Qed.
