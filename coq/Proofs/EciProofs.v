(* Proofs/EciProofs.v -- property C15 (and the table part of C14): designators, character sets, UTF-8 *)
From Coq Require Import ZArith NArith List Bool Lia.
From DM Require Import Generated.ModeTables Generated.Charsets Spec.GF256 Spec.Eci Model.Outcome Model.Dec Model.Eci.
Import ListNotations.
Local Open Scope N_scope.
Ltac Zify.zify_post_hook ::= Z.div_mod_to_equations.

Ltac bool_cases :=
  repeat match goal with
  | |- context [?a <=? ?b] => destruct (N.leb_spec a b)
  | |- context [?a <? ?b] => destruct (N.ltb_spec a b)
  | |- context [?a =? ?b] => destruct (N.eqb_spec a b)
  end; cbn [andb orb negb]; try lia.

Ltac ltb_false := match goal with |- context [?a <? ?b] => replace (a <? b) with false by (symmetry; apply N.ltb_ge; lia) end.
Ltac ltb_true := match goal with |- context [?a <? ?b] => replace (a <? b) with true by (symmetry; apply N.ltb_lt; lia) end.
Ltac leb_true := match goal with |- context [?a <=? ?b] => replace (a <=? b) with true by (symmetry; apply N.leb_le; lia) end.
Ltac leb_false := match goal with |- context [?a <=? ?b] => replace (a <=? b) with false by (symmetry; apply N.leb_gt; lia) end.
Ltac resolve_cmp := repeat (first [leb_true | leb_false | ltb_true | ltb_false]; cbn [andb orb negb]).

Ltac ndm_one a b :=
  let q := fresh "q" in let r := fresh "r" in let E := fresh "E" in let L := fresh "L" in
  pose proof (N.div_mod a b ltac:(lia)) as E; pose proof (N.mod_lt a b ltac:(lia)) as L;
  set (q := a / b) in *; set (r := a mod b) in *; clearbody q r.
Ltac ndm := repeat match goal with
  | |- context [?a / ?b] => ndm_one a b
  | |- context [?a mod ?b] => ndm_one a b
  | H : context [?a / ?b] |- _ => ndm_one a b
  | H : context [?a mod ?b] |- _ => ndm_one a b
  end.

(* ---------- designators ---------- *)
Lemma write_eci_spec c : c <= 999999 -> write_eci c = Ok (241 :: Spec.Eci.designator c).
Proof.
  intros H. unfold write_eci, Spec.Eci.designator. change ascii_ECI with 241.
  destruct (N.leb_spec c 126); [reflexivity|]. destruct (N.leb_spec c 16382); [reflexivity|].
  destruct (N.leb_spec c 999999); [reflexivity|lia].
Qed.

Lemma write_eci_panics c : 999999 < c -> write_eci c = Panic PAssert.
Proof. intros H. unfold write_eci. resolve_cmp. reflexivity. Qed.

Lemma parse_designator_designator c rest : c <= 999999 ->
  parse_designator (Spec.Eci.designator c ++ rest) = Some (c, length (Spec.Eci.designator c)).
Proof.
  intros H. unfold Spec.Eci.designator.
  destruct (N.leb_spec c 126) as [H1|H1].
  - cbn [app parse_designator length]. resolve_cmp. f_equal. f_equal. lia.
  - destruct (N.leb_spec c 16382) as [H2|H2].
    + cbn [app parse_designator length]. unfold Spec.Eci.in_1_254. ndm. resolve_cmp. f_equal. f_equal. lia.
    + cbn [app parse_designator length]. unfold Spec.Eci.in_1_254. ndm. resolve_cmp. f_equal. f_equal. lia.
Qed.

(* the model's read_eci is the standard's parser: same acceptance, same number, same length *)
Lemma read_eci_spec r :
  match parse_designator (rd r) with
  | Some (e, k) => read_eci r = Ok (mkrd (skipn k (rd r)) (cnt r + N.of_nat k), e)
  | None => exists err, read_eci r = Err err
  end.
Proof.
  unfold read_eci, parse_designator, Dec.in_1_254, Spec.Eci.in_1_254.
  destruct (rd r) as [|c1 t1]; [eauto|].
  destruct ((1 <=? c1) && (c1 <=? 127)); [reflexivity|].
  destruct ((128 <=? c1) && (c1 <=? 191)).
  { destruct t1 as [|c2 t2]; [eauto|]. destruct ((1 <=? c2) && (c2 <=? 254)); cbn [negb]; [reflexivity|eauto]. }
  destruct ((192 <=? c1) && (c1 <=? 207)); [|eauto].
  destruct t1 as [|c2 t2]; [eauto|]. destruct ((1 <=? c2) && (c2 <=? 254)); cbn [negb andb]; [|destruct t2; eauto].
  destruct t2 as [|c3 t3]; [eauto|]. destruct ((1 <=? c3) && (c3 <=? 254)); cbn [negb]; [reflexivity|eauto].
Qed.

Lemma read_write_eci c rest n : c <= 999999 ->
  read_eci (mkrd (Spec.Eci.designator c ++ rest) n) = Ok (mkrd rest (n + N.of_nat (length (Spec.Eci.designator c))), c).
Proof.
  intros H. pose proof (read_eci_spec (mkrd (Spec.Eci.designator c ++ rest) n)) as S. cbn [rd cnt] in S.
  rewrite parse_designator_designator in S by exact H. rewrite S. f_equal. f_equal. f_equal.
  rewrite skipn_app, skipn_all, Nat.sub_diag. reflexivity.
Qed.

(* ---------- 8-bit character sets: per-byte sweeps against the formulas ---------- *)
Definition opt_eqb (o1 o2 : option N) : bool :=
  match o1, o2 with Some x, Some y => x =? y | None, None => true | _, _ => false end.
Lemma opt_eqb_eq o1 o2 : opt_eqb o1 o2 = true -> o1 = o2.
Proof. destruct o1, o2; cbn; try discriminate; try reflexivity. intros H. apply N.eqb_eq in H. now subst. Qed.

Definition step9 (ch : N) : option N :=
  if (32 <=? ch) && (ch <=? 126) then Some ch
  else if (160 <=? ch) && (ch <=? 255) then nth_error ISO_8859_9 (N.to_nat (ch - 160)) else None.
Definition step11 (ch : N) : option N :=
  if (32 <=? ch) && (ch <=? 126) then Some ch
  else if (160 <=? ch) && (ch <=? 218) then nth_error ISO_8859_11 (N.to_nat (ch - 160))
  else if (223 <=? ch) && (ch <=? 251) then nth_error ISO_8859_11 (N.to_nat (ch - 160 - 4)) else None.

Lemma charset_sweep : forallb (fun b =>
     opt_eqb (latin1_to_utf8_ch b) (iso_8859_1 b) && opt_eqb (step9 b) (iso_8859_9 b) &&
     opt_eqb (step11 b) (iso_8859_11 b)) bytes = true.
Proof. vm_compute. reflexivity. Qed.

Lemma charset_bytes b : byte b ->
  latin1_to_utf8_ch b = iso_8859_1 b /\ step9 b = iso_8859_9 b /\ step11 b = iso_8859_11 b.
Proof. intros H. pose proof (sweep1 _ charset_sweep b H) as S. cbv beta in S.
  rewrite !andb_true_iff in S. destruct S as [[A B] C]. repeat split; now apply opt_eqb_eq. Qed.

(* table lengths (used to exclude the PIndex outcome) *)
Lemma table_lengths : length ISO_8859_9 = 96%nat /\ length ISO_8859_11 = 88%nat.
Proof. split; reflexivity. Qed.

Lemma latin1_to_utf8_spec l : Forall byte l -> latin1_to_utf8 l = map_opt iso_8859_1 l.
Proof. induction 1 as [|b t Hb _ IH]; cbn [latin1_to_utf8 map_opt]; [reflexivity|].
  destruct (charset_bytes b Hb) as [-> _]. rewrite IH. destruct (iso_8859_1 b), (map_opt iso_8859_1 t); reflexivity. Qed.

Lemma get_nth_error {A} (l : list A) i : @get dec_error A l i = match nth_error l i with Some x => Ok x | None => Panic PIndex end.
Proof. reflexivity. Qed.

Lemma decode9_spec l : Forall byte l -> forall out,
  decode_iso_8859_9 l out = match map_opt iso_8859_9 l with Some s => Ok (out ++ s) | None => Err CharsetError end.
Proof.
  induction 1 as [|b t Hb _ IH]; intros out; cbn [decode_iso_8859_9 map_opt]; [now rewrite app_nil_r|].
  destruct (charset_bytes b Hb) as (_ & S9 & _). rewrite <- S9. unfold step9.
  destruct ((32 <=? b) && (b <=? 126)).
  - rewrite IH. destruct (map_opt iso_8859_9 t); [rewrite <- app_assoc|]; reflexivity.
  - destruct ((160 <=? b) && (b <=? 255)) eqn:E; [|reflexivity].
    rewrite get_nth_error.
    destruct (nth_error ISO_8859_9 (N.to_nat (b - 160))) as [c|] eqn:N9.
    + cbn [bind]. rewrite IH. destruct (map_opt iso_8859_9 t); [rewrite <- app_assoc|]; reflexivity.
    + exfalso. apply nth_error_None in N9. destruct table_lengths as [L _]. rewrite L in N9.
      apply andb_true_iff in E. destruct E as [E1 E2]. apply N.leb_le in E1, E2. lia.
Qed.

Lemma decode11_spec l : Forall byte l -> forall out,
  decode_iso_8859_11 l out = match map_opt iso_8859_11 l with Some s => Ok (out ++ s) | None => Err CharsetError end.
Proof.
  induction 1 as [|b t Hb _ IH]; intros out; cbn [decode_iso_8859_11 map_opt]; [now rewrite app_nil_r|].
  destruct (charset_bytes b Hb) as (_ & _ & S11). rewrite <- S11. unfold step11.
  destruct table_lengths as [_ L].
  destruct ((32 <=? b) && (b <=? 126)).
  - rewrite IH. destruct (map_opt iso_8859_11 t); [rewrite <- app_assoc|]; reflexivity.
  - destruct ((160 <=? b) && (b <=? 218)) eqn:E.
    { rewrite get_nth_error. destruct (nth_error ISO_8859_11 (N.to_nat (b - 160))) as [c|] eqn:N1.
      + cbn [bind]. rewrite IH. destruct (map_opt iso_8859_11 t); [rewrite <- app_assoc|]; reflexivity.
      + exfalso. apply nth_error_None in N1. rewrite L in N1.
        apply andb_true_iff in E. destruct E as [E1 E2]. apply N.leb_le in E1, E2. lia. }
    destruct ((223 <=? b) && (b <=? 251)) eqn:E'; [|reflexivity].
    rewrite get_nth_error. destruct (nth_error ISO_8859_11 (N.to_nat (b - 160 - 4))) as [c|] eqn:N1.
    + cbn [bind]. rewrite IH. destruct (map_opt iso_8859_11 t); [rewrite <- app_assoc|]; reflexivity.
    + exfalso. apply nth_error_None in N1. rewrite L in N1.
      apply andb_true_iff in E'. destruct E' as [E1 E2]. apply N.leb_le in E1, E2. lia.
Qed.

(* ---------- UTF-8 ---------- *)
Lemma utf8_decode_fuel f : forall l f', (length l < f)%nat -> (length l < f')%nat -> utf8_decode f l = utf8_decode f' l.
Proof.
  induction f as [|f IH]; intros l f' H H'; [lia|]. destruct f' as [|f']; [lia|].
  cbn [utf8_decode]. destruct l as [|b0 t]; [reflexivity|]. cbn [length] in *.
  destruct (b0 <? 128); [rewrite (IH t f') by lia; reflexivity|].
  destruct ((194 <=? b0) && (b0 <=? 223)).
  { destruct t as [|b1 t']; [reflexivity|]. cbn [length] in *. destruct (cont b1); [|reflexivity]. rewrite (IH t' f') by lia. reflexivity. }
  destruct ((224 <=? b0) && (b0 <=? 239)).
  { destruct t as [|b1 [|b2 t']]; try reflexivity. cbn [length] in *. destruct (_ && _ && _); [|reflexivity]. rewrite (IH t' f') by lia. reflexivity. }
  destruct ((240 <=? b0) && (b0 <=? 244)); [|reflexivity].
  destruct t as [|b1 [|b2 [|b3 t']]]; try reflexivity. cbn [length] in *. destruct (_ && _ && _ && _); [|reflexivity].
  rewrite (IH t' f') by lia. reflexivity.
Qed.

Lemma from_utf8_cons_step b0 t : from_utf8 (b0 :: t) = utf8_decode (S (S (length t))) (b0 :: t).
Proof. reflexivity. Qed.

Lemma enc1 b0 : b0 < 128 -> utf8_encode_char b0 = [b0] /\ is_scalar b0 = true.
Proof. intros H. unfold utf8_encode_char, is_scalar. repeat ltb_true. split; reflexivity. Qed.

Lemma enc2 b0 b1 : 194 <= b0 <= 223 -> 128 <= b1 <= 191 ->
  let c := (b0 - 192) * 64 + (b1 - 128) in utf8_encode_char c = [b0; b1] /\ is_scalar c = true.
Proof.
  intros H0 H1 c. assert (128 <= c < 2048) as Hc by (unfold c; lia).
  unfold utf8_encode_char, is_scalar. ltb_false. repeat ltb_true. cbn [orb]. split; [|reflexivity].
  assert (c / 64 = b0 - 192) as -> by (symmetry; apply (N.div_unique c 64 (b0 - 192) (b1 - 128)); unfold c; lia).
  assert (c mod 64 = b1 - 128) as -> by (symmetry; apply (N.mod_unique c 64 (b0 - 192) (b1 - 128)); unfold c; lia).
  f_equal; [lia|f_equal; lia].
Qed.

Lemma enc3 b0 b1 b2 : 224 <= b0 <= 239 ->
  (if b0 =? 224 then 160 else 128) <= b1 <= (if b0 =? 237 then 159 else 191) -> 128 <= b2 <= 191 ->
  let c := (b0 - 224) * 4096 + (b1 - 128) * 64 + (b2 - 128) in
  utf8_encode_char c = [b0; b1; b2] /\ is_scalar c = true.
Proof.
  intros H0 H1 H2 c.
  assert (128 <= b1 <= 191) as H1' by (destruct (b0 =? 224), (b0 =? 237); lia).
  assert (2048 <= c < 65536 /\ (c < 55296 \/ 57344 <= c)) as [Hc Hs].
  { unfold c. destruct (N.eqb_spec b0 224), (N.eqb_spec b0 237); lia. }
  unfold utf8_encode_char. do 2 ltb_false. ltb_true. split.
  - assert (c / 4096 = b0 - 224) as ->
      by (symmetry; apply (N.div_unique c 4096 (b0 - 224) ((b1 - 128) * 64 + (b2 - 128))); unfold c; lia).
    assert (c mod 64 = b2 - 128) as ->
      by (symmetry; apply (N.mod_unique c 64 ((b0 - 224) * 64 + (b1 - 128)) (b2 - 128)); unfold c; lia).
    assert (c / 64 = (b0 - 224) * 64 + (b1 - 128)) as ->
      by (symmetry; apply (N.div_unique c 64 ((b0 - 224) * 64 + (b1 - 128)) (b2 - 128)); unfold c; lia).
    assert (((b0 - 224) * 64 + (b1 - 128)) mod 64 = b1 - 128) as ->
      by (symmetry; apply (N.mod_unique _ 64 (b0 - 224) (b1 - 128)); lia).
    f_equal; [lia|f_equal; [lia|f_equal; lia]].
  - unfold is_scalar. destruct Hs as [Hs|Hs].
    + ltb_true. reflexivity.
    + ltb_false. leb_true. ltb_true. reflexivity.
Qed.

Lemma enc4 b0 b1 b2 b3 : 240 <= b0 <= 244 ->
  (if b0 =? 240 then 144 else 128) <= b1 <= (if b0 =? 244 then 143 else 191) -> 128 <= b2 <= 191 -> 128 <= b3 <= 191 ->
  let c := (b0 - 240) * 262144 + (b1 - 128) * 4096 + (b2 - 128) * 64 + (b3 - 128) in
  utf8_encode_char c = [b0; b1; b2; b3] /\ is_scalar c = true.
Proof.
  intros H0 H1 H2 H3 c.
  assert (128 <= b1 <= 191) as H1' by (destruct (b0 =? 240), (b0 =? 244); lia).
  assert (65536 <= c < 1114112) as Hc.
  { unfold c. destruct (N.eqb_spec b0 240), (N.eqb_spec b0 244); lia. }
  unfold utf8_encode_char. do 3 ltb_false. split.
  - set (m := (b0 - 240) * 4096 + (b1 - 128) * 64 + (b2 - 128)).
    assert (c / 262144 = b0 - 240) as ->
      by (symmetry; apply (N.div_unique c 262144 (b0 - 240) ((b1 - 128) * 4096 + (b2 - 128) * 64 + (b3 - 128))); unfold c; lia).
    assert (c mod 64 = b3 - 128) as -> by (symmetry; apply (N.mod_unique c 64 m (b3 - 128)); unfold c, m; lia).
    assert (c / 64 = m) as -> by (symmetry; apply (N.div_unique c 64 m (b3 - 128)); unfold c, m; lia).
    assert (m mod 64 = b2 - 128) as ->
      by (symmetry; apply (N.mod_unique m 64 ((b0 - 240) * 64 + (b1 - 128)) (b2 - 128)); unfold m; lia).
    assert (c / 4096 = (b0 - 240) * 64 + (b1 - 128)) as ->
      by (symmetry; apply (N.div_unique c 4096 ((b0 - 240) * 64 + (b1 - 128)) ((b2 - 128) * 64 + (b3 - 128))); unfold c; lia).
    assert (((b0 - 240) * 64 + (b1 - 128)) mod 64 = b1 - 128) as ->
      by (symmetry; apply (N.mod_unique _ 64 (b0 - 240) (b1 - 128)); lia).
    f_equal; [lia|f_equal; [lia|f_equal; [lia|f_equal; lia]]].
  - unfold is_scalar. ltb_false. leb_true. ltb_true. reflexivity.
Qed.

Lemma cont_spec b : cont b = true -> 128 <= b <= 191.
Proof. unfold cont. rewrite andb_true_iff, !N.leb_le. tauto. Qed.

(* accepted byte strings are passed through unchanged: re-encoding the scalars gives the bytes back,
   and every scalar is a Unicode scalar value *)
Lemma utf8_decode_sound f : forall l s, utf8_decode f l = Some s -> utf8_encode s = l /\ forallb is_scalar s = true.
Proof.
  induction f as [|f IH]; intros l s H; [discriminate|]. cbn [utf8_decode] in H.
  destruct l as [|b0 t]; [inversion H; split; reflexivity|].
  destruct (N.ltb_spec b0 128) as [L0|L0].
  { destruct (utf8_decode f t) as [s'|] eqn:E; [|discriminate]. inversion H; subst. destruct (IH _ _ E) as [I1 I2].
    cbn [utf8_encode flat_map forallb]. fold (utf8_encode s'). rewrite I1, I2.
    destruct (enc1 b0 L0) as [-> ->]. split; reflexivity. }
  destruct ((194 <=? b0) && (b0 <=? 223)) eqn:E2.
  { destruct t as [|b1 t']; [discriminate|]. destruct (cont b1) eqn:C1; [|discriminate].
    destruct (utf8_decode f t') as [s'|] eqn:E; [|discriminate]. inversion H; subst. destruct (IH _ _ E) as [I1 I2].
    cbn [utf8_encode flat_map forallb]. fold (utf8_encode s'). rewrite I1, I2.
    apply andb_true_iff in E2. destruct E2 as [A B]. apply N.leb_le in A, B. apply cont_spec in C1.
    destruct (enc2 b0 b1 (conj A B) C1) as [-> ->]. split; reflexivity. }
  destruct ((224 <=? b0) && (b0 <=? 239)) eqn:E3.
  { destruct t as [|b1 [|b2 t']]; try discriminate.
    destruct ((_ <=? b1) && (b1 <=? _) && cont b2) eqn:C1; [|discriminate].
    destruct (utf8_decode f t') as [s'|] eqn:E; [|discriminate]. inversion H; subst. destruct (IH _ _ E) as [I1 I2].
    cbn [utf8_encode flat_map forallb]. fold (utf8_encode s'). rewrite I1, I2.
    apply andb_true_iff in E3. destruct E3 as [A B]. apply N.leb_le in A, B.
    rewrite !andb_true_iff in C1. destruct C1 as [[C D] C2]. apply N.leb_le in C, D. apply cont_spec in C2.
    destruct (enc3 b0 b1 b2 (conj A B) (conj C D) C2) as [-> ->]. split; reflexivity. }
  destruct ((240 <=? b0) && (b0 <=? 244)) eqn:E4; [|discriminate].
  destruct t as [|b1 [|b2 [|b3 t']]]; try discriminate.
  destruct ((_ <=? b1) && (b1 <=? _) && cont b2 && cont b3) eqn:C1; [|discriminate].
  destruct (utf8_decode f t') as [s'|] eqn:E; [|discriminate]. inversion H; subst. destruct (IH _ _ E) as [I1 I2].
  cbn [utf8_encode flat_map forallb]. fold (utf8_encode s'). rewrite I1, I2.
  apply andb_true_iff in E4. destruct E4 as [A B]. apply N.leb_le in A, B.
  rewrite !andb_true_iff in C1. destruct C1 as [[[C D] C2] C5]. apply N.leb_le in C, D. apply cont_spec in C2, C5.
  destruct (enc4 b0 b1 b2 b3 (conj A B) (conj C D) C2 C5) as [-> ->]. split; reflexivity.
Qed.

Lemma from_utf8_sound l s : from_utf8 l = Some s -> utf8_encode s = l /\ forallb is_scalar s = true.
Proof. apply utf8_decode_sound. Qed.

(* every encoding of a scalar value is accepted and yields that scalar *)
Lemma dec_enc_char c rest f : is_scalar c = true ->
  utf8_decode (S f) (utf8_encode_char c ++ rest) = option_map (cons c) (utf8_decode f rest).
Proof.
  intros Hs. unfold is_scalar in Hs.
  assert (c < 55296 \/ (57344 <= c /\ c < 1114112)) as Hc.
  { apply orb_true_iff in Hs. destruct Hs as [H|H]; [left; now apply N.ltb_lt|right].
    apply andb_true_iff in H. destruct H as [A B]. apply N.leb_le in A. apply N.ltb_lt in B. lia. }
  clear Hs. unfold utf8_encode_char.
  destruct (N.ltb_spec c 128) as [L1|L1].
  { cbn [app utf8_decode]. ltb_true. reflexivity. }
  destruct (N.ltb_spec c 2048) as [L2|L2].
  { cbn [app utf8_decode]. unfold cont.
    pose proof (N.div_mod c 64 ltac:(lia)) as E. pose proof (N.mod_lt c 64 ltac:(lia)) as L.
    set (q := c / 64) in *. set (r := c mod 64) in *. clearbody q r.
    resolve_cmp. f_equal. f_equal. lia. }
  destruct (N.ltb_spec c 65536) as [L3|L3].
  { cbn [app utf8_decode]. unfold cont.
    pose proof (N.div_mod c 64 ltac:(lia)) as E. pose proof (N.mod_lt c 64 ltac:(lia)) as L.
    set (q := c / 64) in *. set (r := c mod 64) in *. clearbody r.
    pose proof (N.div_mod q 64 ltac:(lia)) as E'. pose proof (N.mod_lt q 64 ltac:(lia)) as L'.
    assert (c / 4096 = q / 64) as -> by (unfold q; rewrite N.div_div by lia; reflexivity).
    set (q2 := q / 64) in *. set (r2 := q mod 64) in *. clearbody q q2 r2.
    ltb_false. leb_true. leb_false. cbn [andb]. do 2 leb_true. cbn [andb].
    destruct (N.eqb_spec (224 + q2) 224); destruct (N.eqb_spec (224 + q2) 237); resolve_cmp; f_equal; f_equal; lia. }
  cbn [app utf8_decode]. unfold cont.
  pose proof (N.div_mod c 64 ltac:(lia)) as E. pose proof (N.mod_lt c 64 ltac:(lia)) as L.
  set (q := c / 64) in *. set (r := c mod 64) in *. clearbody r.
  pose proof (N.div_mod q 64 ltac:(lia)) as E'. pose proof (N.mod_lt q 64 ltac:(lia)) as L'.
  assert (c / 4096 = q / 64) as -> by (unfold q; rewrite N.div_div by lia; reflexivity).
  set (q2 := q / 64) in *. set (r2 := q mod 64) in *.
  pose proof (N.div_mod q2 64 ltac:(lia)) as E''. pose proof (N.mod_lt q2 64 ltac:(lia)) as L''.
  assert (c / 262144 = q2 / 64) as -> by (unfold q2, q; rewrite !N.div_div by lia; reflexivity).
  set (q3 := q2 / 64) in *. set (r3 := q2 mod 64) in *. clearbody q q2 r2 q3 r3.
  ltb_false. leb_true. leb_false. cbn [andb]. leb_true. leb_false. cbn [andb]. do 2 leb_true. cbn [andb].
  destruct (N.eqb_spec (240 + q3) 240); destruct (N.eqb_spec (240 + q3) 244); resolve_cmp; f_equal; f_equal; lia.
Qed.

Lemma utf8_encode_length_pos c : (1 <= length (utf8_encode_char c))%nat.
Proof. unfold utf8_encode_char. destruct (c <? 128), (c <? 2048), (c <? 65536); cbn; lia. Qed.

Lemma from_utf8_complete s : forallb is_scalar s = true -> from_utf8 (utf8_encode s) = Some s.
Proof.
  unfold from_utf8. induction s as [|c t IH]; intros H; [reflexivity|].
  cbn [forallb] in H. apply andb_true_iff in H. destruct H as [Hc Ht].
  cbn [utf8_encode flat_map]. fold (utf8_encode t).
  rewrite dec_enc_char by exact Hc.
  rewrite (utf8_decode_fuel _ _ (S (length (utf8_encode t)))), IH by
    (try exact Ht; rewrite ?app_length; pose proof (utf8_encode_length_pos c); lia).
  reflexivity.
Qed.

(* ---------- convert_chunk against the specification ---------- *)
Definition charset_decode (eci : N) (bs : list N) : option (list N) :=
  if (eci =? 0) || (eci =? 3) then map_opt iso_8859_1 bs
  else if eci =? 11 then map_opt iso_8859_9 bs
  else if eci =? 13 then map_opt iso_8859_11 bs
  else if eci =? 26 then from_utf8 bs
  else if eci =? 27 then map_opt us_ascii bs
  else None.

Lemma ascii_from_utf8 l : forallb (fun b => b <? 128) l = true -> forall f, (length l < f)%nat -> utf8_decode f l = Some l.
Proof.
  induction l as [|b t IH]; intros H f Hf; destruct f as [|f]; try (cbn in Hf; lia); [reflexivity|].
  cbn [forallb] in H. apply andb_true_iff in H. destruct H as [Hb Ht]. cbn [utf8_decode]. rewrite Hb.
  rewrite IH by (try exact Ht; cbn in Hf; lia). reflexivity.
Qed.

Lemma map_opt_ascii l : map_opt us_ascii l = if forallb (fun b => b <? 128) l then Some l else None.
Proof. induction l as [|b t IH]; [reflexivity|]. cbn [map_opt forallb]. unfold us_ascii at 1.
  destruct (b <? 128); cbn [andb]; [|reflexivity]. rewrite IH. destruct (forallb _ t); reflexivity. Qed.

Theorem convert_chunk_spec bs eci : Forall byte bs -> In eci [0; 3; 11; 13; 26; 27] ->
  convert_chunk bs eci [] = match charset_decode eci bs with Some s => Ok s | None => Err CharsetError end.
Proof.
  intros Hb Hin. unfold convert_chunk, charset_decode. change ECI_UTF8 with 26.
  cbn [In] in Hin. destruct Hin as [<-|[<-|[<-|[<-|[<-|[<-|[]]]]]]]; cbn [N.eqb Pos.eqb orb].
  - rewrite latin1_to_utf8_spec by exact Hb. reflexivity.
  - rewrite latin1_to_utf8_spec by exact Hb. reflexivity.
  - rewrite decode9_spec by exact Hb. reflexivity.
  - rewrite decode11_spec by exact Hb. reflexivity.
  - reflexivity.
  - rewrite map_opt_ascii. destruct (forallb (fun b => b <? 128) bs) eqn:E; [|reflexivity].
    unfold from_utf8. rewrite ascii_from_utf8 by (try exact E; lia). reflexivity.
Qed.

Theorem convert_chunk_other bs eci : ~ In eci [0; 3; 11; 13; 26; 27] -> convert_chunk bs eci [] = Err NotImplemented.
Proof.
  intros Hn. unfold convert_chunk. change ECI_UTF8 with 26. cbn [In] in Hn.
  destruct (N.eqb_spec eci 0); [subst; tauto|]. destruct (N.eqb_spec eci 3); [subst; tauto|]. cbn [orb].
  destruct (N.eqb_spec eci 11); [subst; tauto|]. destruct (N.eqb_spec eci 13); [subst; tauto|].
  destruct (N.eqb_spec eci 26); [subst; tauto|]. destruct (N.eqb_spec eci 27); [subst; tauto|]. reflexivity.
Qed.
