(* Proofs/DecodeSafe.v -- property C05 for the whole-symbol entry point: DataMatrix::decode(pixels, width) on ANY pixel
   array and width can only panic at the debug-build self-check of the Levinson-Durbin loop (PAssertLD); in a release
   build, where that check is compiled out, it cannot panic at all. *)
From Coq Require Import Arith ZArith NArith List Bool Lia.
From DM Require Import Generated.Symbols Model.Outcome Model.Render Model.RSDec Model.Placement Model.Api
  Proofs.RenderProofs Proofs.PlacementProofs Proofs.DecodeGlue Proofs.RSTotal Proofs.LDTotal.
Import ListNotations.

Theorem dm_decode_safe pixels width : safe (dm_decode pixels width).
Proof.
  intros p H. destruct (dm_decode_panic_source pixels width p H) as (entries & size & cw & TB & CW & RS).
  destruct (accepts_only_renderings pixels width entries size TB) as (_ & _ & (WL & _)).
  assert (length entries = Z.to_nat (zh size * zw size)) as L by (rewrite WL; unfold zh, zw; lia).
  destruct (codewords_total size entries L) as (cw' & CW' & LC & _). rewrite CW in CW'. inversion CW'; subst cw'.
  apply (decode_safe size cw); [exact LC|exact RS].
Qed.

(* ... and, with the identities (3)/(4) of the Levinson-Durbin recursion proved to be invariants (Proofs/LDInv.v,
   LDTotal.v), not there either: DataMatrix::decode never panics, in any build *)
Theorem dm_decode_no_panic pixels width : no_panic (dm_decode pixels width).
Proof.
  destruct (dm_decode pixels width) as [v|e|p] eqn:H; try exact I.
  destruct (dm_decode_panic_source pixels width p H) as (entries & size & cw & TB & CW & RS).
  destruct (accepts_only_renderings pixels width entries size TB) as (_ & _ & (WL & _)).
  assert (length entries = Z.to_nat (zh size * zw size)) as L by (rewrite WL; unfold zh, zw; lia).
  destruct (codewords_total size entries L) as (cw' & CW' & LC & BC). rewrite CW in CW'. inversion CW'; subst cw'.
  pose proof (decode_np size cw BC LC) as NP. rewrite RS in NP. exact NP.
Qed.
