(* Proofs/RenderProofs.v -- property C08: rendering (finder/clock/alignment) and strict parsing
   are mutual inverses, for all 48 sizes and all contents / pixel arrays. *)
From Coq Require Import ZArith NArith List Bool Lia FMapPositive.
From DM Require Import Generated.Symbols Spec.Table7 Spec.Finder Model.Outcome Model.SymbolList Model.Render
  Proofs.SymbolListProofs.
Import ListNotations.
Local Open Scope N_scope.

(* ---------- ranges ---------- *)
Lemma range_step_seq fuel : forall a, range_step fuel a (a + N.of_nat fuel) 1 = map N.of_nat (seq (N.to_nat a) fuel).
Proof.
  induction fuel as [|f IH]; intros a; cbn [range_step seq map]; [reflexivity|].
  replace (a <? a + N.of_nat (S f)) with true by (symmetry; apply N.ltb_lt; lia).
  rewrite N2Nat.id. f_equal.
  replace (a + N.of_nat (S f)) with ((a + 1) + N.of_nat f) by lia.
  rewrite IH. f_equal. f_equal. lia.
Qed.

Lemma range_seq n : range 0 n = map N.of_nat (seq 0 (N.to_nat n)).
Proof. unfold range. rewrite N.sub_0_r. rewrite <- (N2Nat.id n) at 2.
  change (N.of_nat (N.to_nat n)) with (0 + N.of_nat (N.to_nat n)). apply range_step_seq. Qed.

Lemma range_length n : length (range 0 n) = N.to_nat n.
Proof. rewrite range_seq, map_length, seq_length. reflexivity. Qed.

Lemma range_In n p : In p (range 0 n) <-> p < n.
Proof. rewrite range_seq, in_map_iff. split.
  - intros [i [<- Hi]]. apply in_seq in Hi. lia.
  - intros H. exists (N.to_nat p). split; [lia|]. apply in_seq. lia. Qed.

Lemma nth_error_map_range {A} (f : N -> A) n p : p < n ->
  nth_error (map f (range 0 n)) (N.to_nat p) = Some (f p).
Proof.
  intros H. rewrite range_seq, map_map. rewrite nth_error_map.
  rewrite (nth_error_nth' _ 0%nat) by (rewrite seq_length; lia).
  rewrite seq_nth by lia. cbn. rewrite N2Nat.id. reflexivity.
Qed.

Lemma nth_map' {A B} (f : A -> B) l : forall j d d', (j < length l)%nat -> nth j (map f l) d = f (nth j l d').
Proof. induction l as [|a r IH]; intros j d d' H; cbn in *; [lia|]. destruct j; [reflexivity|]. apply IH. lia. Qed.

Lemma nth_error_ext_eq {A} (l1 : list A) : forall l2, length l1 = length l2 ->
  (forall i, (i < length l1)%nat -> nth_error l1 i = nth_error l2 i) -> l1 = l2.
Proof.
  induction l1 as [|a r IH]; intros [|b r2] HL H; cbn in HL; try lia; [reflexivity|].
  pose proof (H 0%nat ltac:(cbn; lia)) as H0. cbn in H0. inversion H0; subst. f_equal.
  apply IH; [lia|]. intros i Hi. apply (H (S i)). cbn. lia.
Qed.

(* ---------- per-size data ---------- *)
Definition lmap (s : SymbolSize) : PX.t px :=
  layout_map (content_width s) (content_height s) (extra_vertical_alignments s) (extra_horizontal_alignments s).
Definition lk (m : PX.t px) (p : N) : px := match PX.find (pkey p) m with Some v => v | None => Fix false end.
Definition npix (s : SymbolSize) : N := height s * width s.

Lemma layout_of_lk s : layout_of s = map (lk (lmap s)) (range 0 (bm_h (content_height s) (extra_horizontal_alignments s) * bm_w (content_width s) (extra_vertical_alignments s))).
Proof. reflexivity. Qed.

Definition px_eqb (a b : px) : bool :=
  match a, b with Fix x, Fix y => Bool.eqb x y | Ent j, Ent k => j =? k | _, _ => false end.
Lemma px_eqb_eq a b : px_eqb a b = true -> a = b.
Proof. destruct a, b; cbn; try discriminate; intros H; [apply eqb_prop in H|apply N.eqb_eq in H]; congruence. Qed.

Definition px_of_fcell (f : fcell) : px := match f with FDark => Fix true | FLight => Fix false | FData k => Ent k end.

(* denotation of the action list: (pixel, what the pixel must be), copies numbered in order *)
Fixpoint denote (k : N) (acts : list action) : list (N * px) :=
  match acts with
  | [] => []
  | Test p b :: r => (p, Fix b) :: denote k r
  | Copy p :: r => (p, Ent k) :: denote (k + 1) r
  end.

Definition amap_of (l : list (N * px)) : PX.t px := fold_left (fun m e => PX.add (pkey (fst e)) (snd e) m) l (PX.empty px).

Definition geom_ok (s : SymbolSize) : bool :=
  let m := lmap s in
  let W := width s in let H := height s in
  let n := H * W in
  let d := denote 0 (actions_of s) in
  let am := amap_of d in
  (bm_w (content_width s) (extra_vertical_alignments s) =? W) &&
  (bm_h (content_height s) (extra_horizontal_alignments s) =? H) &&
  (1 <=? W) &&
  (* rendering = the standard's finder description *)
  forallb (fun r => forallb (fun c => px_eqb (lk m (r * W + c)) (px_of_fcell (cell (attrs s) r c))) (range 0 W)) (range 0 H) &&
  (* every action refers to a pixel of the array that the renderer sets accordingly *)
  forallb (fun e => (fst e <? n) && px_eqb (lk m (fst e)) (snd e)) d &&
  (* every pixel of the array is the subject of an action that says what the renderer does *)
  forallb (fun p => match PX.find (pkey p) am with Some x => px_eqb x (lk m p) | None => false end) (range 0 n) &&
  (* number of copies = size of the mapping matrix *)
  (N.of_nat (length (filter (fun a => match a with Copy _ => true | _ => false end) (actions_of s)))
     =? content_width s * content_height s) &&
  (* the size is found from its pixel dimensions *)
  match find_size W H with Some s' => ss_eqb s' s | None => false end.

Lemma geom_sweep : forallb geom_ok all_variants = true.
Proof. vm_compute. reflexivity. Qed.

(* ---------- unpacking the sweep ---------- *)
Record geom (s : SymbolSize) : Prop := {
  g_w : bm_w (content_width s) (extra_vertical_alignments s) = width s;
  g_h : bm_h (content_height s) (extra_horizontal_alignments s) = height s;
  g_wpos : 1 <= width s;
  g_render : forall r c, r < height s -> c < width s ->
     lk (lmap s) (r * width s + c) = px_of_fcell (cell (attrs s) r c);
  g_acts : forall (p : N) (x : px), In (p, x) (denote 0 (actions_of s)) -> p < npix s /\ lk (lmap s) p = x;
  g_cover : forall p, p < npix s -> In (p, lk (lmap s) p) (denote 0 (actions_of s));
  g_ncopy : N.of_nat (length (filter (fun a => match a with Copy _ => true | _ => false end) (actions_of s)))
            = content_width s * content_height s;
  g_find : find_size (width s) (height s) = Some s }.

Lemma amap_of_find (l : list (N * px)) : forall (m0 : PX.t px) (p : N) (x : px),
  PX.find (pkey p) (fold_left (fun m (e : N * px) => PX.add (pkey (fst e)) (snd e) m) l m0) = Some x ->
  In (p, x) l \/ PX.find (pkey p) m0 = Some x.
Proof.
  induction l as [|[q y] r IH]; intros m0 p x H; cbn [fold_left] in H; [now right|].
  apply IH in H. destruct H as [H|H]; [left; now right|]. cbn [fst snd] in H.
  destruct (Pos.eq_dec (pkey p) (pkey q)) as [E|NE].
  - rewrite E, PX.gss in H. inversion H; subst. left. left. f_equal.
    unfold pkey in E. apply (f_equal Pos.pred_N) in E. rewrite !N.pos_pred_succ in E. now symmetry.
  - rewrite PX.gso in H by exact NE. now right.
Qed.

Lemma geom_all s : geom s.
Proof.
  pose proof (sweep _ geom_sweep s) as H. unfold geom_ok in H. cbv zeta in H.
  rewrite !andb_true_iff in H. destruct H as [[[[[[[H1 H2] H3] H4] H5] H6] H7] H8].
  apply N.eqb_eq in H1, H2, H7. apply N.leb_le in H3.
  constructor; try assumption.
  - intros r c Hr Hc. rewrite forallb_forall in H4. specialize (H4 r (proj2 (range_In _ _) Hr)).
    rewrite forallb_forall in H4. specialize (H4 c (proj2 (range_In _ _) Hc)). now apply px_eqb_eq.
  - intros p x Hin. rewrite forallb_forall in H5. specialize (H5 _ Hin). cbn [fst snd] in H5.
    apply andb_true_iff in H5. destruct H5 as [A B]. apply N.ltb_lt in A. apply px_eqb_eq in B. split; assumption.
  - intros p Hp. rewrite forallb_forall in H6. specialize (H6 p (proj2 (range_In _ _) Hp)).
    destruct (PX.find (pkey p) (amap_of (denote 0 (actions_of s)))) as [x|] eqn:E; [|discriminate].
    apply px_eqb_eq in H6. subst x. unfold amap_of in E. apply amap_of_find in E.
    destruct E as [E|E]; [exact E|]. rewrite PX.gempty in E. discriminate.
  - destruct (find_size (width s) (height s)) as [s'|]; [|discriminate]. apply ss_eqb_eq in H8. now subst.
Qed.

(* ---------- denote: tests and copies ---------- *)
Definition copy_pixels (acts : list action) : list N :=
  flat_map (fun a => match a with Copy p => [p] | Test _ _ => [] end) acts.

Lemma copies_map bits acts : copies bits acts = map (fun p => nth (N.to_nat p) bits false) (copy_pixels acts).
Proof. induction acts as [|a r IH]; [reflexivity|]. unfold copies, copy_pixels in *.
  destruct a; cbn [flat_map app map]; [exact IH|now rewrite IH]. Qed.

Lemma copy_pixels_length acts :
  length (copy_pixels acts) = length (filter (fun a => match a with Copy _ => true | _ => false end) acts).
Proof. induction acts as [|a r IH]; [reflexivity|]. unfold copy_pixels in *.
  destruct a; cbn [flat_map filter app length]; [exact IH|now rewrite IH]. Qed.

Lemma denote_test acts : forall k p b, In (Test p b) acts <-> In (p, Fix b) (denote k acts).
Proof.
  induction acts as [|[q e|q] r IH]; intros k p b; cbn [denote In]; [tauto| |].
  - rewrite <- IH. split; intros [H|H]; auto; left; congruence.
  - rewrite <- IH. split; intros [H|H]; auto; discriminate.
Qed.

Lemma denote_copy acts : forall k0 p k, In (p, Ent k) (denote k0 acts) <->
  k0 <= k /\ nth_error (copy_pixels acts) (N.to_nat (k - k0)) = Some p.
Proof.
  induction acts as [|[q e|q] r IH]; intros k0 p k; cbn [denote In copy_pixels flat_map app].
  - split; [tauto|]. intros [_ H]. destruct (N.to_nat (k - k0)); discriminate.
  - fold (copy_pixels r). rewrite <- IH. split; [intros [H|H]; [discriminate|exact H]|auto].
  - fold (copy_pixels r). rewrite IH. split.
    + intros [H|[H1 H2]].
      * inversion H; subst. split; [lia|]. rewrite N.sub_diag. reflexivity.
      * split; [lia|]. replace (N.to_nat (k - k0)) with (S (N.to_nat (k - (k0 + 1)))) by lia. exact H2.
    + intros [H1 H2]. destruct (N.eq_dec k k0) as [->|Ne].
      * rewrite N.sub_diag in H2. cbn in H2. left. congruence.
      * right. split; [lia|]. replace (N.to_nat (k - k0)) with (S (N.to_nat (k - (k0 + 1)))) in H2 by lia. exact H2.
Qed.

(* ---------- the layout as a list ---------- *)
Lemma layout_nth s p : p < npix s -> nth_error (layout_of s) (N.to_nat p) = Some (lk (lmap s) p).
Proof.
  intros Hp. destruct (geom_all s) as [gw gh _ _ _ _ _ _]. rewrite layout_of_lk, gw, gh.
  apply nth_error_map_range. exact Hp.
Qed.

Lemma layout_length s : length (layout_of s) = N.to_nat (npix s).
Proof. destruct (geom_all s) as [gw gh _ _ _ _ _ _]. rewrite layout_of_lk, gw, gh, map_length, range_length. reflexivity. Qed.

Definition bits_of (s : SymbolSize) (entries : list bool) : list bool := snd (bitmap false true s entries).

Lemma bits_of_nth s entries p : p < npix s ->
  nth_error (bits_of s entries) (N.to_nat p) = Some (interp false true entries (lk (lmap s) p)).
Proof. intros Hp. unfold bits_of, bitmap. cbn [snd]. rewrite nth_error_map, layout_nth by exact Hp. reflexivity. Qed.

Lemma bits_of_length s entries : length (bits_of s entries) = N.to_nat (npix s).
Proof. unfold bits_of, bitmap. cbn [snd]. rewrite map_length. apply layout_length. Qed.

(* ---------- C08_render ---------- *)
Theorem render_spec s : fst (bitmap false true s []) = width s /\
  length (layout_of s) = N.to_nat (height s * width s) /\
  forall r c, r < height s -> c < width s ->
    nth_error (layout_of s) (N.to_nat (r * width s + c)) = Some (px_of_fcell (cell (attrs s) r c)).
Proof.
  destruct (geom_all s) as [gw gh gp gr _ _ _ _]. split; [exact gw|]. split; [apply layout_length|].
  intros r c Hr Hc. rewrite layout_nth; [now rewrite gr|]. unfold npix. nia.
Qed.

(* ---------- C08_parse_render ---------- *)
Definition well_formed (s : SymbolSize) (entries : list bool) : Prop :=
  length entries = N.to_nat (content_width s * content_height s) /\
  (has_padding_modules s = true ->
     let n := length entries in let w := N.to_nat (content_width s) in
     nth (n - 2) entries false = false /\ nth (n - 1) entries false = true /\
     nth (n - w - 2) entries false = true /\ nth (n - w - 1) entries false = false).

Lemma pad_sweep : forallb (fun s => negb (has_padding_modules s) ||
   (N.to_nat (content_width s) + 2 <=? N.to_nat (content_width s * content_height s))%nat) all_variants = true.
Proof. vm_compute. reflexivity. Qed.

Theorem parse_render s entries : well_formed s entries ->
  try_from_bits (bits_of s entries) (width s) = Ok (entries, s).
Proof.
  intros [Hlen Hpad]. pose proof (geom_all s) as G. destruct G as [gw gh gp gr ga gc gn gf].
  unfold try_from_bits. rewrite bits_of_length.
  replace (width s =? 0) with false by (symmetry; apply N.eqb_neq; lia).
  rewrite N2Nat.id. unfold npix at 1 2.
  rewrite N.mod_mul by lia. cbn [N.eqb negb]. rewrite N.div_mul by lia. rewrite gf.
  (* all tests pass *)
  assert (tests_pass (bits_of s entries) (actions_of s) = true) as HT.
  { unfold tests_pass. apply forallb_forall. intros [p e|p] Hin; [|reflexivity].
    apply (denote_test _ 0) in Hin. destruct (ga _ _ Hin) as [Hp Hl].
    rewrite bits_of_nth by exact Hp. rewrite Hl. cbn [interp]. destruct e; reflexivity. }
  rewrite HT. cbn [negb].
  (* the copies are the entries *)
  assert (copies (bits_of s entries) (actions_of s) = entries) as HC.
  { rewrite copies_map. apply (nth_ext _ _ false false).
    - rewrite map_length, copy_pixels_length. apply Nat2N.inj. rewrite gn. lia.
    - intros j Hj. rewrite map_length in Hj.
      rewrite (nth_map' _ _ _ _ 0) by exact Hj.
      destruct (nth_error (copy_pixels (actions_of s)) j) as [p|] eqn:E; [|apply nth_error_None in E; lia].
      rewrite (nth_error_nth _ _ _ E).
      assert (In (p, Ent (N.of_nat j)) (denote 0 (actions_of s))) as Hin.
      { apply denote_copy. split; [lia|]. rewrite N.sub_0_r, Nat2N.id. exact E. }
      destruct (ga _ _ Hin) as [Hp Hl].
      rewrite (nth_error_nth _ _ _ (bits_of_nth s entries p Hp)). rewrite Hl. cbn [interp]. rewrite Nat2N.id. reflexivity. }
  rewrite HC.
  destruct (has_padding_modules s) eqn:P; [|reflexivity].
  pose proof (sweep _ pad_sweep s) as PS. cbv beta in PS. rewrite P in PS. cbn [negb orb] in PS. apply Nat.leb_le in PS.
  replace (length entries <? N.to_nat (content_width s) + 2)%nat with false by (symmetry; apply Nat.ltb_ge; lia).
  destruct (Hpad eq_refl) as (A & B & C & D). rewrite A, B, C, D. reflexivity.
Qed.

(* ---------- C08_accepts_only_renderings ---------- *)
Lemma find_size_spec w h s : find_size w h = Some s -> width s = w /\ height s = h.
Proof. unfold find_size. intros H. apply find_some in H. destruct H as [_ H].
  apply andb_true_iff in H. destruct H as [A B]. apply N.eqb_eq in A, B. split; assumption. Qed.

Theorem accepts_only_renderings bits w m s :
  try_from_bits bits w = Ok (m, s) -> w = width s /\ bits_of s m = bits /\ well_formed s m.
Proof.
  unfold try_from_bits. intros H.
  destruct (w =? 0) eqn:W0; [discriminate|]. apply N.eqb_neq in W0.
  destruct (N.of_nat (length bits) mod w =? 0) eqn:M0; [|discriminate]. cbn [negb] in H. apply N.eqb_eq in M0.
  destruct (find_size w (N.of_nat (length bits) / w)) as [s'|] eqn:F; [|discriminate].
  destruct (tests_pass bits (actions_of s')) eqn:T; [|discriminate]. cbn [negb] in H.
  assert (s' = s /\ m = copies bits (actions_of s') /\
          (has_padding_modules s' = true ->
             let e := copies bits (actions_of s') in let n := length e in let cw := N.to_nat (content_width s') in
             nth (n - 2) e false = false /\ nth (n - 1) e false = true /\
             nth (n - cw - 2) e false = true /\ nth (n - cw - 1) e false = false)) as (-> & -> & HP).
  { destruct (has_padding_modules s').
    - destruct (_ <? _)%nat; [discriminate|].
      destruct (Bool.eqb _ false && _ && _ && _) eqn:E; [|discriminate]. inversion H; subst. split; [reflexivity|split; [reflexivity|]].
      intros _. rewrite !andb_true_iff in E. destruct E as [[[A B] C] D].
      apply eqb_prop in A, B, C, D. repeat split; assumption.
    - inversion H; subst. split; [reflexivity|split; [reflexivity|discriminate]]. }
  clear H. destruct (find_size_spec _ _ _ F) as [Fw Fh].
  pose proof (geom_all s) as G. destruct G as [gw gh gp gr ga gc gn gf].
  assert (N.of_nat (length bits) = npix s) as HL.
  { unfold npix. rewrite Fh, Fw. rewrite (N.div_mod (N.of_nat (length bits)) w W0) at 1. rewrite M0. lia. }
  split; [now symmetry|].
  assert (length (copies bits (actions_of s)) = N.to_nat (content_width s * content_height s)) as HCL.
  { rewrite copies_map, map_length, copy_pixels_length. rewrite <- gn. lia. }
  split; [|split; [exact HCL|exact HP]].
  apply nth_error_ext_eq.
  - rewrite bits_of_length. lia.
  - intros i Hi. rewrite bits_of_length in Hi.
    set (p := N.of_nat i). assert (p < npix s) as Hp by (unfold p; lia).
    replace i with (N.to_nat p) by (unfold p; lia).
    rewrite bits_of_nth by exact Hp.
    pose proof (gc p Hp) as Hin.
    destruct (lk (lmap s) p) as [b|k] eqn:E; cbn [interp].
    + apply denote_test in Hin. unfold tests_pass in T. rewrite forallb_forall in T. specialize (T _ Hin). cbn in T.
      destruct (nth_error bits (N.to_nat p)) as [b'|]; [|discriminate]. apply eqb_prop in T. subst b'. destruct b; reflexivity.
    + apply denote_copy in Hin. destruct Hin as [_ Hin]. rewrite N.sub_0_r in Hin.
      rewrite copies_map.
      rewrite (nth_map' _ _ _ _ 0) by (apply nth_error_Some; congruence).
      rewrite (nth_error_nth _ _ _ Hin).
      destruct (nth_error bits (N.to_nat p)) as [b'|] eqn:Eb; [|apply nth_error_None in Eb; lia].
      rewrite (nth_error_nth _ _ _ Eb). reflexivity.
Qed.

(* ---------- C08_errors ---------- *)
Theorem parse_errors bits w :
  (w = 0 -> try_from_bits bits w = Err EZeroWidth) /\
  (w <> 0 -> N.of_nat (length bits) mod w <> 0 -> try_from_bits bits w = Err EDataSize) /\
  (w <> 0 -> N.of_nat (length bits) mod w = 0 ->
     (forall s, ~ (width s = w /\ height s = N.of_nat (length bits) / w)) ->
     try_from_bits bits w = Err ESymbolSize).
Proof.
  unfold try_from_bits. split; [intros ->; reflexivity|]. split.
  - intros W M. apply N.eqb_neq in W, M. rewrite W, M. reflexivity.
  - intros W M Hn. apply N.eqb_neq in W. apply N.eqb_eq in M. rewrite W, M. cbn [negb].
    destruct (find_size w (N.of_nat (length bits) / w)) as [s|] eqn:F; [|reflexivity].
    apply find_size_spec in F. exfalso. apply (Hn s F).
Qed.

(* ---------- the O(log n) versions run by the driver are the same functions ---------- *)
Lemma fill_find {B} (l : list B) : forall i m q,
  (forall q', (i <= q')%positive -> PX.find q' m = None) ->
  PX.find q (fill l i m) = if (q <? i)%positive then PX.find q m else nth_error l (Pos.to_nat q - Pos.to_nat i).
Proof.
  induction l as [|x r IH]; intros i m q Hm; cbn [fill].
  - destruct (Pos.ltb_spec q i) as [L|G]; [reflexivity|]. rewrite Hm by exact G. destruct (_ - _)%nat; reflexivity.
  - rewrite IH.
    + destruct (Pos.ltb_spec q (Pos.succ i)) as [L|G]; destruct (Pos.ltb_spec q i) as [L'|G']; try lia.
      * rewrite PX.gso by lia. reflexivity.
      * assert (q = i) as -> by lia. rewrite PX.gss, Nat.sub_diag. reflexivity.
      * replace (Pos.to_nat q - Pos.to_nat i)%nat with (S (Pos.to_nat q - Pos.to_nat (Pos.succ i))) by lia. reflexivity.
    + intros q' Hq. rewrite PX.gso by lia. apply Hm. lia.
Qed.

Lemma at_slice {B} (l : list B) p : at_ (slice l) p = nth_error l (N.to_nat p).
Proof.
  unfold at_, slice. rewrite fill_find by (intros; apply PX.gempty).
  replace (pkey p <? 1)%positive with false by (symmetry; apply Pos.ltb_ge; lia).
  f_equal. unfold pkey. destruct p; cbn; lia.
Qed.

Lemma nth_error_default {B} (l : list B) i d : match nth_error l i with Some v => v | None => d end = nth i l d.
Proof. revert i. induction l; destruct i; cbn; auto. Qed.

Lemma forallb_ext' {A} (f g : A -> bool) l : (forall x, f x = g x) -> forallb f l = forallb g l.
Proof. intros H. induction l; cbn; [reflexivity|]. now rewrite H, IHl. Qed.

Lemma bitmap_fast_eq {B} (LOW HIGH : B) s entries : bitmap_fast LOW HIGH s entries = bitmap LOW HIGH s entries.
Proof.
  unfold bitmap_fast, bitmap. f_equal. apply map_ext. intros [b|k]; cbn [interp]; [reflexivity|].
  rewrite at_slice. apply nth_error_default.
Qed.

Lemma try_from_bits_fast_eq bits w : try_from_bits_fast bits w = try_from_bits bits w.
Proof.
  unfold try_from_bits_fast, try_from_bits.
  destruct (w =? 0); [reflexivity|]. destruct (negb _); [reflexivity|].
  destruct (find_size _ _) as [s|]; [|reflexivity].
  assert (forallb (fun a => match a with
                    | Test p e => match at_ (slice bits) p with Some b => Bool.eqb b e | None => false end
                    | Copy _ => true end) (actions_of s) = tests_pass bits (actions_of s)) as ->.
  { unfold tests_pass. apply forallb_ext'. intros [p e|p]; [rewrite at_slice|]; reflexivity. }
  assert (flat_map (fun a => match a with
                             | Copy p => [match at_ (slice bits) p with Some v => v | None => false end]
                             | Test _ _ => [] end) (actions_of s) = copies bits (actions_of s)) as ->.
  { unfold copies. apply flat_map_ext. intros [p e|p]; [reflexivity|]. rewrite at_slice, nth_error_default. reflexivity. }
  reflexivity.
Qed.

(* ---------- C05: try_from_bits never panics ---------- *)
Theorem try_from_bits_no_panic bits w : no_panic (try_from_bits bits w).
Proof.
  unfold try_from_bits.
  destruct (w =? 0); [exact I|]. destruct (negb _); [exact I|].
  destruct (find_size w _) as [s|]; [|exact I].
  destruct (negb (tests_pass bits (actions_of s))); [exact I|].
  destruct (has_padding_modules s) eqn:P; [|exact I].
  pose proof (sweep _ pad_sweep s) as PS. cbv beta in PS. rewrite P in PS. cbn [negb orb] in PS. apply Nat.leb_le in PS.
  destruct (geom_all s) as [_ _ _ _ _ _ gn _].
  assert (length (copies bits (actions_of s)) = N.to_nat (content_width s * content_height s)) as L.
  { rewrite copies_map, map_length, copy_pixels_length. rewrite <- gn. lia. }
  rewrite L. replace (_ <? _)%nat with false by (symmetry; apply Nat.ltb_ge; lia).
  destruct (_ && _ && _ && _); exact I.
Qed.
