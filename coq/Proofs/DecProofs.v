(* Proofs/DecProofs.v -- property C05 for the data decoder: decode_data / decode_str never
   panic, overflow, index out of bounds or run out of fuel, for every codeword vector. *)
From Coq Require Import Arith ZArith NArith List Bool Lia.
From DM Require Import Generated.ModeTables Generated.Charsets Spec.GF256 Model.Outcome Model.Dec Model.Eci Proofs.EciProofs.
Import ListNotations.
Local Open Scope N_scope.

Definition rl (r : reader) : nat := length (rd r).

(* postcondition shape: no panic, and on success the reader did not grow *)
Definition good {A} (n : nat) (proj : A -> reader) (o : R A) : Prop :=
  match o with Panic _ => False | Err _ => True | Ok a => (rl (proj a) <= n)%nat end.
Definition good_lt {A} (n : nat) (proj : A -> reader) (o : R A) : Prop :=
  match o with Panic _ => False | Err _ => True | Ok a => (rl (proj a) < n)%nat end.

Lemma table_facts :
  length dec_BASE_C40 = 37%nat /\ length dec_BASE_TEXT = 37%nat /\ length dec_SHIFT2 = 27%nat /\
  length dec_SHIFT3_C40 = 32%nat /\ length dec_SHIFT3_TEXT = 32%nat /\
  forallb (fun x => x <? 128) (dec_BASE_C40 ++ dec_BASE_TEXT ++ dec_SHIFT2 ++ dec_SHIFT3_C40 ++ dec_SHIFT3_TEXT) = true.
Proof. repeat split. Qed.

Definition ext (out out' : list N) : Prop := exists sfx, out' = out ++ sfx.
Lemma ext_refl o : ext o o. Proof. exists []. now rewrite app_nil_r. Qed.
Lemma ext_app o s : ext o (o ++ s). Proof. now exists s. Qed.
Lemma ext_trans a b c : ext a b -> ext b c -> ext a c.
Proof. intros [s1 ->] [s2 ->]. exists (s1 ++ s2). now rewrite app_assoc. Qed.
Lemma ext_len a b : ext a b -> (length a <= length b)%nat.
Proof. intros [s ->]. rewrite app_length. lia. Qed.

(* ECI spans: positions non-decreasing, between lo and hi *)
Fixpoint spans_ok (lo : N) (l : list (N * N)) (hi : N) : bool :=
  match l with [] => lo <=? hi | (p, _) :: r => (lo <=? p) && spans_ok p r hi end.
Lemma spans_mono l : forall lo hi hi', spans_ok lo l hi = true -> hi <= hi' -> spans_ok lo l hi' = true.
Proof. induction l as [|[p e] r IH]; intros lo hi hi' H L; cbn [spans_ok] in *.
  - apply N.leb_le in H. apply N.leb_le. lia.
  - apply andb_true_iff in H. destruct H as [A B]. rewrite A. cbn. eapply IH; eassumption. Qed.
Lemma spans_snoc l : forall lo hi e, spans_ok lo l hi = true -> spans_ok lo (l ++ [(hi, e)]) hi = true.
Proof. induction l as [|[p e0] r IH]; intros lo hi e H; cbn [spans_ok app] in *.
  - rewrite H. cbn. apply N.leb_refl.
  - apply andb_true_iff in H. destruct H as [A B]. rewrite A. cbn. now apply IH. Qed.

Lemma read_eci_good r : good_lt (rl r) fst (read_eci r) \/ rd r = [].
Proof.
  unfold read_eci, rl. destruct (rd r) as [|c1 t1]; [now right|left].
  destruct ((1 <=? c1) && (c1 <=? 127)); [cbn; lia|].
  destruct ((128 <=? c1) && (c1 <=? 191)).
  { destruct t1 as [|c2 t2]; [exact I|]. destruct (negb (Dec.in_1_254 c2)); cbn; [exact I|lia]. }
  destruct ((192 <=? c1) && (c1 <=? 207)); [|exact I].
  destruct t1 as [|c2 t2]; [exact I|]. destruct (negb (Dec.in_1_254 c2)); [exact I|].
  destruct t2 as [|c3 t3]; [exact I|]. destruct (negb (Dec.in_1_254 c3)); cbn; [exact I|lia].
Qed.

Lemma check_padding_good l : forall c, good (length l) (fun r => r) (check_padding l c).
Proof. induction l as [|ch t IH]; intros c; cbn [check_padding]; [cbn; lia|].
  destruct (_ =? _); [|exact I]. specialize (IH (c + 1)). unfold good in *. destruct (check_padding t (c + 1)); cbn in *; auto; lia. Qed.

Lemma add_u8_ok a b : a + b < 256 -> add_u8 a b = Ok (a + b).
Proof. intros H. unfold add_u8. replace (a + b <? 256) with true by (symmetry; apply N.ltb_lt; exact H). reflexivity. Qed.

(* decode_ascii: with enough fuel no panic; on success strictly fewer codewords remain unless none were there *)
Lemma decode_ascii_good fuel : forall r us out ecis, (rl r < fuel)%nat ->
  match decode_ascii fuel r us out ecis with
  | Panic _ => False
  | Err _ => True
  | Ok (r', _, out', ecis') => (rl r' <= rl r)%nat /\ (rd r <> [] -> rl r' < rl r)%nat /\ ext out out' /\
      (forall lo, spans_ok lo ecis (N.of_nat (length out)) = true -> spans_ok lo ecis' (N.of_nat (length out')) = true)
  end.
Proof.
  induction fuel as [|f IH]; intros r us out ecis Hf; [lia|]. cbn [decode_ascii].
  unfold rl in *. destruct (rd r) as [|ch t] eqn:Er.
  - destruct us; [exact I|]. rewrite Er. cbn [length]. repeat split; [lia|congruence|apply ext_refl|auto].
  - cbn [length] in Hf.
    assert (forall us' sfx, match decode_ascii f (mkrd t (cnt r + 1)) us' (out ++ sfx) ecis with
              | Panic _ => False | Err _ => True
              | Ok (r', _, out', ecis') =>
                (length (rd r') <= length (ch :: t))%nat /\ (ch :: t <> [] -> length (rd r') < length (ch :: t))%nat /\ ext out out' /\
                (forall lo, spans_ok lo ecis (N.of_nat (length out)) = true -> spans_ok lo ecis' (N.of_nat (length out')) = true)
              end) as Rec.
    { intros us' sfx. specialize (IH (mkrd t (cnt r + 1)) us' (out ++ sfx) ecis). cbn [rd] in IH. specialize (IH ltac:(lia)).
      destruct (decode_ascii f _ us' _ ecis) as [[[[r' m'] o'] e']| |]; auto. destruct IH as (A & B & C & D). cbn [length].
      repeat split; [lia|intros _; lia|eapply ext_trans; [apply ext_app|exact C]|].
      intros lo H. apply D. eapply spans_mono; [exact H|]. rewrite app_length. lia. }
    assert (forall us', match decode_ascii f (mkrd t (cnt r + 1)) us' out ecis with
              | Panic _ => False | Err _ => True
              | Ok (r', _, out', ecis') =>
                (length (rd r') <= length (ch :: t))%nat /\ (ch :: t <> [] -> length (rd r') < length (ch :: t))%nat /\ ext out out' /\
                (forall lo, spans_ok lo ecis (N.of_nat (length out)) = true -> spans_ok lo ecis' (N.of_nat (length out')) = true)
              end) as Rec0.
    { intros us'. specialize (Rec us' []). rewrite app_nil_r in Rec. exact Rec. }
    assert (forall (r' : reader) (m : EncodationType), (length (rd r') < length (ch :: t))%nat ->
              (length (rd r') <= length (ch :: t))%nat /\ (ch :: t <> [] -> length (rd r') < length (ch :: t))%nat /\ ext out out /\
              (forall lo, spans_ok lo ecis (N.of_nat (length out)) = true -> spans_ok lo ecis (N.of_nat (length out)) = true)) as Ret.
    { intros r' m Hl. repeat split; [lia|intros _; exact Hl|apply ext_refl|auto]. }
    destruct (us && negb ((1 <=? ch) && (ch <=? 128))); [exact I|].
    destruct ((1 <=? ch) && (ch <=? 128)) eqn:E1.
    { apply andb_true_iff in E1. destruct E1 as [A B]. apply N.leb_le in A, B.
      destruct us; [rewrite add_u8_ok by lia; cbn [bind]|]; apply Rec. }
    destruct (ch =? ascii_PAD).
    { pose proof (check_padding_good t (cnt r + 1)) as G. unfold good in G.
      destruct (check_padding t (cnt r + 1)) as [r2| |]; cbn [bind]; auto. unfold rl in G. apply (Ret r2 Ascii). cbn [length]. lia. }
    destruct ((130 <=? ch) && (ch <=? 229)); [apply Rec|].
    destruct (ch =? ascii_LATCH_C40); [apply (Ret _ C40); cbn [rd length]; lia|].
    destruct (ch =? ascii_LATCH_BASE256); [apply (Ret _ Base256); cbn [rd length]; lia|].
    destruct (ch =? ascii_FNC1); [apply Rec|].
    destruct (ch =? 233); [exact I|]. destruct (ch =? 234); [exact I|].
    destruct (ch =? ascii_UPPER_SHIFT); [apply Rec0|].
    destruct (ch =? ascii_LATCH_X12); [apply (Ret _ X12); cbn [rd length]; lia|].
    destruct (ch =? ascii_LATCH_TEXT); [apply (Ret _ Text); cbn [rd length]; lia|].
    destruct (ch =? ascii_LATCH_EDIFACT); [apply (Ret _ Edifact); cbn [rd length]; lia|].
    destruct (ch =? ascii_ECI); [|exact I].
    destruct (read_eci_good (mkrd t (cnt r + 1))) as [G|G].
    + unfold good_lt, rl in G. cbn [rd] in G.
      destruct (read_eci (mkrd t (cnt r + 1))) as [[r2 eci]| |]; cbn [bind]; auto. cbn [fst] in G.
      specialize (IH r2 us out (ecis ++ [(N.of_nat (length out), eci)]) ltac:(lia)).
      destruct (decode_ascii f r2 us out _) as [[[[r' m'] o'] e']| |]; auto. destruct IH as (A & B & C & D). cbn [length].
      repeat split; [lia|intros _; lia|exact C|]. intros lo H. apply D. now apply spans_snoc.
    + cbn [rd] in G. subst t. cbn [read_eci rd bind]. exact I.
Qed.

Lemma take_base256_good n : forall l c out,
  match take_base256 n l c out with Panic _ => False | Err _ => True | Ok (r', _) => (rl r' <= length l)%nat end.
Proof.
  induction n as [|n IH]; intros l c out; cbn [take_base256]; [unfold rl; cbn; lia|].
  destruct l as [|ch t]; [exact I|]. specialize (IH t (c + 1) (out ++ [derandomize_255_state ch (c + 1)])).
  destruct (take_base256 n t _ _) as [[r' o']| |]; auto. cbn [length]. lia.
Qed.

Lemma decode_base256_good r out : rd r <> [] ->
  match decode_base256 r out with Panic _ => False | Err _ => True | Ok (r', m, _) => (rl r' < rl r)%nat /\ m = Ascii end.
Proof.
  unfold decode_base256, rl. destruct (rd r) as [|c1 t1]; [congruence|]. intros _.
  set (ch1 := derandomize_255_state c1 (cnt r + 1)).
  destruct (ch1 =? 0).
  { cbn [bind]. pose proof (take_base256_good (N.to_nat (N.of_nat (length t1))) t1 (cnt r + 1) out) as G.
    destruct (take_base256 _ t1 _ out) as [[r2 o2]| |]; cbn [bind]; auto. unfold rl in G. cbn [length]. split; [lia|reflexivity]. }
  destruct (ch1 <? 250).
  { cbn [bind]. pose proof (take_base256_good (N.to_nat ch1) t1 (cnt r + 1) out) as G.
    destruct (take_base256 _ t1 _ out) as [[r2 o2]| |]; cbn [bind]; auto. unfold rl in G. cbn [length]. split; [lia|reflexivity]. }
  destruct t1 as [|c2 t2]; [exact I|]. cbn [bind].
  pose proof (take_base256_good (N.to_nat (250 * (ch1 - 249) + derandomize_255_state c2 (cnt r + 2))) t2 (cnt r + 2) out) as G.
  destruct (take_base256 _ t2 _ out) as [[r2 o2]| |]; cbn [bind]; auto. unfold rl in G. cbn [length]. split; [lia|reflexivity].
Qed.

Lemma decode_edifact_good fuel : forall r out, (rl r < fuel)%nat ->
  match decode_edifact fuel r out with Panic _ => False | Err _ => True | Ok (r', m, _) => (rl r' <= rl r)%nat /\ m = Ascii end.
Proof.
  induction fuel as [|f IH]; intros r out Hf; [lia|]. cbn [decode_edifact]. unfold rl in *.
  destruct (rd r) as [|a t1] eqn:Er; [rewrite Er; split; [lia|reflexivity]|].
  destruct (rlen r <=? 2); [rewrite Er; split; [lia|reflexivity]|].
  destruct (a / 4 =? edifact_UNLATCH); [cbn [rd length]; split; [lia|reflexivity]|].
  destruct t1 as [|b t2].
  { specialize (IH (mkrd [] (cnt r + 1)) (out ++ [dec_edifact_char (a / 4)])). cbn [rd length] in *. specialize (IH ltac:(lia)).
    destruct (decode_edifact f _ _) as [[[r' m'] o']| |]; auto. destruct IH. split; [lia|assumption]. }
  destruct (_ =? edifact_UNLATCH); [cbn [rd length]; split; [lia|reflexivity]|].
  destruct t2 as [|c t3].
  { match goal with |- context [decode_edifact f ?rr ?oo] => specialize (IH rr oo) end. cbn [rd length] in *. specialize (IH ltac:(lia)).
    match goal with |- context [decode_edifact f ?rr ?oo] => destruct (decode_edifact f rr oo) as [[[r' m'] o']| |] end; auto. destruct IH. split; [lia|assumption]. }
  destruct (_ =? edifact_UNLATCH); [cbn [rd length]; split; [lia|reflexivity]|].
  destruct (_ =? edifact_UNLATCH); [cbn [rd length]; split; [lia|reflexivity]|].
  match goal with |- context [decode_edifact f ?rr ?oo] => specialize (IH rr oo) end. cbn [rd length] in *. specialize (IH ltac:(lia)).
  match goal with |- context [decode_edifact f ?rr ?oo] => destruct (decode_edifact f rr oo) as [[[r' m'] o']| |] end; auto. destruct IH. split; [lia|assumption].
Qed.

Lemma decode_c40_tuple_good a b : byte a -> byte b ->
  match decode_c40_tuple a b with
  | Panic _ => False | Err _ => True
  | Ok (c1, c2, c3) => c1 <= 40 /\ c2 <= 39 /\ c3 <= 39
  end.
Proof.
  unfold decode_c40_tuple, byte. intros Ha Hb. destruct (a * 256 + b =? 0); [exact I|].
  set (full := a * 256 + b - 1). assert (full < 65536) as Hfu by (unfold full; lia).
  set (c1 := full / 1600). set (f2 := full - c1 * 1600). set (c2 := f2 / 40).
  assert (c1 <= 40) by (apply N.lt_succ_r; unfold c1; apply N.div_lt_upper_bound; lia).
  assert (f2 = full mod 1600) as E2.
  { unfold f2, c1. rewrite N.mod_eq by lia. f_equal. apply N.mul_comm. }
  assert (f2 < 1600) by (rewrite E2; apply N.mod_lt; lia).
  assert (c2 <= 39) by (unfold c2; apply N.lt_succ_r; apply N.div_lt_upper_bound; lia).
  assert (f2 - c2 * 40 = f2 mod 40) as E3.
  { unfold c2. rewrite N.mod_eq by lia. f_equal. apply N.mul_comm. }
  repeat split; try assumption. rewrite E3. pose proof (N.mod_lt f2 40 ltac:(lia)). lia.
Qed.

Lemma decode_x12_good fuel : forall r out, (rl r < fuel)%nat ->
  match decode_x12 fuel r out with Panic _ => False | Err _ => True | Ok (r', m, _) => (rl r' <= rl r)%nat /\ m = Ascii end.
Proof.
  induction fuel as [|f IH]; intros r out Hf; [lia|]. cbn [decode_x12]. unfold rl in *.
  destruct (rd r) as [|first [|second t2]] eqn:Er.
  - rewrite Er. split; [cbn; lia|reflexivity].
  - destruct (first =? UNLATCH); [cbn [rd length]; split; [lia|reflexivity]|]. rewrite Er. split; [cbn; lia|reflexivity].
  - destruct (first =? UNLATCH); [cbn [rd length]; split; [lia|reflexivity]|].
    assert (forall a b, match decode_c40_tuple a b with Panic _ => False | _ => True end) as TP
      by (intros a b; unfold decode_c40_tuple; destruct (_ =? 0); exact I).
    specialize (TP first second).
    destruct (decode_c40_tuple first second) as [[[c1 c2] c3]| |]; cbn [bind]; auto.
    destruct (dec_x12_val c1), (dec_x12_val c2), (dec_x12_val c3); try exact I.
    specialize (IH (mkrd t2 (cnt r + 2)) (out ++ [n; n0; n1])). cbn [rd length] in *. specialize (IH ltac:(lia)).
    destruct (decode_x12 f _ _) as [[[r' m'] o']| |]; auto. destruct IH. split; [lia|assumption].
Qed.

Lemma after_break_rl r : (rl (after_break r) <= rl r)%nat.
Proof.
  unfold after_break, rl. destruct (rd r) as [|x0 t0] eqn:E; [rewrite E; lia|].
  destruct t0 as [|y0 t1]; [|rewrite E; lia]. destruct (x0 =? UNLATCH); [cbn; lia|rewrite E; lia].
Qed.

Lemma get_ok {A} (l : list A) i : (i < length l)%nat -> exists x, @get dec_error A l i = Ok x /\ nth_error l i = Some x.
Proof. intros H. unfold get. destruct (nth_error l i) eqn:E; [eauto|]. apply nth_error_None in E. lia. Qed.

Lemma table_entry_small (t : list N) i x : forallb (fun x => x <? 128) t = true -> nth_error t i = Some x -> x < 128.
Proof. intros F E. rewrite forallb_forall in F. apply N.ltb_lt, F. eapply nth_error_In; exact E. Qed.

Lemma c40_value_good mb ms3 ch shift up out :
  (mb = dec_BASE_C40 /\ ms3 = dec_SHIFT3_C40) \/ (mb = dec_BASE_TEXT /\ ms3 = dec_SHIFT3_TEXT) ->
  match c40_value mb ms3 ch shift up out with Panic _ => False | _ => True end.
Proof.
  intros Hm. unfold c40_value.
  assert (length mb = 37%nat /\ length ms3 = 32%nat /\ forallb (fun x => x <? 128) mb = true /\ forallb (fun x => x <? 128) ms3 = true) as (L1 & L3 & S1 & S3).
  { destruct Hm as [[-> ->]|[-> ->]]; repeat split. }
  assert (S2 : forallb (fun x => x <? 128) dec_SHIFT2 = true) by reflexivity.
  destruct (shift =? 0).
  { destruct (N.leb_spec ch 2); [exact I|]. destruct (N.leb_spec ch 39); [|exact I].
    destruct (get_ok mb (N.to_nat (ch - 3)) ltac:(lia)) as (x & -> & Ex). cbn [bind].
    pose proof (table_entry_small _ _ _ S1 Ex). destruct up; [rewrite add_u8_ok by lia|]; exact I. }
  destruct (shift =? 1).
  { destruct (N.leb_spec ch 31); [|exact I]. destruct up; [rewrite add_u8_ok by lia|]; exact I. }
  destruct (shift =? 2).
  { destruct (N.leb_spec ch 26).
    - destruct (get_ok dec_SHIFT2 (N.to_nat ch) ltac:(cbn; lia)) as (x & -> & Ex). cbn [bind].
      pose proof (table_entry_small _ _ _ S2 Ex). destruct up; [rewrite add_u8_ok by lia|]; exact I.
    - destruct (ch =? 27); [exact I|]. destruct (ch =? 30); exact I. }
  destruct (N.leb_spec ch 31); [|exact I].
  destruct (get_ok ms3 (N.to_nat ch) ltac:(lia)) as (x & -> & Ex). cbn [bind].
  pose proof (table_entry_small _ _ _ S3 Ex). destruct up; [rewrite add_u8_ok by lia|]; exact I.
Qed.

Lemma decode_c40_like_good fuel mb ms3 :
  (mb = dec_BASE_C40 /\ ms3 = dec_SHIFT3_C40) \/ (mb = dec_BASE_TEXT /\ ms3 = dec_SHIFT3_TEXT) ->
  forall r shift up out, (rl r < fuel)%nat ->
  match decode_c40_like fuel mb ms3 r shift up out with
  | Panic _ => False | Err _ => True | Ok (r', m, _) => (rl r' <= rl r)%nat /\ m = Ascii end.
Proof.
  intros Hm. induction fuel as [|f IH]; intros r shift up out Hf; [lia|]. cbn [decode_c40_like]. unfold rl in *.
  destruct (rd r) as [|first [|second t2]] eqn:Er.
  - rewrite Er. split; [cbn; lia|reflexivity].
  - destruct (first =? UNLATCH); [cbn [rd length]; split; [lia|reflexivity]|]. rewrite Er. split; [cbn; lia|reflexivity].
  - destruct (first =? UNLATCH).
    { pose proof (after_break_rl (mkrd (second :: t2) (cnt r + 1))) as A. unfold rl in A. cbn [rd length] in *. split; [lia|reflexivity]. }
    assert (forall a b, match decode_c40_tuple a b with Panic _ => False | _ => True end) as TP
      by (intros a b; unfold decode_c40_tuple; destruct (_ =? 0); exact I).
    specialize (TP first second).
    destruct (decode_c40_tuple first second) as [[[c1 c2] c3]| |]; cbn [bind]; auto.
    pose proof (c40_value_good mb ms3 c1 shift up out Hm) as V1.
    destruct (c40_value mb ms3 c1 shift up out) as [[su1 o1]| |]; cbn [bind]; auto.
    pose proof (c40_value_good mb ms3 c2 (fst su1) (snd su1) o1 Hm) as V2.
    destruct (c40_value mb ms3 c2 _ _ o1) as [[su2 o2]| |]; cbn [bind]; auto.
    pose proof (c40_value_good mb ms3 c3 (fst su2) (snd su2) o2 Hm) as V3.
    destruct (c40_value mb ms3 c3 _ _ o2) as [[su3 o3]| |]; cbn [bind]; auto.
    specialize (IH (mkrd t2 (cnt r + 2)) (fst su3) (snd su3) o3). cbn [rd length] in *. specialize (IH ltac:(lia)).
    destruct (decode_c40_like f mb ms3 _ _ _ _) as [[[r' m'] o']| |]; auto. destruct IH. split; [lia|assumption].
Qed.

(* ---- the decoders only append to the output ---- *)
Lemma take_base256_ext n : forall l c out r' o', take_base256 n l c out = Ok (r', o') -> ext out o'.
Proof.
  induction n as [|n IH]; intros l c out r' o' H; cbn [take_base256] in H; [inversion H; apply ext_refl|].
  destruct l as [|ch t]; [discriminate|]. apply IH in H. eapply ext_trans; [apply ext_app|exact H].
Qed.

Lemma decode_base256_ext r out r' m o' : decode_base256 r out = Ok (r', m, o') -> ext out o'.
Proof.
  unfold decode_base256. destruct (rd r) as [|c1 t1]; [discriminate|].
  match goal with |- (let* len_rest := ?X in _) = _ -> _ => destruct X as [[[len rest] c]| |] end; cbn [bind]; try discriminate.
  destruct (take_base256 (N.to_nat len) rest c out) as [[r2 o2]| |] eqn:T; cbn [bind]; try discriminate.
  intros H; inversion H; subst. eapply take_base256_ext; exact T.
Qed.

Lemma decode_edifact_ext fuel : forall r out r' m o', decode_edifact fuel r out = Ok (r', m, o') -> ext out o'.
Proof.
  induction fuel as [|f IH]; intros r out r' m o' H; [discriminate|]. cbn [decode_edifact] in H.
  destruct (rd r) as [|a t1]; [inversion H; apply ext_refl|].
  destruct (rlen r <=? 2); [inversion H; apply ext_refl|].
  destruct (a / 4 =? edifact_UNLATCH); [inversion H; apply ext_refl|].
  destruct t1 as [|b t2]; [apply IH in H; eapply ext_trans; [apply ext_app|exact H]|].
  destruct (_ =? edifact_UNLATCH); [inversion H; apply ext_app|].
  destruct t2 as [|c t3]; [apply IH in H; eapply ext_trans; [|exact H]; rewrite <- app_assoc; apply ext_app|].
  destruct (_ =? edifact_UNLATCH); [inversion H; rewrite <- app_assoc; apply ext_app|].
  destruct (_ =? edifact_UNLATCH); [inversion H; rewrite <- !app_assoc; apply ext_app|].
  apply IH in H. eapply ext_trans; [|exact H]. rewrite <- !app_assoc. apply ext_app.
Qed.

Lemma decode_x12_ext fuel : forall r out r' m o', decode_x12 fuel r out = Ok (r', m, o') -> ext out o'.
Proof.
  induction fuel as [|f IH]; intros r out r' m o' H; [discriminate|]. cbn [decode_x12] in H.
  destruct (rd r) as [|first [|second t2]].
  - inversion H; apply ext_refl.
  - destruct (first =? UNLATCH); inversion H; apply ext_refl.
  - destruct (first =? UNLATCH); [inversion H; apply ext_refl|].
    destruct (decode_c40_tuple first second) as [[[c1 c2] c3]| |]; cbn [bind] in H; try discriminate.
    destruct (dec_x12_val c1), (dec_x12_val c2), (dec_x12_val c3); try discriminate.
    apply IH in H. eapply ext_trans; [apply ext_app|exact H].
Qed.

Lemma c40_value_ext mb ms3 ch shift up out su o' : c40_value mb ms3 ch shift up out = Ok (su, o') -> ext out o'.
Proof.
  unfold c40_value. intros H.
  repeat match type of H with
  | (if ?c then _ else _) = _ => destruct c
  | (let* x := ?X in _) = _ => destruct X; cbn [bind] in H; try discriminate
  end; try discriminate; inversion H; subst; try apply ext_refl; try apply ext_app.
Qed.

Lemma decode_c40_like_ext fuel mb ms3 : forall r shift up out r' m o',
  decode_c40_like fuel mb ms3 r shift up out = Ok (r', m, o') -> ext out o'.
Proof.
  induction fuel as [|f IH]; intros r shift up out r' m o' H; [discriminate|]. cbn [decode_c40_like] in H.
  destruct (rd r) as [|first [|second t2]].
  - inversion H; apply ext_refl.
  - destruct (first =? UNLATCH); inversion H; apply ext_refl.
  - destruct (first =? UNLATCH); [inversion H; apply ext_refl|].
    destruct (decode_c40_tuple first second) as [[[c1 c2] c3]| |]; cbn [bind] in H; try discriminate.
    destruct (c40_value mb ms3 c1 shift up out) as [[su1 o1]| |] eqn:V1; cbn [bind] in H; try discriminate.
    destruct (c40_value mb ms3 c2 _ _ o1) as [[su2 o2]| |] eqn:V2; cbn [bind] in H; try discriminate.
    destruct (c40_value mb ms3 c3 _ _ o2) as [[su3 o3]| |] eqn:V3; cbn [bind] in H; try discriminate.
    apply IH in H. apply c40_value_ext in V1, V2, V3. eauto using ext_trans.
Qed.

(* ---- the main loop: fuel 2n+2 is enough ---- *)
Definition mode_w (m : EncodationType) : nat := match m with Ascii => 0 | _ => 1 end.

Lemma decode_loop_good fuel : forall r mode out ecis, (2 * rl r + mode_w mode < fuel)%nat ->
  match decode_loop fuel r mode out ecis with
  | Panic _ => False | Err _ => True
  | Ok (out', ecis') => ext out out' /\
      (forall lo, spans_ok lo ecis (N.of_nat (length out)) = true -> spans_ok lo ecis' (N.of_nat (length out')) = true)
  end.
Proof.
  induction fuel as [|f IH]; intros r mode out ecis Hf; [lia|]. cbn [decode_loop].
  destruct (rd r) as [|c0 t0] eqn:Er; [split; [apply ext_refl|auto]|].
  assert (rd r <> []) as Hne by congruence.
  assert (rl r < S (length (c0 :: t0)))%nat as Hn by (unfold rl; rewrite Er; lia).
  assert (forall o', ext out o' -> forall lo, spans_ok lo ecis (N.of_nat (length out)) = true -> spans_ok lo ecis (N.of_nat (length o')) = true) as SP.
  { intros o' E lo H. eapply spans_mono; [exact H|]. apply ext_len in E. lia. }
  (* common tail: the recursive call *)
  assert (forall r' m' o' e', (2 * rl r' + mode_w m' < 2 * rl r + mode_w mode)%nat -> ext out o' ->
            (forall lo, spans_ok lo ecis (N.of_nat (length out)) = true -> spans_ok lo e' (N.of_nat (length o')) = true) ->
            match decode_loop f r' m' o' e' with
            | Panic _ => False | Err _ => True
            | Ok (out', ecis') => ext out out' /\
                (forall lo, spans_ok lo ecis (N.of_nat (length out)) = true -> spans_ok lo ecis' (N.of_nat (length out')) = true)
            end) as Tail.
  { intros r' m' o' e' M E SPN. specialize (IH r' m' o' e' ltac:(lia)).
    destruct (decode_loop f r' m' o' e') as [[o2 e2]| |]; auto. destruct IH as [E2 S2].
    split; [eapply ext_trans; eassumption|]. intros lo H. apply S2, SPN, H. }
  destruct mode.
  - pose proof (decode_ascii_good _ r false out ecis Hn) as G.
    destruct (decode_ascii _ r false out ecis) as [[[[r' m'] o'] e']| |]; cbn [bind]; auto. destruct G as (A & B & C & D).
    specialize (B Hne). apply Tail; [destruct m'; cbn; lia|exact C|exact D].
  - pose proof (decode_c40_like_good _ _ _ (or_introl (conj eq_refl eq_refl)) r 0 false out Hn) as G.
    destruct (decode_c40_like _ _ _ r 0 false out) as [[[r' m'] o']| |] eqn:E; cbn [bind]; auto. destruct G as [A ->].
    apply decode_c40_like_ext in E. apply Tail; [cbn; lia|exact E|now apply SP].
  - pose proof (decode_c40_like_good _ _ _ (or_intror (conj eq_refl eq_refl)) r 0 false out Hn) as G.
    destruct (decode_c40_like _ _ _ r 0 false out) as [[[r' m'] o']| |] eqn:E; cbn [bind]; auto. destruct G as [A ->].
    apply decode_c40_like_ext in E. apply Tail; [cbn; lia|exact E|now apply SP].
  - pose proof (decode_x12_good _ r out Hn) as G.
    destruct (decode_x12 _ r out) as [[[r' m'] o']| |] eqn:E; cbn [bind]; auto. destruct G as [A ->].
    apply decode_x12_ext in E. pose proof (after_break_rl r'). apply Tail; [cbn; lia|exact E|now apply SP].
  - pose proof (decode_edifact_good _ r out Hn) as G.
    destruct (decode_edifact _ r out) as [[[r' m'] o']| |] eqn:E; cbn [bind]; auto. destruct G as [A ->].
    apply decode_edifact_ext in E. apply Tail; [cbn; lia|exact E|now apply SP].
  - pose proof (decode_base256_good r out Hne) as G.
    destruct (decode_base256 r out) as [[[r' m'] o']| |] eqn:E; cbn [bind]; auto. destruct G as [A ->].
    apply decode_base256_ext in E. apply Tail; [cbn; lia|exact E|now apply SP].
Qed.

Definition spans_fit (ecis : list (N * N)) (n : nat) : Prop := spans_ok 0 ecis (N.of_nat n) = true.

Theorem decode_parts_good data raw :
  match decode_parts data raw with
  | Panic _ => False | Err _ => True
  | Ok p => spans_fit (p_eci_spans p) (length (p_output p))
  end.
Proof.
  unfold decode_parts.
  set (pre := match data with
              | c :: t => if c =? MACRO05 then (mkrd t 1, MACRO05_HEAD, true)
                          else if c =? MACRO06 then (mkrd t 1, MACRO06_HEAD, true) else (mkrd data 0, [], false)
              | [] => (mkrd data 0, [], false) end).
  destruct pre as [[r out] amt] eqn:Epre.
  set (ecis := if negb raw && amt then [(0, ECI_UTF8); (N.of_nat (length out), 0)] else []).
  assert (spans_ok 0 ecis (N.of_nat (length out)) = true) as S0.
  { unfold ecis. destruct (negb raw && amt); cbn [spans_ok]; [|apply N.leb_le; lia].
    rewrite N.leb_refl. cbn. replace (0 <=? N.of_nat (length out)) with true by (symmetry; apply N.leb_le; lia).
    cbn. apply N.leb_refl. }
  set (pf := match rd r with
             | c :: t => if c =? ascii_FNC1 then (mkrd t (cnt r + 1), true) else (r, false)
             | [] => (r, false) end).
  destruct pf as [r2 fnc1] eqn:Epf.
  pose proof (decode_loop_good (2 * length (rd r2) + 2) r2 Ascii out ecis ltac:(unfold rl; cbn; lia)) as G.
  destruct (decode_loop _ r2 Ascii out ecis) as [[o2 e2]| |]; cbn [bind]; auto. destruct G as [E SP].
  unfold spans_fit. cbn [p_eci_spans p_output].
  specialize (SP 0 S0). destruct amt.
  - destruct e2 as [|x e2'].
    + cbn [spans_ok]. apply N.leb_le. lia.
    + rewrite app_length. eapply spans_mono; [apply spans_snoc; exact SP|lia].
  - exact SP.
Qed.

Theorem decode_data_no_panic data : no_panic (decode_data data).
Proof.
  unfold decode_data. pose proof (decode_parts_good data true) as G.
  destruct (decode_parts data true) as [p| |]; cbn [bind]; auto. destruct (p_eci_spans p); exact I.
Qed.

(* ---- eci::convert never slices out of range when the spans fit ---- *)
Lemma convert_chunk_no_panic bytes eci out : match convert_chunk bytes eci out with Panic _ => False | _ => True end.
Proof.
  unfold convert_chunk.
  destruct ((eci =? 0) || (eci =? 3)); [destruct (latin1_to_utf8 bytes); exact I|].
  destruct (eci =? 11).
  { revert out. induction bytes as [|ch t IH]; intros out; cbn [decode_iso_8859_9]; [exact I|].
    destruct ((32 <=? ch) && (ch <=? 126)); [apply IH|]. destruct ((160 <=? ch) && (ch <=? 255)) eqn:E; [|exact I].
    apply andb_true_iff in E. destruct E as [E1 E2]. apply N.leb_le in E1, E2.
    destruct (get_ok ISO_8859_9 (N.to_nat (ch - 160)) ltac:(cbn; lia)) as (x & -> & _). cbn [bind]. apply IH. }
  destruct (eci =? 13).
  { revert out. induction bytes as [|ch t IH]; intros out; cbn [decode_iso_8859_11]; [exact I|].
    destruct ((32 <=? ch) && (ch <=? 126)); [apply IH|]. destruct ((160 <=? ch) && (ch <=? 218)) eqn:E.
    - apply andb_true_iff in E. destruct E as [E1 E2]. apply N.leb_le in E1, E2.
      destruct (get_ok ISO_8859_11 (N.to_nat (ch - 160)) ltac:(cbn; lia)) as (x & -> & _). cbn [bind]. apply IH.
    - destruct ((223 <=? ch) && (ch <=? 251)) eqn:E'; [|exact I].
      apply andb_true_iff in E'. destruct E' as [E1 E2]. apply N.leb_le in E1, E2.
      destruct (get_ok ISO_8859_11 (N.to_nat (ch - 160 - 4)) ltac:(cbn; lia)) as (x & -> & _). cbn [bind]. apply IH. }
  destruct (eci =? ECI_UTF8); [destruct (from_utf8 bytes); exact I|].
  destruct (eci =? 27); [|exact I]. destruct (forallb _ bytes); [destruct (from_utf8 bytes); exact I|exact I].
Qed.

Lemma convert_go_no_panic raw : forall spans out lo,
  spans_ok lo spans (N.of_nat (length raw)) = true ->
  match spans with (i, _) :: _ => lo <= i | [] => True end ->
  match convert_go raw spans out with Panic _ => False | _ => True end.
Proof.
  induction spans as [|[i eci] rest IH]; intros out lo S Hlo; cbn [convert_go]; [exact I|].
  destruct rest as [|[j e2] rest']; [exact I|].
  cbn [spans_ok] in S. rewrite !andb_true_iff in S. destruct S as [A [B C]]. apply N.leb_le in A, B.
  assert (j <= N.of_nat (length raw)) as Hj.
  { clear - C. revert j C. induction rest' as [|[p e] r IH]; intros j C; cbn [spans_ok] in C; [now apply N.leb_le|].
    apply andb_true_iff in C. destruct C as [C1 C2]. apply N.leb_le in C1. specialize (IH _ C2). lia. }
  unfold slice_of. replace ((j <? i) || (N.of_nat (length raw) <? j)) with false
    by (symmetry; apply orb_false_iff; split; apply N.ltb_ge; lia).
  cbn [bind]. pose proof (convert_chunk_no_panic (firstn (N.to_nat (j - i)) (skipn (N.to_nat i) raw)) eci out) as CC.
  destruct (convert_chunk _ eci out) as [o'| |]; cbn [bind]; auto.
  apply (IH o' i); [cbn [spans_ok]; rewrite andb_true_iff; split; [now apply N.leb_le|exact C]|exact B].
Qed.

Theorem decode_str_no_panic data : no_panic (decode_str data).
Proof.
  unfold decode_str. pose proof (decode_parts_good data false) as G.
  destruct (decode_parts data false) as [p| |]; cbn [bind]; auto. unfold spans_fit in G.
  unfold convert. pose proof (convert_go_no_panic (p_output p) ((0, 0) :: p_eci_spans p ++ [(N.of_nat (length (p_output p)), 0)]) [] 0) as CG.
  cbn [spans_ok] in CG. rewrite N.leb_refl in CG. cbn [andb] in CG.
  assert (spans_ok 0 (p_eci_spans p ++ [(N.of_nat (length (p_output p)), 0)]) (N.of_nat (length (p_output p))) = true) as S1
    by (apply spans_snoc; exact G).
  specialize (CG S1 ltac:(lia)). destruct (convert_go _ _ _); auto.
Qed.
