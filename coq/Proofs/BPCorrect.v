(* Proofs/BPCorrect.v -- find_error_values_bp of Model/RSDec.v solves the transposed Vandermonde system: if the first e
   syndromes are the moments sum_i a_i x_i^j of weights a at the (pairwise different, non-zero) locations x, it returns
   a_i / x_i in place. *)
From Coq Require Import Arith NArith List Bool Lia Ring Field.
From DM Require Import Spec.GF256 Spec.Poly Model.Outcome Model.GF Model.RSEnc Model.RSDec Proofs.GFTie Proofs.RSEncProofs
  Proofs.RSDecProofs Proofs.LDBound Proofs.RSTotal Proofs.LDMath Proofs.LDBridge Proofs.BPMath.
Import ListNotations.
Local Open Scope nat_scope.

Lemma range_step a0 len q : q <> a0 -> ((Datatypes.S a0 <=? q) && (q <? Datatypes.S a0 + len)) = ((a0 <=? q) && (q <? a0 + Datatypes.S len)).
Proof.
  intros NE. destruct (Nat.leb_spec (Datatypes.S a0) q); destruct (Nat.ltb_spec q (Datatypes.S a0 + len)); destruct (Nat.leb_spec a0 q);
    destruct (Nat.ltb_spec q (a0 + Datatypes.S len)); cbn [andb]; try reflexivity; lia.
Qed.
Lemma range_head a0 len : ((a0 <=? a0) && (a0 <? a0 + Datatypes.S len)) = true /\ ((Datatypes.S a0 <=? a0) && (a0 <? Datatypes.S a0 + len)) = false.
Proof.
  destruct (Nat.leb_spec a0 a0); [|lia]. destruct (Nat.ltb_spec a0 (a0 + Datatypes.S len)); [|lia]. destruct (Nat.leb_spec (Datatypes.S a0) a0); [lia|]. split; reflexivity.
Qed.
Lemma range_in a0 len q : q <> a0 -> ((a0 <=? q) && (q <? a0 + Datatypes.S len)) = true -> Datatypes.S a0 <= q.
Proof. intros NE H. apply andb_true_iff in H. destruct H as [H _]. apply Nat.leb_le in H. lia. Qed.

Section BPN.
Variable xs : list N.
Hypothesis Bx : Forall byte xs.
Notation x := (vf xs).

Lemma bp1_inner_spec xk : byte xk -> forall len a0 syn syn', 1 <= a0 -> Forall byte syn ->
  bp1_inner xk syn (rev (seq a0 len)) = Ok syn' ->
  length syn' = length syn /\ Forall byte syn' /\
  forall q, vf syn' q = if (a0 <=? q) && (q <? a0 + len) then Fadd (vf syn q) (Fmul (toF xk) (vf syn (q - 1))) else vf syn q.
Proof.
  intros Bk. induction len as [|len IH]; intros a0 syn syn' Ha Bs H.
  - cbn [seq rev bp1_inner] in H. inversion H; subst. split; [reflexivity|]. split; [exact Bs|]. intros q.
    destruct (Nat.leb_spec a0 q); destruct (Nat.ltb_spec q (a0 + 0)); cbn [andb]; try reflexivity; lia.
  - rewrite seq_S, rev_app_distr in H. cbn [rev app bp1_inner] in H.
    destruct (nth_ok syn (a0 + len - 1)) as [tmp| |] eqn:E1; cbn [bind] in H; try discriminate.
    destruct (nth_ok syn (a0 + len)) as [cur| |] eqn:E2; cbn [bind] in H; try discriminate.
    destruct (set_ok syn (a0 + len) (GF.add cur (GF.mul xk tmp))) as [s1| |] eqn:E3; cbn [bind] in H; try discriminate.
    destruct (nth_ok_nth _ _ _ E1) as [N1 _]. destruct (nth_ok_nth _ _ _ E2) as [N2 _].
    assert (byte tmp) as B1 by (rewrite <- N1; apply nth_byte; exact Bs).
    assert (byte cur) as B2 by (rewrite <- N2; apply nth_byte; exact Bs).
    assert (Forall byte s1) as Bs1 by (eapply Forall_set_ok; [exact E3|exact Bs|apply add_byte; [exact B2|apply mul_byte; assumption]]).
    destruct (IH a0 s1 syn' Ha Bs1 H) as (L & B & V). pose proof (set_ok_length _ _ _ _ E3) as L1.
    split; [lia|]. split; [exact B|]. intros q. rewrite V.
    assert (forall q', vf s1 q' = if Nat.eqb q' (a0 + len) then Fadd (vf syn (a0 + len)) (Fmul (toF xk) (vf syn (a0 + len - 1))) else vf syn q') as V1.
    { intros q'. unfold vf at 1. rewrite (nth_set_ok _ _ _ _ q' E3). destruct (Nat.eqb_spec q' (a0 + len)); [|reflexivity].
      rewrite toF_add, toF_mul by (try apply mul_byte; assumption). unfold vf. rewrite N1, N2. reflexivity. }
    destruct (Nat.leb_spec a0 q) as [GE|LT]; cbn [andb].
    + destruct (Nat.ltb_spec q (a0 + len)) as [IN|OUT].
      * destruct (Nat.ltb_spec q (a0 + Datatypes.S len)); [|lia]. rewrite !V1.
        destruct (Nat.eqb_spec q (a0 + len)); [lia|]. destruct (Nat.eqb_spec (q - 1) (a0 + len)); [lia|]. reflexivity.
      * rewrite V1. destruct (Nat.eqb_spec q (a0 + len)) as [->|NE].
        -- destruct (Nat.ltb_spec (a0 + len) (a0 + Datatypes.S len)); [reflexivity|lia].
        -- destruct (Nat.ltb_spec q (a0 + Datatypes.S len)); [lia|reflexivity].
    + rewrite V1. destruct (Nat.eqb_spec q (a0 + len)); [lia|reflexivity].
Qed.

Lemma bp2_div_spec k : forall len a0 syn syn', k + 1 <= a0 -> a0 + len <= length xs -> Forall byte syn ->
  bp2_div xs syn k (seq a0 len) = Ok syn' ->
  length syn' = length syn /\ Forall byte syn' /\
  forall q, vf syn' q = if (a0 <=? q) && (q <? a0 + len) then Fmul (vf syn q) (Finv (Fadd (x q) (x (q - k - 1)))) else vf syn q.
Proof.
  induction len as [|len IH]; intros a0 syn syn' Ha Hl Bs H; cbn [seq bp2_div] in H.
  - inversion H; subst. split; [reflexivity|]. split; [exact Bs|]. intros q.
    destruct (Nat.leb_spec a0 q); destruct (Nat.ltb_spec q (a0 + 0)); cbn [andb]; try reflexivity; lia.
  - destruct (nth_ok xs a0) as [xj| |] eqn:E1; cbn [bind] in H; try discriminate.
    destruct (nth_ok xs (a0 - k - 1)) as [xo| |] eqn:E2; cbn [bind] in H; try discriminate.
    destruct (nth_ok syn a0) as [cur| |] eqn:E3; cbn [bind] in H; try discriminate.
    destruct (gdiv cur (GF.add xj xo)) as [q0| |] eqn:E4; cbn [bind] in H; try discriminate.
    destruct (set_ok syn a0 q0) as [s1| |] eqn:E5; cbn [bind] in H; try discriminate.
    destruct (nth_ok_nth _ _ _ E1) as [N1 _]. destruct (nth_ok_nth _ _ _ E2) as [N2 _]. destruct (nth_ok_nth _ _ _ E3) as [N3 _].
    assert (byte xj) as B1 by (rewrite <- N1; apply nth_byte; exact Bx).
    assert (byte xo) as B2 by (rewrite <- N2; apply nth_byte; exact Bx).
    assert (byte cur) as B3 by (rewrite <- N3; apply nth_byte; exact Bs).
    destruct (gdiv_toF _ _ _ B3 (add_byte _ _ B1 B2) E4) as (_ & Bq & Eq).
    assert (Forall byte s1) as Bs1 by (eapply Forall_set_ok; [exact E5|exact Bs|exact Bq]).
    destruct (IH (Datatypes.S a0) s1 syn' ltac:(lia) ltac:(lia) Bs1 H) as (L & B & V). pose proof (set_ok_length _ _ _ _ E5) as L1.
    split; [lia|]. split; [exact B|]. intros q. rewrite V.
    assert (forall q', vf s1 q' = if Nat.eqb q' a0 then Fmul (vf syn a0) (Finv (Fadd (x a0) (x (a0 - k - 1)))) else vf syn q') as V1.
    { intros q'. unfold vf at 1. rewrite (nth_set_ok _ _ _ _ q' E5). destruct (Nat.eqb_spec q' a0); [|reflexivity].
      rewrite Eq, toF_add by assumption. unfold vf. rewrite N1, N2, N3. reflexivity. }
    destruct (Nat.eq_dec q a0) as [->|NE].
    + destruct (range_head a0 len) as [R1 R2]. rewrite R1, R2, V1, Nat.eqb_refl. reflexivity.
    + rewrite (range_step a0 len q NE). rewrite V1. destruct (Nat.eqb_spec q a0); [contradiction|]. reflexivity.
Qed.

Lemma bp2_sub_spec : forall len a0 syn syn', Forall byte syn -> bp2_sub syn (seq a0 len) = Ok syn' ->
  length syn' = length syn /\ Forall byte syn' /\
  forall q, vf syn' q = if (a0 <=? q) && (q <? a0 + len) then Fadd (vf syn q) (vf syn (q + 1)) else vf syn q.
Proof.
  induction len as [|len IH]; intros a0 syn syn' Bs H; cbn [seq bp2_sub] in H.
  - inversion H; subst. split; [reflexivity|]. split; [exact Bs|]. intros q.
    destruct (Nat.leb_spec a0 q); destruct (Nat.ltb_spec q (a0 + 0)); cbn [andb]; try reflexivity; lia.
  - destruct (nth_ok syn (a0 + 1)) as [tmp| |] eqn:E1; cbn [bind] in H; try discriminate.
    destruct (nth_ok syn a0) as [cur| |] eqn:E2; cbn [bind] in H; try discriminate.
    destruct (set_ok syn a0 (GF.add cur tmp)) as [s1| |] eqn:E3; cbn [bind] in H; try discriminate.
    destruct (nth_ok_nth _ _ _ E1) as [N1 _]. destruct (nth_ok_nth _ _ _ E2) as [N2 _].
    assert (byte tmp) as B1 by (rewrite <- N1; apply nth_byte; exact Bs).
    assert (byte cur) as B2 by (rewrite <- N2; apply nth_byte; exact Bs).
    assert (Forall byte s1) as Bs1 by (eapply Forall_set_ok; [exact E3|exact Bs|apply add_byte; assumption]).
    destruct (IH (Datatypes.S a0) s1 syn' Bs1 H) as (L & B & V). pose proof (set_ok_length _ _ _ _ E3) as L1.
    split; [lia|]. split; [exact B|]. intros q. rewrite V.
    assert (forall q', vf s1 q' = if Nat.eqb q' a0 then Fadd (vf syn a0) (vf syn (a0 + 1)) else vf syn q') as V1.
    { intros q'. unfold vf at 1. rewrite (nth_set_ok _ _ _ _ q' E3). destruct (Nat.eqb_spec q' a0); [|reflexivity].
      rewrite toF_add by assumption. unfold vf. rewrite N1, N2. reflexivity. }
    destruct (Nat.eq_dec q a0) as [->|NE].
    + destruct (range_head a0 len) as [R1 R2]. rewrite R1, R2, V1, Nat.eqb_refl. reflexivity.
    + rewrite (range_step a0 len q NE). destruct ((a0 <=? q) && (q <? a0 + Datatypes.S len)) eqn:C.
      * pose proof (range_in a0 len q NE C) as GE. rewrite !V1. destruct (Nat.eqb_spec q a0); [contradiction|]. destruct (Nat.eqb_spec (q + 1) a0); [lia|]. reflexivity.
      * rewrite V1. destruct (Nat.eqb_spec q a0); [contradiction|]. reflexivity.
Qed.

Variable a : nat -> F.
Let e := length xs.
Hypothesis He : 1 <= e.
Hypothesis NDx : NoDup xs.

Lemma x_dist i j : i < e -> j < e -> i <> j -> x i <> x j.
Proof.
  intros Hi Hj NE E. apply NE. apply (proj1 (NoDup_nth xs 0%N) NDx i j Hi Hj).
  apply toF_inj; [apply nth_byte; exact Bx|apply nth_byte; exact Bx|exact E].
Qed.

Lemma bp1_spec : forall len k0 syn syn', k0 + len <= e - 1 -> e <= length syn -> Forall byte syn ->
  (forall q, q < e -> vf syn q = st1 x a e k0 q) -> bp1 xs syn e (seq k0 len) = Ok syn' ->
  length syn' = length syn /\ Forall byte syn' /\ forall q, q < e -> vf syn' q = st1 x a e (k0 + len) q.
Proof.
  induction len as [|len IH]; intros k0 syn syn' Hk Hl Bs HV H; cbn [seq bp1] in H.
  - inversion H; subst. rewrite Nat.add_0_r. auto.
  - destruct (nth_ok xs k0) as [xk| |] eqn:E1; cbn [bind] in H; try discriminate.
    destruct (bp1_inner xk syn (rev (seq (k0 + 1) (e - (k0 + 1))))) as [s1| |] eqn:E2; cbn [bind] in H; try discriminate.
    destruct (nth_ok_nth _ _ _ E1) as [N1 _]. assert (byte xk) as Bk by (rewrite <- N1; apply nth_byte; exact Bx).
    destruct (bp1_inner_spec xk Bk (e - (k0 + 1)) (k0 + 1) syn s1 ltac:(lia) Bs E2) as (L1 & B1 & V1).
    destruct (IH (Datatypes.S k0) s1 syn' ltac:(lia) ltac:(lia) B1) with (2 := H) as (L & B & V).
    { intros q Hq. rewrite V1. destruct (Nat.leb_spec (k0 + 1) q) as [GE|LT]; destruct (Nat.ltb_spec q (k0 + 1 + (e - (k0 + 1)))); cbn [andb]; try lia.
      - rewrite (HV q Hq), (HV (q - 1)) by lia. rewrite <- N1. fold (x k0). apply st1_step; lia.
      - rewrite (HV q Hq). symmetry. apply st1_keep; lia. }
    split; [lia|]. split; [exact B|]. intros q Hq. rewrite (V q Hq). f_equal. lia.
Qed.

Lemma bp2_spec : forall len syn syn', len <= e - 1 -> e <= length syn -> Forall byte syn ->
  (forall q, q < e -> vf syn q = st2 x a e len q) -> bp2 xs syn e (rev (seq 0 len)) = Ok syn' ->
  length syn' = length syn /\ Forall byte syn' /\ forall q, q < e -> vf syn' q = st2 x a e 0 q.
Proof.
  induction len as [|k IH]; intros syn syn' Hk Hl Bs HV H.
  - cbn [seq rev bp2] in H. inversion H; subst. auto.
  - rewrite seq_S, rev_app_distr in H. cbn [rev app Nat.add bp2] in H.
    destruct (bp2_div xs syn k (seq (k + 1) (e - (k + 1)))) as [s1| |] eqn:E1; cbn [bind] in H; try discriminate.
    destruct (bp2_sub s1 (seq k (e - 1 - k))) as [s2| |] eqn:E2; cbn [bind] in H; try discriminate.
    destruct (bp2_div_spec k (e - (k + 1)) (k + 1) syn s1 ltac:(lia) ltac:(fold e; lia) Bs E1) as (L1 & B1 & V1).
    destruct (bp2_sub_spec _ _ _ _ B1 E2) as (L2 & B2 & V2).
    assert (forall q, k <= q -> q < e -> vf s1 q = gv x a e k q) as G1.
    { intros q Hq Hqe. rewrite V1. destruct (Nat.leb_spec (k + 1) q) as [GE|LT]; destruct (Nat.ltb_spec q (k + 1 + (e - (k + 1)))); cbn [andb]; try lia.
      - rewrite (HV q Hqe). rewrite (st2_div x a e He k q) by lia. replace (q - k - 1) with (q - Datatypes.S k) by lia.
        pose proof (div_ok x e He x_dist k q ltac:(lia) Hqe) as NZ. field. exact NZ.
      - assert (q = k) as -> by lia. rewrite (HV k) by lia. apply st2_nodiv. exact He. }
    destruct (IH s2 syn' ltac:(lia) ltac:(lia) B2) with (2 := H) as (L & B & V).
    { intros q Hq. rewrite V2. destruct (Nat.leb_spec k q) as [GE|LT]; destruct (Nat.ltb_spec q (k + (e - 1 - k))); cbn [andb]; try lia.
      - rewrite (G1 q GE Hq), (G1 (q + 1)) by lia. apply gv_sub; lia.
      - assert (q = e - 1) as -> by lia. rewrite (G1 (e - 1)) by lia. rewrite <- (gv_sub x a e He k (e - 1)) by lia.
        replace (e - 1 + 1) with e by lia. rewrite gv_end by exact He. ring.
      - rewrite V1. destruct (Nat.leb_spec (k + 1) q); cbn [andb]; [lia|]. rewrite (HV q Hq). apply st2_keep; lia. }
    split; [lia|]. split; [exact B|exact V].
Qed.

Lemma bp3_spec : Forall (fun z => z <> 0%N) xs -> forall len i0 syn syn', i0 + len <= e -> Forall byte syn ->
  bp3 xs syn (seq i0 len) = Ok syn' ->
  length syn' = length syn /\ forall q, vf syn' q = if (i0 <=? q) && (q <? i0 + len) then Fmul (vf syn q) (Finv (x q)) else vf syn q.
Proof.
  intros NZ. induction len as [|len IH]; intros i0 syn syn' Hl Bs H; cbn [seq bp3] in H.
  - inversion H; subst. split; [reflexivity|]. intros q. destruct (Nat.leb_spec i0 q); destruct (Nat.ltb_spec q (i0 + 0)); cbn [andb]; try reflexivity; lia.
  - destruct (nth_ok xs i0) as [xi| |] eqn:E1; cbn [bind] in H; try discriminate.
    destruct (nth_ok syn i0) as [cur| |] eqn:E2; cbn [bind] in H; try discriminate.
    destruct (gdiv cur xi) as [q0| |] eqn:E3; cbn [bind] in H; try discriminate.
    destruct (set_ok syn i0 q0) as [s1| |] eqn:E4; cbn [bind] in H; try discriminate.
    destruct (nth_ok_nth _ _ _ E1) as [N1 _]. destruct (nth_ok_nth _ _ _ E2) as [N2 _].
    assert (byte xi) as B1 by (rewrite <- N1; apply nth_byte; exact Bx).
    assert (byte cur) as B2 by (rewrite <- N2; apply nth_byte; exact Bs).
    destruct (gdiv_toF _ _ _ B2 B1 E3) as (_ & Bq & Eq).
    assert (Forall byte s1) as Bs1 by (eapply Forall_set_ok; [exact E4|exact Bs|exact Bq]).
    destruct (IH (Datatypes.S i0) s1 syn' ltac:(lia) Bs1 H) as (L & V). pose proof (set_ok_length _ _ _ _ E4) as L1.
    split; [lia|]. intros q. rewrite V.
    assert (forall q', vf s1 q' = if Nat.eqb q' i0 then Fmul (vf syn i0) (Finv (x i0)) else vf syn q') as V1.
    { intros q'. unfold vf at 1. rewrite (nth_set_ok _ _ _ _ q' E4). destruct (Nat.eqb_spec q' i0); [|reflexivity].
      rewrite Eq. unfold vf. rewrite N1, N2. reflexivity. }
    destruct (Nat.eq_dec q i0) as [->|NE].
    + destruct (range_head i0 len) as [R1 R2]. rewrite R1, R2, V1, Nat.eqb_refl. reflexivity.
    + rewrite (range_step i0 len q NE). rewrite V1. destruct (Nat.eqb_spec q i0); [contradiction|]. reflexivity.
Qed.

(* the three stages together *)
Theorem bp_stages syn s1 s2 s3 : Forall (fun z => z <> 0%N) xs -> e <= length syn -> Forall byte syn ->
  (forall j, j < e -> vf syn j = fsum e (fun i => Fmul (a i) (Fpow (x i) j))) ->
  bp1 xs syn e (seq 0 (e - 1)) = Ok s1 -> bp2 xs s1 e (rev (seq 0 (e - 1))) = Ok s2 -> bp3 xs s2 (seq 0 e) = Ok s3 ->
  forall i, i < e -> vf s3 i = Fmul (a i) (Finv (x i)).
Proof.
  intros NZ Hl Bs HM E1 E2 E3.
  destruct (bp1_spec (e - 1) 0 syn s1 ltac:(lia) Hl Bs) with (2 := E1) as (L1 & B1 & V1).
  { intros q Hq. rewrite st1_0. apply HM. exact Hq. }
  destruct (bp2_spec (e - 1) s1 s2 ltac:(lia) ltac:(lia) B1) with (2 := E2) as (L2 & B2 & V2).
  { intros q Hq. rewrite (V1 q Hq). cbn [Nat.add]. apply st1_st2; [exact He|exact Hq]. }
  destruct (bp3_spec NZ e 0 s2 s3 ltac:(lia) B2 E3) as (_ & V3).
  intros i Hi. rewrite V3. destruct (Nat.leb_spec 0 i); [|lia]. destruct (Nat.ltb_spec i (0 + e)); [|lia]. cbn [andb].
  rewrite (V2 i Hi). rewrite st2_0 by (try exact He; exact Hi). reflexivity.
Qed.
End BPN.
