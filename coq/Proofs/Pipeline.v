(* Proofs/Pipeline.v -- property C01, symbol layer: for every size and every codeword vector produced by
   the error-code encoder, rendering the symbol (placement, finder pattern) and decoding the pixels
   (strict parsing, placement read-out, error correction) hands exactly the data codewords to the data
   decoder.  Composition of C06, C07, C08 and the weight-0 case of C03. *)
From Coq Require Import Arith ZArith NArith List Bool Lia.
From DM Require Import Generated.Symbols Spec.GF256 Model.Outcome Model.SymbolList Model.Placement Model.Render Model.RSEnc
  Model.RSDec Model.Dec Model.Api
  Proofs.SymbolListProofs Proofs.PlacementProofs Proofs.PlacementValues Proofs.RenderProofs Proofs.RSEncProofs Proofs.RSDecProofs.
Import ListNotations.

Definition lift_dec (o : R (list N)) : outcome decoding_error (list N) :=
  match o with Ok x => Ok x | Err e => Err (DataDecoding e) | Panic p => Panic p end.

Theorem symbol_roundtrip s d e :
  length d = N.to_nat (num_data_codewords s) -> Forall byte d -> encode_error s d = Ok e ->
  exists bits, dm_bitmap s (d ++ e) = Ok (width s, bits) /\
               length bits = N.to_nat (height s * width s) /\
               dm_decode bits (width s) = lift_dec (decode_data d).
Proof.
  intros Ld Hd EE.
  destruct (encode_error_codeword s d Ld Hd) as (e2 & EE2 & Le & Be & IC). rewrite EE in EE2. inversion EE2; subst e2. clear EE2.
  assert (length (d ++ e) = N.to_nat (ntotal s)) as Lt by (rewrite app_length, Ld, Le; unfold ntotal; lia).
  assert (Forall byte (d ++ e)) as Bt by (apply Forall_app; now split).
  destruct (placement_roundtrip s (d ++ e) Lt Bt) as (ent & CP & Lent & RD & PAD).
  set (h := PlacementProofs.zh s) in *. set (w := PlacementProofs.zw s) in *.
  assert (2 <= h /\ 2 <= w)%Z as [Hh Hw].
  { pose proof (sweep _ dims_sweep s) as D. cbv beta in D. apply andb_true_iff in D. destruct D as [D1 D2].
    apply N.leb_le in D1, D2. unfold h, w, PlacementProofs.zh, PlacementProofs.zw. lia. }
  assert (well_formed s ent) as WF.
  { split.
    - rewrite Lent. unfold h, w, PlacementProofs.zh, PlacementProofs.zw. rewrite <- N2Z.inj_mul. lia.
    - intros P. destruct (PAD P) as (Q1 & Q2 & Q3 & Q4). cbv zeta.
      assert (N.to_nat (content_width s) = Z.to_nat w) as Ew by (unfold w, PlacementProofs.zw; lia).
      rewrite Lent, Ew.
      replace (Z.to_nat (h * w) - 2)%nat with (Z.to_nat ((h - 1) * w + (w - 2))) by nia.
      replace (Z.to_nat (h * w) - 1)%nat with (Z.to_nat ((h - 1) * w + (w - 1))) by nia.
      replace (Z.to_nat (h * w) - Z.to_nat w - 2)%nat with (Z.to_nat ((h - 2) * w + (w - 2))) by nia.
      replace (Z.to_nat (h * w) - Z.to_nat w - 1)%nat with (Z.to_nat ((h - 2) * w + (w - 1))) by nia.
      repeat split; assumption. }
  destruct (geom_all s) as [gw gh _ _ _ _ _ _].
  exists (bits_of s ent). split; [|split].
  - unfold dm_bitmap. fold h w. unfold h, w, PlacementProofs.zh, PlacementProofs.zw in CP. rewrite CP. cbn [bind].
    rewrite bitmap_fast_eq. unfold bitmap, bits_of. cbn [snd]. rewrite gw. reflexivity.
  - rewrite bits_of_length. reflexivity.
  - unfold dm_decode. rewrite try_from_bits_fast_eq, (parse_render s ent WF).
    unfold h, w, PlacementProofs.zh, PlacementProofs.zw in RD. rewrite RD.
    rewrite (decode_codeword_unchanged s d e Ld Hd EE).
    rewrite app_length. replace (length d + length e <? N.to_nat (num_data_codewords s))%nat with false by (symmetry; apply Nat.ltb_ge; lia).
    rewrite <- Ld, firstn_app, Nat.sub_diag, firstn_all. cbn [firstn]. rewrite app_nil_r.
    unfold lift_dec. destruct (decode_data d); reflexivity.
Qed.
