(* Proofs/PlacementProofs.v -- property C07: the traversal of the model equals the placement
   program of Annex F for each of the 48 mapping-matrix sizes (kernel sweeps), and is a
   bijection between codeword bits and modules. *)
From Coq Require Import ZArith NArith List Bool Lia FMapPositive.
From DM Require Import Generated.Symbols Spec.AnnexF Model.Outcome Model.Placement Proofs.SymbolListProofs.
Import ListNotations.
Local Open Scope Z_scope.

Definition zh (s : SymbolSize) : Z := Z.of_N (content_height s).
Definition zw (s : SymbolSize) : Z := Z.of_N (content_width s).
Definition ntotal (s : SymbolSize) : N := (num_data_codewords s + num_ecc_blocks s * num_ecc_per_block s)%N.

(* table of the model: for every module the (codeword, bit) that run() assigns to it *)
Fixpoint tab_add_bits (cw : N) (bit : N) (idxs : list Z) (m : PM.t (N * N)) : PM.t (N * N) :=
  match idxs with
  | [] => m
  | i :: r => tab_add_bits cw (bit + 1)%N r (PM.add (key i) (cw, bit) m)
  end.
Fixpoint tab_add (cw : N) (visits : list (list Z)) (m : PM.t (N * N)) : PM.t (N * N) :=
  match visits with
  | [] => m
  | v :: r => tab_add (cw + 1)%N r (tab_add_bits cw 1%N v m)
  end.

Definition model_table (h w : Z) (has_padding : bool) : option (list cell) :=
  match run h w with
  | Ok visits =>
    let m := tab_add 1%N visits (PM.empty _) in
    Some (map (fun i : nat =>
           let idx := Z.of_nat i in
           match PM.find (key idx) m with
           | Some (c, b) => Bit c b
           | None => if has_padding && ((idx =? (h - 2) * w + (w - 2)) || (idx =? (h - 1) * w + (w - 1)))
                     then FixedDark else FixedLight
           end) (seq 0 (Z.to_nat (h * w))))
  | _ => None
  end.

Definition cell_eqb (a b : cell) : bool :=
  match a, b with
  | Bit c1 b1, Bit c2 b2 => (c1 =? c2)%N && (b1 =? b2)%N
  | FixedDark, FixedDark => true
  | FixedLight, FixedLight => true
  | _, _ => false
  end.
Lemma cell_eqb_eq a b : cell_eqb a b = true -> a = b.
Proof. destruct a, b; cbn; try discriminate; try reflexivity.
  rewrite andb_true_iff, !N.eqb_eq. intros [-> ->]. reflexivity. Qed.

Fixpoint cells_eqb (l1 l2 : list cell) : bool :=
  match l1, l2 with
  | [], [] => true
  | a :: r1, b :: r2 => cell_eqb a b && cells_eqb r1 r2
  | _, _ => false
  end.
Lemma cells_eqb_eq l1 : forall l2, cells_eqb l1 l2 = true -> l1 = l2.
Proof. induction l1 as [|a r IH]; intros [|b r2]; cbn; try discriminate; try reflexivity.
  rewrite andb_true_iff. intros [H1 H2]. apply cell_eqb_eq in H1. apply IH in H2. congruence. Qed.

Definition table_ok (s : SymbolSize) : bool :=
  match model_table (zh s) (zw s) (has_padding_modules s), ecc200 (zh s) (zw s) with
  | Some t1, Some t2 => cells_eqb t1 t2
  | _, _ => false
  end.

Lemma table_sweep : forallb table_ok all_variants = true.
Proof. vm_compute. reflexivity. Qed.

(* ---- bijection ---- *)
Fixpoint nodup_go (seen : PM.t unit) (l : list Z) : bool :=
  match l with
  | [] => true
  | x :: r => match PM.find (key x) seen with
              | Some _ => false
              | None => nodup_go (PM.add (key x) tt seen) r
              end
  end.

Lemma key_inj a b : 0 <= a -> 0 <= b -> key a = key b -> a = b.
Proof. unfold key. intros Ha Hb H. apply (f_equal Z.pos) in H. rewrite !Z2Pos.id in H by lia. lia. Qed.

Lemma nodup_go_sound l : forall seen, Forall (fun x => 0 <= x) l ->
  nodup_go seen l = true ->
  NoDup l /\ forall x, In x l -> PM.find (key x) seen = None.
Proof.
  induction l as [|x r IH]; intros seen Hp H; cbn [nodup_go] in H.
  - split; [constructor|intros x []].
  - inversion Hp as [|? ? Hx Hr]; subst.
    destruct (PM.find (key x) seen) eqn:E; [discriminate|].
    destruct (IH _ Hr H) as [ND Hn]. split.
    + constructor; [|exact ND]. intros Hin. specialize (Hn x Hin). rewrite PM.gss in Hn. discriminate.
    + intros y [<-|Hy]; [exact E|]. specialize (Hn y Hy).
      destruct (Pos.eq_dec (key y) (key x)) as [Ek|Nk].
      * rewrite Ek, PM.gss in Hn. discriminate.
      * rewrite PM.gso in Hn by exact Nk. exact Hn.
Qed.

Definition in_range (n : Z) (l : list Z) : bool := forallb (fun x => (0 <=? x) && (x <? n)) l.

(* the four modules no codeword touches, for the sizes that have them *)
Definition unused_of (h w : Z) (visits : list (list Z)) : list Z :=
  let m := tab_add 1%N visits (PM.empty _) in
  filter (fun idx => match PM.find (key idx) m with None => true | Some _ => false end)
         (map Z.of_nat (seq 0 (Z.to_nat (h * w)))).

Fixpoint zlist_eqb (l1 l2 : list Z) : bool :=
  match l1, l2 with [], [] => true | a :: r1, b :: r2 => (a =? b) && zlist_eqb r1 r2 | _, _ => false end.

Definition bij_ok (s : SymbolSize) : bool :=
  match run (zh s) (zw s) with
  | Ok visits =>
    let flat := concat visits in
    (N.of_nat (length visits) =? ntotal s)%N &&
    forallb (fun v => Nat.eqb (length v) 8) visits &&
    in_range (zh s * zw s) flat && nodup_go (PM.empty _) flat &&
    zlist_eqb (unused_of (zh s) (zw s) visits)
      (if has_padding_modules s
       then [(zh s - 2) * zw s + (zw s - 2); (zh s - 2) * zw s + (zw s - 1);
             (zh s - 1) * zw s + (zw s - 2); (zh s - 1) * zw s + (zw s - 1)]
       else [])
  | _ => false
  end.

Lemma bij_sweep : forallb bij_ok all_variants = true.
Proof. vm_compute. reflexivity. Qed.

Lemma in_range_spec n l : in_range n l = true -> Forall (fun x => 0 <= x < n) l.
Proof. unfold in_range. rewrite forallb_forall. intros H. apply Forall_forall. intros x Hx.
  specialize (H x Hx). apply andb_true_iff in H. destruct H as [H1 H2]. apply Z.leb_le in H1. apply Z.ltb_lt in H2. lia. Qed.

Lemma zlist_eqb_eq l1 : forall l2, zlist_eqb l1 l2 = true -> l1 = l2.
Proof. induction l1 as [|a r IH]; intros [|b r2]; cbn; try discriminate; try reflexivity.
  rewrite andb_true_iff, Z.eqb_eq. intros [-> H]. f_equal. now apply IH. Qed.

Theorem placement_table s :
  exists t, model_table (zh s) (zw s) (has_padding_modules s) = Some t /\ ecc200 (zh s) (zw s) = Some t.
Proof.
  pose proof (sweep _ table_sweep s) as H. unfold table_ok in H.
  destruct (model_table _ _ _) as [t1|]; [|discriminate]. destruct (ecc200 _ _) as [t2|]; [|discriminate].
  apply cells_eqb_eq in H. subst. eauto.
Qed.

Theorem placement_bijection s :
  exists visits, run (zh s) (zw s) = Ok visits /\
    N.of_nat (length visits) = ntotal s /\
    Forall (fun v => length v = 8%nat) visits /\
    Forall (fun x => 0 <= x < zh s * zw s) (concat visits) /\
    NoDup (concat visits) /\
    unused_of (zh s) (zw s) visits =
      (if has_padding_modules s
       then [(zh s - 2) * zw s + (zw s - 2); (zh s - 2) * zw s + (zw s - 1);
             (zh s - 1) * zw s + (zw s - 2); (zh s - 1) * zw s + (zw s - 1)]
       else []).
Proof.
  pose proof (sweep _ bij_sweep s) as H. unfold bij_ok in H.
  destruct (run (zh s) (zw s)) as [visits| |]; try discriminate.
  rewrite !andb_true_iff in H. destruct H as [[[[H1 H2] H3] H4] H5].
  exists visits. split; [reflexivity|]. apply N.eqb_eq in H1. apply in_range_spec in H3.
  split; [exact H1|]. split.
  { rewrite forallb_forall in H2. apply Forall_forall. intros v Hv. apply Nat.eqb_eq, H2, Hv. }
  split; [exact H3|]. split.
  { apply (nodup_go_sound _ (PM.empty _)); [|exact H4]. eapply Forall_impl; [|exact H3]. cbv beta. lia. }
  apply zlist_eqb_eq, H5.
Qed.
