(* Proofs/NoMiscorrection.v -- property C03, soundness within the guaranteed radius: if the received word differs from a
   codeword in at most floor(k/2) positions of every block and the decoder reports success, the word it leaves behind is
   exactly that codeword.  Ingredients: the decoder alters at most floor(k/2) positions per block (locator length bound,
   Proofs/LDBound.v; one position per located error), success implies codeword (C09), and at most one codeword lies
   within floor(k/2) of any word (BCH bound, Proofs/MinDistance.v). *)
From Coq Require Import Arith NArith List Bool Lia.
From DM Require Import Generated.Symbols Spec.GF256 Spec.Poly Spec.RSCode Model.Outcome Model.GF Model.RSEnc Model.RSDec
  Proofs.SymbolListProofs Proofs.RSEncProofs Proofs.RSDecProofs Proofs.MinDistance Proofs.LDBound.
Import ListNotations.
Local Open Scope nat_scope.

(* Hamming distance of two codeword lists *)
Fixpoint ham (l1 l2 : list N) : nat :=
  match l1, l2 with
  | a :: r1, b :: r2 => (if N.eqb a b then 0 else 1) + ham r1 r2
  | _, _ => 0
  end.

Lemma ham_refl l : ham l l = 0.
Proof. induction l as [|a r IH]; cbn [ham]; [reflexivity|]. rewrite N.eqb_refl, IH. reflexivity. Qed.

Lemma ham_set_ok l : forall i v l', set_ok l i v = Ok l' -> ham l l' <= 1.
Proof.
  induction l as [|x r IH]; intros i v l' H; cbn [set_ok] in H; [destruct i; discriminate|].
  destruct i as [|i'].
  - inversion H; subst. cbn [ham]. rewrite ham_refl. destruct (N.eqb x v); lia.
  - destruct (set_ok r i' v) as [r'| |] eqn:E; cbn [bind] in H; try discriminate. inversion H; subst.
    cbn [ham]. rewrite N.eqb_refl. specialize (IH _ _ _ E). lia.
Qed.

Lemma ham_triangle a : forall b c, length a = length b -> length b = length c -> ham a c <= ham a b + ham b c.
Proof.
  induction a as [|x r IH]; intros [|y r2] [|z r3] L1 L2; cbn in L1, L2; try lia; cbn [ham]; try lia.
  specialize (IH r2 r3 ltac:(lia) ltac:(lia)).
  destruct (N.eqb_spec x z), (N.eqb_spec x y), (N.eqb_spec y z); try lia; congruence.
Qed.

Lemma ham_sym a : forall b, ham a b = ham b a.
Proof. induction a as [|x r IH]; intros [|y r2]; cbn [ham]; try reflexivity. rewrite IH, N.eqb_sym. reflexivity. Qed.

Lemma ham_app a : forall a' b b', length a = length a' -> ham (a ++ b) (a' ++ b') = ham a a' + ham b b'.
Proof. induction a as [|x r IH]; intros [|y r2] b b' L; cbn in L; try lia; cbn [app ham]; [reflexivity|]. rewrite IH by lia. lia. Qed.

Lemma ham_every B : forall c l l', length l = length l' -> ham (every B c l) (every B c l') <= ham l l'.
Proof.
  intros c l; revert c. induction l as [|x r IH]; intros c [|y r2] L; cbn in L; try lia; cbn [every ham]; try lia.
  destruct c as [|c']; cbn [ham]; [specialize (IH (B - 1) r2 ltac:(lia)); lia|specialize (IH c' r2 ltac:(lia)); destruct (N.eqb x y); lia].
Qed.

Lemma every_length_eq {A} B : forall c (l l' : list A), length l = length l' -> length (every B c l) = length (every B c l').
Proof.
  intros c l; revert c. induction l as [|x r IH]; intros c [|y r2] L; cbn in L; try lia; cbn [every]; try reflexivity.
  destruct c; cbn [length]; [f_equal|]; apply IH; lia.
Qed.

(* step 4 alters at most one position per located error *)
Lemma apply_corr_ham stride n n_data : forall locs errs data error d' e',
  apply_corr data error stride n n_data locs errs = Ok (d', e') ->
  length d' = length data /\ length e' = length error /\ ham data d' + ham error e' <= length locs.
Proof.
  induction locs as [|loc lr IH]; intros errs data error d' e' H.
  - cbn [apply_corr] in H. inversion H; subst. rewrite !ham_refl. cbn. lia.
  - destruct errs as [|err er]; [cbn [apply_corr] in H; inversion H; subst; rewrite !ham_refl; cbn; lia|].
    cbn [apply_corr] in H. destruct (GF.glog loc) as [iN|]; [|discriminate].
    destruct (n <=? N.to_nat iN); [discriminate|].
    destruct (n - N.to_nat iN - 1 <? n_data).
    + destruct (nth_ok data _) as [cur| |]; cbn [bind] in H; try discriminate.
      destruct (set_ok data _ _) as [data'| |] eqn:SO; cbn [bind] in H; try discriminate.
      destruct (IH er data' error d' e' H) as (L1 & L2 & HB).
      pose proof (ham_set_ok _ _ _ _ SO) as H1. pose proof (set_ok_length _ _ _ _ SO) as LS.
      pose proof (ham_triangle data data' d' ltac:(lia) ltac:(lia)). cbn [length]. lia.
    + destruct (nth_ok error _) as [cur| |]; cbn [bind] in H; try discriminate.
      destruct (set_ok error _ _) as [error'| |] eqn:SO; cbn [bind] in H; try discriminate.
      destruct (IH er data error' d' e' H) as (L1 & L2 & HB).
      pose proof (ham_set_ok _ _ _ _ SO) as H1. pose proof (set_ok_length _ _ _ _ SO) as LS.
      pose proof (ham_triangle error error' e' ltac:(lia) ltac:(lia)). cbn [length]. lia.
Qed.

Lemma pee_go_length k : forall gamma pw, length (pee_go k gamma pw) = k.
Proof. induction k as [|k IH]; intros gamma pw; cbn [pee_go length]; [reflexivity|]. now rewrite IH. Qed.

(* decode_gen alters at most floor(k/2) positions *)
Theorem decode_gen_ham data error stride k d' e' :
  decode_gen data error stride k = Ok (d', e') ->
  length d' = length data /\ length e' = length error /\ ham data d' + ham error e' <= k / 2.
Proof.
  unfold decode_gen. intros H.
  destruct (Nat.eqb_spec stride 0) as [E|Hs]; [discriminate|].
  destruct (negb (1 <=? k)); [discriminate|]. destruct (negb (k <? _)); [discriminate|].
  destruct (primitive_element_evaluation (every stride 0 data ++ every stride 0 error) k) as [syndromes hnz] eqn:PE.
  assert (length syndromes = k) as LS.
  { unfold primitive_element_evaluation in PE. inversion PE. apply pee_go_length. }
  destruct hnz; cbn [negb] in H; [|inversion H; subst; rewrite !ham_refl; cbn; lia].
  destruct (find_inv_error_locations_levinson_durbin syndromes) as [lambda| |] eqn:LD; cbn [bind] in H; try discriminate.
  pose proof (ld_locator_length _ _ LD) as LL. rewrite LS in LL.
  destruct (chien_search lambda) as [inv_locs| |]; cbn [bind] in H; try discriminate.
  destruct (Nat.eqb_spec (length inv_locs) (length lambda - 1)) as [EL|]; cbn [negb] in H; [|discriminate].
  destruct (nth_ok inv_locs 0) as [first| |]; cbn [bind] in H; try discriminate.
  destruct (N.eqb first 0); [discriminate|].
  destruct (2 * (k / 2) <? length lambda - 1 + 1); [discriminate|].
  match type of H with (let* tj := ?X in _) = _ => destruct X as [tj| |] end; cbn [bind] in H; try discriminate.
  destruct (existsb _ tj); [discriminate|].
  destruct (find_error_values_bp inv_locs syndromes) as [[locs errs]| |] eqn:FE; cbn [bind] in H; try discriminate.
  destruct (apply_corr data error stride _ _ locs errs) as [[d1 e1]| |] eqn:AC; cbn [bind] in H; try discriminate.
  destruct (primitive_element_evaluation (every stride 0 d1 ++ every stride 0 e1) k) as [s2 nz].
  destruct nz; [discriminate|]. inversion H; subst.
  destruct (find_error_values_bytes _ _ _ _ FE) as [LX _].
  destruct (apply_corr_ham _ _ _ _ _ _ _ _ _ AC) as (L1 & L2 & HB). lia.
Qed.

(* one step of decode_blocks, isolated *)
Lemma decode_blocks_one data error stride k b0 d1 e1 :
  (b0 <= length data) -> (b0 <= length error) ->
  decode_gen (skipn b0 data) (skipn b0 error) stride k = Ok (d1, e1) ->
  decode_blocks data error stride k (seq b0 1) = Ok (firstn b0 data ++ d1, firstn b0 error ++ e1).
Proof.
  intros C1 C2 DG. cbn [seq decode_blocks].
  replace (length data <? b0) with false by (symmetry; apply Nat.ltb_ge; lia).
  replace (length error <? b0) with false by (symmetry; apply Nat.ltb_ge; lia). cbn [orb]. rewrite DG. reflexivity.
Qed.

(* every block of the result is within floor(k/2) of the corresponding block of the input *)
Lemma decode_blocks_ham stride k : forall m b0 data error d e,
  decode_blocks data error stride k (seq b0 m) = Ok (d, e) ->
  Forall byte data -> Forall byte error -> (b0 + m <= stride) ->
  forall b, b < stride ->
    ham (every stride b data) (every stride b d) + ham (every stride b error) (every stride b e) <= k / 2.
Proof.
  induction m as [|m IH]; intros b0 data error d e H Hd He Hm b Hb; cbn [seq decode_blocks] in H.
  - inversion H; subst. rewrite !ham_refl. lia.
  - destruct ((length data <? b0) || (length error <? b0)) eqn:Chk; [discriminate|].
    apply orb_false_iff in Chk. destruct Chk as [C1 C2]. apply Nat.ltb_ge in C1, C2.
    destruct (decode_gen (skipn b0 data) (skipn b0 error) stride k) as [[d1 e1]| |] eqn:DG; cbn [bind] in H; try discriminate.
    set (D1 := firstn b0 data ++ d1) in *. set (E1 := firstn b0 error ++ e1) in *.
    pose proof (decode_blocks_one data error stride k b0 d1 e1 C1 C2 DG) as ONE. fold D1 E1 in ONE.
    destruct (decode_blocks_spec stride k 1 b0 data error D1 E1 ONE Hd He ltac:(lia)) as (LD & LE & BD & BE & _ & U1).
    destruct (decode_blocks_spec stride k m (Datatypes.S b0) D1 E1 d e H BD BE ltac:(lia)) as (LD2 & LE2 & _ & _ & _ & U2).
    destruct (decode_gen_ham _ _ _ _ _ _ DG) as (L1 & L2 & HB).
    assert (length (firstn b0 data) = b0) as LF1 by (rewrite firstn_length; lia).
    assert (length (firstn b0 error) = b0) as LF2 by (rewrite firstn_length; lia).
    destruct (Nat.eq_dec b b0) as [->|Ne].
    + (* the block just decoded: untouched afterwards *)
      destruct (U2 b0 Hb ltac:(lia)) as [Q1 Q2]. rewrite Q1, Q2.
      rewrite <- (every_skipn stride data b0), <- (every_skipn stride error b0), <- (every_skipn stride D1 b0), <- (every_skipn stride E1 b0).
      unfold D1, E1. rewrite (skipn_app_exact _ _ _ LF1), (skipn_app_exact _ _ _ LF2).
      pose proof (ham_every stride 0 (skipn b0 data) d1 ltac:(lia)). pose proof (ham_every stride 0 (skipn b0 error) e1 ltac:(lia)). lia.
    + (* another block: untouched by this step *)
      destruct (U1 b Hb ltac:(lia)) as [Q1 Q2]. rewrite <- Q1, <- Q2. apply (IH (Datatypes.S b0) D1 E1 d e H BD BE ltac:(lia) b Hb).
Qed.

(* Hamming distance on bytes = distance in the field *)
Lemma dist_ham a : forall b, Forall byte a -> Forall byte b -> length a = length b ->
  distance (map toF a) (map toF b) = ham a b.
Proof.
  unfold distance, weight. induction a as [|x r IH]; intros [|y r2] Ha Hb L; cbn in L; try lia; [reflexivity|].
  inversion Ha as [|? ? Hx Ha']; subst. inversion Hb as [|? ? Hy Hb']; subst.
  cbn [map zipF filter ham]. rewrite <- (IH r2 Ha' Hb' ltac:(lia)).
  assert (Feqb (Fadd (toF x) (toF y)) F0 = N.eqb x y) as ->.
  { destruct (N.eqb_spec x y) as [->|NE].
    - apply Feqb_eq. apply F_eq. rewrite Fval_add. unfold gadd. rewrite N.lxor_nilpotent. reflexivity.
    - destruct (Feqb (Fadd (toF x) (toF y)) F0) eqn:E; [|reflexivity]. exfalso. apply Feqb_eq in E.
      apply (f_equal Fval) in E. rewrite Fval_add, !Fval_toF in E by assumption. unfold gadd in E. cbn in E.
      apply N.lxor_eq in E. contradiction. }
  destruct (N.eqb x y); cbn [negb length]; lia.
Qed.

Lemma app_inv_len {A} (a : list A) : forall a' b b', length a = length a' -> a ++ b = a' ++ b' -> a = a' /\ b = b'.
Proof.
  induction a as [|x r IH]; intros [|y r2] b b' L H; cbn in L; try lia; cbn [app] in H; [split; [reflexivity|exact H]|].
  inversion H; subst. destruct (IH r2 b b' ltac:(lia) H2) as [-> ->]. split; reflexivity.
Qed.

(* every block of every size has at most 255 codewords (checked on a vector of the right length; the length of a block
   depends only on the length of the vector) *)
Definition block_len_ok (s : SymbolSize) : bool :=
  let B := N.to_nat (num_ecc_blocks s) in
  forallb (fun b => length (every B b (repeat 0%N (N.to_nat (num_data_codewords s)))) + N.to_nat (num_ecc_per_block s) <=? 255) (seq 0 B).
Lemma block_len_sweep : forallb block_len_ok all_variants = true.
Proof. vm_compute. reflexivity. Qed.

(* the theorem: success within the radius returns the codeword *)
Theorem no_miscorrection s cD cE rcv c' :
  let B := N.to_nat (num_ecc_blocks s) in let k := N.to_nat (num_ecc_per_block s) in let nd := N.to_nat (num_data_codewords s) in
  length cD = nd -> length cE = k * B -> Forall byte cD -> Forall byte cE -> is_codeword B k cD cE ->
  length rcv = nd + k * B -> Forall byte rcv ->
  (forall b, b < B -> ham (every B b cD) (every B b (firstn nd rcv)) + ham (every B b cE) (every B b (skipn nd rcv)) <= k / 2) ->
  RSDec.decode rcv s = Ok c' -> c' = cD ++ cE.
Proof.
  intros B k nd LcD LcE BcD BcE IC Lr Br HR H.
  destruct (size_facts s) as [HB Hk]. fold B k in HB, Hk.
  pose proof H as H0. unfold RSDec.decode in H0. fold nd B k in H0.
  destruct (length rcv <? nd) eqn:E0; [discriminate|]. apply Nat.ltb_ge in E0.
  destruct (decode_blocks (firstn nd rcv) (skipn nd rcv) B k (seq 0 B)) as [[d e]| |] eqn:DB; cbn [bind] in H0; try discriminate.
  inversion H0; subst c'. clear H0.
  assert (Forall byte (firstn nd rcv)) as Hfd by (apply Forall_forall; intros x Hx; rewrite Forall_forall in Br; apply Br; eapply In_firstn; exact Hx).
  assert (Forall byte (skipn nd rcv)) as Hfe by (apply Forall_forall; intros x Hx; rewrite Forall_forall in Br; apply Br; eapply In_skipn; exact Hx).
  destruct (decode_blocks_spec B k B 0 _ _ _ _ DB Hfd Hfe ltac:(lia)) as (L1 & L2 & B1 & B2 & PZ & _).
  assert (length d = nd) as Ld by (rewrite L1, firstn_length; lia).
  assert (length e = k * B) as Le by (rewrite L2, skipn_length; lia).
  pose proof (decode_blocks_ham B k B 0 _ _ _ _ DB Hfd Hfe ltac:(lia)) as HH.
  (* block by block: both (d, e) and (cD, cE) are codewords within k/2 of the received block *)
  assert (forall b, b < B -> every B b d = every B b cD /\ every B b e = every B b cE) as EQ.
  { intros b Hb.
    set (rb := every B b (firstn nd rcv) ++ every B b (skipn nd rcv)).
    assert (length (every B b d) = length (every B b cD)) as LE1 by (apply every_length_eq; lia).
    assert (length (every B b e) = length (every B b cE)) as LE2 by (apply every_length_eq; lia).
    assert (length (every B b d) = length (every B b (firstn nd rcv))) as LE3 by (apply every_length_eq; lia).
    assert (length (every B b e) = length (every B b (skipn nd rcv))) as LE4 by (apply every_length_eq; lia).
    assert (map toF (every B b d ++ every B b e) = map toF (every B b cD ++ every B b cE)) as EF.
    { apply (unique_within_radius k (k / 2) (map toF rb)).
      - pose proof (Nat.mul_div_le k 2 ltac:(lia)). lia.
      - unfold rb. rewrite !map_length, !app_length. lia.
      - unfold rb. rewrite !map_length, !app_length. lia.
      - (* block length <= 255 *)
        unfold rb. rewrite map_length, app_length.
        pose proof (sweep _ block_len_sweep s) as SW. unfold block_len_ok in SW. fold B k nd in SW.
        rewrite forallb_forall in SW. specialize (SW b ltac:(apply in_seq; lia)). apply Nat.leb_le in SW.
        assert (length (every B b (firstn nd rcv)) = length (every B b (repeat 0%N nd))) as Q1
          by (apply every_length_eq; rewrite firstn_length, repeat_length; lia).
        assert (length (every B b (skipn nd rcv)) = k) as Q2.
        { rewrite <- LE4, every_block_of by exact Hb. unfold block_of. replace 0 with (0 * B) by lia. apply block_from_length; [exact Hb|exact Le]. }
        lia.
      - apply no_nonzero_syndrome; [apply Forall_app; split; now apply Forall_every|]. apply PZ. lia.
      - rewrite !every_block_of by exact Hb. apply IC. exact Hb.
      - rewrite dist_ham; [|apply Forall_app; split; now apply Forall_every|apply Forall_app; split; now apply Forall_every|unfold rb; rewrite !app_length; lia].
        unfold rb. rewrite ham_app by lia. specialize (HH b Hb). rewrite (ham_sym (every B b d)), (ham_sym (every B b e)). exact HH.
      - rewrite dist_ham; [|apply Forall_app; split; now apply Forall_every|apply Forall_app; split; now apply Forall_every|unfold rb; rewrite !app_length; lia].
        unfold rb. rewrite ham_app by lia. exact (HR b Hb). }
    apply map_toF_inj in EF; [| apply Forall_app; split; now apply Forall_every | apply Forall_app; split; now apply Forall_every].
    apply app_inv_len in EF; [exact EF|exact LE1]. }
  f_equal.
  - apply (blocks_determine B d cD 0); [lia|lia|]. intros b Hb. fold (block_of B b d) (block_of B b cD).
    rewrite <- !every_block_of by exact Hb. apply EQ. exact Hb.
  - apply (blocks_determine B e cE 0); [lia|lia|]. intros b Hb. fold (block_of B b e) (block_of B b cE).
    rewrite <- !every_block_of by exact Hb. apply EQ. exact Hb.
Qed.
