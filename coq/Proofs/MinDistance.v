(* Proofs/MinDistance.v -- property C03, the mathematical guarantee behind "correction capacity": in every block of the
   code of Spec/RSCode.v (length n <= 255, k check symbols) a word with vanishing syndromes and at most k non-zero
   positions is zero (the BCH bound, by eliminating one locator at a time from the transposed Vandermonde system);
   hence two codeword blocks that differ in at most k positions are equal, and within distance floor(k/2) of any word
   there is at most one codeword. *)
From Coq Require Import Arith NArith List Bool Lia Ring Field.
From DM Require Import Spec.GF256 Spec.Poly Spec.RSCode Proofs.RSDecProofs.
Import ListNotations.

Definition Feqb (x y : F) : bool := N.eqb (Fval x) (Fval y).
Lemma Feqb_eq x y : Feqb x y = true <-> x = y.
Proof. unfold Feqb. rewrite N.eqb_eq. split; [apply F_eq|intros ->; reflexivity]. Qed.

(* power sums of a weighted point set: S j L = sum of y * X^j over (y, X) in L *)
Definition term (j : nat) (p : F * F) : F := Fmul (fst p) (Fpow (snd p) j).
Definition S (j : nat) (L : list (F * F)) : F := Fsum (map (term j) L).

Lemma Fsum_cons a l : Fsum (a :: l) = Fadd a (Fsum l).
Proof. unfold Fsum. cbn [fold_left]. rewrite Fsum_fold. unfold Fsum. ring. Qed.
Lemma S_cons j p L : S j (p :: L) = Fadd (term j p) (S j L).
Proof. unfold S. cbn [map]. apply Fsum_cons. Qed.

(* eliminate the locator X0: the remaining points, weighted by (X - X0) *)
Definition elim (X0 : F) (L : list (F * F)) : list (F * F) := map (fun p => (Fmul (fst p) (Fsub (snd p) X0), snd p)) L.

Lemma S_elim X0 L j : S j (elim X0 L) = Fsub (S (Datatypes.S j) L) (Fmul X0 (S j L)).
Proof.
  induction L as [|[y X] R IH]; [unfold S, Fsum; cbn; ring|].
  cbn [elim map]. rewrite !S_cons. fold (elim X0 R). rewrite IH. unfold term. cbn [fst snd Fpow]. ring.
Qed.

(* transposed Vandermonde: distinct locators, as many vanishing power sums as points => all weights vanish *)
Lemma vandermonde_T_n n : forall L : list (F * F), length L = n -> NoDup (map snd L) ->
  (forall j, (j < length L)%nat -> S j L = F0) -> Forall (fun p => fst p = F0) L.
Proof.
  induction n as [|n IH]; intros L Ln ND HS; [destruct L; [constructor|discriminate]|].
  destruct L as [|[y0 X0] R]; [discriminate|]. cbn [length] in Ln.
  cbn [map snd] in ND. inversion ND as [|? ? Hnotin ND']; subst.
  assert (Forall (fun p => fst p = F0) (elim X0 R)) as HE.
  { apply IH.
    - unfold elim. rewrite map_length. lia.
    - unfold elim. rewrite map_map. cbn [snd]. exact ND'.
    - unfold elim at 1. rewrite map_length. intros j Hj.
      assert (S j (elim X0 ((y0, X0) :: R)) = F0) as E.
      { rewrite S_elim. rewrite (HS (Datatypes.S j)) by (cbn [length]; lia). rewrite (HS j) by (cbn [length]; lia). ring. }
      cbn [elim map] in E. rewrite S_cons in E. fold (elim X0 R) in E. unfold term in E. cbn [fst snd] in E.
      rewrite <- E. ring. }
  assert (Forall (fun p => fst p = F0) R) as HR.
  { apply Forall_forall. intros [y X] Hin. cbn [fst].
    assert (In (Fmul y (Fsub X X0), X) (elim X0 R)) as Hin' by (unfold elim; apply in_map_iff; exists (y, X); split; [reflexivity|exact Hin]).
    rewrite Forall_forall in HE. specialize (HE _ Hin'). cbn [fst] in HE.
    apply Fmul_integral in HE. destruct HE as [Z|Z]; [exact Z|].
    exfalso. apply Hnotin. apply in_map_iff. exists (y, X). split; [|exact Hin]. cbn [snd].
    transitivity (Fadd (Fsub X X0) X0); [ring|rewrite Z; ring]. }
  constructor; [|exact HR]. cbn [fst].
  pose proof (HS 0%nat ltac:(cbn [length]; lia)) as S0. rewrite S_cons in S0. unfold term in S0. cbn [fst snd Fpow] in S0.
  assert (S 0 R = F0) as SR.
  { clear - HR. induction R as [|[y X] R IH]; [reflexivity|]. inversion HR as [|? ? H0 HR']; subst. cbn [fst] in H0. subst y.
    rewrite S_cons, IH by exact HR'. unfold term. cbn [fst snd Fpow]. ring. }
  rewrite SR in S0. rewrite <- S0. ring.
Qed.
Theorem vandermonde_T (L : list (F * F)) : NoDup (map snd L) ->
  (forall j, (j < length L)%nat -> S j L = F0) -> Forall (fun p => fst p = F0) L.
Proof. apply (vandermonde_T_n (length L) L eq_refl). Qed.

(* a block as a weighted point set: position i (0-based, highest degree first) has locator alpha^(n-1-i) *)
Fixpoint points (w : list F) : list (F * F) :=
  match w with [] => [] | c :: r => (c, Fpow Falpha (length r)) :: points r end.

Lemma peval_points w x_exp : peval w (Fpow Falpha x_exp) = S x_exp (points w).
Proof.
  induction w as [|c r IH]; [reflexivity|]. cbn [points]. rewrite peval_cons, S_cons, IH. unfold term. cbn [fst snd].
  rewrite !Fpow_mul. rewrite (Nat.mul_comm x_exp (length r)). reflexivity.
Qed.

Lemma points_locators_NoDup w : (length w <= 255)%nat -> NoDup (map snd (points w)).
Proof.
  induction w as [|c r IH]; intros L; [constructor|]. cbn [points map snd length] in *. constructor; [|apply IH; lia].
  intros Hin. apply in_map_iff in Hin. destruct Hin as ([y X] & E & Hp). cbn [snd] in E.
  assert (exists m, (m < length r)%nat /\ X = Fpow Falpha m) as (m & Hm & ->).
  { clear - Hp. induction r as [|d r' IHr]; [destruct Hp|]. cbn [points] in Hp. destruct Hp as [Hp|Hp].
    - inversion Hp; subst. exists (length r'). split; [cbn; lia|reflexivity].
    - destruct (IHr Hp) as (m & Hm & ->). exists m. split; [cbn; lia|reflexivity]. }
  apply Falpha_pow_inj in E; lia.
Qed.

Definition weight (w : list F) : nat := length (filter (fun c => negb (Feqb c F0)) w).

(* dropping the zero-weight points changes no power sum *)
Lemma S_filter j L : S j (filter (fun p => negb (Feqb (fst p) F0)) L) = S j L.
Proof.
  induction L as [|[y X] R IH]; [reflexivity|]. cbn [filter fst]. destruct (Feqb y F0) eqn:E; cbn [negb].
  - apply Feqb_eq in E. subst y. rewrite S_cons, IH. unfold term. cbn [fst]. ring.
  - rewrite !S_cons, IH. reflexivity.
Qed.

Lemma filter_points_length w : length (filter (fun p => negb (Feqb (fst p) F0)) (points w)) = weight w.
Proof. unfold weight. induction w as [|c r IH]; [reflexivity|]. cbn [points filter fst]. destruct (negb (Feqb c F0)); cbn [length]; rewrite IH; reflexivity. Qed.

Lemma NoDup_filter_map {A B} (f : A -> B) (g : A -> bool) l : NoDup (map f l) -> NoDup (map f (filter g l)).
Proof.
  induction l as [|a r IH]; intros ND; [constructor|]. cbn [map] in ND. inversion ND as [|? ? Hn ND']; subst.
  cbn [filter]. destruct (g a); [|apply IH; exact ND']. cbn [map]. constructor; [|apply IH; exact ND'].
  intros Hin. apply Hn. apply in_map_iff in Hin. destruct Hin as (x & E & Hx). apply in_map_iff. exists x. split; [exact E|].
  apply filter_In in Hx. apply Hx.
Qed.

(* the BCH bound *)
Theorem bch_bound k w : (length w <= 255)%nat -> block_ok k w -> (weight w <= k)%nat -> Forall (fun c => c = F0) w.
Proof.
  intros Ln OK Wt.
  set (L := filter (fun p => negb (Feqb (fst p) F0)) (points w)).
  assert (Forall (fun p => fst p = F0) (map (fun p => (Fmul (fst p) (snd p), snd p)) L)) as HZ.
  { apply vandermonde_T.
    - rewrite map_map. cbn [snd]. unfold L. apply NoDup_filter_map. apply points_locators_NoDup. exact Ln.
    - rewrite map_length. intros j Hj. unfold L in Hj. rewrite filter_points_length in Hj.
      assert (S j (map (fun p => (Fmul (fst p) (snd p), snd p)) L) = S (Datatypes.S j) L) as ->.
      { clear. induction L as [|[y X] R IH]; [reflexivity|]. cbn [map]. rewrite !S_cons, IH. unfold term. cbn [fst snd Fpow]. ring. }
      unfold L. rewrite S_filter, <- peval_points. apply OK. unfold roots. apply in_map_iff. exists (Datatypes.S j). split; [reflexivity|].
      apply in_seq. lia. }
  (* every kept point has a non-zero weight and a non-zero locator, so none is kept *)
  assert (L = []) as LE.
  { destruct L as [|[y X] R] eqn:EL; [reflexivity|]. exfalso.
    assert (In (y, X) L) as Hin by (rewrite EL; now left). unfold L in Hin. apply filter_In in Hin. destruct Hin as [Hp Hy]. cbn [fst] in Hy.
    cbn [map] in HZ. inversion HZ as [|? ? H0 _]; subst. cbn [fst snd] in H0.
    apply Fmul_integral in H0. destruct H0 as [Z|Z].
    - subst y. rewrite (proj2 (Feqb_eq F0 F0) eq_refl) in Hy. discriminate.
    - assert (exists m, X = Fpow Falpha m) as (m & ->).
      { clear - Hp. induction w as [|d r' IHr]; [destruct Hp|]. cbn [points] in Hp. destruct Hp as [Hp|Hp].
        - inversion Hp; subst. eexists; reflexivity.
        - exact (IHr Hp). }
      exact (Fpow_nonzero Falpha m Falpha_nonzero Z). }
  apply Forall_forall. intros c Hc. destruct (Feqb c F0) eqn:E; [now apply Feqb_eq|]. exfalso.
  assert (weight w = 0)%nat as W0 by (rewrite <- filter_points_length; fold L; rewrite LE; reflexivity).
  unfold weight in W0. apply length_zero_iff_nil in W0.
  assert (In c (filter (fun c => negb (Feqb c F0)) w)) as Hin by (apply filter_In; split; [exact Hc|now rewrite E]).
  rewrite W0 in Hin. destruct Hin.
Qed.

(* minimum distance k + 1 *)
Definition distance (w1 w2 : list F) : nat := weight (zipF Fadd w1 w2).

Theorem min_distance k w1 w2 : length w1 = length w2 -> (length w1 <= 255)%nat ->
  block_ok k w1 -> block_ok k w2 -> (distance w1 w2 <= k)%nat -> w1 = w2.
Proof.
  intros L Ln B1 B2 D. apply zipF_add_zero; [exact L|].
  apply (bch_bound k); [rewrite zipF_length; lia| |exact D].
  intros x Hx. rewrite peval_zip_add by exact L. rewrite (B1 x Hx), (B2 x Hx). ring.
Qed.

(* weight is subadditive, so distance satisfies the triangle inequality (characteristic 2: w1 + w3 = (w1 + w2) + (w2 + w3)) *)
Lemma weight_add l1 : forall l2, length l1 = length l2 -> (weight (zipF Fadd l1 l2) <= weight l1 + weight l2)%nat.
Proof.
  unfold weight. induction l1 as [|a r IH]; intros [|b r2] L; cbn in L; try lia; [cbn; lia|].
  cbn [zipF filter]. specialize (IH r2 ltac:(lia)).
  destruct (Feqb a F0) eqn:Ea; destruct (Feqb b F0) eqn:Eb; cbn [negb length].
  - apply Feqb_eq in Ea, Eb. subst. replace (Fadd F0 F0) with F0 by ring. rewrite (proj2 (Feqb_eq F0 F0) eq_refl). cbn [negb]. lia.
  - destruct (negb (Feqb (Fadd a b) F0)); cbn [length]; lia.
  - destruct (negb (Feqb (Fadd a b) F0)); cbn [length]; lia.
  - destruct (negb (Feqb (Fadd a b) F0)); cbn [length]; lia.
Qed.

Lemma zipF_add_assoc3 l1 : forall l2 l3, length l1 = length l2 -> length l2 = length l3 ->
  zipF Fadd l1 l3 = zipF Fadd (zipF Fadd l1 l2) (zipF Fadd l2 l3).
Proof.
  induction l1 as [|a r IH]; intros [|b r2] [|c r3] L1 L2; cbn in L1, L2; try lia; [reflexivity|].
  cbn [zipF]. f_equal; [ring|apply IH; lia].
Qed.

(* unique decoding radius: within distance t of a word there is at most one codeword, whenever 2t <= k *)
Theorem unique_within_radius k t r w1 w2 : (2 * t <= k)%nat ->
  length w1 = length r -> length w2 = length r -> (length r <= 255)%nat ->
  block_ok k w1 -> block_ok k w2 -> (distance w1 r <= t)%nat -> (distance w2 r <= t)%nat -> w1 = w2.
Proof.
  intros HT L1 L2 Ln B1 B2 D1 D2. apply (min_distance k); [lia|lia|exact B1|exact B2|].
  unfold distance in *. rewrite (zipF_add_assoc3 w1 r w2) by lia.
  pose proof (weight_add (zipF Fadd w1 r) (zipF Fadd r w2) ltac:(rewrite !zipF_length; lia)) as WA.
  assert (weight (zipF Fadd r w2) = weight (zipF Fadd w2 r)) as E.
  { f_equal. clear - L2. revert w2 L2. induction r as [|a r IH]; intros [|b w2] L; cbn in L; try lia; [reflexivity|].
    cbn [zipF]. f_equal; [ring|apply IH; lia]. }
  lia.
Qed.
