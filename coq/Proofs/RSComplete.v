(* Proofs/RSComplete.v -- property C03, completeness: a received word within floor(k/2) errors per interleaved block of
   a codeword is always decoded (and then, by Proofs/NoMiscorrection.v, to that codeword).  The syndromes are the
   power sums of the error points; the Levinson-Durbin exit state has the error locator (ErrLoc.v); the Chien search
   finds exactly the inverse locators (ChienCorrect.v); Bjoerck-Pereyra returns the error values (BPCorrect.v); the
   corrected word has no non-zero syndrome. *)
From Coq Require Import Arith NArith List Bool Lia Ring Field Permutation.
From DM Require Import Generated.Symbols Spec.GF256 Spec.Poly Spec.RSCode Model.Outcome Model.GF Model.RSEnc Model.RSDec Proofs.GFTie Proofs.RSEncProofs
  Proofs.SymbolListProofs Proofs.RSDecProofs Proofs.LDBound Proofs.RSTotal Proofs.MinDistance Proofs.NoMiscorrection
  Proofs.LDMath Proofs.LDBridge Proofs.LDInv Proofs.LDTotal Proofs.ErrLoc Proofs.BPMath Proofs.BPCorrect Proofs.ChienCorrect.
Import ListNotations.
Local Open Scope nat_scope.

(* ---- the syndromes of a received word are the power sums of its error points ---- *)
Definition err_points (cw rw : list N) : list (F * F) :=
  filter (fun p => negb (Feqb (fst p) F0)) (points (zipF Fadd (map toF cw) (map toF rw))).
Definition shift_pts (P : list (F * F)) : list (F * F) := map (fun p => (Fmul (fst p) (snd p), snd p)) P.

Lemma S_shift j P : MinDistance.S j (shift_pts P) = MinDistance.S (Datatypes.S j) P.
Proof.
  induction P as [|[y X] R IH]; [reflexivity|]. cbn [shift_pts map fst snd]. fold (shift_pts R). rewrite !S_cons, IH.
  unfold term. cbn [fst snd Fpow]. ring.
Qed.

Lemma zipF_add_cancel a : forall b, length a = length b -> zipF Fadd a (zipF Fadd a b) = b.
Proof.
  induction a as [|x r IH]; intros [|y r2] L; cbn in L; try lia; [reflexivity|]. cbn [zipF]. rewrite IH by lia. f_equal.
  transitivity (Fadd (Fadd x x) y); [ring|]. rewrite Fadd_self. ring.
Qed.

Lemma points_pow w : forall p, In p (points w) -> exists m, m < length w /\ snd p = Fpow Falpha m.
Proof.
  induction w as [|c r IH]; intros p Hp; [destruct Hp|]. cbn [points] in Hp. destruct Hp as [<-|Hp].
  - exists (length r). split; [cbn [length]; lia|reflexivity].
  - destruct (IH p Hp) as (m & Hm & E). exists m. split; [cbn [length]; lia|exact E].
Qed.

Section Received.
Variables (cw rw : list N) (k : nat).
Hypothesis Bc : Forall byte cw.
Hypothesis Br : Forall byte rw.
Hypothesis Len : length cw = length rw.
Hypothesis L255 : length rw <= 255.
Hypothesis Cw : block_ok k (map toF cw).
Let E := zipF Fadd (map toF cw) (map toF rw).
Let P := err_points cw rw.
Let L' := shift_pts P.
Let syn := fst (primitive_element_evaluation rw k).

Lemma E_length : length E = length rw.
Proof. unfold E. rewrite zipF_length; rewrite !map_length; lia. Qed.

Lemma rw_eval j : j < k -> peval (map toF rw) (Fpow Falpha (1 + j)) = MinDistance.S j L'.
Proof.
  intros Hj.
  assert (map toF rw = zipF Fadd (map toF cw) E) as -> by (unfold E; symmetry; apply zipF_add_cancel; rewrite !map_length; exact Len).
  rewrite peval_zip_add by (rewrite E_length, map_length; exact Len).
  rewrite (Cw (Fpow Falpha (1 + j))) by (unfold roots; apply in_map_iff; exists (1 + j); split; [reflexivity|apply in_seq; lia]).
  rewrite peval_points. unfold L'. rewrite S_shift. unfold P, err_points. rewrite S_filter. fold E. cbn [Nat.add]. ring.
Qed.

Lemma syn_facts : Forall byte syn /\ length syn = k /\ forall j, j < k -> vf syn j = MinDistance.S j L'.
Proof.
  destruct (syndromes_spec rw k Br) as [B SS]. cbv zeta in B, SS. fold syn in B, SS. split; [exact B|].
  assert (length syn = k) as Ls by (unfold syn, primitive_element_evaluation; cbn [fst]; apply pee_go_len). split; [exact Ls|].
  intros j Hj. unfold vf. rewrite <- (map_nth toF).
  rewrite SS. rewrite (nth_indep _ (toF 0%N) ((fun j0 => peval (map toF rw) (Fpow Falpha j0)) 0)) by (rewrite map_length, seq_length; exact Hj).
  rewrite (map_nth (fun j0 => peval (map toF rw) (Fpow Falpha j0))). rewrite seq_nth by exact Hj. apply rw_eval. exact Hj.
Qed.

Lemma pts_nodup : NoDup (map snd L').
Proof.
  unfold L', shift_pts. rewrite map_map. cbn [snd]. unfold P, err_points. apply NoDup_filter_map.
  apply points_locators_NoDup. fold E. rewrite E_length. exact L255.
Qed.

Lemma pts_locs p : In p L' -> exists m, m < length rw /\ snd p = Fpow Falpha m.
Proof.
  intros Hp. unfold L', shift_pts in Hp. apply in_map_iff in Hp. destruct Hp as (q & <- & Hq). cbn [snd].
  unfold P, err_points in Hq. apply filter_In in Hq. destruct Hq as [Hq _]. rewrite <- E_length. apply points_pow. exact Hq.
Qed.

Lemma pts_nonzero : Forall (fun p => fst p <> F0) L'.
Proof.
  apply Forall_forall. intros p Hp. destruct (pts_locs p Hp) as (m & _ & EX).
  unfold L', shift_pts in Hp. apply in_map_iff in Hp. destruct Hp as ([y X] & <- & Hq). cbn [fst snd] in *.
  unfold P, err_points in Hq. apply filter_In in Hq. destruct Hq as [_ NZ]. cbn [fst] in NZ.
  intros Z. apply Fmul_integral in Z. destruct Z as [Z|Z].
  - subst y. assert (Feqb F0 F0 = true) as T by (apply Feqb_eq; reflexivity). rewrite T in NZ. discriminate.
  - rewrite EX in Z. exact (Fpow_nonzero Falpha m Falpha_nonzero Z).
Qed.

Lemma pts_count : length L' = ham cw rw.
Proof.
  unfold L', shift_pts. rewrite map_length. unfold P, err_points. rewrite filter_points_length.
  rewrite <- (dist_ham cw rw Bc Br Len). reflexivity.
Qed.
End Received.

(* ---- the locator search returns the error locator ---- *)
Lemma S_zero_weights j (L : list (F * F)) : Forall (fun p => fst p = F0) L -> MinDistance.S j L = F0.
Proof.
  induction 1 as [|[y X] R H0 HR IH]; [reflexivity|]. cbn [fst] in H0. subst y. rewrite S_cons, IH. unfold term. cbn [fst snd]. ring.
Qed.

Lemma wpoly_ext c c' n X : (forall j, j < n -> c j = c' j) -> wpoly c n X = wpoly c' n X.
Proof. intros H. unfold wpoly. apply fsum_ext. intros j Hj. rewrite H by exact Hj. reflexivity. Qed.

Theorem ld_true_locator syn (L : list (F * F)) : Forall byte syn -> NoDup (map snd L) -> Forall (fun p => fst p <> F0) L ->
  1 <= length L <= length syn / 2 -> (forall j, j < length syn -> vf syn j = MinDistance.S j L) ->
  exists w, find_inv_error_locations_levinson_durbin syn = Ok (w ++ [1%N]) /\ Forall byte w /\ length w = length L /\
    (forall p, In p L -> wpoly (vf (w ++ [1%N])) (Datatypes.S (length w)) (snd p) = F0) /\
    (forall x, wpoly (vf (w ++ [1%N])) (Datatypes.S (length w)) x = F0 -> In x (map snd L)).
Proof.
  intros Bs ND NZ [L1 Lt] HS. set (t := length syn / 2) in *.
  assert (2 * t <= length syn) as Ht by (unfold t; pose proof (Nat.div_mod (length syn) 2 ltac:(lia)); lia).
  pose proof (levinson_durbin_cases syn Bs) as LC. cbv zeta in LC. fold t in LC.
  destruct LC as [(GT & _)|(LE & s' & EQ & (I & Hv & HA))].
  - (* the first t syndromes vanish: impossible with 1..t non-zero points *)
    exfalso. assert (Forall (fun p => fst p = F0) L) as Z.
    { apply vandermonde_T; [exact ND|]. intros j Hj. rewrite <- HS by lia. unfold vf. rewrite take_while_zero_zeros by lia. reflexivity. }
    destruct L as [|p R]; [cbn in L1; lia|]. inversion Z; subst. inversion NZ; subst. contradiction.
  - destruct I as [P Lw Ly Bw By I3 I4]. set (v := ld_v s') in *. set (w := ld_w s') in *.
    destruct (locator_correct L ND NZ (SF syn) t v (vf (ld_y s')) (vf w) P Hv Lt) as (EV & R1 & R2).
    + intros j Hj. apply HS. lia.
    + exact I3.
    + exact HA.
    + exists w. split; [exact EQ|]. split; [exact Bw|]. split; [lia|].
      assert (forall X, wpoly (vf (w ++ [1%N])) (Datatypes.S (length w)) X = wpoly (ext1 v (vf w)) (Datatypes.S v) X) as EW.
      { intros X. rewrite Lw. apply wpoly_ext. intros j _. rewrite vf_snoc1, Lw. reflexivity. }
      split; [intros p Hp; rewrite EW; apply R1; exact Hp|intros x Hx; apply R2; rewrite <- EW; exact Hx].
Qed.

(* ---- the Chien search returns the inverses of the locators ---- *)
Lemma Finv_Finv x : x <> F0 -> Finv (Finv x) = x.
Proof. intros H. apply Finv_unique. transitivity (Fmul x (Finv x)); [ring|]. apply Finv_r. exact H. Qed.

Lemma last_snoc1 (w : list N) : last (w ++ [1%N]) 1%N = 1%N.
Proof. induction w as [|a r IH]; [reflexivity|]. cbn [app]. destruct (r ++ [1%N]) eqn:E; [destruct r; discriminate|]. rewrite <- E. cbn [last]. rewrite E in *. exact IH. Qed.

Lemma NoDup_same_length {A} (l1 l2 : list A) : NoDup l1 -> NoDup l2 -> (forall x, In x l1 <-> In x l2) -> length l1 = length l2.
Proof. intros N1 N2 H. apply Permutation_length. apply NoDup_Permutation; assumption. Qed.

Lemma NoDup_map_toF (l : list N) : Forall byte l -> NoDup l -> NoDup (map toF l).
Proof.
  intros B ND. apply NoDup_map_inj_on; [exact ND|]. intros a b Ha Hb E. rewrite Forall_forall in B. apply toF_inj; [apply B; exact Ha|apply B; exact Hb|exact E].
Qed.

Theorem chien_true w (L : list (F * F)) : Forall byte w -> 1 <= length w -> length w = length L -> NoDup (map snd L) ->
  (forall p, In p L -> exists m, m < 255 /\ snd p = Fpow Falpha m) ->
  (forall p, In p L -> wpoly (vf (w ++ [1%N])) (Datatypes.S (length w)) (snd p) = F0) ->
  (forall x, wpoly (vf (w ++ [1%N])) (Datatypes.S (length w)) x = F0 -> In x (map snd L)) ->
  exists z, chien_search (w ++ [1%N]) = Ok z /\ good_locs z /\ Forall byte z /\ length z = length L /\
    forall x, In x (map toF (map RSTotal.ginv z)) <-> In x (map snd L).
Proof.
  intros Bw L1 LL ND HP R1 R2. destruct w as [|c0 [|c1 r]]; [cbn in L1; lia| |].
  - (* one error: lambda = [c0; 1] *)
    destruct L as [|[y1 X1] [|p2 R]]; try (cbn in LL; lia). clear LL.
    inversion Bw as [|? ? Bc0 _]; subst.
    assert (Fadd (toF c0) X1 = F0) as RT.
    { pose proof (R1 (y1, X1) (or_introl eq_refl)) as H. cbn [snd length app] in H. unfold wpoly in H. cbn [fsum] in H. unfold vf in H. cbn [nth Fpow] in H.
      rewrite <- H. change (toF 1%N) with F1. ring. }
    assert (X1 = toF c0) as EX by (transitivity (Fadd (Fadd (toF c0) X1) (toF c0)); [ring|rewrite RT; ring]).
    destruct (HP (y1, X1) (or_introl eq_refl)) as (m & _ & EM). cbn [snd] in EM.
    assert (toF c0 <> F0) as NZF by (rewrite <- EX, EM; apply Fpow_nonzero, Falpha_nonzero).
    assert (c0 <> 0%N) as NZ by (intros ->; apply NZF; reflexivity).
    destruct (gdiv_ok 1%N c0 NZ) as (q & EQ). destruct (gdiv_toF _ _ _ byte_1 Bc0 EQ) as (_ & Bq & Eq).
    assert (q <> 0%N) as NZq.
    { unfold gdiv in EQ. destruct (GF.div 1 c0) as [q'|] eqn:ED; [|discriminate]. inversion EQ; subst. eapply div_nonzero; [|exact ED]. discriminate. }
    exists [q]. cbn [app chien_search last]. change (N.eqb 1 0) with false. cbn [negb andb app].
    destruct (N.eqb_spec c0 0) as [|_]; [contradiction|]. cbn [negb]. rewrite EQ. cbn [bind].
    split; [reflexivity|]. split; [split; [constructor; [exact NZq|constructor]|cbn [map]; constructor; [intros []|constructor]]|].
    split; [constructor; [exact Bq|constructor]|]. split; [reflexivity|]. intros x. cbn [map In snd].
    rewrite toF_ginv by assumption. rewrite Eq. change (toF 1%N) with F1.
    assert (Finv (Fmul F1 (Finv (toF c0))) = X1) as -> by (rewrite EX; transitivity (Finv (Finv (toF c0))); [f_equal; ring|apply Finv_Finv; exact NZF]).
    reflexivity.
  - (* the general case *)
    set (w := c0 :: c1 :: r) in *. set (lam := w ++ [1%N]).
    assert (Forall byte lam) as Bl by (apply Forall_snoc; [exact Bw|exact byte_1]).
    assert (length lam = Datatypes.S (length w)) as Ll by (unfold lam; rewrite app_length; cbn [length]; lia).
    assert (3 <= length lam) as L3 by (rewrite Ll; unfold w; cbn [length]; lia).
    assert (last lam 1%N <> 0%N) as LN by (unfold lam; rewrite last_snoc1; discriminate).
    destruct (chien_search lam) as [z| |] eqn:CS.
    2:{ exfalso. unfold chien_search in CS. unfold lam, w in CS. destruct r as [|c2 r']; cbn [app] in CS; destruct (N.eqb _ 0); discriminate CS. }
    2:{ exfalso. unfold chien_search in CS. unfold lam, w in CS. destruct r as [|c2 r']; cbn [app] in CS; destruct (N.eqb _ 0); discriminate CS. }
    destruct (chien_general lam Bl L3 LN z CS) as (EZ & MEM). exists z. split; [reflexivity|].
    set (H := hits 255 0%N (rev lam) (powers (length lam))) in *.
    assert (NoDup H) as NDH by (unfold H; change 0%N with (N.of_nat 0); change (rev lam) with (scaled (rev lam) (powers (length lam)) 0); apply hits_NoDup).
    assert (forall j, In j H -> (j < 255)%N) as RH.
    { intros j Hj. unfold H in Hj. change 0%N with (N.of_nat 0) in Hj. change (rev lam) with (scaled (rev lam) (powers (length lam)) 0) in Hj.
      apply hits_spec in Hj. destruct Hj as (m & Hm & -> & _). lia. }
    pose proof (good_locs_alog H NDH RH) as GL. rewrite <- EZ in GL.
    assert (Forall byte z) as Bz by (rewrite EZ; apply Forall_forall; intros b Hb; apply in_map_iff in Hb; destruct Hb as (j & <- & _); apply alog_byte).
    assert (forall x, In x (map toF (map RSTotal.ginv z)) <-> In x (map snd L)) as MEM2.
    { intros x. rewrite MEM. rewrite Ll. split.
      - intros (m & Hm & -> & Z). apply R2. exact Z.
      - intros Hx. apply in_map_iff in Hx. destruct Hx as (p & <- & Hp). destruct (HP p Hp) as (m & Hm & EM). exists m. split; [exact Hm|]. split; [exact EM|]. apply R1. exact Hp. }
    split; [exact GL|]. split; [exact Bz|]. split; [|exact MEM2].
    assert (length (map toF (map RSTotal.ginv z)) = length (map snd L)) as LE; [|rewrite !map_length in LE; exact LE].
    apply NoDup_same_length; [|exact ND|exact MEM2].
    apply NoDup_map_toF; [|exact (proj2 GL)].
    apply Forall_forall. intros b Hb. apply in_map_iff in Hb. destruct Hb as (zz & <- & Hz). unfold RSTotal.ginv.
    destruct (GF.div 1 zz) as [q|] eqn:ED; [|exact byte_0]. apply (gdiv_byte 1%N zz). unfold gdiv. rewrite ED. reflexivity.
Qed.

(* ---- sums over the points, re-indexed by a list of their locators ---- *)
Lemma Fsum_perm l l' : Permutation l l' -> Fsum l = Fsum l'.
Proof.
  induction 1 as [|x l l' _ IH|x y l|l l' l'' _ IH1 _ IH2]; [reflexivity| | |congruence].
  - rewrite !Fsum_cons, IH. reflexivity.
  - rewrite !Fsum_cons. ring.
Qed.

Lemma Fsum_map_fsum {A} (g : A -> F) (d : A) : forall l, Fsum (map g l) = fsum (length l) (fun i => g (nth i l d)).
Proof.
  induction l as [|a r IH]; [reflexivity|]. cbn [map length]. rewrite Fsum_cons, fsum_shift, IH. reflexivity.
Qed.

Definition wt (L : list (F * F)) (X : F) : F :=
  match find (fun p => Feqb (snd p) X) L with Some p => fst p | None => F0 end.

Lemma wt_in (L : list (F * F)) y X : NoDup (map snd L) -> In (y, X) L -> wt L X = y.
Proof.
  unfold wt. induction L as [|[y0 X0] R IH]; intros ND Hin; [destruct Hin|]. cbn [find snd].
  cbn [map snd] in ND. inversion ND as [|? ? Hn ND']; subst. destruct (Feqb X0 X) eqn:E.
  - apply Feqb_eq in E. subst X0. destruct Hin as [H|H]; [inversion H; reflexivity|].
    exfalso. apply Hn. apply in_map_iff. exists (y, X). split; [reflexivity|exact H].
  - destruct Hin as [H|H]; [inversion H; subst; assert (Feqb X X = true) as T by (apply Feqb_eq; reflexivity); rewrite T in E; discriminate|].
    apply IH; assumption.
Qed.

Lemma S_by_locs (L : list (F * F)) j : NoDup (map snd L) ->
  MinDistance.S j L = Fsum (map (fun X => Fmul (wt L X) (Fpow X j)) (map snd L)).
Proof.
  intros ND. unfold MinDistance.S. f_equal. rewrite map_map. apply map_ext_in. intros [y X] Hp. unfold term. cbn [fst snd].
  rewrite (wt_in L y X ND Hp). reflexivity.
Qed.

Lemma S_reindex (L : list (F * F)) (xs : list N) j : NoDup (map snd L) -> Permutation (map snd L) (map toF xs) ->
  MinDistance.S j L = fsum (length xs) (fun i => Fmul (wt L (vf xs i)) (Fpow (vf xs i) j)).
Proof.
  intros ND PM. rewrite (S_by_locs L j ND). rewrite (Fsum_perm _ _ (Permutation_map _ PM)).
  rewrite (Fsum_map_fsum _ F0), map_length. apply fsum_ext. intros i Hi.
  assert (nth i (map toF xs) F0 = vf xs i) as -> by (unfold vf; change F0 with (toF 0%N); apply map_nth). reflexivity.
Qed.

(* ---- strided views and single-position updates ---- *)
Lemma nth_every {A} (d : A) stride : forall (l : list A) c q, nth q (every stride c l) d = nth (c + q * (Datatypes.S (stride - 1))) l d.
Proof.
  induction l as [|x r IH]; intros c q; [destruct q, c; reflexivity|]. destruct c as [|c]; cbn [every].
  - destruct q as [|q]; [reflexivity|]. cbn [nth]. rewrite IH. cbn [Nat.add Nat.mul nth]. f_equal; lia.
  - rewrite IH. reflexivity.
Qed.

Lemma every_length {A} stride : stride <> 0 -> forall (l : list A) c, c < stride ->
  length (every stride c l) = (length l + stride - 1 - c) / stride.
Proof.
  intros Hs. induction l as [|x r IH]; intros c Hc; cbn [every length].
  - symmetry. apply Nat.div_small. lia.
  - destruct c as [|c]; cbn [length].
    + rewrite IH by lia. replace (Datatypes.S (length r) + stride - 1 - 0) with (length r + 1 * stride) by lia.
      rewrite Nat.div_add by exact Hs. replace (length r + stride - 1 - (stride - 1)) with (length r) by lia. lia.
    + rewrite IH by lia. f_equal. lia.
Qed.

Fixpoint setF (l : list F) (i : nat) (v : F) : list F :=
  match l, i with [], _ => [] | _ :: r, O => v :: r | x :: r, Datatypes.S i' => x :: setF r i' v end.

Lemma setF_length l : forall i v, length (setF l i v) = length l.
Proof. induction l as [|x r IH]; intros [|i] v; cbn [setF length]; try reflexivity. rewrite IH. reflexivity. Qed.

Lemma peval_setF l : forall i y x, i < length l ->
  peval (setF l i (Fadd (nth i l F0) y)) x = Fadd (peval l x) (Fmul y (Fpow x (length l - 1 - i))).
Proof.
  induction l as [|c r IH]; intros i y x Hi; [cbn in Hi; lia|]. destruct i as [|i]; cbn [setF nth length].
  - rewrite !peval_cons. replace (Datatypes.S (length r) - 1 - 0) with (length r) by lia. ring.
  - rewrite !peval_cons, setF_length, IH by (cbn [length] in Hi; lia).
    replace (Datatypes.S (length r) - 1 - Datatypes.S i) with (length r - 1 - i) by lia. ring.
Qed.

Lemma list_eq_nth {A} (d : A) (l1 l2 : list A) : length l1 = length l2 -> (forall q, q < length l1 -> nth q l1 d = nth q l2 d) -> l1 = l2.
Proof.
  revert l2. induction l1 as [|a r IH]; intros [|b r2] L H; cbn in L; try lia; [reflexivity|]. f_equal.
  - exact (H 0 ltac:(cbn; lia)).
  - apply IH; [lia|]. intros q Hq. exact (H (Datatypes.S q) ltac:(cbn; lia)).
Qed.

Lemma nth_setF l : forall i v q, i < length l -> nth q (setF l i v) F0 = if Nat.eqb q i then v else nth q l F0.
Proof.
  induction l as [|x r IH]; intros i v q Hi; [cbn in Hi; lia|]. destruct i as [|i]; cbn [setF].
  - destruct q; reflexivity.
  - destruct q as [|q]; [reflexivity|]. cbn [nth Nat.eqb]. apply IH. cbn [length] in Hi. lia.
Qed.

(* the received block as a word over F *)
Definition word (stride : nat) (data error : list N) : list F := map toF (every stride 0 data ++ every stride 0 error).

Lemma nth_word stride data error q : stride <> 0 ->
  nth q (word stride data error) F0 =
  if q <? length (every stride 0 data) then toF (nth (q * stride) data 0%N)
  else toF (nth ((q - length (every stride 0 data)) * stride) error 0%N).
Proof.
  intros Hs. unfold word. change F0 with (toF 0%N). rewrite map_nth. f_equal.
  assert (Datatypes.S (stride - 1) = stride) as ES by lia.
  destruct (Nat.ltb_spec q (length (every stride 0 data))).
  - rewrite app_nth1 by assumption. rewrite nth_every, ES. reflexivity.
  - rewrite app_nth2 by assumption. rewrite nth_every, ES. reflexivity.
Qed.

Lemma word_length stride data error : length (word stride data error) = length (every stride 0 data) + length (every stride 0 error).
Proof. unfold word. rewrite map_length, app_length. reflexivity. Qed.

Lemma every_len_set {A} stride (l l' : list A) : length l = length l' -> length (every stride 0 l) = length (every stride 0 l').
Proof. apply every_length_eq. Qed.

(* one correction in the data part / in the error part *)
Lemma word_set_data stride data error pos v data' : stride <> 0 -> pos < length (every stride 0 data) ->
  set_ok data (pos * stride) v = Ok data' ->
  word stride data' error = setF (word stride data error) pos (toF v).
Proof.
  intros Hs Hp SO. pose proof (set_ok_length _ _ _ _ SO) as L. pose proof (every_len_set stride data' data L) as LE.
  apply (list_eq_nth F0); [rewrite setF_length, !word_length, LE; reflexivity|].
  intros q Hq. rewrite nth_setF by (rewrite word_length; lia). rewrite !nth_word by exact Hs. rewrite LE.
  destruct (Nat.ltb_spec q (length (every stride 0 data))) as [QL|QG].
  - rewrite (nth_set_ok _ _ _ _ (q * stride) SO). destruct (Nat.eqb_spec q pos) as [->|NE]; [rewrite Nat.eqb_refl; reflexivity|].
    destruct (Nat.eqb_spec (q * stride) (pos * stride)) as [E|_]; [|reflexivity]. exfalso. apply NE. apply (proj1 (Nat.mul_cancel_r q pos stride Hs)). exact E.
  - destruct (Nat.eqb_spec q pos); [lia|reflexivity].
Qed.

Lemma word_set_error stride data error pos v error' : stride <> 0 -> pos < length (every stride 0 error) ->
  set_ok error (pos * stride) v = Ok error' ->
  word stride data error' = setF (word stride data error) (length (every stride 0 data) + pos) (toF v).
Proof.
  intros Hs Hp SO. pose proof (set_ok_length _ _ _ _ SO) as L. pose proof (every_len_set stride error' error L) as LE.
  apply (list_eq_nth F0); [rewrite setF_length, !word_length, LE; reflexivity|].
  intros q Hq. rewrite nth_setF by (rewrite word_length; lia). rewrite !nth_word by exact Hs.
  destruct (Nat.ltb_spec q (length (every stride 0 data))) as [QL|QG].
  - destruct (Nat.eqb_spec q (length (every stride 0 data) + pos)); [lia|reflexivity].
  - rewrite (nth_set_ok _ _ _ _ _ SO). destruct (Nat.eqb_spec q (length (every stride 0 data) + pos)) as [->|NE].
    + replace (length (every stride 0 data) + pos - length (every stride 0 data)) with pos by lia. rewrite Nat.eqb_refl. reflexivity.
    + destruct (Nat.eqb_spec ((q - length (every stride 0 data)) * stride) (pos * stride)) as [E|_]; [|reflexivity].
      exfalso. apply NE. apply (proj1 (Nat.mul_cancel_r _ _ stride Hs)) in E. lia.
Qed.

(* all corrections: the value of the corrected word at x *)
Lemma apply_corr_peval stride x : stride <> 0 -> forall locs errs data error d' e',
  let nd := length (every stride 0 data) in let ne := length (every stride 0 error) in
  Forall byte data -> Forall byte error -> Forall byte errs ->
  apply_corr data error stride (nd + ne) nd locs errs = Ok (d', e') ->
  length d' = length data /\ length e' = length error /\ Forall byte d' /\ Forall byte e' /\
  peval (word stride d' e') x =
    Fadd (peval (word stride data error) x)
         (fsum (Nat.min (length locs) (length errs)) (fun i => Fmul (toF (nth i errs 0%N)) (Fpow x (N.to_nat (GF.logt (nth i locs 0%N)))))).
Proof.
  intros Hs. induction locs as [|loc lr IH]; intros errs data error d' e' nd ne Bd Be Br H.
  - cbn [apply_corr] in H. inversion H; subst. cbn [length Nat.min fsum]. repeat split; auto. ring.
  - destruct errs as [|err er]; [cbn [apply_corr] in H; inversion H; subst; cbn [length Nat.min fsum]; repeat split; auto; ring|].
    cbn [apply_corr] in H. apply Forall_cons_iff in Br. destruct Br as [Berr Ber].
    unfold GF.glog in H. destruct (N.eqb loc 0); [discriminate|].
    destruct (Nat.leb_spec (nd + ne) (N.to_nat (GF.logt loc))) as [|LT]; [discriminate|].
    set (i := N.to_nat (GF.logt loc)) in *. set (pos := nd + ne - i - 1) in *.
    cbn [length Nat.min]. rewrite fsum_shift. cbn [nth].
    destruct (Nat.ltb_spec pos nd) as [PD|PE].
    + destruct (nth_ok data (pos * stride)) as [cur| |] eqn:E1; cbn [bind] in H; try discriminate.
      destruct (set_ok data (pos * stride) (GF.add cur err)) as [d1| |] eqn:E2; cbn [bind] in H; try discriminate.
      destruct (nth_ok_nth _ _ _ E1) as [N1 _]. assert (byte cur) as Bc by (rewrite <- N1; apply nth_byte; exact Bd).
      assert (Forall byte d1) as Bd1 by (eapply Forall_set_ok; [exact E2|exact Bd|apply add_byte; assumption]).
      pose proof (set_ok_length _ _ _ _ E2) as L1. pose proof (every_len_set stride d1 data L1) as LE.
      pose proof (IH er d1 error d' e') as IH'. cbv zeta in IH'. rewrite LE in IH'. fold nd ne in IH'.
      destruct (IH' Bd1 Be Ber H) as (A1 & A2 & A3 & A4 & A5).
      split; [lia|]. split; [exact A2|]. split; [exact A3|]. split; [exact A4|]. rewrite A5.
      rewrite (word_set_data stride data error pos _ d1 Hs PD E2).
      assert (toF (GF.add cur err) = Fadd (nth pos (word stride data error) F0) (toF err)) as ->.
      { rewrite toF_add by assumption. rewrite nth_word by exact Hs. fold nd. destruct (Nat.ltb_spec pos nd); [|lia]. rewrite N1. reflexivity. }
      rewrite peval_setF by (rewrite word_length; fold nd ne; lia). rewrite word_length. fold nd ne.
      replace (nd + ne - 1 - pos) with i by (unfold pos; lia). unfold i. ring.
    + destruct (nth_ok error ((pos - nd) * stride)) as [cur| |] eqn:E1; cbn [bind] in H; try discriminate.
      destruct (set_ok error ((pos - nd) * stride) (GF.add cur err)) as [e1| |] eqn:E2; cbn [bind] in H; try discriminate.
      destruct (nth_ok_nth _ _ _ E1) as [N1 _]. assert (byte cur) as Bc by (rewrite <- N1; apply nth_byte; exact Be).
      assert (Forall byte e1) as Be1 by (eapply Forall_set_ok; [exact E2|exact Be|apply add_byte; assumption]).
      pose proof (set_ok_length _ _ _ _ E2) as L1. pose proof (every_len_set stride e1 error L1) as LE.
      pose proof (IH er data e1 d' e') as IH'. cbv zeta in IH'. rewrite LE in IH'. fold nd ne in IH'.
      destruct (IH' Bd Be1 Ber H) as (A1 & A2 & A3 & A4 & A5).
      split; [exact A1|]. split; [lia|]. split; [exact A3|]. split; [exact A4|]. rewrite A5.
      rewrite (word_set_error stride data error (pos - nd) _ e1 Hs ltac:(fold ne; unfold pos; lia) E2). fold nd.
      replace (nd + (pos - nd)) with pos by lia.
      assert (toF (GF.add cur err) = Fadd (nth pos (word stride data error) F0) (toF err)) as ->.
      { rewrite toF_add by assumption. rewrite nth_word by exact Hs. fold nd. destruct (Nat.ltb_spec pos nd); [lia|]. rewrite N1. reflexivity. }
      rewrite peval_setF by (rewrite word_length; fold nd ne; unfold pos; lia). rewrite word_length. fold nd ne.
      replace (nd + ne - 1 - pos) with i by (unfold pos; lia). unfold i. ring.
Qed.

(* ---- helpers for the assembly ---- *)
Lemma zipw_firstn_l {A B C} (f : A -> B -> C) : forall (b : list B) (a : list A), zipw f (firstn (length b) a) b = zipw f a b.
Proof. induction b as [|y r IH]; intros [|x s]; cbn [length firstn zipw]; try reflexivity. rewrite IH. reflexivity. Qed.

Lemma logt_of_pow b m : byte b -> b <> 0%N -> m < 255 -> toF b = Fpow Falpha m -> N.to_nat (GF.logt b) = m.
Proof.
  intros Bb NZ Hm E. pose proof (sweep1 _ glog_sweep b Bb) as S. cbv beta in S.
  destruct (N.eqb_spec b 0) as [|_]; [contradiction|]. cbn [orb] in S. apply andb_true_iff in S. destruct S as [S1 S2].
  apply N.eqb_eq in S1. apply N.ltb_lt in S2. apply Falpha_pow_inj; [lia|exact Hm|]. rewrite <- E.
  apply F_eq. rewrite Fval_pow. unfold Falpha. rewrite Fval_toF by (unfold byte, alpha; lia). rewrite S1. symmetry. apply Fval_toF. exact Bb.
Qed.

Lemma apply_corr_ok stride n_data n_error : stride <> 0 -> forall locs errs data error,
  Forall (fun x => x <> 0%N /\ N.to_nat (GF.logt x) < n_data + n_error) locs ->
  n_data = (length data + stride - 1) / stride -> n_error = (length error + stride - 1) / stride ->
  exists d' e', apply_corr data error stride (n_data + n_error) n_data locs errs = Ok (d', e').
Proof.
  intros Hs. induction locs as [|loc lr IH]; intros errs data error NZ Hd He; [eexists; eexists; reflexivity|].
  destruct errs as [|err er]; [eexists; eexists; reflexivity|]. cbn [apply_corr]. apply Forall_cons_iff in NZ. destruct NZ as [[Hl Hr] NZ'].
  unfold GF.glog. destruct (N.eqb_spec loc 0) as [|_]; [contradiction|].
  destruct (Nat.leb_spec (n_data + n_error) (N.to_nat (GF.logt loc))) as [|LT]; [lia|].
  set (pos := n_data + n_error - N.to_nat (GF.logt loc) - 1).
  destruct (Nat.ltb_spec pos n_data) as [P|P].
  - assert (pos * stride < length data) as II by (apply stride_index; [exact Hs|rewrite <- Hd; exact P]).
    destruct (nth_ok_ok data (pos * stride) II) as (cur & E1). rewrite E1. cbn [bind].
    destruct (set_ok_ok data (pos * stride) (GF.add cur err) II) as (d1 & E2 & L2). rewrite E2. cbn [bind].
    apply IH; [exact NZ'|rewrite L2; exact Hd|exact He].
  - assert ((pos - n_data) * stride < length error) as II by (apply stride_index; [exact Hs|rewrite <- He; unfold pos; lia]).
    destruct (nth_ok_ok error ((pos - n_data) * stride) II) as (cur & E1). rewrite E1. cbn [bind].
    destruct (set_ok_ok error ((pos - n_data) * stride) (GF.add cur err) II) as (e1 & E2 & L2). rewrite E2. cbn [bind].
    apply IH; [exact NZ'|exact Hd|rewrite L2; exact He].
Qed.

Lemma ginv_byte z : byte (RSTotal.ginv z).
Proof. unfold RSTotal.ginv. destruct (GF.div 1 z) as [q|] eqn:ED; [|exact byte_0]. apply (gdiv_byte 1%N z). unfold gdiv. rewrite ED. reflexivity. Qed.

(* Bjoerck-Pereyra on the inverse locations returned by the Chien search *)
Lemma bp_values z syn (a : nat -> F) : good_locs z -> Forall byte z -> 1 <= length z <= length syn -> Forall byte syn ->
  (forall j, j < length z -> vf syn j = fsum (length z) (fun i => Fmul (a i) (Fpow (vf (map RSTotal.ginv z) i) j))) ->
  exists s3, find_error_values_bp z syn = Ok (map RSTotal.ginv z, s3) /\ length s3 = length syn /\
    forall i, i < length z -> vf s3 i = Fmul (a i) (Finv (vf (map RSTotal.ginv z) i)).
Proof.
  intros [NZ ND] Bz [H1 H2] Bs HM. unfold find_error_values_bp. rewrite (inv_all z NZ). cbn [bind].
  destruct (Nat.eqb_spec (length z) 0); [lia|]. set (xs := map RSTotal.ginv z) in *.
  assert (length xs = length z) as LM by apply map_length.
  assert (Forall byte xs) as Bx by (apply Forall_forall; intros b Hb; apply in_map_iff in Hb; destruct Hb as (zz & <- & _); apply ginv_byte).
  assert (Forall (fun x => x <> 0%N) xs) as NZx.
  { apply Forall_forall. intros x Hx. apply in_map_iff in Hx. destruct Hx as (y & <- & Hy). apply ginv_nz. exact (proj1 (Forall_forall _ _) NZ y Hy). }
  destruct (bp1_ok xs (length z) (seq 0 (length z - 1)) syn H2) as (s1 & E1 & L1).
  { intros k Hk. apply in_seq in Hk. lia. }
  rewrite E1. cbn [bind].
  pose proof (bp2_ok xs ND (rev (seq 0 (length z - 1))) s1) as B2. rewrite LM in B2.
  destruct B2 as (s2 & E2 & L2); [lia|intros k Hk; apply in_rev, in_seq in Hk; lia|].
  rewrite E2. cbn [bind].
  destruct (bp3_ok xs NZx) with (is_ := seq 0 (length z)) (syn := s2) as (s3 & E3 & L3).
  { intros i Hi. apply in_seq in Hi. lia. }
  rewrite E3. cbn [bind]. exists s3. split; [reflexivity|]. split; [lia|].
  rewrite <- LM in E1, E2, E3, HM. intros i Hi. rewrite <- LM in Hi.
  apply (bp_stages xs Bx a ltac:(lia) ND syn s1 s2 s3 NZx ltac:(lia) Bs HM E1 E2 E3 i Hi).
Qed.

(* ---- one interleaved block within the radius is always decoded ---- *)
Theorem decode_gen_complete data error cdata cerror stride k :
  stride <> 0 -> Forall byte data -> Forall byte error -> Forall byte cdata -> Forall byte cerror ->
  length cdata = length data -> length cerror = length error ->
  let rw := every stride 0 data ++ every stride 0 error in let cw := every stride 0 cdata ++ every stride 0 cerror in
  1 <= k -> k < length rw -> length rw <= 255 -> block_ok k (map toF cw) -> ham cw rw <= k / 2 ->
  exists d' e', decode_gen data error stride k = Ok (d', e').
Proof.
  intros Hs Bd Be Bcd Bce Lcd Lce rw cw Hk Hkn L255 CW HAM.
  assert (Forall byte rw) as Brw by (apply Forall_app; split; apply Forall_every; assumption).
  assert (Forall byte cw) as Bcw by (apply Forall_app; split; apply Forall_every; assumption).
  assert (length cw = length rw) as Lcr by (unfold cw, rw; rewrite !app_length, (every_len_set stride cdata data Lcd), (every_len_set stride cerror error Lce); reflexivity).
  set (nd := length (every stride 0 data)) in *. set (ne := length (every stride 0 error)) in *.
  assert (length rw = nd + ne) as Lrw by (unfold rw; apply app_length).
  assert ((length data + stride - 1) / stride = nd) as ND1 by (unfold nd; rewrite every_length by lia; f_equal; lia).
  assert ((length error + stride - 1) / stride = ne) as NE1 by (unfold ne; rewrite every_length by lia; f_equal; lia).
  unfold decode_gen. destruct (Nat.eqb_spec stride 0) as [|_]; [contradiction|]. rewrite ND1, NE1.
  destruct (Nat.leb_spec 1 k) as [_|]; [|lia]. destruct (Nat.ltb_spec k (nd + ne)) as [_|]; [|lia]. cbn [negb]. fold rw.
  destruct (primitive_element_evaluation rw k) as [syn hnz] eqn:PE. destruct hnz; cbn [negb]; [|eexists; eexists; reflexivity].
  (* the error points *)
  set (L := shift_pts (err_points cw rw)).
  destruct (syn_facts cw rw k Brw Lcr L255 CW) as (Bsyn & Lsyn & HS). rewrite PE in Bsyn, Lsyn, HS. cbn [fst] in Bsyn, Lsyn, HS. fold L in HS.
  pose proof (pts_nodup cw rw Lcr L255) as NDL. fold L in NDL.
  pose proof (pts_nonzero cw rw Lcr L255) as NZL. fold L in NZL.
  pose proof (pts_count cw rw Bcw Brw Lcr) as CNT. fold L in CNT.
  assert (forall p, In p L -> exists m, m < 255 /\ m < nd + ne /\ snd p = Fpow Falpha m) as LOCS.
  { intros p Hp. destruct (pts_locs cw rw Lcr L255 p Hp) as (m & Hm & EM). exists m. split; [lia|]. split; [lia|exact EM]. }
  assert (1 <= length L) as L1.
  { destruct L as [|p R] eqn:EL; [exfalso|cbn [length]; lia].
    assert (existsb (fun o => negb (N.eqb o 0)) syn = false) as NE.
    { apply not_true_is_false. intros H. apply existsb_exists in H. destruct H as (o & Ho & NZo). destruct (In_nth _ _ 0%N Ho) as (j & Hj & <-).
      assert (vf syn j = F0) as Z by (rewrite HS by lia; reflexivity). apply (proj1 (toF_zero_iff _ (nth_byte syn j Bsyn))) in Z.
      rewrite Z in NZo. discriminate. }
    unfold primitive_element_evaluation in PE. inversion PE as [[E1 E2]]. rewrite E1 in E2. rewrite NE in E2. discriminate. }
  (* the locator *)
  destruct (ld_true_locator syn L Bsyn NDL NZL ltac:(rewrite Lsyn; lia) ltac:(intros j Hj; apply HS; lia)) as (w & ELD & Bw & Lw & R1 & R2).
  rewrite ELD. cbn [bind].
  (* the roots *)
  destruct (chien_true w L Bw ltac:(lia) Lw NDL ltac:(intros p Hp; destruct (LOCS p Hp) as (m & A & _ & B); exists m; split; assumption) R1 R2)
    as (z & ECH & GL & Bz & Lz & MEM).
  rewrite ECH. cbn [bind]. rewrite app_length. cbn [length]. replace (length w + 1 - 1) with (length w) by lia.
  destruct (Nat.eqb_spec (length z) (length w)) as [_|]; [|lia]. cbn [negb].
  destruct (nth_ok_ok z 0) as (first & EF); [lia|]. rewrite EF. cbn [bind].
  destruct (N.eqb_spec first 0) as [Z|_].
  { exfalso. destruct (nth_ok_nth _ _ _ EF) as [N0 H0]. destruct GL as [NZz _]. rewrite Forall_forall in NZz. apply (NZz first); [rewrite <- N0; apply nth_In; exact H0|exact Z]. }
  set (e := length w) in *. set (t := k / 2) in *.
  assert (2 * t <= k) as K2 by (unfold t; pose proof (Nat.div_mod k 2 ltac:(lia)); lia).
  destruct (Nat.ltb_spec (2 * t) (e + 1)) as [|_]; [lia|].
  (* the remaining key equations *)
  set (lam := w ++ [1%N]) in *. assert (length lam = e + 1) as Ll by (unfold lam; rewrite app_length; cbn [length]; lia).
  assert (Forall byte lam) as Bl by (apply Forall_snoc; [exact Bw|exact byte_1]).
  match goal with |- exists d' e', (let* tj := map_ok ?F ?LL in _) = _ => destruct (map_ok_ok F LL) as (tj & ETJ & LTJ); [|destruct (map_ok_nth F 0%N LL tj ETJ) as [_ HTJ]] end.
  { intros j Hj. apply in_seq in Hj. match goal with |- context [?a <? ?b] => destruct (Nat.ltb_spec a b) end; [lia|]. eexists; reflexivity. }
  rewrite ETJ. cbn [bind].
  assert (existsb (fun x => negb (N.eqb x 0)) tj = false) as TJ0.
  { apply not_true_is_false. intros H. apply existsb_exists in H. destruct H as (o & Ho & NZo). destruct (In_nth _ _ 0%N Ho) as (idx & Hi & <-).
    rewrite LTJ, seq_length in Hi. specialize (HTJ idx ltac:(rewrite seq_length; exact Hi)). rewrite seq_nth in HTJ by exact Hi. cbv beta in HTJ.
    match type of HTJ with context [?a <? ?b] => destruct (Nat.ltb_spec a b) end; [lia|]. inversion HTJ as [HV]. rewrite <- HV in NZo.
    rewrite <- (zipw_firstn_l GF.mul lam (skipn (t + idx) syn)) in NZo.
    destruct (window_dot syn Bsyn (t + idx) (length lam) lam eq_refl ltac:(lia) Bl) as [Bv Ev].
    assert (hs (SF syn) (length lam) (vf lam) (t + idx) = F0) as Z.
    { rewrite (hs_points L (SF syn) (2 * t) (length lam) (vf lam) (t + idx)) by (try lia; intros j Hj; apply HS; lia).
      apply S_zero_weights. unfold reweigh. rewrite Forall_map. apply Forall_forall. intros p Hp. cbn [fst].
      rewrite Ll. replace (e + 1) with (Datatypes.S e) by lia. rewrite (R1 p Hp). ring. }
    rewrite Z in Ev. apply (proj1 (toF_zero_iff _ Bv)) in Ev. rewrite Ev in NZo. discriminate. }
  rewrite TJ0.
  (* the error values *)
  set (xs := map RSTotal.ginv z) in *.
  assert (Forall byte xs) as Bxs by (apply Forall_forall; intros b Hb; apply in_map_iff in Hb; destruct Hb as (zz & <- & _); apply ginv_byte).
  assert (NoDup (map toF xs)) as NDx by (apply NoDup_map_toF; [exact Bxs|exact (proj2 GL)]).
  assert (Permutation (map snd L) (map toF xs)) as PM by (apply NoDup_Permutation; [exact NDL|exact NDx|intros x; symmetry; apply MEM]).
  assert (length xs = e) as Lxs by (unfold xs; rewrite map_length; lia).
  assert (forall j, j < k -> MinDistance.S j L = fsum e (fun i => Fmul (wt L (vf xs i)) (Fpow (vf xs i) j))) as RE.
  { intros j Hj. rewrite <- Lxs. apply S_reindex; assumption. }
  destruct (bp_values z syn (fun i => wt L (vf xs i)) GL Bz ltac:(lia) Bsyn) as (s3 & EBP & Ls3 & V3).
  { intros j Hj. rewrite HS by lia. replace (length z) with e by lia. apply RE. lia. }
  fold xs in EBP. rewrite EBP. cbn [bind].
  (* the corrections are applied inside the block *)
  assert (forall i, i < e -> exists m, m < 255 /\ m < nd + ne /\ vf xs i = Fpow Falpha m /\ nth i xs 0%N <> 0%N /\ N.to_nat (GF.logt (nth i xs 0%N)) = m) as XI.
  { intros i Hi. assert (In (vf xs i) (map toF xs)) as Hin by (unfold vf; change (toF (nth i xs 0%N)) with (toF (nth i xs 0%N)); apply in_map, nth_In; lia).
    apply MEM in Hin. apply in_map_iff in Hin. destruct Hin as (p & EP & Hp). destruct (LOCS p Hp) as (m & M1 & M2 & M3).
    assert (nth i xs 0%N <> 0%N) as NZi.
    { intros Z0. unfold vf in EP. rewrite Z0 in EP. change (toF 0%N) with F0 in EP. rewrite M3 in EP. exact (Fpow_nonzero Falpha m Falpha_nonzero EP). }
    exists m. split; [exact M1|]. split; [exact M2|]. split; [rewrite <- EP; exact M3|]. split; [exact NZi|].
    apply logt_of_pow; [apply nth_byte; exact Bxs|exact NZi|exact M1|]. fold (vf xs i). rewrite <- EP. exact M3. }
  destruct (apply_corr_ok stride nd ne Hs xs s3 data error) as (d' & e' & EAC); [|symmetry; exact ND1|symmetry; exact NE1|].
  { apply Forall_forall. intros loc Hloc. destruct (In_nth _ _ 0%N Hloc) as (i & Hi & <-). destruct (XI i ltac:(lia)) as (m & _ & M2 & _ & M4 & M5). split; [exact M4|lia]. }
  rewrite EAC. cbn [bind].
  (* the corrected word has no non-zero syndrome *)
  assert (Forall byte s3) as Bs3.
  { unfold find_error_values_bp in EBP. rewrite (inv_all z (proj1 GL)) in EBP. cbn [bind] in EBP. destruct (length z =? 0); [discriminate|].
    destruct (bp1 _ syn _ _) as [s1| |] eqn:E1; cbn [bind] in EBP; try discriminate.
    destruct (bp2 _ s1 _ _) as [s2| |] eqn:E2; cbn [bind] in EBP; try discriminate.
    destruct (bp3 _ s2 _) as [s3'| |] eqn:E3; cbn [bind] in EBP; try discriminate. inversion EBP; subst s3'.
    fold xs in E1, E2, E3. replace (length z) with (length xs) in E1, E2, E3 by lia.
    destruct (bp1_spec xs Bxs (fun i => wt L (vf xs i)) ltac:(lia) (length xs - 1) 0 syn s1 ltac:(lia) ltac:(lia) Bsyn) with (2 := E1) as (LL1 & BB1 & _).
    { intros q Hq. rewrite st1_0. rewrite HS by lia. rewrite Lxs. apply RE. lia. }
    destruct (bp2_spec xs Bxs (fun i => wt L (vf xs i)) ltac:(lia) (proj2 GL) (length xs - 1) s1 s2 ltac:(lia) ltac:(lia) BB1) with (2 := E2) as (LL2 & BB2 & _).
    { intros q Hq. destruct (bp1_spec xs Bxs (fun i => wt L (vf xs i)) ltac:(lia) (length xs - 1) 0 syn s1 ltac:(lia) ltac:(lia) Bsyn) with (2 := E1) as (_ & _ & V1).
      { intros q' Hq'. rewrite st1_0. rewrite HS by lia. rewrite Lxs. apply RE. lia. }
      rewrite (V1 q Hq). cbn [Nat.add]. apply st1_st2; [lia|exact Hq]. }
    clear - E3 BB2 Bxs. revert E3. generalize (seq 0 (length xs)). intros is_. revert s2 BB2. induction is_ as [|i r IH]; intros s2 BB2 E3; cbn [bp3] in E3; [inversion E3; subst; exact BB2|].
    destruct (nth_ok xs i) as [xi| |]; cbn [bind] in E3; try discriminate. destruct (nth_ok s2 i) as [cur| |]; cbn [bind] in E3; try discriminate.
    destruct (gdiv cur xi) as [q| |] eqn:EG; cbn [bind] in E3; try discriminate. destruct (set_ok s2 i q) as [s2'| |] eqn:ES; cbn [bind] in E3; try discriminate.
    apply (IH s2'); [|exact E3]. eapply Forall_set_ok; [exact ES|exact BB2|eapply gdiv_byte; exact EG]. }
  destruct (apply_corr_peval stride F0 Hs xs s3 data error d' e' Bd Be Bs3) as (LD' & LE' & BD' & BE' & _); [fold nd ne; exact EAC|].
  assert (block_ok k (map toF (every stride 0 d' ++ every stride 0 e'))) as BOK.
  { intros r Hr. unfold roots in Hr. apply in_map_iff in Hr. destruct Hr as (j1 & <- & Hj1). apply in_seq in Hj1.
    destruct (apply_corr_peval stride (Fpow Falpha j1) Hs xs s3 data error d' e' Bd Be Bs3) as (_ & _ & _ & _ & PV); [fold nd ne; exact EAC|].
    fold (word stride d' e'). rewrite PV. unfold word at 1. fold rw.
    replace j1 with (1 + (j1 - 1)) at 1 by lia. rewrite (rw_eval cw rw k Lcr L255 CW (j1 - 1)) by lia. fold L.
    rewrite Lxs, Ls3, Lsyn. replace (Nat.min e k) with e by lia. rewrite (RE (j1 - 1)) by lia.
    rewrite <- fsum_add. apply fsum_zero. intros i Hi. destruct (XI i Hi) as (m & M1 & M2 & M3 & M4 & M5).
    rewrite M5. fold (vf s3 i). rewrite (V3 i ltac:(lia)). fold xs. rewrite !M3.
    assert (Fpow Falpha m <> F0) as NZ by (apply Fpow_nonzero, Falpha_nonzero).
    rewrite !Fpow_mul. replace (j1 * m) with (m * (j1 - 1) + m) by nia. rewrite Fpow_add.
    set (c := wt L (Fpow Falpha m)). set (P1 := Fpow Falpha (m * (j1 - 1))). set (X := Fpow Falpha m) in *.
    transitivity (Fmul (Fmul c P1) (Fadd F1 (Fmul X (Finv X)))); [ring|]. rewrite (Finv_r X NZ). transitivity (Fmul (Fmul c P1) (Fadd F1 F1)); [ring|]. rewrite Fadd_self. ring. }
  destruct (primitive_element_evaluation (every stride 0 d' ++ every stride 0 e') k) as [s2 nz] eqn:PE2.
  assert (nz = false) as ->.
  { pose proof (zero_syndromes_flag (every stride 0 d' ++ every stride 0 e') k) as ZF. rewrite PE2 in ZF. cbn [snd] in ZF. apply ZF; [|exact BOK].
    apply Forall_app; split; apply Forall_every; assumption. }
  eexists; eexists; reflexivity.
Qed.

(* ---- all blocks, the whole symbol ---- *)
Lemma decode_blocks_complete stride k (cD cE rD rE : list N) :
  stride <> 0 -> 1 <= k -> Forall byte cD -> Forall byte cE ->
  length cD = length rD -> length cE = length rE -> stride <= length rD -> stride <= length rE -> is_codeword stride k cD cE ->
  (forall b, b < stride -> k < length (every stride b rD ++ every stride b rE) <= 255) ->
  (forall b, b < stride -> ham (every stride b cD ++ every stride b cE) (every stride b rD ++ every stride b rE) <= k / 2) ->
  forall m b0 data error, b0 + m <= stride -> Forall byte data -> Forall byte error ->
  length data = length rD -> length error = length rE ->
  (forall b, b0 <= b < stride -> every stride b data = every stride b rD /\ every stride b error = every stride b rE) ->
  exists d e, decode_blocks data error stride k (seq b0 m) = Ok (d, e).
Proof.
  intros Hs Hk BcD BcE LcD LcE C1 C2 IC SZ HR. induction m as [|m IH]; intros b0 data error Hm Bd Be Ld Le SAME; cbn [seq decode_blocks]; [eexists; eexists; reflexivity|].
  destruct (Nat.ltb_spec (length data) b0); [lia|]. destruct (Nat.ltb_spec (length error) b0); [lia|]. cbn [orb].
  assert (b0 < stride) as Hb0 by lia. destruct (SAME b0 ltac:(lia)) as [S1 S2].
  destruct (decode_gen_complete (skipn b0 data) (skipn b0 error) (skipn b0 cD) (skipn b0 cE) stride k Hs) as (d1 & e1 & DG).
  - apply Forall_skipn; exact Bd.
  - apply Forall_skipn; exact Be.
  - apply Forall_skipn; exact BcD.
  - apply Forall_skipn; exact BcE.
  - rewrite !skipn_length. lia.
  - rewrite !skipn_length. lia.
  - exact Hk.
  - rewrite !every_skipn, S1, S2. apply (SZ b0 Hb0).
  - rewrite !every_skipn, S1, S2. apply (SZ b0 Hb0).
  - rewrite !every_skipn. rewrite !every_block_of by exact Hb0. apply IC. exact Hb0.
  - rewrite !every_skipn, S1, S2. apply (HR b0 Hb0).
  - rewrite DG. cbn [bind].
    set (D1 := firstn b0 data ++ d1) in *. set (E1 := firstn b0 error ++ e1) in *.
    pose proof (decode_blocks_one data error stride k b0 d1 e1 ltac:(lia) ltac:(lia) DG) as ONE. fold D1 E1 in ONE.
    destruct (decode_blocks_spec stride k 1 b0 data error D1 E1 ONE Bd Be ltac:(lia)) as (LD & LE & BD & BE & _ & U1).
    apply (IH (Datatypes.S b0) D1 E1); try assumption; try lia.
    intros b Hb. destruct (U1 b ltac:(lia) ltac:(lia)) as [Q1 Q2]. rewrite Q1, Q2. apply SAME. lia.
Qed.

Theorem decode_complete s cD cE rcv :
  let B := N.to_nat (num_ecc_blocks s) in let k := N.to_nat (num_ecc_per_block s) in let nd := N.to_nat (num_data_codewords s) in
  length cD = nd -> length cE = k * B -> Forall byte cD -> Forall byte cE -> is_codeword B k cD cE ->
  length rcv = nd + k * B -> Forall byte rcv ->
  (forall b, b < B -> ham (every B b cD) (every B b (firstn nd rcv)) + ham (every B b cE) (every B b (skipn nd rcv)) <= k / 2) ->
  RSDec.decode rcv s = Ok (cD ++ cE).
Proof.
  intros B k nd LcD LcE BcD BcE IC Lr Br HR.
  destruct (size_facts s) as [HB Hk]. fold B k in HB, Hk.
  assert (exists c', RSDec.decode rcv s = Ok c') as (c' & EC).
  { unfold RSDec.decode. fold nd B k. destruct (Nat.ltb_spec (length rcv) nd); [lia|].
    set (rD := firstn nd rcv). set (rE := skipn nd rcv).
    assert (length rD = nd) as LrD by (unfold rD; rewrite firstn_length; lia).
    assert (length rE = k * B) as LrE by (unfold rE; rewrite skipn_length; lia).
    assert (Forall byte rD) as BrD by (apply Forall_firstn; exact Br).
    assert (Forall byte rE) as BrE by (apply Forall_skipn; exact Br).
    pose proof (SymbolListProofs.sweep _ data_blocks_sweep s) as DB. cbv beta in DB. apply N.leb_le in DB.
    destruct (decode_blocks_complete B k cD cE rD rE ltac:(lia) ltac:(lia) BcD BcE ltac:(lia) ltac:(lia) ltac:(unfold B, nd in *; lia) ltac:(nia) IC) with (m := B) (b0 := 0) (data := rD) (error := rE) as (d & e & DBK); try assumption; try lia; try reflexivity.
    - intros b Hb. rewrite app_length.
      pose proof (SymbolListProofs.sweep _ block_len_sweep s) as SW. unfold block_len_ok in SW. fold B k nd in SW.
      rewrite forallb_forall in SW. specialize (SW b ltac:(apply in_seq; lia)). apply Nat.leb_le in SW.
      assert (length (every B b rD) = length (every B b (repeat 0%N nd))) as Q1 by (apply every_length_eq; rewrite repeat_length; exact LrD).
      assert (length (every B b rE) = k) as Q2.
      { rewrite every_block_of by exact Hb. unfold block_of. replace 0 with (0 * B) by lia. apply block_from_length; [exact Hb|exact LrE]. }
      assert (1 <= length (every B b rD)) as Q3.
      { rewrite every_length by lia. rewrite LrD. apply Nat.div_le_lower_bound; [lia|]. unfold nd, B in *. lia. }
      lia.
    - intros b Hb. rewrite ham_app by (apply every_length_eq; lia). apply (HR b Hb).
    - intros b Hb. split; reflexivity.
    - rewrite DBK. cbn [bind]. eexists; reflexivity. }
  rewrite EC. f_equal. exact (no_miscorrection s cD cE rcv c' LcD LcE BcD BcE IC Lr Br HR EC).
Qed.
