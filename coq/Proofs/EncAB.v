(* Proofs/EncAB.v -- the data layer for every plan that uses only ASCII and Base256 (in particular: every plan the
   optimiser can return when only these two modes are enabled, C13): whatever the switch positions, if the encoder
   returns at all, its output is the rendering of a legal script of Spec/Stream16022.v -- ASCII runs and Base256
   fields with explicit length, the last field possibly running to the end of the symbol when it fills it exactly --
   followed by standard padding; hence (C04) the decoder returns the input. *)
From Coq Require Import Arith NArith List Bool Lia.
From DM Require Import Generated.Symbols Generated.ModeTables Model.Outcome Model.SymbolList Model.Planner Model.PlannerRun Model.Eci Model.Enc
  Model.Dec Model.Api Spec.Stream16022 Proofs.SymbolListProofs Proofs.EncLocal Proofs.EncTop Proofs.EncAscii
  Proofs.DecStream Proofs.DecStreamC40 Proofs.DecStreamEdi Proofs.DecScript Proofs.EncB256 Proofs.PlanShape.
Import ListNotations.
Local Open Scope N_scope.

Definition ab_mode (m : EncodationType) : Prop := m = Ascii \/ m = Base256.
Definition ab_plan (p : list (N * EncodationType)) : Prop := Forall (fun e => ab_mode (snd e)) p.
Definition same_env (e e' : enc) : Prop := e_input e' = e_input e /\ e_modes e' = e_modes e /\ e_symbols e' = e_symbols e.

Lemma same_env_refl e : same_env e e. Proof. repeat split. Qed.
Lemma same_env_trans a b c : same_env a b -> same_env b c -> same_env a c.
Proof. intros (A1 & A2 & A3) (B1 & B2 & B3). repeat split; congruence. Qed.

(* maybe_switch_mode: what can happen *)
Lemma msm_cases e sw e' : maybe_switch_mode e = Ok (sw, e') -> ab_plan (e_planned e) ->
  e_data e' = e_data e /\ e_cw e' = e_cw e /\ same_env e e' /\ ab_plan (e_planned e') /\
  ((sw = false /\ e_encodation e' = e_encodation e /\ e_new_mode e' = e_new_mode e) \/
   (sw = true /\ e_data e <> [] /\ ab_mode (e_encodation e') /\ e_encodation e' <> e_encodation e /\
    e_new_mode e' = match et_latch_from_ascii (e_encodation e') with Some l => Some l | None => e_new_mode e end)).
Proof.
  unfold maybe_switch_mode. destruct (e_planned e) as [|[p0 m0] rest] eqn:EP; [discriminate|]. intros H AB.
  destruct (negb (p0 <=? chars_left e)); [discriminate|].
  apply Forall_cons_iff in AB. destruct AB as [AB0 ABr]. cbn [snd] in AB0.
  destruct ((0 <? chars_left e) && (chars_left e =? p0)) eqn:C.
  - destruct (negb (et_eqb m0 (e_encodation e))) eqn:SW.
    + assert (e_data e <> []) as ND.
      { apply andb_true_iff in C. destruct C as [C _]. apply N.ltb_lt in C. unfold chars_left in C. destruct (e_data e); [cbn in C; lia|discriminate]. }
      assert (m0 <> e_encodation e) as NE.
      { intros ->. apply negb_true_iff in SW. unfold et_eqb in SW. rewrite N.eqb_refl in SW. discriminate. }
      destruct (et_latch_from_ascii m0) as [l|] eqn:EL; inversion H; subst; cbn [e_data e_cw e_planned e_encodation e_new_mode];
        (split; [reflexivity|]); (split; [reflexivity|]); (split; [repeat split|]); (split; [exact ABr|]); right;
        rewrite EL; repeat split; assumption.
    + inversion H; subst; cbn [e_data e_cw e_planned e_encodation e_new_mode].
      split; [reflexivity|]. split; [reflexivity|]. split; [repeat split|]. split; [exact ABr|]. left. repeat split.
  - rewrite (proj2 (N.eqb_eq _ _) eq_refl : et_eqb (e_encodation e) (e_encodation e) = true) in H. cbn [negb] in H.
    inversion H; subst; cbn [e_data e_cw e_planned e_encodation e_new_mode].
    split; [reflexivity|]. split; [reflexivity|]. split; [repeat split|]. split; [constructor; assumption|]. left. repeat split.
Qed.

Lemma bytes_ok_cons a l : bytes_ok (a :: l) = true <-> a < 256 /\ bytes_ok l = true.
Proof. unfold bytes_ok. cbn [forallb]. rewrite andb_true_iff, N.ltb_lt. reflexivity. Qed.

Lemma bytes_ok_app a b : bytes_ok (a ++ b) = true <-> bytes_ok a = true /\ bytes_ok b = true.
Proof. unfold bytes_ok. rewrite forallb_app, andb_true_iff. reflexivity. Qed.

(* an ASCII run: up to the next planned switch, or to the end of the data *)
Lemma ascii_run : forall fuel e e', e_encodation e = Ascii -> bytes_ok (e_data e) = true -> ab_plan (e_planned e) ->
  ascii_encode fuel e = Ok e' ->
  exists items, forallb aitem_ok items = true /\ e_cw e' = e_cw e ++ flat_map aitem_cw items /\
    e_data e = flat_map aitem_data items ++ e_data e' /\ same_env e e' /\ ab_plan (e_planned e') /\
    ((e_encodation e' = Ascii /\ e_data e' = [] /\ e_new_mode e' = e_new_mode e) \/
     (e_encodation e' = Base256 /\ e_new_mode e' = Some 231 /\ e_data e' <> [])).
Proof.
  induction fuel as [|f IH]; intros e e' EA OK AB H; cbn [ascii_encode] in H; [discriminate|].
  destruct (maybe_switch_mode e) as [[sw e1]| |] eqn:MS; cbn [bind] in H; try discriminate.
  destruct (msm_cases e sw e1 MS AB) as (D1 & C1 & EV1 & AB1 & CASE).
  destruct CASE as [(-> & EN1 & NM1)|(-> & ND & ABM & NE & NM1)].
  - (* no switch: one item *)
    assert (forall e2 it, aitem_ok it = true -> e_cw e2 = e_cw e1 ++ aitem_cw it -> e_data e1 = aitem_data it ++ e_data e2 ->
              same_env e1 e2 -> e_planned e2 = e_planned e1 -> e_encodation e2 = Ascii -> e_new_mode e2 = e_new_mode e1 ->
              ascii_encode f e2 = Ok e' -> exists items, forallb aitem_ok items = true /\ e_cw e' = e_cw e ++ flat_map aitem_cw items /\
                e_data e = flat_map aitem_data items ++ e_data e' /\ same_env e e' /\ ab_plan (e_planned e') /\
                ((e_encodation e' = Ascii /\ e_data e' = [] /\ e_new_mode e' = e_new_mode e) \/
                 (e_encodation e' = Base256 /\ e_new_mode e' = Some 231 /\ e_data e' <> []))) as STEP.
    { intros e2 it OKI CW2 DA2 EV2 PL2 EA2 NM2 H2.
      assert (bytes_ok (e_data e2) = true) as OK2.
      { rewrite <- D1, DA2 in OK. apply bytes_ok_app in OK. apply OK. }
      destruct (IH e2 e' EA2 OK2 ltac:(rewrite PL2; exact AB1) H2) as (items & I1 & I2 & I3 & I4 & I5 & I6).
      exists (it :: items). cbn [forallb flat_map]. rewrite OKI, I1. split; [reflexivity|].
      split; [rewrite I2, CW2, C1, <- app_assoc; reflexivity|].
      split; [rewrite <- D1, DA2, I3, <- app_assoc; reflexivity|].
      split; [exact (same_env_trans _ _ _ EV1 (same_env_trans _ _ _ EV2 I4))|]. split; [exact I5|].
      rewrite NM2, NM1 in I6. exact I6. }
    rewrite <- D1 in OK.
    destruct (e_data e1) as [|a [|b t]] eqn:ED.
    + inversion H; subst e'. exists []. cbn [forallb flat_map app]. rewrite app_nil_r.
      split; [reflexivity|]. split; [exact C1|]. split; [rewrite ED; symmetry; exact D1|]. split; [exact EV1|]. split; [exact AB1|].
      left. rewrite EN1, NM1. repeat split; [exact EA|exact ED].
    + apply bytes_ok_cons in OK. destruct OK as [Ba _].
      destruct (N.leb_spec a 127) as [LE|GT].
      * refine (STEP _ (AChar a) _ _ _ _ _ _ _ H); [cbn; apply N.ltb_lt; lia|reflexivity|reflexivity|repeat split|reflexivity|cbn; rewrite EN1; exact EA|reflexivity].
      * refine (STEP _ (AUpper a) _ _ _ _ _ _ _ H); [cbn; apply andb_true_iff; split; [apply N.leb_le; lia|apply N.ltb_lt; exact Ba]| |reflexivity|repeat split|reflexivity|cbn; rewrite EN1; exact EA|reflexivity].
        cbn [push set_cw e_cw set_data aitem_cw]. rewrite <- app_assoc. cbn [app]. replace (a - 128 + 1) with (a - 127) by lia. reflexivity.
    + apply bytes_ok_cons in OK. destruct OK as [Ba OKb].
      destruct (is_digit a && is_digit b) eqn:DG.
      * refine (STEP _ (APair a b) _ _ _ _ _ _ _ H); [cbn; unfold is_digit in DG; unfold is_dig; exact DG| |reflexivity|repeat split|reflexivity|cbn; rewrite EN1; exact EA|reflexivity].
        cbn [push set_cw e_cw set_data aitem_cw]. f_equal. f_equal. lia.
      * destruct (N.leb_spec a 127) as [LE|GT].
        -- refine (STEP _ (AChar a) _ _ _ _ _ _ _ H); [cbn; apply N.ltb_lt; lia|reflexivity|reflexivity|repeat split|reflexivity|cbn; rewrite EN1; exact EA|reflexivity].
        -- refine (STEP _ (AUpper a) _ _ _ _ _ _ _ H); [cbn; apply andb_true_iff; split; [apply N.leb_le; lia|apply N.ltb_lt; exact Ba]| |reflexivity|repeat split|reflexivity|cbn; rewrite EN1; exact EA|reflexivity].
           cbn [push set_cw e_cw set_data aitem_cw]. rewrite <- app_assoc. cbn [app]. replace (a - 128 + 1) with (a - 127) by lia. reflexivity.
  - (* switch *)
    inversion H; subst e'. exists []. cbn [forallb flat_map]. rewrite app_nil_r.
    split; [reflexivity|]. split; [exact C1|]. split; [symmetry; exact D1|]. split; [exact EV1|]. split; [exact AB1|].
    right. destruct ABM as [A|B]; [rewrite A, EA in NE; contradiction|].
    rewrite B in NM1. cbn in NM1. split; [exact B|]. split; [exact NM1|]. rewrite D1. exact ND.
Qed.

(* ---- Base256: writing the length field of a run anywhere in the stream ---- *)
Lemma set_nth_app pre x post v : set_nth_N (pre ++ x :: post) (length pre) v = Ok (pre ++ v :: post).
Proof. induction pre as [|p r IH]; cbn [app length set_nth_N]; [reflexivity|]. rewrite IH. reflexivity. Qed.

Lemma finish_write_gen (e : enc) pre m : forall cw dw start, cw = pre ++ m -> dw = length m -> start = length pre ->
  (if (length cw <? start + dw)%nat then Panic PIndex else
   Ok (set_cw e (firstn start cw ++
                 map (fun ic : nat * N => randomize_255_state (snd ic) (N.of_nat (start + fst ic + 1)))
                     (combine (seq 0 dw) (firstn dw (skipn start cw))) ++ skipn (start + dw) cw)))
  = (Ok (set_cw e (pre ++ rand255_run m (N.of_nat (length pre) + 1))) : ER enc).
Proof.
  intros cw dw start -> -> ->. rewrite app_length. rewrite Nat.ltb_irrefl.
  rewrite firstn_app, Nat.sub_diag, firstn_all. cbn [firstn]. rewrite app_nil_r.
  rewrite skipn_app, Nat.sub_diag, skipn_all. cbn [skipn app].
  rewrite firstn_all. rewrite <- (app_length pre m), skipn_all, app_nil_r.
  pose proof (randomize_run m 0 (length pre)) as R. rewrite R.
  replace (N.of_nat (length pre + 0 + 1)) with (N.of_nat (length pre) + 1) by lia. reflexivity.
Qed.

Lemma write_length_gen e pre d e' : e_cw e = pre ++ 0 :: d -> d <> [] -> b256_write_length e (length pre) = Ok e' ->
  exists s, symbol_for e 0 = Some s /\ e' = set_cw e (e_cw e') /\
    (((has_more e = true \/ cw_len e < num_data_codewords s) /\ N.of_nat (length d) <= 1555 /\
      e_cw e' = pre ++ rand255_run (len_field (N.of_nat (length d)) ++ d) (N.of_nat (length pre) + 1)) \/
     (has_more e = false /\ cw_len e = num_data_codewords s /\ e_cw e' = pre ++ rand255_run (0 :: d) (N.of_nat (length pre) + 1))).
Proof.
  intros EC ND. unfold b256_write_length, ssl, symbol_size_left.
  destruct (symbol_for e 0) as [s|] eqn:SF; cbn [bind]; [|discriminate].
  assert (cw_len e <= num_data_codewords s) as FIT.
  { unfold symbol_for in SF. apply first_fit_In in SF. rewrite N.add_0_r in SF. apply SF. }
  rewrite N.add_0_r. rewrite EC. rewrite app_length. cbn [length].
  destruct (Nat.ltb_spec (length pre + S (length d)) (length pre)); [lia|].
  replace (length pre + S (length d) - length pre)%nat with (S (length d)) by lia.
  assert (cw_len e = N.of_nat (length pre) + N.of_nat (length d) + 1) as CL by (unfold cw_len; rewrite EC, app_length; cbn [length]; lia).
  set (n := N.of_nat (length d)) in *.
  assert (1 <= n) as N1 by (unfold n; destruct d; [congruence|cbn [length]; lia]).
  destruct (has_more e || (0 <? num_data_codewords s - cw_len e)) eqn:EXPL.
  - cbn [Nat.eqb]. replace (S (length d) - 1)%nat with (length d) by lia. fold n.
    assert (has_more e = true \/ cw_len e < num_data_codewords s) as WHY.
    { apply orb_true_iff in EXPL. destruct EXPL as [A|B]; [now left|right; apply N.ltb_lt in B; lia]. }
    unfold len_field. destruct (N.leb_spec n 249) as [S1|S1].
    + destruct (N.ltb_spec n 250); [|lia]. rewrite set_nth_app. cbn [bind].
      rewrite (finish_write_gen e pre (n :: d)); [|reflexivity|reflexivity|reflexivity].
      intros [= <-]. exists s. split; [reflexivity|]. split; [reflexivity|]. left.
      split; [exact WHY|]. split; [lia|]. reflexivity.
    + destruct (N.ltb_spec n 250); [lia|]. destruct (N.leb_spec n 1555) as [S2|S2]; [|discriminate].
      rewrite set_nth_app. cbn [bind]. rewrite app_length. cbn [length].
      destruct (Nat.ltb_spec (length pre + S (length d)) (length pre + 1)); [lia|].
      cbn [bind].
      assert (firstn (length pre + 1) (pre ++ n / 250 + 249 :: d) ++ [n mod 250] ++ skipn (length pre + 1) (pre ++ n / 250 + 249 :: d)
              = pre ++ n / 250 + 249 :: n mod 250 :: d) as ->.
      { rewrite firstn_app, firstn_all2 by lia. replace (length pre + 1 - length pre)%nat with 1%nat by lia. cbn [firstn].
        rewrite skipn_app, skipn_all2 by lia. replace (length pre + 1 - length pre)%nat with 1%nat by lia. cbn [skipn app].
        rewrite <- app_assoc. reflexivity. }
      rewrite (finish_write_gen e pre (n / 250 + 249 :: n mod 250 :: d)); [|reflexivity|reflexivity|reflexivity].
      intros [= <-]. exists s. split; [reflexivity|]. split; [reflexivity|]. left.
      split; [exact WHY|]. split; [lia|]. reflexivity.
  - apply orb_false_iff in EXPL. destruct EXPL as [HM SP]. apply N.ltb_ge in SP.
    cbn [bind]. rewrite (finish_write_gen e pre (0 :: d)); [|reflexivity|reflexivity|reflexivity].
    intros [= <-]. exists s. split; [reflexivity|]. split; [reflexivity|]. right. split; [exact HM|]. split; [lia|reflexivity].
Qed.

(* the copy loop of a Base256 run: up to the next planned switch, or to the end of the data *)
Lemma b256_loop_run : forall fuel e start e', e_encodation e = Base256 -> ab_plan (e_planned e) ->
  b256_loop fuel e start = Ok e' ->
  exists run ew e2, e_data e = run ++ e_data ew /\ e_cw ew = e_cw e ++ run /\ same_env e ew /\ ab_plan (e_planned ew) /\
    e_new_mode ew = e_new_mode e /\ (run <> [] \/ e_data e = []) /\
    ((e_data ew = [] /\ e_encodation ew = Base256) \/ (e_data ew <> [] /\ e_encodation ew = Ascii)) /\
    b256_write_length ew start = Ok e2 /\ e' = (if negb (has_more e2) then set_ascii_until_end e2 else e2).
Proof.
  induction fuel as [|f IH]; intros e start e' EB AB H; cbn [b256_loop] in H; [discriminate|].
  destruct (e_data e) as [|ch t] eqn:ED.
  - unfold eat in H. rewrite ED in H. unfold has_more at 1 in H. rewrite ED in H. cbn [negb] in H.
    destruct (b256_write_length e start) as [e2| |] eqn:WL; cbn [bind] in H; try discriminate. inversion H; subst e'.
    exists [], e, e2. rewrite app_nil_r. cbn [app]. split; [symmetry; exact ED|]. split; [reflexivity|]. split; [repeat split|].
    split; [exact AB|]. split; [reflexivity|]. split; [now right|]. split; [left; split; [exact ED|exact EB]|]. split; [exact WL|reflexivity].
  - unfold eat in H. rewrite ED in H. set (e1 := push (set_data e t) ch) in *.
    assert (e_cw e1 = e_cw e ++ [ch]) as C1 by reflexivity.
    destruct t as [|c2 t2].
    + unfold has_more at 1 in H. cbn [e_data e1 push set_cw set_data negb] in H.
      destruct (b256_write_length e1 start) as [e2| |] eqn:WL; cbn [bind] in H; try discriminate. inversion H; subst e'.
      exists [ch], e1, e2. repeat split; try assumption; try reflexivity.
      * left. discriminate.
      * left. split; [reflexivity|exact EB].
    + unfold has_more at 1 in H. cbn [e_data e1 push set_cw set_data negb] in H.
      destruct (maybe_switch_mode e1) as [[sw e2]| |] eqn:MS; cbn [bind] in H; try discriminate.
      destruct (msm_cases e1 sw e2 MS AB) as (D2 & C2 & EV2 & AB2 & CASE).
      destruct CASE as [(-> & EN2 & NM2)|(-> & ND & ABM & NE & NM2)].
      * destruct (IH e2 start e' ltac:(rewrite EN2; exact EB) AB2 H) as (run & ew & e3 & R1 & R2 & R3 & R4 & R5 & R6 & R7 & R8 & R9).
        exists (ch :: run), ew, e3. rewrite D2 in R1. cbn [e_data e1 push set_cw set_data] in R1.
        split; [cbn [app]; rewrite <- R1; reflexivity|]. split; [rewrite R2, C2, C1, <- app_assoc; reflexivity|].
        split; [exact (same_env_trans _ _ _ (same_env_trans e e1 e2 ltac:(repeat split) EV2) R3)|]. split; [exact R4|].
        split; [rewrite R5, NM2; reflexivity|]. split; [left; discriminate|]. split; [exact R7|]. split; [exact R8|exact R9].
      * destruct (b256_write_length e2 start) as [e3| |] eqn:WL; cbn [bind] in H; try discriminate. inversion H; subst e'.
        exists [ch], e2, e3. split; [rewrite D2; reflexivity|]. split; [rewrite C2, C1; reflexivity|].
        split; [exact (same_env_trans e e1 e2 ltac:(repeat split) EV2)|]. split; [exact AB2|].
        assert (e_encodation e2 = Ascii) as EA2.
        { destruct ABM as [A|B]; [exact A|]. exfalso. apply NE. rewrite B. symmetry. exact EB. }
        split; [rewrite NM2, EA2; reflexivity|]. split; [left; discriminate|].
        split; [right; split; [rewrite D2; discriminate|exact EA2]|]. split; [exact WL|reflexivity].
Qed.

(* ---- the main loop under any ASCII / Base256 plan ---- *)
Definition seg_ab (s : segment) : Prop :=
  match s with SAscii items => forallb aitem_ok items = true | SB256 run => segment_ok (SB256 run) = true | _ => False end.

Lemma render_app : forall l1 l2 b, render b (l1 ++ l2) = render b l1 ++ render (b + N.of_nat (length (render b l1))) l2.
Proof.
  induction l1 as [|s r IH]; intros l2 b; cbn [app render length]; [rewrite N.add_0_r; reflexivity|]. cbv zeta.
  rewrite IH, <- app_assoc, app_length, Nat2N.inj_add, N.add_assoc. reflexivity.
Qed.

Lemma render_snoc b segs s : render b (segs ++ [s]) = render b segs ++ segment_cw (b + N.of_nat (length (render b segs))) s.
Proof. rewrite render_app. cbn [render]. cbv zeta. rewrite app_nil_r. reflexivity. Qed.

Lemma meaning_snoc segs s : meaning (segs ++ [s]) = meaning segs ++ segment_data s.
Proof. unfold meaning. rewrite flat_map_app. cbn [flat_map]. rewrite app_nil_r. reflexivity. Qed.

Definition G (pre data : list N) (e : enc) (segs : list segment) : Prop :=
  e_cw e = pre ++ render (N.of_nat (length pre)) segs /\ meaning segs ++ e_data e = data /\ Forall seg_ab segs /\ ab_plan (e_planned e) /\
  ((e_encodation e = Ascii /\ e_new_mode e = None) \/ (e_encodation e = Base256 /\ e_new_mode e = Some 231 /\ e_data e <> [])).

(* what the loop ends with: ASCII runs and explicit Base256 fields, or the same followed by one field to the end of
   the symbol, which then is full *)
Definition finished (pre data : list N) (e : enc) (segs : list segment) : Prop :=
  e_cw e = pre ++ render (N.of_nat (length pre)) segs /\ meaning segs = data /\ e_data e = [] /\ e_encodation e = Ascii /\
  (Forall seg_ab segs \/
   exists init run s, segs = init ++ [SB256End run] /\ Forall seg_ab init /\
     symbol_for e 0 = Some s /\ cw_len e = num_data_codewords s).

Lemma has_more_nil e : e_data e = [] -> has_more e = false.
Proof. unfold has_more. intros ->. reflexivity. Qed.
Lemma has_more_cons e : e_data e <> [] -> has_more e = true.
Proof. unfold has_more. destruct (e_data e); [congruence|reflexivity]. Qed.

Lemma main_loop_ab pre data : bytes_ok data = true -> forall fuel e nwr segs e', G pre data e segs ->
  main_loop fuel e nwr = Ok e' -> exists segs', finished pre data e' segs' /\ e_symbols e' = e_symbols e.
Proof.
  intros OKD. induction fuel as [|f IH]; intros e nwr segs e' (GC & GM & GS & GP & GE) H; cbn [main_loop] in H; [discriminate|].
  destruct (has_more e) eqn:HM0; cbn [negb] in H.
  2:{ (* done *)
    assert (e_data e = []) as ED by (unfold has_more in HM0; destruct (e_data e); [reflexivity|discriminate]).
    inversion H; subst e'. exists segs. split; [|reflexivity].
    rewrite ED, app_nil_r in GM. destruct GE as [(EA & _)|(_ & _ & ND)]; [|congruence].
    repeat split; try assumption. now left. }
  assert (e_data e <> []) as ND by (unfold has_more in HM0; destruct (e_data e); [discriminate|discriminate]).
  assert (bytes_ok (e_data e) = true) as OKE.
  { rewrite <- GM in OKD. apply bytes_ok_app in OKD. apply OKD. }
    (* the recursive call, whatever the no-progress counter *)
    assert (forall e1 segs1, G pre data e1 segs1 -> e_symbols e1 = e_symbols e -> (exists n1, main_loop f e1 n1 = Ok e') ->
              exists segs', finished pre data e' segs' /\ e_symbols e' = e_symbols e) as REC.
    { intros e1 segs1 G1 ES1 (n1 & M1). destruct (IH e1 n1 segs1 e' G1 M1) as (segs' & F & ES). exists segs'. split; [exact F|congruence]. }
    assert (forall (e1 : enc) (len : nat) (X : ER enc), X = Ok e' ->
              (X = (if (length (e_cw e1) <? len)%nat then Panic POverflow else
                   if (length (e_cw e1) - len <=? 1)%nat then (if 5 <? nwr + 1 then Panic PAssert else main_loop f e1 (nwr + 1)) else main_loop f e1 0)) ->
              exists n1, main_loop f e1 n1 = Ok e') as TAIL.
    { intros e1 len X HX EX. rewrite EX in HX. destruct (length (e_cw e1) <? len)%nat; [discriminate|].
      destruct (length (e_cw e1) - len <=? 1)%nat; [destruct (5 <? nwr + 1); [discriminate|]|]; eexists; exact HX. }
    destruct GE as [(EA & NM)|(EB & NM & _)].
    - (* an ASCII run *)
      rewrite NM in H. unfold mode_encode in H. rewrite EA in H.
      destruct (ascii_encode (S (S (length (e_data e)))) e) as [e1| |] eqn:AE; cbn [bind] in H; try discriminate.
      destruct (ascii_run _ e e1 EA OKE GP AE) as (items & I1 & I2 & I3 & (_ & _ & I4) & I5 & I6).
      apply (REC e1 (segs ++ [SAscii items])); [|exact I4|exact (TAIL e1 _ _ H eq_refl)].
      split; [rewrite I2, GC, render_snoc, <- app_assoc; reflexivity|]. split; [rewrite meaning_snoc; cbn [segment_data]; rewrite <- app_assoc, <- I3; exact GM|].
      split; [apply Forall_app; split; [exact GS|constructor; [exact I1|constructor]]|]. split; [exact I5|].
      destruct I6 as [(A & B & C)|(A & B & C)]; [left; split; [exact A|rewrite C; exact NM]|right; repeat split; assumption].
    - (* a Base256 field *)
      rewrite NM in H. set (el := push (mkenc (e_data e) (e_input e) (e_encodation e) (e_planned e) None (e_cw e) (e_modes e) (e_symbols e)) 231) in *.
      unfold mode_encode in H. cbn [e_encodation el push set_cw] in H. rewrite EB in H. unfold base256_encode in H.
      destruct (b256_loop _ (push el 0) (length (e_cw el))) as [e1| |] eqn:BL; cbn [bind] in H; try discriminate.
      destruct (b256_loop_run _ (push el 0) _ e1 EB GP BL) as (run & ew & e2 & R1 & R2 & (_ & _ & R3) & R4 & R5 & R6 & R7 & R8 & R9).
      cbn [e_data el push set_cw e_cw e_new_mode e_symbols] in R1, R2, R3, R5, R6.
      assert (run <> []) as RN by (destruct R6 as [A|B]; [exact A|congruence]).
      assert (e_cw ew = (e_cw e ++ [231]) ++ 0 :: run) as CW by (rewrite R2, <- !app_assoc; reflexivity).
      assert (length (e_cw el) = length (e_cw e ++ [231])) as LS by reflexivity. rewrite LS in R8.
      destruct (write_length_gen ew (e_cw e ++ [231]) run e2 CW RN R8) as (s & SF & E2 & CASES).
      assert (N.of_nat (length (e_cw e ++ [231])) + 1 = N.of_nat (length pre) + N.of_nat (length (render (N.of_nat (length pre)) segs)) + 2) as POS
        by (rewrite app_length, GC, app_length; cbn [length]; lia).
      assert (has_more e2 = has_more ew) as HM2 by (rewrite E2; reflexivity).
      assert (bytes_ok run = true) as OKR by (rewrite R1 in OKE; apply bytes_ok_app in OKE; apply OKE).
      destruct CASES as [(WHY & LE & C2)|(HM & FULL & C2)].
      + (* explicit length *)
        assert (G pre data e1 (segs ++ [SB256 run])) as G1.
        { assert (e_cw e2 = pre ++ render (N.of_nat (length pre)) (segs ++ [SB256 run])) as CR.
          { rewrite render_snoc, C2, POS, GC, <- !app_assoc. reflexivity. }
          assert (meaning (segs ++ [SB256 run]) ++ e_data ew = data) as MR.
          { rewrite meaning_snoc. cbn [segment_data]. rewrite <- app_assoc, <- R1. exact GM. }
          assert (Forall seg_ab (segs ++ [SB256 run])) as FR.
          { apply Forall_app. split; [exact GS|]. constructor; [|constructor]. cbn [seg_ab segment_ok]. rewrite OKR. cbn [andb].
            apply andb_true_iff. split; [apply N.leb_le; destruct run; [congruence|cbn [length]; lia]|apply N.leb_le; exact LE]. }
          rewrite R9, HM2. destruct R7 as [(DE & _)|(DN & EAw)].
          * rewrite (has_more_nil ew DE). cbn [negb]. split; [exact CR|]. split; [cbn [e_data set_ascii_until_end]; rewrite E2; cbn [e_data set_cw]; exact MR|].
            split; [exact FR|]. split; [constructor; [now left|constructor]|]. left. split; [reflexivity|].
            cbn [e_new_mode set_ascii_until_end]. rewrite E2. cbn [e_new_mode set_cw]. exact R5.
          * rewrite (has_more_cons ew DN). cbn [negb]. split; [exact CR|]. split; [rewrite E2; cbn [e_data set_cw]; exact MR|].
            split; [exact FR|]. split; [rewrite E2; exact R4|]. left. rewrite E2. cbn [e_encodation e_new_mode set_cw]. split; [exact EAw|exact R5]. }
        apply (REC e1 _ G1); [|exact (TAIL e1 _ _ H eq_refl)].
        rewrite R9. destruct (negb (has_more e2)); cbn [e_symbols set_ascii_until_end]; rewrite E2; exact R3.
      + (* the field runs to the end of the symbol, which is full *)
        assert (e_data ew = []) as DE by (unfold has_more in HM; destruct (e_data ew); [reflexivity|discriminate]).
        rewrite R9, HM2, HM in *. cbn [negb] in *.
        destruct (TAIL _ _ _ H eq_refl) as (n1 & M1). destruct f as [|f']; cbn [main_loop] in M1; [discriminate|].
        rewrite (has_more_nil (set_ascii_until_end e2)) in M1 by (cbn [e_data set_ascii_until_end]; rewrite E2; exact DE).
        cbn [negb] in M1. inversion M1; subst e'. exists (segs ++ [SB256End run]). split.
        * split; [cbn [e_cw set_ascii_until_end]; rewrite render_snoc, C2, POS, GC, <- !app_assoc; reflexivity|].
           split; [rewrite meaning_snoc; cbn [segment_data]; rewrite R1, DE, app_nil_r in GM; exact GM|].
           split; [cbn [e_data set_ascii_until_end]; rewrite E2; exact DE|]. split; [reflexivity|]. right.
           exists segs, run, s. split; [reflexivity|]. split; [exact GS|].
           assert (cw_len (set_ascii_until_end e2) = cw_len ew) as CLE.
           { unfold cw_len. cbn [e_cw set_ascii_until_end]. rewrite C2, CW, !app_length, rand255_run_length. reflexivity. }
           unfold symbol_for in *. cbn [e_symbols set_ascii_until_end]. rewrite CLE. rewrite E2. cbn [e_symbols set_cw]. split; [exact SF|exact FULL].
        * cbn [e_symbols set_ascii_until_end]. rewrite E2. exact R3.
Qed.

(* ---- legality of the scripts, and the theorem ---- *)
Lemma script_ok_ab segs npad : Forall seg_ab segs -> script_ok segs npad = true.
Proof.
  induction 1 as [|s r Hs Hr IH]; [reflexivity|]. destruct s; try contradiction; cbn [script_ok term_of]; cbn [seg_ab] in Hs.
  - cbn [segment_ok]. rewrite Hs, IH. reflexivity.
  - rewrite Hs, IH. reflexivity.
Qed.

Lemma script_ok_ab_end init run : Forall seg_ab init -> bytes_ok run = true -> script_ok (init ++ [SB256End run]) 0 = true.
Proof.
  induction 1 as [|s r Hs Hr IH]; intros OK; [cbn [app script_ok segment_ok]; rewrite OK; reflexivity|].
  destruct s; try contradiction; cbn [app script_ok term_of]; cbn [seg_ab] in Hs.
  - cbn [segment_ok]. rewrite Hs, (IH OK). reflexivity.
  - rewrite Hs, (IH OK). reflexivity.
Qed.

Definition ab_seg (s : segment) : Prop := match s with SAscii _ | SB256 _ | SB256End _ => True | _ => False end.
Lemma seg_ab_ab_seg l : Forall seg_ab l -> Forall ab_seg l.
Proof. apply Forall_impl. intros s. destruct s; cbn; auto. Qed.

Section ABPlans.
Variable optimize_fn : list N -> N -> list SymbolSize -> N -> PR (option (list (N * EncodationType))).
Variables (symbols : list SymbolSize) (modes : N).

(* `codewords` on a context whose codewords so far are `pre` (nothing, or the Macro / FNC1 header codeword) *)
Lemma codewords_ab (pre d inp : list N) cw s :
  (forall p, optimize_fn d (N.of_nat (length pre)) symbols modes = Ok (Some p) -> ab_plan p) -> bytes_ok d = true ->
  codewords optimize_fn (mkenc d inp Ascii [] None pre modes symbols) = Ok (cw, s) ->
  exists script npad, script_ok script npad = true /\ cw = pre ++ tailS (N.of_nat (length pre)) script npad /\ meaning script = d /\ Forall ab_seg script.
Proof.
  intros plans_ab OK. unfold codewords.
  cbn [e_symbols e_data e_modes e_input e_encodation e_new_mode e_cw].
  destruct symbols as [|s0 sr] eqn:ES; [discriminate|]. rewrite <- ES in *.
  destruct (_ <? _); [discriminate|]. destruct (upper_limit_for_number_of_codewords _ _); [|discriminate].
  change (cw_len (mkenc d inp Ascii [] None pre modes symbols)) with (N.of_nat (length pre)).
  destruct (optimize_fn d (N.of_nat (length pre)) symbols modes) as [p| |] eqn:EO; cbn [bind lift]; try discriminate.
  destruct p as [p|]; [|discriminate]. pose proof (plans_ab p eq_refl) as PA.
  destruct (main_loop _ _ 0) as [e3| |] eqn:ML; cbn [bind]; try discriminate.
  destruct (symbol_for e3 0) as [s'|] eqn:FF; [|discriminate].
  destruct (add_padding e3 s') as [e4| |] eqn:AP; cbn [bind]; try discriminate. intros [= <- <-].
  apply add_padding_spec in AP. destruct AP as (L & C4 & _).
  destruct (main_loop_ab pre d OK (6 * length d + 12)%nat (mkenc d inp Ascii p None pre modes symbols) 0 [] e3)
    as (segs & (FC & FM & FD & FA & FE) & _); [|exact ML|].
  { split; [cbn [e_cw render]; rewrite app_nil_r; reflexivity|]. split; [reflexivity|]. split; [constructor|]. split; [exact PA|]. left. split; reflexivity. }
  rewrite FA in C4. rewrite (proj2 (N.eqb_eq _ _) eq_refl : et_eqb Ascii Ascii = true) in C4. rewrite padding_pad in C4.
  exists segs, (N.to_nat (num_data_codewords s' - cw_len e3)). split; [|split; [|split; [exact FM|]]].
  3:{ destruct FE as [AB|(init & run & sx & -> & AB & _)]; [apply seg_ab_ab_seg; exact AB|].
      apply Forall_app. split; [apply seg_ab_ab_seg; exact AB|constructor; [exact I|constructor]]. }
  - destruct FE as [AB|(init & run & sx & -> & AB & SF & FULL)]; [apply script_ok_ab; exact AB|].
    rewrite SF in FF. inversion FF; subst sx. rewrite FULL, N.sub_diag. apply script_ok_ab_end; [exact AB|].
    rewrite <- FM in OK. unfold meaning in OK. rewrite flat_map_app in OK. apply bytes_ok_app in OK. destruct OK as [_ OK].
    cbn [flat_map segment_data] in OK. rewrite app_nil_r in OK. exact OK.
  - rewrite C4, FC. unfold tailS, cw_len. cbv zeta. rewrite FC, <- app_assoc, app_length, Nat2N.inj_add. reflexivity.
Qed.

Variable data : list N.
Hypothesis plans_ab : forall p, optimize_fn data 0 symbols modes = Ok (Some p) -> ab_plan p.

Theorem ab_plan_roundtrip cw s : bytes_ok data = true ->
  encode_data_internal optimize_fn data symbols None modes false false = Ok (cw, s) ->
  (exists script npad, script_ok script npad = true /\ cw = stream script npad /\ meaning script = data /\ Forall ab_seg script) /\
  decode_data cw = Ok data.
Proof.
  intros OK H.
  assert (exists script npad, script_ok script npad = true /\ cw = stream script npad /\ meaning script = data /\ Forall ab_seg script) as (script & npad & SO & CW & ME & SH).
  2:{ split; [exists script, npad; auto|]. rewrite CW, (decode_script _ _ SO), ME. reflexivity. }
  revert H. unfold encode_data_internal. cbv zeta. cbn [bind]. intros H.
  destruct (codewords_ab [] data data cw s plans_ab OK H) as (script & npad & SO & CW & ME & SH).
  exists script, npad. split; [exact SO|split; [|split; [exact ME|exact SH]]]. rewrite CW. unfold stream, tailS. cbn [app length]. rewrite N.add_0_l. reflexivity.
Qed.
End ABPlans.

Lemma ab_plans_of_modes sorter symbols modes d w :
  (forall k l l', sorter symbols k l = Ok l' -> incl l' l) -> (forall m, enabled modes m = true -> ab_mode m) ->
  forall p, optimize_fn sorter d w symbols modes = Ok (Some p) -> ab_plan p.
Proof.
  intros HS HM p. unfold optimize_fn. destruct (optimize symbols (sorter symbols) d w Ascii modes) as [[r st]| |] eqn:EO; cbn [bind]; try discriminate.
  intros [= ->]. destruct (optimize_shape symbols (sorter symbols) HS d w Ascii modes p st EO) as (_ & M & _).
  unfold ab_plan. apply Forall_forall. intros x Hx. unfold modes_ok in M. rewrite Forall_forall in M. apply HM. exact (M x Hx).
Qed.

(* with the crate's optimiser: any mode set within {ASCII, Base256} -- that is the sets {ASCII}, {Base256} and
   {ASCII, Base256} -- any admissible sort; the plan is not characterised at all, only its modes are (C13) *)
Theorem ab_modes_roundtrip sorter data symbols modes cw s :
  (forall k l l', sorter symbols k l = Ok l' -> incl l' l) ->
  (forall m, enabled modes m = true -> ab_mode m) -> bytes_ok data = true ->
  encode_data_internal (optimize_fn sorter) data symbols None modes false false = Ok (cw, s) ->
  (exists script npad, script_ok script npad = true /\ cw = stream script npad /\ meaning script = data /\ Forall ab_seg script) /\
  decode_data cw = Ok data.
Proof.
  intros HS HM OK H. apply (ab_plan_roundtrip (optimize_fn sorter) symbols modes data) with (s := s); [|exact OK|exact H].
  apply ab_plans_of_modes; assumption.
Qed.

Lemma ab_modes_33 m : enabled 33 m = true -> ab_mode m.
Proof. destruct m; cbn; intros H; try discriminate; [now left|now right]. Qed.

Theorem ascii_base256_roundtrip sorter data symbols cw s :
  (forall k l l', sorter symbols k l = Ok l' -> incl l' l) -> bytes_ok data = true ->
  encode_data_internal (optimize_fn sorter) data symbols None 33 false false = Ok (cw, s) ->
  (exists script npad, script_ok script npad = true /\ cw = stream script npad /\ meaning script = data /\ Forall ab_seg script) /\
  decode_data cw = Ok data.
Proof. intros HS. apply ab_modes_roundtrip; [exact HS|exact ab_modes_33]. Qed.

(* ---- the same with a Macro 05 / 06 envelope or an FNC1 start: one header codeword, then the body under any ASCII / Base256 plan ---- *)
Theorem macro_ab_roundtrip sorter data symbols modes body m head cw s :
  (forall k l l', sorter symbols k l = Ok l' -> incl l' l) ->
  (forall m, enabled modes m = true -> ab_mode m) -> bytes_ok body = true ->
  (m = MACRO05 /\ head = MACRO05_HEAD) \/ (m = MACRO06 /\ head = MACRO06_HEAD) ->
  data = head ++ body ++ MACRO_TRAIL ->
  encode_data_internal (optimize_fn sorter) data symbols None modes true false = Ok (cw, s) ->
  (exists script npad, script_ok script npad = true /\ cw = stream_with m script npad /\ meaning script = body /\ Forall ab_seg script) /\
  decode_data cw = Ok data.
Proof.
  intros HS HMo OK HM HD H.
  assert (exists script npad, script_ok script npad = true /\ cw = stream_with m script npad /\ meaning script = body /\ Forall ab_seg script) as (script & npad & SO & CW & ME & SH).
  2:{ split; [exists script, npad; auto|]. rewrite CW, (decode_script_macro _ _ m head HM SO), ME, HD. reflexivity. }
  revert H. unfold encode_data_internal. cbv zeta.
  set (e0 := with_size data symbols modes false).
  destruct (use_macro_spec e0) as (e1 & UM & M5 & M6 & _). rewrite UM. cbn [bind].
  assert (e1 = strip_to e0 body m) as ->.
  { destruct HM as [[-> ->]|[-> ->]]; [apply M5|apply M6]; try reflexivity; unfold enveloped; exact HD. }
  unfold strip_to, e0, with_size. cbn [e_encodation e_planned e_new_mode e_cw e_modes e_symbols app]. intros H.
  destruct (codewords_ab (optimize_fn sorter) symbols modes [m] body body cw s (ab_plans_of_modes sorter symbols modes body _ HS HMo) OK H) as (script & npad & SO & CW & ME & SH).
  exists script, npad. split; [exact SO|split; [exact CW|split; [exact ME|exact SH]]].
Qed.

Theorem fnc1_ab_roundtrip sorter data symbols modes use_macros cw s :
  (forall k l l', sorter symbols k l = Ok l' -> incl l' l) ->
  (forall m, enabled modes m = true -> ab_mode m) -> bytes_ok data = true ->
  encode_data_internal (optimize_fn sorter) data symbols None modes use_macros true = Ok (cw, s) ->
  (exists script npad, script_ok script npad = true /\ cw = stream_with ascii_FNC1 script npad /\ meaning script = data /\ Forall ab_seg script) /\
  decode_data cw = Ok data.
Proof.
  intros HS HMo OK H.
  assert (exists script npad, script_ok script npad = true /\ cw = stream_with ascii_FNC1 script npad /\ meaning script = data /\ Forall ab_seg script) as (script & npad & SO & CW & ME & SH).
  2:{ split; [exists script, npad; auto|]. rewrite CW, (decode_script_fnc1 _ _ SO), ME. reflexivity. }
  revert H. unfold encode_data_internal. cbv zeta.
  set (um := if use_macros then _ else _).
  assert (um = Ok (with_size data symbols modes true)) as -> by (unfold um; destruct use_macros; reflexivity).
  cbn [bind]. unfold with_size. intros H.
  destruct (codewords_ab (optimize_fn sorter) symbols modes [ascii_FNC1] data data cw s (ab_plans_of_modes sorter symbols modes data _ HS HMo) OK H) as (script & npad & SO & CW & ME & SH).
  exists script, npad. split; [exact SO|split; [exact CW|split; [exact ME|exact SH]]].
Qed.
