(* Proofs/EncAX.v -- the data layer for every plan that uses only ASCII and X12 (in particular: every plan the optimiser can
   return when only these two modes are enabled, C13): whatever the switch positions, if the encoder returns at all, its
   output is the rendering of a legal script of Spec/Stream16022.v -- ASCII runs and X12 runs of whole triples, each ended
   by an Unlatch, the last one possibly ending the symbol without Unlatch: nothing follows it and the symbol is full, or one
   ASCII-encoded codeword follows and fills the symbol -- followed by standard padding; hence (C04) the decoder returns the
   input.  The structure follows Proofs/EncAB.v. *)
From Coq Require Import Arith NArith List Bool Lia.
From DM Require Import Generated.Symbols Generated.ModeTables Model.Outcome Model.SymbolList Model.Planner Model.PlannerRun Model.Eci Model.Enc
  Model.Dec Model.Api Spec.Stream16022 Proofs.SymbolListProofs Proofs.EncLocal Proofs.EncTop Proofs.EncAscii
  Proofs.DecStream Proofs.DecStreamC40 Proofs.DecStreamEdi Proofs.DecScript Proofs.PlanShape Proofs.EncAB.
Import ListNotations.
Local Open Scope N_scope.

Definition ax_mode (m : EncodationType) : Prop := m = Ascii \/ m = X12.
Definition ax_plan (p : list (N * EncodationType)) : Prop := Forall (fun e => ax_mode (snd e)) p.

(* maybe_switch_mode: what can happen *)
Lemma msm_cases_ax e sw e' : maybe_switch_mode e = Ok (sw, e') -> ax_plan (e_planned e) ->
  e_data e' = e_data e /\ e_cw e' = e_cw e /\ same_env e e' /\ ax_plan (e_planned e') /\
  ((sw = false /\ e_encodation e' = e_encodation e /\ e_new_mode e' = e_new_mode e) \/
   (sw = true /\ e_data e <> [] /\ ax_mode (e_encodation e') /\ e_encodation e' <> e_encodation e /\
    e_new_mode e' = match et_latch_from_ascii (e_encodation e') with Some l => Some l | None => e_new_mode e end)).
Proof.
  unfold maybe_switch_mode. destruct (e_planned e) as [|[p0 m0] rest] eqn:EP; [discriminate|]. intros H AB.
  destruct (negb (p0 <=? chars_left e)); [discriminate|].
  apply Forall_cons_iff in AB. destruct AB as [AB0 ABr]. cbn [snd] in AB0.
  destruct ((0 <? chars_left e) && (chars_left e =? p0)) eqn:C.
  - destruct (negb (et_eqb m0 (e_encodation e))) eqn:SW.
    + assert (e_data e <> []) as ND.
      { apply andb_true_iff in C. destruct C as [C _]. apply N.ltb_lt in C. unfold chars_left in C. destruct (e_data e); [cbn in C; lia|discriminate]. }
      assert (m0 <> e_encodation e) as NE.
      { intros ->. apply negb_true_iff in SW. unfold et_eqb in SW. rewrite N.eqb_refl in SW. discriminate. }
      destruct (et_latch_from_ascii m0) as [l|] eqn:EL; inversion H; subst; cbn [e_data e_cw e_planned e_encodation e_new_mode];
        (split; [reflexivity|]); (split; [reflexivity|]); (split; [repeat split|]); (split; [exact ABr|]); right;
        rewrite EL; repeat split; assumption.
    + inversion H; subst; cbn [e_data e_cw e_planned e_encodation e_new_mode].
      split; [reflexivity|]. split; [reflexivity|]. split; [repeat split|]. split; [exact ABr|]. left. repeat split.
  - rewrite (proj2 (N.eqb_eq _ _) eq_refl : et_eqb (e_encodation e) (e_encodation e) = true) in H. cbn [negb] in H.
    inversion H; subst; cbn [e_data e_cw e_planned e_encodation e_new_mode].
    split; [reflexivity|]. split; [reflexivity|]. split; [repeat split|]. split; [constructor; assumption|]. left. repeat split.
Qed.

(* an ASCII run: up to the next planned switch, or to the end of the data *)
Lemma ascii_run_ax : forall fuel e e', e_encodation e = Ascii -> bytes_ok (e_data e) = true -> ax_plan (e_planned e) ->
  ascii_encode fuel e = Ok e' ->
  exists items, forallb aitem_ok items = true /\ e_cw e' = e_cw e ++ flat_map aitem_cw items /\
    e_data e = flat_map aitem_data items ++ e_data e' /\ same_env e e' /\ ax_plan (e_planned e') /\
    ((e_encodation e' = Ascii /\ e_data e' = [] /\ e_new_mode e' = e_new_mode e) \/
     (e_encodation e' = X12 /\ e_new_mode e' = Some 238 /\ e_data e' <> [])).
Proof.
  induction fuel as [|f IH]; intros e e' EA OK AB H; cbn [ascii_encode] in H; [discriminate|].
  destruct (maybe_switch_mode e) as [[sw e1]| |] eqn:MS; cbn [bind] in H; try discriminate.
  destruct (msm_cases_ax e sw e1 MS AB) as (D1 & C1 & EV1 & AB1 & CASE).
  destruct CASE as [(-> & EN1 & NM1)|(-> & ND & ABM & NE & NM1)].
  - (* no switch: one item *)
    assert (forall e2 it, aitem_ok it = true -> e_cw e2 = e_cw e1 ++ aitem_cw it -> e_data e1 = aitem_data it ++ e_data e2 ->
              same_env e1 e2 -> e_planned e2 = e_planned e1 -> e_encodation e2 = Ascii -> e_new_mode e2 = e_new_mode e1 ->
              ascii_encode f e2 = Ok e' -> exists items, forallb aitem_ok items = true /\ e_cw e' = e_cw e ++ flat_map aitem_cw items /\
                e_data e = flat_map aitem_data items ++ e_data e' /\ same_env e e' /\ ax_plan (e_planned e') /\
                ((e_encodation e' = Ascii /\ e_data e' = [] /\ e_new_mode e' = e_new_mode e) \/
                 (e_encodation e' = X12 /\ e_new_mode e' = Some 238 /\ e_data e' <> []))) as STEP.
    { intros e2 it OKI CW2 DA2 EV2 PL2 EA2 NM2 H2.
      assert (bytes_ok (e_data e2) = true) as OK2.
      { rewrite <- D1, DA2 in OK. apply bytes_ok_app in OK. apply OK. }
      destruct (IH e2 e' EA2 OK2 ltac:(rewrite PL2; exact AB1) H2) as (items & I1 & I2 & I3 & I4 & I5 & I6).
      exists (it :: items). cbn [forallb flat_map]. rewrite OKI, I1. split; [reflexivity|].
      split; [rewrite I2, CW2, C1, <- app_assoc; reflexivity|].
      split; [rewrite <- D1, DA2, I3, <- app_assoc; reflexivity|].
      split; [exact (same_env_trans _ _ _ EV1 (same_env_trans _ _ _ EV2 I4))|]. split; [exact I5|].
      rewrite NM2, NM1 in I6. exact I6. }
    rewrite <- D1 in OK.
    destruct (e_data e1) as [|a [|b t]] eqn:ED.
    + inversion H; subst e'. exists []. cbn [forallb flat_map app]. rewrite app_nil_r.
      split; [reflexivity|]. split; [exact C1|]. split; [rewrite ED; symmetry; exact D1|]. split; [exact EV1|]. split; [exact AB1|].
      left. rewrite EN1, NM1. repeat split; [exact EA|exact ED].
    + apply bytes_ok_cons in OK. destruct OK as [Ba _].
      destruct (N.leb_spec a 127) as [LE|GT].
      * refine (STEP _ (AChar a) _ _ _ _ _ _ _ H); [cbn; apply N.ltb_lt; lia|reflexivity|reflexivity|repeat split|reflexivity|cbn; rewrite EN1; exact EA|reflexivity].
      * refine (STEP _ (AUpper a) _ _ _ _ _ _ _ H); [cbn; apply andb_true_iff; split; [apply N.leb_le; lia|apply N.ltb_lt; exact Ba]| |reflexivity|repeat split|reflexivity|cbn; rewrite EN1; exact EA|reflexivity].
        cbn [push set_cw e_cw set_data aitem_cw]. rewrite <- app_assoc. cbn [app]. replace (a - 128 + 1) with (a - 127) by lia. reflexivity.
    + apply bytes_ok_cons in OK. destruct OK as [Ba OKb].
      destruct (is_digit a && is_digit b) eqn:DG.
      * refine (STEP _ (APair a b) _ _ _ _ _ _ _ H); [cbn; unfold is_digit in DG; unfold is_dig; exact DG| |reflexivity|repeat split|reflexivity|cbn; rewrite EN1; exact EA|reflexivity].
        cbn [push set_cw e_cw set_data aitem_cw]. f_equal. f_equal. lia.
      * destruct (N.leb_spec a 127) as [LE|GT].
        -- refine (STEP _ (AChar a) _ _ _ _ _ _ _ H); [cbn; apply N.ltb_lt; lia|reflexivity|reflexivity|repeat split|reflexivity|cbn; rewrite EN1; exact EA|reflexivity].
        -- refine (STEP _ (AUpper a) _ _ _ _ _ _ _ H); [cbn; apply andb_true_iff; split; [apply N.leb_le; lia|apply N.ltb_lt; exact Ba]| |reflexivity|repeat split|reflexivity|cbn; rewrite EN1; exact EA|reflexivity].
           cbn [push set_cw e_cw set_data aitem_cw]. rewrite <- app_assoc. cbn [app]. replace (a - 128 + 1) with (a - 127) by lia. reflexivity.
  - (* switch *)
    inversion H; subst e'. exists []. cbn [forallb flat_map]. rewrite app_nil_r.
    split; [reflexivity|]. split; [exact C1|]. split; [symmetry; exact D1|]. split; [exact EV1|]. split; [exact AB1|].
    right. destruct ABM as [A|B]; [rewrite A, EA in NE; contradiction|].
    rewrite B in NM1. cbn in NM1. split; [exact B|]. split; [exact NM1|]. rewrite D1. exact ND.
Qed.

(* ---- an X12 run: whole triples up to a planned switch, or until less than three characters are left ---- *)
Lemma x12_enc_val ch : x12_enc ch = x12_val ch.
Proof. reflexivity. Qed.

Lemma x12_loop_run : forall fuel e e' sw, e_encodation e = X12 -> ax_plan (e_planned e) -> x12_loop fuel e = Ok (e', sw) ->
  exists chars, forallb x12_ok chars = true /\ (length chars mod 3 = 0)%nat /\
    e_cw e' = e_cw e ++ pack_vals (map x12_v chars) /\ e_data e = chars ++ e_data e' /\ same_env e e' /\ ax_plan (e_planned e') /\
    e_new_mode e' = e_new_mode e /\
    ((sw = false /\ e_encodation e' = X12 /\ (length (e_data e') < 3)%nat) \/ (sw = true /\ e_encodation e' = Ascii /\ e_data e' <> [])).
Proof.
  induction fuel as [|f IH]; intros e e' sw EX AB H; cbn [x12_loop] in H; [discriminate|].
  destruct (e_data e) as [|a [|b [|c t]]] eqn:ED.
  1-3: inversion H; subst e' sw; exists []; cbn [forallb length map pack_vals app]; rewrite app_nil_r, ED;
    (split; [reflexivity|]); (split; [reflexivity|]); (split; [reflexivity|]); (split; [reflexivity|]); (split; [apply same_env_refl|]);
    (split; [exact AB|]); (split; [reflexivity|]); left; (split; [reflexivity|]); (split; [exact EX|]); cbn [length]; lia.
  destruct (x12_enc a) as [c1|] eqn:VA; destruct (x12_enc b) as [c2|] eqn:VB; destruct (x12_enc c) as [c3|] eqn:VC; try discriminate.
  rewrite x12_enc_val in VA, VB, VC.
  unfold write_three_values in H. destruct (65536 <=? 1600 * c1 + 40 * c2 + c3 + 1); cbn [bind] in H; [discriminate|].
  set (v := 1600 * c1 + 40 * c2 + c3 + 1) in *. set (e1 := push (push (set_data e t) (v / 256)) (v mod 256)) in *.
  destruct (maybe_switch_mode e1) as [[sw1 e2]| |] eqn:MS; cbn [bind] in H; try discriminate.
  destruct (msm_cases_ax e1 sw1 e2 MS AB) as (D2 & C2 & EV2 & AB2 & CASE).
  assert (forallb x12_ok [a; b; c] = true) as OK3 by (cbn [forallb]; unfold x12_ok; rewrite VA, VB, VC; reflexivity).
  assert (pack_vals (map x12_v [a; b; c]) = [v / 256; v mod 256]) as PK by (cbn [map pack_vals]; unfold x12_v; rewrite VA, VB, VC; unfold pack3; reflexivity).
  assert (e_cw e1 = e_cw e ++ [v / 256; v mod 256]) as CW1 by (cbn [e1 e_cw push set_cw set_data]; rewrite <- app_assoc; reflexivity).
  assert (same_env e e1) as EV1 by (repeat split).
  destruct CASE as [(-> & EN2 & NM2)|(-> & ND & AXM & NE & NM2)].
  - destruct (IH e2 e' sw ltac:(rewrite EN2; exact EX) AB2 H) as (chars & I1 & I2 & I3 & I4 & I5 & I6 & I7 & I8).
    exists (a :: b :: c :: chars). split; [cbn [forallb] in OK3 |- *; rewrite I1; apply andb_true_iff in OK3; destruct OK3 as [A1 O2]; apply andb_true_iff in O2; destruct O2 as [A2 A3]; rewrite andb_true_r in A3; rewrite A1, A2, A3; reflexivity|].
    split; [cbn [length]; replace (S (S (S (length chars)))) with (length chars + 1 * 3)%nat by lia; rewrite Nat.mod_add by lia; exact I2|].
    split; [rewrite I3, C2, CW1; cbn [map pack_vals]; cbn [map pack_vals] in PK; rewrite <- app_assoc; f_equal; injection PK as P1; unfold pack3 in *; cbn [app]; unfold x12_v; rewrite VA, VB, VC; reflexivity|].
    split; [cbn [app]; do 3 f_equal; rewrite <- I4, D2; reflexivity|]. split; [exact (same_env_trans _ _ _ EV1 (same_env_trans _ _ _ EV2 I5))|].
    split; [exact I6|]. split; [rewrite I7, NM2; reflexivity|exact I8].
  - inversion H; subst e' sw. exists [a; b; c]. split; [exact OK3|]. split; [reflexivity|]. split; [rewrite C2, CW1, PK; reflexivity|].
    split; [rewrite D2; reflexivity|]. split; [exact (same_env_trans _ _ _ EV1 EV2)|]. split; [exact AB2|].
    assert (e_encodation e2 = Ascii) as EA2 by (destruct AXM as [A|X]; [exact A|exfalso; apply NE; rewrite X; symmetry; exact EX]).
    split; [rewrite NM2, EA2; reflexivity|]. right. split; [reflexivity|]. split; [exact EA2|rewrite D2; exact ND].
Qed.

(* ---- the one ASCII codeword that may follow an X12 run without Unlatch ---- *)
Lemma msm_until_end d inp nm cw mo sy :
  maybe_switch_mode (mkenc d inp Ascii [(0, Ascii)] nm cw mo sy) = Ok (false, mkenc d inp Ascii [(0, Ascii)] nm cw mo sy).
Proof.
  unfold maybe_switch_mode. cbn [e_planned e_encodation e_data e_input e_new_mode e_cw e_modes e_symbols]. unfold chars_left. cbn [e_data].
  destruct (N.leb_spec 0 (N.of_nat (length d))) as [_|]; [|lia]. cbn [negb].
  destruct ((0 <? N.of_nat (length d)) && (N.of_nat (length d) =? 0)) eqn:C.
  - apply andb_true_iff in C. destruct C as [C1 C2]. apply N.ltb_lt in C1. apply N.eqb_eq in C2. lia.
  - reflexivity.
Qed.

Lemma ascii_last e : e_encodation e = Ascii -> e_planned e = [(0, Ascii)] ->
  (chars_left e <=? 2) && (ascii_encoding_size (e_data e) =? 1) = true ->
  forall fuel, exists i, aitem_ok i = true /\ single_cw i = true /\ aitem_data i = e_data e /\
    ascii_encode (S (S fuel)) e = Ok (mkenc [] (e_input e) Ascii [(0, Ascii)] (e_new_mode e) (e_cw e ++ aitem_cw i) (e_modes e) (e_symbols e)).
Proof.
  destruct e as [d inp en pl nm cw mo sy]. cbn [e_encodation e_planned e_data e_input e_new_mode e_cw e_modes e_symbols]. intros -> -> H fuel.
  apply andb_true_iff in H. destruct H as [H1 H2]. unfold chars_left in H1. cbn [e_data] in H1. apply N.leb_le in H1. apply N.eqb_eq in H2.
  destruct d as [|a [|b [|c t]]]; [cbn in H2; lia| | |cbn [length] in H1; lia].
  - cbn [ascii_encoding_size] in H2. destruct (N.leb_spec a 127) as [LE|]; [|lia].
    exists (AChar a). split; [cbn; apply N.ltb_lt; lia|]. split; [reflexivity|]. split; [reflexivity|].
    cbn [ascii_encode]. rewrite msm_until_end. cbn [bind e_data]. destruct (N.leb_spec a 127); [|lia].
    unfold push, set_data, set_cw. cbn [e_data e_input e_encodation e_planned e_new_mode e_cw e_modes e_symbols]. rewrite msm_until_end. reflexivity.
  - cbn [ascii_encoding_size] in H2. destruct (is_digit a && is_digit b) eqn:DG.
    + exists (APair a b). split; [exact DG|]. split; [reflexivity|]. split; [reflexivity|].
      cbn [ascii_encode]. rewrite msm_until_end. cbn [bind e_data]. rewrite DG.
      unfold push, set_data, set_cw. cbn [e_data e_input e_encodation e_planned e_new_mode e_cw e_modes e_symbols]. rewrite msm_until_end. cbn [bind e_data aitem_cw].
      replace ((a - 48) * 10 + (b - 48) + 130) with (130 + (10 * (a - 48) + (b - 48))) by lia. reflexivity.
    + destruct (a <=? 127); destruct (b <=? 127); lia.
Qed.

(* ---- the main loop under any ASCII / X12 plan ---- *)
Definition seg_ax (s : segment) : Prop :=
  match s with SAscii items => forallb aitem_ok items = true | SX12 chars TUnlatch => segment_ok (SX12 chars TUnlatch) = true | _ => False end.

Definition G (pre data : list N) (e : enc) (segs : list segment) : Prop :=
  e_cw e = pre ++ render (N.of_nat (length pre)) segs /\ meaning segs ++ e_data e = data /\ Forall seg_ax segs /\ ax_plan (e_planned e) /\
  ((e_encodation e = Ascii /\ e_new_mode e = None) \/ (e_encodation e = X12 /\ e_new_mode e = Some 238 /\ e_data e <> [])).

(* the symbol is chosen and full *)
Definition full (e : enc) : Prop := exists s, symbol_for e 0 = Some s /\ cw_len e = num_data_codewords s.

(* what the loop ends with: ASCII runs and unlatched X12 runs; or the same followed by an X12 run that ends the symbol, with nothing
   or with one ASCII-encoded codeword behind it, and the symbol is full *)
Definition finished (pre data : list N) (e : enc) (segs : list segment) : Prop :=
  e_cw e = pre ++ render (N.of_nat (length pre)) segs /\ meaning segs = data /\ e_data e = [] /\
  ((Forall seg_ax segs /\ e_encodation e = Ascii) \/
   (exists init chars, segs = init ++ [SX12 chars TEnd] /\ Forall seg_ax init /\ segment_ok (SX12 chars TEnd) = true /\ full e) \/
   (exists init chars i, segs = init ++ [SX12 chars TEnd; SAscii [i]] /\ Forall seg_ax init /\ segment_ok (SX12 chars TEnd) = true /\
      aitem_ok i = true /\ single_cw i = true /\ full e)).

Lemma x12_seg_ok chars t : forallb x12_ok chars = true -> (length chars mod 3 = 0)%nat -> segment_ok (SX12 chars t) = true.
Proof.
  intros A B. cbn [segment_ok]. rewrite A. cbn [andb]. apply N.eqb_eq. apply Nat.mod_divides in B; [|lia]. destruct B as [k ->].
  rewrite Nat2N.inj_mul. change (N.of_nat 3) with 3. rewrite N.mul_comm. apply N.mod_mul. lia.
Qed.

Lemma full_of_left e extra s : symbol_size_left e extra = Some 0 -> symbol_for e extra = Some s -> cw_len e + extra = num_data_codewords s.
Proof.
  unfold symbol_size_left. intros H SF. rewrite SF in H. inversion H as [H0]. unfold symbol_for in SF. apply first_fit_In in SF. lia.
Qed.

Lemma main_loop_ax pre data : bytes_ok data = true -> forall fuel e nwr segs e', G pre data e segs ->
  main_loop fuel e nwr = Ok e' -> exists segs', finished pre data e' segs' /\ e_symbols e' = e_symbols e.
Proof.
  intros OKD. induction fuel as [|f IH]; intros e nwr segs e' (GC & GM & GS & GP & GE) H; cbn [main_loop] in H; [discriminate|].
  destruct (has_more e) eqn:HM0; cbn [negb] in H.
  2:{ (* done *)
    assert (e_data e = []) as ED by (unfold has_more in HM0; destruct (e_data e); [reflexivity|discriminate]).
    inversion H; subst e'. exists segs. split; [|reflexivity].
    rewrite ED, app_nil_r in GM. destruct GE as [(EA & _)|(_ & _ & ND)]; [|congruence].
    split; [exact GC|]. split; [exact GM|]. split; [exact ED|]. left. split; assumption. }
  assert (e_data e <> []) as ND by (unfold has_more in HM0; destruct (e_data e); [discriminate|discriminate]).
  assert (bytes_ok (e_data e) = true) as OKE.
  { rewrite <- GM in OKD. apply bytes_ok_app in OKD. apply OKD. }
  assert (forall e1 segs1, G pre data e1 segs1 -> e_symbols e1 = e_symbols e -> (exists n1, main_loop f e1 n1 = Ok e') ->
            exists segs', finished pre data e' segs' /\ e_symbols e' = e_symbols e) as REC.
  { intros e1 segs1 G1 ES1 (n1 & M1). destruct (IH e1 n1 segs1 e' G1 M1) as (segs' & F & ES). exists segs'. split; [exact F|congruence]. }
  assert (forall (e1 : enc) (len : nat) (X : ER enc), X = Ok e' ->
            (X = (if (length (e_cw e1) <? len)%nat then Panic POverflow else
                 if (length (e_cw e1) - len <=? 1)%nat then (if 5 <? nwr + 1 then Panic PAssert else main_loop f e1 (nwr + 1)) else main_loop f e1 0)) ->
            exists n1, main_loop f e1 n1 = Ok e') as TAIL.
  { intros e1 len X HX EX. rewrite EX in HX. destruct (length (e_cw e1) <? len)%nat; [discriminate|].
    destruct (length (e_cw e1) - len <=? 1)%nat; [destruct (5 <? nwr + 1); [discriminate|]|]; eexists; exact HX. }
  destruct GE as [(EA & NM)|(EX & NM & _)].
  - (* an ASCII run *)
    rewrite NM in H. unfold mode_encode in H. rewrite EA in H.
    destruct (ascii_encode (S (S (length (e_data e)))) e) as [e1| |] eqn:AE; cbn [bind] in H; try discriminate.
    destruct (ascii_run_ax _ e e1 EA OKE GP AE) as (items & I1 & I2 & I3 & (_ & _ & I4) & I5 & I6).
    apply (REC e1 (segs ++ [SAscii items])); [|exact I4|exact (TAIL e1 _ _ H eq_refl)].
    split; [rewrite I2, GC, render_snoc, <- app_assoc; reflexivity|]. split; [rewrite meaning_snoc; cbn [segment_data]; rewrite <- app_assoc, <- I3; exact GM|].
    split; [apply Forall_app; split; [exact GS|constructor; [exact I1|constructor]]|]. split; [exact I5|].
    destruct I6 as [(A & B & C)|(A & B & C)]; [left; split; [exact A|rewrite C; exact NM]|right; repeat split; assumption].
  - (* an X12 run *)
    rewrite NM in H. set (el := push (mkenc (e_data e) (e_input e) (e_encodation e) (e_planned e) None (e_cw e) (e_modes e) (e_symbols e)) 238) in *.
    unfold mode_encode in H. cbn [e_encodation el push set_cw] in H. rewrite EX in H.
    destruct (x12_encode el) as [e1| |] eqn:XE; cbn [bind] in H; try discriminate.
    pose proof (TAIL e1 _ _ H eq_refl) as (n1 & M1). clear H TAIL.
    unfold x12_encode in XE. destruct (x12_loop (S (length (e_data el))) el) as [[ex sw]| |] eqn:XL; cbn [bind] in XE; try discriminate.
    destruct (x12_loop_run _ el ex sw EX GP XL) as (chars & R1 & R2 & R3 & R4 & (_ & _ & R5) & R6 & R7 & R8).
    cbn [e_data e_cw e_new_mode e_symbols el push set_cw] in R3, R4, R5, R7.
    assert (forall t, e_cw ex ++ term_cw t = pre ++ render (N.of_nat (length pre)) (segs ++ [SX12 chars t])) as CWX.
    { intros t. rewrite render_snoc, R3, GC. cbn [segment_cw]. rewrite <- !app_assoc. reflexivity. }
    assert (forall t, meaning (segs ++ [SX12 chars t]) ++ e_data ex = data) as MX.
    { intros t. rewrite meaning_snoc. cbn [segment_data]. rewrite <- app_assoc, <- R4. exact GM. }
    assert (e_encodation ex = Ascii \/ sw = false) as SWA by (destruct R8 as [(A & _)|(_ & B & _)]; [right; exact A|left; exact B]).
    (* the part after the early-end test *)
    assert ((let* need := (if has_more ex then Ok true else let* l := ssl ex 0 in Ok (0 <? l)) in
             if need then Ok (push (if negb sw then set_ascii_until_end ex else ex) UNLATCH) else Ok ex) = Ok e1 ->
            exists segs', finished pre data e' segs' /\ e_symbols e' = e_symbols e) as LATE.
    { intros XN.
      assert (G pre data (push (if negb sw then set_ascii_until_end ex else ex) UNLATCH) (segs ++ [SX12 chars TUnlatch])) as GU.
      { split; [rewrite <- CWX; destruct (negb sw); reflexivity|]. split; [rewrite <- (MX TUnlatch); destruct (negb sw); reflexivity|].
        split; [apply Forall_app; split; [exact GS|constructor; [apply x12_seg_ok; assumption|constructor]]|].
        split; [destruct (negb sw); [constructor; [left; reflexivity|constructor]|exact R6]|].
        left. destruct sw; cbn [negb]; [split; [destruct SWA as [A|A]; [exact A|discriminate]|exact R7]|split; [reflexivity|exact R7]]. }
      destruct (has_more ex) eqn:HMX; cbn [bind] in XN.
      - inversion XN; subst e1. apply (REC _ _ GU); [destruct (negb sw); exact R5|exists n1; exact M1].
      - unfold ssl in XN. destruct (symbol_size_left ex 0) as [l|] eqn:SS; cbn [bind] in XN; [|discriminate].
        destruct (N.ltb_spec 0 l) as [POS|Z].
        + inversion XN; subst e1. apply (REC _ _ GU); [destruct (negb sw); exact R5|exists n1; exact M1].
        + inversion XN; subst e1. assert (l = 0) as -> by lia.
          assert (e_data ex = []) as DE by (unfold has_more in HMX; destruct (e_data ex); [reflexivity|discriminate]).
          destruct f as [|f']; cbn [main_loop] in M1; [discriminate|]. rewrite HMX in M1. cbn [negb] in M1. inversion M1; subst e'.
          exists (segs ++ [SX12 chars TEnd]). split; [|exact R5].
          split; [rewrite <- CWX; cbn [term_cw]; rewrite app_nil_r; reflexivity|]. split; [rewrite <- (MX TEnd), DE, app_nil_r; reflexivity|]. split; [exact DE|].
          right. left. exists segs, chars. split; [reflexivity|]. split; [exact GS|]. split; [apply x12_seg_ok; assumption|].
          unfold symbol_size_left in SS. destruct (symbol_for ex 0) as [s|] eqn:SF; [|discriminate]. exists s. split; [exact SF|].
          pose proof (full_of_left ex 0 s ltac:(unfold symbol_size_left; rewrite SF; exact SS) SF). lia. }
    destruct ((chars_left ex <=? 2) && (ascii_encoding_size (e_data ex) =? 1)) eqn:ONE; [|cbn [bind] in XE; exact (LATE XE)].
    unfold ssl in XE. destruct (symbol_size_left ex 1) as [l|] eqn:SS; cbn [bind] in XE; [|discriminate].
    destruct (N.eqb_spec l 0) as [-> |NZ]; [|exact (LATE XE)].
    (* the early end: one ASCII codeword fills the symbol *)
    inversion XE; subst e1. clear LATE XE.
    destruct f as [|f']; cbn [main_loop] in M1; [discriminate|].
    assert (e_data ex <> []) as NDX.
    { intros Z. rewrite Z in ONE. cbn in ONE. rewrite andb_false_r in ONE. discriminate. }
    rewrite (has_more_cons (set_ascii_until_end ex)) in M1 by exact NDX. cbn [negb] in M1.
    cbn [e_new_mode set_ascii_until_end] in M1. rewrite R7 in M1. unfold mode_encode in M1. cbn [e_encodation set_ascii_until_end] in M1.
    destruct (ascii_last (set_ascii_until_end ex) eq_refl eq_refl ONE (length (e_data (set_ascii_until_end ex)))) as (i & A1 & A2 & A3 & AE).
    rewrite AE in M1. cbn [bind] in M1.
    set (e2 := mkenc [] (e_input (set_ascii_until_end ex)) Ascii [(0, Ascii)] (e_new_mode (set_ascii_until_end ex)) (e_cw (set_ascii_until_end ex) ++ aitem_cw i)
                     (e_modes (set_ascii_until_end ex)) (e_symbols (set_ascii_until_end ex))) in *.
    assert (exists n2, main_loop f' e2 n2 = Ok e') as (n2 & M2).
    { destruct (length (e_cw e2) <? _)%nat; [discriminate|]. destruct (length (e_cw e2) - _ <=? 1)%nat; [destruct (5 <? _); [discriminate|]|]; eexists; exact M1. }
    destruct f' as [|f'']; cbn [main_loop] in M2; [discriminate|]. change (has_more e2) with false in M2. cbn [negb] in M2. inversion M2; subst e'.
    exists (segs ++ [SX12 chars TEnd; SAscii [i]]). split; [|exact R5].
    assert (length (aitem_cw i) = 1%nat) as L1 by (destruct i; [reflexivity|reflexivity|discriminate]).
    split.
    { cbn [e_cw e2 set_ascii_until_end]. change (segs ++ [SX12 chars TEnd; SAscii [i]]) with (segs ++ [SX12 chars TEnd] ++ [SAscii [i]]). rewrite app_assoc, render_snoc, (app_assoc pre), <- CWX.
      cbn [term_cw segment_cw flat_map]. rewrite !app_nil_r. reflexivity. }
    split.
    { change (segs ++ [SX12 chars TEnd; SAscii [i]]) with (segs ++ [SX12 chars TEnd] ++ [SAscii [i]]). rewrite app_assoc, meaning_snoc. cbn [segment_data flat_map]. rewrite app_nil_r, A3.
      cbn [e_data set_ascii_until_end]. exact (MX TEnd). }
    split; [reflexivity|]. right. right. exists segs, chars, i. split; [reflexivity|]. split; [exact GS|]. split; [apply x12_seg_ok; assumption|]. split; [exact A1|]. split; [exact A2|].
    unfold symbol_size_left in SS. destruct (symbol_for ex 1) as [s|] eqn:SF; [|discriminate]. exists s.
    pose proof (full_of_left ex 1 s ltac:(unfold symbol_size_left; rewrite SF; exact SS) SF) as FL.
    assert (cw_len e2 = cw_len ex + 1) as CL2 by (unfold cw_len; cbn [e_cw e2 set_ascii_until_end]; rewrite app_length, L1; lia).
    split; [|lia]. unfold symbol_for in *. cbn [e_symbols e2 set_ascii_until_end]. rewrite CL2, N.add_0_r. exact SF.
Qed.

(* ---- legality of the scripts, and the theorem ---- *)
Lemma script_ok_ax_app init tail_ npad : Forall seg_ax init -> script_ok tail_ npad = true -> script_ok (init ++ tail_) npad = true.
Proof.
  induction 1 as [|s r Hs Hr IH]; intros OK; [exact OK|]. specialize (IH OK).
  destruct s as [items| | | |chars t|]; try contradiction; cbn [app script_ok term_of]; cbn [seg_ax] in Hs.
  - cbn [segment_ok]. rewrite Hs, IH. reflexivity.
  - destruct t; [|contradiction]. rewrite Hs, IH. reflexivity.
Qed.

Definition ax_seg (s : segment) : Prop := match s with SAscii _ | SX12 _ _ => True | _ => False end.
Lemma seg_ax_ax_seg l : Forall seg_ax l -> Forall ax_seg l.
Proof. apply Forall_impl. intros s. destruct s as [| | | |c t|]; cbn; auto. Qed.

Lemma padding_zero b len : padding b len 0 = [].
Proof. reflexivity. Qed.

Section AXPlans.
Variable optimize_fn : list N -> N -> list SymbolSize -> N -> PR (option (list (N * EncodationType))).
Variables (symbols : list SymbolSize) (modes : N).

Lemma codewords_ax (pre d inp : list N) cw s :
  (forall p, optimize_fn d (N.of_nat (length pre)) symbols modes = Ok (Some p) -> ax_plan p) -> bytes_ok d = true ->
  codewords optimize_fn (mkenc d inp Ascii [] None pre modes symbols) = Ok (cw, s) ->
  exists script npad, script_ok script npad = true /\ cw = pre ++ tailS (N.of_nat (length pre)) script npad /\ meaning script = d /\ Forall ax_seg script.
Proof.
  intros plans_ax OK. unfold codewords.
  cbn [e_symbols e_data e_modes e_input e_encodation e_new_mode e_cw].
  destruct symbols as [|s0 sr] eqn:ES; [discriminate|]. rewrite <- ES in *.
  destruct (_ <? _); [discriminate|]. destruct (upper_limit_for_number_of_codewords _ _); [|discriminate].
  change (cw_len (mkenc d inp Ascii [] None pre modes symbols)) with (N.of_nat (length pre)).
  destruct (optimize_fn d (N.of_nat (length pre)) symbols modes) as [p| |] eqn:EO; cbn [bind lift]; try discriminate.
  destruct p as [p|]; [|discriminate]. pose proof (plans_ax p eq_refl) as PA.
  destruct (main_loop _ _ 0) as [e3| |] eqn:ML; cbn [bind]; try discriminate.
  destruct (symbol_for e3 0) as [s'|] eqn:FF; [|discriminate].
  destruct (add_padding e3 s') as [e4| |] eqn:AP; cbn [bind]; try discriminate. intros [= <- <-].
  apply add_padding_spec in AP. destruct AP as (L & C4 & _).
  destruct (main_loop_ax pre d OK (6 * length d + 12)%nat (mkenc d inp Ascii p None pre modes symbols) 0 [] e3)
    as (segs & (FC & FM & FD & FE) & _); [|exact ML|].
  { split; [cbn [e_cw render]; rewrite app_nil_r; reflexivity|]. split; [reflexivity|]. split; [constructor|]. split; [exact PA|]. left. split; reflexivity. }
  assert (forall init tl, segs = init ++ tl -> full e3 -> e_cw e4 = pre ++ tailS (N.of_nat (length pre)) segs 0 /\ num_data_codewords s' - cw_len e3 = 0) as FULLC.
  { intros init tl -> (sx & SF & FU). rewrite SF in FF. inversion FF; subst sx. rewrite FU, N.sub_diag in C4 |- *. rewrite padding_zero, app_nil_r in C4.
    split; [|reflexivity]. rewrite C4, FC. unfold tailS. cbv zeta. cbn [pad]. rewrite app_nil_r. reflexivity. }
  destruct FE as [(AX & FA)|[(init & chars & -> & AX & SO & FU)|(init & chars & i & -> & AX & SO & A1 & A2 & FU)]].
  - exists segs, (N.to_nat (num_data_codewords s' - cw_len e3)). split; [|split; [|split; [exact FM|apply seg_ax_ax_seg; exact AX]]].
    + rewrite <- (app_nil_r segs). apply script_ok_ax_app; [exact AX|reflexivity].
    + rewrite FA in C4. rewrite (proj2 (N.eqb_eq _ _) eq_refl : et_eqb Ascii Ascii = true) in C4. rewrite padding_pad in C4.
      rewrite C4, FC. unfold tailS, cw_len. cbv zeta. rewrite FC, <- app_assoc, app_length, Nat2N.inj_add. reflexivity.
  - destruct (FULLC init [SX12 chars TEnd] eq_refl FU) as (C & Z). exists (init ++ [SX12 chars TEnd]), 0%nat.
    split; [apply script_ok_ax_app; [exact AX|]; cbn [script_ok term_of ends_symbol]; apply andb_true_iff; split; [apply andb_true_iff; split; [exact SO|reflexivity]|reflexivity]|].
    split; [exact C|]. split; [exact FM|]. apply Forall_app. split; [apply seg_ax_ax_seg; exact AX|constructor; [exact I|constructor]].
  - destruct (FULLC init [SX12 chars TEnd; SAscii [i]] eq_refl FU) as (C & Z). exists (init ++ [SX12 chars TEnd; SAscii [i]]), 0%nat.
    assert (length (aitem_cw i) = 1%nat) as L1 by (destruct i; [reflexivity|reflexivity|discriminate]).
    split; [apply script_ok_ax_app; [exact AX|]; cbn [script_ok term_of]; rewrite SO; cbn [ends_symbol segment_ok forallb rest_len render segment_cw flat_map andb]; rewrite A1; unfold ends_symbol, rest_len; cbn [render segment_cw flat_map]; cbv zeta; rewrite !app_nil_r, L1, A1, A2; reflexivity|].
    split; [exact C|]. split; [exact FM|]. apply Forall_app. split; [apply seg_ax_ax_seg; exact AX|constructor; [exact I|constructor; [exact I|constructor]]].
Qed.

Variable data : list N.
Hypothesis plans_ax : forall p, optimize_fn data 0 symbols modes = Ok (Some p) -> ax_plan p.

Theorem ax_plan_roundtrip cw s : bytes_ok data = true ->
  encode_data_internal optimize_fn data symbols None modes false false = Ok (cw, s) ->
  (exists script npad, script_ok script npad = true /\ cw = stream script npad /\ meaning script = data /\ Forall ax_seg script) /\
  decode_data cw = Ok data.
Proof.
  intros OK H.
  assert (exists script npad, script_ok script npad = true /\ cw = stream script npad /\ meaning script = data /\ Forall ax_seg script) as (script & npad & SO & CW & ME & SH).
  2:{ split; [exists script, npad; auto|]. rewrite CW, (decode_script _ _ SO), ME. reflexivity. }
  revert H. unfold encode_data_internal. cbv zeta. cbn [bind]. intros H.
  destruct (codewords_ax [] data data cw s plans_ax OK H) as (script & npad & SO & CW & ME & SH).
  exists script, npad. split; [exact SO|split; [|split; [exact ME|exact SH]]]. rewrite CW. unfold stream, tailS. cbn [app length]. rewrite N.add_0_l. reflexivity.
Qed.
End AXPlans.

Lemma ax_plans_of_modes sorter symbols modes d w :
  (forall k l l', sorter symbols k l = Ok l' -> incl l' l) -> (forall m, enabled modes m = true -> ax_mode m) ->
  forall p, optimize_fn sorter d w symbols modes = Ok (Some p) -> ax_plan p.
Proof.
  intros HS HM p. unfold optimize_fn. destruct (optimize symbols (sorter symbols) d w Ascii modes) as [[r st]| |] eqn:EO; cbn [bind]; try discriminate.
  intros [= ->]. destruct (optimize_shape symbols (sorter symbols) HS d w Ascii modes p st EO) as (_ & M & _).
  unfold ax_plan. apply Forall_forall. intros x Hx. unfold modes_ok in M. rewrite Forall_forall in M. apply HM. exact (M x Hx).
Qed.

(* with the crate's optimiser: any mode set within {ASCII, X12} -- the sets {X12} and {ASCII, X12} beyond {ASCII} --, any admissible
   sort; the plan is not characterised at all, only its modes are (C13) *)
Theorem ax_modes_roundtrip sorter data symbols modes cw s :
  (forall k l l', sorter symbols k l = Ok l' -> incl l' l) ->
  (forall m, enabled modes m = true -> ax_mode m) -> bytes_ok data = true ->
  encode_data_internal (optimize_fn sorter) data symbols None modes false false = Ok (cw, s) ->
  (exists script npad, script_ok script npad = true /\ cw = stream script npad /\ meaning script = data /\ Forall ax_seg script) /\
  decode_data cw = Ok data.
Proof.
  intros HS HM OK H. apply (ax_plan_roundtrip (optimize_fn sorter) symbols modes data) with (s := s); [|exact OK|exact H].
  apply ax_plans_of_modes; assumption.
Qed.

(* ---- the same with a Macro 05 / 06 envelope or an FNC1 start ---- *)
Theorem macro_ax_roundtrip sorter data symbols modes body m head cw s :
  (forall k l l', sorter symbols k l = Ok l' -> incl l' l) ->
  (forall m, enabled modes m = true -> ax_mode m) -> bytes_ok body = true ->
  (m = MACRO05 /\ head = MACRO05_HEAD) \/ (m = MACRO06 /\ head = MACRO06_HEAD) ->
  data = head ++ body ++ MACRO_TRAIL ->
  encode_data_internal (optimize_fn sorter) data symbols None modes true false = Ok (cw, s) ->
  (exists script npad, script_ok script npad = true /\ cw = stream_with m script npad /\ meaning script = body /\ Forall ax_seg script) /\
  decode_data cw = Ok data.
Proof.
  intros HS HMo OK HM HD H.
  assert (exists script npad, script_ok script npad = true /\ cw = stream_with m script npad /\ meaning script = body /\ Forall ax_seg script) as (script & npad & SO & CW & ME & SH).
  2:{ split; [exists script, npad; auto|]. rewrite CW, (decode_script_macro _ _ m head HM SO), ME, HD. reflexivity. }
  revert H. unfold encode_data_internal. cbv zeta.
  set (e0 := with_size data symbols modes false).
  destruct (use_macro_spec e0) as (e1 & UM & M5 & M6 & _). rewrite UM. cbn [bind].
  assert (e1 = strip_to e0 body m) as ->.
  { destruct HM as [[-> ->]|[-> ->]]; [apply M5|apply M6]; try reflexivity; unfold enveloped; exact HD. }
  unfold strip_to, e0, with_size. cbn [e_encodation e_planned e_new_mode e_cw e_modes e_symbols app]. intros H.
  destruct (codewords_ax (optimize_fn sorter) symbols modes [m] body body cw s (ax_plans_of_modes sorter symbols modes body _ HS HMo) OK H) as (script & npad & SO & CW & ME & SH).
  exists script, npad. split; [exact SO|split; [exact CW|split; [exact ME|exact SH]]].
Qed.

Theorem fnc1_ax_roundtrip sorter data symbols modes use_macros cw s :
  (forall k l l', sorter symbols k l = Ok l' -> incl l' l) ->
  (forall m, enabled modes m = true -> ax_mode m) -> bytes_ok data = true ->
  encode_data_internal (optimize_fn sorter) data symbols None modes use_macros true = Ok (cw, s) ->
  (exists script npad, script_ok script npad = true /\ cw = stream_with ascii_FNC1 script npad /\ meaning script = data /\ Forall ax_seg script) /\
  decode_data cw = Ok data.
Proof.
  intros HS HMo OK H.
  assert (exists script npad, script_ok script npad = true /\ cw = stream_with ascii_FNC1 script npad /\ meaning script = data /\ Forall ax_seg script) as (script & npad & SO & CW & ME & SH).
  2:{ split; [exists script, npad; auto|]. rewrite CW, (decode_script_fnc1 _ _ SO), ME. reflexivity. }
  revert H. unfold encode_data_internal. cbv zeta.
  set (um := if use_macros then _ else _).
  assert (um = Ok (with_size data symbols modes true)) as -> by (unfold um; destruct use_macros; reflexivity).
  cbn [bind]. unfold with_size. intros H.
  destruct (codewords_ax (optimize_fn sorter) symbols modes [ascii_FNC1] data data cw s (ax_plans_of_modes sorter symbols modes data _ HS HMo) OK H) as (script & npad & SO & CW & ME & SH).
  exists script, npad. split; [exact SO|split; [exact CW|split; [exact ME|exact SH]]].
Qed.
Print Assumptions macro_ax_roundtrip.
